// vgen regenerates coq/Gen/*.v from golang/mod's current source: the loop-free
// character-class predicates are translated expression by expression into Gallina,
// constants, string tables and regular-expression sources are copied, and the unicode
// range tables are dumped from the Go toolchain in use.  The Coq theorems that mention
// them are then re-checked against what the code says now.
//
//	vgen -repo /repo -out /verif/coq/Gen
//
// Anything it cannot translate is reported on stdout as "UNTRANSLATABLE <what>: <why>"
// and the definition is omitted, so dependent Coq files stop compiling.
package main

import (
	"bytes"
	"flag"
	"fmt"
	"go/ast"
	"go/constant"
	"go/parser"
	"go/token"
	"os"
	"path/filepath"
	"sort"
	"strconv"
	"strings"
	"unicode"
)

var fset = token.NewFileSet()

type pkgSrc struct {
	name  string
	files []*ast.File
	funcs map[string]*ast.FuncDecl
	vals  map[string]ast.Expr // package-level const/var initialisers
}

func load(dir, name string) *pkgSrc {
	pkgs, err := parser.ParseDir(fset, dir, func(fi os.FileInfo) bool {
		return !strings.HasSuffix(fi.Name(), "_test.go")
	}, parser.ParseComments)
	if err != nil {
		fmt.Println("UNTRANSLATABLE package", dir, ":", err)
		return &pkgSrc{name: name, funcs: map[string]*ast.FuncDecl{}, vals: map[string]ast.Expr{}}
	}
	p := &pkgSrc{name: name, funcs: map[string]*ast.FuncDecl{}, vals: map[string]ast.Expr{}}
	for _, pk := range pkgs {
		for _, f := range pk.Files {
			p.files = append(p.files, f)
			for _, d := range f.Decls {
				switch d := d.(type) {
				case *ast.FuncDecl:
					if d.Recv == nil {
						p.funcs[d.Name.Name] = d
					}
				case *ast.GenDecl:
					for _, s := range d.Specs {
						if vs, ok := s.(*ast.ValueSpec); ok {
							for i, n := range vs.Names {
								if i < len(vs.Values) {
									p.vals[n.Name] = vs.Values[i]
								}
							}
						}
					}
				}
			}
		}
	}
	return p
}

type untranslatable struct{ why string }

func fail(format string, a ...any) { panic(untranslatable{fmt.Sprintf(format, a...)}) }

// translator for one predicate
type tr struct {
	p      *pkgSrc
	param  string
	consts map[string]string // local string constants
	calls  map[string]bool   // functions of the same package referenced
}

func zlit(n int64) string {
	if n < 0 {
		return "(" + strconv.FormatInt(n, 10) + ")"
	}
	return strconv.FormatInt(n, 10)
}

func strList(s string) string {
	var parts []string
	for _, b := range []byte(s) {
		parts = append(parts, strconv.Itoa(int(b)))
	}
	return "[" + strings.Join(parts, "; ") + "]"
}

func runeList(s string) string {
	var parts []string
	for _, r := range s {
		parts = append(parts, strconv.Itoa(int(r)))
	}
	return "[" + strings.Join(parts, "; ") + "]"
}

// integer-valued expression
func (t *tr) intExpr(e ast.Expr) string {
	switch e := e.(type) {
	case *ast.ParenExpr:
		return t.intExpr(e.X)
	case *ast.Ident:
		if e.Name == t.param {
			return "r"
		}
		fail("integer identifier %s", e.Name)
	case *ast.BasicLit:
		switch e.Kind {
		case token.CHAR:
			s, err := strconv.Unquote(e.Value)
			if err != nil {
				fail("char literal %s", e.Value)
			}
			return zlit(int64([]rune(s)[0]))
		case token.INT:
			n, err := strconv.ParseInt(e.Value, 0, 64)
			if err != nil {
				fail("int literal %s", e.Value)
			}
			return zlit(n)
		}
	case *ast.SelectorExpr:
		if x, ok := e.X.(*ast.Ident); ok && x.Name == "utf8" && e.Sel.Name == "RuneSelf" {
			return "128"
		}
	case *ast.CallExpr: // conversions rune(c), int(c), byte(c)
		if id, ok := e.Fun.(*ast.Ident); ok && len(e.Args) == 1 && (id.Name == "rune" || id.Name == "int" || id.Name == "int32") {
			return t.intExpr(e.Args[0])
		}
	}
	fail("integer expression %T", e)
	return ""
}

func (t *tr) strConst(e ast.Expr) string {
	switch e := e.(type) {
	case *ast.BasicLit:
		if e.Kind == token.STRING {
			s, err := strconv.Unquote(e.Value)
			if err == nil {
				return s
			}
		}
	case *ast.Ident:
		if s, ok := t.consts[e.Name]; ok {
			return s
		}
		if v, ok := t.p.vals[e.Name]; ok {
			return t.strConst(v)
		}
	}
	fail("string constant %T", e)
	return ""
}

func (t *tr) boolExpr(e ast.Expr) string {
	switch e := e.(type) {
	case *ast.ParenExpr:
		return t.boolExpr(e.X)
	case *ast.Ident:
		if e.Name == "true" || e.Name == "false" {
			return e.Name
		}
	case *ast.UnaryExpr:
		if e.Op == token.NOT {
			return "(negb " + t.boolExpr(e.X) + ")"
		}
	case *ast.BinaryExpr:
		switch e.Op {
		case token.LOR:
			return "(" + t.boolExpr(e.X) + " || " + t.boolExpr(e.Y) + ")"
		case token.LAND:
			return "(" + t.boolExpr(e.X) + " && " + t.boolExpr(e.Y) + ")"
		case token.EQL:
			return "(" + t.intExpr(e.X) + " =? " + t.intExpr(e.Y) + ")"
		case token.NEQ:
			return "(negb (" + t.intExpr(e.X) + " =? " + t.intExpr(e.Y) + "))"
		case token.LSS:
			return "(" + t.intExpr(e.X) + " <? " + t.intExpr(e.Y) + ")"
		case token.LEQ:
			return "(" + t.intExpr(e.X) + " <=? " + t.intExpr(e.Y) + ")"
		case token.GTR:
			return "(" + t.intExpr(e.Y) + " <? " + t.intExpr(e.X) + ")"
		case token.GEQ:
			return "(" + t.intExpr(e.Y) + " <=? " + t.intExpr(e.X) + ")"
		}
	case *ast.CallExpr:
		switch f := e.Fun.(type) {
		case *ast.Ident:
			if _, ok := t.p.funcs[f.Name]; ok && len(e.Args) == 1 {
				t.calls[f.Name] = true
				return "(" + t.p.name + "_" + f.Name + " " + t.intExpr(e.Args[0]) + ")"
			}
		case *ast.SelectorExpr:
			x, _ := f.X.(*ast.Ident)
			if x != nil && x.Name == "unicode" && len(e.Args) == 1 {
				switch f.Sel.Name {
				case "IsLetter", "IsSpace", "IsPrint", "IsDigit", "IsUpper", "IsLower":
					return "(unicode_" + f.Sel.Name + " " + t.intExpr(e.Args[0]) + ")"
				}
			}
			if x != nil && x.Name == "strings" && f.Sel.Name == "ContainsRune" && len(e.Args) == 2 {
				return "(existsb (fun x => x =? " + t.intExpr(e.Args[1]) + ") " + runeList(t.strConst(e.Args[0])) + ")"
			}
		}
	}
	fail("boolean expression %T at %v", e, fset.Position(e.Pos()))
	return ""
}

// a statement list that must end in a return on every path
func (t *tr) stmts(ss []ast.Stmt) string {
	if len(ss) == 0 {
		fail("missing return")
	}
	switch s := ss[0].(type) {
	case *ast.ReturnStmt:
		if len(s.Results) != 1 {
			fail("return arity")
		}
		return t.boolExpr(s.Results[0])
	case *ast.DeclStmt:
		gd, ok := s.Decl.(*ast.GenDecl)
		if !ok || gd.Tok != token.CONST {
			fail("declaration")
		}
		for _, sp := range gd.Specs {
			vs := sp.(*ast.ValueSpec)
			for i, n := range vs.Names {
				t.consts[n.Name] = t.strConst(vs.Values[i])
			}
		}
		return t.stmts(ss[1:])
	case *ast.IfStmt:
		if s.Init != nil {
			fail("if with init")
		}
		thenB := t.stmts(s.Body.List)
		var elseB string
		if s.Else != nil {
			eb, ok := s.Else.(*ast.BlockStmt)
			if !ok {
				fail("else if")
			}
			elseB = t.stmts(eb.List)
		} else {
			elseB = t.stmts(ss[1:])
		}
		return "(if " + t.boolExpr(s.Cond) + " then " + thenB + " else " + elseB + ")"
	case *ast.SwitchStmt:
		// switch r := rune(c); r { case lits: return e ... default: return e }
		tag := ""
		if s.Init != nil {
			as, ok := s.Init.(*ast.AssignStmt)
			if !ok || len(as.Lhs) != 1 || len(as.Rhs) != 1 {
				fail("switch init")
			}
			v := t.intExpr(as.Rhs[0])
			if v != "r" {
				fail("switch init value")
			}
			// the new name aliases the parameter
			old := t.param
			defer func() { t.param = old }()
			t.param = as.Lhs[0].(*ast.Ident).Name
		}
		if s.Tag == nil {
			fail("tagless switch")
		}
		tag = t.intExpr(s.Tag)
		var deflt string
		type arm struct{ cond, body string }
		var arms []arm
		for _, c := range s.Body.List {
			cc := c.(*ast.CaseClause)
			body := t.stmts(cc.Body)
			if cc.List == nil {
				deflt = body
				continue
			}
			var conds []string
			for _, x := range cc.List {
				conds = append(conds, "("+tag+" =? "+t.intExpr(x)+")")
			}
			arms = append(arms, arm{"(" + strings.Join(conds, " || ") + ")", body})
		}
		if deflt == "" {
			deflt = t.stmts(ss[1:])
		}
		out := deflt
		for i := len(arms) - 1; i >= 0; i-- {
			out = "(if " + arms[i].cond + " then " + arms[i].body + " else " + out + ")"
		}
		return out
	}
	fail("statement %T at %v", ss[0], fset.Position(ss[0].Pos()))
	return ""
}

func translatePred(p *pkgSrc, name string, done map[string]bool, out *bytes.Buffer) {
	if done[p.name+"."+name] {
		return
	}
	done[p.name+"."+name] = true
	fd := p.funcs[name]
	defer func() {
		if r := recover(); r != nil {
			if u, ok := r.(untranslatable); ok {
				fmt.Printf("UNTRANSLATABLE %s.%s: %s\n", p.name, name, u.why)
				return
			}
			panic(r)
		}
	}()
	if fd == nil {
		fail("function not found")
	}
	if fd.Type.Params.NumFields() != 1 || len(fd.Type.Params.List[0].Names) != 1 || fd.Type.Results.NumFields() != 1 {
		fail("signature")
	}
	t := &tr{p: p, param: fd.Type.Params.List[0].Names[0].Name, consts: map[string]string{}, calls: map[string]bool{}}
	body := t.stmts(fd.Body.List)
	var deps []string
	for c := range t.calls {
		deps = append(deps, c)
	}
	sort.Strings(deps)
	for _, c := range deps {
		translatePred(p, c, done, out)
	}
	pos := fset.Position(fd.Pos())
	fmt.Fprintf(out, "(* %s:%d func %s *)\nDefinition %s_%s (r : Z) : bool :=\n  %s.\n\n", filepath.Base(pos.Filename), pos.Line, name, p.name, name, body)
}

// constant evaluation for integer constants such as 500 << 20
func evalInt(p *pkgSrc, e ast.Expr) (constant.Value, bool) {
	switch e := e.(type) {
	case *ast.BasicLit:
		return constant.MakeFromLiteral(e.Value, e.Kind, 0), true
	case *ast.ParenExpr:
		return evalInt(p, e.X)
	case *ast.Ident:
		if v, ok := p.vals[e.Name]; ok {
			return evalInt(p, v)
		}
	case *ast.BinaryExpr:
		x, ok1 := evalInt(p, e.X)
		y, ok2 := evalInt(p, e.Y)
		if ok1 && ok2 {
			if e.Op == token.SHL || e.Op == token.SHR {
				n, _ := constant.Uint64Val(y)
				return constant.Shift(x, e.Op, uint(n)), true
			}
			return constant.BinaryOp(x, e.Op, y), true
		}
	}
	return nil, false
}

func emitInt(p *pkgSrc, name string, out *bytes.Buffer) {
	v, ok := p.vals[name]
	if ok {
		if c, ok := evalInt(p, v); ok && c.Kind() == constant.Int {
			fmt.Fprintf(out, "Definition %s_%s : Z := %s.\n", p.name, name, c.ExactString())
			return
		}
	}
	fmt.Printf("UNTRANSLATABLE %s.%s: integer constant\n", p.name, name)
}

func strOf(p *pkgSrc, e ast.Expr) (string, bool) {
	switch e := e.(type) {
	case *ast.BasicLit:
		if e.Kind == token.STRING {
			s, err := strconv.Unquote(e.Value)
			return s, err == nil
		}
	case *ast.Ident:
		if v, ok := p.vals[e.Name]; ok {
			return strOf(p, v)
		}
	case *ast.CallExpr: // []byte("..."), lazyregexp.New(`...`)
		if len(e.Args) == 1 {
			return strOf(p, e.Args[0])
		}
	}
	return "", false
}

// commentSafe renders s for a Coq comment (no comment delimiters, no quotes).
func commentSafe(s string) string {
	q := strconv.Quote(s)
	q = strings.ReplaceAll(q, "\"", "'")
	q = strings.ReplaceAll(q, "*)", "* )")
	q = strings.ReplaceAll(q, "(*", "( *")
	return q
}

func emitStr(p *pkgSrc, name string, out *bytes.Buffer) {
	if v, ok := p.vals[name]; ok {
		if s, ok := strOf(p, v); ok {
			fmt.Fprintf(out, "(* %s *)\nDefinition %s_%s : list Z := %s.\n", commentSafe(s), p.name, name, strList(s))
			return
		}
	}
	fmt.Printf("UNTRANSLATABLE %s.%s: string constant\n", p.name, name)
}

func emitStrList(p *pkgSrc, name string, out *bytes.Buffer) {
	if v, ok := p.vals[name]; ok {
		if cl, ok := v.(*ast.CompositeLit); ok {
			var items []string
			good := true
			for _, el := range cl.Elts {
				s, ok := strOf(p, el)
				if !ok {
					good = false
					break
				}
				items = append(items, strList(s))
			}
			if good {
				fmt.Fprintf(out, "Definition %s_%s : list (list Z) :=\n  [%s].\n", p.name, name, strings.Join(items, ";\n   "))
				return
			}
		}
	}
	fmt.Printf("UNTRANSLATABLE %s.%s: string list\n", p.name, name)
}

func emitByteArray(p *pkgSrc, name string, out *bytes.Buffer) {
	if v, ok := p.vals[name]; ok {
		if cl, ok := v.(*ast.CompositeLit); ok {
			var items []string
			good := true
			for _, el := range cl.Elts {
				c, ok := evalInt(p, el)
				if !ok {
					good = false
					break
				}
				items = append(items, c.ExactString())
			}
			if good {
				fmt.Fprintf(out, "Definition %s_%s : list Z :=\n  [%s].\n", p.name, name, strings.Join(items, "; "))
				return
			}
		}
	}
	fmt.Printf("UNTRANSLATABLE %s.%s: byte array\n", p.name, name)
}

func ranges(pred func(rune) bool) string {
	var parts []string
	start := rune(-1)
	for r := rune(0); r <= unicode.MaxRune+1; r++ {
		in := r <= unicode.MaxRune && pred(r)
		if in && start < 0 {
			start = r
		}
		if !in && start >= 0 {
			parts = append(parts, fmt.Sprintf("(%d, %d)", start, r-1))
			start = -1
		}
	}
	var b strings.Builder
	for i, p := range parts {
		if i > 0 {
			b.WriteString("; ")
			if i%6 == 0 {
				b.WriteString("\n   ")
			}
		}
		b.WriteString(p)
	}
	return "[" + b.String() + "]"
}

// simple-fold orbit representatives: for every rune whose orbit under unicode.SimpleFold
// has more than one element, (rune, smallest rune of the orbit)
func foldTable() string {
	var parts []string
	for r := rune(0); r <= unicode.MaxRune; r++ {
		if unicode.SimpleFold(r) == r {
			continue
		}
		min := r
		for x := unicode.SimpleFold(r); x != r; x = unicode.SimpleFold(x) {
			if x < min {
				min = x
			}
		}
		parts = append(parts, fmt.Sprintf("(%d, %d)", r, min))
	}
	var b strings.Builder
	for i, p := range parts {
		if i > 0 {
			b.WriteString("; ")
			if i%6 == 0 {
				b.WriteString("\n   ")
			}
		}
		b.WriteString(p)
	}
	return "[" + b.String() + "]"
}

func writeIfChanged(path string, data []byte) {
	old, err := os.ReadFile(path)
	if err == nil && bytes.Equal(old, data) {
		return
	}
	if err := os.WriteFile(path, data, 0o644); err != nil {
		fmt.Println("UNTRANSLATABLE write", path, err)
	} else {
		fmt.Println("regenerated", path)
	}
}

const header = "(* GENERATED by harness/cmd/vgen from golang/mod's current source. Do not edit. *)\nFrom Coq Require Import List ZArith Bool.\nImport ListNotations.\nOpen Scope Z_scope.\n\n"

func main() {
	repo := flag.String("repo", "/repo", "golang/mod checkout")
	outDir := flag.String("out", "/verif/coq/Gen", "output directory")
	flag.Parse()
	os.MkdirAll(*outDir, 0o755)

	semver := load(filepath.Join(*repo, "semver"), "semver")
	module := load(filepath.Join(*repo, "module"), "module")
	modfile := load(filepath.Join(*repo, "modfile"), "modfile")
	zip := load(filepath.Join(*repo, "zip"), "zip")
	tlog := load(filepath.Join(*repo, "sumdb", "tlog"), "tlog")
	note := load(filepath.Join(*repo, "sumdb", "note"), "note")
	sumdb := load(filepath.Join(*repo, "sumdb"), "sumdb")

	// unicode tables (from the toolchain, not from /repo)
	var u bytes.Buffer
	u.WriteString(header)
	fmt.Fprintf(&u, "(* unicode version %s *)\n", unicode.Version)
	u.WriteString("Definition in_ranges (r : Z) (t : list (Z * Z)) : bool :=\n  existsb (fun p => (fst p <=? r) && (r <=? snd p)) t.\n\n")
	for _, t := range []struct {
		name string
		f    func(rune) bool
	}{{"IsLetter", unicode.IsLetter}, {"IsSpace", unicode.IsSpace}, {"IsPrint", unicode.IsPrint}, {"IsDigit", unicode.IsDigit}, {"IsUpper", unicode.IsUpper}, {"IsLower", unicode.IsLower}} {
		fmt.Fprintf(&u, "Definition %s_ranges : list (Z * Z) :=\n  %s.\nDefinition unicode_%s (r : Z) : bool := in_ranges r %s_ranges.\n\n", t.name, ranges(t.f), t.name, t.name)
	}
	fmt.Fprintf(&u, "(* (rune, least rune of its SimpleFold orbit) for every rune with a non-trivial orbit *)\nDefinition fold_min_table : list (Z * Z) :=\n  %s.\n", foldTable())
	writeIfChanged(filepath.Join(*outDir, "GenUnicode.v"), u.Bytes())

	// character classes
	var c bytes.Buffer
	c.WriteString(header)
	c.WriteString("From Verif.Gen Require Import GenUnicode.\n\n")
	done := map[string]bool{}
	translatePred(semver, "isIdentChar", done, &c)
	for _, f := range []string{"firstPathOK", "modPathOK", "importPathOK", "fileNameOK"} {
		translatePred(module, f, done, &c)
	}
	translatePred(modfile, "isIdent", done, &c)
	writeIfChanged(filepath.Join(*outDir, "GenChars.v"), c.Bytes())

	// constants
	var k bytes.Buffer
	k.WriteString(header)
	emitStrList(module, "badWindowsNames", &k)
	emitStr(module, "PseudoVersionTimestampFormat", &k)
	for _, n := range []string{"MaxZipFile", "MaxGoMod", "MaxLICENSE"} {
		emitInt(zip, n, &k)
	}
	emitInt(tlog, "HashSize", &k)
	emitInt(tlog, "pathBase", &k)
	emitByteArray(tlog, "emptyHash", &k)
	emitStr(tlog, "treePrefix", &k)
	emitStr(note, "sigSplit", &k)
	emitStr(note, "sigPrefix", &k)
	emitInt(note, "algEd25519", &k)
	writeIfChanged(filepath.Join(*outDir, "GenConsts.v"), k.Bytes())

	// regular-expression sources
	var x bytes.Buffer
	x.WriteString(header)
	emitStr(module, "pseudoVersionRE", &x)
	for _, n := range []string{"GoVersionRE", "laxGoVersionRE", "ToolchainRE", "deprecatedRE"} {
		emitStr(modfile, n, &x)
	}
	emitStr(sumdb, "modVerRE", &x)
	writeIfChanged(filepath.Join(*outDir, "GenRegex.v"), x.Bytes())
}
