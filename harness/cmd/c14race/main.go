// c14race is the race smoke run of property C14.  It is built with `go build -race` by
// harness/props/c14.go and performs UNSCHEDULED concurrent lookups with the real
// sumdb.Client: 8 goroutines x 12 lookups on one client plus 4 goroutines on a second client
// sharing the cache and the configuration file, three rounds with fresh clients (tile
// heights 1, 2, 1; the server grows between rounds, so some lookups find their tiles already
// saved in the cache while others save new ones).  A failed lookup exits 1; a data race is
// reported by the race detector on stderr ("WARNING: DATA RACE", exit code 66).
//
// Self-contained on purpose (imports only golang.org/x/mod and the standard library).
package main

import (
	"bytes"
	"context"
	"fmt"
	"net/http/httptest"
	"os"
	"strings"
	"sync"

	"golang.org/x/mod/module"
	"golang.org/x/mod/sumdb"
)

const (
	name        = "localhost.localdev/sumdb"
	verifierKey = "localhost.localdev/sumdb+00000c67+AcTrnkbUA+TU4heY3hkjiSES/DSQniBqIeQ/YppAUtK6"
	signerKey   = "PRIVATE+KEY+localhost.localdev/sumdb+00000c67+AXu6+oaVaOYuQOFrf1V59JK1owcFlJcHwwXHDfDGxSPk"
)

func gosum(path, vers string) ([]byte, error) {
	return []byte(fmt.Sprintf("%s %s h1:%x=\n%s %s/go.mod h1:%x=\n", path, vers, len(path)*7919, path, vers, len(vers)*104729)), nil
}

type world struct {
	mu    sync.Mutex
	srv   *sumdb.Server
	cfg   []byte
	cache map[string][]byte
}

type ops struct{ w *world }

func (o ops) ReadRemote(path string) ([]byte, error) {
	rec := httptest.NewRecorder()
	o.w.srv.ServeHTTP(rec, httptest.NewRequest("GET", "http://sumdb"+path, nil))
	if rec.Code != 200 {
		return nil, fmt.Errorf("GET %s: %d %s", path, rec.Code, strings.TrimSpace(rec.Body.String()))
	}
	return rec.Body.Bytes(), nil
}

func (o ops) ReadConfig(file string) ([]byte, error) {
	if file == "key" {
		return []byte(verifierKey + "\n"), nil
	}
	o.w.mu.Lock()
	defer o.w.mu.Unlock()
	return append([]byte(nil), o.w.cfg...), nil
}

func (o ops) WriteConfig(file string, old, new []byte) error {
	o.w.mu.Lock()
	defer o.w.mu.Unlock()
	if !bytes.Equal(old, o.w.cfg) {
		return sumdb.ErrWriteConflict
	}
	o.w.cfg = append([]byte(nil), new...)
	return nil
}

func (o ops) ReadCache(file string) ([]byte, error) {
	o.w.mu.Lock()
	defer o.w.mu.Unlock()
	if d, ok := o.w.cache[file]; ok {
		return append([]byte(nil), d...), nil
	}
	return nil, fmt.Errorf("no cache entry")
}

func (o ops) WriteCache(file string, data []byte) {
	o.w.mu.Lock()
	defer o.w.mu.Unlock()
	o.w.cache[file] = append([]byte(nil), data...)
}

func (o ops) Log(msg string) {}

func (o ops) SecurityError(msg string) {
	fmt.Println("SECURITY ERROR:", msg)
	os.Exit(1)
}

func mod(i int) (string, string) {
	return fmt.Sprintf("example.com/Mod%d/pkgZ", i), fmt.Sprintf("v1.%d.0", i%7)
}

func main() {
	ts := sumdb.NewTestServer(signerKey, gosum)
	w := &world{srv: sumdb.NewServer(ts), cache: map[string][]byte{}}
	known := 0
	grow := func(n int) {
		for i := 0; i < n; i++ {
			p, v := mod(known)
			if _, err := ts.Lookup(context.Background(), module.Version{Path: p, Version: v}); err != nil {
				fmt.Println("server:", err)
				os.Exit(1)
			}
			known++
		}
	}
	grow(260)
	var fails sync.Map
	nfail := 0
	for round, h := range []int{1, 2, 1} {
		a, b := sumdb.NewClient(ops{w}), sumdb.NewClient(ops{w})
		a.SetTileHeight(h)
		b.SetTileHeight(h)
		var wg sync.WaitGroup
		run := func(cl *sumdb.Client, g, n int) {
			defer wg.Done()
			for j := 0; j < n; j++ {
				// old records (tiles partly in the cache after round 0), recent ones, and
				// modules the server has not seen (the log grows under the lookups)
				i := (g*37 + j*11 + round*5) % known
				switch j % 4 {
				case 1:
					i = known - 1 - (g+j)%20
				case 3:
					i = known + (g*3+j)%6
				}
				p, v := mod(i)
				if j%3 == 2 {
					v += "/go.mod"
				}
				lines, err := cl.Lookup(p, v)
				if err != nil || len(lines) != 1 || !strings.HasPrefix(lines[0], p+" "+v+" ") {
					fails.Store(fmt.Sprintf("round %d: Lookup(%s, %s) = %q, %v", round, p, v, lines, err), true)
				}
			}
		}
		for g := 0; g < 8; g++ {
			wg.Add(1)
			go run(a, g, 12)
		}
		for g := 0; g < 4; g++ {
			wg.Add(1)
			go run(b, g+8, 12)
		}
		wg.Wait()
		known += 6
		grow(25)
	}
	fails.Range(func(k, _ any) bool {
		if nfail < 5 {
			fmt.Println("FAIL", k)
		}
		nfail++
		return true
	})
	if nfail > 0 {
		os.Exit(1)
	}
	fmt.Println("ok")
}
