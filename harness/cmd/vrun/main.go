// vrun runs one property's harness against golang/mod as it is in /repo now.
//
//	vrun run <id> -seed N -tier quick|thorough -out dir
//	vrun replay <id> <replay.json>
package main

import (
	"encoding/json"
	"flag"
	"fmt"
	"os"

	"verif/harness/hx"
	_ "verif/harness/props"
)

func main() {
	if len(os.Args) < 3 {
		fmt.Fprintln(os.Stderr, "usage: vrun run|replay <id> ...; properties:", hx.IDs())
		os.Exit(2)
	}
	cmd, id := os.Args[1], os.Args[2]
	p := hx.Lookup(id)
	if p == nil {
		fmt.Fprintln(os.Stderr, "unknown property", id)
		os.Exit(2)
	}
	switch cmd {
	case "run":
		fs := flag.NewFlagSet("run", flag.ExitOnError)
		seed := fs.Int64("seed", 1, "PRNG seed")
		tier := fs.String("tier", "quick", "quick|thorough")
		out := fs.String("out", ".", "output directory")
		fs.Parse(os.Args[3:])
		c, err := hx.NewCtx(id, *seed, *tier, *out)
		if err != nil {
			fmt.Fprintln(os.Stderr, err)
			os.Exit(2)
		}
		p.Run(c)
		if err := c.Close(); err != nil {
			fmt.Fprintln(os.Stderr, err)
			os.Exit(2)
		}
	case "replay":
		if len(os.Args) < 4 {
			os.Exit(2)
		}
		b, err := os.ReadFile(os.Args[3])
		if err != nil {
			fmt.Fprintln(os.Stderr, err)
			os.Exit(2)
		}
		var f struct {
			Input json.RawMessage `json:"input"`
		}
		if err := json.Unmarshal(b, &f); err != nil || p.Replay == nil {
			fmt.Fprintln(os.Stderr, "cannot replay:", err)
			os.Exit(2)
		}
		holds, detail := p.Replay(f.Input)
		fmt.Printf("replay property=%s holds=%v %s\n", id, holds, detail)
		if !holds {
			os.Exit(1)
		}
	default:
		os.Exit(2)
	}
}
