package gen

// Generators for the module-zip properties (C05, C12, C17; also used by C19):
// file lists for zip.CheckFiles / zip.Create (synthetic zip.File implementations whose
// declared size need not be the length of their content, so that sizes at the go.mod /
// LICENSE / zip limits cost nothing), directory trees, and hostile archives whose headers
// declare sizes that the data does not have.

import (
	"archive/zip"
	"bytes"
	"errors"
	"hash/crc32"
	"io"
	"math/rand"
	"net"
	"os"
	"path/filepath"
	"sort"
	"strings"
	"syscall"
	"time"

	"golang.org/x/mod/module"
	modzip "golang.org/x/mod/zip"
)

// Limits of zip.go (read from the package, not copied).
const (
	zMaxZip     = int64(modzip.MaxZipFile)
	zMaxGoMod   = int64(modzip.MaxGoMod)
	zMaxLICENSE = int64(modzip.MaxLICENSE)
)

var (
	ErrSynthLstat = errors.New("synthetic lstat error")
	ErrSynthOpen  = errors.New("synthetic open error")
)

// ZipFileSpec is a synthetic zip.File: everything Path, Lstat and Open return is a field.
type ZipFileSpec struct {
	P        string
	LstatErr bool
	Mode     os.FileMode // type bits decide regular / dir / symlink / other
	Size     int64       // what Lstat().Size() reports; need not be len(Content)
	OpenErr  bool
	Content  []byte // what Open() yields up to EOF
}

func (f ZipFileSpec) Path() string { return f.P }
func (f ZipFileSpec) Lstat() (os.FileInfo, error) {
	if f.LstatErr {
		return nil, ErrSynthLstat
	}
	return zipSynthInfo{f}, nil
}
func (f ZipFileSpec) Open() (io.ReadCloser, error) {
	if f.OpenErr {
		return nil, ErrSynthOpen
	}
	return io.NopCloser(bytes.NewReader(f.Content)), nil
}

type zipSynthInfo struct{ f ZipFileSpec }

func (i zipSynthInfo) Name() string       { return filepath.Base(i.f.P) }
func (i zipSynthInfo) Size() int64        { return i.f.Size }
func (i zipSynthInfo) Mode() os.FileMode  { return i.f.Mode }
func (i zipSynthInfo) ModTime() time.Time { return time.Time{} }
func (i zipSynthInfo) IsDir() bool        { return i.f.Mode.IsDir() }
func (i zipSynthInfo) Sys() interface{}   { return nil }

// ZipModeClass is the abstraction the model uses: 0 regular, 1 dir, 2 symlink, 3 other.
func ZipModeClass(m os.FileMode) int {
	switch {
	case m.IsDir():
		return 1
	case m&os.ModeType == os.ModeSymlink:
		return 2
	case m.IsRegular():
		return 0
	default:
		return 3
	}
}

// ToZipFiles converts to the interface slice zip.Create / zip.CheckFiles take.
func ToZipFiles(fs []ZipFileSpec) []modzip.File {
	out := make([]modzip.File, len(fs))
	for i, f := range fs {
		out[i] = f
	}
	return out
}

// ---- names ---------------------------------------------------------------------------

// path elements: plain, case variants, fold-equivalent runes (K k U+212A, S s U+017F),
// reserved Windows names, go.mod spellings, vendor, VCS names, and ill-formed ones
var (
	zipElemPlain    = []string{"a", "b", "c", "A", "B", "x.go", "X.go", "y.go", "main.go", "pkg", "Pkg", "doc.txt", "k", "K", "\u212a", "s", "S", "\u017f", "sk", "SK", "S\u212a", "\u017fk", "\u00e9", "\u00c9", "\u65e5\u672c", "a b", "a+b", "~x", "x~1"}
	zipElemSpecial  = []string{"go.mod", "GO.MOD", "Go.Mod", "go.MOD", "vendor", "Vendor", "modules.txt", "LICENSE", "license", "LICENSE.txt", ".hg_archival.txt", ".git", ".hg", ".svn", ".bzr", "go.sum", "\u0261o.mod", "go.mod.bak", "g\u00f6.mod"}
	zipElemReserved = []string{"con", "CON", "nul.txt", "NUL", "aux", "com1", "COM9.go", "lpt1", "prn.x", "con.a.b", "Aux", "aux.tar.gz", "NUL.en.md", "com1.v1.d", "Lpt9.a.b.c", "prn..x", "conx.a.b", "aux1.tar.gz", "x.aux.gz"}
	zipElemBad      = []string{"", ".", "..", "...", "a.", "a\\b", "a:b", "a*", "a?", "a|b", "a\"b", "<a>", "\xff", "a\xc0\x80", "\x00", "a\nb", "a;b", "'a'", "\u00a0", "\u2028"}
	zipGoModBodies  = []string{
		"module m\n", "module m\n\ngo 1.23\n", "module m\n\ngo 1.23.4\n", "module m\n\ngo 1.24\n", "module m\n\ngo 1.24.0\n",
		"module m\n\ngo 1.24rc1\n", "module m\n\ngo 1.25.1\n", "module m\n\ngo 1.9\n", "module m\n\ngo 1.240\n", "module m\n\ngo 2.0\n",
		"module m\ngo v1.24x\n", "module m\ngo 1.24 extra\n", "module m\ngo\n", "module (\n", "go 1.24\ngo 1.23\n", "\xff\xfe", "", "go 1.24\n", "go 1.23\n",
		"module m\n\ngo 1.24\n\nrequire example.com/x v1.0.0\n", "module m\n\ngo 1.23\ntoolchain go1.24.0\n",
	}
)

// ZipPathElem draws one path element; bad admits ill-formed ones.
func ZipPathElem(r *rand.Rand, bad bool) string {
	k := r.Intn(100)
	switch {
	case k < 55:
		return zipElemPlain[r.Intn(len(zipElemPlain))]
	case k < 80:
		return zipElemSpecial[r.Intn(len(zipElemSpecial))]
	case k < 90:
		return zipElemReserved[r.Intn(len(zipElemReserved))]
	default:
		if bad {
			return zipElemBad[r.Intn(len(zipElemBad))]
		}
		return zipElemPlain[r.Intn(len(zipElemPlain))]
	}
}

// zipCaseVariant changes the case or the fold class of some letters of s.
func zipCaseVariant(r *rand.Rand, s string) string {
	rs := []rune(s)
	if len(rs) == 0 {
		return s
	}
	n := 1 + r.Intn(2)
	for t := 0; t < n; t++ {
		i := r.Intn(len(rs))
		c := rs[i]
		switch {
		case c == 'k' || c == 'K' || c == '\u212a':
			rs[i] = []rune{'k', 'K', '\u212a'}[r.Intn(3)]
		case c == 's' || c == 'S' || c == '\u017f':
			rs[i] = []rune{'s', 'S', '\u017f'}[r.Intn(3)]
		case 'a' <= c && c <= 'z':
			rs[i] = c - 32
		case 'A' <= c && c <= 'Z':
			rs[i] = c + 32
		case c == '\u00e9':
			rs[i] = '\u00c9'
		case c == '\u00c9':
			rs[i] = '\u00e9'
		}
	}
	return string(rs)
}

// ZipRelPath draws a slash-separated path of 1..4 elements; hostile admits ill-formed
// elements, unclean and absolute forms.
func ZipRelPath(r *rand.Rand, hostile bool) string {
	n := 1
	switch k := r.Intn(10); {
	case k < 3:
		n = 1
	case k < 7:
		n = 2
	case k < 9:
		n = 3
	default:
		n = 4
	}
	el := make([]string, n)
	for i := range el {
		el[i] = ZipPathElem(r, hostile && r.Intn(3) == 0)
		if i < n-1 && r.Intn(4) != 0 {
			// directories mostly from a small set so that files share parents
			el[i] = pick(r, "a", "b", "A", "pkg", "vendor", "k", "K", "\u212a", "sub", "a/vendor", "vendor/a")
		}
	}
	p := strings.Join(el, "/")
	if hostile {
		switch r.Intn(40) {
		case 0:
			p = "/" + p
		case 1:
			p = p + "/"
		case 2:
			p = "./" + p
		case 3:
			p = strings.Replace(p, "/", "//", 1)
		case 4:
			p = p + "/.."
		case 5:
			p = "../" + p
		case 6:
			p = strings.Replace(p, "/", "\\", 1)
		}
	}
	return p
}

const zipContentAlphabet = "abc \n\x00\xffxyz{}"

func zipSmallContent(r *rand.Rand) []byte {
	n := r.Intn(24)
	b := make([]byte, n)
	for i := range b {
		b[i] = zipContentAlphabet[r.Intn(len(zipContentAlphabet))]
	}
	return b
}

// ZipGoModBody draws the content of a go.mod file: no / old / new / unparsable go versions.
func ZipGoModBody(r *rand.Rand) []byte { return []byte(zipGoModBodies[r.Intn(len(zipGoModBodies))]) }

func zipOtherMode(r *rand.Rand) os.FileMode {
	return []os.FileMode{os.ModeNamedPipe | 0o644, os.ModeSocket | 0o644, os.ModeDevice | 0o600, os.ModeDevice | os.ModeCharDevice | 0o600, os.ModeIrregular | 0o644}[r.Intn(5)]
}

// zipFileFor makes a ZipFileSpec for path p; wild admits non-regular modes, lstat/open errors
// and declared sizes that differ from the content.
func zipFileFor(r *rand.Rand, p string, wild bool) ZipFileSpec {
	f := ZipFileSpec{P: p, Mode: 0o644, Content: zipSmallContent(r)}
	base := p
	if i := strings.LastIndex(p, "/"); i >= 0 {
		base = p[i+1:]
	}
	if strings.EqualFold(base, "go.mod") || r.Intn(40) == 0 {
		f.Content = ZipGoModBody(r)
	}
	f.Size = int64(len(f.Content))
	if !wild {
		return f
	}
	switch k := r.Intn(100); {
	case k < 5:
		f.Mode = os.ModeDir | 0o755
	case k < 11:
		f.Mode = os.ModeSymlink | 0o777
	case k < 15:
		f.Mode = zipOtherMode(r)
	case k < 16:
		f.Mode = os.ModeDir | os.ModeSymlink | 0o777 // IsDir and not "exactly a symlink"
	case k < 20:
		f.LstatErr = true
	}
	if r.Intn(40) == 0 {
		f.OpenErr = true
	}
	// declared sizes
	if (p == "go.mod" || p == "LICENSE") && r.Intn(3) == 0 {
		f.Size = zMaxGoMod + int64(r.Intn(3)) - 1 // 16 MiB - 1, 16 MiB, 16 MiB + 1
		return f
	}
	switch k := r.Intn(100); {
	case k < 8: // at the go.mod / LICENSE limit
		f.Size = zMaxGoMod + int64(r.Intn(3)) - 1
	case k < 12: // at the zip limit
		f.Size = zMaxZip + int64(r.Intn(3)) - 1
	case k < 16: // large: a few of them exceed the total
		f.Size = zMaxZip/2 + int64(r.Intn(3)) - 1
	case k < 18:
		f.Size = -1 - int64(r.Intn(2))
	case k < 22: // content longer than declared
		if len(f.Content) > 0 {
			f.Size = int64(len(f.Content) - 1 - r.Intn(len(f.Content)))
		}
	case k < 25:
		f.Size = int64(len(f.Content) + 1 + r.Intn(3))
	}
	return f
}

// ModuleFileList draws a file list for zip.CheckFiles / zip.Create: mostly well-formed
// module trees, with duplicates, case and fold variants, file-vs-directory clashes, vendor
// directories, nested modules, odd modes and sizes mixed in.
func ModuleFileList(r *rand.Rand) []ZipFileSpec {
	hostile := r.Intn(3) != 0
	n := r.Intn(11)
	if r.Intn(10) == 0 {
		n += 8
	}
	var fs []ZipFileSpec
	if r.Intn(10) < 7 {
		f := zipFileFor(r, "go.mod", hostile && r.Intn(4) == 0)
		f.P = "go.mod"
		fs = append(fs, f)
	}
	if r.Intn(12) == 0 {
		f := zipFileFor(r, pick(r, "LICENSE", "LICENSE", "third_party/LICENSE", "x/LICENSE.txt", "LICENSE/x", "license", "a/b/LICENSE", "x/go.mod", "go.mod/x"), false)
		f.Size = zMaxLICENSE + int64(r.Intn(3)) - 1
		fs = append(fs, f)
	}
	for len(fs) < n {
		var p string
		switch k := r.Intn(100); {
		case k < 8 && len(fs) > 0: // duplicate
			p = fs[r.Intn(len(fs))].P
		case k < 18 && len(fs) > 0: // case / fold variant of an earlier path
			p = zipCaseVariant(r, fs[r.Intn(len(fs))].P)
		case k < 24 && len(fs) > 0: // file below an earlier file, or a parent of it as a file
			q := fs[r.Intn(len(fs))].P
			if i := strings.LastIndex(q, "/"); i > 0 && r.Intn(2) == 0 {
				p = q[:i]
				if r.Intn(3) == 0 {
					p = zipCaseVariant(r, p)
				}
			} else {
				p = q + "/" + ZipPathElem(r, false)
			}
		case k < 30:
			p = pick(r, "vendor/modules.txt", "vendor/a/x.go", "vendor/x.go", "a/vendor/x.go", "a/vendor/b/x.go", "pkg/vendor/vendor.go", "a/vendor/modules.txt", "vendor/vendor/x.go", "vendor/a/vendor/x.go", "xvendor/a/b.go", "a/vendor", "vendor")
		case k < 36:
			p = pick(r, "sub/go.mod", "sub/GO.MOD", "sub/x.go", "sub/a/y.go", "a/go.mod", "a/Go.Mod", "A/go.mod", "LICENSE", "LICENSE", "sub/LICENSE", ".hg_archival.txt", "a/.hg_archival.txt", "GO.MOD", "Go.mod", "go.mod")
		default:
			p = ZipRelPath(r, hostile)
		}
		fs = append(fs, zipFileFor(r, p, hostile && r.Intn(2) == 0))
	}
	if r.Intn(2) == 0 {
		r.Shuffle(len(fs), func(i, j int) { fs[i], fs[j] = fs[j], fs[i] })
	}
	return fs
}

// ZipSizeBoundaryList draws a well-formed list whose DECLARED sizes put the total right at the
// zip limit with a go.mod and/or LICENSE of non-trivial size contributing to it: the other
// files sum to MaxZipFile-k and go.mod/LICENSE declare sizes around k (total exactly at the
// limit, one above, one below).  Contents are a few bytes (lazy files: no data is materialised).
func ZipSizeBoundaryList(r *rand.Rand) []ZipFileSpec {
	mk := func(p string, size int64) ZipFileSpec {
		f := ZipFileSpec{P: p, Mode: 0o644, Size: size, Content: []byte("x")}
		if p == "go.mod" {
			f.Content = ZipGoModBody(r)
		}
		return f
	}
	gm := int64(1 + r.Intn(2000))
	if r.Intn(3) == 0 {
		gm = zMaxGoMod - int64(r.Intn(3))
	}
	lic := int64(0)
	if r.Intn(2) == 0 {
		lic = int64(1 + r.Intn(2000))
		if r.Intn(4) == 0 {
			lic = zMaxLICENSE
		}
	}
	total := zMaxZip + int64(r.Intn(3)) - 1 // one below, at, one above the limit
	if r.Intn(4) == 0 {
		total = zMaxZip + gm // the others alone are exactly at the limit
	}
	rest := total - gm - lic
	var fs []ZipFileSpec
	if r.Intn(5) != 0 {
		fs = append(fs, mk("go.mod", gm))
	} else {
		rest += gm
	}
	if lic > 0 {
		fs = append(fs, mk("LICENSE", lic))
	}
	names := []string{"a.bin", "pkg/b.bin", "c/d/e.bin", "data"}
	k := 1 + r.Intn(3)
	for i := 0; i < k; i++ {
		sz := rest / int64(k-i)
		if i == k-1 {
			sz = rest
		}
		rest -= sz
		fs = append(fs, mk(names[i], sz))
	}
	r.Shuffle(len(fs), func(i, j int) { fs[i], fs[j] = fs[j], fs[i] })
	return fs
}

// ZipSizeBoundaryArchive is the same family for archives: declared sizes only.
func ZipSizeBoundaryArchive(r *rand.Rand, m module.Version) []ZipArchEntry {
	prefix := m.Path + "@" + m.Version + "/"
	var es []ZipArchEntry
	for _, f := range ZipSizeBoundaryList(r) {
		es = append(es, ZipArchEntry{Name: prefix + f.P, Declared: uint64(f.Size), Content: f.Content})
	}
	return es
}

// zipSiblingDir derives from a directory path a sibling whose name shares its text: a suffix
// sorting before '/' ("-x", ".v2", "+", ...) appended to the last element, or the last element
// truncated.
func zipSiblingDir(r *rand.Rand, dir string) string {
	i := strings.LastIndex(dir, "/")
	parent, last := dir[:i+1], dir[i+1:]
	if len(last) > 1 && r.Intn(3) == 0 {
		return parent + last[:1+r.Intn(len(last)-1)]
	}
	return dir + pick(r, "-x", ".v2", "+", "-gen", " 2", ",1", "!", "#1", "x", "2/http")
}

// ValidModuleFileList draws a list zip.Create accepts (distinct well-formed paths, regular
// files with honest sizes, no nested module; a go.mod at the root most of the time, vendor
// and upper-case directories allowed as long as nothing collides).
func ValidModuleFileList(r *rand.Rand) []ZipFileSpec {
	n := 1 + r.Intn(8)
	kind := map[string]bool{} // lower-cased path or ancestor -> is a file
	var fs []ZipFileSpec
	add := func(p string) {
		if err := module.CheckFilePath(p); err != nil {
			return
		}
		el := strings.Split(p, "/")
		for i := 1; i <= len(el); i++ {
			pre := strings.ToLower(strings.Join(el[:i], "/"))
			isFile := i == len(el)
			if was, ok := kind[pre]; ok && (was || isFile) {
				return
			}
		}
		for i := 1; i <= len(el); i++ {
			kind[strings.ToLower(strings.Join(el[:i], "/"))] = i == len(el)
		}
		fs = append(fs, zipFileFor(r, p, false))
	}
	if r.Intn(10) < 8 {
		add("go.mod")
	}
	for tries := 0; len(fs) < n && tries < 40; tries++ {
		dirs := []string{"", "", "a/", "b/", "pkg/", "a/b/", "vendor/", "Pkg2/", "\u00e9/"}
		names := []string{"x.go", "y.go", "main.go", "doc.txt", "LICENSE", "README", "z", "w.go", "modules.txt", "q.s"}
		add(dirs[r.Intn(len(dirs))] + names[r.Intn(len(names))])
	}
	// sibling directories whose names share their text with an existing one, before or after it
	for k := r.Intn(3); k > 0 && len(fs) > 0; k-- {
		q := fs[r.Intn(len(fs))].P
		i := strings.LastIndex(q, "/")
		if i <= 0 {
			q, i = "cmd/tool/"+q, len("cmd/tool")
		}
		before := len(fs)
		add(zipSiblingDir(r, q[:i]) + "/" + pick(r, "main.go", "x.go", "sub/y.go"))
		if i == len("cmd/tool") && strings.HasPrefix(q, "cmd/tool/") {
			add(q)
		}
		if len(fs) > before && r.Intn(2) == 0 {
			// move the new files to the front: the longer name is then created first
			fs = append(append([]ZipFileSpec(nil), fs[before:]...), fs[:before]...)
		}
	}
	return fs
}

// CreateModuleZip runs zip.Create on the list and returns the archive bytes.
func CreateModuleZip(m module.Version, files []ZipFileSpec) ([]byte, error) {
	var buf bytes.Buffer
	if err := modzip.Create(&buf, m, ToZipFiles(files)); err != nil {
		return nil, err
	}
	return buf.Bytes(), nil
}

// ZipModuleVersion draws a module path and version: mostly a valid matching pair.
func ZipModuleVersion(r *rand.Rand) module.Version {
	if r.Intn(8) != 0 {
		return []module.Version{
			{Path: "example.com/m", Version: "v1.2.3"},
			{Path: "example.com/m", Version: "v0.0.0-20200102030405-0123456789ab"},
			{Path: "example.com/m/v2", Version: "v2.0.1"},
			{Path: "gopkg.in/yaml.v2", Version: "v2.4.0"},
			{Path: "example.com/M/k", Version: "v1.0.0-pre.1"},
			{Path: "example.com/m", Version: "v2.0.0+incompatible"},
			{Path: "rsc.io/quote", Version: "v17.0.0+incompatible"},
			{Path: "example.com/m", Version: pick(r, "v10.1.2+incompatible", "v11.0.0+incompatible", "v19.9.9+incompatible", "v100.0.0+incompatible", "v123.4.5+incompatible", "v1.2.3+incompatible", "v0.1.0+incompatible", "v9.0.0+incompatible", "v20.0.0+incompatible")},
		}[r.Intn(8)]
	}
	return []module.Version{
		{Path: "example.com/m", Version: "v1.2"},
		{Path: "example.com/m", Version: "v1.2.3+meta"},
		{Path: "example.com/m", Version: "v2.0.0"},
		{Path: "example.com/m/v2", Version: "v1.0.0"},
		{Path: "Example.com/m", Version: "v1.0.0"},
		{Path: "example/m", Version: "v1.0.0"},
		{Path: "example.com/m", Version: "1.0.0"},
		{Path: "example.com/m/v1", Version: "v1.0.0"},
		{Path: "", Version: ""},
	}[r.Intn(9)]
}

// ---- directory trees -----------------------------------------------------------------

// ZipTreeNode is one directory entry: Kind 0 regular file, 1 directory, 2 dangling symlink,
// 3 named pipe.
type ZipTreeNode struct {
	Name     string
	Kind     int
	Content  []byte
	Children []*ZipTreeNode
}

var zipTreeNames = []string{"a", "b", "A", "x.go", "X.go", "y.go", "pkg", "go.mod", "GO.MOD", "Go.Mod", "vendor", "modules.txt", "LICENSE", ".hg_archival.txt", "k", "K", "\u212a", "s", "\u017f", "con", "nul.txt", "a b", "a\\b", "a:b", "\xff", "\u00e9", "doc.txt", "sub", "go.sum", "foo."}
var zipTreeVCS = []string{".git", ".hg", ".svn", ".bzr"}

// ZipModuleTree draws the entries of a module directory. plain: only regular files and
// directories, no VCS directories (the domain of the dir-versus-list comparison).
func ZipModuleTree(r *rand.Rand, plain bool) []*ZipTreeNode {
	var build func(depth int, top bool) []*ZipTreeNode
	build = func(depth int, top bool) []*ZipTreeNode {
		n := r.Intn(5)
		if top {
			n = 1 + r.Intn(7)
		}
		used := map[string]bool{}
		var out []*ZipTreeNode
		for i := 0; i < n; i++ {
			name := zipTreeNames[r.Intn(len(zipTreeNames))]
			if !plain && r.Intn(12) == 0 {
				name = zipTreeVCS[r.Intn(len(zipTreeVCS))]
			}
			if used[name] {
				continue
			}
			used[name] = true
			nd := &ZipTreeNode{Name: name}
			isDirName := name == "a" || name == "b" || name == "A" || name == "pkg" || name == "vendor" || name == "sub" || strings.HasPrefix(name, ".") && name != ".hg_archival.txt" || name == "k" || name == "K"
			switch {
			case depth < 3 && (isDirName && r.Intn(4) != 0 || r.Intn(10) == 0):
				nd.Kind = 1
				nd.Children = build(depth+1, false)
			case !plain && r.Intn(12) == 0:
				nd.Kind = 2
			case !plain && r.Intn(25) == 0:
				nd.Kind = 3
			default:
				nd.Content = zipSmallContent(r)
				if strings.EqualFold(name, "go.mod") {
					nd.Content = ZipGoModBody(r)
				}
			}
			out = append(out, nd)
		}
		return out
	}
	t := build(0, true)
	if r.Intn(10) < 6 {
		has := false
		for _, n := range t {
			if n.Name == "go.mod" {
				has = true
			}
		}
		if !has {
			t = append(t, &ZipTreeNode{Name: "go.mod", Content: ZipGoModBody(r)})
		}
	}
	return t
}

// ZipMaterializeTree creates the entries under dir (which must exist).
func ZipMaterializeTree(dir string, nodes []*ZipTreeNode) error {
	for _, n := range nodes {
		p := filepath.Join(dir, n.Name)
		switch n.Kind {
		case 1:
			if err := os.Mkdir(p, 0o755); err != nil {
				return err
			}
			if err := ZipMaterializeTree(p, n.Children); err != nil {
				return err
			}
		case 2:
			if err := os.Symlink("/nonexistent/verif-dangling", p); err != nil {
				return err
			}
		case 3:
			if n.Name == "go.mod" {
				// zip.CheckDir/CreateFromDir read <dir>/go.mod with os.ReadFile to find the go
				// version; opening a FIFO blocks forever (no writer), which would hang the
				// harness. An irregular go.mod is materialised as a unix socket instead
				// (opening it fails at once); such trees are outside C17's directory clause
				// anyway (regular files and directories only).
				l, err := net.Listen("unix", p)
				if err != nil {
					// path too long for a socket address: a dangling symlink is irregular too
					if err := os.Symlink("/nonexistent/verif-dangling", p); err != nil {
						return err
					}
					break
				}
				l.(*net.UnixListener).SetUnlinkOnClose(false)
				l.Close()
				break
			}
			if err := syscall.Mkfifo(p, 0o644); err != nil {
				return err
			}
		default:
			if err := os.WriteFile(p, n.Content, 0o644); err != nil {
				return err
			}
		}
	}
	return nil
}

// ZipTreeRegularFiles lists the regular files of the tree in the order filepath.Walk visits
// them (entries of a directory sorted by name), as FileSpecs with slash-separated paths.
func ZipTreeRegularFiles(nodes []*ZipTreeNode) []ZipFileSpec {
	var out []ZipFileSpec
	var rec func(prefix string, ns []*ZipTreeNode)
	rec = func(prefix string, ns []*ZipTreeNode) {
		s := append([]*ZipTreeNode(nil), ns...)
		sort.Slice(s, func(i, j int) bool { return s[i].Name < s[j].Name })
		for _, n := range s {
			p := prefix + n.Name
			switch n.Kind {
			case 1:
				rec(p+"/", n.Children)
			case 0:
				out = append(out, ZipFileSpec{P: p, Mode: 0o644, Size: int64(len(n.Content)), Content: n.Content})
			}
		}
	}
	rec("", nodes)
	return out
}

// ---- hostile archives ----------------------------------------------------------------

// ZipArchEntry is one entry of an archive to be written: Declared is the uncompressed size
// stored in the headers, Content the data actually stored.
type ZipArchEntry struct {
	Name     string
	Declared uint64
	Content  []byte
	// Mode, when non-zero, is stored in the header (unix mode in the external attributes);
	// it need not agree with the name: a directory bit on a name without trailing slash, a
	// regular mode on a name with one, a symbolic link.
	Mode os.FileMode
}

// ZipWriteArchive encodes the entries. Entries whose declared size is honest are written
// normally (deflate) half of the time; the others are stored raw with the headers saying
// what Declared says (the CRC is that of the content).
func ZipWriteArchive(r *rand.Rand, entries []ZipArchEntry) ([]byte, error) {
	var buf bytes.Buffer
	zw := zip.NewWriter(&buf)
	for _, e := range entries {
		honest := e.Declared == uint64(len(e.Content))
		if honest && e.Mode == 0 && !strings.HasSuffix(e.Name, "/") && (r == nil || r.Intn(2) == 0) {
			w, err := zw.Create(e.Name)
			if err != nil {
				return nil, err
			}
			if _, err := w.Write(e.Content); err != nil {
				return nil, err
			}
			continue
		}
		fh := &zip.FileHeader{Name: e.Name, Method: zip.Store, CRC32: crc32.ChecksumIEEE(e.Content),
			CompressedSize64: uint64(len(e.Content)), UncompressedSize64: e.Declared}
		if e.Mode != 0 {
			fh.SetMode(e.Mode)
		}
		w, err := zw.CreateRaw(fh)
		if err != nil {
			return nil, err
		}
		if !strings.HasSuffix(e.Name, "/") {
			if _, err := w.Write(e.Content); err != nil {
				return nil, err
			}
		}
	}
	if err := zw.Close(); err != nil {
		return nil, err
	}
	return buf.Bytes(), nil
}

// ZipHostileArchive draws the entries of an archive for module m: mostly acceptable names
// under the right prefix, mixed with "..", absolute names, backslashes, empty names,
// directory entries, wrong or case-varied prefixes, duplicates, fold variants, misplaced
// go.mod files and declared sizes that disagree with the content or exceed the limits.
func ZipHostileArchive(r *rand.Rand, m module.Version) []ZipArchEntry {
	prefix := m.Path + "@" + m.Version + "/"
	calm := r.Intn(3) == 0 // an archive that is probably fine
	n := r.Intn(8)
	var es []ZipArchEntry
	for len(es) < n {
		var name string
		switch k := r.Intn(100); {
		case calm && len(es) > 0 && r.Intn(3) == 0:
			q := strings.TrimSuffix(strings.TrimPrefix(es[r.Intn(len(es))].Name, prefix), "/")
			if i := strings.LastIndex(q, "/"); i > 0 {
				name = zipSiblingDir(r, q[:i]) + "/" + pick(r, "main.go", "x.go", "sub/y.go")
			} else {
				name = ZipRelPath(r, false)
			}
		case calm || k < 40:
			name = ZipRelPath(r, false)
		case k < 48 && len(es) > 0:
			name = strings.TrimPrefix(es[r.Intn(len(es))].Name, prefix) // duplicate
		case k < 58 && len(es) > 0:
			name = zipCaseVariant(r, strings.TrimPrefix(es[r.Intn(len(es))].Name, prefix))
		case k < 64 && len(es) > 0: // file/directory clash
			q := strings.TrimSuffix(strings.TrimPrefix(es[r.Intn(len(es))].Name, prefix), "/")
			if i := strings.LastIndex(q, "/"); i > 0 && r.Intn(2) == 0 {
				name = q[:i]
			} else if r.Intn(2) == 0 {
				name = q + "/"
			} else {
				name = q + "/" + ZipPathElem(r, false)
			}
		case k < 72:
			name = pick(r, "go.mod", "GO.MOD", "Go.Mod", "a/go.mod", "a/GO.MOD", "LICENSE", "a/LICENSE", "third_party/LICENSE", "x/LICENSE.txt", "LICENSE/x", "license", "vendor/modules.txt", "go.mod/", "go.mod/x")
		case k < 80:
			name = pick(r, "..", "../x", "a/../../x", "/etc/passwd", "/", "//", "a//b", "./a", "a/./b", "a/", "a/b/", "", "a\\b", "..\\x", "a\\..\\..\\x", "C:/x", "c:\\x", "a/..", ".", "a/.", "\x00", "a/\xff", "../"+strings.TrimSuffix(prefix, "/")+"x/y")
		default:
			name = ZipRelPath(r, true)
		}
		if !calm && r.Intn(12) == 0 && !strings.HasSuffix(name, "/") && name != "" {
			name += "/" // directory entry
		}
		pre := prefix
		if !calm {
			switch r.Intn(30) {
			case 0:
				pre = "other.org/x@v1.0.0/"
			case 1:
				pre = zipCaseVariant(r, prefix)
			case 2:
				pre = strings.TrimSuffix(prefix, "/")
			case 3:
				pre = ""
			case 4:
				pre = "/" + prefix
			case 5:
				pre = prefix + "/"
			}
		}
		e := ZipArchEntry{Name: pre + name, Content: zipSmallContent(r)}
		if strings.HasSuffix(name, "go.mod") {
			e.Content = ZipGoModBody(r)
		}
		e.Declared = uint64(len(e.Content))
		if strings.HasSuffix(e.Name, "/") {
			e.Content = nil
			e.Declared = 0
			if r.Intn(4) == 0 {
				e.Declared = uint64(r.Intn(3))
			}
		} else if !calm && (name == "go.mod" || strings.HasSuffix(name, "LICENSE") || strings.HasSuffix(name, "go.mod")) && r.Intn(3) == 0 {
			e.Declared = uint64(zMaxGoMod) + uint64(r.Intn(3)) - 1
		} else if !calm && r.Intn(12) == 0 {
			// a header that declares 0 bytes for an entry with data, or bytes for an empty one
			if r.Intn(3) != 0 {
				if len(e.Content) == 0 {
					e.Content = []byte("data")
				}
				e.Declared = 0
			} else {
				e.Content = nil
				e.Declared = uint64(1 + r.Intn(5))
			}
		} else if !calm {
			switch k := r.Intn(100); {
			case k < 9:
				e.Declared++
			case k < 16:
				if e.Declared > 0 {
					e.Declared--
				}
			case k < 19:
				e.Declared = uint64(zMaxGoMod) + uint64(r.Intn(3)) - 1
			case k < 22:
				e.Declared = uint64(zMaxZip) + uint64(r.Intn(3)) - 1
			case k < 25:
				e.Declared = uint64(zMaxZip)/2 + uint64(r.Intn(2))
			case k < 27:
				e.Declared = []uint64{1 << 63, 1<<63 - 1, 1<<64 - 1, 1 << 32, 1<<32 - 1}[r.Intn(5)]
			}
		}
		if !calm && r.Intn(6) == 0 {
			// header mode bits, agreeing with the name or not
			e.Mode = []os.FileMode{os.ModeDir | 0o755, os.ModeDir | 0o755, 0o644, os.ModeSymlink | 0o777, os.ModeNamedPipe | 0o644, os.ModeDir | os.ModeSymlink | 0o777}[r.Intn(6)]
		}
		es = append(es, e)
	}
	if !calm && r.Intn(8) == 0 {
		// entries that only a header-based notion of "directory" would treat differently
		m := []ZipArchEntry{
			{Name: prefix + "sub/go.mod", Content: []byte("module m\n"), Mode: os.ModeDir | 0o755},
			{Name: prefix + "GO.MOD", Content: []byte("module m\n"), Mode: os.ModeDir | 0o755},
			{Name: prefix + "a", Content: []byte("x"), Mode: os.ModeDir | 0o755},
			{Name: prefix + "a/b.go", Content: []byte("package a\n")},
			{Name: prefix + "d/", Mode: 0o644},
			{Name: prefix + "go.mod", Content: []byte("module m\n"), Mode: os.ModeDir | 0o755, Declared: uint64(zMaxGoMod) + 1},
		}
		k := 1 + r.Intn(3)
		for i := 0; i < k; i++ {
			e := m[r.Intn(len(m))]
			if e.Declared == 0 {
				e.Declared = uint64(len(e.Content))
			}
			es = append(es, e)
		}
		r.Shuffle(len(es), func(i, j int) { es[i], es[j] = es[j], es[i] })
	}
	return es
}
