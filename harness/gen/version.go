// Package gen holds input generators shared by several properties.
package gen

import (
	"math/rand"
	"strings"
)

func pick(r *rand.Rand, ss ...string) string { return ss[r.Intn(len(ss))] }

// Numeral returns a decimal numeral; mostly well-formed, sometimes long (beyond 64 bits),
// rarely with a leading zero or empty when bad is true.
func Numeral(r *rand.Rand, bad bool) string {
	if bad && r.Intn(6) == 0 {
		return pick(r, "", "00", "01", "007", "+1", "1a", " 1")
	}
	switch r.Intn(10) {
	case 0:
		return "0"
	case 1, 2, 3:
		return string(rune('1' + r.Intn(9)))
	case 4, 5:
		return pick(r, "1", "2", "9", "10", "11", "19", "20", "99", "100")
	case 6:
		n := 18 + r.Intn(24)
		var b strings.Builder
		b.WriteByte(byte('1' + r.Intn(9)))
		for i := 1; i < n; i++ {
			b.WriteByte(byte('0' + r.Intn(10)))
		}
		return b.String()
	case 7:
		return pick(r, "18446744073709551615", "18446744073709551616", "9223372036854775807", "9223372036854775808", "99999999999999999999999", "100000000000000000000000")
	default:
		n := 1 + r.Intn(4)
		var b strings.Builder
		b.WriteByte(byte('1' + r.Intn(9)))
		for i := 1; i < n; i++ {
			b.WriteByte(byte('0' + r.Intn(10)))
		}
		return b.String()
	}
}

const identChars = "0123456789abcxyzABCXYZ-"

// Ident returns a prerelease/build identifier.
func Ident(r *rand.Rand, bad bool, build bool) string {
	if bad && r.Intn(8) == 0 {
		return pick(r, "", "01", "00", "a_b", "é", "a b", "+")
	}
	switch r.Intn(8) {
	case 0, 1:
		if build && r.Intn(2) == 0 {
			return pick(r, "01", "007", "0")
		}
		return Numeral(r, false)
	case 2:
		return pick(r, "alpha", "beta", "rc", "pre", "0a", "a0", "-", "--", "0-", "-0", "x-1")
	case 3:
		return pick(r, "a", "b", "A", "B", "1", "2", "10", "9")
	default:
		n := 1 + r.Intn(6)
		var b strings.Builder
		for i := 0; i < n; i++ {
			b.WriteByte(identChars[r.Intn(len(identChars))])
		}
		s := b.String()
		if !build && len(s) > 1 && s[0] == '0' && strings.Trim(s, "0123456789") == "" {
			s = "1" + s[1:]
		}
		return s
	}
}

// Version returns a mostly valid semantic version string.
func Version(r *rand.Rand) string {
	bad := r.Intn(10) == 0
	var b strings.Builder
	if bad && r.Intn(5) == 0 {
		b.WriteString(pick(r, "", "V", "vv", "w"))
	} else {
		b.WriteByte('v')
	}
	b.WriteString(Numeral(r, bad))
	form := r.Intn(12)
	if form == 0 {
		return b.String()
	}
	b.WriteByte('.')
	b.WriteString(Numeral(r, bad))
	if form == 1 {
		return b.String()
	}
	b.WriteByte('.')
	b.WriteString(Numeral(r, bad))
	if r.Intn(2) == 0 {
		b.WriteByte('-')
		n := 1 + r.Intn(4)
		for i := 0; i < n; i++ {
			if i > 0 {
				b.WriteByte('.')
			}
			b.WriteString(Ident(r, bad, false))
		}
	}
	if r.Intn(4) == 0 {
		b.WriteByte('+')
		if r.Intn(3) == 0 {
			b.WriteString("incompatible")
		} else {
			n := 1 + r.Intn(3)
			for i := 0; i < n; i++ {
				if i > 0 {
					b.WriteByte('.')
				}
				b.WriteString(Ident(r, bad, true))
			}
		}
	}
	return b.String()
}

// Mutate applies one byte-level edit drawn from alphabet.
func Mutate(r *rand.Rand, s string, alphabet string) string {
	b := []byte(s)
	c := alphabet[r.Intn(len(alphabet))]
	switch r.Intn(3) {
	case 0: // insert
		i := r.Intn(len(b) + 1)
		b = append(b[:i], append([]byte{c}, b[i:]...)...)
	case 1: // delete
		if len(b) > 0 {
			i := r.Intn(len(b))
			b = append(b[:i], b[i+1:]...)
		}
	default: // replace
		if len(b) > 0 {
			b[r.Intn(len(b))] = c
		}
	}
	return string(b)
}

// RawBytes returns random bytes, biased to ASCII.
func RawBytes(r *rand.Rand, max int) string {
	n := r.Intn(max + 1)
	b := make([]byte, n)
	for i := range b {
		if r.Intn(8) == 0 {
			b[i] = byte(r.Intn(256))
		} else {
			b[i] = byte(32 + r.Intn(95))
		}
	}
	return string(b)
}

// RelatedVersion returns a version sharing a long prefix with v (same fields, one changed).
func RelatedVersion(r *rand.Rand, v string) string {
	switch r.Intn(5) {
	case 0:
		return v
	case 1:
		return Mutate(r, v, "v.0-+aA91")
	case 2:
		// change the tail
		if i := strings.LastIndexAny(v, ".-+"); i > 0 {
			return v[:i+1] + Ident(r, false, false)
		}
		return v
	case 3:
		if i := strings.IndexByte(v, '+'); i > 0 {
			return v[:i]
		}
		return v + "+meta"
	default:
		if i := strings.IndexByte(v, '-'); i > 0 {
			return v[:i]
		}
		return v + "-" + Ident(r, false, false)
	}
}
