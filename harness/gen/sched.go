package gen

// Schedule controller for C14: the real sumdb.Client runs N concurrent lookups (on one or two
// clients sharing a configuration file and a cache) against an honest sumdb.TestServer.
// Every ReadConfig / WriteConfig and every ReadCache / ReadRemote / WriteCache of a lookup
// record BLOCKS in ConcOps until the controller releases it; exactly one call is released at
// a time, and the controller then waits until every lookup goroutine is parked at its next
// call, has returned, or is blocked on a sync.Mutex (initOnce, parCache entry) — found from
// a goroutine dump, so the detection does not depend on what the client is expected to do.
// Tile operations are served without a scheduling point.

import (
	"bytes"
	"context"
	"crypto/sha256"
	"encoding/base64"
	"fmt"
	"net/http/httptest"
	"runtime"
	"strconv"
	"strings"
	"sync"
	"time"

	"golang.org/x/mod/module"
	"golang.org/x/mod/sumdb"
	"golang.org/x/mod/sumdb/tlog"
)

const (
	ConcName        = "localhost.localdev/sumdb"
	ConcVerifierKey = "localhost.localdev/sumdb+00000c67+AcTrnkbUA+TU4heY3hkjiSES/DSQniBqIeQ/YppAUtK6"
	ConcSignerKey   = "PRIVATE+KEY+localhost.localdev/sumdb+00000c67+AXu6+oaVaOYuQOFrf1V59JK1owcFlJcHwwXHDfDGxSPk"
)

// ConcHead is a tree head as the trace sees it: size and a prefix of the hash.
type ConcHead struct {
	N    int64  `json:"n"`
	Hash string `json:"h"` // first 8 bytes of the root hash, raw
}

func (h *ConcHead) String() string {
	if h == nil {
		return "-"
	}
	return fmt.Sprintf("%d:%x", h.N, h.Hash[:2])
}

// ConcHeadOfMsg parses the head out of a signed tree note WITHOUT verifying it
// (nil for the empty configuration).
func ConcHeadOfMsg(msg []byte) (*ConcHead, error) {
	if len(msg) == 0 {
		return nil, nil
	}
	i := bytes.Index(msg, []byte("\n\n"))
	if i < 0 {
		return nil, fmt.Errorf("no signature block")
	}
	t, err := tlog.ParseTree(msg[:i+1])
	if err != nil {
		return nil, err
	}
	return &ConcHead{N: t.N, Hash: string(t.Hash[:8])}, nil
}

// ConcHeadOfRecord parses the head embedded in a /lookup response or cached record.
func ConcHeadOfRecord(data []byte) (*ConcHead, error) {
	_, _, treeMsg, err := tlog.ParseRecord(data)
	if err != nil {
		return nil, err
	}
	return ConcHeadOfMsg(treeMsg)
}

// ConcGosum is the honest server's content: the go.sum lines of path@vers.
func ConcGosum(path, vers string) ([]byte, error) {
	h := func(s string) string {
		x := sha256.Sum256([]byte(s))
		return base64.StdEncoding.EncodeToString(x[:])
	}
	s := fmt.Sprintf("%s %s h1:%s\n%s %s/go.mod h1:%s\n", path, vers, h("zip:"+path+"@"+vers), path, vers, h("mod:"+path+"@"+vers))
	if len(path)%3 == 0 {
		s += fmt.Sprintf("%s %s h2:extra\n", path, vers)
	}
	return []byte(s), nil
}

// ConcWorld is the server, the shared configuration file and the shared cache.
type ConcWorld struct {
	Mu     sync.Mutex
	TS     *sumdb.TestServer
	Srv    *sumdb.Server
	Chain  []ConcHead // Chain[i] is the head of size i+1
	Cfg    []byte
	Cache  map[string][]byte
	filler int

	Trace    []ConcEvent
	Security []string
	TileOps  int
}

func NewConcWorld() *ConcWorld {
	ts := sumdb.NewTestServer(ConcSignerKey, ConcGosum)
	return &ConcWorld{TS: ts, Srv: sumdb.NewServer(ts), Cache: map[string][]byte{}}
}

// Size is the number of records on the server.
func (w *ConcWorld) Size() int { return len(w.Chain) }

func (w *ConcWorld) noteHead() {
	msg, err := w.TS.Signed(context.Background())
	if err != nil {
		panic(err)
	}
	h, err := ConcHeadOfMsg(msg)
	if err != nil || h == nil {
		panic(fmt.Sprint("bad signed head: ", err))
	}
	for int64(len(w.Chain)) < h.N {
		if int64(len(w.Chain)) != h.N-1 {
			panic("server grew by more than one record")
		}
		w.Chain = append(w.Chain, *h)
	}
}

// AddRecord makes the server hold a record for m (growing it when new); returns growth.
func (w *ConcWorld) AddRecord(path, vers string) int {
	before := len(w.Chain)
	if _, err := w.TS.Lookup(context.Background(), module.Version{Path: path, Version: vers}); err != nil {
		panic(err)
	}
	w.noteHead()
	return len(w.Chain) - before
}

// Grow adds one filler record.
func (w *ConcWorld) Grow() {
	w.filler++
	if w.AddRecord(fmt.Sprintf("filler.example/m%d", w.filler), "v1.0.0") != 1 {
		panic("filler did not grow the server")
	}
}

// SignedNow is the server's current signed head.
func (w *ConcWorld) SignedNow() []byte {
	msg, err := w.TS.Signed(context.Background())
	if err != nil {
		panic(err)
	}
	return msg
}

// Remote serves a path like the HTTP server would; growth caused by a lookup of a new
// module is noted in the chain and returned.
func (w *ConcWorld) Remote(path string) ([]byte, int, error) {
	before := len(w.Chain)
	rec := httptest.NewRecorder()
	w.Srv.ServeHTTP(rec, httptest.NewRequest("GET", "http://sumdb"+path, nil))
	if rec.Code != 200 {
		return nil, 0, fmt.Errorf("GET %s: %d %s", path, rec.Code, strings.TrimSpace(rec.Body.String()))
	}
	if strings.HasPrefix(path, "/lookup/") {
		w.noteHead()
	}
	return rec.Body.Bytes(), len(w.Chain) - before, nil
}

// Event kinds (the numbers are the wire encoding of coq/Client/DispatchConc.v).
const (
	EvGrow = iota
	EvReadConfigKey
	EvReadConfig
	EvWriteConfig
	EvReadCache
	EvReadRemote
	EvWriteCache
	EvYield // release of a pause inside checkTrees (Site 1) / checkRecord (Site 0)
)

type ConcEvent struct {
	Kind int       `json:"k"`
	Tid  int       `json:"t"`
	File string    `json:"f,omitempty"`
	A    *ConcHead `json:"a,omitempty"` // value read / old / head of the record
	B    *ConcHead `json:"b,omitempty"` // new (WriteConfig)
	OK   bool      `json:"ok,omitempty"`
	Site int       `json:"site,omitempty"`
}

func (e ConcEvent) String() string {
	switch e.Kind {
	case EvGrow:
		return "grow"
	case EvReadConfigKey:
		return fmt.Sprintf("t%d:ReadConfig(key)", e.Tid)
	case EvReadConfig:
		return fmt.Sprintf("t%d:ReadConfig=%v", e.Tid, e.A)
	case EvWriteConfig:
		return fmt.Sprintf("t%d:WriteConfig(%v->%v)=%v", e.Tid, e.A, e.B, e.OK)
	case EvReadCache:
		return fmt.Sprintf("t%d:ReadCache=%v", e.Tid, e.A)
	case EvReadRemote:
		return fmt.Sprintf("t%d:ReadRemote=%v", e.Tid, e.A)
	case EvWriteCache:
		return fmt.Sprintf("t%d:WriteCache(%v)", e.Tid, e.A)
	case EvYield:
		return fmt.Sprintf("t%d:resume(%s)", e.Tid, []string{"checkRecord", "checkTrees"}[e.Site])
	}
	return "?"
}

// ---- the scheduler ---------------------------------------------------------------------

type concPend struct {
	kind int
	ch   chan struct{}
}

type ConcSched struct {
	mu      sync.Mutex
	n       int
	goid    []int64
	byGoid  map[int64]int
	pend    []*concPend
	started []bool
	fin     []bool
	finAt   []int // number of released calls when the thread was seen finished
	ops     []int // scheduled calls per thread
	yield   []int // pauses a thread may still take before its next scheduled call
	yieldN  []int // what yield is reset to when a scheduled call of the thread is released
	stray   int   // scheduled-kind calls from goroutines that are not lookup threads
}

func newConcSched(n int) *ConcSched {
	return &ConcSched{n: n, goid: make([]int64, n), byGoid: map[int64]int{}, pend: make([]*concPend, n),
		started: make([]bool, n), fin: make([]bool, n), finAt: make([]int, n), ops: make([]int, n),
		yield: make([]int, n), yieldN: make([]int, n)}
}

func curGoid() int64 {
	var buf [64]byte
	n := runtime.Stack(buf[:], false)
	s := buf[len("goroutine "):n]
	i := bytes.IndexByte(s, ' ')
	if i < 0 {
		return -1
	}
	id, _ := strconv.ParseInt(string(s[:i]), 10, 64)
	return id
}

// goStates maps goroutine id to its wait state in one consistent dump.
func goStates() map[int64]string {
	buf := make([]byte, 1<<16)
	for {
		n := runtime.Stack(buf, true)
		if n < len(buf) {
			buf = buf[:n]
			break
		}
		buf = make([]byte, 2*len(buf))
	}
	out := map[int64]string{}
	for _, blk := range bytes.Split(buf, []byte("\n\n")) {
		if !bytes.HasPrefix(blk, []byte("goroutine ")) {
			continue
		}
		s := blk[len("goroutine "):]
		i := bytes.IndexByte(s, ' ')
		j := bytes.IndexByte(s, ']')
		if i < 0 || j < i+2 {
			continue
		}
		id, _ := strconv.ParseInt(string(s[:i]), 10, 64)
		st := string(s[i+2 : j])
		if k := strings.IndexByte(st, ','); k >= 0 {
			st = st[:k]
		}
		out[id] = st
	}
	return out
}

// arrive parks the calling lookup goroutine until the controller releases its call.
// It returns the thread id (-1 for a goroutine that is not a lookup thread: not parked).
func (s *ConcSched) arrive(kind int) int {
	g := curGoid()
	s.mu.Lock()
	tid, ok := s.byGoid[g]
	if !ok {
		s.stray++
		s.mu.Unlock()
		return -1
	}
	p := &concPend{kind: kind, ch: make(chan struct{})}
	s.pend[tid] = p
	s.ops[tid]++
	s.mu.Unlock()
	<-p.ch
	return tid
}

// pause parks the calling lookup goroutine when it is saving verified tiles inside
// checkTrees or checkRecord and still has a pause left; it returns the thread and site
// (tid -1: not paused).
func (s *ConcSched) pause() (int, int) {
	g := curGoid()
	s.mu.Lock()
	tid, ok := s.byGoid[g]
	if !ok || s.yield[tid] <= 0 {
		s.mu.Unlock()
		return -1, 0
	}
	s.mu.Unlock()
	buf := make([]byte, 8192)
	buf = buf[:runtime.Stack(buf, false)]
	site := -1
	switch {
	case bytes.Contains(buf, []byte("sumdb.(*Client).checkRecord(")):
		site = 0
	case bytes.Contains(buf, []byte("sumdb.(*Client).checkTrees(")):
		site = 1
	}
	if site < 0 {
		return -1, 0
	}
	s.mu.Lock()
	s.yield[tid]--
	p := &concPend{kind: EvYield, ch: make(chan struct{})}
	s.pend[tid] = p
	s.mu.Unlock()
	<-p.ch
	return tid, site
}

// quiescent waits until no lookup goroutine can move without a release.
func (s *ConcSched) quiescent(deadline time.Time) bool {
	spins := 0
	for {
		s.mu.Lock()
		var act []int64
		for t := 0; t < s.n; t++ {
			if s.started[t] && !s.fin[t] && s.pend[t] == nil {
				act = append(act, s.goid[t])
			}
		}
		s.mu.Unlock()
		if len(act) == 0 {
			return true
		}
		spins++
		if spins < 20 {
			runtime.Gosched()
			continue
		}
		missing := false
		for _, g := range act {
			if g == 0 {
				missing = true // goroutine has not registered yet
			}
		}
		if !missing {
			st := goStates()
			blocked := true
			for _, g := range act {
				if st[g] != "sync.Mutex.Lock" {
					blocked = false
					break
				}
			}
			if blocked {
				return true
			}
		}
		if time.Now().After(deadline) {
			return false
		}
		if spins > 200 {
			time.Sleep(50 * time.Microsecond)
		} else {
			runtime.Gosched()
		}
	}
}

// ---- ClientOps ----------------------------------------------------------------------------

type ConcOps struct {
	W      *ConcWorld
	S      *ConcSched
	Client int
	Calls  int // every ClientOps call of this client, tile operations and "key" included
	cmu    sync.Mutex
}

func (o *ConcOps) count() { o.cmu.Lock(); o.Calls++; o.cmu.Unlock() }

func isLookupFile(f string) bool { return strings.Contains(f, "/lookup/") }

func (o *ConcOps) ReadConfig(file string) ([]byte, error) {
	o.count()
	if file == "key" {
		tid := o.S.arrive(EvReadConfigKey)
		o.W.Mu.Lock()
		defer o.W.Mu.Unlock()
		o.W.Trace = append(o.W.Trace, ConcEvent{Kind: EvReadConfigKey, Tid: tid})
		return []byte(ConcVerifierKey + "\n"), nil
	}
	if file != ConcName+"/latest" {
		return nil, fmt.Errorf("unknown config %s", file)
	}
	tid := o.S.arrive(EvReadConfig)
	o.W.Mu.Lock()
	defer o.W.Mu.Unlock()
	h, err := ConcHeadOfMsg(o.W.Cfg)
	if err != nil {
		panic(err)
	}
	o.W.Trace = append(o.W.Trace, ConcEvent{Kind: EvReadConfig, Tid: tid, A: h})
	return append([]byte(nil), o.W.Cfg...), nil
}

func (o *ConcOps) WriteConfig(file string, old, new []byte) error {
	o.count()
	if file != ConcName+"/latest" {
		return fmt.Errorf("unknown config %s", file)
	}
	tid := o.S.arrive(EvWriteConfig)
	o.W.Mu.Lock()
	defer o.W.Mu.Unlock()
	ho, err1 := ConcHeadOfMsg(old)
	hn, err2 := ConcHeadOfMsg(new)
	if err1 != nil || err2 != nil {
		panic(fmt.Sprint("WriteConfig with unparsable head: ", err1, err2))
	}
	ok := bytes.Equal(old, o.W.Cfg)
	o.W.Trace = append(o.W.Trace, ConcEvent{Kind: EvWriteConfig, Tid: tid, A: ho, B: hn, OK: ok})
	if !ok {
		return sumdb.ErrWriteConflict
	}
	o.W.Cfg = append([]byte(nil), new...)
	return nil
}

func (o *ConcOps) ReadCache(file string) ([]byte, error) {
	o.count()
	if !isLookupFile(file) {
		o.W.Mu.Lock()
		defer o.W.Mu.Unlock()
		o.W.TileOps++
		if d, ok := o.W.Cache[file]; ok {
			return append([]byte(nil), d...), nil
		}
		return nil, fmt.Errorf("no cache entry %s", file)
	}
	tid := o.S.arrive(EvReadCache)
	o.W.Mu.Lock()
	defer o.W.Mu.Unlock()
	d, ok := o.W.Cache[file]
	ev := ConcEvent{Kind: EvReadCache, Tid: tid, File: file}
	if ok {
		h, err := ConcHeadOfRecord(d)
		if err != nil {
			panic(err)
		}
		ev.A = h
	}
	o.W.Trace = append(o.W.Trace, ev)
	if !ok {
		return nil, fmt.Errorf("no cache entry %s", file)
	}
	return append([]byte(nil), d...), nil
}

func (o *ConcOps) ReadRemote(path string) ([]byte, error) {
	o.count()
	if !strings.HasPrefix(path, "/lookup/") {
		o.W.Mu.Lock()
		defer o.W.Mu.Unlock()
		o.W.TileOps++
		d, _, err := o.W.Remote(path)
		return d, err
	}
	tid := o.S.arrive(EvReadRemote)
	o.W.Mu.Lock()
	defer o.W.Mu.Unlock()
	d, grew, err := o.W.Remote(path)
	if err != nil {
		o.W.Trace = append(o.W.Trace, ConcEvent{Kind: EvReadRemote, Tid: tid, File: path})
		return nil, err
	}
	for i := 0; i < grew; i++ {
		o.W.Trace = append(o.W.Trace, ConcEvent{Kind: EvGrow})
	}
	h, err := ConcHeadOfRecord(d)
	if err != nil {
		panic(err)
	}
	o.W.Trace = append(o.W.Trace, ConcEvent{Kind: EvReadRemote, Tid: tid, File: path, A: h})
	return d, nil
}

func (o *ConcOps) WriteCache(file string, data []byte) {
	o.count()
	if !isLookupFile(file) {
		tid, site := o.S.pause()
		o.W.Mu.Lock()
		defer o.W.Mu.Unlock()
		if tid >= 0 {
			o.W.Trace = append(o.W.Trace, ConcEvent{Kind: EvYield, Tid: tid, Site: site})
		}
		o.W.TileOps++
		o.W.Cache[file] = append([]byte(nil), data...)
		return
	}
	tid := o.S.arrive(EvWriteCache)
	o.W.Mu.Lock()
	defer o.W.Mu.Unlock()
	h, err := ConcHeadOfRecord(data)
	if err != nil {
		h = nil
	}
	o.W.Trace = append(o.W.Trace, ConcEvent{Kind: EvWriteCache, Tid: tid, File: file, A: h})
	o.W.Cache[file] = append([]byte(nil), data...)
}

func (o *ConcOps) Log(msg string) {}

func (o *ConcOps) SecurityError(msg string) {
	o.W.Mu.Lock()
	o.W.Security = append(o.W.Security, msg)
	o.W.Mu.Unlock()
}

// ---- running a schedule -----------------------------------------------------------------------

type ConcClientSpec struct {
	NoSumDB string `json:"nosumdb"`
	Height  int    `json:"height"`
}

type ConcLookup struct {
	Client int    `json:"c"`
	Path   string `json:"p"`
	Vers   string `json:"v"`
	Yield  int    `json:"yield,omitempty"` // pauses inside checkTrees/checkRecord allowed between two calls
}

// Chooser picks one of n enabled actions at every scheduling point.
type Chooser interface{ Choose(n int) int }

// Choice kinds, for the human-readable schedule.
type ConcChoice struct {
	What string // "start", "release", "grow"
	Tid  int
}

type ConcResult struct {
	Lines []string
	Err   error
	Panic string
}

type ConcRun struct {
	Trace    []ConcEvent
	Results  []ConcResult
	FinAt    []int // per thread: number of calls released before it was seen finished
	OpAt     [][]int
	Ops      []int // scheduled calls per thread
	Calls    []int // ClientOps calls per client (everything)
	Stray    int
	Choices  []int
	Counts   []int
	Sched    []ConcChoice
	Hang     bool
	FinalCfg *ConcHead
	Security []string
}

// RunConc runs the lookups on fresh clients over world w under the chooser.  autoStart
// launches every thread before the first choice; otherwise starting a thread is a choice.
func RunConc(w *ConcWorld, clients []ConcClientSpec, lookups []ConcLookup, growBudget int, autoStart bool, ch Chooser, limit time.Duration) *ConcRun {
	n := len(lookups)
	s := newConcSched(n)
	ops := make([]*ConcOps, len(clients))
	cl := make([]*sumdb.Client, len(clients))
	for i, cs := range clients {
		ops[i] = &ConcOps{W: w, S: s, Client: i}
		cl[i] = sumdb.NewClient(ops[i])
		if cs.Height > 0 {
			cl[i].SetTileHeight(cs.Height)
		}
		if cs.NoSumDB != "" {
			cl[i].SetGONOSUMDB(cs.NoSumDB)
		}
	}
	run := &ConcRun{Results: make([]ConcResult, n)}
	released := 0
	start := func(t int) {
		s.mu.Lock()
		s.started[t] = true
		s.yield[t], s.yieldN[t] = lookups[t].Yield, lookups[t].Yield
		s.mu.Unlock()
		go func() {
			g := curGoid()
			s.mu.Lock()
			s.goid[t] = g
			s.byGoid[g] = t
			s.mu.Unlock()
			var res ConcResult
			func() {
				defer func() {
					if r := recover(); r != nil {
						res.Panic = fmt.Sprint(r)
					}
				}()
				res.Lines, res.Err = cl[lookups[t].Client].Lookup(lookups[t].Path, lookups[t].Vers)
			}()
			s.mu.Lock()
			run.Results[t] = res
			s.fin[t] = true
			delete(s.byGoid, g)
			s.mu.Unlock()
		}()
	}
	deadline := time.Now().Add(limit)
	if autoStart {
		for t := 0; t < n; t++ {
			start(t)
		}
	}
	for {
		if !s.quiescent(deadline) {
			run.Hang = true
			break
		}
		s.mu.Lock()
		var choices []ConcChoice
		allFin := true
		for t := 0; t < n; t++ {
			if !s.started[t] {
				choices = append(choices, ConcChoice{"start", t})
			}
			if !s.fin[t] {
				allFin = false
			} else if s.finAt[t] == 0 {
				s.finAt[t] = released + 1
			}
		}
		for t := 0; t < n; t++ {
			if s.pend[t] != nil {
				choices = append(choices, ConcChoice{"release", t})
			}
		}
		s.mu.Unlock()
		if allFin {
			break
		}
		if len(choices) == 0 {
			run.Hang = true // every unfinished thread is blocked on a mutex: deadlock
			break
		}
		if growBudget > 0 {
			choices = append(choices, ConcChoice{"grow", -1})
		}
		k := ch.Choose(len(choices))
		if k < 0 || k >= len(choices) {
			k = 0
		}
		run.Choices = append(run.Choices, k)
		run.Counts = append(run.Counts, len(choices))
		c := choices[k]
		run.Sched = append(run.Sched, c)
		switch c.What {
		case "start":
			start(c.Tid)
		case "grow":
			growBudget--
			w.Mu.Lock()
			w.Grow()
			w.Trace = append(w.Trace, ConcEvent{Kind: EvGrow})
			w.Mu.Unlock()
		case "release":
			s.mu.Lock()
			p := s.pend[c.Tid]
			s.pend[c.Tid] = nil
			released++
			if p.kind != EvYield {
				s.yield[c.Tid] = s.yieldN[c.Tid]
			}
			s.mu.Unlock()
			close(p.ch)
		}
	}
	s.mu.Lock()
	run.FinAt = append([]int(nil), s.finAt...)
	run.Ops = append([]int(nil), s.ops...)
	run.Stray = s.stray
	s.mu.Unlock()
	w.Mu.Lock()
	run.Trace = append([]ConcEvent(nil), w.Trace...)
	run.Security = append([]string(nil), w.Security...)
	run.FinalCfg, _ = ConcHeadOfMsg(w.Cfg)
	w.Mu.Unlock()
	for _, o := range ops {
		o.cmu.Lock()
		run.Calls = append(run.Calls, o.Calls)
		o.cmu.Unlock()
	}
	return run
}

// ---- choosers -----------------------------------------------------------------------------------

// FixedChooser replays a recorded choice list (first choice once the list is exhausted).
type FixedChooser struct {
	List []int
	i    int
}

func (f *FixedChooser) Choose(n int) int {
	k := 0
	if f.i < len(f.List) {
		k = f.List[f.i]
	}
	f.i++
	if k >= n {
		k = n - 1
	}
	return k
}

// FuncChooser adapts a function.
type FuncChooser func(n int) int

func (f FuncChooser) Choose(n int) int { return f(n) }

// NextDFS advances a (choices, counts) odometer of a finished run to the next schedule in
// depth-first order; ok=false when the enumeration is complete.
func NextDFS(choices, counts []int) ([]int, bool) {
	for i := len(choices) - 1; i >= 0; i-- {
		if choices[i]+1 < counts[i] {
			next := append([]int(nil), choices[:i]...)
			return append(next, choices[i]+1), true
		}
	}
	return nil, false
}

// NewIdleSched is a scheduler without threads: every call passes through unscheduled
// (used for the "previous process" that warms the cache during scenario setup).
func NewIdleSched() *ConcSched { return newConcSched(0) }
