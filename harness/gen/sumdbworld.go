package gen

// sumdbworld.go — a harness-controlled WORLD for sumdb.Client (properties C01, C13; the
// honest part is reused by the concurrency property C14).
//
//   * SumLog        a checksum-database log whose records are a deterministic function of
//                   (seed, side, id); roots and tiles are computed by the INDEPENDENT RFC 6962
//                   implementation of gen/tlog.go (Rfc6962), never by golang.org/x/mod/sumdb/tlog.
//   * SumWorld      the logs of one scenario: side 0 = A (the true log), side 1 = B (shares the
//                   first K records with A and diverges after), side 2 = F (A with ONE record
//                   replaced by a forged text: the source of the "consistent forgery"), the keys,
//                   and the registry of every tree head the harness signed.
//   * SumView       what the server serves at one step: which head (side, size, how signed),
//                   which log the record text comes from, which log the tiles come from below /
//                   at-or-above a tile level cut.  Honest = everything from one side, signed.
//                   Fork = everything from side B, signed.  Consistent forgery = head from A,
//                   record from F, tiles below the cut from F.
//   * SumFault      a corruption of the Occ-th response served for Path (bit flip, truncation,
//                   extension, swap with another response, stale replay, error, empty, ...).
//   * SumScenario   everything, JSON-marshalable (it is the replay input), and RunSumScenario
//                   which runs the real sumdb.Client through a recording ClientOps.
//
// Signing is done here with crypto/ed25519 directly in the note format (not with note.Sign),
// so that mutants of the note package cannot disturb the world.

import (
	"bytes"
	"crypto/ed25519"
	"crypto/sha256"
	"encoding/base64"
	"encoding/binary"
	"fmt"
	"regexp"
	"runtime"
	"sort"
	"strconv"
	"strings"
	"sync"
	"time"

	"golang.org/x/mod/sumdb"
	"golang.org/x/mod/sumdb/tlog"
)

// ---------------------------------------------------------------- records and logs

// SumRecordOf returns record id of the given side: module path, version, record text.
// Every 5th record has capital letters in the path and every 7th in the version, chosen so that
// each letter A-Z is the ONLY capital of some path (ids 5k+2, letter k mod 26; doubled for odd k)
// and of some version (ids 7k+3); a few real-world mixed-case shapes are interspersed
// (github.com/ZupIT, github.com/BurntSushi, -RC1).  Every 3rd record has a third line.
func SumRecordOf(seed int64, side int, id int) (path, vers string, text []byte) {
	tag := "m"
	if side == 1 {
		tag = "fb"
	}
	path = fmt.Sprintf("ex%d.test/%s%d", id%3, tag, id)
	if id%5 == 2 {
		k := id / 5
		l := string(rune('A' + k%26))
		switch {
		case id%55 == 2:
			path = fmt.Sprintf("github.com/ZupIT/%sx%d", tag, id)
		case id%55 == 7:
			path = fmt.Sprintf("github.com/BurntSushi/%stoml%d", tag, id)
		case k%2 == 1:
			path = fmt.Sprintf("ex%d.test/%sja%s%s%d", id%3, tag, l, l, id)
		default:
			path = fmt.Sprintf("ex%d.test/%s/%seta%d/pkg", id%3, tag, l, id)
		}
	}
	vers = fmt.Sprintf("v1.%d.%d", id/10, id%10)
	if id%7 == 3 {
		k := id / 7
		if id%77 == 3 {
			vers = fmt.Sprintf("v0.%d.0-RC%d", id, 1+id%4)
		} else {
			vers = fmt.Sprintf("v0.%d.0-%sulu", id, string(rune('A'+k%26)))
		}
	}
	return path, vers, SumRecordText(seed, side, path, vers, id%3 == 1)
}

// SumRecordText is the go.sum text of a record: two lines (three when extra).
func SumRecordText(seed int64, salt int, path, vers string, extra bool) []byte {
	h := func(what string) string {
		s := sha256.Sum256([]byte(fmt.Sprintf("%d|%d|%s|%s|%s", seed, salt, path, vers, what)))
		return base64.StdEncoding.EncodeToString(s[:])
	}
	t := fmt.Sprintf("%s %s h1:%s\n%s %s/go.mod h1:%s\n", path, vers, h("zip"), path, vers, h("mod"))
	if extra {
		t += fmt.Sprintf("%s %s h2:%s\n", path, vers, h("x")[:8])
	}
	return []byte(t)
}

// SumEscape is the !-escaping of module paths and versions (written independently of
// module.EscapePath; the generator only produces ASCII).
func SumEscape(s string) string {
	var b strings.Builder
	for i := 0; i < len(s); i++ {
		c := s[i]
		if 'A' <= c && c <= 'Z' {
			b.WriteByte('!')
			b.WriteByte(c + 32)
		} else {
			b.WriteByte(c)
		}
	}
	return b.String()
}

// SumLog is one log.
type SumLog struct {
	Paths []string
	Vers  []string
	Texts [][]byte
	byKey map[string]int // escaped "path@vers" -> id (first occurrence)
	rfc   *Rfc6962
}

func NewSumLog() *SumLog { return &SumLog{byKey: map[string]int{}, rfc: NewRfc6962(nil)} }

func (l *SumLog) Len() int { return len(l.Texts) }

func (l *SumLog) Add(path, vers string, text []byte) int {
	id := len(l.Texts)
	l.Paths = append(l.Paths, path)
	l.Vers = append(l.Vers, vers)
	l.Texts = append(l.Texts, text)
	key := SumEscape(path) + "@" + SumEscape(vers)
	if _, ok := l.byKey[key]; !ok {
		l.byKey[key] = id
	}
	l.rfc.Leaves = append(l.rfc.Leaves, text)
	return id
}

// Find returns the id of the record served for the escaped key among the first n records.
func (l *SumLog) Find(key string, n int64) (int, bool) {
	id, ok := l.byKey[key]
	if !ok || int64(id) >= n {
		return 0, false
	}
	return id, true
}

// Root is the RFC 6962 tree hash of the first n records.
func (l *SumLog) Root(n int64) tlog.Hash { return l.rfc.Root(int(n)) }

// Node is the hash of the complete subtree at (level, offset).
func (l *SumLog) Node(level int, off int64) tlog.Hash {
	return l.rfc.MTH(int(off<<uint(level)), int((off+1)<<uint(level)))
}

// TileData is the content of tile t for the log cut at n records; false when the tile
// does not lie inside that tree (or is a data tile).
func (l *SumLog) TileData(t tlog.Tile, n int64) ([]byte, bool) {
	if t.L < 0 || t.H < 1 || t.H > 30 || t.W < 1 || t.W > 1<<uint(t.H) || t.H*t.L > 40 {
		return nil, false
	}
	if n > int64(l.Len()) {
		n = int64(l.Len())
	}
	level := t.H * t.L
	first := t.N << uint(t.H)
	if (first+int64(t.W))<<uint(level) > n {
		return nil, false
	}
	out := make([]byte, 0, t.W*tlog.HashSize)
	for i := 0; i < t.W; i++ {
		h := l.Node(level, first+int64(i))
		out = append(out, h[:]...)
	}
	return out, true
}

// Record is the formatted record (id line, text, blank line) as served before the head.
func (l *SumLog) Record(id int) []byte {
	return []byte(fmt.Sprintf("%d\n%s\n", id, l.Texts[id]))
}

// SumTilesFor lists every tile (full and the trailing partial one per level) of a tree of
// size n at tile height h, written independently of tlog.NewTiles.
func SumTilesFor(h int, n int64) []tlog.Tile {
	var out []tlog.Tile
	for L := 0; n>>uint(h*L) > 0; L++ {
		cnt := n >> uint(h*L)
		full := cnt >> uint(h)
		for i := int64(0); i < full; i++ {
			out = append(out, tlog.Tile{H: h, L: L, N: i, W: 1 << uint(h)})
		}
		if w := int(cnt - full<<uint(h)); w > 0 {
			out = append(out, tlog.Tile{H: h, L: L, N: full, W: w})
		}
	}
	return out
}

// SumTilePath is tile.Path() written independently.
func SumTilePath(t tlog.Tile) string {
	n := t.N
	s := fmt.Sprintf("%03d", n%1000)
	for n >= 1000 {
		n /= 1000
		s = fmt.Sprintf("x%03d/%s", n%1000, s)
	}
	p := ""
	if t.W != 1<<uint(t.H) {
		p = fmt.Sprintf(".p/%d", t.W)
	}
	return fmt.Sprintf("tile/%d/%d/%s%s", t.H, t.L, s, p)
}

// SumParseTilePath inverts SumTilePath for hash tiles.
func SumParseTilePath(path string) (tlog.Tile, bool) {
	f := strings.Split(path, "/")
	if len(f) < 4 || f[0] != "tile" {
		return tlog.Tile{}, false
	}
	h, e1 := strconv.Atoi(f[1])
	l, e2 := strconv.Atoi(f[2])
	if e1 != nil || e2 != nil || h < 1 || h > 30 || l < 0 || l > 63 {
		return tlog.Tile{}, false
	}
	w := 1 << uint(h)
	f = f[3:]
	if len(f) >= 2 && strings.HasSuffix(f[len(f)-2], ".p") {
		ww, err := strconv.Atoi(f[len(f)-1])
		if err != nil || ww <= 0 || ww >= w {
			return tlog.Tile{}, false
		}
		w = ww
		f[len(f)-2] = strings.TrimSuffix(f[len(f)-2], ".p")
		f = f[:len(f)-1]
	}
	n := int64(0)
	for i, s := range f {
		if i < len(f)-1 {
			if !strings.HasPrefix(s, "x") {
				return tlog.Tile{}, false
			}
			s = s[1:]
		}
		if len(s) != 3 {
			return tlog.Tile{}, false
		}
		v, err := strconv.Atoi(s)
		if err != nil || v < 0 {
			return tlog.Tile{}, false
		}
		n = n*1000 + int64(v)
	}
	t := tlog.Tile{H: h, L: l, N: n, W: w}
	if SumTilePath(t) != path {
		return tlog.Tile{}, false
	}
	return t, true
}

// ---------------------------------------------------------------- keys and signed heads

const SumName = "localhost.localdev/sumdb"

var (
	sumKeyOnce sync.Once
	sumGood    EdKey
	sumBad     EdKey
)

// SumKeys returns the server key pair and a second pair with the same name.
func SumKeys() (good, bad EdKey) {
	sumKeyOnce.Do(func() {
		s1 := sha256.Sum256([]byte("verif sumdb good key"))
		s2 := sha256.Sum256([]byte("verif sumdb other key"))
		sumGood = EdKeyFromSeed(SumName, s1[:])
		sumBad = EdKeyFromSeed(SumName, s2[:])
	})
	return sumGood, sumBad
}

// Head kinds.
const (
	HeadGood       = 0 // signed with the configured key
	HeadOtherKey   = 1 // signed with another key of the same name (unknown key hash): unverified
	HeadBadSig     = 2 // the configured key's hash, signature bytes of the other key: invalid signature
	HeadUnsigned   = 3 // no signature line at all: malformed
	HeadBogus      = 4 // validly signed, but the hash is not the log's (a lying server)
	HeadExtraSig   = 5 // good signature followed by a signature of an unknown key: accepted
	HeadTextExtra  = 6 // tree text with an extra fourth line, validly signed: accepted
	HeadSmuggled   = 7 // signed by the other key only, with go.sum lines for the looked-up module smuggled into the note text
	headKindsCount = 8
)

// SumHead is a tree head the harness signed with the good key.
type SumHead struct {
	Side int // -1: bogus hash
	N    int64
	Hash tlog.Hash
	Text string // the signed text
	Sig  []byte // ed25519 signature by the good key
	Line string // the signature line
	Msg  []byte // text + "\n" + line (kind HeadGood)
}

func sumTreeText(n int64, h tlog.Hash) string {
	return fmt.Sprintf("go.sum database tree\n%d\n%s\n", n, base64.StdEncoding.EncodeToString(h[:]))
}

func sumSigLine(k EdKey, hash uint32, text string) (string, []byte) {
	priv := ed25519.NewKeyFromSeed(k.Seed)
	sig := ed25519.Sign(priv, []byte(text))
	var hb [4]byte
	binary.BigEndian.PutUint32(hb[:], hash)
	return "— " + k.Name + " " + base64.StdEncoding.EncodeToString(append(hb[:], sig...)) + "\n", sig
}

// SumSigPair is a (key, text, signature) triple that verifies; the model's signature oracle
// V is exactly membership in the list of these.
type SumSigPair struct {
	Key  []byte // algorithm byte + public key, as note.NewVerifier decodes it
	Text string
	Sig  []byte
}

// SumWorld holds the logs and the signing registry of one scenario.
type SumWorld struct {
	Seed    int64
	Logs    [3]*SumLog // A, B, F (F may be nil)
	K       int
	ForgeID int
	Good    EdKey
	Bad     EdKey

	mu     sync.Mutex
	Signed []*SumHead          // every head signed with the good key
	byText map[string]*SumHead // signed text -> head
	Pairs  []SumSigPair        // every valid (key, text, sig) produced
	pairOK map[string]bool
}

// NewSumWorld builds logs A (na records), B (first k of A, then its own up to nb; nb = 0: no
// fork) and F (A with record forgeID replaced; forgeID < 0: none).
func NewSumWorld(seed int64, na, nb, k, forgeID int) *SumWorld {
	w := &SumWorld{Seed: seed, K: k, ForgeID: forgeID, byText: map[string]*SumHead{}, pairOK: map[string]bool{}}
	w.Good, w.Bad = SumKeys()
	a := NewSumLog()
	for i := 0; i < na; i++ {
		p, v, t := SumRecordOf(seed, 0, i)
		a.Add(p, v, t)
	}
	w.Logs[0] = a
	if nb > 0 {
		if k > na {
			k = na
		}
		if k > nb {
			k = nb
		}
		w.K = k
		b := NewSumLog()
		for i := 0; i < nb; i++ {
			switch {
			case i < k:
				b.Add(a.Paths[i], a.Vers[i], a.Texts[i])
			case i%2 == 1 && i < na:
				// the same module version as A's record i, re-logged on the other side
				b.Add(a.Paths[i], a.Vers[i], a.Texts[i])
			default:
				p, v, t := SumRecordOf(seed, 1, i)
				b.Add(p, v, t)
			}
		}
		w.Logs[1] = b
	}
	if forgeID >= 0 && forgeID < na {
		f := NewSumLog()
		for i := 0; i < na; i++ {
			if i == forgeID {
				f.Add(a.Paths[i], a.Vers[i], SumRecordText(seed, 99, a.Paths[i], a.Vers[i], i%3 == 1))
			} else {
				f.Add(a.Paths[i], a.Vers[i], a.Texts[i])
			}
		}
		w.Logs[2] = f
	}
	return w
}

func (w *SumWorld) addPair(k EdKey, text string, sig []byte) {
	key := append([]byte{1}, k.Pub...)
	id := string(key) + "\x00" + text + "\x00" + string(sig)
	if w.pairOK[id] {
		return
	}
	w.pairOK[id] = true
	w.Pairs = append(w.Pairs, SumSigPair{Key: key, Text: text, Sig: sig})
}

// signText signs text with the good key and registers it.
func (w *SumWorld) signText(side int, n int64, h tlog.Hash, text string) *SumHead {
	w.mu.Lock()
	defer w.mu.Unlock()
	if hd, ok := w.byText[text]; ok {
		return hd
	}
	line, sig := sumSigLine(w.Good, w.Good.Hash, text)
	hd := &SumHead{Side: side, N: n, Hash: h, Text: text, Sig: sig, Line: line, Msg: []byte(text + "\n" + line)}
	w.byText[text] = hd
	w.Signed = append(w.Signed, hd)
	w.addPair(w.Good, text, sig)
	return hd
}

// BogusHash is the hash a lying server signs for size n.
func (w *SumWorld) BogusHash(n int64) tlog.Hash {
	return sha256.Sum256([]byte(fmt.Sprintf("bogus %d %d", w.Seed, n)))
}

// HeadMsg returns the message served for the head (side, n) of the given kind.
func (w *SumWorld) HeadMsg(side int, n int64, kind int) []byte {
	lg := w.Logs[side]
	if n > int64(lg.Len()) {
		n = int64(lg.Len())
	}
	if side == 2 && (kind == HeadGood || kind == HeadExtraSig || kind == HeadTextExtra) {
		panic("the harness never signs a head of the forged log with the good key")
	}
	h := lg.Root(n)
	text := sumTreeText(n, h)
	switch kind {
	case HeadGood:
		return w.signText(side, n, h, text).Msg
	case HeadOtherKey:
		line, sig := sumSigLine(w.Bad, w.Bad.Hash, text)
		w.mu.Lock()
		w.addPair(w.Bad, text, sig)
		w.mu.Unlock()
		return []byte(text + "\n" + line)
	case HeadBadSig:
		line, _ := sumSigLine(w.Bad, w.Good.Hash, text)
		return []byte(text + "\n" + line)
	case HeadUnsigned:
		return []byte(text + "\n")
	case HeadBogus:
		bh := w.BogusHash(n)
		t2 := sumTreeText(n, bh)
		return w.signText(-1, n, bh, t2).Msg
	case HeadExtraSig:
		hd := w.signText(side, n, h, text)
		line, sig := sumSigLine(w.Bad, w.Bad.Hash, text)
		w.mu.Lock()
		w.addPair(w.Bad, text, sig)
		w.mu.Unlock()
		return []byte(text + "\n" + hd.Line + line)
	case HeadTextExtra:
		t2 := text + "extra line\n"
		return w.signText(side, n, h, t2).Msg
	case HeadSmuggled:
		return w.SmuggledMsg(side, n, "smuggled.test/m", "v0.0.0")
	}
	panic("bad head kind")
}

// SmuggledMsg is a note signed only by the other key whose text carries, after the tree
// description, go.sum lines for (path, vers): nothing in it is authenticated for the client.
func (w *SumWorld) SmuggledMsg(side int, n int64, path, vers string) []byte {
	lg := w.Logs[side]
	if n > int64(lg.Len()) {
		n = int64(lg.Len())
	}
	text := sumTreeText(n, lg.Root(n)) + fmt.Sprintf("%s %s h1:SMUGGLED\n%s %s/go.mod h1:SMUGGLED\n", path, vers, path, vers)
	line, sig := sumSigLine(w.Bad, w.Bad.Hash, text)
	w.mu.Lock()
	w.addPair(w.Bad, text, sig)
	w.mu.Unlock()
	return []byte(text + "\n" + line)
}

// SignedByText finds the registered head whose signed text is text.
func (w *SumWorld) SignedByText(text string) *SumHead {
	w.mu.Lock()
	defer w.mu.Unlock()
	return w.byText[text]
}

// SumSplitNote splits a note message at its last blank line into (text, signature block).
func SumSplitNote(msg []byte) (text, sigs string, ok bool) {
	i := bytes.LastIndex(msg, []byte("\n\n"))
	if i < 0 {
		return "", "", false
	}
	return string(msg[:i+1]), string(msg[i+2:]), true
}

// GoodNote reports the registered head of a message that is a harness-signed note: its text
// was signed by the harness and its signature block contains that signature line.
func (w *SumWorld) GoodNote(msg []byte) *SumHead {
	text, sigs, ok := SumSplitNote(msg)
	if !ok {
		return nil
	}
	hd := w.SignedByText(text)
	if hd == nil {
		return nil
	}
	for _, ln := range strings.SplitAfter(sigs, "\n") {
		if ln == hd.Line || sumSigLineEq(ln, hd.Line) {
			return hd
		}
	}
	return nil
}

// sumSigLineEq compares two signature lines "— name base64\n" by signer name and DECODED
// signature bytes. encoding/base64's StdEncoding (which note.Open uses) accepts non-zero
// trailing bits, so a one-bit change in the last base64 character of a signature can leave
// the signature itself unchanged: such a note still opens, its text and signature are the
// ones the harness signed, and only the spelling of the base64 differs. Demanding the
// literal line would be stricter than the property (found as a false alarm at seed 4).
func sumSigLineEq(a, b string) bool {
	pa, pb := strings.TrimSuffix(a, "\n"), strings.TrimSuffix(b, "\n")
	ia, ib := strings.LastIndexByte(pa, ' '), strings.LastIndexByte(pb, ' ')
	if ia < 0 || ib < 0 || pa[:ia] != pb[:ib] || !strings.HasSuffix(a, "\n") {
		return false
	}
	da, ea := base64.StdEncoding.DecodeString(pa[ia+1:])
	db, eb := base64.StdEncoding.DecodeString(pb[ib+1:])
	return ea == nil && eb == nil && bytes.Equal(da, db)
}

// SidesOf lists the sides (0 = A, 1 = B) on which (n, h) is a true head.
func (w *SumWorld) SidesOf(n int64, h tlog.Hash) []int {
	var out []int
	for s := 0; s < 2; s++ {
		if lg := w.Logs[s]; lg != nil && n <= int64(lg.Len()) && lg.Root(n) == h {
			out = append(out, s)
		}
	}
	return out
}

// Consistent reports whether (n1,h1) and (n2,h2) are heads of one of the logs A, B (the
// independent meaning of "one timeline"); equal heads are consistent whatever they are.
func (w *SumWorld) Consistent(n1 int64, h1 tlog.Hash, n2 int64, h2 tlog.Hash) bool {
	if n1 == n2 && h1 == h2 {
		return true
	}
	if n1 == 0 && h1 == RfcEmpty() {
		return true // the empty tree is a prefix of every tree, also of one with a lying hash
	}
	for _, s := range w.SidesOf(n1, h1) {
		for _, s2 := range w.SidesOf(n2, h2) {
			if s == s2 {
				return true
			}
		}
	}
	return false
}

// ---------------------------------------------------------------- views, faults, scenario

// SumView is what the server serves during one step.
type SumView struct {
	HeadSide int   `json:"head_side"`
	HeadN    int64 `json:"head_n"`
	HeadKind int   `json:"head_kind"`
	RecSide  int   `json:"rec_side"`
	TileSide int   `json:"tile_side"` // tiles at tile level >= TileCut
	LowSide  int   `json:"low_side"`  // tiles at tile level <  TileCut
	TileCut  int   `json:"tile_cut"`
	// TileN > 0: the server's tiles describe a tree of this size (it may hold more records than
	// the head it signs into lookup responses); 0: the tiles of HeadN.
	TileN int64 `json:"tile_n,omitempty"`
	// Strict: only the tiles that exist at that size are served (full tiles and the one current
	// partial tile per level); an old partial tile is gone, the client must fetch the full one.
	Strict bool `json:"strict,omitempty"`
}

// HonestView serves everything from one side at size n.
func HonestView(side int, n int64) SumView {
	return SumView{HeadSide: side, HeadN: n, RecSide: side, TileSide: side, LowSide: side}
}

// SumFault corrupts the Occ-th (0-based) response served for Path.
//
//	flip    P1 = byte position (mod length), P2 = bit
//	trunc   P1 = number of bytes cut from the end (at least 1, at most the length)
//	extend  P1 = number of bytes appended, P2 = the byte value
//	dup     append a copy of the last 32 bytes (one more hash for a tile)
//	swap    serve the honest response for Other instead
//	stale   serve the response under the view with HeadN = P1 (an older signed response)
//	side    serve the response under the view with every side = P1 (same-shaped data of another log)
//	head    serve the response with head kind P1
//	error   the read fails
//	empty   zero bytes, no error
//	negid   (lookup responses) the id line replaced by -P1
//	junktail  (full tile paths) the full tile with an honest prefix (at most P1 hashes when
//	        P1 >= 0, else as many as the tree has) and junk in the remaining entries
type SumFault struct {
	Path  string `json:"path"`
	Occ   int    `json:"occ"`
	Kind  string `json:"kind"`
	P1    int    `json:"p1"`
	P2    int    `json:"p2"`
	Other string `json:"other,omitempty"`
}

// SumCacheSpec describes the initial cache: the tiles of log Side at size N (each kept with
// probability Frac percent, decided by a hash of Seed and the name), optionally the lookup
// files of the first N records, optionally one corrupted file.
type SumCacheSpec struct {
	Side    int    `json:"side"`
	N       int64  `json:"n"` // 0: cold
	Frac    int    `json:"frac"`
	Seed    int64  `json:"seed"`
	Lookups bool   `json:"lookups"`
	Corrupt int    `json:"corrupt"` // index (mod number of files, in name order) of the file to corrupt; -1 none
	CKind   string `json:"ckind"`   // flip | trunc | extend | empty
}

// SumConfigSpec describes the initial configuration.
type SumConfigSpec struct {
	KeyMode  int   `json:"key_mode"` // 0 good key + "\n", 1 good key with blanks around, 2 missing, 3 garbage, 4 the other key
	Latest   int   `json:"latest"`   // 0 empty file, 1 head, 2 missing file, 3 garbage
	HeadSide int   `json:"head_side"`
	HeadN    int64 `json:"head_n"`
	HeadKind int   `json:"head_kind"`
}

// SumInterf makes "another process" overwrite the latest file just before the At-th
// (0-based) WriteConfig call is executed, so that the compare-and-swap fails.
type SumInterf struct {
	At       int   `json:"at"`
	HeadSide int   `json:"head_side"`
	HeadN    int64 `json:"head_n"`
	HeadKind int   `json:"head_kind"`
}

// SumStep is one lookup.
type SumStep struct {
	Client int     `json:"client"`
	View   SumView `json:"view"`
	Path   string  `json:"path"`
	Vers   string  `json:"vers"`
}

// SumScenario is a complete scenario (and the replay input).
type SumScenario struct {
	Seed    int64         `json:"seed"`
	H       int           `json:"h"`
	NA      int           `json:"na"`
	NB      int           `json:"nb"`
	K       int           `json:"k"`
	ForgeID int           `json:"forge_id"`
	Config  SumConfigSpec `json:"config"`
	Cache   SumCacheSpec  `json:"cache"`
	Steps   []SumStep     `json:"steps"`
	Faults  []SumFault    `json:"faults"`
	Interf  []SumInterf   `json:"interf"`
	Par     *SumPar       `json:"par,omitempty"`
	Note    string        `json:"note,omitempty"`
}

// SumPar makes the steps Step .. Step+Count overlap (Count 0 means 1).  The steps of the window
// are started one after the other, each in its own goroutine; a step that has a park point is
// held when it issues its first operation (Kind, Path) — Kind "rr" ReadRemote, "rc" ReadCache,
// "rcfg" ReadConfig, "wcfg" WriteConfig; the operation itself is performed after the release —
// and the next step is started once the previous one is parked or finished.  When all are
// started the parked steps are released in the order Release (default: ascending), each
// running to completion before the next is released.  (Which lookup an operation belongs to
// is found from the goroutine that issued it or that created its goroutine.)
type SumPar struct {
	Step    int       `json:"step"`
	Kind    string    `json:"kind"`
	Path    string    `json:"path"`
	Count   int       `json:"count,omitempty"`
	More    []SumPark `json:"more,omitempty"`
	Release []int     `json:"release,omitempty"`
}

// SumPark is a further park point of a SumPar window.
type SumPark struct {
	Step int    `json:"step"`
	Kind string `json:"kind"`
	Path string `json:"path"`
}

// Clone copies the scenario (slices are copied).
func (s SumScenario) Clone() SumScenario {
	t := s
	t.Steps = append([]SumStep(nil), s.Steps...)
	t.Faults = append([]SumFault(nil), s.Faults...)
	t.Interf = append([]SumInterf(nil), s.Interf...)
	if s.Par != nil {
		p := *s.Par
		p.More = append([]SumPark(nil), s.Par.More...)
		p.Release = append([]int(nil), s.Par.Release...)
		t.Par = &p
	}
	return t
}

// ---------------------------------------------------------------- events and the run

// SumEvent is one ClientOps call.
type SumEvent struct {
	Step int
	Kind string // "rr" ReadRemote, "rc" ReadCache, "wc" WriteCache, "rcfg" ReadConfig, "wcfg" WriteConfig, "sec" SecurityError, "log"
	Name string
	Data []byte // data read/written (nil with Err for a failed read); the message for sec/log
	Old  []byte
	Err  bool // the call returned an error (wcfg: write conflict)
}

// SumServed is one response served for a remote read.
type SumServed struct {
	Step int
	Path string
	Occ  int
	Data []byte
	Err  bool
}

// SumResult is the result of one lookup.
type SumResult struct {
	Class string // "ok", "security", "error", "panic"
	Lines []string
	Err   string
}

// SumRun is the outcome of running a scenario.
type SumRun struct {
	Sc      SumScenario
	W       *SumWorld
	Results []SumResult
	Events  []SumEvent
	Served  []SumServed
	Config0 map[string][]byte // initial configuration
	Cache0  map[string][]byte // initial cache
	Config  map[string][]byte // final configuration
	Cache   map[string][]byte // final cache
}

type sumOps struct {
	mu     sync.Mutex
	w      *SumWorld
	sc     *SumScenario
	run    *SumRun
	step   int
	view   SumView
	occ    map[string]int
	nwcfg  int
	config map[string][]byte
	cache  map[string][]byte

	// overlapping lookups (SumPar)
	byGo     map[int64]int // lookup goroutine -> step
	parks    map[int]SumPark
	parkedCh map[int]chan struct{}
	release  map[int]chan struct{}
	parkUsed map[int]bool
}

var goidRE = regexp.MustCompile(`^goroutine (\d+) `)
var parentRE = regexp.MustCompile(`(?s)created by .* in goroutine (\d+)\n`)

// callerStep finds the step whose Lookup issued the current ClientOps call: the call runs
// either on the lookup's goroutine or on a goroutine the lookup created (ReadTiles).
func (o *sumOps) callerStep() int {
	if len(o.byGo) == 0 {
		return o.step
	}
	buf := make([]byte, 16384)
	buf = buf[:runtime.Stack(buf, false)]
	if m := goidRE.FindSubmatch(buf); m != nil {
		id, _ := strconv.ParseInt(string(m[1]), 10, 64)
		if st, ok := o.byGo[id]; ok {
			return st
		}
	}
	if m := parentRE.FindSubmatch(buf); m != nil {
		id, _ := strconv.ParseInt(string(m[1]), 10, 64)
		if st, ok := o.byGo[id]; ok {
			return st
		}
	}
	return o.step
}

func sumGoid() int64 {
	buf := make([]byte, 64)
	buf = buf[:runtime.Stack(buf, false)]
	if m := goidRE.FindSubmatch(buf); m != nil {
		id, _ := strconv.ParseInt(string(m[1]), 10, 64)
		return id
	}
	return -1
}

// maybePark parks the calling operation if it is the one the scenario names for its step.
func (o *sumOps) maybePark(kind, path string) {
	if o.sc.Par == nil {
		return
	}
	o.mu.Lock()
	st := o.callerStep()
	p, ok := o.parks[st]
	hit := ok && !o.parkUsed[st] && p.Kind == kind && p.Path == path && o.parkedCh[st] != nil
	var rel chan struct{}
	if hit {
		o.parkUsed[st] = true
		close(o.parkedCh[st])
		rel = o.release[st]
	}
	o.mu.Unlock()
	if hit {
		<-rel
	}
}

func (o *sumOps) ev(e SumEvent) {
	e.Step = o.callerStep()
	o.run.Events = append(o.run.Events, e)
}

func (o *sumOps) curView() SumView {
	st := o.callerStep()
	if st >= 0 && st < len(o.sc.Steps) {
		return o.sc.Steps[st].View
	}
	return o.view
}

// honest computes the uncorrupted response for path under view v.
func (o *sumOps) honest(v SumView, path string) ([]byte, bool) {
	w := o.w
	switch {
	case strings.HasPrefix(path, "/lookup/"):
		lg := w.Logs[v.RecSide]
		if lg == nil {
			return nil, false
		}
		id, ok := lg.Find(strings.TrimPrefix(path, "/lookup/"), v.HeadN)
		if !ok {
			return nil, false
		}
		if v.HeadKind == HeadSmuggled {
			return append(lg.Record(id), w.SmuggledMsg(v.HeadSide, v.HeadN, lg.Paths[id], lg.Vers[id])...), true
		}
		return append(lg.Record(id), w.HeadMsg(v.HeadSide, v.HeadN, v.HeadKind)...), true
	case strings.HasPrefix(path, "/tile/"):
		t, ok := SumParseTilePath(path[1:])
		if !ok {
			return nil, false
		}
		side := v.TileSide
		if t.L < v.TileCut {
			side = v.LowSide
		}
		lg := w.Logs[side]
		if lg == nil {
			return nil, false
		}
		n := v.HeadN
		if v.TileN > 0 {
			n = v.TileN
		}
		if v.Strict && t.W != 1<<uint(t.H) {
			// the current partial tile at this level has width (n >> (H*L)) mod 2^H
			cnt := n >> uint(t.H*t.L)
			if cnt>>uint(t.H) != t.N || int(cnt-(cnt>>uint(t.H))<<uint(t.H)) != t.W {
				return nil, false
			}
		}
		return lg.TileData(t, n)
	}
	return nil, false
}

// junkTail serves the full tile of path with an honest prefix (as wide as the view's tree
// allows) and junk in the remaining entries: what a server holding unsigned or invented
// records beyond the signed head would serve.
func (o *sumOps) junkTail(v SumView, path string, keep int) ([]byte, bool) {
	if !strings.HasPrefix(path, "/tile/") {
		return nil, false
	}
	t, ok := SumParseTilePath(path[1:])
	if !ok {
		return nil, false
	}
	full := 1 << uint(t.H)
	t.W = full
	var prefix []byte
	v.Strict = false
	for w := full; w >= 1; w-- {
		t2 := t
		t2.W = w
		if d, ok := o.honest(v, "/"+SumTilePath(t2)); ok {
			prefix = d
			break
		}
	}
	if keep >= 0 && keep*tlog.HashSize < len(prefix) {
		prefix = prefix[:keep*tlog.HashSize]
	}
	out := append([]byte(nil), prefix...)
	for i := len(prefix) / tlog.HashSize; i < full; i++ {
		h := sha256.Sum256([]byte(fmt.Sprintf("junk %s %d", path, i)))
		out = append(out, h[:]...)
	}
	return out, true
}

func sumCorrupt(kind string, p1, p2 int, data []byte) []byte {
	d := append([]byte(nil), data...)
	switch kind {
	case "flip":
		if len(d) > 0 {
			d[((p1%len(d))+len(d))%len(d)] ^= 1 << uint(p2&7)
		}
	case "trunc":
		c := p1
		if c < 1 {
			c = 1
		}
		if c > len(d) {
			c = len(d)
		}
		d = d[:len(d)-c]
	case "extend":
		for i := 0; i < p1; i++ {
			d = append(d, byte(p2))
		}
	case "dup":
		if len(d) >= 32 {
			d = append(d, d[len(d)-32:]...)
		} else {
			d = append(d, d...)
		}
	case "empty":
		d = d[:0]
	case "tail":
		// junk in the second half (for a full tile: entries no signed head may cover)
		for i := len(d) / 2; i < len(d); i++ {
			d[i] ^= byte(0x5a + i)
		}
	}
	return d
}

func (o *sumOps) serve(path string) ([]byte, bool) {
	occ := o.occ[path]
	o.occ[path]++
	view := o.curView()
	step := o.callerStep()
	data, ok := o.honest(view, path)
	for _, f := range o.sc.Faults {
		if f.Path != path || f.Occ != occ {
			continue
		}
		switch f.Kind {
		case "swap":
			data, ok = o.honest(view, f.Other)
		case "stale":
			v := view
			v.HeadN = int64(f.P1)
			data, ok = o.honest(v, path)
		case "side":
			v := view
			v.HeadSide, v.RecSide, v.TileSide, v.LowSide = f.P1, f.P1, f.P1, f.P1
			if o.w.Logs[f.P1] != nil {
				data, ok = o.honest(v, path)
			}
		case "head":
			v := view
			v.HeadKind = f.P1
			data, ok = o.honest(v, path)
		case "error":
			data, ok = nil, false
		case "junktail":
			data, ok = o.junkTail(view, path, f.P1)
		case "negid":
			// the record id line replaced by a negative number
			if i := bytes.IndexByte(data, '\n'); ok && i >= 0 {
				data = append([]byte(fmt.Sprintf("-%d", f.P1)), data[i:]...)
			}
		default:
			if ok {
				data = sumCorrupt(f.Kind, f.P1, f.P2, data)
			}
		}
	}
	o.run.Served = append(o.run.Served, SumServed{Step: step, Path: path, Occ: occ, Data: data, Err: !ok})
	return data, ok
}

func (o *sumOps) ReadRemote(path string) ([]byte, error) {
	o.maybePark("rr", path)
	o.mu.Lock()
	defer o.mu.Unlock()
	data, ok := o.serve(path)
	if !ok {
		o.ev(SumEvent{Kind: "rr", Name: path, Err: true})
		return nil, fmt.Errorf("remote: %s: not found", path)
	}
	o.ev(SumEvent{Kind: "rr", Name: path, Data: data})
	return append([]byte(nil), data...), nil
}

func (o *sumOps) ReadConfig(file string) ([]byte, error) {
	o.maybePark("rcfg", file)
	o.mu.Lock()
	defer o.mu.Unlock()
	data, ok := o.config[file]
	if !ok {
		o.ev(SumEvent{Kind: "rcfg", Name: file, Err: true})
		return nil, fmt.Errorf("no config %s", file)
	}
	o.ev(SumEvent{Kind: "rcfg", Name: file, Data: data})
	return append([]byte(nil), data...), nil
}

func (o *sumOps) WriteConfig(file string, old, new []byte) error {
	o.maybePark("wcfg", file)
	o.mu.Lock()
	defer o.mu.Unlock()
	k := o.nwcfg
	o.nwcfg++
	for _, it := range o.sc.Interf {
		if it.At == k {
			o.config[file] = o.w.HeadMsg(it.HeadSide, it.HeadN, it.HeadKind)
		}
	}
	cur := o.config[file]
	if !bytes.Equal(old, cur) {
		o.ev(SumEvent{Kind: "wcfg", Name: file, Old: append([]byte(nil), old...), Data: append([]byte(nil), new...), Err: true})
		return sumdb.ErrWriteConflict
	}
	o.config[file] = append([]byte(nil), new...)
	o.ev(SumEvent{Kind: "wcfg", Name: file, Old: append([]byte(nil), old...), Data: append([]byte(nil), new...)})
	return nil
}

func (o *sumOps) ReadCache(file string) ([]byte, error) {
	o.maybePark("rc", file)
	o.mu.Lock()
	defer o.mu.Unlock()
	data, ok := o.cache[file]
	if !ok {
		o.ev(SumEvent{Kind: "rc", Name: file, Err: true})
		return nil, fmt.Errorf("no cache %s", file)
	}
	o.ev(SumEvent{Kind: "rc", Name: file, Data: data})
	return append([]byte(nil), data...), nil
}

func (o *sumOps) WriteCache(file string, data []byte) {
	o.mu.Lock()
	defer o.mu.Unlock()
	o.cache[file] = append([]byte(nil), data...)
	o.ev(SumEvent{Kind: "wc", Name: file, Data: append([]byte(nil), data...)})
}

func (o *sumOps) Log(msg string) {
	o.mu.Lock()
	defer o.mu.Unlock()
	o.ev(SumEvent{Kind: "log", Data: []byte(msg)})
}

func (o *sumOps) SecurityError(msg string) {
	o.mu.Lock()
	defer o.mu.Unlock()
	o.ev(SumEvent{Kind: "sec", Data: []byte(msg)})
}

func sumKeep(seed int64, name string, frac int) bool {
	if frac >= 100 {
		return true
	}
	s := sha256.Sum256([]byte(fmt.Sprintf("%d|%s", seed, name)))
	return int(binary.BigEndian.Uint32(s[:4])%100) < frac
}

// BuildCache materialises a cache specification.
func (w *SumWorld) BuildCache(h int, spec SumCacheSpec) map[string][]byte {
	cache := map[string][]byte{}
	lg := w.Logs[spec.Side]
	if spec.N <= 0 || lg == nil {
		return cache
	}
	n := spec.N
	if n > int64(lg.Len()) {
		n = int64(lg.Len())
	}
	for _, t := range SumTilesFor(h, n) {
		name := SumName + "/" + SumTilePath(t)
		if d, ok := lg.TileData(t, n); ok && sumKeep(spec.Seed, name, spec.Frac) {
			cache[name] = d
		}
	}
	if spec.Lookups {
		for id := 0; int64(id) < n; id++ {
			name := SumName + "/lookup/" + SumEscape(lg.Paths[id]) + "@" + SumEscape(lg.Vers[id])
			if sumKeep(spec.Seed, name, spec.Frac) {
				// a cached lookup holds the record and the head that was current when it was fetched
				hn := int64(id) + 1 + (int64(id)*7+spec.Seed)%3
				if hn > n {
					hn = n
				}
				hside := spec.Side
				if hside == 2 {
					// the forged log is never signed: a forged cache file carries a true head of A
					// that the forged tiles still support (one not beyond the forged record)
					hside = 0
					if hn > int64(w.ForgeID) {
						hn = int64(w.ForgeID)
					}
				}
				cache[name] = append(lg.Record(id), w.HeadMsg(hside, hn, HeadGood)...)
			}
		}
	}
	if spec.Corrupt >= 0 && len(cache) > 0 {
		names := make([]string, 0, len(cache))
		for k := range cache {
			names = append(names, k)
		}
		sort.Strings(names)
		k := names[spec.Corrupt%len(names)]
		kind := spec.CKind
		if kind == "" {
			kind = "flip"
		}
		cache[k] = sumCorrupt(kind, int(spec.Seed%9973)+spec.Corrupt, int(spec.Seed%8), cache[k])
	}
	return cache
}

// BuildConfig materialises a configuration specification.
func (w *SumWorld) BuildConfig(spec SumConfigSpec) map[string][]byte {
	cfg := map[string][]byte{}
	switch spec.KeyMode {
	case 0:
		cfg["key"] = []byte(w.Good.VKey + "\n")
	case 1:
		cfg["key"] = []byte(" \t" + w.Good.VKey + "\r\n\n")
	case 2:
	case 3:
		cfg["key"] = []byte("not a key\n")
	case 4:
		cfg["key"] = []byte(w.Bad.VKey + "\n")
	}
	file := SumName + "/latest"
	switch spec.Latest {
	case 0:
		cfg[file] = []byte{}
	case 1:
		cfg[file] = w.HeadMsg(spec.HeadSide, spec.HeadN, spec.HeadKind)
	case 2:
	case 3:
		cfg[file] = []byte("garbage\n")
	}
	return cfg
}

func copyBytesMap(m map[string][]byte) map[string][]byte {
	out := make(map[string][]byte, len(m))
	for k, v := range m {
		out[k] = append([]byte(nil), v...)
	}
	return out
}

// RunSumScenario runs the real client over the scenario's world and records everything.
func RunSumScenario(sc SumScenario) *SumRun {
	w := NewSumWorld(sc.Seed, sc.NA, sc.NB, sc.K, sc.ForgeID)
	run := &SumRun{Sc: sc, W: w}
	ops := &sumOps{w: w, sc: &run.Sc, run: run, occ: map[string]int{}}
	ops.config = w.BuildConfig(sc.Config)
	ops.cache = w.BuildCache(sc.H, sc.Cache)
	run.Config0 = copyBytesMap(ops.config)
	run.Cache0 = copyBytesMap(ops.cache)
	clients := map[int]*sumdb.Client{}
	run.Results = make([]SumResult, len(sc.Steps))
	lookup := func(i int) {
		st := sc.Steps[i]
		ops.mu.Lock()
		c := clients[st.Client]
		if c == nil {
			c = sumdb.NewClient(ops)
			c.SetTileHeight(sc.H)
			clients[st.Client] = c
		}
		ops.mu.Unlock()
		var res SumResult
		func() {
			defer func() {
				if r := recover(); r != nil {
					res = SumResult{Class: "panic", Err: fmt.Sprint(r)}
				}
			}()
			lines, err := c.Lookup(st.Path, st.Vers)
			switch {
			case err == nil:
				res = SumResult{Class: "ok", Lines: lines}
			case strings.Contains(err.Error(), sumdb.ErrSecurity.Error()):
				res = SumResult{Class: "security", Err: err.Error()}
			default:
				res = SumResult{Class: "error", Err: err.Error()}
			}
		}()
		run.Results[i] = res
	}
	inGoroutine := func(i int) chan struct{} {
		done := make(chan struct{})
		go func() {
			defer close(done)
			ops.mu.Lock()
			ops.byGo[sumGoid()] = i
			ops.mu.Unlock()
			lookup(i)
		}()
		return done
	}
	for i := 0; i < len(sc.Steps); i++ {
		ops.mu.Lock()
		ops.step = i
		ops.view = sc.Steps[i].View
		ops.mu.Unlock()
		if sc.Par == nil || sc.Par.Step != i || i+1 >= len(sc.Steps) {
			lookup(i)
			continue
		}
		// the steps i .. last overlap
		last := i + sc.Par.Count
		if sc.Par.Count <= 0 {
			last = i + 1
		}
		if last >= len(sc.Steps) {
			last = len(sc.Steps) - 1
		}
		ops.mu.Lock()
		ops.byGo = map[int64]int{}
		ops.parks = map[int]SumPark{sc.Par.Step: {Step: sc.Par.Step, Kind: sc.Par.Kind, Path: sc.Par.Path}}
		for _, p := range sc.Par.More {
			ops.parks[p.Step] = p
		}
		ops.parkedCh = map[int]chan struct{}{}
		ops.release = map[int]chan struct{}{}
		ops.parkUsed = map[int]bool{}
		for st := range ops.parks {
			ops.parkedCh[st] = make(chan struct{})
			ops.release[st] = make(chan struct{})
		}
		ops.mu.Unlock()
		done := map[int]chan struct{}{}
		isParked := map[int]bool{}
		for st := i; st <= last; st++ {
			done[st] = inGoroutine(st)
			pc := ops.parkedCh[st] // nil (blocks for ever) for a step without a park point
			select {
			case <-pc:
				isParked[st] = true
				time.Sleep(2 * time.Millisecond) // let the other reads of the parked batch finish
			case <-done[st]:
			case <-time.After(60 * time.Millisecond):
				// blocked on something a parked step holds (parCache entry of a parked tile read)
			}
		}
		order := sc.Par.Release
		if len(order) == 0 {
			for st := i; st <= last; st++ {
				order = append(order, st)
			}
		}
		released := map[int]bool{}
		rel := func(st int) {
			if ch, ok := ops.release[st]; ok && !released[st] {
				released[st] = true
				close(ch)
			}
		}
		for _, st := range order {
			if st < i || st > last {
				continue
			}
			rel(st)
			select {
			case <-done[st]:
			case <-time.After(60 * time.Millisecond):
			}
		}
		for st := i; st <= last; st++ {
			rel(st)
		}
		for st := i; st <= last; st++ {
			<-done[st]
		}
		ops.mu.Lock()
		ops.byGo = nil
		ops.parks = nil
		ops.mu.Unlock()
		i = last
	}
	run.Config = ops.config
	run.Cache = ops.cache
	return run
}

// SumIndent is the indentation checkTrees applies to a note inside the security message.
func SumIndent(b []byte) []byte { return bytes.Replace(b, []byte("\n"), []byte("\n\t"), -1) }
