package gen

// Shared helpers for the transparency-log properties (C09, C03, C10, client):
//   - MemLog: a log built with the tlog API on an in-memory hash store
//   - RecReader / TableReader: readers that record what was read, resp. serve a recorded table
//     (the wire encoding of a reader is the table: the model costs O(log n) hashes per case)
//   - an INDEPENDENT implementation of RFC 6962 (tree hash, audit path, consistency proof,
//     written recursively from section 2.1 with crypto/sha256 directly) and of the RFC 9162
//     verification algorithms (sections 2.1.3.2 and 2.1.4.2, iterative form). None of these
//     call into golang.org/x/mod/sumdb/tlog.

import (
	"crypto/sha256"
	"errors"
	"fmt"
	"math/rand"

	"golang.org/x/mod/sumdb/tlog"

	"verif/harness/wire"
)

// ---------------------------------------------------------------- in-memory log

// MemLog is a log written through tlog.StoredHashes.
type MemLog struct {
	Records [][]byte
	Hashes  []tlog.Hash // the dense hash store
}

// Reader returns a HashReader over the store (error on an index out of range).
func (l *MemLog) Reader() tlog.HashReader { return StoreReader(l.Hashes) }

// StoreReader serves a slice of hashes by index.
func StoreReader(store []tlog.Hash) tlog.HashReaderFunc {
	return func(indexes []int64) ([]tlog.Hash, error) {
		out := make([]tlog.Hash, 0, len(indexes))
		for _, i := range indexes {
			if i < 0 || i >= int64(len(store)) {
				return nil, fmt.Errorf("memlog: index %d out of range [0,%d)", i, len(store))
			}
			out = append(out, store[i])
		}
		return out, nil
	}
}

// Append writes one record; it returns the hashes tlog.StoredHashes asked to store.
func (l *MemLog) Append(data []byte) ([]tlog.Hash, error) {
	n := int64(len(l.Records))
	hs, err := tlog.StoredHashes(n, data, l.Reader())
	if err != nil {
		return nil, err
	}
	l.Records = append(l.Records, append([]byte(nil), data...))
	l.Hashes = append(l.Hashes, hs...)
	return hs, nil
}

// NewMemLog builds a log of the given records.
func NewMemLog(records [][]byte) (*MemLog, error) {
	l := &MemLog{}
	for _, d := range records {
		if _, err := l.Append(d); err != nil {
			return nil, err
		}
	}
	return l, nil
}

// LogRecords draws n record contents: random lengths 0..200, with repeats and empties.
func LogRecords(r *rand.Rand, n int) [][]byte {
	out := make([][]byte, n)
	style := r.Intn(4)
	for i := range out {
		switch {
		case style == 0: // all distinct short texts
			out[i] = []byte(fmt.Sprintf("record %d\n", i))
		case style == 1 && i > 0 && r.Intn(3) == 0: // repeats
			out[i] = out[r.Intn(i)]
		case style == 2 && r.Intn(4) == 0:
			out[i] = nil
		default:
			b := make([]byte, r.Intn(1+r.Intn(301)))
			if r.Intn(40) == 0 {
				b = make([]byte, 254+r.Intn(5)) // 254..258: around one byte of length
			}
			r.Read(b)
			out[i] = b
		}
	}
	return out
}

// ---------------------------------------------------------------- aliasing hash store
//
// AliasStore is a dense hash store whose ReadHashes result ALIASES memory it owns, as a store
// backed by an array or a memory-mapped file may: a run of consecutive positions is served as a
// window (sub-slice) onto the array, any other request is built once and the same slice is
// handed out again for the same request (memoised). HashReader callers are documented only to
// read the result; Tampered reports whether one of them wrote to it.
type AliasStore struct {
	Hashes []tlog.Hash            // the store, served without copying
	shadow []tlog.Hash            // private copy, never handed out
	memo   map[string][]tlog.Hash // memoised non-consecutive results
	keys   map[string][]int64
}

func NewAliasStore() *AliasStore {
	return &AliasStore{memo: map[string][]tlog.Hash{}, keys: map[string][]int64{}}
}

// Add appends hashes to the store.
func (s *AliasStore) Add(hs []tlog.Hash) {
	s.Hashes = append(s.Hashes, hs...)
	s.shadow = append(s.shadow, hs...)
}

func (s *AliasStore) ReadHashes(indexes []int64) ([]tlog.Hash, error) {
	consecutive := len(indexes) > 0
	for i, ix := range indexes {
		if ix < 0 || ix >= int64(len(s.Hashes)) {
			return nil, fmt.Errorf("aliasstore: index %d out of range [0,%d)", ix, len(s.Hashes))
		}
		if ix != indexes[0]+int64(i) {
			consecutive = false
		}
	}
	if consecutive {
		a, b := indexes[0], indexes[0]+int64(len(indexes))
		return s.Hashes[a:b:b], nil
	}
	key := fmt.Sprint(indexes)
	if out, ok := s.memo[key]; ok {
		return out, nil
	}
	out := make([]tlog.Hash, len(indexes))
	for i, ix := range indexes {
		out[i] = s.Hashes[ix]
	}
	s.memo[key] = out
	s.keys[key] = append([]int64(nil), indexes...)
	return out, nil
}

// Tampered compares everything the store has handed out with its private copy; "" if intact.
func (s *AliasStore) Tampered() string {
	for i := range s.shadow {
		if s.Hashes[i] != s.shadow[i] {
			return fmt.Sprintf("stored position %d was overwritten through a ReadHashes result (now %v, stored %v)", i, s.Hashes[i], s.shadow[i])
		}
	}
	for key, out := range s.memo {
		for i, ix := range s.keys[key] {
			if out[i] != s.shadow[ix] {
				return fmt.Sprintf("the memoised result of ReadHashes(%s) was overwritten at [%d] (position %d)", key, i, ix)
			}
		}
	}
	return ""
}

// ---------------------------------------------------------------- readers and their wire form

// IndexHash is one entry of a reader table.
type IndexHash struct {
	Index int64
	Hash  tlog.Hash
}

// RecReader wraps a reader and records every (index, hash) served.
type RecReader struct {
	R     tlog.HashReader
	Table []IndexHash
	Calls int
}

func (rr *RecReader) ReadHashes(indexes []int64) ([]tlog.Hash, error) {
	rr.Calls++
	hs, err := rr.R.ReadHashes(indexes)
	if err == nil && len(hs) == len(indexes) {
		for i, ix := range indexes {
			rr.Table = append(rr.Table, IndexHash{ix, hs[i]})
		}
	}
	return hs, err
}

// ErrTableReader is the error of a table reader (missing index or mode 3).
var ErrTableReader = errors.New("table reader: cannot read")

// TableReader mirrors DispatchTlog.table_reader: every requested index is looked up in the
// table (first match; a missing index is an error); mode 0 returns the hashes, 1 drops the
// last one, 2 appends one extra zero hash, 3 always fails.
func TableReader(mode int, table []IndexHash) tlog.HashReaderFunc {
	return func(indexes []int64) ([]tlog.Hash, error) {
		if mode == 3 {
			return nil, ErrTableReader
		}
		out := make([]tlog.Hash, 0, len(indexes)+1)
		for _, ix := range indexes {
			found := false
			for _, e := range table {
				if e.Index == ix {
					out = append(out, e.Hash)
					found = true
					break
				}
			}
			if !found {
				return nil, ErrTableReader
			}
		}
		switch mode {
		case 1:
			if len(out) > 0 {
				out = out[:len(out)-1]
			}
		case 2:
			out = append(out, tlog.Hash{})
		}
		return out, nil
	}
}

// ReaderVal is the wire encoding of TableReader(mode, table).
func ReaderVal(mode int, table []IndexHash) wire.Val {
	l := make([]wire.Val, len(table))
	for i, e := range table {
		l[i] = wire.L(wire.I(e.Index), wire.Bytes(e.Hash[:]))
	}
	return wire.L(wire.Int(mode), wire.L(l...))
}

// HashesVal encodes a list of hashes.
func HashesVal(hs []tlog.Hash) wire.Val {
	l := make([]wire.Val, len(hs))
	for i, h := range hs {
		l[i] = wire.Bytes(h[:])
	}
	return wire.L(l...)
}

// TlogErrVal classifies an error of the tlog package into the model's error kinds.
func TlogErrVal(err error) wire.Val {
	switch {
	case err == ErrTableReader:
		return wire.Err("reader")
	case containsStr(err.Error(), "invalid inputs"):
		return wire.Err("invalid")
	case containsStr(err.Error(), "ReadHashes("):
		return wire.Err("count")
	case containsStr(err.Error(), "invalid transparency proof"):
		return wire.Err("proof")
	case containsStr(err.Error(), "malformed"), containsStr(err.Error(), "cannot decode hash"):
		return wire.Err("malformed")
	}
	return wire.Err("other:" + err.Error())
}

func containsStr(s, sub string) bool {
	for i := 0; i+len(sub) <= len(s); i++ {
		if s[i:i+len(sub)] == sub {
			return true
		}
	}
	return false
}

// ---------------------------------------------------------------- independent RFC 6962

// Rfc6962 computes Merkle tree hashes, audit paths and consistency proofs of a fixed list of
// leaf inputs by the recursive definitions of RFC 6962 section 2.1, memoising MTH of ranges.
type Rfc6962 struct {
	Leaves [][]byte
	memo   map[[2]int]tlog.Hash
}

func NewRfc6962(leaves [][]byte) *Rfc6962 {
	return &Rfc6962{Leaves: leaves, memo: map[[2]int]tlog.Hash{}}
}

// RfcEmpty is SHA-256 of the empty string.
func RfcEmpty() tlog.Hash { return sha256.Sum256(nil) }

// RfcLeaf is SHA-256(0x00 || d).
func RfcLeaf(d []byte) tlog.Hash {
	return sha256.Sum256(append([]byte{0}, d...))
}

// RfcNode is SHA-256(0x01 || l || r).
func RfcNode(l, r tlog.Hash) tlog.Hash {
	b := make([]byte, 0, 65)
	b = append(b, 1)
	b = append(b, l[:]...)
	b = append(b, r[:]...)
	return sha256.Sum256(b)
}

// splitPoint is the largest power of two strictly smaller than n (n >= 2).
func splitPoint(n int) int {
	k := 1
	for k*2 < n {
		k *= 2
	}
	return k
}

// MTH of D[lo:hi].
func (t *Rfc6962) MTH(lo, hi int) tlog.Hash {
	n := hi - lo
	if n == 0 {
		return RfcEmpty()
	}
	if n == 1 {
		return RfcLeaf(t.Leaves[lo])
	}
	key := [2]int{lo, hi}
	if h, ok := t.memo[key]; ok {
		return h
	}
	k := splitPoint(n)
	h := RfcNode(t.MTH(lo, lo+k), t.MTH(lo+k, hi))
	t.memo[key] = h
	return h
}

// Root is MTH(D[0:n]).
func (t *Rfc6962) Root(n int) tlog.Hash { return t.MTH(0, n) }

// Path is PATH(m, D[lo:hi]) of RFC 6962 section 2.1.1 (m relative to lo).
func (t *Rfc6962) path(m, lo, hi int) []tlog.Hash {
	n := hi - lo
	if n == 1 {
		return nil
	}
	k := splitPoint(n)
	if m < k {
		return append(t.path(m, lo, lo+k), t.MTH(lo+k, hi))
	}
	return append(t.path(m-k, lo+k, hi), t.MTH(lo, lo+k))
}

// Path is the audit path of leaf m in the tree of the first n leaves (0 <= m < n).
func (t *Rfc6962) Path(m, n int) []tlog.Hash { return t.path(m, 0, n) }

// subproof is SUBPROOF(m, D[lo:hi], b) of RFC 6962 section 2.1.2.
func (t *Rfc6962) subproof(m, lo, hi int, b bool) []tlog.Hash {
	n := hi - lo
	if m == n {
		if b {
			return nil
		}
		return []tlog.Hash{t.MTH(lo, hi)}
	}
	k := splitPoint(n)
	if m <= k {
		return append(t.subproof(m, lo, lo+k, b), t.MTH(lo+k, hi))
	}
	return append(t.subproof(m-k, lo+k, hi, false), t.MTH(lo, lo+k))
}

// Proof is PROOF(m, D[n]), the consistency proof between sizes m and n (0 < m <= n).
func (t *Rfc6962) Proof(m, n int) []tlog.Hash { return t.subproof(m, 0, n, true) }

// ---------------------------------------------------------------- virtual log of identical records
//
// A log in which every record has the same content: MTH(D[lo:hi]) then depends only on the
// LENGTH hi-lo, so the recursive definitions of RFC 6962 section 2.1 (MTH, PATH, PROOF) can be
// evaluated for every int64 size (up to 2^63-1) without storing the log, memoising on lengths.
// All arithmetic is overflow-free for 1 <= n <= 2^63-1. Independent of the tlog package.

// VirtualLog is the log record, record, record, ... of unbounded length.
type VirtualLog struct {
	Record []byte
	memo   map[int64]tlog.Hash
}

func NewVirtualLog(record []byte) *VirtualLog {
	return &VirtualLog{Record: append([]byte(nil), record...), memo: map[int64]tlog.Hash{}}
}

// SplitPoint64 is the largest power of two strictly smaller than n (n >= 2), computed without
// overflow for every n <= 2^63-1 (k < n-k  <=>  2k < n).
func SplitPoint64(n int64) int64 {
	k := int64(1)
	for k < n-k {
		k *= 2
	}
	return k
}

// Leaf is the leaf hash of every record of the log.
func (v *VirtualLog) Leaf() tlog.Hash { return RfcLeaf(v.Record) }

// MTH is the Merkle Tree Hash of any n consecutive records (n >= 0).
func (v *VirtualLog) MTH(n int64) tlog.Hash {
	if n <= 0 {
		return RfcEmpty()
	}
	if n == 1 {
		return v.Leaf()
	}
	if h, ok := v.memo[n]; ok {
		return h
	}
	k := SplitPoint64(n)
	h := RfcNode(v.MTH(k), v.MTH(n-k))
	v.memo[n] = h
	return h
}

// Path is PATH(m, D[n]) of RFC 6962 section 2.1.1 (0 <= m < n).
func (v *VirtualLog) Path(m, n int64) []tlog.Hash {
	if n == 1 {
		return nil
	}
	k := SplitPoint64(n)
	if m < k {
		return append(v.Path(m, k), v.MTH(n-k))
	}
	return append(v.Path(m-k, n-k), v.MTH(k))
}

func (v *VirtualLog) subproof(m, n int64, b bool) []tlog.Hash {
	if m == n {
		if b {
			return nil
		}
		return []tlog.Hash{v.MTH(n)}
	}
	k := SplitPoint64(n)
	if m <= k {
		return append(v.subproof(m, k, b), v.MTH(n-k))
	}
	return append(v.subproof(m-k, n-k, false), v.MTH(k))
}

// Proof is PROOF(m, D[n]) of RFC 6962 section 2.1.2 (0 < m <= n).
func (v *VirtualLog) Proof(m, n int64) []tlog.Hash { return v.subproof(m, n, true) }

// ---------------------------------------------------------------- sparse virtual log with a hash reader
//
// SparseLog is a VirtualLog in which a few positions hold a different record (Special); the
// hash of a range without special positions depends only on its length, any other range is
// split as RFC 6962 says. Reader serves the stored hashes of the first `size` records by
// inverting the documented dense layout itself (record n is stored at 2n - popcount(n), followed
// by the subtrees it completes), so proofs can be GENERATED by the implementation for logs of
// 2^32 .. 2^61 records without storage. Independent of the tlog package's index arithmetic.
type SparseLog struct {
	V       *VirtualLog
	Special map[int64][]byte
	pos     []int64 // sorted special positions
	memo    map[[2]int64]tlog.Hash
}

func NewSparseLog(record []byte, special map[int64][]byte) *SparseLog {
	s := &SparseLog{V: NewVirtualLog(record), Special: special, memo: map[[2]int64]tlog.Hash{}}
	for p := range special {
		s.pos = append(s.pos, p)
	}
	for i := range s.pos { // insertion sort, a handful of entries
		for j := i; j > 0 && s.pos[j] < s.pos[j-1]; j-- {
			s.pos[j], s.pos[j-1] = s.pos[j-1], s.pos[j]
		}
	}
	return s
}

func (s *SparseLog) plain(lo, hi int64) bool {
	for _, p := range s.pos {
		if lo <= p && p < hi {
			return false
		}
	}
	return true
}

// Leaf is the leaf hash of record i.
func (s *SparseLog) Leaf(i int64) tlog.Hash {
	if d, ok := s.Special[i]; ok {
		return RfcLeaf(d)
	}
	return s.V.Leaf()
}

// MTH is the Merkle Tree Hash of records [lo, hi).
func (s *SparseLog) MTH(lo, hi int64) tlog.Hash {
	if s.plain(lo, hi) {
		return s.V.MTH(hi - lo)
	}
	if hi-lo == 1 {
		return s.Leaf(lo)
	}
	key := [2]int64{lo, hi}
	if h, ok := s.memo[key]; ok {
		return h
	}
	k := SplitPoint64(hi - lo)
	h := RfcNode(s.MTH(lo, lo+k), s.MTH(lo+k, hi))
	s.memo[key] = h
	return h
}

// Root is MTH of the first n records.
func (s *SparseLog) Root(n int64) tlog.Hash { return s.MTH(0, n) }

func (s *SparseLog) path(m, lo, hi int64) []tlog.Hash {
	if hi-lo == 1 {
		return nil
	}
	k := SplitPoint64(hi - lo)
	if m < lo+k {
		return append(s.path(m, lo, lo+k), s.MTH(lo+k, hi))
	}
	return append(s.path(m, lo+k, hi), s.MTH(lo, lo+k))
}

// Path is PATH(m, D[n]) (0 <= m < n).
func (s *SparseLog) Path(m, n int64) []tlog.Hash { return s.path(m, 0, n) }

func (s *SparseLog) subproof(m, lo, hi int64, b bool) []tlog.Hash {
	if m == hi {
		if b {
			return nil
		}
		return []tlog.Hash{s.MTH(lo, hi)}
	}
	k := SplitPoint64(hi - lo)
	if m <= lo+k {
		return append(s.subproof(m, lo, lo+k, b), s.MTH(lo+k, hi))
	}
	return append(s.subproof(m, lo+k, hi, false), s.MTH(lo, lo+k))
}

// Proof is PROOF(m, D[n]) (0 < m <= n).
func (s *SparseLog) Proof(m, n int64) []tlog.Hash { return s.subproof(m, 0, n, true) }

// SpecLeafIndex is the documented position of the leaf hash of record n: 2n - popcount(n).
func SpecLeafIndex(n int64) int64 {
	c := int64(0)
	for x := uint64(n); x != 0; x &= x - 1 {
		c++
	}
	return 2*n - c
}

// SpecSplitIndex inverts the dense layout: the stored position index holds the hash of the
// complete subtree of 2^level records ending with record n (binary search on SpecLeafIndex).
func SpecSplitIndex(index int64) (level int, n int64) {
	// SpecLeafIndex(n) = 2n - popcount(n) >= 2n - 63, so the answer is at most (index+63)/2;
	// the bound also keeps 2*mid inside int64 (index < 2^63), which the naive bound hi = index
	// did not (positions above 2^62 made the search go wrong)
	lo, hi := int64(0), index/2+32
	if hi > 1<<62-1 {
		hi = 1<<62 - 1
	}
	for lo < hi { // largest n with SpecLeafIndex(n) <= index
		mid := lo + (hi-lo+1)/2
		if SpecLeafIndex(mid) <= index {
			lo = mid
		} else {
			hi = mid - 1
		}
	}
	return int(index - SpecLeafIndex(lo)), lo
}

// Reader serves the dense hash store of the first size records; Asked collects the indexes.
func (s *SparseLog) Reader(size int64, asked *[]int64) tlog.HashReaderFunc {
	return func(indexes []int64) ([]tlog.Hash, error) {
		out := make([]tlog.Hash, 0, len(indexes))
		for _, ix := range indexes {
			if asked != nil {
				*asked = append(*asked, ix)
			}
			if ix < 0 {
				return nil, fmt.Errorf("sparselog: negative index %d", ix)
			}
			lv, n := SpecSplitIndex(ix)
			if n >= size || lv > 62 || (n+1)&(int64(1)<<uint(lv)-1) != 0 {
				return nil, fmt.Errorf("sparselog: position %d is not stored in a log of %d records", ix, size)
			}
			out = append(out, s.MTH(n+1-int64(1)<<uint(lv), n+1))
		}
		return out, nil
	}
}

// BoundaryLenRecords draws n records whose lengths sit at the block and buffer boundaries of
// SHA-256 and of small fixed buffers: 60..70, 127..130, 254..258, 510..514 (random content).
func BoundaryLenRecords(r *rand.Rand, n int) [][]byte {
	var lens []int
	for _, ab := range [][2]int{{60, 70}, {127, 130}, {254, 258}, {510, 514}} {
		for l := ab[0]; l <= ab[1]; l++ {
			lens = append(lens, l)
		}
	}
	out := make([][]byte, n)
	for i := range out {
		b := make([]byte, lens[(i+r.Intn(2)*r.Intn(len(lens)))%len(lens)])
		r.Read(b)
		out[i] = b
	}
	return out
}

// ---------------------------------------------------------------- independent RFC 9162 verification

// RfcVerifyInclusion is RFC 9162 section 2.1.3.2.
func RfcVerifyInclusion(path []tlog.Hash, treeSize int64, root tlog.Hash, leafIndex int64, hash tlog.Hash) bool {
	if leafIndex < 0 || treeSize < 0 || leafIndex >= treeSize {
		return false
	}
	fn, sn := uint64(leafIndex), uint64(treeSize-1)
	r := hash
	for _, p := range path {
		if sn == 0 {
			return false
		}
		if fn&1 == 1 || fn == sn {
			r = RfcNode(p, r)
			if fn&1 == 0 {
				for fn&1 == 0 && fn != 0 {
					fn >>= 1
					sn >>= 1
				}
			}
		} else {
			r = RfcNode(r, p)
		}
		fn >>= 1
		sn >>= 1
	}
	return sn == 0 && r == root
}

// RfcVerifyConsistency is RFC 9162 section 2.1.4.2 (0 < first < second); for first == second
// the proof must be empty and the hashes equal (section 2.1.4.1).
func RfcVerifyConsistency(path []tlog.Hash, second int64, secondHash tlog.Hash, first int64, firstHash tlog.Hash) bool {
	if first < 1 || second < first {
		return false
	}
	if first == second {
		return len(path) == 0 && firstHash == secondHash
	}
	if len(path) == 0 {
		return false
	}
	if first&(first-1) == 0 {
		path = append([]tlog.Hash{firstHash}, path...)
	}
	fn, sn := uint64(first-1), uint64(second-1)
	for fn&1 == 1 {
		fn >>= 1
		sn >>= 1
	}
	fr, sr := path[0], path[0]
	for _, c := range path[1:] {
		if sn == 0 {
			return false
		}
		if fn&1 == 1 || fn == sn {
			fr = RfcNode(c, fr)
			sr = RfcNode(c, sr)
			if fn&1 == 0 {
				for fn&1 == 0 && fn != 0 {
					fn >>= 1
					sn >>= 1
				}
			}
		} else {
			sr = RfcNode(sr, c)
		}
		fn >>= 1
		sn >>= 1
	}
	return fr == firstHash && sr == secondHash && sn == 0
}

// RandHash draws a hash: mostly random, sometimes all zero or all ones.
func RandHash(r *rand.Rand) tlog.Hash {
	var h tlog.Hash
	switch r.Intn(8) {
	case 0: // zero
	case 1:
		for i := range h {
			h[i] = 0xff
		}
	default:
		r.Read(h[:])
	}
	return h
}

// RandSize draws a non-negative number with a random number of bits (at most maxBits),
// often a power of two or all ones.
func RandSize(r *rand.Rand, maxBits int) int64 {
	b := r.Intn(maxBits + 1)
	if b == 0 {
		return 0
	}
	n := int64(1)<<uint(b-1) | r.Int63()&(int64(1)<<uint(b-1)-1)
	switch r.Intn(6) {
	case 0:
		n = int64(1) << uint(b-1) // power of two
	case 1:
		n = int64(1)<<uint(b) - 1 // all ones
	}
	return n
}
