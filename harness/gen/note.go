package gen

// Shared pieces for the signed-note properties (C07 and the checksum-database client):
//
//	ToySig / ToyVerifier / ToySigner   a toy signature scheme, identical to toy_sig in
//	                                   coq/Note/DispatchNote.v
//	Recorder / RecVerifier / RecSigner  wrappers logging every Verify / Sign call
//	EdKey / NewEdKey                    real Ed25519 note keys derived from the PRNG
//	NoteKeyHash                         independent re-implementation of the key hash
//	NoteName / NoteText                 generators for server names and note texts

import (
	"bytes"
	"crypto/ed25519"
	"crypto/sha256"
	"encoding/base64"
	"encoding/binary"
	"errors"
	"fmt"
	"math/rand"
	"strings"

	"golang.org/x/mod/sumdb/note"
)

func toyH(seed uint32, parts ...[]byte) uint32 {
	h := seed
	for _, p := range parts {
		for _, b := range p {
			h = h*33 + uint32(b) + 1
		}
	}
	return h
}

// ToySig is the toy signature of msg under key: up to 8 checksum bytes; the length is
// key[0] mod 9 (8 for the empty key), so some keys produce short or empty signatures.
func ToySig(key, msg []byte) []byte {
	var full [8]byte
	binary.BigEndian.PutUint32(full[0:4], toyH(2166136261, key, msg))
	binary.BigEndian.PutUint32(full[4:8], toyH(40389, msg, key))
	if len(key) == 0 {
		return full[:]
	}
	return full[:int(key[0])%9]
}

// ToyVerifier implements note.Verifier with a freely chosen name and key hash.
type ToyVerifier struct {
	N   string
	H   uint32
	Key []byte
}

func (v *ToyVerifier) Name() string    { return v.N }
func (v *ToyVerifier) KeyHash() uint32 { return v.H }
func (v *ToyVerifier) Verify(msg, sig []byte) bool {
	return bytes.Equal(sig, ToySig(v.Key, msg))
}

// ToySigner implements note.Signer; a signer with an empty key fails.
type ToySigner struct {
	N   string
	H   uint32
	Key []byte
}

func (s *ToySigner) Name() string    { return s.N }
func (s *ToySigner) KeyHash() uint32 { return s.H }
func (s *ToySigner) Sign(msg []byte) ([]byte, error) {
	if len(s.Key) == 0 {
		return nil, errors.New("toy signer without key")
	}
	return ToySig(s.Key, msg), nil
}

// VerifyCall is one recorded call of Verifier.Verify.
type VerifyCall struct {
	Name string
	Hash uint32
	Key  []byte // identity of the verifier that was asked
	Msg  []byte
	Sig  []byte
	OK   bool
}

// SignCall is one recorded call of Signer.Sign.
type SignCall struct {
	Key []byte
	Msg []byte
	Sig []byte
	Err bool
}

// Recorder collects the calls made through RecVerifier / RecSigner.
type Recorder struct {
	Verifies []VerifyCall
	Signs    []SignCall
}

func (r *Recorder) Reset() { r.Verifies, r.Signs = nil, nil }

// VerifiedTrue reports whether some recorded Verify call over exactly msg returned true.
func (r *Recorder) VerifiedTrue(msg []byte) bool {
	for _, c := range r.Verifies {
		if c.OK && bytes.Equal(c.Msg, msg) {
			return true
		}
	}
	return false
}

// RecVerifier wraps a Verifier and records every Verify call; Key identifies the wrapped
// verifier in the record (and in the model's table).
type RecVerifier struct {
	note.Verifier
	Key []byte
	Rec *Recorder
}

func (v *RecVerifier) Verify(msg, sig []byte) bool {
	ok := v.Verifier.Verify(msg, sig)
	v.Rec.Verifies = append(v.Rec.Verifies, VerifyCall{Name: v.Name(), Hash: v.KeyHash(), Key: v.Key,
		Msg: append([]byte(nil), msg...), Sig: append([]byte(nil), sig...), OK: ok})
	return ok
}

// RecSigner wraps a Signer and records every Sign call.
type RecSigner struct {
	note.Signer
	Key []byte
	Rec *Recorder
}

func (s *RecSigner) Sign(msg []byte) ([]byte, error) {
	sig, err := s.Signer.Sign(msg)
	s.Rec.Signs = append(s.Rec.Signs, SignCall{Key: s.Key, Msg: append([]byte(nil), msg...), Sig: append([]byte(nil), sig...), Err: err != nil})
	return sig, err
}

// NoteKeyHash is the documented key hash: the first four bytes, big endian, of
// SHA-256(name "\n" key). Written independently of note.keyHash.
func NoteKeyHash(name string, key []byte) uint32 {
	sum := sha256.Sum256([]byte(name + "\n" + string(key)))
	return binary.BigEndian.Uint32(sum[:4])
}

// EdKey is a real Ed25519 note key pair in the encoded forms note.NewSigner/NewVerifier take.
type EdKey struct {
	Name string
	Seed []byte // 32 bytes
	Pub  []byte // 32 bytes
	Hash uint32
	SKey string
	VKey string
}

// NewEdKey derives a key pair for name from the PRNG (deterministic for a seed).
func NewEdKey(r *rand.Rand, name string) EdKey {
	seed := make([]byte, ed25519.SeedSize)
	r.Read(seed)
	return EdKeyFromSeed(name, seed)
}

func EdKeyFromSeed(name string, seed []byte) EdKey {
	priv := ed25519.NewKeyFromSeed(seed)
	pub := []byte(priv[32:])
	pubkey := append([]byte{1}, pub...)
	h := NoteKeyHash(name, pubkey)
	return EdKey{Name: name, Seed: seed, Pub: pub, Hash: h,
		SKey: fmt.Sprintf("PRIVATE+KEY+%s+%08x+%s", name, h, base64.StdEncoding.EncodeToString(append([]byte{1}, seed...))),
		VKey: fmt.Sprintf("%s+%08x+%s", name, h, base64.StdEncoding.EncodeToString(pubkey))}
}

var goodNames = []string{"a", "b", "k", "example.com/log", "sum.golang.org", "PeterNeumann", "EnochRoot", "é", "名前", "x—y", "a=b", "-", "—"}
var ctrlNames = []string{"a\x01b", "\x00", "x\x1f", "\x7f\x02", "a\x08", "\x1bz", "q\x0e\x0f"}
var badNames = []string{"", "a b", "a+b", "+", " ", "a\tb", "a\nb", "a\rb", "a\vb", "a\fb", "a\u00a0b", "a\u0085b", "\u2003", "a\u3000", "\u1680x",
	"a\u2028", "a\u202fb", "\u205f", "\u2000k", "\xff", "a\xc0\x80", "\xe2\x80", "a\xed\xa0\x80"}

// NoteName returns a server name: mostly valid, sometimes valid but containing a C0/C1
// control character (accepted by isValidName, finding K2), sometimes invalid.
func NoteName(r *rand.Rand) string {
	switch k := r.Intn(80); {
	case k < 68:
		return goodNames[r.Intn(len(goodNames))]
	case k < 70:
		return ctrlNames[r.Intn(len(ctrlNames))]
	case k < 74:
		return badNames[r.Intn(len(badNames))]
	case k < 78:
		return NoteName(r) + NoteName(r)
	default:
		return RawBytes(r, 5)
	}
}

var textLines = []string{"hello", "If you think cryptography is the answer to your problem,", "then you don't know what your problem is.",
	"", "", "go.sum database tree", "12345", "Kg1x5jgbPPdq5bGpPLLTHo5mTPUkiVkpg3vq0Q4DvTQ=", " ", "—", "— ", "— a", "— a AAAAAAE=", "— PeterNeumann x08go/ZJkuBS9UG/SffcvIAQxVBtiFupLLr8pAcElZInNIuGUgYN1FFYC2pZSNXgKvqfqdngotpRZb6KE6RyyBwJnAM=",
	"—— x", "– en dash", "é", "日本語", "\u00a0", "\u2003x", "𝔘𝔫𝔦", "\ufffd", "\x7f", "\u0085", "+", "x y z"}

// NoteText returns a note text: mostly valid (ends in newline, valid UTF-8, no control
// characters), with blank lines, signature-looking lines and em-dash prefixes inside;
// sometimes without the final newline, with a C0 control character or invalid UTF-8.
func NoteText(r *rand.Rand) string {
	var b strings.Builder
	n := r.Intn(5)
	if r.Intn(8) == 0 {
		n += 4
	}
	for i := 0; i < n; i++ {
		b.WriteString(textLines[r.Intn(len(textLines))])
		b.WriteByte('\n')
	}
	s := b.String()
	switch k := r.Intn(40); {
	case k < 30:
		if s == "" {
			s = "\n"
		}
	case k < 32: // no final newline / empty
		s = strings.TrimSuffix(s, "\n")
	case k < 35: // one C0 control (each of them over time) or DEL somewhere
		c := byte(r.Intn(0x20))
		i := r.Intn(len(s) + 1)
		s = s[:i] + string([]byte{c}) + s[i:]
		if !strings.HasSuffix(s, "\n") {
			s += "\n"
		}
	case k < 37: // invalid UTF-8
		bad := []string{"\xff", "\xc0\x80", "\xe2\x80", "\xed\xa0\x80", "\xf4\x90\x80\x80", "\x80", "\xe2\x80\n"}
		i := r.Intn(len(s) + 1)
		s = s[:i] + bad[r.Intn(len(bad))] + s[i:]
		if !strings.HasSuffix(s, "\n") {
			s += "\n"
		}
	case k < 38:
		s = s + "\n" // trailing blank line(s)
	default:
		s = "\n" + s
		if !strings.HasSuffix(s, "\n") {
			s += "\n"
		}
	}
	return s
}
