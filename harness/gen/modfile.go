package gen

// Generators for go.mod / go.work texts, shared by C02, C20 (syntax and directive layer)
// and the edit-operation properties C08, C15, C16.
//
//	TokenSoup(r)     arbitrary token sequences over an atom set (mostly rejected or odd)
//	GoMod(r)         well-formed go.mod text from a directive-level generator
//	GoWork(r)        well-formed go.work text
//	GoModOpts(r, o)  the same with the layout noise switched off selectively
//	TestdataMutant(r) a file of modfile/testdata, possibly with a few byte/line mutations
//	LongLine(r)      one very long line (64 KiB)

import (
	"math/rand"
	"os"
	"path/filepath"
	"sort"
	"strconv"
	"strings"
	"sync"
)

// ---------------------------------------------------------------- token soups

var soupIdents = []string{
	"a", "b", "x", "module", "require", "replace", "exclude", "retract", "go", "toolchain", "godebug", "tool", "use",
	"example.com/m", "example.com/m/v2", "golang.org/x/net", "gopkg.in/yaml.v2", "./local", "../up", "/abs",
	"v1.2.3", "v0.0.0-20190101000000-abcdefabcdef", "v2.0.0+incompatible", "v1", "1.21", "1.21.0", "1.22rc1", "go1.21.0",
	"=>", "=", "k=v", "a/b", "a//b", "a/", "/", "-", "'q'", "a'b", "a\"b", "a`b", "indirect", "Deprecated:",
	"é", "世界", "a\u0301", "\U0001F600", "\ufeff", "x\u00adz", "\ufffd",
}

var soupPunct = []string{"(", ")", "[", "]", "{", "}", ","}

var soupStrings = []string{
	`"a"`, `"a b"`, `""`, `"a\"b"`, `"a\\"`, `"\n"`, `"\x41"`, `"\u00e9"`, `"\q"`, `"a(b"`, `"//"`, `"/*"`, `"a,b"`,
	"`a`", "`a b`", "``", "`a\\`", "`a\"b`", "`//x`", `"é"`, `"a` + "\xff" + `b"`, `"'"`, "\"`\"", "`\"`",
	`"example.com/m"`, `"v1.2.3"`, `"./x y"`, "\"a\\\nb\"", "\"a\\\r\nb\"",
}

var soupBroken = []string{
	`"abc`, "`abc", `"abc\`, `"`, "`", `"a` + "\n", "`a\n", `"\`, "\"a\\\n", "`a\\", `"a\"`,
}

var soupComments = []string{
	"// c", "//", "//c", "// indirect", "// indirect; x", "//indirect", "// a // b", "// é", "// \xff", "//\t", "// x \t ", "// x\u00a0",
	"// x\u3000", "// x\v", "// x\f", "// x\r", "// Deprecated: use x", "// (", "// \"", "/// x", "//*", "// /*",
}

var soupBlockComments = []string{"/*", "/* x */", "/**/", "a/*b", "/*\n*/"}

var soupSpace = []string{" ", " ", " ", "  ", "\t", "\t", "\r", " \t "}

var soupNewline = []string{"\n", "\n", "\n", "\n", "\r\n", "\r\n", "\n\n", "\n \n", "\r\r\n"}

var soupWeird = []string{
	"\x00", "\x01", "\x07", "\x0b", "\x0c", "\x1b", "\x7f", "\u0085", "\u00a0", "\u2028", "\u2029", "\u3000", "\u1680", "\u200b",
	"\xff", "\xc2", "\xe2\x80", "\xf0\x9f\x98", "\xed\xa0\x80", "\xc0\x80", "\xf4\x90\x80\x80", "\x80",
}

// TokenSoup returns a sequence of atoms: identifiers, punctuation, strings, comments,
// white space, newlines and, with low probability, malformed or hostile atoms.
func TokenSoup(r *rand.Rand) string {
	n := 1 + r.Intn(24)
	if r.Intn(10) == 0 {
		n = r.Intn(4)
	}
	// per-soup hostility: most soups are lexically clean so that the parser proper
	// (blocks, empty blocks, stray parentheses, comments) is reached
	hostile := r.Intn(4)
	var b strings.Builder
	for i := 0; i < n; i++ {
		k := r.Intn(100)
		switch {
		case k < 28:
			b.WriteString(soupIdents[r.Intn(len(soupIdents))])
		case k < 40:
			b.WriteString(soupPunct[r.Intn(len(soupPunct))])
		case k < 44:
			b.WriteString(pick(r, "(", ")", "(", ")", "( )", "()", "(\n", "\n)", "\n) x", ") // c"))
		case k < 52:
			b.WriteString(soupStrings[r.Intn(len(soupStrings))])
		case k < 62:
			b.WriteString(soupComments[r.Intn(len(soupComments))])
			if r.Intn(4) != 0 {
				b.WriteString(soupNewline[r.Intn(len(soupNewline))])
			}
			continue
		case k < 80:
			b.WriteString(soupNewline[r.Intn(len(soupNewline))])
			continue
		case k < 92:
			b.WriteString(soupSpace[r.Intn(len(soupSpace))])
			continue
		default:
			switch hostile {
			case 0:
				b.WriteString(soupIdents[r.Intn(len(soupIdents))])
			case 1:
				b.WriteString(soupWeird[r.Intn(len(soupWeird))])
			case 2:
				b.WriteString(pick(r, soupBroken[r.Intn(len(soupBroken))], soupBlockComments[r.Intn(len(soupBlockComments))]))
			default:
				b.WriteString(pick(r, soupWeird[r.Intn(len(soupWeird))], soupBroken[r.Intn(len(soupBroken))],
					soupBlockComments[r.Intn(len(soupBlockComments))], RawBytes(r, 6)))
			}
		}
		// atoms are mostly separated by a space, sometimes glued together
		if r.Intn(5) != 0 {
			b.WriteString(soupSpace[r.Intn(len(soupSpace))])
		}
	}
	return b.String()
}

// LongLine returns a text with one very long line (about 64 KiB).
func LongLine(r *rand.Rand) string {
	var b strings.Builder
	b.WriteString(pick(r, "module example.com/m\n", "", "// c\n", "require (\n"))
	switch r.Intn(4) {
	case 0: // one long identifier
		b.WriteString("x ")
		b.WriteString(strings.Repeat(pick(r, "a", "é", "ab/"), 65536/2))
	case 1: // many tokens
		for b.Len() < 65536 {
			b.WriteString(pick(r, "a ", "b, ", "( ", ") ", "\"s\" ", "[ ", "v1.2.3 "))
		}
	case 2: // a long comment
		b.WriteString("x // ")
		b.WriteString(strings.Repeat("c ", 32768))
	default: // a long string
		b.WriteString("x \"")
		b.WriteString(strings.Repeat("s", 65536))
		b.WriteString(pick(r, "\"", ""))
	}
	b.WriteString(pick(r, "\n", "", "\n)\n"))
	return b.String()
}

// ---------------------------------------------------------------- well-formed files

// ModOpts switches layout noise of the directive-level generators.
type ModOpts struct {
	NoComments bool // no comments at all
	NoQuoting  bool // never quote tokens
	NoCRLF     bool // LF line ends only
	NoUnknown  bool // no unknown directives or blocks (strict parsers accept the file)
	NoInvalid  bool // no deliberately invalid directive arguments
	OldGo      bool // go version below 1.21 (toolchain/godebug/tool lines are still generated)
}

type modGen struct {
	r    *rand.Rand
	o    ModOpts
	eol  string
	b    strings.Builder
	work bool
}

var modPathsV1 = []string{"example.com/a", "example.com/b", "golang.org/x/net", "github.com/user/repo", "example.com/a/b/c",
	"rsc.io/quote", "example.com/x.y", "example.com/UPPER", "gopkg.in/check.v1", "example.com/v", "example.com/a/v1x"}
var modPathsV2 = []string{"example.com/a/v2", "rsc.io/quote/v3", "gopkg.in/yaml.v2", "example.com/b/v10"}

func (g *modGen) pathAndVersion() (string, string) {
	r := g.r
	if r.Intn(25) == 0 {
		// a quoted argument whose content is a significant token
		return SignificantTokens[r.Intn(len(SignificantTokens))], "v1." + strconv.Itoa(r.Intn(3)) + ".0"
	}
	if r.Intn(4) == 0 {
		p := modPathsV2[r.Intn(len(modPathsV2))]
		maj := p[strings.LastIndexAny(p, "v")+1:]
		v := "v" + maj + "." + strconv.Itoa(r.Intn(4)) + "." + strconv.Itoa(r.Intn(12))
		if r.Intn(5) == 0 {
			v += pick(r, "-rc.1", "-0.20200101000000-abcdefabcdef", "-pre")
		}
		return p, v
	}
	p := modPathsV1[r.Intn(len(modPathsV1))]
	var v string
	switch r.Intn(12) {
	case 0:
		v = "v0.0.0-20190101000000-abcdefabcdef"
	case 1:
		v = "v2.0.0+incompatible"
	case 2:
		v = "v1.2.3-pre.1"
	case 3:
		v = pick(r, "v1.2", "v1", "v0.3", "v1.2.3+meta") // not canonical: rewritten by the parser
	default:
		v = "v" + strconv.Itoa(r.Intn(2)) + "." + strconv.Itoa(r.Intn(20)) + "." + strconv.Itoa(r.Intn(30))
	}
	if strings.HasPrefix(p, "gopkg.in/") && strings.HasSuffix(p, ".v1") && !strings.HasPrefix(v, "v1.") {
		v = "v1.0." + strconv.Itoa(r.Intn(9))
	}
	if !g.o.NoInvalid && r.Intn(60) == 0 {
		v = pick(r, "1.2.3", "v1.2.3.4", "latest", "v01.2.3", "v3.0.0", "")
	}
	return p, v
}

// what modfile.MustQuote must catch, one entry or more per branch of it: the four
// always-quoted characters, brackets and comma inside a longer string, non-printable
// runes, and "//" or "/*" anywhere (interior and trailing included)
var quoteTriggers = []string{" ", "\"", "'", "`", "(", ")", "[", "]", "{", "}", ",", "\x01", "\t", "\x7f", "\u200b", "\u00a0", "\u2028",
	"//", "/*", "//", "/*", "*//", "/**/", "///"}

// HostileDir returns a directory path (rooted, or starting with ./ or ../) that contains
// something MustQuote must catch; it has to be written as a quoted string in a file.
func HostileDir(r *rand.Rand) string {
	t := quoteTriggers[r.Intn(len(quoteTriggers))]
	if r.Intn(4) == 0 {
		t += quoteTriggers[r.Intn(len(quoteTriggers))]
	}
	return pick(r, "./", "../", "/", "./a/", "../forks/", "./vendor") + pick(r, "", "x", "forks", "a.b") + t + pick(r, "", "dep", "x/y", "/api", "patched*/dep")
}

// QuoteProbe returns a string for exercising MustQuote / AutoQuote directly.
func QuoteProbe(r *rand.Rand) string {
	switch r.Intn(10) {
	case 0:
		return pick(r, "", "(", ")", "[", "]", "{", "}", ",", "/", "//", "/*", "*/", "a", " ", "\"", "()", "a,", "é", "\xff", "a\xffb")
	case 1, 2:
		return HostileDir(r)
	case 3:
		return RawBytes(r, 8)
	case 4:
		return soupIdents[r.Intn(len(soupIdents))] + quoteTriggers[r.Intn(len(quoteTriggers))]
	case 5:
		return quoteTriggers[r.Intn(len(quoteTriggers))] + soupIdents[r.Intn(len(soupIdents))]
	default:
		return soupIdents[r.Intn(len(soupIdents))]
	}
}

// quote a token the way a user might: plain, interpreted string, rarely a raw string
// SignificantTokens are strings whose bare form is a syntactically significant token of
// a go.mod line; as arguments they must be written quoted.
var SignificantTokens = []string{"=>", "=>", "=>", "(", ")", "//", "[", "]", ",", "module", "go", "require", "{", "}", "/*"}

func isSignificant(s string) bool {
	for _, t := range SignificantTokens {
		if s == t {
			return true
		}
	}
	return false
}

func (g *modGen) tok(s string) string {
	if isSignificant(s) {
		return strconv.Quote(s)
	}
	if g.o.NoQuoting || s == "" {
		if s == "" {
			return `""`
		}
		return s
	}
	switch g.r.Intn(14) {
	case 0:
		return strconv.Quote(s)
	case 1:
		if !g.o.NoInvalid && !strings.ContainsAny(s, "`") && g.r.Intn(4) == 0 {
			return "`" + s + "`" // rejected by parseString
		}
		return strconv.Quote(s)
	case 2:
		if len(s) > 1 && g.r.Intn(3) == 0 {
			// an escape inside the quoted form
			return `"` + s[:1] + `\x` + strconv.FormatInt(int64(s[1]), 16) + s[2:] + `"`
		}
	}
	return s
}

func (g *modGen) commentText() string {
	return pick(g.r, "// comment", "//", "// indirect", "//x", "// a  b ", "// é", "// Deprecated: use example.com/new instead.",
		"// note // nested", "//\tt", "// trailing space \t", "// wide\u3000", "// nb\u00a0")
}

func (g *modGen) ws() string {
	if g.r.Intn(8) == 0 {
		return pick(g.r, "  ", "\t", " \t", "   ")
	}
	return " "
}

func (g *modGen) endLine(suffixOK bool) {
	if suffixOK && !g.o.NoComments && g.r.Intn(6) == 0 {
		g.b.WriteString(g.ws())
		g.b.WriteString(g.commentText())
	} else if g.r.Intn(12) == 0 {
		g.b.WriteString(pick(g.r, " ", "\t", "  "))
	}
	g.b.WriteString(g.eol)
}

func (g *modGen) commentLines(indent string) {
	if g.o.NoComments {
		return
	}
	n := 0
	switch g.r.Intn(10) {
	case 0:
		n = 1
	case 1:
		n = 2
	}
	for i := 0; i < n; i++ {
		g.b.WriteString(indent)
		g.b.WriteString(g.commentText())
		g.b.WriteString(g.eol)
		if g.r.Intn(6) == 0 {
			g.b.WriteString(g.eol)
		}
	}
}

func (g *modGen) blankLines() {
	switch g.r.Intn(6) {
	case 0:
		g.b.WriteString(g.eol)
	case 1:
		g.b.WriteString(g.eol)
		if g.r.Intn(3) == 0 {
			g.b.WriteString(pick(g.r, " ", "\t") + g.eol)
		}
	}
}

// one directive body (without the verb): the tokens, and whether a suffix comment may follow
type modLine struct {
	toks   []string
	suffix string // forced suffix comment ("// indirect")
}

func (g *modGen) requireLine() modLine {
	p, v := g.pathAndVersion()
	l := modLine{toks: []string{g.tok(p), g.tok(v)}}
	if !g.o.NoComments && g.r.Intn(4) == 0 {
		l.suffix = pick(g.r, "// indirect", "// indirect; why", "//indirect", "// indirect ", "// not indirect", "// indirect;")
	}
	if !g.o.NoInvalid && g.r.Intn(50) == 0 {
		l.toks = l.toks[:1]
	}
	return l
}

func (g *modGen) replaceLine() modLine {
	r := g.r
	p, v := g.pathAndVersion()
	toks := []string{g.tok(p)}
	if r.Intn(2) == 0 {
		toks = append(toks, g.tok(v))
	}
	toks = append(toks, "=>")
	if k := r.Intn(8); k == 0 {
		// a directory that only survives as a quoted string
		d := HostileDir(r)
		if strings.Contains(d, `\`) {
			d = "./a b//c"
		}
		toks = append(toks, strconv.Quote(d))
	} else if k < 4 {
		toks = append(toks, g.tok(pick(r, "./local", "../other", "/abs/path", "./a b", ".", "..", `.\win`, "C:/x", "./x(y)")))
	} else {
		np, nv := g.pathAndVersion()
		toks = append(toks, g.tok(np), g.tok(nv))
	}
	if !g.o.NoInvalid && r.Intn(40) == 0 {
		switch r.Intn(4) {
		case 0:
			toks = append(toks, "extra")
		case 1:
			toks[len(toks)-1] = "example.com/nover"
			toks = toks[:len(toks)-0]
		case 2:
			toks = []string{g.tok(p), "=>"}
		default:
			toks = []string{g.tok(p), g.tok(v), "./dir", "v1.0.0"}
		}
	}
	return modLine{toks: toks}
}

func (g *modGen) retractLine() modLine {
	r := g.r
	v1 := "v1." + strconv.Itoa(r.Intn(5)) + "." + strconv.Itoa(r.Intn(9))
	v2 := "v1." + strconv.Itoa(5+r.Intn(5)) + "." + strconv.Itoa(r.Intn(9))
	if r.Intn(8) == 0 {
		v1 = pick(r, "v1.2", "v1", "v1.0.0+meta")
	}
	var toks []string
	if r.Intn(2) == 0 {
		toks = []string{g.tok(v1)}
	} else {
		toks = []string{"[", g.tok(v1), ",", g.tok(v2), "]"}
	}
	if !g.o.NoInvalid && r.Intn(30) == 0 {
		toks = [][]string{{"[", v1, ",", v2}, {"[", v1, v2, "]"}, {"(", v1, ",", v2, ")"}, {v1, "extra"}, {"[", v1, ",", v2, "]", "extra"}, {"[", "]"}, {"notaversion"}}[r.Intn(7)]
	}
	return modLine{toks: toks}
}

func (g *modGen) directive(verb string) modLine {
	r := g.r
	switch verb {
	case "module":
		p := pick(r, "example.com/m", "example.com/m/v2", "golang.org/x/mod", "m", "example.com/with space", "gopkg.in/m.v3", "example.com/m(x)")
		if r.Intn(30) == 0 {
			p = SignificantTokens[r.Intn(len(SignificantTokens))]
		}
		return modLine{toks: []string{g.tok(p)}}
	case "go":
		v := pick(r, "1.21", "1.21.0", "1.22", "1.22rc1", "1.23.4", "1.100")
		if g.o.OldGo || r.Intn(3) == 0 {
			v = pick(r, "1.12", "1.16", "1.17", "1.18", "1.20", "1.9", "1.20.3", "1.13beta1")
		}
		if !g.o.NoInvalid && r.Intn(12) == 0 {
			v = pick(r, "1.21x", "v1.21", "1.21.x", "1", "1.021", "1.21-rc1", "1.21.0.1", "go1.21", "1.2.3.4", "1.21rc")
		}
		return modLine{toks: []string{v}}
	case "toolchain":
		v := pick(r, "go1.21.0", "default", "go1.22rc1", "go1.21.0-custom", "go1")
		if !g.o.NoInvalid && r.Intn(10) == 0 {
			v = pick(r, "go2", "1.21", "go1x", "Default", "local")
		}
		return modLine{toks: []string{v}}
	case "godebug":
		v := pick(r, "default=go1.21", "panicnil=1", "http2client=0", "a=b=c", "k=")
		if !g.o.NoInvalid && r.Intn(10) == 0 {
			v = pick(r, "novalue", `"k=v"`, "k='v'", "a,b=c")
		}
		return modLine{toks: []string{v}}
	case "require", "exclude":
		l := g.requireLine()
		if verb == "exclude" {
			l.suffix = ""
		}
		return l
	case "replace":
		return g.replaceLine()
	case "retract":
		return g.retractLine()
	case "tool":
		if r.Intn(15) == 0 {
			return modLine{toks: []string{g.tok(SignificantTokens[r.Intn(len(SignificantTokens))])}}
		}
		if r.Intn(8) == 0 {
			return modLine{toks: []string{strconv.Quote(HostileDir(r))}}
		}
		return modLine{toks: []string{g.tok(pick(r, "example.com/a/cmd/x", "golang.org/x/tools/cmd/stringer", "./cmd/y", "example.com/t ool"))}}
	case "use":
		if r.Intn(15) == 0 {
			return modLine{toks: []string{g.tok(SignificantTokens[r.Intn(len(SignificantTokens))])}}
		}
		if r.Intn(5) == 0 {
			return modLine{toks: []string{strconv.Quote(HostileDir(r))}}
		}
		return modLine{toks: []string{g.tok(pick(r, "./a", "./b", "../c", ".", "./x y", "/abs/m", "./a/b"))}}
	default: // unknown directive
		n := r.Intn(3)
		toks := make([]string, n)
		for i := range toks {
			toks[i] = pick(r, "x", "y.z", "v1.0.0", "=>", "[", "]", ",", `"q"`)
		}
		return modLine{toks: toks}
	}
}

func (g *modGen) writeLine(indent string, toks []string, l modLine) {
	g.b.WriteString(indent)
	all := append(append([]string{}, toks...), l.toks...)
	for i, t := range all {
		if i > 0 {
			// the lexer does not need a space around brackets and commas
			if (t == "," || t == "]" || all[i-1] == "[") && g.r.Intn(2) == 0 {
			} else {
				g.b.WriteString(g.ws())
			}
		}
		g.b.WriteString(t)
	}
	if l.suffix != "" {
		g.b.WriteString(g.ws())
		g.b.WriteString(l.suffix)
		g.b.WriteString(g.eol)
		return
	}
	g.endLine(true)
}

func (g *modGen) stmt(verb string) {
	r := g.r
	g.commentLines("")
	blockOK := verb != "go" && verb != "toolchain"
	if blockOK && r.Intn(3) == 0 || (!g.o.NoInvalid && r.Intn(40) == 0) {
		// block form
		g.b.WriteString(verb)
		g.b.WriteString(g.ws())
		g.b.WriteString("(")
		if r.Intn(12) == 0 && !g.o.NoInvalid {
			// one-line empty block
			g.b.WriteString(pick(r, ")", " )"))
			g.endLine(true)
			return
		}
		g.endLine(true)
		n := r.Intn(5)
		if verb == "module" {
			n = 1
		}
		for i := 0; i < n; i++ {
			if r.Intn(5) == 0 {
				g.b.WriteString(g.eol)
			}
			g.commentLines("\t")
			g.writeLine(pick(r, "\t", "\t", "    ", ""), nil, g.directive(verb))
		}
		g.commentLines("\t")
		if r.Intn(8) == 0 {
			g.b.WriteString(g.eol)
		}
		g.b.WriteString(")")
		g.endLine(true)
		return
	}
	g.writeLine("", []string{verb}, g.directive(verb))
}

func (g *modGen) run(verbs []string, unknown []string) string {
	r := g.r
	g.eol = "\n"
	if !g.o.NoCRLF && r.Intn(8) == 0 {
		g.eol = "\r\n"
	}
	if !g.o.NoComments && r.Intn(5) == 0 {
		// a leading comment block
		g.b.WriteString(g.commentText() + g.eol)
		if r.Intn(2) == 0 {
			g.b.WriteString(g.eol)
		}
	}
	for _, v := range verbs {
		g.stmt(v)
		g.blankLines()
		if len(unknown) > 0 && !g.o.NoUnknown && r.Intn(14) == 0 {
			g.stmt(unknown[r.Intn(len(unknown))])
		}
	}
	if !g.o.NoComments && r.Intn(8) == 0 {
		g.b.WriteString(g.eol + g.commentText())
		if r.Intn(2) == 0 {
			g.b.WriteString(g.eol)
		}
	}
	s := g.b.String()
	if r.Intn(10) == 0 {
		s = strings.TrimRight(s, "\r\n") // no final newline
	}
	return s
}

// GoModOpts returns a go.mod text; see ModOpts.
func GoModOpts(r *rand.Rand, o ModOpts) string {
	g := &modGen{r: r, o: o}
	var verbs []string
	if r.Intn(20) != 0 {
		verbs = append(verbs, "module")
	}
	if r.Intn(6) != 0 {
		verbs = append(verbs, "go")
	}
	if r.Intn(4) == 0 {
		verbs = append(verbs, "toolchain")
	}
	n := r.Intn(6)
	for i := 0; i < n; i++ {
		verbs = append(verbs, pick(r, "require", "require", "require", "exclude", "replace", "replace", "retract", "retract", "tool", "godebug"))
	}
	if r.Intn(5) == 0 {
		// the order of directives is free
		r.Shuffle(len(verbs), func(i, j int) { verbs[i], verbs[j] = verbs[j], verbs[i] })
	}
	if !o.NoInvalid && r.Intn(30) == 0 {
		verbs = append(verbs, pick(r, "module", "go", "toolchain")) // repeated statement
	}
	return g.run(verbs, []string{"future", "unknown", "use", "ignore"})
}

// GoMod returns a mostly well-formed go.mod text: single lines and blocks mixed,
// duplicates, comments before / suffix / inside blocks / before ")", blank lines, CRLF,
// quoting, go versions below and above 1.21, and now and then an invalid directive.
func GoMod(r *rand.Rand) string { return GoModOpts(r, ModOpts{}) }

// GoWorkOpts returns a go.work text.
func GoWorkOpts(r *rand.Rand, o ModOpts) string {
	g := &modGen{r: r, o: o, work: true}
	var verbs []string
	if r.Intn(8) != 0 {
		verbs = append(verbs, "go")
	}
	if r.Intn(4) == 0 {
		verbs = append(verbs, "toolchain")
	}
	n := r.Intn(5)
	for i := 0; i < n; i++ {
		verbs = append(verbs, pick(r, "use", "use", "use", "replace", "godebug"))
	}
	if r.Intn(6) == 0 {
		r.Shuffle(len(verbs), func(i, j int) { verbs[i], verbs[j] = verbs[j], verbs[i] })
	}
	return g.run(verbs, []string{"module", "require", "future"})
}

// GoWork returns a mostly well-formed go.work text.
func GoWork(r *rand.Rand) string { return GoWorkOpts(r, ModOpts{}) }

// ---------------------------------------------------------------- testdata mutants

var (
	testdataOnce  sync.Once
	testdataFiles []string
)

var testdataFallback = []string{
	"module x\n\nrequire (\n\ta v1.0.0 // indirect\n\tb v1.2.3\n)\n",
	"// comment\nmodule \"x\" // suffix\n\nx ( y\n z ) // c\n",
	"go 1.18\n\nuse (\n\t./a\n\t./b // c\n\n\t// before rparen\n)\n",
}

func loadTestdata() {
	repo := os.Getenv("VERIF_REPO")
	if repo == "" {
		repo = "/repo"
	}
	var names []string
	for _, pat := range []string{"modfile/testdata/*.in", "modfile/testdata/*.golden", "modfile/testdata/work/*.in", "modfile/testdata/work/*.golden"} {
		m, _ := filepath.Glob(filepath.Join(repo, pat))
		names = append(names, m...)
	}
	sort.Strings(names)
	for _, n := range names {
		if b, err := os.ReadFile(n); err == nil && len(b) < 1<<16 {
			testdataFiles = append(testdataFiles, string(b))
		}
	}
	if len(testdataFiles) == 0 {
		testdataFiles = testdataFallback
	}
}

// TestdataMutant returns one of the files of modfile/testdata (and testdata/work) with
// zero or more small mutations: byte edits over a syntax-relevant alphabet, line
// duplication / deletion / swap, splicing in a soup atom.
func TestdataMutant(r *rand.Rand) string {
	testdataOnce.Do(loadTestdata)
	s := testdataFiles[r.Intn(len(testdataFiles))]
	n := r.Intn(4)
	for i := 0; i < n; i++ {
		switch r.Intn(6) {
		case 0, 1:
			s = Mutate(r, s, "()[]{},\"`/ \t\r\n\\=>v1.a*")
		case 2:
			lines := strings.SplitAfter(s, "\n")
			if len(lines) > 1 {
				j := r.Intn(len(lines))
				switch r.Intn(3) {
				case 0:
					lines = append(lines[:j], lines[j+1:]...)
				case 1:
					lines = append(lines[:j+1], lines[j:]...)
				default:
					k := r.Intn(len(lines))
					lines[j], lines[k] = lines[k], lines[j]
				}
				s = strings.Join(lines, "")
			}
		case 3:
			j := r.Intn(len(s) + 1)
			s = s[:j] + pick(r, soupComments[r.Intn(len(soupComments))], soupStrings[r.Intn(len(soupStrings))], soupPunct[r.Intn(len(soupPunct))], "\n", " ( ", " )\n", "(\n", "\n)\n") + s[j:]
		case 4:
			s = strings.Replace(s, "\n", "\r\n", 1+r.Intn(3))
		default:
			j := r.Intn(len(s) + 1)
			s = s[:j] // truncation
		}
	}
	return s
}

// ---------------------------------------------------------------- truncated directives

var truncArgs = map[string][][]string{
	"module":    {{"example.com/m"}},
	"go":        {{"1.21"}},
	"toolchain": {{"go1.21.0"}},
	"godebug":   {{"panicnil=1"}},
	"require":   {{"example.com/a", "v1.0.0"}},
	"exclude":   {{"example.com/a", "v1.0.0"}},
	"replace": {{"example.com/a", "v1.0.0", "=>", "example.com/b", "v1.0.1"}, {"example.com/a", "=>", "./dir"},
		{"example.com/a", "v1.0.0", "=>", "./dir"}, {"example.com/a", "=>", "example.com/b", "v1.0.1"}},
	"retract": {{"v1.0.0"}, {"[", "v1.0.0", ",", "v1.1.0", "]"}},
	"tool":    {{"example.com/a/cmd/x"}},
	"use":     {{"./a"}},
}

// TruncatedDirectives returns, for go.mod (work = false) or go.work, every directive verb
// followed by each proper prefix of a well-formed argument list (and the full list), in
// line form and inside a block, after a valid header.  A small exhaustive domain.
func TruncatedDirectives(work bool) []string {
	verbs := []string{"module", "go", "toolchain", "godebug", "require", "exclude", "replace", "retract", "tool"}
	header := "module example.com/m\n\n"
	if work {
		verbs = []string{"go", "toolchain", "godebug", "use", "replace"}
		header = ""
	}
	var out []string
	for _, v := range verbs {
		for _, full := range truncArgs[v] {
			for n := 0; n <= len(full); n++ {
				args := strings.Join(full[:n], " ")
				h := header
				if v == "module" {
					h = ""
				}
				out = append(out, h+strings.TrimRight(v+" "+args, " ")+"\n")
				out = append(out, h+v+" (\n\t"+args+"\n)\n")
				if n > 0 {
					out = append(out, h+v+" (\n\t"+strings.Join(full, " ")+"\n\t"+args+" // c\n)\n")
				}
			}
		}
	}
	return out
}
