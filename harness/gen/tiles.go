package gen

// Shared helpers for the tile properties (C10, and the sumdb client which reads through tiles):
//   - TileLog: a true log (MemLog) together with an independent RFC 6962 view of it
//   - IndepTile / IndepStoredHash: true tile content and true stored hashes computed from the
//     records by the recursive RFC 6962 definition only (no call into tlog)
//   - FaultyTileReader: a tlog.TileReader over a TileLog that serves the true tiles except for
//     the faults it was told to inject, and records every ReadTiles / SaveTiles call
//   - TileFault + ApplyTileFault: the corruptions (bit flips, swapped / duplicated hashes,
//     truncation, extension, content of the same-shaped tile of another log)

import (
	"errors"
	"fmt"
	"math/rand"

	"golang.org/x/mod/sumdb/tlog"

	"verif/harness/wire"
)

// TileLog is a log with both views.
type TileLog struct {
	*MemLog
	Rfc *Rfc6962
}

// NewTileLog builds the log of the given records.
func NewTileLog(records [][]byte) (*TileLog, error) {
	m, err := NewMemLog(records)
	if err != nil {
		return nil, err
	}
	return &TileLog{MemLog: m, Rfc: NewRfc6962(m.Records)}, nil
}

// Size is the number of records.
func (l *TileLog) Size() int64 { return int64(len(l.Records)) }

// Tree is the (true) tree head of the first n records, computed independently.
func (l *TileLog) Tree(n int64) tlog.Tree { return tlog.Tree{N: n, Hash: l.Rfc.Root(int(n))} }

// IndepStoredHash is the hash of the complete subtree at the given level and offset
// (leaves [n<<level, (n+1)<<level)), by RFC 6962 only.
func (l *TileLog) IndepStoredHash(level int, n int64) tlog.Hash {
	lo := int(n << uint(level))
	return l.Rfc.MTH(lo, lo+1<<uint(level))
}

// IndepSplit is an independent inverse of the stored-hash numbering: the store lists, for
// each record in turn, the hashes of all complete subtrees that the record completes
// (level 0 first).  It walks that definition; cost O(index), for test sizes only.
func IndepSplit(index int64) (level int, n int64) {
	pos := int64(0)
	for rec := int64(0); ; rec++ {
		for lv := 0; (rec+1)%(int64(1)<<uint(lv)) == 0; lv++ {
			if pos == index {
				return lv, (rec+1)>>uint(lv) - 1
			}
			pos++
		}
	}
}

// IndepTile is the true content of tile t (hash tiles only, t.L >= 0) for the log.
func (l *TileLog) IndepTile(t tlog.Tile) []byte {
	out := make([]byte, 0, t.W*tlog.HashSize)
	for i := 0; i < t.W; i++ {
		h := l.IndepStoredHash(t.H*t.L, t.N<<uint(t.H)+int64(i))
		out = append(out, h[:]...)
	}
	return out
}

// TileFault is one corruption of one tile as served.
type TileFault struct {
	Tile tlog.Tile `json:"tile"`
	Kind string    `json:"kind"` // flipfirst fliplast fliprand swap dup trunc extend otherlog
	Arg  int       `json:"arg"`  // bit position / hash positions, reduced modulo what exists
}

// TileFaultKinds lists the corruption kinds.
var TileFaultKinds = []string{"flipfirst", "fliplast", "fliprand", "swap", "dup", "trunc", "extend", "otherlog"}

// ApplyTileFault returns the corrupted copy of data (the true content of f.Tile).
// other is the content of the same-shaped tile of a different log (may be nil).
func ApplyTileFault(f TileFault, data, other []byte) []byte {
	d := append([]byte(nil), data...)
	w := len(d) / tlog.HashSize
	arg := f.Arg
	if arg < 0 {
		arg = -arg
	}
	switch f.Kind {
	case "flipfirst":
		if len(d) > 0 {
			d[0] ^= 1
		}
	case "fliplast":
		if len(d) > 0 {
			d[len(d)-1] ^= 0x80
		}
	case "fliprand":
		if len(d) > 0 {
			bit := arg % (len(d) * 8)
			d[bit/8] ^= 1 << uint(bit%8)
		}
	case "swap":
		if w >= 2 {
			i := arg % w
			j := (i + 1 + (arg/w)%(w-1)) % w
			var tmp [tlog.HashSize]byte
			copy(tmp[:], d[i*tlog.HashSize:])
			copy(d[i*tlog.HashSize:(i+1)*tlog.HashSize], d[j*tlog.HashSize:(j+1)*tlog.HashSize])
			copy(d[j*tlog.HashSize:(j+1)*tlog.HashSize], tmp[:])
		}
	case "dup":
		if w >= 2 {
			i := arg % w
			j := (i + 1 + (arg/w)%(w-1)) % w
			copy(d[j*tlog.HashSize:(j+1)*tlog.HashSize], d[i*tlog.HashSize:(i+1)*tlog.HashSize])
		}
	case "trunc":
		if w >= 1 {
			d = d[:len(d)-tlog.HashSize]
		}
	case "extend":
		ext := make([]byte, tlog.HashSize)
		for i := range ext {
			ext[i] = byte(arg + i)
		}
		d = append(d, ext...)
	case "otherlog":
		if other != nil {
			d = append([]byte(nil), other...)
		}
	}
	return d
}

// ErrFaultyRead is the error of a FaultyTileReader told to fail.
var ErrFaultyRead = errors.New("faulty tile reader: read error")

// ErrNotPublished is returned for a tile outside Published (when Published is set).
var ErrNotPublished = errors.New("faulty tile reader: tile was never published")

// SavedTiles is one SaveTiles call.
type SavedTiles struct {
	Tiles []tlog.Tile
	Data  [][]byte
}

// FaultyTileReader is a tlog.TileReader over a true log.
type FaultyTileReader struct {
	Log    *TileLog
	Other  *TileLog // for the "otherlog" fault; may be nil
	H      int
	Faults []TileFault
	// FailRead makes ReadTiles return an error; Count != 0 changes the number of results
	// (-1 drops the last one, +1 appends one).
	FailRead bool
	Count    int
	// Published, when non-nil, restricts the tiles that exist to this set.
	Published map[tlog.Tile]bool

	Requested [][]tlog.Tile // argument of each ReadTiles call
	Served    [][][]byte    // result of each successful ReadTiles call
	Saved     []SavedTiles  // every SaveTiles call
	Missing   []tlog.Tile   // tiles asked for but not published
}

func (r *FaultyTileReader) Height() int { return r.H }

func (r *FaultyTileReader) ReadTiles(tiles []tlog.Tile) ([][]byte, error) {
	r.Requested = append(r.Requested, append([]tlog.Tile(nil), tiles...))
	if r.FailRead {
		return nil, ErrFaultyRead
	}
	out := make([][]byte, 0, len(tiles)+1)
	for _, t := range tiles {
		if r.Published != nil && !r.Published[t] {
			r.Missing = append(r.Missing, t)
			return nil, ErrNotPublished
		}
		d, err := tlog.ReadTileData(t, r.Log.Reader())
		if err != nil {
			return nil, fmt.Errorf("faulty tile reader: %v: %w", t, err)
		}
		for _, f := range r.Faults {
			if f.Tile == t {
				var other []byte
				if r.Other != nil {
					if o, err := tlog.ReadTileData(t, r.Other.Reader()); err == nil {
						other = o
					}
				}
				d = ApplyTileFault(f, d, other)
			}
		}
		out = append(out, d)
	}
	switch {
	case r.Count < 0 && len(out) > 0:
		out = out[:len(out)-1]
	case r.Count > 0:
		out = append(out, make([]byte, tlog.HashSize))
	}
	served := make([][]byte, len(out))
	for i := range out {
		served[i] = append([]byte(nil), out[i]...)
	}
	r.Served = append(r.Served, served)
	return out, nil
}

func (r *FaultyTileReader) SaveTiles(tiles []tlog.Tile, data [][]byte) {
	s := SavedTiles{Tiles: append([]tlog.Tile(nil), tiles...)}
	for _, d := range data {
		s.Data = append(s.Data, append([]byte(nil), d...))
	}
	r.Saved = append(r.Saved, s)
}

// RandTileFault draws a corruption for tile t.
func RandTileFault(r *rand.Rand, t tlog.Tile) TileFault {
	return TileFault{Tile: t, Kind: TileFaultKinds[r.Intn(len(TileFaultKinds))], Arg: r.Intn(1 << 20)}
}

// TileVal is the wire encoding of a tile: L4 [H L N W].
func TileVal(t tlog.Tile) wire.Val {
	return wire.L(wire.Int(t.H), wire.Int(t.L), wire.I(t.N), wire.Int(t.W))
}

// TilesVal encodes a list of tiles.
func TilesVal(ts []tlog.Tile) wire.Val {
	l := make([]wire.Val, len(ts))
	for i, t := range ts {
		l[i] = TileVal(t)
	}
	return wire.L(l...)
}

// DatasVal encodes a list of byte strings.
func DatasVal(ds [][]byte) wire.Val {
	l := make([]wire.Val, len(ds))
	for i, d := range ds {
		l[i] = wire.Bytes(d)
	}
	return wire.L(l...)
}

// TileErrVal classifies an error of tile.go into the model's error kinds (Tlog/DispatchTile.v).
func TileErrVal(err error) wire.Val {
	msg := err.Error()
	switch {
	case errors.Is(err, ErrFaultyRead), errors.Is(err, ErrNotPublished):
		return wire.Err("reader")
	case msg == "indexes not in tree":
		return wire.Err("notintree")
	case containsStr(msg, "bad math in tileHashReader"):
		return wire.Err("badmath")
	case containsStr(msg, "TileReader returned bad result slice"):
		return wire.Err("badresult")
	case msg == "downloaded inconsistent tile":
		return wire.Err("inconsistent")
	case containsStr(msg, "invalid tile "):
		return wire.Err("invalidtile")
	case containsStr(msg, "too short for tile"):
		return wire.Err("shortdata")
	case containsStr(msg, " is in ") && containsStr(msg, " not "):
		return wire.Err("wrongtile")
	case containsStr(msg, "malformed tile path"):
		return wire.Err("badpath")
	case containsStr(msg, "memlog: index"), containsStr(msg, "table reader"):
		return wire.Err("reader")
	case containsStr(msg, "tlog: ReadHashes("):
		return wire.Err("badresult")
	}
	return wire.Err("other:" + msg)
}
