// Generators for the edit-operation properties C08, C15, C16: small starting go.mod /
// go.work files with every comment tagged by a unique id, and sequences of edit
// operations whose keys are biased towards keys present in the file.
package gen

import (
	"fmt"
	"math/rand"
	"strconv"
	"strings"
)

// ReqArg is one element of the list argument of SetRequire /
// SetRequireSeparateIndirect (Path, Version, Indirect) or SetUse (Path, Version=ModulePath).
type ReqArg struct {
	Path     string `json:"path"`
	Version  string `json:"version"`
	Indirect bool   `json:"indirect,omitempty"`
}

// EditOp is one edit operation. Names are the method names of modfile.File; the
// WorkFile methods carry the prefix "W" (WAddUse, WCleanup, ...).
type EditOp struct {
	Name string   `json:"name"`
	Args []string `json:"args,omitempty"`
	Reqs []ReqArg `json:"reqs,omitempty"`
	// Garbage marks an operation whose arguments the operation does not validate itself
	// and that are outside the property's "valid arguments" (e.g. a non-canonical
	// version given to AddRequire); sequences containing one are used for the
	// model correspondence only.
	Garbage bool `json:"garbage,omitempty"`
}

func (o EditOp) String() string {
	var b strings.Builder
	b.WriteString(o.Name)
	b.WriteString("(")
	for i, a := range o.Args {
		if i > 0 {
			b.WriteString(", ")
		}
		fmt.Fprintf(&b, "%q", a)
	}
	if o.Reqs != nil {
		if len(o.Args) > 0 {
			b.WriteString(", ")
		}
		b.WriteString("[")
		for i, q := range o.Reqs {
			if i > 0 {
				b.WriteString(" ")
			}
			fmt.Fprintf(&b, "%s@%s", q.Path, q.Version)
			if q.Indirect {
				b.WriteString("/indirect")
			}
		}
		b.WriteString("]")
	}
	b.WriteString(")")
	return b.String()
}

var (
	EditModPaths = []string{"example.com/a", "example.com/b", "example.com/c/v2", "gopkg.in/d.v1", "golang.org/x/e", "x.io/f/g"}
	// includes pairs that are equal under semver.Compare but different strings
	// (vX.Y.Z and vX.Y.Z+incompatible are both canonical and valid for these paths)
	editV1                = []string{"v1.0.0", "v1.2.3", "v1.10.0", "v1.9.0", "v0.0.0-20200101000000-abcdefabcdef", "v1.0.0-rc.1", "v2.0.0+incompatible", "v0.3.0", "v1.2.3+incompatible", "v1.0.0+incompatible"}
	editV2                = []string{"v2.0.0", "v2.1.0", "v2.10.0", "v2.9.0-pre"}
	editVGopkg            = []string{"v1.0.0", "v1.2.3", "v1.10.0", "v1.9.0"}
	editGoVers            = []string{"1.16", "1.20", "1.20.5", "1.21", "1.21.0", "1.22rc1", "1.23.1", "1.9", "1.21rc1", "1.100", "1.23beta2", "1.22.0rc1"}
	editTool              = []string{"go1.21.0", "default", "go1.22.3-custom", "go1"}
	editDbgKeys           = []string{"panicnil", "http2client", "asynctimerchan", "x"}
	editDbgVals           = []string{"0", "1", "2"}
	editTools             = []string{"example.com/a/cmd/t", "example.com/b/tool", "x.io/f/g/cmd", "example.com/a"}
	editDirs              = []string{"./local", "../up/x", "/abs/y", "./sp ace", "."}
	editUseDirs           = []string{"./a", "./b", "../c", "/abs/d", "./with space", "./e/f"}
	editModPathsForModule = []string{"example.com/m", "example.com/m/v2", "example.com/dep recated"}
)

// EditVersionFor returns a canonical version consistent with the major version of path.
func EditVersionFor(r *rand.Rand, path string) string {
	switch {
	case strings.HasSuffix(path, "/v2"):
		return pick(r, editV2...)
	case strings.HasPrefix(path, "gopkg.in/"):
		return pick(r, editVGopkg...)
	}
	return pick(r, editV1...)
}

// directory-like arguments that AutoQuote has to quote: "//" or "/*" in the middle or at the
// very END of the string, plus everything gen.HostileDir produces (one trigger per MustQuote
// branch)
var editHostileFixed = []string{"./b//", "../forks/*", "./tools//gen", "../x//", "./a/*b", "/abs//", "./x/*", "./p//q//", "../up/**/"}

func hostileDir(r *rand.Rand) string {
	if r.Intn(2) == 0 {
		return pick(r, editHostileFixed...)
	}
	return HostileDir(r)
}

// useDir / replDir: a directory argument, one time in six a hostile one
func useDir(r *rand.Rand) string {
	if r.Intn(6) == 0 {
		return hostileDir(r)
	}
	return pick(r, editUseDirs...)
}

func replDir(r *rand.Rand) string {
	if r.Intn(5) == 0 {
		return hostileDir(r)
	}
	return pick(r, editDirs...)
}

func presentUse(r *rand.Rand, pool []string) string {
	if len(pool) > 0 && r.Intn(10) < 7 {
		return pool[r.Intn(len(pool))]
	}
	return useDir(r)
}

// fileTok writes a directory in a starting file: bare when that is safe, quoted otherwise
func fileTok(d string) string {
	for _, p := range append(append([]string(nil), editDirs...), editUseDirs...) {
		if d == p && !strings.Contains(d, " ") {
			return d
		}
	}
	return strconv.Quote(d)
}

type tagger struct{ n int }

func (t *tagger) next() string { t.n++; return fmt.Sprintf("c%d", t.n) }

// lineText decorates one directive line (without the verb when inside a block) with
// optional leading and end-of-line comments.
func decorate(r *rand.Rand, t *tagger, indent, body string, require bool) string {
	var b strings.Builder
	if r.Intn(5) == 0 {
		n := 1 + r.Intn(2)
		if indent != "" && r.Intn(3) == 0 {
			b.WriteString("\n") // a blank line, then whole-line comments, then the entry
		}
		for i := 0; i < n; i++ {
			if i > 0 && r.Intn(4) == 0 {
				b.WriteString("\n")
			}
			b.WriteString(indent + "// " + t.next() + "\n")
		}
	} else if indent != "" && r.Intn(10) == 0 {
		b.WriteString("\n") // blank line inside a block
	}
	b.WriteString(indent + body)
	k := r.Intn(20)
	switch {
	case require && k < 4:
		b.WriteString(" // indirect")
	case require && k < 7:
		b.WriteString(pick(r, " // indirect; ", " // indirect;  ", " //indirect; ", " //  indirect; ") + suffixText(r, t))
	case require && k < 8:
		b.WriteString(" //indirect")
	case require && k < 10:
		b.WriteString(" // " + suffixText(r, t)) // a direct line whose comment a promotion to indirect must keep whole
	case k < 11:
		b.WriteString(" // " + t.next())
	case k < 12:
		b.WriteString(" //")
	}
	b.WriteString("\n")
	return b.String()
}

// suffixText is the text of an end-of-line comment on a require line, to be kept verbatim
// when a bulk setter adds or removes the "indirect;" marker in front of it: 0, 1 or 2 further
// semicolons with and without blanks around them, and texts that begin with the word
// "indirect" without being a marker.  It never begins with a field "indirect" or
// "indirect;" (the shape of known finding K9 is produced by the fixed corpus probe only).
func suffixText(r *rand.Rand, t *tagger) string {
	a, b2, c := t.next(), t.next(), t.next()
	switch r.Intn(10) {
	case 0:
		return a + "; " + b2
	case 1:
		return a + ";" + b2
	case 2:
		return a + " ; " + b2 + "; " + c
	case 3:
		return a + ";" + b2 + ";" + c
	case 4:
		return a + " ;" + b2 + " ;"
	case 5:
		return "indirectly " + a + "; " + b2
	case 6:
		return "indirect;" + a // one field "indirect;cN": not a marker
	case 7:
		return "indirect-" + a + ";; " + b2
	case 8:
		return a + " // " + b2 + "; " + c
	}
	return a
}

// stmtText renders a statement of the given verb with the given line bodies, either as
// separate lines or as one block.
func stmtText(r *rand.Rand, t *tagger, verb string, bodies []string, block bool) string {
	var b strings.Builder
	req := verb == "require"
	if !block {
		for _, body := range bodies {
			b.WriteString(decorate(r, t, "", verb+" "+body, req))
			if r.Intn(3) == 0 {
				b.WriteString("\n")
			}
		}
		return b.String()
	}
	if r.Intn(4) == 0 {
		b.WriteString("// " + t.next() + "\n")
	}
	b.WriteString(verb + " (")
	if r.Intn(10) == 0 {
		b.WriteString(" // " + t.next())
	}
	b.WriteString("\n")
	for _, body := range bodies {
		b.WriteString(decorate(r, t, "\t", body, req))
	}
	if r.Intn(7) == 0 {
		b.WriteString("\t// " + t.next() + "\n")
	}
	b.WriteString(")")
	if r.Intn(10) == 0 {
		b.WriteString(" // " + t.next())
	}
	b.WriteString("\n")
	return b.String()
}

func editReplaceBody(r *rand.Rand) string {
	op := pick(r, EditModPaths...)
	s := op
	if r.Intn(2) == 0 {
		s += " " + EditVersionFor(r, op)
	}
	s += " => "
	if r.Intn(3) == 0 {
		s += fileTok(replDir(r))
	} else {
		np := pick(r, EditModPaths...)
		s += np + " " + EditVersionFor(r, np)
	}
	return s
}

func editRetractBody(r *rand.Rand, v2 bool) string {
	vs := editV1
	if v2 {
		vs = editV2
	}
	if r.Intn(3) == 0 {
		return "[" + pick(r, vs...) + ", " + pick(r, vs...) + "]"
	}
	return pick(r, vs...)
}

// EditGoMod returns a small go.mod file: single lines and blocks mixed, duplicated keys,
// comments before lines / at line ends / inside blocks / before ")", blank lines, go
// versions below and above 1.21. Every comment carries a unique tag cN.
func EditGoMod(r *rand.Rand) string {
	t := &tagger{}
	var b strings.Builder
	if r.Intn(5) == 0 {
		b.WriteString("// " + t.next() + "\n\n")
	}
	v2 := false
	if r.Intn(12) != 0 {
		mp := "example.com/m"
		if r.Intn(6) == 0 {
			mp = "example.com/m/v2"
			v2 = true
		}
		if r.Intn(8) == 0 {
			b.WriteString("// Deprecated: " + t.next() + "\n")
		}
		if r.Intn(15) == 0 {
			b.WriteString("module (\n\t" + mp + "\n)\n")
		} else {
			b.WriteString(decorate(r, t, "", "module "+mp, false))
		}
		b.WriteString("\n")
	}
	if r.Intn(10) < 7 {
		b.WriteString(decorate(r, t, "", "go "+pick(r, editGoVers...), false))
		b.WriteString("\n")
	}
	if r.Intn(4) == 0 {
		b.WriteString(decorate(r, t, "", "toolchain "+pick(r, editTool...), false))
		b.WriteString("\n")
	}
	n := r.Intn(7)
	for i := 0; i < n; i++ {
		verb := pick(r, "require", "require", "require", "exclude", "exclude", "replace", "replace", "retract", "tool", "godebug")
		k := 1 + r.Intn(4)
		block := r.Intn(2) == 0
		if block && r.Intn(12) == 0 {
			k = 0
		}
		var bodies []string
		var last string
		for j := 0; j < k; j++ {
			var body string
			switch verb {
			case "require", "exclude":
				p := pick(r, EditModPaths...)
				body = p + " " + EditVersionFor(r, p)
			case "replace":
				body = editReplaceBody(r)
			case "retract":
				body = editRetractBody(r, v2)
			case "tool":
				body = pick(r, editTools...)
			case "godebug":
				body = pick(r, editDbgKeys...) + "=" + pick(r, editDbgVals...)
			}
			if last != "" && r.Intn(8) == 0 {
				body = last // exact duplicate
			}
			last = body
			bodies = append(bodies, body)
		}
		b.WriteString(stmtText(r, t, verb, bodies, block))
		if r.Intn(4) != 0 {
			b.WriteString("\n")
		}
		if r.Intn(12) == 0 {
			b.WriteString("// " + t.next() + "\n\n")
		}
	}
	return b.String()
}

// EditGoWork is the go.work counterpart of EditGoMod.
func EditGoWork(r *rand.Rand) string {
	t := &tagger{}
	var b strings.Builder
	if r.Intn(4) == 0 {
		b.WriteString("// " + t.next() + "\n\n")
	}
	if r.Intn(10) < 7 {
		b.WriteString(decorate(r, t, "", "go "+pick(r, editGoVers...), false))
		b.WriteString("\n")
	}
	if r.Intn(4) == 0 {
		b.WriteString(decorate(r, t, "", "toolchain "+pick(r, editTool...), false))
		b.WriteString("\n")
	}
	n := r.Intn(6)
	for i := 0; i < n; i++ {
		verb := pick(r, "use", "use", "use", "replace", "replace", "godebug")
		k := 1 + r.Intn(4)
		block := r.Intn(2) == 0
		if block && r.Intn(12) == 0 {
			k = 0
		}
		var bodies []string
		var last string
		for j := 0; j < k; j++ {
			var body string
			switch verb {
			case "use":
				body = fileTok(useDir(r))
			case "replace":
				body = editReplaceBody(r)
			case "godebug":
				body = pick(r, editDbgKeys...) + "=" + pick(r, editDbgVals...)
			}
			if last != "" && r.Intn(8) == 0 {
				body = last
			}
			last = body
			bodies = append(bodies, body)
		}
		b.WriteString(stmtText(r, t, verb, bodies, block))
		if r.Intn(4) != 0 {
			b.WriteString("\n")
		}
		if r.Intn(12) == 0 {
			b.WriteString("// " + t.next() + "\n\n")
		}
	}
	return b.String()
}

// EditKeys is the pool of keys present in a file (filled by the harness from the parsed
// file and extended by the generator as operations add keys).
type EditKeys struct {
	ReqPaths []string
	Excludes [][2]string // path, version
	Replaces [][2]string // old path, old version
	Retracts [][2]string // low, high
	Tools    []string
	Godebugs []string
	Uses     []string
	ModuleV2 bool
}

func present(r *rand.Rand, pool []string, universe []string) string {
	if len(pool) > 0 && r.Intn(10) < 7 {
		return pool[r.Intn(len(pool))]
	}
	return universe[r.Intn(len(universe))]
}

func present2(r *rand.Rand, pool [][2]string, fresh func() [2]string) [2]string {
	if len(pool) > 0 && r.Intn(10) < 7 {
		return pool[r.Intn(len(pool))]
	}
	return fresh()
}

func editReqList(r *rand.Rand, k *EditKeys) []ReqArg {
	n := r.Intn(6)
	seen := map[string]bool{}
	var out []ReqArg
	for i := 0; i < n; i++ {
		p := present(r, k.ReqPaths, EditModPaths)
		if seen[p] {
			continue
		}
		seen[p] = true
		out = append(out, ReqArg{Path: p, Version: EditVersionFor(r, p), Indirect: r.Intn(5) < 2})
	}
	return out
}

func (k *EditKeys) retractVersions() []string {
	if k.ModuleV2 {
		return editV2
	}
	return editV1
}

// EditOpMod draws one go.mod operation. allowBad permits arguments the operation
// rejects with an error and (rarely) arguments it fails to validate (Garbage).
func EditOpMod(r *rand.Rand, k *EditKeys, allowBad bool) []EditOp {
	one := func(name string, args ...string) []EditOp { return []EditOp{{Name: name, Args: args}} }
	bad := allowBad && r.Intn(8) == 0
	switch c := r.Intn(100); {
	case c < 3:
		p := pick(r, editModPathsForModule...)
		return one("AddModuleStmt", p)
	case c < 8:
		if bad {
			return one("AddGoStmt", pick(r, "1", "1.x", "v1.21", "1.21.", "01.2", ""))
		}
		return one("AddGoStmt", pick(r, editGoVers...))
	case c < 10:
		return one("DropGoStmt")
	case c < 13:
		if bad {
			return one("AddToolchainStmt", pick(r, "go2", "gox", "1.21", "", "go11"))
		}
		return one("AddToolchainStmt", pick(r, editTool...))
	case c < 15:
		return one("DropToolchainStmt")
	case c < 20:
		key := present(r, k.Godebugs, editDbgKeys)
		k.Godebugs = append(k.Godebugs, key)
		return one("AddGodebug", key, pick(r, editDbgVals...))
	case c < 23:
		return one("DropGodebug", present(r, k.Godebugs, editDbgKeys))
	case c < 31:
		p := present(r, k.ReqPaths, EditModPaths)
		k.ReqPaths = append(k.ReqPaths, p)
		if bad && r.Intn(2) == 0 {
			return []EditOp{{Name: "AddRequire", Args: []string{p, pick(r, "v1", "v1.2", "1.0.0", "v1.0.0+meta")}, Garbage: true}}
		}
		return one("AddRequire", p, EditVersionFor(r, p))
	case c < 36:
		p := present(r, k.ReqPaths, EditModPaths)
		k.ReqPaths = append(k.ReqPaths, p)
		ind := "0"
		if r.Intn(2) == 0 {
			ind = "1"
		}
		return one("AddNewRequire", p, EditVersionFor(r, p), ind)
	case c < 42:
		ops := []EditOp{}
		if r.Intn(20) != 0 {
			ops = append(ops, EditOp{Name: "Cleanup"})
		}
		return append(ops, EditOp{Name: "SetRequire", Reqs: editReqList(r, k)})
	case c < 49:
		ops := []EditOp{}
		if r.Intn(20) != 0 {
			ops = append(ops, EditOp{Name: "Cleanup"})
		}
		return append(ops, EditOp{Name: "SetRequireSeparateIndirect", Reqs: editReqList(r, k)})
	case c < 53:
		return one("DropRequire", present(r, k.ReqPaths, EditModPaths))
	case c < 58:
		e := present2(r, k.Excludes, func() [2]string { p := pick(r, EditModPaths...); return [2]string{p, EditVersionFor(r, p)} })
		if r.Intn(4) == 0 {
			e[1] = EditVersionFor(r, e[0])
		}
		if bad {
			return one("AddExclude", e[0], pick(r, "v1", "v1.0", "", "v3.0.0", "v1.0.0+meta"))
		}
		k.Excludes = append(k.Excludes, e)
		return one("AddExclude", e[0], e[1])
	case c < 61:
		e := present2(r, k.Excludes, func() [2]string { p := pick(r, EditModPaths...); return [2]string{p, EditVersionFor(r, p)} })
		return one("DropExclude", e[0], e[1])
	case c < 69:
		return editAddReplace(r, k, "AddReplace")
	case c < 72:
		e := present2(r, k.Replaces, func() [2]string { p := pick(r, EditModPaths...); return [2]string{p, EditVersionFor(r, p)} })
		if r.Intn(5) == 0 {
			e[1] = ""
		}
		return one("DropReplace", e[0], e[1])
	case c < 77:
		vs := k.retractVersions()
		lo := pick(r, vs...)
		hi := lo
		if r.Intn(3) == 0 {
			hi = pick(r, vs...)
		}
		if bad {
			if r.Intn(2) == 0 {
				lo = pick(r, "v1", "", "v1.0.0+meta")
			} else {
				hi = pick(r, "v1.2", "", "1.0.0")
			}
		}
		rat := ""
		switch r.Intn(4) {
		case 0:
			rat = "bad release"
		case 1:
			rat = "line one\nline two"
		}
		if !bad {
			k.Retracts = append(k.Retracts, [2]string{lo, hi})
		}
		return one("AddRetract", lo, hi, rat)
	case c < 80:
		vs := k.retractVersions()
		e := present2(r, k.Retracts, func() [2]string { v := pick(r, vs...); return [2]string{v, v} })
		return one("DropRetract", e[0], e[1])
	case c < 85:
		p := present(r, k.Tools, editTools)
		k.Tools = append(k.Tools, p)
		if bad && r.Intn(2) == 0 {
			return []EditOp{{Name: "AddTool", Args: []string{"example.com/needs quoting"}, Garbage: true}}
		}
		return one("AddTool", p)
	case c < 88:
		return one("DropTool", present(r, k.Tools, editTools))
	case c < 90:
		return one("AddComment", fmt.Sprintf("// added%d", r.Intn(1000)))
	case c < 96:
		return one("Cleanup")
	default:
		return one("SortBlocks")
	}
}

func editAddReplace(r *rand.Rand, k *EditKeys, name string) []EditOp {
	e := present2(r, k.Replaces, func() [2]string { p := pick(r, EditModPaths...); return [2]string{p, EditVersionFor(r, p)} })
	switch r.Intn(4) {
	case 0:
		e[1] = ""
	case 1:
		e[1] = EditVersionFor(r, e[0])
	}
	var np, nv string
	if r.Intn(3) == 0 {
		np = replDir(r)
	} else {
		np = pick(r, EditModPaths...)
		nv = EditVersionFor(r, np)
	}
	k.Replaces = append(k.Replaces, e)
	return []EditOp{{Name: name, Args: []string{e[0], e[1], np, nv}}}
}

// EditOpWork draws one go.work operation.
func EditOpWork(r *rand.Rand, k *EditKeys, allowBad bool) []EditOp {
	one := func(name string, args ...string) []EditOp { return []EditOp{{Name: name, Args: args}} }
	bad := allowBad && r.Intn(8) == 0
	switch c := r.Intn(100); {
	case c < 8:
		if bad {
			return one("WAddGoStmt", pick(r, "1", "1.x", "v1.21", ""))
		}
		return one("WAddGoStmt", pick(r, editGoVers...))
	case c < 11:
		return one("WDropGoStmt")
	case c < 17:
		if bad {
			return one("WAddToolchainStmt", pick(r, "go2", "gox", ""))
		}
		return one("WAddToolchainStmt", pick(r, editTool...))
	case c < 20:
		return one("WDropToolchainStmt")
	case c < 28:
		key := present(r, k.Godebugs, editDbgKeys)
		k.Godebugs = append(k.Godebugs, key)
		return one("WAddGodebug", key, pick(r, editDbgVals...))
	case c < 32:
		return one("WDropGodebug", present(r, k.Godebugs, editDbgKeys))
	case c < 44:
		p := presentUse(r, k.Uses)
		k.Uses = append(k.Uses, p)
		return one("WAddUse", p, pick(r, "", "example.com/used"))
	case c < 50:
		p := presentUse(r, k.Uses)
		k.Uses = append(k.Uses, p)
		return one("WAddNewUse", p, pick(r, "", "example.com/used"))
	case c < 62:
		ops := []EditOp{}
		if r.Intn(20) != 0 {
			ops = append(ops, EditOp{Name: "WCleanup"})
		}
		n := r.Intn(5)
		seen := map[string]bool{}
		reqs := []ReqArg{}
		for i := 0; i < n; i++ {
			p := presentUse(r, k.Uses)
			if seen[p] {
				continue
			}
			seen[p] = true
			reqs = append(reqs, ReqArg{Path: p, Version: pick(r, "", "example.com/used")})
		}
		return append(ops, EditOp{Name: "WSetUse", Reqs: reqs})
	case c < 68:
		return one("WDropUse", presentUse(r, k.Uses))
	case c < 80:
		return editAddReplace(r, k, "WAddReplace")
	case c < 85:
		e := present2(r, k.Replaces, func() [2]string { p := pick(r, EditModPaths...); return [2]string{p, EditVersionFor(r, p)} })
		if r.Intn(5) == 0 {
			e[1] = ""
		}
		return one("WDropReplace", e[0], e[1])
	case c < 93:
		return one("WCleanup")
	default:
		return one("WSortBlocks")
	}
}

// EditOps draws a sequence of 1..12 operations (a bulk setter is preceded by Cleanup
// except in one case out of twenty) and ends it with Cleanup.
func EditOps(r *rand.Rand, k *EditKeys, work bool, allowBad bool) []EditOp {
	n := 1 + r.Intn(12)
	var ops []EditOp
	for len(ops) < n {
		if work {
			ops = append(ops, EditOpWork(r, k, allowBad)...)
		} else {
			ops = append(ops, EditOpMod(r, k, allowBad)...)
		}
	}
	if work {
		ops = append(ops, EditOp{Name: "WCleanup"})
	} else {
		ops = append(ops, EditOp{Name: "Cleanup"})
	}
	return ops
}
