package gen

import (
	"math/rand"
	"strings"
)

// Path generators shared by the module-path properties (C06, C11, ...).
// All of them return mostly valid inputs of their kind (roughly half to two thirds are
// accepted by the corresponding module.Check*Path) mixed with near misses: every ASCII
// punctuation character, Windows reserved names in mixed case with and without
// extensions, tilde-digit suffixes before/after the first dot, unicode letters and
// non-letters, invalid UTF-8, leading/trailing dots and dashes, "//", trailing slashes,
// vN last elements and gopkg.in forms.

var pathWords = []string{"a", "b", "x", "go", "foo", "bar", "pkg", "cmd", "mod", "api", "Foo", "BAR", "QuX", "x2", "a1b", "z9",
	"a-b", "a_b", "my-pkg", "x_y_z", "A-B", "a.b", "foo.go", "x.tar.gz", "a.b.c", "lib.v2x", "v", "vv", "v2x", "V2", "internal", "k", "K", "s", "S"}

// reserved Windows device names and near misses (not reserved: com0, com10, lpt, conx, xcon)
var reservedBases = []string{"con", "prn", "aux", "nul", "com1", "com2", "com5", "com9", "lpt1", "lpt3", "lpt9"}
var reservedNear = []string{"com0", "com10", "com", "lpt", "lpt0", "lpt10", "conx", "xcon", "co", "nu", "null", "au", "aux1", "prn2", "c0n", "con_", "con-"}

var unicodeLetters = []string{"é", "ß", "Ω", "я", "日", "本", "語", "한", "ſ", "\u212a", "ǅ", "ª", "𐐀", "\u00b5", "İ", "ı"}
var unicodeNonLetters = []string{"€", "①", "\u00a0", "\u2028", "·", "½", "😀", "\u0301", "٣", "\ufffd", "¹", "\u200b", "→"}
var badUTF8 = []string{"\xff", "\x80", "\xc3", "\xe2\x82", "\xed\xa0\x80", "\xc0\xaf", "\xf4\x90\x80\x80", "\xf0\x9f", "a\xc3(", "\xfe"}

const asciiPunct = "!\"#$%&'()*+,-./:;<=>?@[\\]^_`{|}~"

func mixCase(r *rand.Rand, s string) string {
	b := []byte(s)
	mode := r.Intn(4)
	for i, c := range b {
		if 'a' <= c && c <= 'z' {
			if mode == 0 || (mode >= 2 && r.Intn(2) == 0) {
				b[i] = c - 32
			}
		}
	}
	return string(b)
}

func digits(r *rand.Rand) string {
	return pick(r, "0", "1", "2", "7", "9", "10", "12", "01", "123", "99")
}

// tildeElem returns elements around the Windows short-name rule.
func tildeElem(r *rand.Rand) string {
	w := pick(r, "foo", "progra", "a", "x-y", "A", "")
	switch r.Intn(12) {
	case 0:
		return w + "~" + digits(r) // rejected (module/import)
	case 1:
		return w + "~" + digits(r) + "." + pick(r, "txt", "go", "c~1", "d") // short name before the first dot: rejected
	case 2:
		return pick(r, "foo", "a") + "." + pick(r, "txt", "b") + "~" + digits(r) // after the first dot: accepted
	case 3:
		return w + "~" // tilde last: accepted
	case 4:
		return w + "~" + digits(r) + pick(r, "a", "x", "-", "_") // not all digits
	case 5:
		return w + "~" + pick(r, "a", "x", "-") + digits(r)
	case 6:
		return w + "~" + digits(r) + "~" + digits(r)
	case 7:
		return w + "~" + digits(r) + "~"
	case 8:
		return w + "~~" + digits(r)
	case 9:
		return "~" + pick(r, "", "a", "1", "12", "1a")
	case 10:
		return w + "~" + pick(r, "١", "²", "1٣") // non-ASCII digits (invalid char for module/import)
	default:
		return pick(r, "a", "foo") + "~" + pick(r, "b", "1") + "." + pick(r, "c", "go") + "~" + digits(r)
	}
}

// reservedElem returns a reserved Windows name (or a near miss) in mixed case, possibly
// with extensions or decorations.
func reservedElem(r *rand.Rand) string {
	var base string
	if r.Intn(3) == 0 {
		base = pick(r, reservedNear...)
	} else {
		base = pick(r, reservedBases...)
	}
	base = mixCase(r, base)
	switch r.Intn(10) {
	case 0, 1, 2:
		return base
	case 3, 4:
		return base + "." + pick(r, "txt", "go", "tar.gz", "c", "TXT", "~1")
	case 5:
		return base + pick(r, "-x", "_", "x", "1", "~1", "~", " ", "+")
	case 6:
		return pick(r, "x", "-", "_", "a.", ".") + base
	case 7:
		// fold-equivalent non-ASCII letters in place of ASCII ones (K/k/KELVIN, s/ſ)
		return strings.NewReplacer("k", "\u212a", "K", "\u212a", "s", "ſ", "S", "ſ", "u", "µ").Replace(base)
	case 8:
		return base + ".." + pick(r, "a", "")
	default:
		return base + "." + pick(r, unicodeLetters...)
	}
}

func dotElem(r *rand.Rand) string {
	return pick(r, ".", "..", "...", ".a", "a.", ".git", ".hidden", "a..b", "a...b", "..a", "a..", ".a.", "a.b.", ".a.b", "-a", "a-", "-", "--", "-.", ".-", "_", "~", "a.-b", "._", ".~1", ".~12", ".a~1", ".~1.x", ".x~", ".con", ".nul.txt")
}

func punctElem(r *rand.Rand) string {
	c := string(asciiPunct[r.Intn(len(asciiPunct))])
	w := pick(r, pathWords...)
	switch r.Intn(5) {
	case 0:
		return c + w
	case 1:
		return w + c
	case 2:
		return c
	default:
		i := r.Intn(len(w) + 1)
		return w[:i] + c + w[i:]
	}
}

func unicodeElem(r *rand.Rand) string {
	w := pick(r, pathWords...)
	var u string
	switch r.Intn(10) {
	case 0, 1, 2, 3, 4:
		u = pick(r, unicodeLetters...)
	case 5, 6, 7:
		u = pick(r, unicodeNonLetters...)
	default:
		u = pick(r, badUTF8...)
	}
	switch r.Intn(4) {
	case 0:
		return u
	case 1:
		return u + w
	case 2:
		return w + u
	default:
		return w + u + pick(r, pathWords...)
	}
}

// PathElem returns one path element: about two thirds plain valid elements, the rest
// from the special families.
func PathElem(r *rand.Rand) string {
	switch k := r.Intn(30); {
	case k < 18:
		w := pick(r, pathWords...)
		if r.Intn(4) == 0 {
			w += pick(r, "", "-", "_", ".", "~") + pick(r, pathWords...)
		}
		return w
	case k < 20:
		return reservedElem(r)
	case k < 22:
		return tildeElem(r)
	case k < 24:
		return dotElem(r)
	case k < 26:
		return punctElem(r)
	case k < 28:
		return unicodeElem(r)
	case k < 29:
		return pick(r, "v0", "v1", "v2", "v3", "v10", "v01", "v2.1", "v2.0", "v1.2.3", "v", "v2a", "V2", "v2-unstable", "v00", "v1.", "v.2")
	default:
		return pick(r, "", " ", "a b", " a", "a ", "\t", "a\x00b", "\x7f")
	}
}

// fileElem is a file-name element: richer alphabet than PathElem.
func fileElem(r *rand.Rand) string {
	switch k := r.Intn(30); {
	case k < 10:
		return pick(r, pathWords...) + pick(r, "", ".go", ".txt", "_test.go", ".tar.gz", ".c~", "~1")
	case k < 14:
		w := pick(r, "READ ME", "a b", "x+y", "c++", "#1", "a,b", "f(x)", "[id]", "{t}", "a=b", "me@host", "$HOME", "100%", "a&b", "!x", "^caret", "日本語", "résumé", "naïve.txt", "Ωmega", "x~", "~x")
		return w + pick(r, "", ".txt", ".go")
	case k < 17:
		return reservedElem(r)
	case k < 19:
		return tildeElem(r)
	case k < 21:
		return dotElem(r)
	case k < 24:
		return punctElem(r)
	case k < 28:
		return unicodeElem(r)
	default:
		return PathElem(r)
	}
}

func domain(r *rand.Rand) string {
	switch k := r.Intn(40); {
	case k < 26:
		return pick(r, "example.com", "github.com", "golang.org", "a.b", "x.y.z", "go.uber.org", "k8s.io", "rsc.io", "gopkg.in", "my-site.dev", "0x0.st", "1.2", "a.b-c", "gopkg.in")
	case k < 28:
		return pick(r, "example", "localhost", "a", "std", "cmd", "go") // no dot
	case k < 30:
		return pick(r, "Example.com", "GitHub.com", "a.B", "EXAMPLE.COM") // upper case
	case k < 32:
		return pick(r, "-a.com", "a-.com", "a.com-", ".com", "com.", "a..b", ".", "-", "-.-", "a.-")
	case k < 34:
		return pick(r, "ex_ample.com", "a~b.com", "a+b.com", "exa mple.com", "a.com:80", "user@a.com", "a.b~1", "a~1.b")
	case k < 36:
		return pick(r, "éxample.com", "例え.jp", "a.b\xff", "xn--bcher-kva.example", "a.\u212a")
	case k < 38:
		return reservedElem(r) + pick(r, "", ".com")
	default:
		return PathElem(r)
	}
}

func versionSuffix(r *rand.Rand) string {
	switch k := r.Intn(20); {
	case k < 9:
		return pick(r, "/v2", "/v3", "/v5", "/v10", "/v11", "/v23", "/v100", "/v2", "/v9")
	case k < 11:
		return pick(r, "/v0", "/v1")
	case k < 13:
		return pick(r, "/v01", "/v02", "/v00", "/v010")
	case k < 16:
		return pick(r, "/v2.1", "/v2.0", "/v1.2.3", "/v2.", "/v.2", "/v.", "/v1.", "/v0.1")
	case k < 18:
		return pick(r, "/v", "/V2", "/v2a", "/vv2", "/v2-unstable", "/v-2", "/v2/", "/v2//", "/v 2")
	default:
		return pick(r, ".v2", "v2", "-v2", "/v2/v3", "/v1/v2", "/v2/x", "/v18446744073709551616")
	}
}

func gopkgIn(r *rand.Rand) string {
	name := pick(r, "yaml", "check", "foo", "user/pkg", "go-x/y_z", "a.b", "x")
	var suf string
	switch k := r.Intn(24); {
	case k < 8:
		suf = pick(r, ".v1", ".v2", ".v3", ".v10", ".v0", ".v7")
	case k < 12:
		suf = pick(r, ".v1-unstable", ".v2-unstable", ".v10-unstable", ".v3-unstable")
	case k < 15:
		suf = pick(r, ".v01", ".v00", ".v0-unstable", ".v-unstable", ".v", ".v02-unstable")
	case k < 17:
		suf = pick(r, "/v2", "/v1", "", "/v0", ".v1/sub", ".v2/v3")
	case k < 19:
		suf = pick(r, ".v1-unstable-unstable", ".v1-unstabl", ".v1-Unstable", ".v1unstable", "-unstable", ".v1-unstable/", ".v1.2", ".v1.")
	case k < 21:
		suf = pick(r, ".V1", "v1", ".vv1", "..v1", ".v1a", ".va1", ".v1 ", ".v١")
	default:
		suf = ".v" + digits(r) + pick(r, "", "", "-unstable")
	}
	if r.Intn(12) == 0 {
		name = pick(r, "", ".", "con", "a~1", "-x", "é", "a//b", ".v2")
	}
	return "gopkg.in/" + name + suf
}

func joinElems(r *rand.Rand, first string, elem func(*rand.Rand) string, maxElems int) string {
	n := r.Intn(maxElems + 1)
	parts := []string{first}
	for i := 0; i < n; i++ {
		parts = append(parts, elem(r))
	}
	return strings.Join(parts, "/")
}

// structural damage applied to an otherwise generated path
func damagePath(r *rand.Rand, p string) string {
	switch r.Intn(10) {
	case 0:
		return p + "/"
	case 1:
		return "/" + p
	case 2:
		if i := strings.IndexByte(p, '/'); i >= 0 {
			return p[:i] + "/" + p[i:]
		}
		return p + "//" + "x"
	case 3:
		return "-" + p
	case 4:
		return ""
	case 5:
		return Mutate(r, p, asciiPunct+"aZ09 ")
	case 6:
		return Mutate(r, p, "./~-v0123456789")
	case 7:
		return p + pick(r, badUTF8...)
	case 8:
		return pick(r, "/", "//", ".", "..", "-", "./a", "../a", "a/./b", "a/../b", "~", "a:b", "c:/x", "a\\b")
	default:
		return p + "/" + pick(r, unicodeNonLetters...)
	}
}

// ModulePath returns a module path, mostly valid: domain-like first element, a few
// elements, optionally a major-version suffix or a gopkg.in form.
func ModulePath(r *rand.Rand) string {
	var p string
	switch k := r.Intn(20); {
	case k < 4:
		p = gopkgIn(r)
	case k < 5:
		p = domain(r)
	default:
		p = joinElems(r, domain(r), PathElem, 3)
		if r.Intn(5) < 2 {
			p += versionSuffix(r)
		}
	}
	if r.Intn(12) == 0 {
		p = damagePath(r, p)
	}
	return p
}

// ImportPath returns an import path: like a module path plus standard-library style
// paths without a dot in the first element and '+' characters.
func ImportPath(r *rand.Rand) string {
	var p string
	switch k := r.Intn(20); {
	case k < 8:
		p = ModulePath(r)
		if r.Intn(2) == 0 {
			p += "/" + PathElem(r)
		}
	case k < 12:
		p = joinElems(r, pick(r, "fmt", "net", "cmd", "internal", "Foo", "x", "c++", "g++", "a+b", "+", "v2"), PathElem, 3)
	default:
		p = joinElems(r, PathElem(r), PathElem, 3)
		if r.Intn(6) == 0 {
			p += pick(r, "++", "+", "/lib+", "/c++")
		}
	}
	if r.Intn(12) == 0 {
		p = damagePath(r, p)
	}
	return p
}

// FilePath returns a slash-separated file path with the larger file-name alphabet.
func FilePath(r *rand.Rand) string {
	var p string
	switch k := r.Intn(20); {
	case k < 4:
		p = ImportPath(r)
	case k < 6:
		p = pick(r, "go.mod", "LICENSE", "README.md", "main.go", ".gitignore", "a/b/c.go", "vendor/modules.txt", "-flag", "-", "-a/b")
	default:
		p = joinElems(r, fileElem(r), fileElem, 3)
	}
	if r.Intn(12) == 0 {
		p = damagePath(r, p)
	}
	return p
}
