package props

// C13, known finding K10: mergeLatest installs the presented head in the client's memory (checked
// only against the client's own, possibly stale, head) BEFORE comparing it with the stored
// configuration.  A long-lived client whose head is behind the stored one therefore keeps a head
// that forks from the stored head after it has reported the fork, and its next lookups succeed with
// data of the other log.
//
//   - oracle "ok-after-security-is-config-side" (all sequential C13 scenarios): once a client has
//     returned ErrSecurity, a later Ok result of that client must be a record of a log (side) the
//     stored head belongs to;
//   - sumK10Probe: the deterministic corpus scenario, run first on every seed;
//   - the shape "K10" is given only to exactly that situation (see sumAfterSecurity).

import (
	"bytes"
	"fmt"
	"strings"

	"verif/harness/gen"
	"verif/harness/hx"
)

const sumAfterSecurityName = "ok-after-security-is-config-side"

// sumAfterSecurity evaluates the oracle.  bad: it failed; shape "K10" iff the failure is the known
// finding: the same client's PRECEDING lookup returned ErrSecurity raised by the comparison with
// the stored configuration (the client was already initialised and, within that lookup, a
// ReadConfig of the stored head precedes the SecurityError callback — the in-memory comparison
// fails before any ReadConfig), and that lookup left the configuration unchanged.
func sumAfterSecurity(run *gen.SumRun) (msg, shape string, bad bool) {
	w, sc := run.W, run.Sc
	if sc.Par != nil || len(sc.Interf) > 0 {
		return "", "", false // the order of steps is not the order of events / the stored file is another process's
	}
	latest := gen.SumName + "/latest"
	max := sumMaxSigned(w)
	// the stored head at the start of every step, and after the last
	cfg := make([][]byte, len(sc.Steps)+1)
	now := run.Config0[latest]
	cur := 0
	cfg[0] = now
	for _, e := range run.Events {
		for cur < e.Step && cur < len(sc.Steps) {
			cur++
			cfg[cur] = now
		}
		if e.Kind == "wcfg" && !e.Err && e.Name == latest {
			now = e.Data
		}
	}
	for cur < len(sc.Steps) {
		cur++
		cfg[cur] = now
	}
	lastOf := map[int]int{}  // client -> its previous step
	sawSec := map[int]bool{} // client -> has returned ErrSecurity
	for j, r := range run.Results {
		st := sc.Steps[j]
		prev, hasPrev := lastOf[st.Client]
		if r.Class == "ok" && len(r.Lines) > 0 && sawSec[st.Client] {
			// the sides the returned record belongs to
			key := gen.SumEscape(st.Path) + "@" + gen.SumEscape(strings.TrimSuffix(st.Vers, "/go.mod"))
			var rec [2]bool
			nrec := 0
			for s := 0; s < 2; s++ {
				if w.Logs[s] == nil {
					continue
				}
				if id, ok := w.Logs[s].Find(key, max[s]); ok {
					want := sumFilter(w.Logs[s].Record(id), st.Path+" "+st.Vers+" ")
					if strings.Join(want, "\n") == strings.Join(r.Lines, "\n") {
						rec[s] = true
						nrec++
					}
				}
			}
			if h, ok := sumNoteHead(w, cfg[j]); ok && len(cfg[j]) > 0 && nrec > 0 {
				sides := w.SidesOf(h.n, h.h)
				common := false
				for _, s := range sides {
					if rec[s] {
						common = true
					}
				}
				if len(sides) > 0 && !common {
					msg = fmt.Sprintf("step %d: client %d returned ErrSecurity earlier and now Lookup(%q,%q) succeeds with %q, a record of the other side than the stored head (size %d)",
						j, st.Client, st.Path, st.Vers, r.Lines, h.n)
					if hasPrev && sumSecurityByConfig(run, prev, cfg) {
						shape = "K10"
					}
					return msg, shape, true
				}
			}
		}
		if r.Class == "security" {
			sawSec[st.Client] = true
		}
		lastOf[st.Client] = j
	}
	return "", "", false
}

// sumSecurityByConfig: step i returned ErrSecurity, its client had run a lookup before, a
// ReadConfig of the stored head precedes the SecurityError callback within the step, the callback
// text shows the stored head, and the step did not change the configuration.
func sumSecurityByConfig(run *gen.SumRun, i int, cfg [][]byte) bool {
	sc := run.Sc
	if i < 0 || i >= len(run.Results) || run.Results[i].Class != "security" {
		return false
	}
	earlier := false
	for k := 0; k < i; k++ {
		if sc.Steps[k].Client == sc.Steps[i].Client {
			earlier = true
		}
	}
	if !earlier || !bytes.Equal(cfg[i], cfg[i+1]) || len(cfg[i]) == 0 {
		return false
	}
	latest := gen.SumName + "/latest"
	readCfg := false
	for _, e := range run.Events {
		if e.Step != i {
			continue
		}
		switch {
		case e.Kind == "rcfg" && e.Name == latest && !e.Err:
			readCfg = true
		case e.Kind == "wcfg" && !e.Err:
			return false
		case e.Kind == "sec":
			return readCfg && bytes.Contains(e.Data, gen.SumIndent(cfg[i]))
		}
	}
	return false
}

// sumK10Scenario: c0 learns head A1 (on the common prefix); a second client sharing the
// configuration stores B5; the server shows c0 the fork A6 (extends A1, inconsistent with B5):
// ErrSecurity, configuration unchanged; c0 then looks up an A-side record.
func sumK10Scenario() gen.SumScenario {
	sc := gen.SumScenario{Seed: 1013, H: 2, NA: 6, NB: 5, K: 4, ForgeID: -1, Note: "k10-probe"}
	sc.Cache = gen.SumCacheSpec{Corrupt: -1}
	rec := func(side, id int) (string, string) {
		p, v, _ := gen.SumRecordOf(sc.Seed, side, id)
		return p, v
	}
	p0, v0 := rec(0, 0)
	pb, vb := rec(1, 4)
	p5, v5 := rec(0, 5)
	p4, v4 := rec(0, 4)
	sc.Steps = []gen.SumStep{
		{Client: 0, View: gen.HonestView(0, 1), Path: p0, Vers: v0},
		{Client: 1, View: gen.HonestView(1, 5), Path: pb, Vers: vb},
		{Client: 0, View: gen.HonestView(0, 6), Path: p5, Vers: v5},
		{Client: 0, View: gen.HonestView(0, 6), Path: p4, Vers: v4},
	}
	return sc
}

// sumK10Probe runs the corpus scenario (also through the Coq model).
func sumK10Probe(c *hx.Ctx, b *sumBudget) {
	run := sumDo(c, sumK10Scenario(), b, true)
	c.Count("k10-probe:" + strings.Join(sumClasses(run), ","))
	c.Sample(fmt.Sprintf("k10-probe: results=%v", sumClasses(run)))
}

// sumK10ShapeFor: the older oracle "fork-never-accepted" sees the same event as
// "ok-after-security-is-config-side" (a head inconsistent with the stored one is presented and the
// lookup succeeds); its failure carries the shape K10 only when it is about the very step for which
// that oracle fails with shape K10.
func sumK10ShapeFor(id, oracle, msg string, bad bool, run *gen.SumRun) string {
	if id != "C13" || !bad || oracle != "fork-never-accepted" {
		return ""
	}
	m2, shape, bad2 := sumAfterSecurity(run)
	if !bad2 || shape != "K10" {
		return ""
	}
	i, j := strings.Index(msg, ":"), strings.Index(m2, ":")
	if i > 0 && j > 0 && msg[:i] == m2[:j] && strings.HasPrefix(msg, "step ") && strings.Contains(msg, "the lookup succeeded") {
		return "K10"
	}
	return ""
}
