package props

import (
	"bytes"
	"encoding/hex"
	"encoding/json"
	"fmt"
	"math/rand"
	"regexp"
	"sort"
	"strconv"
	"strings"

	"golang.org/x/mod/sumdb/tlog"

	"verif/harness/gen"
	"verif/harness/hx"
	"verif/harness/wire"
)

func init() { hx.Register(&hx.Prop{ID: "C10", Run: runC10, Replay: replayC10}) }

// ---------------------------------------------------------------- the logs

// The logs are a fixed function of (which, size): replays need no stored records.
func c10Records(which int, n int) [][]byte {
	out := make([][]byte, n)
	for i := range out {
		out[i] = []byte(fmt.Sprintf("log %d record %d\n", which, i))
	}
	return out
}

type c10Log struct {
	*gen.TileLog
	store []tlog.Hash // independent dense store: subtree hashes in the order they complete
	count []int64     // count[n] = number of stored hashes for n records (independent)
	level []int       // level of store[i]
	off   []int64     // offset of store[i] within its level
}

var c10Logs = map[[2]int]*c10Log{}

func c10GetLog(which, n int) *c10Log {
	for k, l := range c10Logs {
		if k[0] == which && k[1] >= n {
			return l
		}
	}
	tl, err := gen.NewTileLog(c10Records(which, n))
	if err != nil {
		panic(err)
	}
	l := &c10Log{TileLog: tl, count: []int64{0}}
	for rec := int64(0); rec < int64(n); rec++ {
		for lv := 0; (rec+1)%(int64(1)<<uint(lv)) == 0; lv++ {
			o := (rec+1)>>uint(lv) - 1
			l.store = append(l.store, tl.IndepStoredHash(lv, o))
			l.level = append(l.level, lv)
			l.off = append(l.off, o)
		}
		l.count = append(l.count, int64(len(l.store)))
	}
	c10Logs[[2]int{which, n}] = l
	return l
}

// ---------------------------------------------------------------- ReadHashes: run + oracle

type c10In struct {
	Op      string          `json:"op"`
	H       int             `json:"h,omitempty"`
	N       int64           `json:"n,omitempty"`
	Indexes []int64         `json:"indexes,omitempty"`
	Faults  []gen.TileFault `json:"faults,omitempty"`
	Fail    bool            `json:"fail_read,omitempty"`
	Count   int             `json:"count,omitempty"`
	Root    string          `json:"root_hex,omitempty"` // tree hash override (a wrong head)
	PathHex string          `json:"path_hex,omitempty"`
	Tile    *tlog.Tile      `json:"tile,omitempty"`
	Index   int64           `json:"index,omitempty"`
	Sizes   []int64         `json:"sizes,omitempty"`
	Calls   []c10Call       `json:"calls,omitempty"` // op "readseq": successive calls on ONE TileHashReader
}

type c10Run struct {
	ftr      *gen.FaultyTileReader
	tree     tlog.Tree
	hashes   []tlog.Hash
	err      error
	panicked bool
	pmsg     string
}

func c10Exec(in c10In, logSize int) (*c10Log, c10Run) {
	l := c10GetLog(1, logSize)
	other := c10GetLog(2, logSize)
	tree := l.Tree(in.N)
	if in.Root != "" {
		b, _ := hex.DecodeString(in.Root)
		copy(tree.Hash[:], b)
	}
	ftr := &gen.FaultyTileReader{Log: l.TileLog, Other: other.TileLog, H: in.H, Faults: in.Faults, FailRead: in.Fail, Count: in.Count}
	run := c10Run{ftr: ftr, tree: tree}
	run.panicked, run.pmsg = hx.Guard(func() {
		run.hashes, run.err = tlog.TileHashReader(tree, ftr).ReadHashes(in.Indexes)
	})
	return l, run
}

// c10Oracle evaluates the property on one run; "" when it holds.
func c10Oracle(in c10In, l *c10Log, run c10Run) string {
	honestHead := in.Root == ""
	if run.panicked {
		if in.N <= 0 {
			return "" // tree size 0 is outside the property's domain; counted as read:size0-panic
		}
		for _, x := range in.Indexes {
			if x < 0 {
				return "" // negative positions are outside the domain (SplitStoredHashIndex panics)
			}
		}
		return "ReadHashes panicked: " + run.pmsg
	}
	ftr := run.ftr
	if run.err != nil {
		if len(ftr.Saved) != 0 {
			return fmt.Sprintf("ReadHashes failed (%v) but SaveTiles was called with %v", run.err, ftr.Saved[0].Tiles)
		}
		valid := true
		for _, x := range in.Indexes {
			if x < 0 || x >= l.count[in.N] {
				valid = false
			}
		}
		if honestHead && len(in.Faults) == 0 && !in.Fail && in.Count == 0 && valid && in.N > 0 && in.H >= 1 && in.H <= 30 {
			return fmt.Sprintf("honest tiles rejected: %v", run.err)
		}
		return ""
	}
	if !honestHead {
		// a wrong tree head: success would mean the tiles "proved" a root they do not have
		return "ReadHashes succeeded against a wrong tree hash"
	}
	if len(run.hashes) != len(in.Indexes) {
		return fmt.Sprintf("%d hashes for %d indexes", len(run.hashes), len(in.Indexes))
	}
	for i, x := range in.Indexes {
		if x < 0 || x >= l.count[in.N] {
			return fmt.Sprintf("index %d outside the tree accepted", x)
		}
		if run.hashes[i] != l.store[x] {
			return fmt.Sprintf("hash for index %d (level %d offset %d) is %v, true hash %v", x, l.level[x], l.off[x], run.hashes[i], l.store[x])
		}
	}
	if len(ftr.Saved) != 1 {
		return fmt.Sprintf("%d SaveTiles calls on success", len(ftr.Saved))
	}
	s := ftr.Saved[0]
	if len(s.Tiles) != len(s.Data) {
		return "SaveTiles: tiles and data differ in length"
	}
	if len(ftr.Requested) != 1 || len(ftr.Requested[0]) != len(s.Tiles) {
		return "SaveTiles: not the tiles that were requested"
	}
	for i, t := range s.Tiles {
		if t != ftr.Requested[0][i] {
			return "SaveTiles: not the tiles that were requested"
		}
		if t.L < 0 || t.W < 1 || (t.N<<uint(t.H)+int64(t.W))<<uint(t.H*t.L) > in.N {
			return fmt.Sprintf("saved tile %v is not a tile of a tree of size %d", t, in.N)
		}
		want := l.IndepTile(t)
		if !bytes.Equal(s.Data[i], want) {
			return fmt.Sprintf("saved tile %v is not the true tile (differs at byte %d)", t, firstDiff(s.Data[i], want))
		}
		viaAPI, err := tlog.ReadTileData(t, l.Reader())
		if err != nil || !bytes.Equal(viaAPI, want) {
			return fmt.Sprintf("ReadTileData(%v) over the true store differs from the RFC 6962 tile", t)
		}
	}
	return ""
}

func firstDiff(a, b []byte) int {
	for i := 0; i < len(a) && i < len(b); i++ {
		if a[i] != b[i] {
			return i
		}
	}
	if len(a) < len(b) {
		return len(a)
	}
	return len(b)
}

// wire forms of one run
func c10CaseVals(in c10In, run c10Run) (arg, res wire.Val) {
	ixs := make([]wire.Val, len(in.Indexes))
	for i, x := range in.Indexes {
		ixs[i] = wire.I(x)
	}
	resp := wire.L()
	if len(run.ftr.Served) > 0 {
		resp = wire.L(gen.DatasVal(run.ftr.Served[0]))
	}
	arg = wire.L(wire.I(in.N), wire.Bytes(run.tree.Hash[:]), wire.Int(in.H), wire.L(ixs...), resp)
	var result wire.Val
	switch {
	case run.panicked:
		result = wire.Panic()
	case run.err != nil:
		result = gen.TileErrVal(run.err)
	default:
		result = wire.Ok(gen.HashesVal(run.hashes))
	}
	saved := wire.L()
	if len(run.ftr.Saved) > 0 {
		saved = wire.L(gen.TilesVal(run.ftr.Saved[0].Tiles), gen.DatasVal(run.ftr.Saved[0].Data))
	}
	planned := wire.L()
	if len(run.ftr.Requested) > 0 {
		planned = wire.L(gen.TilesVal(run.ftr.Requested[0]))
	}
	return arg, wire.L(result, saved, planned)
}

func c10ResultClass(run c10Run) string {
	switch {
	case run.panicked:
		return "panic"
	case run.err != nil:
		return gen.TileErrVal(run.err).L[1].S
	}
	return "ok"
}

// model cost of a run in node hashes, roughly: every entry of every served tile is hashed about once
func c10Cost(run c10Run) int {
	cost := 4
	if len(run.ftr.Served) > 0 {
		for _, d := range run.ftr.Served[0] {
			cost += len(d) / tlog.HashSize
		}
	}
	return cost
}

// ---------------------------------------------------------------- tile arithmetic oracles

// the tile of least width storing hash (level, n): entries [e0, e1) of tile-level L
func c10SpecTileForIndex(h int, index int64) (tlog.Tile, bool) {
	level, n := tlog.SplitStoredHashIndex(index) // numbering is C09's subject
	L := level / h
	r := uint(level - L*h)
	e0, e1 := n<<r, (n+1)<<r
	N := e0 >> uint(h)
	if (e1-1)>>uint(h) != N {
		return tlog.Tile{}, false
	}
	return tlog.Tile{H: h, L: L, N: N, W: int(e1 - N<<uint(h))}, true
}

var c10PathRE = regexp.MustCompile(`^tile/([1-9][0-9]*)/(data|0|[1-9][0-9]*)/((?:x[0-9]{3}/)*[0-9]{3})(?:\.p/([1-9][0-9]*))?$`)

// independent grammar of tile paths; ok=false when the string is not a canonical path
func c10SpecParsePath(s string) (tlog.Tile, bool) {
	m := c10PathRE.FindStringSubmatch(s)
	if m == nil {
		return tlog.Tile{}, false
	}
	h, err := strconv.ParseInt(m[1], 10, 64)
	if err != nil || h > 30 {
		return tlog.Tile{}, false
	}
	l := int64(-1)
	if m[2] != "data" {
		l, err = strconv.ParseInt(m[2], 10, 64)
		if err != nil {
			return tlog.Tile{}, false
		}
	}
	groups := strings.Split(m[3], "/")
	digits := ""
	for _, g := range groups {
		digits += strings.TrimPrefix(g, "x")
	}
	if len(groups) > 1 && groups[0] == "x000" {
		return tlog.Tile{}, false // leading zero group
	}
	n, err := strconv.ParseInt(digits, 10, 64)
	if err != nil {
		return tlog.Tile{}, false
	}
	w := int64(1) << uint(h)
	if m[4] != "" {
		ww, err := strconv.ParseInt(m[4], 10, 64)
		if err != nil || ww >= w {
			return tlog.Tile{}, false
		}
		w = ww
	}
	return tlog.Tile{H: int(h), L: int(l), N: n, W: int(w)}, true
}

func c10SpecPath(t tlog.Tile) string {
	d := strconv.FormatInt(t.N, 10)
	for len(d)%3 != 0 {
		d = "0" + d
	}
	var parts []string
	for i := 0; i < len(d); i += 3 {
		g := d[i : i+3]
		if i+3 < len(d) {
			g = "x" + g
		}
		parts = append(parts, g)
	}
	L := strconv.Itoa(t.L)
	if t.L == -1 {
		L = "data"
	}
	p := "tile/" + strconv.Itoa(t.H) + "/" + L + "/" + strings.Join(parts, "/")
	if t.W != 1<<uint(t.H) {
		p += ".p/" + strconv.Itoa(t.W)
	}
	return p
}

func c10ValidTile(t tlog.Tile) bool {
	return 1 <= t.H && t.H <= 30 && t.L >= -1 && t.N >= 0 && 1 <= t.W && t.W <= 1<<uint(t.H)
}

func c10PathOracle(s string) string {
	t, err := tlog.ParseTilePath(s)
	st, ok := c10SpecParsePath(s)
	if (err == nil) != ok {
		return fmt.Sprintf("ParseTilePath(%q) err=%v, grammar says valid=%v", s, err, ok)
	}
	if err == nil {
		if t != st {
			return fmt.Sprintf("ParseTilePath(%q)=%v, grammar says %v", s, t, st)
		}
		if t.Path() != s || !c10ValidTile(t) {
			return fmt.Sprintf("ParseTilePath(%q)=%v but Path()=%q valid=%v", s, t, t.Path(), c10ValidTile(t))
		}
	}
	return ""
}

func c10TileOracle(t tlog.Tile) string {
	if !c10ValidTile(t) {
		return ""
	}
	p := t.Path()
	if p != c10SpecPath(t) {
		return fmt.Sprintf("%v.Path()=%q want %q", t, p, c10SpecPath(t))
	}
	back, err := tlog.ParseTilePath(p)
	if err != nil || back != t {
		return fmt.Sprintf("ParseTilePath(%q)=%v,%v want %v", p, back, err, t)
	}
	return ""
}

// NewTiles sufficiency: a publisher that publishes exactly NewTiles(h, old, new) at every
// growth step; a reader at each size must find every tile it plans, and honest content must verify.
func c10Sufficiency(h int, sizes []int64, r *rand.Rand) string {
	maxN := int(sizes[len(sizes)-1])
	l := c10GetLog(1, maxN)
	published := map[tlog.Tile]bool{}
	old := int64(0)
	for _, n := range sizes {
		for _, t := range tlog.NewTiles(h, old, n) {
			if published[t] {
				return fmt.Sprintf("NewTiles(%d,%d,%d) republishes %v", h, old, n, t)
			}
			published[t] = true
		}
		old = n
		if n == 0 {
			continue
		}
		var ixs []int64
		total := l.count[n]
		if total <= 24 {
			for i := int64(0); i < total; i++ {
				ixs = append(ixs, i)
			}
		} else {
			for i := 0; i < 8; i++ {
				ixs = append(ixs, r.Int63n(total))
			}
			ixs = append(ixs, 0, total-1)
		}
		// one read per index (each plans its own chain) and one with all together
		sets := [][]int64{ixs}
		for _, x := range ixs {
			sets = append(sets, []int64{x})
		}
		for _, set := range sets {
			ftr := &gen.FaultyTileReader{Log: l.TileLog, H: h, Published: published}
			hs, err := tlog.TileHashReader(l.Tree(n), ftr).ReadHashes(set)
			if len(ftr.Missing) > 0 {
				return fmt.Sprintf("reader at size %d (indexes %v) needs %v, never published by NewTiles over %v", n, set, ftr.Missing[0], sizes)
			}
			if err != nil {
				return fmt.Sprintf("reader at size %d over published tiles: %v", n, err)
			}
			for i, x := range set {
				if hs[i] != l.store[x] {
					return fmt.Sprintf("reader at size %d: wrong hash for %d", n, x)
				}
			}
		}
	}
	return ""
}

// ---------------------------------------------------------------- Run

type c10Cand struct {
	arg, res wire.Val
	cost     int
	cat      string
}

func runC10(c *hx.Ctx) {
	r := c.Rng
	thorough := c.Tier == "thorough"

	// ---- A. TileForIndex
	tfi := func(h int, index int64) {
		var t tlog.Tile
		p, _ := hx.Guard(func() { t = tlog.TileForIndex(h, index) })
		if p {
			c.Case("TileForIndex", wire.L(wire.Int(h), wire.I(index)), wire.Panic())
			c.Count("tfi:panic")
			return
		}
		c.Case("TileForIndex", wire.L(wire.Int(h), wire.I(index)), wire.Ok(gen.TileVal(t)))
		st, ok := c10SpecTileForIndex(h, index)
		msg := ""
		if !ok || st != t {
			msg = fmt.Sprintf("TileForIndex(%d,%d)=%v, least-width tile is %v (%v)", h, index, t, st, ok)
		}
		c.Check("tile-for-index-least-width", msg == "", "", c10In{Op: "tfi", H: h, Index: index}, msg)
		if t.W != 1<<uint(h) {
			c.Count("tfi:partial")
		} else {
			c.Count("tfi:full")
		}
		c.Nontrivial(fmt.Sprintf("tfi:%d:%d", h, index))
	}
	for h := 1; h <= 8; h++ {
		for i := int64(0); i < 300; i++ {
			tfi(h, i)
		}
	}
	for i := 0; i < c.N(12000); i++ {
		h := 1 + r.Intn(10)
		if r.Intn(10) == 0 {
			h = 1 + r.Intn(30)
		}
		tfi(h, gen.RandSize(r, 45))
	}
	for _, h := range []int{0, -1, -5} {
		tfi(h, int64(r.Intn(100)))
	}

	// ---- B. paths
	randTile := func() tlog.Tile {
		h := 1 + r.Intn(10)
		if r.Intn(4) == 0 {
			h = 1 + r.Intn(30)
		}
		t := tlog.Tile{H: h, L: r.Intn(12) - 1, W: 1 << uint(h)}
		switch r.Intn(4) {
		case 0:
			t.N = int64(r.Intn(1000))
		case 1:
			t.N = gen.RandSize(r, 50) // up to ~10^15
		case 2:
			t.N = int64(r.Intn(1000)) * []int64{1000, 1000000, 1000000000}[r.Intn(3)] // zero groups
		default:
			t.N = r.Int63n(2000000)
		}
		if r.Intn(2) == 0 {
			t.W = 1 + r.Intn(1<<uint(h))
		}
		if r.Intn(30) == 0 {
			t.L = r.Intn(100)
		}
		return t
	}
	pathCase := func(s string) {
		t, err := tlog.ParseTilePath(s)
		if err != nil {
			c.Case("ParseTilePath", wire.S(s), gen.TileErrVal(err))
			c.Count("path:rejected")
		} else {
			c.Case("ParseTilePath", wire.S(s), wire.Ok(gen.TileVal(t)))
			c.Count("path:accepted")
			c.Nontrivial("path:" + s)
		}
		msg := c10PathOracle(s)
		c.Check("path-grammar+roundtrip", msg == "", "", c10In{Op: "path", PathHex: hex.EncodeToString([]byte(s))}, msg)
	}
	for i := 0; i < c.N(9000); i++ {
		t := randTile()
		if r.Intn(12) == 0 { // invalid tiles through Path only
			switch r.Intn(4) {
			case 0:
				t.W = 0
			case 1:
				t.W = 1<<uint(t.H) + 1 + r.Intn(5)
			case 2:
				t.H = 31 + r.Intn(40)
			case 3:
				t.L = -2 - r.Intn(3)
			}
		}
		c.Case("TilePath", gen.TileVal(t), wire.Ok(wire.S(t.Path())))
		msg := c10TileOracle(t)
		c.Check("path-roundtrip", msg == "", "", c10In{Op: "tile", Tile: &t}, msg)
		p := t.Path()
		pathCase(p)
		// mutated paths
		for k := 0; k < 2; k++ {
			var s string
			switch r.Intn(9) {
			case 0:
				s = gen.Mutate(r, p, "tile/x0123456789.pdat-+")
			case 1: // x on the last element / missing x
				parts := strings.Split(p, "/")
				j := 3 + r.Intn(len(parts)-3)
				if strings.HasPrefix(parts[j], "x") {
					parts[j] = parts[j][1:]
				} else {
					parts[j] = "x" + parts[j]
				}
				s = strings.Join(parts, "/")
			case 2: // leading zero group
				parts := strings.Split(p, "/")
				parts = append(parts[:3:3], append([]string{"x000"}, parts[3:]...)...)
				s = strings.Join(parts, "/")
			case 3: // sign or leading zero in a number
				parts := strings.Split(p, "/")
				j := 1 + r.Intn(len(parts)-1)
				parts[j] = []string{"+", "-", "0", "00"}[r.Intn(4)] + parts[j]
				s = strings.Join(parts, "/")
			case 4: // explicit full width / zero width / too wide
				base := strings.Split(p, ".p/")[0]
				s = base + ".p/" + strconv.Itoa([]int{1 << uint(t.H), 0, 1<<uint(t.H) + 1, -1}[r.Intn(4)])
			case 5:
				s = strings.Replace(p, "/"+strconv.Itoa(t.L)+"/", "/data/", 1)
			case 6: // .p on the level element, short paths
				s = []string{"tile/3/4.p/5", "tile/3/data/1", "tile/3/0", "tile/3/0/", "tile//0/000", "tile/3/0/000/", "tile/3/0/0000", "tile/3/0/x000", "tile/1/0/x009/x999/x999/x999/x999/x999/999", "tile/1/0/x009/x223/x372/x036/x854/x775/807", "tile/1/0/x009/x223/x372/x036/x854/x775/808", "tile/3/0/00a", "tile/3/0/1_0", "tile/3/data/000.p/2", "tile/31/0/000", "tile/30/0/000", "tile/3/9223372036854775807/000", "tile/3/9223372036854775808/000", "Tile/3/0/000", "tile/3/0/000.p/08", "tile/3/0/x001/x234/067.p/1", "tile/3/4/x001/x234/067"}[r.Intn(22)]
			case 7: // a 4-digit or 2-digit group
				parts := strings.Split(p, "/")
				j := 3 + r.Intn(len(parts)-3)
				if r.Intn(2) == 0 {
					parts[j] = parts[j] + "0"
				} else if len(parts[j]) > 1 {
					parts[j] = parts[j][:len(parts[j])-1]
				}
				s = strings.Join(parts, "/")
			default:
				s = p + []string{"/", ".p", ".p/", "/000", " "}[r.Intn(5)]
			}
			pathCase(s)
		}
	}

	// ---- C. NewTiles
	newTiles := func(h int, old, nw int64) {
		var ts []tlog.Tile
		p, _ := hx.Guard(func() { ts = tlog.NewTiles(h, old, nw) })
		if p {
			c.Case("NewTiles", wire.L(wire.Int(h), wire.I(old), wire.I(nw)), wire.Panic())
			return
		}
		c.Case("NewTiles", wire.L(wire.Int(h), wire.I(old), wire.I(nw)), wire.Ok(gen.TilesVal(ts)))
		c.Count(fmt.Sprintf("newtiles:len<=%d", bucket(len(ts))))
		if len(ts) > 0 {
			c.Nontrivial(fmt.Sprintf("nt:%d:%d:%d", h, old, nw))
		}
	}
	for h := 1; h <= 4; h++ {
		for old := int64(0); old <= 20; old++ {
			for nw := old; nw <= 36; nw++ {
				newTiles(h, old, nw)
			}
		}
	}
	for i := 0; i < c.N(4000); i++ {
		h := 1 + r.Intn(10)
		old := gen.RandSize(r, 40)
		nw := old + int64(r.Intn(3000))
		switch r.Intn(12) {
		case 0:
			old, nw = nw, old
		case 1:
			old = 0
			nw = int64(r.Intn(5000))
		case 2:
			old = -int64(r.Intn(50))
			nw = int64(r.Intn(3000))
		case 3:
			h = -r.Intn(2)
		}
		newTiles(h, old, nw)
	}
	for i := 0; i < c.N(150); i++ {
		h := 1 + r.Intn(5)
		k := 1 + r.Intn(7)
		sizes := make([]int64, k)
		maxN := 130
		if r.Intn(3) == 0 {
			maxN = 40
		}
		for j := range sizes {
			sizes[j] = int64(r.Intn(maxN + 1))
		}
		sort.Slice(sizes, func(a, b int) bool { return sizes[a] < sizes[b] })
		if sizes[k-1] == 0 {
			sizes[k-1] = 1
		}
		msg := c10Sufficiency(h, sizes, r)
		c.Check("newtiles-sufficient", msg == "", "", c10In{Op: "sufficiency", H: h, Sizes: sizes}, msg)
	}

	// ---- D. HashFromTile and ReadTileData directly
	small := c10GetLog(1, 140)
	for i := 0; i < c.N(300); i++ {
		h := 1 + r.Intn(4)
		n := int64(1 + r.Intn(60))
		x := r.Int63n(small.count[n])
		t := tlog.TileForIndex(h, x)
		// widen to what a tree of size n holds
		max := n >> uint(t.H*t.L)
		if w := max - t.N<<uint(h); w < int64(1<<uint(h)) {
			t.W = int(w)
		} else {
			t.W = 1 << uint(h)
		}
		data := small.IndepTile(t)
		index := x
		switch r.Intn(10) {
		case 0:
			index = r.Int63n(small.count[n])
		case 1:
			data = data[:len(data)-1-r.Intn(len(data))]
		case 2:
			t.W = []int{0, -1, 1<<uint(h) + 1}[r.Intn(3)]
		case 3:
			t.L = []int{-1, 64, t.L + 1}[r.Intn(3)]
		case 4:
			t.H = []int{0, 31, h + 1}[r.Intn(3)]
		case 5:
			t.N++
		case 6:
			if t.W > 1 {
				t.W--
				data = data[:t.W*tlog.HashSize]
			}
		case 7:
			index = -1 - int64(r.Intn(3))
		}
		// the slice handed over has no spare capacity: reading past the tile's width faults
		data = append(make([]byte, 0, len(data)), data...)
		var hh tlog.Hash
		var err error
		p, _ := hx.Guard(func() { hh, err = tlog.HashFromTile(t, data, index) })
		arg := wire.L(gen.TileVal(t), wire.Bytes(data), wire.I(index))
		if !p && err == nil {
			// contract: accepted only if the index lies in this tile, within its width
			msg := c10HashFromTileDomain(t, len(data), index)
			c.Check("hash-from-tile-domain", msg == "", "", c10In{Op: "hftdomain", Tile: &t, Index: index, N: int64(len(data))}, msg)
		}
		{
			msg := ""
			if p && index >= 0 {
				msg = fmt.Sprintf("HashFromTile(%v, %d bytes, %d) panicked", t, len(data), index)
			}
			c.Check("hash-from-tile-no-panic", msg == "", "", c10In{Op: "hftpanic", Tile: &t, Index: index, N: int64(len(data))}, msg)
		}
		switch {
		case p:
			c.Case("HashFromTile", arg, wire.Panic())
			c.Count("hft:panic")
		case err != nil:
			c.Case("HashFromTile", arg, gen.TileErrVal(err))
			c.Count("hft:" + gen.TileErrVal(err).L[1].S)
		default:
			c.Case("HashFromTile", arg, wire.Ok(wire.Bytes(hh[:])))
			c.Count("hft:ok")
			msg := ""
			if c10TileInLog(t, 140) && len(data) >= t.W*tlog.HashSize && bytes.Equal(data[:t.W*tlog.HashSize], small.IndepTile(t)) {
				// data is the true content of t, so an accepted index must give the true hash
				if !(index >= 0 && index < int64(len(small.store)) && hh == small.store[index]) {
					msg = fmt.Sprintf("HashFromTile(%v, true data, %d) is not the true hash", t, index)
				}
			}
			c.Check("hash-from-true-tile", msg == "", "", c10In{Op: "hft", Tile: &t, Index: index}, msg)
		}
	}
	for i := 0; i < c.N(120); i++ {
		n := 1 + r.Intn(40)
		h := 1 + r.Intn(4)
		store := small.Hashes[:small.count[n]]
		t := tlog.Tile{H: h, L: r.Intn(3), W: 1 + r.Intn(1<<uint(h))}
		t.N = int64(r.Intn(1 + n>>uint(h*t.L)>>uint(h)))
		switch r.Intn(8) {
		case 0:
			t.W = 0
		case 1:
			t.N += 3
		case 2:
			t.L = -1
			t.N = 0
		}
		var d []byte
		var err error
		p, _ := hx.Guard(func() { d, err = tlog.ReadTileData(t, gen.StoreReader(store)) })
		arg := wire.L(gen.TileVal(t), gen.HashesVal(store))
		switch {
		case p:
			c.Case("ReadTileData", arg, wire.Panic())
		case err != nil:
			c.Case("ReadTileData", arg, gen.TileErrVal(err))
			c.Count("rtd:err")
		default:
			c.Case("ReadTileData", arg, wire.Ok(wire.Bytes(d)))
			c.Count("rtd:ok")
			if t.L >= 0 && t.W > 0 {
				msg := ""
				if !bytes.Equal(d, small.IndepTile(t)) {
					msg = fmt.Sprintf("ReadTileData(%v) over the true store of %d records is not the RFC 6962 tile", t, n)
				}
				c.Check("read-tile-data-true", msg == "", "", c10In{Op: "rtd", Tile: &t, N: int64(n)}, msg)
			}
		}
	}

	// ---- E. ReadHashes: honest runs, every fetched tile corrupted in turn, pairs
	maxN := 130
	logSize := 140
	if thorough {
		maxN, logSize = 1100, 1100
	}
	l := c10GetLog(1, logSize)
	var cands []c10Cand
	capPer := 12 * c.Scale
	seenCat := map[string]int{}
	slotCat := map[string][]int{}
	var record func(in c10In, run c10Run, cat string)
	do := func(in c10In, cat string) c10Run {
		in.Op = "read"
		_, run := c10Exec(in, logSize)
		msg := c10Oracle(in, l, run)
		c.Check("read-through-tiles-authenticated", msg == "", "", in, msg)
		record(in, run, cat)
		return run
	}
	record = func(in c10In, run c10Run, cat string) {
		cls := c10ResultClass(run)
		c.Count("read:" + cat + ":" + cls)
		c.Count(fmt.Sprintf("read:h=%d", in.H))
		if cls == "ok" && len(in.Faults) > 0 {
			c.Count("read:fault-without-effect")
		}
		if len(run.ftr.Requested) > 0 {
			c.Nontrivial(fmt.Sprintf("read:%d:%d:%v:%v:%v:%d", in.H, in.N, in.Indexes, in.Faults, in.Fail, in.Count))
		}
		if run.panicked && in.N == 0 {
			c.Count("read:size0-panic")
		}
		// reservoir of correspondence candidates per category
		key := fmt.Sprintf("%s:%s:h%d", cat, cls, in.H)
		cost := c10Cost(run)
		if cost <= 600 {
			seenCat[key]++
			if len(slotCat[key]) < capPer {
				arg, res := c10CaseVals(in, run)
				slotCat[key] = append(slotCat[key], len(cands))
				cands = append(cands, c10Cand{arg, res, cost, key})
			} else if j := r.Intn(seenCat[key]); j < capPer {
				arg, res := c10CaseVals(in, run)
				cands[slotCat[key][j]] = c10Cand{arg, res, cost, key}
			}
		}
	}
	heights := []int{1, 2, 3, 4, 5, 6, 7, 8}
	for n := int64(0); n <= int64(maxN); n++ {
		if thorough && n > 260 && r.Intn(6) != 0 {
			continue
		}
		for _, h := range heights {
			total := l.count[n]
			var sets [][]int64
			if n == 0 {
				sets = [][]int64{{}, {0}, {-1}}
			} else {
				if total <= 30 {
					for i := int64(0); i < total; i++ {
						sets = append(sets, []int64{i})
					}
				} else {
					for k := 0; k < 3; k++ {
						sets = append(sets, []int64{r.Int63n(total)})
					}
					sets = append(sets, []int64{0})
				}
				for k := 0; k < 2; k++ {
					set := make([]int64, 2+r.Intn(5))
					for j := range set {
						set[j] = r.Int63n(total)
					}
					sets = append(sets, set)
				}
				// what the client asks for: the tree-hash indexes of a smaller tree
				ms := []int64{n, 1 + r.Int63n(n), 1 + r.Int63n(n)}
				for _, m := range ms {
					sets = append(sets, c10SubTreeIndex(m))
				}
				if r.Intn(8) == 0 {
					sets = append(sets, []int64{total}, []int64{total + int64(r.Intn(5)), 0}, []int64{0, -1}, []int64{})
				}
			}
			for si, set := range sets {
				base := c10In{H: h, N: n, Indexes: set}
				run := do(base, "honest")
				if len(run.ftr.Requested) == 0 || len(run.ftr.Requested[0]) == 0 {
					continue
				}
				tiles := run.ftr.Requested[0]
				allKinds := (int(n)+h+si)%3 == 0 || n <= 20
				for _, t := range tiles {
					for _, kind := range gen.TileFaultKinds {
						if !allKinds && r.Intn(4) != 0 {
							continue
						}
						in := base
						in.Faults = []gen.TileFault{{Tile: t, Kind: kind, Arg: r.Intn(1 << 20)}}
						do(in, kind)
					}
				}
				if r.Intn(3) == 0 && len(tiles) >= 1 {
					in := base
					in.Faults = []gen.TileFault{gen.RandTileFault(r, tiles[r.Intn(len(tiles))]), gen.RandTileFault(r, tiles[r.Intn(len(tiles))])}
					do(in, "pair")
				}
				if r.Intn(12) == 0 {
					in := base
					switch r.Intn(4) {
					case 0:
						in.Fail = true
					case 1:
						in.Count = -1
					case 2:
						in.Count = 1
					case 3:
						h2 := gen.RandHash(r)
						in.Root = hex.EncodeToString(h2[:])
					}
					do(in, "reader")
				}
			}
		}
	}
	// a few tall heights (31 is rejected by HashFromTile)
	for _, h := range []int{10, 16, 30, 31} {
		for k := 0; k < 3; k++ {
			n := int64(1 + r.Intn(60))
			do(c10In{H: h, N: n, Indexes: []int64{r.Int63n(l.count[n])}}, "tall")
		}
	}

	// ---- F. several ReadHashes calls on ONE TileHashReader, the fault injected on a later call
	c10SeqStream(c, l, logSize, maxN, record)

	// correspondence subset within the model's budget (the extracted SHA-256 costs ~1.4 ms per hash)
	budget := 17000 * c.Scale
	r.Shuffle(len(cands), func(i, j int) { cands[i], cands[j] = cands[j], cands[i] })
	spent := 0
	for i := range cands {
		cd := &cands[i]
		if spent+cd.cost > budget {
			continue
		}
		c.Case("ReadHashes", cd.arg, cd.res)
		spent += cd.cost
	}
	c.Count(fmt.Sprintf("read:model-budget-spent=%d", spent))
}

// HashFromTile(t, data, index) may succeed only if t is a valid hash tile, data holds its W
// entries, and the hash at index is computable from the first W entries of exactly this tile.
func c10HashFromTileDomain(t tlog.Tile, dataLen int, index int64) string {
	if t.H < 1 || t.H > 30 || t.L < 0 || t.L >= 64 || t.W < 1 || t.W > 1<<uint(t.H) {
		return fmt.Sprintf("HashFromTile accepted the invalid tile %v", t)
	}
	if dataLen < t.W*tlog.HashSize {
		return fmt.Sprintf("HashFromTile(%v) accepted %d bytes of data", t, dataLen)
	}
	if index < 0 {
		return fmt.Sprintf("HashFromTile(%v) accepted index %d", t, index)
	}
	st, ok := c10SpecTileForIndex(t.H, index)
	if !ok || st.L != t.L || st.N != t.N || st.W > t.W {
		return fmt.Sprintf("HashFromTile(%v, _, %d) succeeded, but the hash lies in %v (width needed %d)", t, index, st, st.W)
	}
	return ""
}

func c10TileInLog(t tlog.Tile, size int64) bool {
	return t.H >= 1 && t.H <= 30 && t.L >= 0 && t.L*t.H < 40 && t.N >= 0 && t.W >= 1 && t.W <= 1<<uint(t.H) &&
		(t.N<<uint(t.H)+int64(t.W))<<uint(t.H*t.L) <= size
}

func bucket(n int) int {
	b := 1
	for b < n {
		b *= 4
	}
	return b
}

// the stored-hash indexes of the maximal complete subtrees of [0, m): what TreeHash reads.
// Independent of tlog.subTreeIndex: by the binary expansion of m.
func c10SubTreeIndex(m int64) []int64 {
	var out []int64
	lo := int64(0)
	for b := 62; b >= 0; b-- {
		if m&(1<<uint(b)) != 0 {
			out = append(out, tlog.StoredHashIndex(b, lo>>uint(b)))
			lo += 1 << uint(b)
		}
	}
	return out
}

func replayC10(raw json.RawMessage) (bool, string) {
	var in c10In
	if err := json.Unmarshal(raw, &in); err != nil {
		return false, err.Error()
	}
	var msg string
	switch in.Op {
	case "read":
		size := 140
		if in.N > 140 {
			size = 1100
		}
		l, run := c10Exec(in, size)
		msg = c10Oracle(in, l, run)
	case "readseq":
		size := 140
		if in.N > 140 {
			size = 1100
		}
		l, runs := c10ExecSeq(in.H, in.N, in.Calls, size)
		for k, run := range runs {
			if m := c10Oracle(c10CallIn(in.H, in.N, in.Calls[k]), l, run); m != "" {
				msg = fmt.Sprintf("call %d of %d on one reader: %s", k+1, len(runs), m)
				break
			}
		}
	case "tfi":
		t := tlog.TileForIndex(in.H, in.Index)
		if st, ok := c10SpecTileForIndex(in.H, in.Index); !ok || st != t {
			msg = fmt.Sprintf("TileForIndex(%d,%d)=%v, least-width tile is %v", in.H, in.Index, t, st)
		}
	case "path":
		b, _ := hex.DecodeString(in.PathHex)
		msg = c10PathOracle(string(b))
	case "tile":
		msg = c10TileOracle(*in.Tile)
	case "sufficiency":
		msg = c10Sufficiency(in.H, in.Sizes, rand.New(rand.NewSource(1)))
	case "hft":
		small := c10GetLog(1, 140)
		t := *in.Tile
		if !c10TileInLog(t, 140) {
			return true, "tile outside the replay log"
		}
		hh, err := tlog.HashFromTile(t, small.IndepTile(t), in.Index)
		if err == nil && !(in.Index >= 0 && in.Index < int64(len(small.store)) && hh == small.store[in.Index]) {
			msg = fmt.Sprintf("HashFromTile(%v, true data, %d) is not the true hash", t, in.Index)
		}
	case "hftdomain":
		t := *in.Tile
		data := make([]byte, in.N)
		var err error
		p, _ := hx.Guard(func() { _, err = tlog.HashFromTile(t, data, in.Index) })
		if !p && err == nil {
			msg = c10HashFromTileDomain(t, int(in.N), in.Index)
		}
	case "hftpanic":
		t := *in.Tile
		data := make([]byte, in.N)
		p, pm := hx.Guard(func() { tlog.HashFromTile(t, data, in.Index) })
		if p {
			msg = fmt.Sprintf("HashFromTile(%v, %d bytes, %d) panicked: %s", t, in.N, in.Index, pm)
		}
	case "rtd":
		small := c10GetLog(1, 140)
		d, err := tlog.ReadTileData(*in.Tile, gen.StoreReader(small.Hashes[:small.count[in.N]]))
		if err == nil && !bytes.Equal(d, small.IndepTile(*in.Tile)) {
			msg = fmt.Sprintf("ReadTileData(%v) over the true store of %d records is not the RFC 6962 tile", *in.Tile, in.N)
		}
	}
	return msg == "", msg
}
