package props

// B01 is an auxiliary check (not a numbered property of golang/mod): it ties the SERVER model
// coq/Client/Server.v (sumdb.Server.ServeHTTP over sumdb.TestServer) to the implementation.
// A case is a SESSION: a gosum table, and a list of steps run against ONE
// sumdb.NewServer(sumdb.NewTestServer(key, gosum)) through net/http/httptest (no network):
//   get  <url path>    one request; observed: status, content type class, body (200 only)
//   grow <path> <vers> TestServer.Lookup called directly (cheap log growth)
// The same session is run through the extracted model and the results must be identical.
// The tree heads are signed by the server with Ed25519; the model gets the table
// (text -> ed25519.Sign(text)) computed here with crypto/ed25519 for every tree text seen.
//
// Independent oracles (no Coq model involved), each with a replayable session:
//   lookup-honest   a 200 lookup response is "<id>\n<text>\n<signed note>" with text = the gosum
//                   data of the (independently unescaped) module version, id = its record number
//                   in this harness's own bookkeeping, the note = RFC 6962 root (gen.Rfc6962) of
//                   all records so far, size = their number > id, Ed25519 signature valid
//   latest-honest   same for /latest
//   tile-honest     a hash tile inside the current tree is served (200) with exactly the
//                   RFC 6962 subtree hashes computed independently
//   data-honest     a data tile inside the current log is the concatenation of text+"\n"
//   status          regex-rejected lookups are 400, unknown endpoints 404, no panic for any
//                   request other than a hash tile reaching outside the stored hashes

import (
	"bytes"
	"context"
	"crypto/ed25519"
	"encoding/base64"
	"encoding/binary"
	"encoding/hex"
	"encoding/json"
	"errors"
	"fmt"
	"io/fs"
	"math/rand"
	"net/http"
	"net/http/httptest"
	"net/url"
	"os"
	"regexp"
	"strconv"
	"strings"
	"syscall"

	"golang.org/x/mod/module"
	"golang.org/x/mod/sumdb"
	"golang.org/x/mod/sumdb/tlog"

	"verif/harness/gen"
	"verif/harness/hx"
	"verif/harness/wire"
)

func init() { hx.Register(&hx.Prop{ID: "B01", Run: runB01, Replay: replayB01}) }

// ---- sessions ---------------------------------------------------------------------------

type b01Gosum struct {
	Path, Vers string // hex in JSON (see MarshalJSON of b01Session)
	Kind       int    // 0 data, 1 os.ErrNotExist, 2 *fs.PathError{ENOENT}, 3 fmt.Errorf("%w", ErrNotExist), 4 errors.New, 5 panic
	Data       string
}

type b01Step struct {
	Kind string // "get" | "grow"
	A, B string // get: A = url path; grow: A = module path, B = version
}

type b01Session struct {
	Gosum []b01Gosum
	Steps []b01Step
}

type b01JSON struct {
	Gosum [][4]string `json:"gosum"` // hex path, hex vers, kind, hex data
	Steps [][3]string `json:"steps"` // kind, hex a, hex b
}

func (s b01Session) toJSON() b01JSON {
	var j b01JSON
	for _, g := range s.Gosum {
		j.Gosum = append(j.Gosum, [4]string{hex.EncodeToString([]byte(g.Path)), hex.EncodeToString([]byte(g.Vers)), strconv.Itoa(g.Kind), hex.EncodeToString([]byte(g.Data))})
	}
	for _, st := range s.Steps {
		j.Steps = append(j.Steps, [3]string{st.Kind, hex.EncodeToString([]byte(st.A)), hex.EncodeToString([]byte(st.B))})
	}
	return j
}

func b01FromJSON(j b01JSON) b01Session {
	unhex := func(s string) string { b, _ := hex.DecodeString(s); return string(b) }
	var s b01Session
	for _, g := range j.Gosum {
		k, _ := strconv.Atoi(g[2])
		s.Gosum = append(s.Gosum, b01Gosum{unhex(g[0]), unhex(g[1]), k, unhex(g[3])})
	}
	for _, st := range j.Steps {
		s.Steps = append(s.Steps, b01Step{st[0], unhex(st[1]), unhex(st[2])})
	}
	return s
}

// one observed step
type b01Obs struct {
	Panic  bool
	Status int    // get
	CType  int    // get, 200 only: 0 text, 1 octet, 9 other
	Body   []byte // get, 200 only
	ID     int64  // grow ok
	ErrCls string // grow error: "notexist" | "fail"
}

func (o b01Obs) val(kind string) wire.Val {
	if o.Panic {
		return wire.Panic()
	}
	if kind == "grow" {
		if o.ErrCls != "" {
			return wire.Err(o.ErrCls)
		}
		return wire.Ok(wire.I(o.ID))
	}
	if o.Status == 200 {
		return wire.L(wire.Int(200), wire.Int(o.CType), wire.Bytes(o.Body))
	}
	return wire.L(wire.Int(o.Status))
}

var b01CleanPath = regexp.MustCompile(`^/[A-Za-z0-9._~!@+/-]*$`)

func b01GosumFunc(table []b01Gosum) func(path, vers string) ([]byte, error) {
	return func(path, vers string) ([]byte, error) {
		for _, g := range table {
			if g.Path == path && g.Vers == vers {
				switch g.Kind {
				case 0:
					return []byte(g.Data), nil
				case 1:
					return nil, os.ErrNotExist
				case 2:
					return nil, &fs.PathError{Op: "open", Path: path, Err: syscall.ENOENT}
				case 3:
					return nil, fmt.Errorf("gosum: %w", os.ErrNotExist)
				case 4:
					return nil, errors.New("gosum: backend unavailable")
				default:
					panic("gosum: callback panics")
				}
			}
		}
		return nil, os.ErrNotExist
	}
}

// b01RunSession runs the steps against a fresh real server.
func b01RunSession(s b01Session) []b01Obs {
	key, _ := gen.SumKeys()
	ts := sumdb.NewTestServer(key.SKey, b01GosumFunc(s.Gosum))
	srv := sumdb.NewServer(ts)
	obs := make([]b01Obs, len(s.Steps))
	for i, st := range s.Steps {
		var o b01Obs
		if st.Kind == "grow" {
			p, msg := hx.Guard(func() {
				id, err := ts.Lookup(context.Background(), module.Version{Path: st.A, Version: st.B})
				if err != nil {
					if os.IsNotExist(err) {
						o.ErrCls = "notexist"
					} else {
						o.ErrCls = "fail"
					}
					return
				}
				o.ID = id
			})
			_ = msg
			o.Panic = p
		} else {
			p, _ := hx.Guard(func() {
				var req *http.Request
				if b01CleanPath.MatchString(st.A) {
					req = httptest.NewRequest("GET", "http://sum.test"+st.A, nil)
				} else {
					req = &http.Request{Method: "GET", URL: &url.URL{Path: st.A}, Header: http.Header{}}
				}
				rec := httptest.NewRecorder()
				srv.ServeHTTP(rec, req)
				o.Status = rec.Code
				if rec.Code == 200 {
					switch rec.Header().Get("Content-Type") {
					case "text/plain; charset=UTF-8":
						o.CType = 0
					case "application/octet-stream":
						o.CType = 1
					default:
						o.CType = 9
					}
					o.Body = append([]byte(nil), rec.Body.Bytes()...)
				}
			})
			if p {
				o = b01Obs{Panic: true}
			}
		}
		obs[i] = o
	}
	return obs
}

// ---- independent bookkeeping and oracles ----------------------------------------------------

var b01ModVer = regexp.MustCompile(`^[^@]+@v[0-9]+\.[0-9]+\.[0-9]+(-[^@]*)?(\+incompatible)?$`)

// independent inverse of the !-escaping (ASCII only): ok=false when the string is not an escape
func b01Unescape(s string) (string, bool) {
	var b strings.Builder
	for i := 0; i < len(s); i++ {
		c := s[i]
		switch {
		case c >= 0x80 || ('A' <= c && c <= 'Z'):
			return "", false
		case c == '!':
			i++
			if i >= len(s) || s[i] < 'a' || s[i] > 'z' {
				return "", false
			}
			b.WriteByte(s[i] - 32)
		default:
			b.WriteByte(c)
		}
	}
	return b.String(), true
}

type b01Mirror struct {
	table   []b01Gosum
	ids     map[string]int64
	records [][]byte
	rfc     *gen.Rfc6962
	sigs    map[string][]byte // tree text -> ed25519 signature
	order   []string
}

func (m *b01Mirror) gosum(path, vers string) (string, int) {
	for _, g := range m.table {
		if g.Path == path && g.Vers == vers {
			return g.Data, g.Kind
		}
	}
	return "", 1
}

// lookup mirrors what an honest log does with a lookup of (path, vers): (id, appended, ok)
func (m *b01Mirror) lookup(path, vers string) (int64, bool) {
	key := path + "@" + vers
	if vers == "" {
		key = path
	}
	if id, ok := m.ids[key]; ok {
		return id, true
	}
	data, kind := m.gosum(path, vers)
	if kind != 0 {
		return 0, false
	}
	id := int64(len(m.records))
	m.ids[key] = id
	m.records = append(m.records, []byte(data))
	m.rfc.Leaves = append(m.rfc.Leaves, []byte(data))
	return id, true
}

func (m *b01Mirror) treeText() string {
	n := len(m.records)
	h := m.rfc.Root(n)
	return fmt.Sprintf("go.sum database tree\n%d\n%s\n", n, base64.StdEncoding.EncodeToString(h[:]))
}

// sign records (and returns) the expected signed note for the current tree
func (m *b01Mirror) signedNote() []byte {
	key, _ := gen.SumKeys()
	text := m.treeText()
	sig, ok := m.sigs[text]
	if !ok {
		sig = ed25519.Sign(ed25519.NewKeyFromSeed(key.Seed), []byte(text))
		m.sigs[text] = sig
		m.order = append(m.order, text)
	}
	var hb [4]byte
	binary.BigEndian.PutUint32(hb[:], key.Hash)
	return []byte(text + "\n— " + key.Name + " " + base64.StdEncoding.EncodeToString(append(hb[:], sig...)) + "\n")
}

func b01ValidText(text []byte) bool {
	// the documented record text: UTF-8 without control characters other than newline, ends in
	// newline, no two consecutive newlines
	if len(text) == 0 || text[len(text)-1] != '\n' || bytes.Contains(text, []byte("\n\n")) {
		return false
	}
	for _, r := range string(text) {
		if (r < 0x20 && r != '\n') || r == 0xFFFD {
			return false
		}
	}
	return true
}

// b01Check evaluates the oracles on one observed session and returns the signature table in
// the order the texts were first signed.
func b01Check(report func(oracle string, ok bool, observed string), count func(string), s b01Session, obs []b01Obs) [][2]string {
	m := &b01Mirror{table: s.Gosum, ids: map[string]int64{}, rfc: gen.NewRfc6962(nil), sigs: map[string][]byte{}}
	fail := func(oracle string, i int, why string) {
		report(oracle, false, fmt.Sprintf("step %d (%s %q %q): %s", i, s.Steps[i].Kind, s.Steps[i].A, s.Steps[i].B, why))
	}
	pass := func(oracle string) { report(oracle, true, "") }
	for i, st := range s.Steps {
		o := obs[i]
		if st.Kind == "grow" {
			id, ok := m.lookup(st.A, st.B)
			_, kind := m.gosum(st.A, st.B)
			switch {
			case ok && (o.Panic || o.ErrCls != "" || o.ID != id):
				fail("grow-honest", i, fmt.Sprintf("want id %d, got %+v", id, o))
			case !ok && kind != 5 && (o.Panic || o.ErrCls == ""):
				fail("grow-honest", i, fmt.Sprintf("want an error, got %+v", o))
			default:
				pass("grow-honest")
			}
			continue
		}
		p := st.A
		switch {
		case strings.HasPrefix(p, "/lookup/"):
			mod := p[len("/lookup/"):]
			if !b01ModVer.MatchString(mod) {
				count("lookup:regex-reject")
				if o.Panic || o.Status != 400 {
					fail("status", i, fmt.Sprintf("regex-rejected lookup: want 400, got %+v", o.Status))
				} else {
					pass("status")
				}
				continue
			}
			at := strings.Index(mod, "@")
			path, ok1 := b01Unescape(mod[:at])
			vers, ok2 := b01Unescape(mod[at+1:])
			if !ok1 || !ok2 || module.CheckPath(path) != nil {
				count("lookup:bad-escape-or-path")
				if o.Panic || o.Status == 200 {
					fail("status", i, fmt.Sprintf("bad escape or path: want an error status, got %+v", o.Status))
				} else {
					pass("status")
				}
				continue
			}
			if strings.ContainsAny(vers, "\n\\/<>:\"|?*\x00") || !b01PrintableASCII(vers) || strings.HasSuffix(vers, ".") {
				// versions checkElem may refuse: no expectation beyond "no panic"
				count("lookup:odd-version")
				if o.Panic {
					fail("status", i, "panic")
				}
				if o.Status == 200 {
					m.lookup(path, vers)
				}
				continue
			}
			data, kind := m.gosum(path, vers)
			_, known := m.ids[path+"@"+vers]
			if !known && kind == 5 {
				count("lookup:gosum-panics")
				continue // the callback panics: a panic is the expected outcome
			}
			id, ok := m.lookup(path, vers)
			if !ok {
				count("lookup:gosum-error")
				want := 500
				if kind == 1 || kind == 2 {
					want = 404
				}
				if o.Panic || o.Status != want {
					fail("status", i, fmt.Sprintf("gosum error kind %d: want %d, got %+v", kind, want, o.Status))
				} else {
					pass("status")
				}
				continue
			}
			text := m.records[id]
			_ = data
			if !b01ValidText(text) {
				count("lookup:invalid-record-text")
				if o.Panic || o.Status != 500 {
					fail("status", i, fmt.Sprintf("invalid record text: want 500, got %+v", o.Status))
				} else {
					pass("status")
				}
				continue
			}
			count("lookup:ok")
			want := append([]byte(fmt.Sprintf("%d\n%s\n", id, text)), m.signedNote()...)
			if o.Panic || o.Status != 200 || o.CType != 0 || !bytes.Equal(o.Body, want) || id >= int64(len(m.records)) {
				fail("lookup-honest", i, fmt.Sprintf("want 200 %q, got %d %q", want, o.Status, o.Body))
			} else {
				pass("lookup-honest")
			}
		case p == "/latest":
			want := m.signedNote()
			if o.Panic || o.Status != 200 || o.CType != 0 || !bytes.Equal(o.Body, want) {
				fail("latest-honest", i, fmt.Sprintf("want 200 %q, got %d %q", want, o.Status, o.Body))
			} else {
				pass("latest-honest")
			}
		case strings.HasPrefix(p, "/tile/"):
			t, ok := b01ParseTile(p[1:])
			if !ok {
				count("tile:unparsed")
				if o.Panic || o.Status == 200 {
					fail("status", i, fmt.Sprintf("non-canonical tile path: want an error status, got %+v", o.Status))
				} else {
					pass("status")
				}
				continue
			}
			n := int64(len(m.records))
			if t.L == -1 {
				lo := t.N << uint(t.H)
				if lo+int64(t.W) > n {
					count("tile:data-out-of-range")
					if o.Panic || o.Status == 200 {
						fail("status", i, fmt.Sprintf("data tile outside the log: want an error status, got %+v", o.Status))
					} else {
						pass("status")
					}
					continue
				}
				var want []byte
				valid := true
				for j := lo; j < lo+int64(t.W); j++ {
					valid = valid && b01ValidText(m.records[j])
					want = append(want, m.records[j]...)
					want = append(want, '\n')
				}
				if !valid {
					count("tile:data-invalid-text")
					if o.Panic || o.Status != 500 {
						fail("status", i, fmt.Sprintf("data tile over an invalid record: want 500, got %+v", o.Status))
					} else {
						pass("status")
					}
					continue
				}
				count("tile:data-ok")
				if o.Panic || o.Status != 200 || o.CType != 0 || !bytes.Equal(o.Body, want) {
					fail("data-honest", i, fmt.Sprintf("want 200 %q, got %d %q", want, o.Status, o.Body))
				} else {
					pass("data-honest")
				}
				continue
			}
			// hash tile: entries (N<<H + j) at level H*L
			lvl := uint(t.H * t.L)
			if t.H*t.L > 40 || ((t.N<<uint(t.H))+int64(t.W))<<lvl > n {
				count("tile:hash-out-of-range")
				if !o.Panic {
					count("tile:hash-out-of-range-no-panic")
				}
				if !o.Panic && o.Status == 200 {
					fail("status", i, "hash tile outside the tree served with 200")
				}
				continue
			}
			var want []byte
			for j := int64(0); j < int64(t.W); j++ {
				e := t.N<<uint(t.H) + j
				h := m.rfc.MTH(int(e<<lvl), int((e+1)<<lvl))
				want = append(want, h[:]...)
			}
			count(fmt.Sprintf("tile:hash-ok-h%d", t.H))
			if t.W != 1<<uint(t.H) {
				count("tile:hash-ok-partial")
			}
			if t.L > 0 {
				count("tile:hash-ok-upper-level")
			}
			if o.Panic || o.Status != 200 || o.CType != 1 || !bytes.Equal(o.Body, want) {
				fail("tile-honest", i, fmt.Sprintf("want 200 %x, got %d %x", want, o.Status, o.Body))
			} else {
				pass("tile-honest")
			}
		default:
			count("junk")
			if o.Panic || o.Status != 404 {
				fail("status", i, fmt.Sprintf("unknown endpoint: want 404, got %+v", o.Status))
			} else {
				pass("status")
			}
		}
	}
	var out [][2]string
	for _, text := range m.order {
		out = append(out, [2]string{text, string(m.sigs[text])})
	}
	return out
}

func b01PrintableASCII(s string) bool {
	for i := 0; i < len(s); i++ {
		if s[i] < 0x21 || s[i] > 0x7e {
			return false
		}
	}
	return true
}

// b01ParseTile is an independent strict parser of canonical tile paths "tile/H/L/NNN[.p/W]".
func b01ParseTile(p string) (tlog.Tile, bool) {
	f := strings.Split(p, "/")
	if len(f) < 4 || f[0] != "tile" {
		return tlog.Tile{}, false
	}
	canon := func(s string) (int, bool) {
		n, err := strconv.Atoi(s)
		return n, err == nil && strconv.Itoa(n) == s
	}
	h, ok := canon(f[1])
	if !ok || h < 1 || h > 30 {
		return tlog.Tile{}, false
	}
	l := -1
	if f[2] != "data" {
		l, ok = canon(f[2])
		if !ok || l < 0 {
			return tlog.Tile{}, false
		}
	}
	rest := f[3:]
	w := 1 << uint(h)
	if len(rest) >= 2 && strings.HasSuffix(rest[len(rest)-2], ".p") {
		w, ok = canon(rest[len(rest)-1])
		if !ok || w < 1 || w >= 1<<uint(h) {
			return tlog.Tile{}, false
		}
		rest = append(append([]string{}, rest[:len(rest)-2]...), strings.TrimSuffix(rest[len(rest)-2], ".p"))
	}
	var n int64
	for i, s := range rest {
		last := i == len(rest)-1
		if !last {
			if !strings.HasPrefix(s, "x") {
				return tlog.Tile{}, false
			}
			s = s[1:]
		}
		if len(s) != 3 || strings.Trim(s, "0123456789") != "" {
			return tlog.Tile{}, false
		}
		d, _ := strconv.Atoi(s)
		if i == 0 && len(rest) > 1 && d == 0 {
			return tlog.Tile{}, false
		}
		if n > (1<<40) {
			return tlog.Tile{}, false
		}
		n = n*1000 + int64(d)
	}
	return tlog.Tile{H: h, L: l, N: n, W: w}, true
}

// ---- emitting a session ------------------------------------------------------------------------

func b01Emit(c *hx.Ctx, tag string, s b01Session) {
	obs := b01RunSession(s)
	sigs := b01Check(func(oracle string, ok bool, observed string) {
		if ok {
			c.Check(oracle, true, "", nil, "")
		} else {
			c.Check(oracle, false, "", s.toJSON(), observed)
		}
	}, c.Count, s, obs)
	key, _ := gen.SumKeys()
	var sv, gv, stv, rv []wire.Val
	for _, p := range sigs {
		sv = append(sv, wire.L(wire.S(p[0]), wire.S(p[1])))
	}
	for _, g := range s.Gosum {
		gv = append(gv, wire.L(wire.S(g.Path), wire.S(g.Vers), wire.Int(g.Kind), wire.S(g.Data)))
	}
	npanic := 0
	for i, st := range s.Steps {
		if st.Kind == "grow" {
			stv = append(stv, wire.L(wire.S("grow"), wire.S(st.A), wire.S(st.B)))
		} else {
			stv = append(stv, wire.L(wire.S("get"), wire.S(st.A)))
			c.Nontrivial("get:" + tag + ":" + st.A + ":" + strconv.Itoa(obs[i].Status))
			if obs[i].Panic {
				c.Count("get:panic")
				npanic++
			} else {
				c.Count("get:status-" + strconv.Itoa(obs[i].Status))
			}
		}
		rv = append(rv, obs[i].val(st.Kind))
	}
	c.Count("session:" + tag)
	c.Case("Session", wire.L(wire.S(key.Name), wire.I(int64(key.Hash)), wire.L(sv...), wire.L(gv...), wire.L(stv...)), wire.L(rv...))
}

// ---- generators ------------------------------------------------------------------------------------

var b01Paths = []string{"a.test/b", "a.test/B", "ex.test/Mod", "Ex.test/m", "golang.org/x/mod", "github.com/Azure/azure-sdk", "a.test/b/v2", "x.test/UPPER", "a.test/b-c", "a.test/b_c", "a.test/b~c", "gopkg.in/yaml.v2"}
var b01BadPaths = []string{"a", "test", "a..test/b", "a.test/", "/a.test", "a.test//b", "a.test/b.", ".a.test/b", "a.test/con", "a.test/b c", "a.test/b:c", "-a.test/b", "a.test/b@c", "a.test/b!c", "a.test/é", "a.test/b\x00"}
var b01Vers = []string{"v1.0.0", "v0.0.1", "v1.2.3", "v2.0.0+incompatible", "v1.0.0-pre", "v1.0.0-RC1", "v0.0.0-20190101000000-abcdef012345", "v1.0.0-Alpha.1", "v10.20.30", "v01.02.03", "v1.0.0-x+incompatible", "v1.0.0-", "v1.2.3-pre.1+incompatible"}
var b01BadVers = []string{"v1", "v1.0", "1.0.0", "v1.0.0+foo", "v1.0.0+incompatiblex", "v1.0.0.0", "v1.0.0x", "V1.0.0", "v1.0.a", "v.0.0", "v1..0", "", "v1.0.0-a@b", "v1.0.0\n", "v1.0.0+", "v1.0.0+incompatible+incompatible", "v1.0.0-a/b", "v1.0.0-a\nb", "v1.0.0-a b", "v1.0.0-\xff", "v1.0.0-é", "v1.0.0-a\\b", "v1.0.0-a:b", "v1.0.0-!", "v1.0.0-!1", "v1.0.0-a!", "v1.0.0-."}

func b01Text(path, vers string, r *rand.Rand) string {
	t := fmt.Sprintf("%s %s h1:%s\n%s %s/go.mod h1:%s\n", path, vers, b01Tok(r), path, vers, b01Tok(r))
	return t
}

func b01Tok(r *rand.Rand) string {
	b := make([]byte, 6)
	r.Read(b)
	return base64.StdEncoding.EncodeToString(b)
}

var b01BadTexts = []string{"", "no newline", "\n", "a\n\nb\n", "\nx\n", "ctl\x01\n", "bad\xffutf\n", "tab\tx\n", "cr\r\n", "x\n\n"}

func b01Junk(r *rand.Rand) string {
	fixed := []string{"", "/", "/lookup", "/latest/", "/latestx", "/latest/x", "/tile", "/Lookup/a.test/b@v1.0.0", "lookup/a.test/b@v1.0.0", "/tiles/8/0/000", "//latest", "/lookup/", "/LATEST", "/index.html", "/tile/", "latest", "/lookup/@v1.0.0", "/lookup/a@", "/lookup/@"}
	if r.Intn(3) > 0 {
		return fixed[r.Intn(len(fixed))]
	}
	b := make([]byte, r.Intn(12))
	r.Read(b)
	return "/" + string(b)
}

func b01TilePath(t tlog.Tile) string {
	if t.L == -1 {
		u := t
		u.L = 0
		return "/" + strings.Replace(gen.SumTilePath(u), fmt.Sprintf("tile/%d/0/", t.H), fmt.Sprintf("tile/%d/data/", t.H), 1)
	}
	return "/" + gen.SumTilePath(t)
}

var b01OddTiles = []string{"/tile/08/0/000", "/tile/8/00/000", "/tile/8/0/0", "/tile/8/0/00", "/tile/8/0/0000", "/tile/8/0/x000", "/tile/8/0/x000/000", "/tile/8/0/x001/000", "/tile/8/0/001/000",
	"/tile/8/0/000.p/0", "/tile/8/0/000.p/256", "/tile/8/0/000.p/255", "/tile/8/0/000.p/01", "/tile/8/0/000.p/-1", "/tile/8/0/000.p/", "/tile/8/0/000.p", "/tile/8/0/.p/1", "/tile/8/0/000.q/1",
	"/tile/31/0/000", "/tile/30/0/000.p/1", "/tile/0/0/000", "/tile/-1/0/000", "/tile/8/-1/000", "/tile/8/-0/000", "/tile/8/+0/000", "/tile/+8/0/000", "/tile/8/data/000", "/tile/8/data/000.p/1", "/tile/8/Data/000",
	"/tile/8/0/000/", "/tile/8/0", "/tile/8", "/tile/8/0/", "/tile//0/000", "/tile/8//000", "/tile/8/0/1000", "/tile/8/0/x1/000", "/tile/8/0/x001/x000", "/tile/8/0/x999/999", "/tile/8/1/000", "/tile/8/63/000.p/1",
	"/tile/8/64/000.p/1", "/tile/2/0/000.p/4", "/tile/2/0/000.p/3", "/tile/1/0/000.p/1", "/tile/1/0/000.p/2", "/tile/8/0/000.p/1x", "/tile/8/0/000.p/1/", "/tile/8x/0/000", "/tile/8/0x/000", "/tile/a/0/000", "/tile/8/0/abc", "/tile/8/0/-01"}

// the tiles (hash tiles and the data tile) that change when the log grows from n-1 to n
func b01NewTiles(h int, n int64) []tlog.Tile {
	var out []tlog.Tile
	for L := 0; n>>uint(h*L) > 0; L++ {
		cnt := n >> uint(h*L)
		if (n-1)>>uint(h*L) == cnt {
			break
		}
		N := (cnt - 1) >> uint(h)
		w := int(cnt - N<<uint(h))
		out = append(out, tlog.Tile{H: h, L: L, N: N, W: w})
		if L == 0 {
			out = append(out, tlog.Tile{H: h, L: -1, N: N, W: w})
		}
	}
	return out
}

func runB01(c *hx.Ctx) {
	r := c.Rng

	// (0) the regular expression alone
	for i := 0; i < c.N(1500); i++ {
		var s string
		switch r.Intn(5) {
		case 0:
			s = gen.SumEscape(b01Paths[r.Intn(len(b01Paths))]) + "@" + gen.SumEscape(b01Vers[r.Intn(len(b01Vers))])
		case 1:
			s = b01Paths[r.Intn(len(b01Paths))] + "@" + b01BadVers[r.Intn(len(b01BadVers))]
		case 2:
			s = b01BadPaths[r.Intn(len(b01BadPaths))] + "@" + b01Vers[r.Intn(len(b01Vers))]
		default:
			s = b01Paths[r.Intn(len(b01Paths))] + "@" + b01Vers[r.Intn(len(b01Vers))]
			b := []byte(s)
			for k := r.Intn(3) + 1; k > 0 && len(b) > 0; k-- {
				j := r.Intn(len(b))
				switch r.Intn(4) {
				case 0:
					b = append(b[:j], b[j+1:]...)
				case 1:
					b[j] = "@v.-+0aZ!\n/"[r.Intn(11)]
				case 2:
					b = append(b[:j], append([]byte{"@v.-+09"[r.Intn(7)]}, b[j:]...)...)
				default:
					b[j] = byte(r.Intn(256))
				}
			}
			s = string(b)
		}
		ok := b01ModVer.MatchString(s)
		c.Case("ModVer", wire.S(s), wire.Bool(ok))
		c.Count(fmt.Sprintf("modver:%v", ok))
	}

	// (1) single requests to a fresh server
	for i := 0; i < c.N(900); i++ {
		var s b01Session
		tag := ""
		switch k := r.Intn(10); {
		case k < 3: // valid lookups, all gosum kinds, bad record texts
			path, vers := b01Paths[r.Intn(len(b01Paths))], b01Vers[r.Intn(len(b01Vers))]
			kind := 0
			if r.Intn(3) == 0 {
				kind = r.Intn(6)
			}
			data := b01Text(path, vers, r)
			if r.Intn(5) == 0 {
				data = b01BadTexts[r.Intn(len(b01BadTexts))]
			}
			if r.Intn(8) > 0 {
				s.Gosum = []b01Gosum{{path, vers, kind, data}}
			}
			s.Steps = []b01Step{{"get", "/lookup/" + gen.SumEscape(path) + "@" + gen.SumEscape(vers), ""}}
			tag = "single-lookup"
		case k < 4: // escaping errors: unescaped upper case, stray '!', bad paths
			path, vers := b01Paths[r.Intn(len(b01Paths))], b01Vers[r.Intn(len(b01Vers))]
			s.Gosum = []b01Gosum{{path, vers, 0, b01Text(path, vers, r)}}
			ep, ev := gen.SumEscape(path), gen.SumEscape(vers)
			switch r.Intn(6) {
			case 0:
				ep = path
			case 1:
				ev = vers
			case 2:
				ep = ep + "!"
			case 3:
				ep = strings.Replace(ep, "!", "!!", 1)
			case 4:
				ep = strings.Replace(ep+"!b", "!", "!1", 1)
			default:
				ev = ev + "!"
			}
			s.Steps = []b01Step{{"get", "/lookup/" + ep + "@" + ev, ""}}
			tag = "single-escape"
		case k < 5:
			path := b01BadPaths[r.Intn(len(b01BadPaths))]
			vers := b01Vers[r.Intn(len(b01Vers))]
			s.Gosum = []b01Gosum{{path, vers, 0, b01Text("a.test/b", vers, r)}}
			s.Steps = []b01Step{{"get", "/lookup/" + gen.SumEscape(path) + "@" + gen.SumEscape(vers), ""}}
			tag = "single-badpath"
		case k < 6:
			path := b01Paths[r.Intn(len(b01Paths))]
			vers := b01BadVers[r.Intn(len(b01BadVers))]
			s.Gosum = []b01Gosum{{path, vers, 0, b01Text(path, "v1.0.0", r)}}
			s.Steps = []b01Step{{"get", "/lookup/" + gen.SumEscape(path) + "@" + vers, ""}}
			tag = "single-badvers"
		case k < 7:
			s.Steps = []b01Step{{"get", b01Junk(r), ""}}
			tag = "single-junk"
		case k < 9:
			s.Steps = []b01Step{{"get", b01OddTiles[r.Intn(len(b01OddTiles))], ""}}
			tag = "single-oddtile"
		default:
			s.Steps = []b01Step{{"get", "/latest", ""}}
			tag = "single-latest"
		}
		b01Emit(c, tag, s)
	}

	// (2) small mixed sessions
	for i := 0; i < c.N(120); i++ {
		var s b01Session
		nmods := 2 + r.Intn(10)
		type mv struct{ p, v string }
		var mods []mv
		for j := 0; j < nmods; j++ {
			m := mv{b01Paths[r.Intn(len(b01Paths))], b01Vers[r.Intn(len(b01Vers))]}
			kind := 0
			if r.Intn(8) == 0 {
				kind = 1 + r.Intn(5)
			}
			data := b01Text(m.p, m.v, r)
			if r.Intn(12) == 0 {
				data = b01BadTexts[r.Intn(len(b01BadTexts))]
			}
			s.Gosum = append(s.Gosum, b01Gosum{m.p, m.v, kind, data})
			mods = append(mods, m)
		}
		size := int64(0)
		for j := 0; j < 6+r.Intn(14); j++ {
			switch k := r.Intn(12); {
			case k < 5:
				m := mods[r.Intn(len(mods))]
				s.Steps = append(s.Steps, b01Step{"get", "/lookup/" + gen.SumEscape(m.p) + "@" + gen.SumEscape(m.v), ""})
				size++
			case k < 6:
				m := mods[r.Intn(len(mods))]
				s.Steps = append(s.Steps, b01Step{"grow", m.p, m.v})
				size++
			case k < 7:
				s.Steps = append(s.Steps, b01Step{"get", "/latest", ""})
			case k < 8:
				s.Steps = append(s.Steps, b01Step{"get", b01Junk(r), ""})
			default:
				h := []int{1, 2, 3, 8}[r.Intn(4)]
				n := size + int64(r.Intn(3)) - 1
				if n < 1 {
					n = 1
				}
				ts := gen.SumTilesFor(h, n)
				t := ts[r.Intn(len(ts))]
				switch r.Intn(6) {
				case 0:
					t.L = -1
				case 1:
					if t.W > 1 {
						t.W = 1 + r.Intn(t.W)
					}
				case 2:
					t.N++
				}
				s.Steps = append(s.Steps, b01Step{"get", b01TilePath(t), ""})
			}
		}
		b01Emit(c, "mixed", s)
	}

	// (3) growing logs: after every append, the tiles that changed at heights 1, 2, 3 (and 8 for
	// small sizes and at multiples of 16), the data tiles, /latest, and one request just outside
	maxN, win := int64(208), int64(16)
	if c.Tier == "thorough" {
		maxN = 420
	}
	var table []b01Gosum
	for i := int64(0); i < maxN+2; i++ {
		p, v := fmt.Sprintf("w.test/m%d", i), fmt.Sprintf("v0.%d.0", i)
		table = append(table, b01Gosum{p, v, 0, fmt.Sprintf("%s %s h1:%s\n", p, v, b01Tok(r)[:4])})
	}
	for a := int64(0); a < maxN; a += win {
		s := b01Session{Gosum: table[:a+win+1]}
		for i := int64(0); i < a; i++ {
			s.Steps = append(s.Steps, b01Step{"grow", table[i].Path, table[i].Vers})
		}
		for n := a + 1; n <= a+win; n++ {
			g := table[n-1]
			if n%5 == 0 {
				s.Steps = append(s.Steps, b01Step{"get", "/lookup/" + g.Path + "@" + g.Vers, ""})
			} else {
				s.Steps = append(s.Steps, b01Step{"grow", g.Path, g.Vers})
			}
			s.Steps = append(s.Steps, b01Step{"get", "/latest", ""})
			for _, h := range []int{1, 2, 3, 8} {
				if h == 8 && n > 40 && n%16 != 0 {
					continue
				}
				for _, t := range b01NewTiles(h, n) {
					s.Steps = append(s.Steps, b01Step{"get", b01TilePath(t), ""})
				}
			}
			// one step outside: the next width of the level-0 tile (hash: panic; data: 500)
			h := []int{1, 2, 3}[n%3]
			t := b01NewTiles(h, n+1)[0]
			if n%2 == 0 {
				t.L = -1
			}
			s.Steps = append(s.Steps, b01Step{"get", b01TilePath(t), ""})
		}
		b01Emit(c, "growing", s)
	}
	// the first full tile of height 8 and its parent
	{
		s := b01Session{}
		for i := int64(0); i < 258; i++ {
			p, v := fmt.Sprintf("f.test/m%d", i), "v1.0.0"
			s.Gosum = append(s.Gosum, b01Gosum{p, v, 0, fmt.Sprintf("%s %s h1:x\n", p, v)})
		}
		for i := int64(0); i < 255; i++ {
			s.Steps = append(s.Steps, b01Step{"grow", s.Gosum[i].Path, s.Gosum[i].Vers})
		}
		for n := int64(255); n <= 257; n++ {
			if n > 255 {
				s.Steps = append(s.Steps, b01Step{"grow", s.Gosum[n-1].Path, s.Gosum[n-1].Vers})
			}
			s.Steps = append(s.Steps, b01Step{"get", "/latest", ""})
			for _, t := range b01NewTiles(8, n) {
				if t.L == -1 && n != 256 {
					continue
				}
				s.Steps = append(s.Steps, b01Step{"get", b01TilePath(t), ""})
			}
		}
		s.Steps = append(s.Steps, b01Step{"get", "/tile/8/1/000", ""}, b01Step{"get", "/tile/8/0/001.p/2", ""}, b01Step{"get", "/tile/8/0/001.p/1", ""})
		b01Emit(c, "full-tile-8", s)
	}
}

func replayB01(raw json.RawMessage) (bool, string) {
	var j b01JSON
	if err := json.Unmarshal(raw, &j); err != nil {
		return false, "bad replay input: " + err.Error()
	}
	s := b01FromJSON(j)
	obs := b01RunSession(s)
	var fails []string
	b01Check(func(oracle string, ok bool, observed string) {
		if !ok {
			fails = append(fails, oracle+": "+observed)
		}
	}, func(string) {}, s, obs)
	if len(fails) == 0 {
		return true, "all oracles hold on the recorded session"
	}
	return false, fails[0]
}
