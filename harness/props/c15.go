package props

// C15 — the parsed file structure and its syntax tree never diverge under edits.
//
// This file also holds what C08 and C16 share with C15: running a sequence of edit
// operations against the real modfile API from the bytes of a starting file, the wire
// serialisation of a parsed file (syntax tree with line identities + typed lists, each
// entry with the index of the line it points to), and the directive snapshot of a
// strict re-parse.

import (
	"encoding/hex"
	"encoding/json"
	"fmt"
	"sort"
	"strings"

	"golang.org/x/mod/modfile"

	"verif/harness/gen"
	"verif/harness/hx"
	"verif/harness/wire"
)

func init() { hx.Register(&hx.Prop{ID: "C15", Run: runC15, Replay: replayC15}) }

// ---------------------------------------------------------------------------------
// cases

type editCase struct {
	Work  bool         `json:"work"`
	Start string       `json:"start_hex"`
	Ops   []gen.EditOp `json:"ops"`
	// Probe names a fixed-shape oracle (used by replay); "" = the sequence oracle.
	Probe string `json:"probe,omitempty"`
}

func (c editCase) start() []byte { b, _ := hex.DecodeString(c.Start); return b }

func (c editCase) String() string {
	var ops []string
	for _, o := range c.Ops {
		ops = append(ops, o.String())
	}
	kind := "go.mod"
	if c.Work {
		kind = "go.work"
	}
	return fmt.Sprintf("%s %q ; %s", kind, c.start(), strings.Join(ops, "; "))
}

type editState struct {
	f *modfile.File
	w *modfile.WorkFile
}

func (s *editState) syntax() *modfile.FileSyntax {
	if s.w != nil {
		return s.w.Syntax
	}
	return s.f.Syntax
}

func editParse(work bool, data []byte) (*editState, error) {
	if work {
		w, err := modfile.ParseWork("go.work", data, nil)
		if err != nil {
			return nil, err
		}
		return &editState{w: w}, nil
	}
	f, err := modfile.Parse("go.mod", data, nil)
	if err != nil {
		return nil, err
	}
	return &editState{f: f}, nil
}

func argN(o gen.EditOp, i int) string {
	if i < len(o.Args) {
		return o.Args[i]
	}
	return ""
}

// editApply applies one operation; the error is the operation's own error result.
func editApply(st *editState, o gen.EditOp) error {
	a := func(i int) string { return argN(o, i) }
	if strings.HasPrefix(o.Name, "W") {
		w := st.w
		if w == nil {
			return fmt.Errorf("harness: go.work operation on go.mod")
		}
		switch o.Name {
		case "WAddGoStmt":
			return w.AddGoStmt(a(0))
		case "WDropGoStmt":
			w.DropGoStmt()
		case "WAddToolchainStmt":
			return w.AddToolchainStmt(a(0))
		case "WDropToolchainStmt":
			w.DropToolchainStmt()
		case "WAddGodebug":
			return w.AddGodebug(a(0), a(1))
		case "WDropGodebug":
			return w.DropGodebug(a(0))
		case "WAddUse":
			return w.AddUse(a(0), a(1))
		case "WAddNewUse":
			w.AddNewUse(a(0), a(1))
		case "WSetUse":
			var dirs []*modfile.Use
			for _, q := range o.Reqs {
				dirs = append(dirs, &modfile.Use{Path: q.Path, ModulePath: q.Version})
			}
			w.SetUse(dirs)
		case "WDropUse":
			return w.DropUse(a(0))
		case "WAddReplace":
			return w.AddReplace(a(0), a(1), a(2), a(3))
		case "WDropReplace":
			return w.DropReplace(a(0), a(1))
		case "WCleanup":
			w.Cleanup()
		case "WSortBlocks":
			w.SortBlocks()
		default:
			panic("harness: unknown op " + o.Name)
		}
		return nil
	}
	f := st.f
	if f == nil {
		return fmt.Errorf("harness: go.mod operation on go.work")
	}
	reqs := func() []*modfile.Require {
		var rs []*modfile.Require
		for _, q := range o.Reqs {
			r := &modfile.Require{Indirect: q.Indirect}
			r.Mod.Path, r.Mod.Version = q.Path, q.Version
			rs = append(rs, r)
		}
		return rs
	}
	switch o.Name {
	case "AddModuleStmt":
		return f.AddModuleStmt(a(0))
	case "AddGoStmt":
		return f.AddGoStmt(a(0))
	case "DropGoStmt":
		f.DropGoStmt()
	case "AddToolchainStmt":
		return f.AddToolchainStmt(a(0))
	case "DropToolchainStmt":
		f.DropToolchainStmt()
	case "AddGodebug":
		return f.AddGodebug(a(0), a(1))
	case "DropGodebug":
		return f.DropGodebug(a(0))
	case "AddRequire":
		return f.AddRequire(a(0), a(1))
	case "AddNewRequire":
		f.AddNewRequire(a(0), a(1), a(2) == "1")
	case "SetRequire":
		f.SetRequire(reqs())
	case "SetRequireSeparateIndirect":
		f.SetRequireSeparateIndirect(reqs())
	case "DropRequire":
		return f.DropRequire(a(0))
	case "AddExclude":
		return f.AddExclude(a(0), a(1))
	case "DropExclude":
		return f.DropExclude(a(0), a(1))
	case "AddReplace":
		return f.AddReplace(a(0), a(1), a(2), a(3))
	case "DropReplace":
		return f.DropReplace(a(0), a(1))
	case "AddRetract":
		return f.AddRetract(modfile.VersionInterval{Low: a(0), High: a(1)}, a(2))
	case "DropRetract":
		return f.DropRetract(modfile.VersionInterval{Low: a(0), High: a(1)})
	case "AddTool":
		return f.AddTool(a(0))
	case "DropTool":
		return f.DropTool(a(0))
	case "AddComment":
		f.AddComment(a(0))
	case "Cleanup":
		f.Cleanup()
	case "SortBlocks":
		f.SortBlocks()
	default:
		panic("harness: unknown op " + o.Name)
	}
	return nil
}

type editRun struct {
	st       *editState
	ops      []gen.EditOp
	errs     []bool
	panicAt  int
	panicMsg string
}

// editExec parses the starting bytes and applies the operations in order.
func editExec(c editCase) (*editRun, error) {
	st, err := editParse(c.Work, c.start())
	if err != nil {
		return nil, err
	}
	run := &editRun{st: st, ops: c.Ops, panicAt: -1}
	for i, o := range c.Ops {
		var opErr error
		o := o
		p, msg := hx.Guard(func() { opErr = editApply(st, o) })
		if p {
			run.panicAt, run.panicMsg = i, msg
			return run, nil
		}
		run.errs = append(run.errs, opErr != nil)
	}
	return run, nil
}

// ---------------------------------------------------------------------------------
// wire serialisation of a file (the starting state handed to the model, and the
// observables compared with the model's result)

func wComList(cs []modfile.Comment) wire.Val {
	l := make([]wire.Val, len(cs))
	for i, c := range cs {
		l[i] = wire.S(c.Token)
	}
	return wire.L(l...)
}

func wComments(c *modfile.Comments) wire.Val {
	return wire.L(wComList(c.Before), wComList(c.Suffix), wComList(c.After))
}

func wLine(l *modfile.Line) wire.Val {
	return wire.L(wire.Int(0), wComments(&l.Comments), wire.Strs(l.Token), wire.Bool(l.InBlock))
}

// lineIndex numbers the lines of the tree in traversal order.
func lineIndex(fs *modfile.FileSyntax) map[*modfile.Line]int {
	m := map[*modfile.Line]int{}
	for _, s := range fs.Stmt {
		switch s := s.(type) {
		case *modfile.Line:
			m[s] = len(m)
		case *modfile.LineBlock:
			for _, l := range s.Line {
				if _, dup := m[l]; !dup {
					m[l] = len(m)
				}
			}
		}
	}
	return m
}

func wSyntax(fs *modfile.FileSyntax) wire.Val {
	var stmts []wire.Val
	for _, s := range fs.Stmt {
		switch s := s.(type) {
		case *modfile.Line:
			stmts = append(stmts, wLine(s))
		case *modfile.LineBlock:
			var ls []wire.Val
			for _, l := range s.Line {
				ls = append(ls, wLine(l))
			}
			stmts = append(stmts, wire.L(wire.Int(1), wComments(&s.Comments), wComments(&s.LParen.Comments),
				wire.Strs(s.Token), wire.L(ls...), wComments(&s.RParen.Comments)))
		case *modfile.CommentBlock:
			stmts = append(stmts, wire.L(wire.Int(2), wComments(&s.Comments)))
		}
	}
	return wire.L(wComments(&fs.Comments), wire.L(stmts...))
}

// sortByRef orders the entries of a typed list by the line they point to (the last
// component of each entry); used when the sequence contains a bulk setter, because the
// order in which SetRequire / SetRequireSeparateIndirect / SetUse append new entries to
// the typed list follows Go's map iteration order (the multiset does not).
func sortByRef(l []wire.Val) {
	sort.SliceStable(l, func(i, j int) bool {
		a, b := l[i].L[len(l[i].L)-1].I, l[j].L[len(l[j].L)-1].I
		return a.Cmp(b) < 0
	})
}

func wTyped(st *editState, canon bool) wire.Val {
	idx := lineIndex(st.syntax())
	ref := func(l *modfile.Line) wire.Val {
		if l == nil {
			return wire.Int(-1)
		}
		if i, ok := idx[l]; ok {
			return wire.Int(i)
		}
		return wire.Int(-2)
	}
	none := wire.L()
	module, gov, tool := none, none, none
	var godebug, require, exclude, replace, retract, tools, use []wire.Val
	var g *modfile.Go
	var tc *modfile.Toolchain
	var gd []*modfile.Godebug
	var rp []*modfile.Replace
	if st.f != nil {
		f := st.f
		g, tc, gd, rp = f.Go, f.Toolchain, f.Godebug, f.Replace
		if f.Module != nil {
			module = wire.L(wire.S(f.Module.Mod.Path), wire.S(f.Module.Mod.Version), wire.S(f.Module.Deprecated), ref(f.Module.Syntax))
		}
		for _, r := range f.Require {
			require = append(require, wire.L(wire.S(r.Mod.Path), wire.S(r.Mod.Version), wire.Bool(r.Indirect), ref(r.Syntax)))
		}
		for _, x := range f.Exclude {
			exclude = append(exclude, wire.L(wire.S(x.Mod.Path), wire.S(x.Mod.Version), ref(x.Syntax)))
		}
		for _, r := range f.Retract {
			retract = append(retract, wire.L(wire.S(r.Low), wire.S(r.High), wire.S(r.Rationale), ref(r.Syntax)))
		}
		for _, t := range f.Tool {
			tools = append(tools, wire.L(wire.S(t.Path), ref(t.Syntax)))
		}
	} else {
		w := st.w
		g, tc, gd, rp = w.Go, w.Toolchain, w.Godebug, w.Replace
		for _, u := range w.Use {
			use = append(use, wire.L(wire.S(u.Path), wire.S(u.ModulePath), ref(u.Syntax)))
		}
	}
	if g != nil {
		gov = wire.L(wire.S(g.Version), ref(g.Syntax))
	}
	if tc != nil {
		tool = wire.L(wire.S(tc.Name), ref(tc.Syntax))
	}
	for _, x := range gd {
		godebug = append(godebug, wire.L(wire.S(x.Key), wire.S(x.Value), ref(x.Syntax)))
	}
	for _, r := range rp {
		replace = append(replace, wire.L(wire.S(r.Old.Path), wire.S(r.Old.Version), wire.S(r.New.Path), wire.S(r.New.Version), ref(r.Syntax)))
	}
	if canon {
		for _, l := range [][]wire.Val{godebug, require, exclude, replace, retract, tools, use} {
			sortByRef(l)
		}
	}
	return wire.L(module, gov, tool, wire.L(godebug...), wire.L(require...), wire.L(exclude...), wire.L(replace...),
		wire.L(retract...), wire.L(tools...), wire.L(use...))
}

func wOp(o gen.EditOp) wire.Val {
	vs := []wire.Val{wire.S(o.Name)}
	for _, a := range o.Args {
		vs = append(vs, wire.S(a))
	}
	if o.Reqs != nil || strings.HasSuffix(o.Name, "SetRequire") || o.Name == "SetRequireSeparateIndirect" || o.Name == "WSetUse" {
		var qs []wire.Val
		for _, q := range o.Reqs {
			qs = append(qs, wire.L(wire.S(q.Path), wire.S(q.Version), wire.Bool(q.Indirect)))
		}
		vs = append(vs, wire.L(qs...))
	}
	return wire.L(vs...)
}

// editArg is the case argument: the parsed starting file and the operations.
func editArg(c editCase) (wire.Val, error) {
	st, err := editParse(c.Work, c.start())
	if err != nil {
		return wire.Val{}, err
	}
	var ops []wire.Val
	for _, o := range c.Ops {
		ops = append(ops, wOp(o))
	}
	return wire.L(wire.L(wSyntax(st.syntax()), wTyped(st, false)), wire.L(ops...)), nil
}

// editResult encodes the observables of a run under a projection:
// "typed" (C15), "syntax" (C08), "set" (C16), "all".
func editResult(run *editRun, proj string) wire.Val {
	canon := false
	for i := range run.errs {
		if isBulk(run.ops[i].Name) {
			canon = true
		}
	}
	if run.panicAt >= 0 {
		return wire.L(wire.S("panic"), wire.Int(run.panicAt))
	}
	errs := make([]wire.Val, len(run.errs))
	for i, e := range run.errs {
		errs[i] = wire.Bool(e)
	}
	switch proj {
	case "typed":
		return wire.Ok(wire.L(wire.L(errs...), wTyped(run.st, canon)))
	case "syntax":
		return wire.Ok(wire.L(wire.L(errs...), wSyntax(run.st.syntax())))
	case "format":
		return wire.Ok(wire.L(wire.L(errs...), wire.Bytes(modfile.Format(run.st.syntax()))))
	default:
		return wire.Ok(wire.L(wire.L(errs...), wSyntax(run.st.syntax()), wTyped(run.st, canon)))
	}
}

// ---------------------------------------------------------------------------------
// directive snapshots (typed lists as multisets of strings)

type dirSnap map[string][]string

func snapAdd(s dirSnap, k, v string) { s[k] = append(s[k], v) }

func snapOf(st *editState) dirSnap {
	s := dirSnap{}
	var g *modfile.Go
	var tc *modfile.Toolchain
	var gd []*modfile.Godebug
	var rp []*modfile.Replace
	if st.f != nil {
		f := st.f
		g, tc, gd, rp = f.Go, f.Toolchain, f.Godebug, f.Replace
		if f.Module != nil {
			snapAdd(s, "module", fmt.Sprintf("%q deprecated=%q", f.Module.Mod.Path, f.Module.Deprecated))
		}
		for _, r := range f.Require {
			snapAdd(s, "require", fmt.Sprintf("%q %q indirect=%v", r.Mod.Path, r.Mod.Version, r.Indirect))
		}
		for _, x := range f.Exclude {
			snapAdd(s, "exclude", fmt.Sprintf("%q %q", x.Mod.Path, x.Mod.Version))
		}
		for _, r := range f.Retract {
			snapAdd(s, "retract", fmt.Sprintf("[%q,%q] rationale=%q", r.Low, r.High, r.Rationale))
		}
		for _, t := range f.Tool {
			snapAdd(s, "tool", fmt.Sprintf("%q", t.Path))
		}
	} else {
		w := st.w
		g, tc, gd, rp = w.Go, w.Toolchain, w.Godebug, w.Replace
		for _, u := range w.Use {
			// Use.ModulePath is never written to the file (TODO(#45713) in work.go), so a
			// re-parse cannot recover it; the use list is compared by Path.
			snapAdd(s, "use", fmt.Sprintf("%q", u.Path))
		}
	}
	if g != nil {
		snapAdd(s, "go", g.Version)
	}
	if tc != nil {
		snapAdd(s, "toolchain", tc.Name)
	}
	for _, x := range gd {
		snapAdd(s, "godebug", fmt.Sprintf("%q=%q", x.Key, x.Value))
	}
	for _, r := range rp {
		snapAdd(s, "replace", fmt.Sprintf("%q %q => %q %q", r.Old.Path, r.Old.Version, r.New.Path, r.New.Version))
	}
	for _, v := range s {
		sort.Strings(v)
	}
	return s
}

func snapDiff(a, b dirSnap) string {
	keys := map[string]bool{}
	for k := range a {
		keys[k] = true
	}
	for k := range b {
		keys[k] = true
	}
	var ks []string
	for k := range keys {
		ks = append(ks, k)
	}
	sort.Strings(ks)
	for _, k := range ks {
		if strings.Join(a[k], "\x00") != strings.Join(b[k], "\x00") || len(a[k]) != len(b[k]) {
			return fmt.Sprintf("%s: %v vs %v", k, a[k], b[k])
		}
	}
	return ""
}

// snapNoText blanks the two values that are derived from comment text (retract
// rationale, module deprecation).
func snapNoText(s dirSnap) dirSnap {
	out := dirSnap{}
	for k, v := range s {
		for _, e := range v {
			if i := strings.Index(e, " rationale="); k == "retract" && i >= 0 {
				e = e[:i]
			}
			if i := strings.Index(e, " deprecated="); k == "module" && i >= 0 {
				e = e[:i]
			}
			out[k] = append(out[k], e)
		}
		sort.Strings(out[k])
	}
	return out
}

// snapNoIndirect blanks the indirect flag of the requirements.
func snapNoIndirect(s dirSnap) dirSnap {
	out := dirSnap{}
	for k, v := range s {
		for _, e := range v {
			if i := strings.Index(e, " indirect="); k == "require" && i >= 0 {
				e = e[:i]
			}
			out[k] = append(out[k], e)
		}
		sort.Strings(out[k])
	}
	return out
}

func commentIsIndirect(tok string) bool {
	f := strings.Fields(strings.TrimPrefix(tok, "//"))
	return len(f) == 1 && f[0] == "indirect" || len(f) > 1 && f[0] == "indirect;"
}

// hasDoubleIndirect: the starting file has a require line whose end-of-line comment,
// after removing one leading "indirect;", still parses as an indirect marker (shape of
// known finding K9: setIndirect(false) removes only the first marker).
func hasDoubleIndirect(c editCase) bool {
	st, err := editParse(c.Work, c.start())
	if err != nil {
		return false
	}
	check := func(verb string, l *modfile.Line) bool {
		if verb != "require" || len(l.Suffix) == 0 {
			return false
		}
		text := strings.TrimSpace(strings.TrimPrefix(l.Suffix[0].Token, "//"))
		return strings.HasPrefix(text, "indirect;") && commentIsIndirect("//"+text[len("indirect;"):])
	}
	for _, s := range st.syntax().Stmt {
		switch s := s.(type) {
		case *modfile.Line:
			if check(s.Token[0], s) {
				return true
			}
		case *modfile.LineBlock:
			for _, l := range s.Line {
				if check(s.Token[0], l) {
					return true
				}
			}
		}
	}
	return false
}

// hasCommentedTextBlock: the starting file has a retract or module block that carries
// comments of its own (shape of known finding K6: Rationale / Deprecated are taken from
// the block's comments when the line has none, so they change when a line enters such a
// block or when Cleanup collapses it).
func hasCommentedTextBlock(c editCase) bool {
	st, err := editParse(c.Work, c.start())
	if err != nil {
		return false
	}
	for _, s := range st.syntax().Stmt {
		if b, ok := s.(*modfile.LineBlock); ok && (b.Token[0] == "retract" || b.Token[0] == "module") {
			if len(b.Before) > 0 || len(b.Suffix) > 0 {
				return true
			}
			// (c) a line of the block has leading comments separated by a blank line: once
			// Cleanup collapses the block to a top-level line, the part before the blank
			// line is a detached comment block for a re-parse
			for _, l := range b.Line {
				for _, c := range l.Before {
					if c.Token == "" {
						return true
					}
				}
			}
		}
	}
	return false
}

// placeholders reports zero-valued (cleared) entries or entries without a line.
func placeholders(st *editState) string {
	var bad []string
	chk := func(kind string, i int, key string, syn *modfile.Line) {
		if key == "" {
			bad = append(bad, fmt.Sprintf("%s[%d] is a cleared placeholder", kind, i))
		} else if syn == nil {
			bad = append(bad, fmt.Sprintf("%s[%d] has no Syntax line", kind, i))
		} else if len(syn.Token) == 0 {
			bad = append(bad, fmt.Sprintf("%s[%d] points to a removed line", kind, i))
		}
	}
	var gd []*modfile.Godebug
	var rp []*modfile.Replace
	if st.f != nil {
		f := st.f
		gd, rp = f.Godebug, f.Replace
		for i, r := range f.Require {
			chk("Require", i, r.Mod.Path, r.Syntax)
		}
		for i, x := range f.Exclude {
			chk("Exclude", i, x.Mod.Path, x.Syntax)
		}
		for i, r := range f.Retract {
			chk("Retract", i, r.Low+r.High, r.Syntax)
		}
		for i, t := range f.Tool {
			chk("Tool", i, t.Path, t.Syntax)
		}
	} else {
		gd, rp = st.w.Godebug, st.w.Replace
		for i, u := range st.w.Use {
			chk("Use", i, u.Path, u.Syntax)
		}
	}
	for i, g := range gd {
		chk("Godebug", i, g.Key, g.Syntax)
	}
	for i, r := range rp {
		chk("Replace", i, r.Old.Path, r.Syntax)
	}
	return strings.Join(bad, "; ")
}

// seqFlags classifies a sequence: garbage arguments, and bulk setters reached while
// cleared entries may exist (no Cleanup directly before).
func seqFlags(ops []gen.EditOp) (garbage, uncleanBulk bool) {
	for i, o := range ops {
		if o.Garbage {
			garbage = true
		}
		switch o.Name {
		case "SetRequire", "SetRequireSeparateIndirect", "WSetUse":
			if i > 0 && ops[i-1].Name != "Cleanup" && ops[i-1].Name != "WCleanup" {
				uncleanBulk = true
			}
		}
	}
	return
}

func isBulk(name string) bool {
	return name == "SetRequire" || name == "SetRequireSeparateIndirect" || name == "WSetUse"
}

// ---------------------------------------------------------------------------------
// the C15 oracle

// c15Oracle: after the sequence (which ends with Cleanup) the typed lists equal, as
// multisets, those of a strict re-parse of the formatted output, and hold no placeholders.
// shape is a known-finding shape key or "".
func c15Oracle(c editCase) (msg string, shape string) {
	run, err := editExec(c)
	if err != nil {
		return "", "" // starting file not well-formed: outside the quantifier
	}
	if run.panicAt >= 0 {
		return fmt.Sprintf("panic in op %d (%s): %s", run.panicAt, c.Ops[run.panicAt], run.panicMsg), ""
	}
	if p := placeholders(run.st); p != "" {
		return "after Cleanup: " + p, ""
	}
	out := modfile.Format(run.st.syntax())
	st2, err := editParse(c.Work, out)
	if err != nil {
		return fmt.Sprintf("formatted output does not parse strictly: %v\n%s", err, out), ""
	}
	if d := snapDiff(snapOf(run.st), snapOf(st2)); d != "" {
		shape := ""
		if snapDiff(snapNoText(snapOf(run.st)), snapNoText(snapOf(st2))) == "" && hasCommentedTextBlock(c) {
			shape = "K6"
		} else if snapDiff(snapNoIndirect(snapOf(run.st)), snapNoIndirect(snapOf(st2))) == "" && hasDoubleIndirect(c) {
			shape = "K9"
		}
		return fmt.Sprintf("typed lists vs strict re-parse differ: %s\noutput:\n%s", d, out), shape
	}
	return "", ""
}

// laterSeesEarlier probes: an Add followed by the matching Drop leaves no directive for
// the key; an Add followed by an Add for the same key leaves exactly one.
func c15Probe(c editCase) string {
	run, err := editExec(c)
	if err != nil {
		return ""
	}
	if run.panicAt >= 0 {
		return "panic: " + run.panicMsg
	}
	out := modfile.Format(run.st.syntax())
	st2, err := editParse(c.Work, out)
	if err != nil {
		return fmt.Sprintf("output does not parse: %v", err)
	}
	// the probe's last three operations are Add k, Drop k, Cleanup  or  Add k, Add k', Cleanup
	n := len(c.Ops)
	if n < 3 {
		return ""
	}
	add, second := c.Ops[n-3], c.Ops[n-2]
	snap := snapOf(st2)
	count := func(kind, prefix string) int {
		k := 0
		for _, e := range snap[kind] {
			if strings.HasPrefix(e, prefix) {
				k++
			}
		}
		return k
	}
	var kind, prefix string
	a := func(i int) string { return argN(add, i) }
	switch strings.TrimPrefix(add.Name, "W") {
	case "AddGodebug":
		kind, prefix = "godebug", fmt.Sprintf("%q=", a(0))
	case "AddRequire", "AddNewRequire":
		kind, prefix = "require", fmt.Sprintf("%q ", a(0))
	case "AddExclude":
		kind, prefix = "exclude", fmt.Sprintf("%q %q", a(0), a(1))
	case "AddReplace":
		kind, prefix = "replace", fmt.Sprintf("%q %q =>", a(0), a(1))
	case "AddRetract":
		kind, prefix = "retract", fmt.Sprintf("[%q,%q]", a(0), a(1))
	case "AddTool":
		kind, prefix = "tool", fmt.Sprintf("%q", a(0))
	case "AddUse", "AddNewUse":
		kind, prefix = "use", fmt.Sprintf("%q", a(0))
	default:
		return ""
	}
	got := count(kind, prefix)
	if strings.Contains(second.Name, "Drop") {
		if got != 0 {
			return fmt.Sprintf("%s then %s: %d %s directive(s) for the key remain\n%s", add, second, got, kind, out)
		}
	} else if got != 1 && !((kind == "exclude" || kind == "tool") && got > 1) {
		// (AddExclude / AddTool are no-ops when the entry exists, so pre-existing duplicates stay)
		return fmt.Sprintf("%s then %s: %d %s directive(s) for the key, want 1\n%s", add, second, got, kind, out)
	}
	return ""
}

// ---------------------------------------------------------------------------------
// shared generation

func editKeysOf(st *editState) *gen.EditKeys {
	k := &gen.EditKeys{}
	if st.f != nil {
		f := st.f
		if f.Module != nil && strings.HasSuffix(f.Module.Mod.Path, "/v2") {
			k.ModuleV2 = true
		}
		for _, r := range f.Require {
			k.ReqPaths = append(k.ReqPaths, r.Mod.Path)
		}
		for _, x := range f.Exclude {
			k.Excludes = append(k.Excludes, [2]string{x.Mod.Path, x.Mod.Version})
		}
		for _, r := range f.Replace {
			k.Replaces = append(k.Replaces, [2]string{r.Old.Path, r.Old.Version})
		}
		for _, r := range f.Retract {
			k.Retracts = append(k.Retracts, [2]string{r.Low, r.High})
		}
		for _, t := range f.Tool {
			k.Tools = append(k.Tools, t.Path)
		}
		for _, g := range f.Godebug {
			k.Godebugs = append(k.Godebugs, g.Key)
		}
	} else {
		for _, u := range st.w.Use {
			k.Uses = append(k.Uses, u.Path)
		}
		for _, r := range st.w.Replace {
			k.Replaces = append(k.Replaces, [2]string{r.Old.Path, r.Old.Version})
		}
		for _, g := range st.w.Godebug {
			k.Godebugs = append(k.Godebugs, g.Key)
		}
	}
	return k
}

// editStart draws a starting file that parses strictly.
func editStart(c *hx.Ctx, work bool) (string, *editState) {
	for {
		var s string
		if work {
			s = gen.EditGoWork(c.Rng)
		} else {
			s = gen.EditGoMod(c.Rng)
		}
		st, err := editParse(work, []byte(s))
		if err == nil {
			return s, st
		}
		c.Count("start-rejected")
	}
}

// editDraw draws a case: a starting file and an operation sequence.
func editDraw(c *hx.Ctx, allowBad bool) editCase {
	work := c.Rng.Intn(3) == 0
	s, st := editStart(c, work)
	ops := gen.EditOps(c.Rng, editKeysOf(st), work, allowBad)
	return editCase{Work: work, Start: hex.EncodeToString([]byte(s)), Ops: ops}
}

// editRecord emits the correspondence case under the projection and returns the run
// (nil when the three repetitions disagree, which is reported through the oracle
// "map-order-independent").
func editRecord(c *hx.Ctx, ec editCase, proj string) *editRun {
	arg, err := editArg(ec)
	if err != nil {
		return nil
	}
	var first *editRun
	var firstEnc string
	same := true
	for rep := 0; rep < 3; rep++ {
		run, err := editExec(ec)
		if err != nil {
			return nil
		}
		enc := editResult(run, "all").String()
		if rep == 0 {
			first, firstEnc = run, enc
		} else if enc != firstEnc {
			same = false
		}
	}
	mo := ec
	mo.Probe = "map-order"
	c.Check("map-order-independent", same, "", mo, "three runs of the same sequence gave different results: "+ec.String())
	fn := map[string]string{"typed": "EditTyped", "syntax": "EditSyntax", "set": "EditAll", "all": "EditAll", "format": "EditFormat"}[proj]
	c.Case(fn, arg, editResult(first, proj))
	if garbage, _ := seqFlags(ec.Ops); !garbage && first.panicAt < 0 && ec.Probe != "corpus-K9" {
		// the theorem statements (coherence before and after, errors and final typed
		// lists as the keyed model predicts, valid arguments) evaluated inside the model
		c.Case("EditInv", arg, wire.L(wire.Bool(true), wire.Bool(true), wire.Bool(true), wire.Bool(true), wire.Bool(true)))
	}
	for _, o := range ec.Ops {
		c.Count("op:" + o.Name)
	}
	if first.panicAt >= 0 {
		c.Count("run:panic")
	}
	for i, e := range first.errs {
		if e {
			c.Count("operr:" + ec.Ops[i].Name)
		}
	}
	return first
}

func editShapeCounts(c *hx.Ctx, st *editState) {
	for _, s := range st.syntax().Stmt {
		switch s := s.(type) {
		case *modfile.Line:
			c.Count("start:line:" + s.Token[0])
		case *modfile.LineBlock:
			c.Count(fmt.Sprintf("start:block:%s:%d", s.Token[0], min(len(s.Line), 3)))
			if len(s.RParen.Before) > 0 {
				c.Count("start:block-rparen-comment")
			}
		case *modfile.CommentBlock:
			c.Count("start:commentblock")
		}
	}
}

// c15Corpus: fixed cases run first on every seed, one per open known finding (sub-)shape,
// so that the findings are reported deterministically.
func c15Corpus() []editCase {
	mk := func(probe, file string, ops ...gen.EditOp) editCase {
		return editCase{Start: hex.EncodeToString([]byte(file)), Ops: ops, Probe: probe}
	}
	cleanup := gen.EditOp{Name: "Cleanup"}
	return []editCase{
		// K6 (a): AddRetract with empty rationale into a retract block that has leading comments
		mk("corpus-K6a", "module example.com/m\n// c2\nretract (\n\tv1.0.0 // c3\n\tv1.2.3 // c4\n)\n",
			gen.EditOp{Name: "AddRetract", Args: []string{"v1.9.0", "v1.9.0", ""}}, cleanup),
		// K6 (b): Cleanup collapses a commented one-line retract block
		mk("corpus-K6b", "module example.com/m\n// c5\nretract (\n\t// c6\n\t[v1.0.0, v1.2.3] // c7\n)\n", cleanup),
		// K6 (c): leading comments of the only block line are separated by a blank line
		mk("corpus-K6c", "module example.com/m\n\nretract (\n\t// c3\n\n\t// c4\n\tv1.9.0\n)\n", cleanup),
		// K9: setIndirect(false) removes only the first "indirect;"
		mk("corpus-K9", "module example.com/m\n\nrequire example.com/a v1.0.0 // indirect; indirect; x\n",
			gen.EditOp{Name: "SetRequire", Reqs: []gen.ReqArg{{Path: "example.com/a", Version: "v1.0.0", Indirect: false}}}, cleanup),
	}
}

func runC15(c *hx.Ctx) {
	for _, ec := range c15Corpus() {
		if editRecord(c, ec, "typed") == nil {
			continue
		}
		msg, shape := c15Oracle(ec)
		c.Check("typed-lists=reparse,no-placeholders", msg == "", shape, ec, msg)
		c.Count("corpus:" + ec.Probe + ":shape=" + shape)
	}
	// op sequences
	for i := 0; i < c.N(3500); i++ {
		ec := editDraw(c, i%5 == 0)
		run := editRecord(c, ec, "typed")
		if run == nil {
			continue
		}
		if i < 3 {
			c.Sample(ec.String())
		}
		if st, err := editParse(ec.Work, ec.start()); err == nil {
			editShapeCounts(c, st)
		}
		garbage, unclean := seqFlags(ec.Ops)
		if garbage || unclean {
			c.Count("seq:correspondence-only")
			continue
		}
		c.Nontrivial(ec.Start + fmt.Sprint(ec.Ops))
		msg, shape := c15Oracle(ec)
		c.Check("typed-lists=reparse,no-placeholders", msg == "", shape, ec, msg)
	}
	// later-op-sees-earlier probes
	for i := 0; i < c.N(1500); i++ {
		work := c.Rng.Intn(4) == 0
		s, st := editStart(c, work)
		k := editKeysOf(st)
		var add gen.EditOp
		for {
			var ops []gen.EditOp
			if work {
				ops = gen.EditOpWork(c.Rng, k, false)
			} else {
				ops = gen.EditOpMod(c.Rng, k, false)
			}
			o := ops[len(ops)-1]
			if strings.Contains(o.Name, "Add") && !strings.Contains(o.Name, "Stmt") && o.Name != "AddComment" {
				add = o
				break
			}
		}
		var second gen.EditOp
		if c.Rng.Intn(2) == 0 {
			// the matching Drop
			name := strings.Replace(strings.Replace(add.Name, "AddNew", "Drop", 1), "Add", "Drop", 1)
			second = gen.EditOp{Name: name, Args: add.Args}
			switch strings.TrimPrefix(name, "W") {
			case "DropGodebug", "DropRequire", "DropTool", "DropUse":
				second.Args = add.Args[:1]
			case "DropExclude", "DropReplace", "DropRetract":
				second.Args = add.Args[:2]
			}
		} else {
			// a second Add for the same key (AddNew* has no "same key" reading)
			if strings.Contains(add.Name, "AddNew") || strings.HasSuffix(add.Name, "AddRetract") {
				continue
			}
			second = add
		}
		cleanup := gen.EditOp{Name: "Cleanup"}
		if work {
			cleanup.Name = "WCleanup"
		}
		ec := editCase{Work: work, Start: hex.EncodeToString([]byte(s)), Ops: []gen.EditOp{add, second, cleanup}, Probe: "later-sees-earlier"}
		editRecord(c, ec, "typed")
		msg := c15Probe(ec)
		c.Check("later-op-sees-earlier", msg == "", "", ec, msg)
		c.Count("probe:" + add.Name + "+" + second.Name)
	}
}

// editMapOrder re-runs a sequence several times (Go randomises map iteration order).
func editMapOrder(ec editCase) string {
	var first string
	for rep := 0; rep < 12; rep++ {
		run, err := editExec(ec)
		if err != nil {
			return ""
		}
		enc := editResult(run, "all").String()
		if rep == 0 {
			first = enc
		} else if enc != first {
			return "runs of the same sequence differ: " + ec.String()
		}
	}
	return ""
}

func replayC15(raw json.RawMessage) (bool, string) {
	var ec editCase
	if err := json.Unmarshal(raw, &ec); err != nil {
		return false, err.Error()
	}
	if ec.Probe == "later-sees-earlier" {
		msg := c15Probe(ec)
		return msg == "", msg
	}
	if ec.Probe == "map-order" {
		msg := editMapOrder(ec)
		return msg == "", msg
	}
	msg, _ := c15Oracle(ec)
	return msg == "", ec.String() + "\n" + msg
}
