package props

import (
	"fmt"

	"golang.org/x/mod/sumdb/tlog"

	"verif/harness/gen"
	"verif/harness/hx"
)

// Sequences of ReadHashes calls on ONE tlog.TileHashReader value (as TreeHash, ProveRecord,
// ProveTree and the sumdb client issue them).  The reader must be stateless across calls: every
// call has to authenticate what it fetched, whatever earlier calls established.  The fault is
// injected on a call k >= 2 after honest calls; each call is judged by the same oracle as a
// single call, and each call's result is compared with an independent model call.

type c10Call struct {
	Indexes []int64         `json:"indexes"`
	Faults  []gen.TileFault `json:"faults,omitempty"`
	Fail    bool            `json:"fail_read,omitempty"`
	Count   int             `json:"count,omitempty"`
}

func c10CallIn(h int, n int64, call c10Call) c10In {
	return c10In{Op: "read", H: h, N: n, Indexes: call.Indexes, Faults: call.Faults, Fail: call.Fail, Count: call.Count}
}

// c10ExecSeq runs the calls one after another on a single TileHashReader over a single
// TileReader; the result of call k carries only what the TileReader saw during call k.
func c10ExecSeq(h int, n int64, calls []c10Call, logSize int) (*c10Log, []c10Run) {
	l := c10GetLog(1, logSize)
	other := c10GetLog(2, logSize)
	tree := l.Tree(n)
	ftr := &gen.FaultyTileReader{Log: l.TileLog, Other: other.TileLog, H: h}
	hr := tlog.TileHashReader(tree, ftr)
	runs := make([]c10Run, 0, len(calls))
	for _, call := range calls {
		ftr.Faults, ftr.FailRead, ftr.Count = call.Faults, call.Fail, call.Count
		ftr.Requested, ftr.Served, ftr.Saved, ftr.Missing = nil, nil, nil, nil
		run := c10Run{tree: tree}
		run.panicked, run.pmsg = hx.Guard(func() {
			run.hashes, run.err = hr.ReadHashes(call.Indexes)
		})
		run.ftr = &gen.FaultyTileReader{Log: l.TileLog, H: h, Requested: ftr.Requested, Served: ftr.Served, Saved: ftr.Saved}
		runs = append(runs, run)
	}
	return l, runs
}

func c10SeqStream(c *hx.Ctx, l *c10Log, logSize, maxN int, record func(in c10In, run c10Run, cat string)) {
	r := c.Rng
	indexSet := func(n int64) []int64 {
		total := l.count[n]
		switch r.Intn(4) {
		case 0:
			return c10SubTreeIndex(1 + r.Int63n(n))
		case 1:
			set := make([]int64, 2+r.Intn(4))
			for j := range set {
				set[j] = r.Int63n(total)
			}
			return set
		case 2:
			return []int64{total - 1 - r.Int63n(minI64(total, 4))} // near the right edge: tree-hash tiles
		default:
			return []int64{r.Int63n(total)}
		}
	}
	runSeq := func(h int, n int64, calls []c10Call, cat string) {
		_, runs := c10ExecSeq(h, n, calls, logSize)
		for k, run := range runs {
			in := c10CallIn(h, n, calls[k])
			msg := c10Oracle(in, l, run)
			if msg != "" {
				msg = fmt.Sprintf("call %d of %d on one reader: %s", k+1, len(runs), msg)
			}
			c.Check("read-sequence-authenticated", msg == "", "", c10In{Op: "readseq", H: h, N: n, Calls: calls[:k+1]}, msg)
			ccat := "seq-honest"
			if len(calls[k].Faults) > 0 || calls[k].Fail || calls[k].Count != 0 {
				ccat = "seq" + fmt.Sprint(k+1) + "-" + cat
			}
			record(in, run, ccat)
		}
		c.Count(fmt.Sprintf("seq:len=%d", len(calls)))
	}
	for n := int64(1); n <= int64(maxN); n++ {
		if n > 260 && r.Intn(6) != 0 {
			continue
		}
		for h := 1; h <= 8; h++ {
			if n > 24 && r.Intn(2) == 0 {
				continue
			}
			// the call that will be attacked, and the tiles it fetches (a dry run on a fresh reader)
			target := indexSet(n)
			_, dry := c10ExecSeq(h, n, []c10Call{{Indexes: target}}, logSize)
			if len(dry[0].ftr.Requested) == 0 {
				continue
			}
			tiles := dry[0].ftr.Requested[0]
			prefix := func() []c10Call {
				k := 1 + r.Intn(3) // 1..3 honest calls first
				calls := make([]c10Call, k)
				for i := range calls {
					if r.Intn(3) == 0 {
						calls[i] = c10Call{Indexes: target}
					} else {
						calls[i] = c10Call{Indexes: indexSet(n)}
					}
				}
				return calls
			}
			// an all-honest sequence
			runSeq(h, n, append(prefix(), c10Call{Indexes: target}), "honest")
			for _, t := range tiles {
				for _, kind := range gen.TileFaultKinds {
					if n > 16 && r.Intn(3) != 0 {
						continue
					}
					bad := c10Call{Indexes: target, Faults: []gen.TileFault{{Tile: t, Kind: kind, Arg: r.Intn(1 << 20)}}}
					calls := append(prefix(), bad)
					if r.Intn(4) == 0 { // and an honest call after the attacked one
						calls = append(calls, c10Call{Indexes: indexSet(n)})
					}
					runSeq(h, n, calls, kind)
				}
			}
			if r.Intn(6) == 0 {
				bad := c10Call{Indexes: target}
				switch r.Intn(3) {
				case 0:
					bad.Fail = true
				case 1:
					bad.Count = -1
				default:
					bad.Count = 1
				}
				runSeq(h, n, append(prefix(), bad, c10Call{Indexes: target}), "reader")
			}
		}
	}
}

func minI64(a, b int64) int64 {
	if a < b {
		return a
	}
	return b
}
