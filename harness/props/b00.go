package props

// B00 is an auxiliary check (not a property of golang/mod): it ties the shared base
// models coq/Base/{Sha256,Base64,Strconv,Utf8}.v to Go's standard library by
// correspondence cases "base.<Fn>".  BaseCases is exported so that property harnesses whose
// models use the base libraries can add the same cases to their own runs (their
// dispatchers fall through to dispatch_base).

import (
	"crypto/sha256"
	"encoding/base64"
	"encoding/json"
	"errors"
	"math"
	"math/big"
	"math/rand"
	"strconv"
	"strings"
	"unicode/utf8"

	"verif/harness/hx"
	"verif/harness/wire"
)

func init() { hx.Register(&hx.Prop{ID: "B00", Run: runB00, Replay: replayB00}) }

func runB00(c *hx.Ctx) { BaseCases(c, c.N(2200)) }

// there are no property oracles in B00 (correspondence only)
func replayB00(raw json.RawMessage) (bool, string) { return true, "B00 has no oracles" }

// ---- implementation side -------------------------------------------------------------

func numErr(err error) wire.Val {
	if errors.Is(err, strconv.ErrRange) {
		return wire.Err("range")
	}
	return wire.Err("syntax")
}

func baseSha(c *hx.Ctx, s string) {
	h := sha256.Sum256([]byte(s))
	c.Case("base.Sha256", wire.S(s), wire.Bytes(h[:]))
	c.Nontrivial("sha:" + s)
	switch n := len(s) % 64; {
	case n == 55 || n == 56 || n == 63 || n == 0:
		c.Count("sha:boundary-length")
	default:
		c.Count("sha:other-length")
	}
}

func baseB64Enc(c *hx.Ctx, s string) {
	c.Case("base.B64Enc", wire.S(s), wire.S(base64.StdEncoding.EncodeToString([]byte(s))))
	c.Nontrivial("b64e:" + s)
}

func baseB64Dec(c *hx.Ctx, s string) {
	b, err := base64.StdEncoding.DecodeString(s)
	if err != nil {
		c.Case("base.B64Dec", wire.S(s), wire.Err("syntax"))
		c.Count("b64dec:err")
		return
	}
	c.Case("base.B64Dec", wire.S(s), wire.Ok(wire.Bytes(b)))
	c.Count("b64dec:ok")
	if strings.ContainsAny(s, "\r\n") {
		c.Count("b64dec:ok-with-linebreaks")
	}
	if base64.StdEncoding.EncodeToString(b) != strings.NewReplacer("\r", "", "\n", "").Replace(s) {
		c.Count("b64dec:ok-nonzero-trailing-bits")
	}
	c.Nontrivial("b64d:" + s)
}

func baseFormatInt(c *hx.Ctx, n int64) {
	c.Case("base.FormatInt", wire.I(n), wire.S(strconv.FormatInt(n, 10)))
	c.Nontrivial("fmt:" + strconv.FormatInt(n, 10))
}

func baseParseInt(c *hx.Ctx, s string) {
	n, err := strconv.ParseInt(s, 10, 64)
	if err != nil {
		c.Case("base.ParseInt64", wire.S(s), numErr(err))
		c.Count("parseint:" + numErr(err).L[1].S)
	} else {
		c.Case("base.ParseInt64", wire.S(s), wire.Ok(wire.I(n)))
		c.Count("parseint:ok")
		c.Nontrivial("pi:" + s)
	}
	m, err := strconv.Atoi(s)
	if err != nil {
		c.Case("base.Atoi", wire.S(s), numErr(err))
	} else {
		c.Case("base.Atoi", wire.S(s), wire.Ok(wire.Int(m)))
	}
	u, err := strconv.ParseUint(s, 10, 64)
	if err != nil {
		c.Case("base.ParseUint64", wire.S(s), numErr(err))
	} else {
		c.Case("base.ParseUint64", wire.S(s), wire.Ok(wire.Big(new(big.Int).SetUint64(u))))
	}
}

func baseQuote(c *hx.Ctx, s string) {
	q := strconv.Quote(s)
	c.Case("base.Quote", wire.S(s), wire.S(q))
	c.Nontrivial("q:" + s)
	switch {
	case !utf8.ValidString(s):
		c.Count("quote:invalid-utf8")
	case len(q) == len(s)+2:
		c.Count("quote:nothing-escaped")
	default:
		c.Count("quote:escapes")
	}
}

func baseUnquote(c *hx.Ctx, s string) {
	out, err := strconv.Unquote(s)
	kind := "other"
	if len(s) > 0 {
		switch s[0] {
		case '"':
			kind = "dq"
		case '\'':
			kind = "sq"
		case '`':
			kind = "raw"
		}
	}
	if err != nil {
		c.Case("base.Unquote", wire.S(s), wire.Err("syntax"))
		c.Count("unquote:" + kind + ":err")
		return
	}
	c.Case("base.Unquote", wire.S(s), wire.Ok(wire.S(out)))
	c.Count("unquote:" + kind + ":ok")
	c.Nontrivial("u:" + s)
}

func baseUtf8(c *hx.Ctx, s string) {
	c.Case("base.Utf8Valid", wire.S(s), wire.Bool(utf8.ValidString(s)))
	var rs []int64
	for _, r := range s {
		rs = append(rs, int64(r))
	}
	c.Case("base.Utf8Runes", wire.S(s), wire.Ints(rs))
	if utf8.ValidString(s) {
		c.Count("utf8:valid")
		c.Nontrivial("utf8:" + s)
	} else {
		c.Count("utf8:invalid")
	}
}

func baseUtf8Encode(c *hx.Ctx, r int64) {
	c.Case("base.Utf8Encode", wire.I(r), wire.Bytes(utf8.AppendRune(nil, rune(r))))
}

// ---- generators ----------------------------------------------------------------------

func randBytes(r *rand.Rand, n int) string {
	b := make([]byte, n)
	for i := range b {
		b[i] = byte(r.Intn(256))
	}
	return string(b)
}

var shaLens = []int{55, 56, 63, 64, 65, 119, 120, 0, 1, 127, 128, 129, 183, 184, 191, 192, 247, 248, 255, 256}

var shaFixed = []string{
	"", "abc",
	"abcdbcdecdefdefgefghfghighijhijkijkljklmklmnlmnomnopnopq",
	"abcdefghbcdefghicdefghijdefghijkefghijklfghijklmghijklmnhijklmnoijklmnopjklmnopqklmnopqrlmnopqrsmnopqrstnopqrstu",
	"a", "message digest", strings.Repeat("a", 1000), strings.Repeat("\x00", 64), strings.Repeat("\xff", 119),
}

func genSha(r *rand.Rand) string {
	switch k := r.Intn(10); {
	case k < 4:
		return randBytes(r, shaLens[r.Intn(len(shaLens))])
	case k < 5:
		// few distinct byte values
		n := r.Intn(301)
		b := make([]byte, n)
		v := []byte{0, 0xff, 0x80, 'a'}
		for i := range b {
			b[i] = v[r.Intn(len(v))]
		}
		return string(b)
	default:
		return randBytes(r, r.Intn(301))
	}
}

const b64Alpha = "ABCDEFGHIJKLMNOPQRSTUVWXYZabcdefghijklmnopqrstuvwxyz0123456789+/"

var b64DecFixed = []string{
	"", "QQ==", "QR==", "QUI=", "QUJ=", "QUJD", "QQ=", "QQ", "Q", "QQ===", "QUI==", "QUJD=", "QUJDQQ", "QUJDQQ=", "QUJDQUI",
	"=", "==", "====", "=QQQ", "Q=QQ", "QQ=Q", "QQ==QQ==", "QUI=QUI=", "QUJDQQ==", "QUJDQUI=", "QUJD QUJD", "QUJD\nQUJD",
	"QUJD\r\nQUJD\r\n", "\n", "\r\n\r\n", "Q\nQ=\r=\n", "QQ=\n=", "QQ\n==", "QQ==\n\n", "QQ== ", "QQ==\nQ", "QUI\n=", "QUI=\r",
	"QUI=\n=", "Q\rU\nI=", "QUJD!", "QUJ-", "QUJ_", "QUJ\x00", "QUJ\xff", "////", "++++", "+/+/", "/w==", "/x==", "//8=", "//9=",
	"AA==", "AB==", "AAA=", "AAB=", "AAD=", "QQ\n", "QUI\n", "QUJDQ\n", "\nQUJD", "Q\n\n\nUJD",
}

func genB64Dec(r *rand.Rand) string {
	raw := randBytes(r, r.Intn(101))
	if r.Intn(3) == 0 {
		raw = randBytes(r, r.Intn(8))
	}
	s := []byte(base64.StdEncoding.EncodeToString([]byte(raw)))
	insertCRLF := func() {
		for k := r.Intn(4); k >= 0; k-- {
			i := r.Intn(len(s) + 1)
			nl := []string{"\n", "\r", "\r\n"}[r.Intn(3)]
			s = append(s[:i:i], append([]byte(nl), s[i:]...)...)
		}
	}
	switch k := r.Intn(20); {
	case k < 5: // valid
	case k < 9: // valid with line breaks
		insertCRLF()
	case k < 11: // non-zero trailing bits
		if i := strings.IndexByte(string(s), '='); i > 0 {
			s[i-1] = b64Alpha[r.Intn(64)]
		}
		if r.Intn(2) == 0 {
			insertCRLF()
		}
	case k < 13: // padding damaged
		switch r.Intn(4) {
		case 0:
			s = []byte(strings.TrimRight(string(s), "="))
		case 1:
			s = append(s, '=')
		case 2:
			if len(s) > 0 {
				s = s[:len(s)-1]
			}
		case 3:
			if len(s) > 0 {
				s[r.Intn(len(s))] = '='
			}
		}
		if r.Intn(3) == 0 {
			insertCRLF()
		}
	case k < 15: // a bad character
		if len(s) > 0 {
			bad := " !-_.,*\x00\x7f\x80\xff\t"
			s[r.Intn(len(s))] = bad[r.Intn(len(bad))]
		}
	case k < 17: // trailing garbage / concatenation
		t := base64.StdEncoding.EncodeToString([]byte(randBytes(r, 1+r.Intn(5))))
		s = append(s, t...)
		if r.Intn(2) == 0 {
			s = append(s, '\n')
		}
	case k < 19: // random alphabet soup
		n := r.Intn(14)
		s = s[:0]
		for i := 0; i < n; i++ {
			if r.Intn(6) == 0 {
				s = append(s, "=\n\r"[r.Intn(3)])
			} else {
				s = append(s, b64Alpha[r.Intn(64)])
			}
		}
	default:
		s = []byte(randBytes(r, r.Intn(10)))
	}
	return string(s)
}

var intFixedStr = []string{
	"", "-", "+", "0", "-0", "+0", "00", "007", "-007", "+007", "1_000", "_1", "1_", " 1", "1 ", "\t1", "1\n", "0x10", "1e3", "1.0",
	"9223372036854775807", "9223372036854775808", "-9223372036854775808", "-9223372036854775809", "+9223372036854775807",
	"+9223372036854775808", "18446744073709551615", "18446744073709551616", "-18446744073709551615", "18446744073709551620",
	"2147483647", "2147483648", "-2147483648", "-2147483649", "4294967295", "4294967296",
	"000000000000000000000000000000000000009223372036854775807", "000000000000000000000000000000000000009223372036854775808",
	"99999999999999999999", "99999999999999999999x", "9x9", "x", "--1", "++1", "+-1", "-+1", "1-", "1+", "٣", "１",
	"184467440737095516150", "1844674407370955161", "1844674407370955162", "123456789012345678", "1234567890123456789", "12345678901234567890",
	"-123456789012345678", "+123456789012345678", "999999999999999999", "-999999999999999999", "1000000000000000000",
	strings.Repeat("9", 100), "-" + strings.Repeat("9", 100), strings.Repeat("0", 100), strings.Repeat("0", 100) + "1", strings.Repeat("1", 40) + "a",
}

var intFixed = []int64{0, 1, -1, 9, 10, -10, 99, 100, math.MaxInt64, math.MinInt64, math.MaxInt64 - 1, math.MinInt64 + 1,
	math.MaxInt32, math.MinInt32, math.MaxInt32 + 1, math.MinInt32 - 1, math.MaxUint32, 1000000000000000000, -1000000000000000000}

func genInt(r *rand.Rand) int64 {
	switch r.Intn(4) {
	case 0:
		return int64(r.Intn(2001) - 1000)
	case 1:
		return intFixed[r.Intn(len(intFixed))] + int64(r.Intn(5)-2) // wraps at the ends on purpose
	case 2:
		return int64(r.Uint64()) >> uint(r.Intn(64))
	default:
		return int64(r.Uint64())
	}
}

func genIntStr(r *rand.Rand) string {
	digits := func(n int) string {
		b := make([]byte, n)
		for i := range b {
			b[i] = byte('0' + r.Intn(10))
		}
		return string(b)
	}
	sign := []string{"", "", "", "-", "-", "+"}[r.Intn(6)]
	switch k := r.Intn(20); {
	case k < 5:
		return strconv.FormatInt(genInt(r), 10)
	case k < 8: // near the 64-bit limits
		base := []string{"9223372036854775807", "9223372036854775808", "18446744073709551615", "18446744073709551616"}[r.Intn(4)]
		b := []byte(base)
		if r.Intn(2) == 0 {
			i := len(b) - 1 - r.Intn(3)
			b[i] = byte('0' + r.Intn(10))
		}
		return sign + strings.Repeat("0", r.Intn(3)) + string(b)
	case k < 12:
		return sign + digits(1+r.Intn(22))
	case k < 14:
		return sign + strings.Repeat("0", r.Intn(30)) + digits(r.Intn(21))
	case k < 15:
		return sign + digits(30+r.Intn(200))
	case k < 18: // one damaged character
		s := []byte(sign + digits(1+r.Intn(20)))
		bad := "_ +-.xeE\t\n\x00a/:\xff"
		i := r.Intn(len(s) + 1)
		switch r.Intn(3) {
		case 0:
			s = append(s[:i:i], append([]byte{bad[r.Intn(len(bad))]}, s[i:]...)...)
		case 1:
			if i < len(s) {
				s[i] = bad[r.Intn(len(bad))]
			}
		default:
			if i < len(s) {
				s = append(s[:i:i], s[i+1:]...)
			}
		}
		return string(s)
	default:
		return randBytes(r, r.Intn(4))
	}
}

// runes of many kinds: printable and non-printable, all UTF-8 lengths
var runePool = []rune{
	0, 1, 7, 8, 9, 10, 11, 12, 13, 27, 31, ' ', '!', '"', '\'', '`', '\\', 'a', 'Z', '0', '~', 0x7f,
	0x80, 0x85, 0x9f, 0xa0, 0xad, 0xe9, 0xff, 0x100, 0x378, 0x7ff, 0x800, 0x2028, 0x2029, 0x200b, 0x3000, 0x4e2d, 0xd7ff, 0xe000,
	0xfeff, 0xfffd, 0xfffe, 0xffff, 0x10000, 0x1f600, 0x1fffe, 0xe0001, 0xe01ef, 0xf0000, 0x10fffd, 0x10ffff, 0x1d173, 0x2fa1d, 0x30000,
}

func genRune(r *rand.Rand) rune {
	switch k := r.Intn(20); {
	case k < 6:
		return runePool[r.Intn(len(runePool))]
	case k < 11:
		return rune(32 + r.Intn(95))
	case k < 13:
		return rune(r.Intn(0x800))
	case k < 16:
		return rune(r.Intn(0x10000))
	case k < 18:
		return rune(0x10000 + r.Intn(0x20000))
	default:
		return rune(r.Intn(0x110000))
	}
}

var badUTF8 = []string{
	"\x80", "\xbf", "\xc0\x80", "\xc1\xbf", "\xc2", "\xe0\x80\x80", "\xe0\x9f\xbf", "\xe0\xa0", "\xed\xa0\x80", "\xed\xbf\xbf",
	"\xf0\x80\x80\x80", "\xf0\x8f\xbf\xbf", "\xf0\x90\x80", "\xf4\x90\x80\x80", "\xf5\x80\x80\x80", "\xf8\x88\x80\x80\x80", "\xff", "\xfe",
	"\xe2\x82", "\xf0\x9f\x98", "\xc3\x28", "\xe2\x28\xa1", "\xef\xbf",
}

// GenText draws a string mixing ASCII, control characters, quotes, backslashes, Unicode
// of every encoded length and (with probability pBad/10 per piece) invalid UTF-8.
func GenText(r *rand.Rand, maxPieces int, pBad int) string {
	var b strings.Builder
	for n := r.Intn(maxPieces + 1); n > 0; n-- {
		if r.Intn(10) < pBad {
			if r.Intn(2) == 0 {
				b.WriteString(badUTF8[r.Intn(len(badUTF8))])
			} else {
				b.WriteByte(byte(0x80 + r.Intn(0x80)))
			}
			continue
		}
		rn := genRune(r)
		if rn >= 0xd800 && rn <= 0xdfff {
			// a surrogate cannot be encoded; write the 3-byte form by hand (invalid UTF-8)
			b.Write([]byte{0xe0 | byte(rn>>12), 0x80 | byte(rn>>6)&0x3f, 0x80 | byte(rn)&0x3f})
			continue
		}
		b.WriteRune(rn)
	}
	return b.String()
}

var quoteFixed = []string{
	"", "a", "\"", "'", "`", "\\", "\a\b\f\n\r\t\v", "\x00", "\x7f", "\u00e9", "\u2028", "\ufeff", "\ufffd", "\xff", "\xc0\x80",
	"\xed\xa0\x80", "\U0001F600", "\U000E0001", "\U0010FFFF", "a\xe2\x82", "\u00ad", "\u0378", "\u3000", " ", "\u00a0", "\u0085",
	"hello, world", "go.mod \"quoted\"", "C:\\path\\file", "tab\there", "日本語", "\xf4\x90\x80\x80",
}

var unquoteFixed = []string{
	`""`, `"a"`, `"\a\b\f\n\r\t\v\\\""`, `"\'"`, `"'"`, `'\''`, `'"'`, `'\"'`, `''`, `'a'`, `'ab'`, `'\x41'`, `'\u00e9'`, `'\U0001F600'`,
	"'\xff'", "'\u00e9'", "'\U0001F600'", "'\xe2\x82'", `'\101'`, `'\400'`, `'\x4'`, `'a`, `a'`, `'`, `"`, "`", "``", "`a`", "`a\rb`", "`\r`",
	"`a`b`", "`a``", "`\\n`", "`\"'`", "`\xff`", "`a\nb`", `"\x41\x4a"`, `"\x4"`, `"\x"`, `"\xg0"`, `"\xAb"`, `"\u00e9"`, `"\u00E9"`, `"\u12"`,
	`"\ud800"`, `"\udfff"`, `"\ud7ff"`, `"\ue000"`, `"\U0010FFFF"`, `"\U00110000"`, `"\UFFFFFFFF"`, `"\U80000000"`, `"\U0000d800"`, `"\U0001F60"`,
	`"\000"`, `"\377"`, `"\400"`, `"\777"`, `"\08"`, `"\8"`, `"\1"`, `"\12"`, `"\123"`, `"\1234"`, `"\u0041"`, `"\U00000041"`, `"\x80"`, `"\u0080"`,
	`"\q"`, `"\ "`, `"\`, `"\"`, `"\\"`, `"\\\"`, `"a"b"`, `"a""`, `""a`, `a""`, `"a`, `a"`, "\"a\nb\"", "\"a\rb\"", "\"\xff\"", "\"\xc0\x80\"",
	"\"\xed\xa0\x80\"", "\"a\xe2\x82\"", "\"\ufffd\"", "\"\u00e9\"", "\"日本語\"", "\"\x00\"", "\"\x7f\"", `"\n`, `"\x41`, `"\u0041`, `'\n'`, "'\n'",
	`'\\'`, `'\'`, `'''`, `'a''`, `"'`, `'"`, "`\"", "\"`", "", "a", "ab", `"\U0001F600\u00e9\x41\101\n"`, `"tab\there"`, `'\t'`, "'\t'", "\"\t\"",
	`"\a`, `"\x4"x`, ` "a"`, `"a" `, "\"\\\n\"", "'\\\n'", `"\c"`, `"\0"`, `"\00"`, `"\0000"`,
}

var escPieces = []string{
	`\a`, `\b`, `\f`, `\n`, `\r`, `\t`, `\v`, `\\`, `\'`, `\"`, `\x41`, `\x4`, `\x`, `\xff`, `\xFF`, `\xg1`, `\x00`, `\u00e9`, `\u12`, `\ud800`,
	`\udbff`, `\ue000`, `\uFFFD`, `\u0041`, `\U0001F600`, `\U00110000`, `\U0010ffff`, `\UFFFFFFFF`, `\U0001F60`, `\101`, `\377`, `\400`, `\8`, `\18`, `\0`,
	`\z`, `\`, `\ `, "\n", "\r", "\t", "\x00", "'", `"`, "`", "a", "b", " ", "é", "日", "😀", "\xff", "\xe2\x82", "\xed\xa0\x80", "\ufffd", "0", "7", "x", "u",
}

func genUnquote(r *rand.Rand) string {
	q := []string{`"`, `"`, `"`, `'`, "`"}[r.Intn(5)]
	mutate := func(s string) string {
		if len(s) == 0 {
			return s
		}
		b := []byte(s)
		i := r.Intn(len(b))
		chars := "\\\"'`\n\rxuU0789afz \xff\x80"
		switch r.Intn(4) {
		case 0:
			b[i] = chars[r.Intn(len(chars))]
		case 1:
			b = append(b[:i:i], b[i+1:]...)
		case 2:
			b = append(b[:i:i], append([]byte{chars[r.Intn(len(chars))]}, b[i:]...)...)
		default:
			b = b[:i]
		}
		return string(b)
	}
	switch k := r.Intn(20); {
	case k < 5:
		return strconv.Quote(GenText(r, 8, 1))
	case k < 7:
		return strconv.QuoteToASCII(GenText(r, 8, 1))
	case k < 9: // raw body in quotes of any kind
		return q + GenText(r, 6, 1) + q
	case k < 10:
		if r.Intn(2) == 0 {
			return strconv.QuoteRune(genRune(r))
		}
		return "'" + GenText(r, 2, 1) + "'"
	case k < 15: // assembled from escape pieces
		var b strings.Builder
		b.WriteString(q)
		for n := r.Intn(5); n > 0; n-- {
			b.WriteString(escPieces[r.Intn(len(escPieces))])
		}
		if r.Intn(8) != 0 {
			b.WriteString(q)
		}
		if r.Intn(12) == 0 {
			b.WriteString(escPieces[r.Intn(len(escPieces))])
		}
		return b.String()
	case k < 18:
		return mutate(strconv.Quote(GenText(r, 5, 1)))
	case k < 19:
		return mutate(unquoteFixed[r.Intn(len(unquoteFixed))])
	default:
		return randBytes(r, r.Intn(6))
	}
}

// BaseCases emits n correspondence cases per base function (the hand-written cases first,
// then generated ones), comparing Go's standard library with the models in coq/Base.
func BaseCases(c *hx.Ctx, n int) {
	r := c.Rng
	pick := func(i int, fixed []string, gen func() string) string {
		if i < len(fixed) {
			return fixed[i]
		}
		return gen()
	}
	for i := 0; i < n; i++ {
		baseSha(c, pick(i, shaFixed, func() string { return genSha(r) }))
	}
	for i := 0; i < n; i++ {
		baseB64Enc(c, randBytes(r, r.Intn(101)))
	}
	for i := 0; i < n; i++ {
		baseB64Dec(c, pick(i, b64DecFixed, func() string { return genB64Dec(r) }))
	}
	for i := 0; i < n; i++ {
		if i < len(intFixed) {
			baseFormatInt(c, intFixed[i])
		} else {
			baseFormatInt(c, genInt(r))
		}
	}
	for i := 0; i < n; i++ { // ParseInt64, Atoi and ParseUint64 on the same input
		baseParseInt(c, pick(i, intFixedStr, func() string { return genIntStr(r) }))
	}
	for i := 0; i < n; i++ {
		baseQuote(c, pick(i, quoteFixed, func() string { return GenText(r, 10, 1) }))
	}
	for i := 0; i < n; i++ {
		baseUnquote(c, pick(i, unquoteFixed, func() string { return genUnquote(r) }))
	}
	for i := 0; i < n; i++ { // Utf8Valid and Utf8Runes on the same input
		s := pick(i, badUTF8, func() string { return GenText(r, 6, 2) })
		if i >= len(badUTF8) && r.Intn(4) == 0 {
			s = randBytes(r, r.Intn(8))
		}
		baseUtf8(c, s)
	}
	for i := 0; i < n; i++ {
		switch r.Intn(4) {
		case 0:
			baseUtf8Encode(c, int64(r.Intn(0x110020))-16)
		case 1:
			baseUtf8Encode(c, int64(0xd7f0+r.Intn(0x820)))
		case 2:
			baseUtf8Encode(c, int64(int32(r.Uint32())))
		default:
			baseUtf8Encode(c, int64(genRune(r)))
		}
	}
}
