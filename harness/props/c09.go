package props

import (
	"bytes"
	"encoding/base64"
	"encoding/hex"
	"encoding/json"
	"fmt"
	"math/bits"
	"math/rand"
	"strings"
	"unicode/utf8"

	"golang.org/x/mod/sumdb/tlog"

	"verif/harness/gen"
	"verif/harness/hx"
	"verif/harness/wire"
)

func init() { hx.Register(&hx.Prop{ID: "C09", Run: runC09, Replay: replayC09}) }

type c09In struct {
	Op    string `json:"op"`
	Level int    `json:"level,omitempty"`
	N     int64  `json:"n,omitempty"`
	Sub   int64  `json:"sub,omitempty"` // sub-seed from which the records of a log are regenerated
	Hex   string `json:"hex,omitempty"`
	Hex2  string `json:"hex2,omitempty"`
}

// ---------------------------------------------------------------- oracles (implementation only)

// closed forms, independent of the implementation's loops
func c09SpecIndex(level int, n int64) int64 {
	m := (n+1)<<uint(level) - 1
	return 2*m - int64(bits.OnesCount64(uint64(m))) + int64(level)
}
func c09SpecCount(n int64) int64 { return 2*n - int64(bits.OnesCount64(uint64(n))) }

func c09Index(level int, n int64) string {
	var got int64
	if p, m := hx.Guard(func() { got = tlog.StoredHashIndex(level, n) }); p {
		return "StoredHashIndex panics: " + m
	}
	if want := c09SpecIndex(level, n); got != want {
		return fmt.Sprintf("StoredHashIndex(%d,%d)=%d, closed form %d", level, n, got, want)
	}
	var l2 int
	var n2 int64
	if p, m := hx.Guard(func() { l2, n2 = tlog.SplitStoredHashIndex(got) }); p {
		return fmt.Sprintf("SplitStoredHashIndex(%d) panics: %s", got, m)
	}
	if l2 != level || n2 != n {
		return fmt.Sprintf("SplitStoredHashIndex(StoredHashIndex(%d,%d)=%d) = (%d,%d)", level, n, got, l2, n2)
	}
	return ""
}

func c09Split(i int64) string {
	var l int
	var n int64
	if p, m := hx.Guard(func() { l, n = tlog.SplitStoredHashIndex(i) }); p {
		return fmt.Sprintf("SplitStoredHashIndex(%d) panics: %s", i, m)
	}
	if l < 0 || n < 0 {
		return fmt.Sprintf("SplitStoredHashIndex(%d) = (%d,%d) negative", i, l, n)
	}
	if back := tlog.StoredHashIndex(l, n); back != i {
		return fmt.Sprintf("StoredHashIndex(SplitStoredHashIndex(%d)=(%d,%d)) = %d", i, l, n, back)
	}
	// the hash (l,n) is written with record (n+1)*2^l - 1, which completes a level-l subtree
	if (n+1)<<uint(l)>>uint(l) != n+1 {
		return fmt.Sprintf("SplitStoredHashIndex(%d) = (%d,%d) overflows", i, l, n)
	}
	return ""
}

func c09Count(n int64) string {
	var got int64
	if p, m := hx.Guard(func() { got = tlog.StoredHashCount(n) }); p {
		return "StoredHashCount panics: " + m
	}
	if want := c09SpecCount(n); got != want {
		return fmt.Sprintf("StoredHashCount(%d)=%d, closed form %d", n, got, want)
	}
	return ""
}

// c09Log builds the log of n records regenerated from sub and evaluates the layout and tree
// hash clauses against the independent RFC 6962 implementation.
func c09Log(sub int64, n int) (msg string, l *gen.MemLog, rfc *gen.Rfc6962) {
	return c09LogOf(gen.LogRecords(rand.New(rand.NewSource(sub)), n))
}

func c09LogOf(records [][]byte) (msg string, l *gen.MemLog, rfc *gen.Rfc6962) {
	n := len(records)
	rfc = gen.NewRfc6962(records)
	l = &gen.MemLog{}
	check := func(m int) string {
		if got, want := int64(len(l.Hashes)), tlog.StoredHashCount(int64(m)); got != want {
			return fmt.Sprintf("after %d records the store has %d hashes, StoredHashCount says %d", m, got, want)
		}
		if got, want := int64(len(l.Hashes)), c09SpecCount(int64(m)); got != want {
			return fmt.Sprintf("after %d records the store has %d hashes, documented count %d", m, got, want)
		}
		var th tlog.Hash
		var err error
		if p, pm := hx.Guard(func() { th, err = tlog.TreeHash(int64(m), l.Reader()) }); p {
			return fmt.Sprintf("TreeHash(%d) panics: %s", m, pm)
		}
		if err != nil {
			return fmt.Sprintf("TreeHash(%d): %v", m, err)
		}
		if want := rfc.Root(m); th != want {
			return fmt.Sprintf("TreeHash(%d)=%v, RFC 6962 MTH of the first %d records is %v", m, th, m, want)
		}
		return ""
	}
	if msg = check(0); msg != "" {
		return
	}
	for i, d := range records {
		var hs []tlog.Hash
		var err error
		if p, pm := hx.Guard(func() { hs, err = l.Append(d) }); p {
			return fmt.Sprintf("StoredHashes(%d) panics: %s", i, pm), l, rfc
		}
		if err != nil {
			return fmt.Sprintf("StoredHashes(%d): %v", i, err), l, rfc
		}
		if start := tlog.StoredHashIndex(0, int64(i)); int64(len(l.Hashes)-len(hs)) != start {
			return fmt.Sprintf("record %d: hashes stored from %d, StoredHashIndex(0,%d)=%d", i, len(l.Hashes)-len(hs), i, start), l, rfc
		}
		if msg = check(i + 1); msg != "" {
			return
		}
	}
	// every stored hash is the RFC 6962 hash of its complete subtree
	for i := range l.Hashes {
		lv, o := tlog.SplitStoredHashIndex(int64(i))
		lo, hi := o<<uint(lv), (o+1)<<uint(lv)
		if hi > int64(n) {
			return fmt.Sprintf("stored position %d is (%d,%d), outside a log of %d records", i, lv, o, n), l, rfc
		}
		if want := rfc.MTH(int(lo), int(hi)); l.Hashes[i] != want {
			return fmt.Sprintf("stored hash %d = (%d,%d) is %v, RFC 6962 hash of records [%d,%d) is %v", i, lv, o, l.Hashes[i], lo, hi, want), l, rfc
		}
	}
	// every complete subtree inside the log is stored where StoredHashIndex says
	for lv := 0; 1<<uint(lv) <= n; lv++ {
		for o := int64(0); (o+1)<<uint(lv) <= int64(n); o++ {
			ix := tlog.StoredHashIndex(lv, o)
			if ix >= int64(len(l.Hashes)) {
				return fmt.Sprintf("subtree (%d,%d) of a log of %d records has index %d beyond the store (%d)", lv, o, n, ix, len(l.Hashes)), l, rfc
			}
		}
	}
	return "", l, rfc
}

// c09AliasLog appends the n records regenerated from sub one at a time through StoredHashes
// with a reader whose results alias its own memory (gen.AliasStore), and after every append
// re-checks the reader's memory (StoredHashes/TreeHash may only read it), the WHOLE store against
// the independent RFC 6962 hashes laid out by the documented order (record i contributes the
// subtrees (lv, i>>lv) for lv = 0..trailing ones of i), and TreeHash(m) for every m (for
// logs beyond 130 records: the last 16 sizes after each append and every m at the end).
func c09AliasLog(sub int64, n int) string {
	records := gen.LogRecords(rand.New(rand.NewSource(sub)), n)
	rfc := gen.NewRfc6962(records)
	store := gen.NewAliasStore()
	var want []tlog.Hash
	trees := func(from, to int) string {
		for m := from; m <= to; m++ {
			var th tlog.Hash
			var err error
			if p, pm := hx.Guard(func() { th, err = tlog.TreeHash(int64(m), store) }); p {
				return fmt.Sprintf("TreeHash(%d) on the aliasing store panics: %s", m, pm)
			}
			if err != nil {
				return fmt.Sprintf("TreeHash(%d) on the aliasing store: %v", m, err)
			}
			if w := rfc.Root(m); th != w {
				return fmt.Sprintf("after %d appends through StoredHashes, TreeHash(%d) on the aliasing store = %v, RFC 6962 MTH of the first %d records is %v", len(want), m, th, m, w)
			}
			if msg := store.Tampered(); msg != "" {
				return fmt.Sprintf("TreeHash(%d): %s", m, msg)
			}
		}
		return ""
	}
	for i, d := range records {
		var hs []tlog.Hash
		var err error
		if p, pm := hx.Guard(func() { hs, err = tlog.StoredHashes(int64(i), d, store) }); p {
			return fmt.Sprintf("StoredHashes(%d) on the aliasing store panics: %s", i, pm)
		}
		if err != nil {
			return fmt.Sprintf("StoredHashes(%d) on the aliasing store: %v", i, err)
		}
		if msg := store.Tampered(); msg != "" {
			return fmt.Sprintf("StoredHashes(%d, data, reader) wrote to memory owned by the reader: %s", i, msg)
		}
		for lv := 0; ; lv++ {
			want = append(want, rfc.MTH((i>>uint(lv))<<uint(lv), i+1))
			if (i>>uint(lv))&1 == 0 {
				break
			}
		}
		store.Add(hs)
		if len(store.Hashes) != len(want) {
			return fmt.Sprintf("after record %d the store has %d hashes, the documented layout has %d", i, len(store.Hashes), len(want))
		}
		for j := range want {
			if store.Hashes[j] != want[j] {
				return fmt.Sprintf("after record %d stored position %d is %v, the RFC 6962 hash of its subtree is %v", i, j, store.Hashes[j], want[j])
			}
		}
		from := 0
		if i >= 130 {
			from = i + 1 - 16
		}
		if msg := trees(from, i+1); msg != "" {
			return msg
		}
	}
	return trees(0, n)
}

func c09Tree(n int64, h tlog.Hash) string {
	text := tlog.FormatTree(tlog.Tree{N: n, Hash: h})
	t, err := tlog.ParseTree(text)
	if n < 0 {
		if err == nil {
			return fmt.Sprintf("ParseTree accepts negative size %d", n)
		}
		return ""
	}
	if err != nil {
		return fmt.Sprintf("ParseTree(FormatTree(%d,%v)): %v", n, h, err)
	}
	if t.N != n || t.Hash != h {
		return fmt.Sprintf("ParseTree(FormatTree(%d,%v)) = (%d,%v)", n, h, t.N, t.Hash)
	}
	// later lines are ignored
	if t2, err := tlog.ParseTree(append(text, "extra line\n"...)); err != nil || t2 != t {
		return fmt.Sprintf("ParseTree with an additional line: %v %v", t2, err)
	}
	return ""
}

// c09SpecValidText is the documented rule for record text, written independently: valid UTF-8,
// no ASCII control characters other than newline, ends in a newline, no empty line inside.
// (A text that BEGINS with a newline is accepted by the implementation and round-trips; the
// rule here follows that, see the report.)
// c09TreeText: whatever ParseTree accepts must be a canonical encoding of what it returns:
// first line the fixed header, second line exactly the decimal size (non-negative, no sign,
// no leading zeros), third line a base64 form of the 32-byte hash.
func c09TreeText(text []byte) string {
	var t tlog.Tree
	var err error
	if p, m := hx.Guard(func() { t, err = tlog.ParseTree(text) }); p {
		return "ParseTree panics: " + m
	}
	if err != nil {
		return ""
	}
	lines := strings.SplitN(string(text), "\n", 4)
	if len(lines) < 4 || lines[0] != "go.sum database tree" {
		return fmt.Sprintf("ParseTree accepts %q without the three lines", text)
	}
	if t.N < 0 || lines[1] != fmt.Sprint(t.N) {
		return fmt.Sprintf("ParseTree(%q) returns size %d for the size line %q", text, t.N, lines[1])
	}
	h, err := base64.StdEncoding.DecodeString(lines[2])
	if err != nil || len(h) != 32 || !bytes.Equal(h, t.Hash[:]) {
		return fmt.Sprintf("ParseTree(%q) returns hash %v for the hash line %q", text, t.Hash, lines[2])
	}
	return ""
}

func c09SpecValidText(text []byte) bool {
	if !utf8.Valid(text) || len(text) == 0 || text[len(text)-1] != '\n' {
		return false
	}
	for _, b := range text {
		if b < 0x20 && b != '\n' {
			return false
		}
	}
	return !bytes.Contains(text, []byte("\n\n"))
}

func c09Record(id int64, text, rest []byte) string {
	msg, err := tlog.FormatRecord(id, text)
	if (err == nil) != c09SpecValidText(text) {
		return fmt.Sprintf("FormatRecord(%d,%q) err=%v but documented validity is %v", id, text, err, c09SpecValidText(text))
	}
	if err != nil {
		return ""
	}
	id2, text2, rest2, err := tlog.ParseRecord(append(append([]byte(nil), msg...), rest...))
	if err != nil {
		return fmt.Sprintf("ParseRecord(FormatRecord(%d,%q)+%q): %v", id, text, rest, err)
	}
	if id2 != id || !bytes.Equal(text2, text) || !bytes.Equal(rest2, rest) {
		return fmt.Sprintf("ParseRecord(FormatRecord(%d,%q)+%q) = (%d,%q,%q)", id, text, rest, id2, text2, rest2)
	}
	return ""
}

// c09HashJSON: a hash survives encoding/json in every position a value can take (bare value,
// pointer, struct field, map value, slice element, tlog.Tree by value): the text is the base64
// string form and decoding gives the same hash back.
func c09HashJSON(h tlog.Hash, n int64) string {
	want := `"` + base64.StdEncoding.EncodeToString(h[:]) + `"`
	type holder struct{ H tlog.Hash }
	type pholder struct{ H *tlog.Hash }
	hp := h
	forms := []struct {
		name string
		v    any
		text string
		back func(js []byte) (tlog.Hash, error)
	}{
		{"bare Hash value", h, want, func(js []byte) (x tlog.Hash, err error) { err = json.Unmarshal(js, &x); return }},
		{"*Hash", &hp, want, func(js []byte) (x tlog.Hash, err error) { err = json.Unmarshal(js, &x); return }},
		{"struct{H Hash} by value", holder{h}, `{"H":` + want + `}`, func(js []byte) (tlog.Hash, error) { var x holder; err := json.Unmarshal(js, &x); return x.H, err }},
		{"*struct{H Hash}", &holder{h}, `{"H":` + want + `}`, func(js []byte) (tlog.Hash, error) { var x holder; err := json.Unmarshal(js, &x); return x.H, err }},
		{"struct{H *Hash}", pholder{&hp}, `{"H":` + want + `}`, func(js []byte) (tlog.Hash, error) {
			var x pholder
			err := json.Unmarshal(js, &x)
			if x.H == nil {
				return tlog.Hash{}, fmt.Errorf("nil after %v", err)
			}
			return *x.H, err
		}},
		{"map[string]Hash", map[string]tlog.Hash{"k": h}, `{"k":` + want + `}`, func(js []byte) (tlog.Hash, error) { var x map[string]tlog.Hash; err := json.Unmarshal(js, &x); return x["k"], err }},
		{"[]Hash", []tlog.Hash{h}, `[` + want + `]`, func(js []byte) (tlog.Hash, error) {
			var x []tlog.Hash
			err := json.Unmarshal(js, &x)
			if len(x) != 1 {
				return tlog.Hash{}, fmt.Errorf("%d elements after %v", len(x), err)
			}
			return x[0], err
		}},
		{"[1]Hash by value", [1]tlog.Hash{h}, `[` + want + `]`, func(js []byte) (tlog.Hash, error) { var x [1]tlog.Hash; err := json.Unmarshal(js, &x); return x[0], err }},
		{"tlog.Tree by value", tlog.Tree{N: n, Hash: h}, fmt.Sprintf(`{"N":%d,"Hash":%s}`, n, want), func(js []byte) (tlog.Hash, error) {
			var x tlog.Tree
			err := json.Unmarshal(js, &x)
			if err == nil && x.N != n {
				err = fmt.Errorf("N=%d", x.N)
			}
			return x.Hash, err
		}},
		{"interface holding a Hash", any(h), want, func(js []byte) (x tlog.Hash, err error) { err = json.Unmarshal(js, &x); return }},
	}
	for _, f := range forms {
		var js []byte
		var err error
		if p, pm := hx.Guard(func() { js, err = json.Marshal(f.v) }); p {
			return fmt.Sprintf("json.Marshal(%s) panics: %s", f.name, pm)
		}
		if err != nil {
			return fmt.Sprintf("json.Marshal(%s): %v", f.name, err)
		}
		if string(js) != f.text {
			return fmt.Sprintf("json.Marshal(%s) = %s, want the base64 string form %s", f.name, js, f.text)
		}
		var back tlog.Hash
		if p, pm := hx.Guard(func() { back, err = f.back(js) }); p {
			return fmt.Sprintf("json.Unmarshal(%s) panics: %s", f.name, pm)
		}
		if err != nil || back != h {
			return fmt.Sprintf("json.Unmarshal(json.Marshal(%s)) = %v, %v; want %v", f.name, back, err, h)
		}
	}
	return ""
}

func c09Hash(h tlog.Hash) string {
	h2, err := tlog.ParseHash(h.String())
	if err != nil || h2 != h {
		return fmt.Sprintf("ParseHash(%q) = %v, %v", h.String(), h2, err)
	}
	js, _ := h.MarshalJSON()
	var h3 tlog.Hash
	if err := h3.UnmarshalJSON(js); err != nil || h3 != h {
		return fmt.Sprintf("UnmarshalJSON(MarshalJSON(%v)) = %v, %v", h, h3, err)
	}
	return ""
}

// ---------------------------------------------------------------- implementation results as wire values

func tlImplSplit(i int64) wire.Val {
	var l int
	var n int64
	if p, _ := hx.Guard(func() { l, n = tlog.SplitStoredHashIndex(i) }); p {
		return wire.Panic()
	}
	return wire.Ok(wire.L(wire.Int(l), wire.I(n)))
}

func tlImplHashes(f func() ([]tlog.Hash, error)) wire.Val {
	var hs []tlog.Hash
	var err error
	if p, _ := hx.Guard(func() { hs, err = f() }); p {
		return wire.Panic()
	}
	if err != nil {
		return gen.TlogErrVal(err)
	}
	return wire.Ok(gen.HashesVal(hs))
}

func tlImplHash(f func() (tlog.Hash, error)) wire.Val {
	var h tlog.Hash
	var err error
	if p, _ := hx.Guard(func() { h, err = f() }); p {
		return wire.Panic()
	}
	if err != nil {
		return gen.TlogErrVal(err)
	}
	return wire.Ok(wire.Bytes(h[:]))
}

func tlImplParseTree(text []byte) wire.Val {
	var t tlog.Tree
	var err error
	if p, _ := hx.Guard(func() { t, err = tlog.ParseTree(text) }); p {
		return wire.Panic()
	}
	if err != nil {
		return gen.TlogErrVal(err)
	}
	return wire.Ok(wire.L(wire.I(t.N), wire.Bytes(t.Hash[:])))
}

func tlImplParseRecord(msg []byte) wire.Val {
	var id int64
	var text, rest []byte
	var err error
	if p, _ := hx.Guard(func() { id, text, rest, err = tlog.ParseRecord(msg) }); p {
		return wire.Panic()
	}
	if err != nil {
		return gen.TlogErrVal(err)
	}
	return wire.Ok(wire.L(wire.I(id), wire.Bytes(text), wire.Bytes(rest)))
}

func tlImplFormatRecord(id int64, text []byte) wire.Val {
	var msg []byte
	var err error
	if p, _ := hx.Guard(func() { msg, err = tlog.FormatRecord(id, text) }); p {
		return wire.Panic()
	}
	if err != nil {
		return gen.TlogErrVal(err)
	}
	return wire.Ok(wire.Bytes(msg))
}

func tlImplParseHash(s string) wire.Val {
	return tlImplHash(func() (tlog.Hash, error) { return tlog.ParseHash(s) })
}

func tlImplUnmarshal(data []byte) wire.Val {
	return tlImplHash(func() (tlog.Hash, error) {
		var h tlog.Hash
		// a recognisable previous value: UnmarshalJSON must not touch it on error
		err := h.UnmarshalJSON(data)
		return h, err
	})
}

// ---------------------------------------------------------------- generators

var c09RecordLines = []string{"golang.org/x/text v0.3.0 h1:g61tztE5qeGQ89tm6NTjjM9VPIm088od1l6aSorWRWg=", "golang.org/x/text v0.3.0/go.mod h1:NqM8EUOU14njkJ3fqMW+pc6Ldnwhi/IjpwHt7yyuwOQ=",
	"hello", "a", "é", "日本語", "x y z", " ", "😀", "�", "tab\there", "\x7f", "ctl\x01", "nul\x00", "cr\r", "\xff", "\xc3", "\xe2\x82", "\xed\xa0\x80", "\xc0\xaf", ""}

func c09RecordText(r *rand.Rand) []byte {
	var b strings.Builder
	if r.Intn(12) == 0 {
		b.WriteString("\n")
	}
	n := r.Intn(4)
	for i := 0; i <= n; i++ {
		var line string
		if r.Intn(5) > 0 {
			line = c09RecordLines[r.Intn(9)] // valid lines
		} else {
			line = c09RecordLines[r.Intn(len(c09RecordLines))]
		}
		b.WriteString(line)
		if i < n || r.Intn(10) > 0 {
			b.WriteString("\n")
		}
	}
	if r.Intn(15) == 0 {
		b.WriteString("\n")
	}
	return []byte(b.String())
}

func c09MutateBytes(r *rand.Rand, s []byte, alphabet string) []byte {
	return []byte(gen.Mutate(r, string(s), alphabet))
}

func runC09(c *hx.Ctx) {
	r := c.Rng

	// ---- index arithmetic
	index := func(level int, n int64) {
		var got int64
		p, _ := hx.Guard(func() { got = tlog.StoredHashIndex(level, n) })
		if p {
			c.Case("StoredHashIndex", wire.L(wire.Int(level), wire.I(n)), wire.Panic())
		} else {
			c.Case("StoredHashIndex", wire.L(wire.Int(level), wire.I(n)), wire.I(got))
		}
		if n >= 0 && level >= 0 {
			msg := c09Index(level, n)
			c.Check("index-closed-form+split-inverts-index", msg == "", "", c09In{Op: "index", Level: level, N: n}, msg)
			c.Nontrivial(fmt.Sprintf("i:%d:%d", level, n))
			c.Count(fmt.Sprintf("index-level-bucket=%d", level/8))
		}
	}
	split := func(i int64) {
		c.Case("SplitStoredHashIndex", wire.I(i), tlImplSplit(i))
		if i >= 0 {
			msg := c09Split(i)
			c.Check("index-inverts-split", msg == "", "", c09In{Op: "split", N: i}, msg)
			c.Nontrivial(fmt.Sprintf("s:%d", i))
			if l, _ := tlog.SplitStoredHashIndex(i); true {
				c.Count(fmt.Sprintf("split-level=%d", min(l, 8)))
			}
		} else {
			c.Count("split-negative")
		}
	}
	count := func(n int64) {
		var got int64
		hx.Guard(func() { got = tlog.StoredHashCount(n) })
		c.Case("StoredHashCount", wire.I(n), wire.I(got))
		if n >= 0 {
			msg := c09Count(n)
			c.Check("count-closed-form", msg == "", "", c09In{Op: "count", N: n}, msg)
		}
	}
	for level := 0; level <= 12; level++ {
		for n := int64(0); n < 120; n++ {
			index(level, n)
		}
	}
	for i := int64(0); i < 3000; i++ {
		split(i)
		count(i)
	}
	for i := 0; i < c.N(9000); i++ {
		level := r.Intn(41)
		if r.Intn(4) == 0 {
			level = r.Intn(62)
		}
		n := gen.RandSize(r, 61-level) // (n+1)<<level <= 2^61
		index(level, n)
	}
	for i := 0; i < c.N(6000); i++ {
		split(gen.RandSize(r, 62))
	}
	for i := 0; i < c.N(3000); i++ {
		level := r.Intn(62)
		ix := tlog.StoredHashIndex(level, gen.RandSize(r, 61-level))
		split(ix + int64(r.Intn(3)) - 1)
	}
	for i := 0; i < c.N(3000); i++ {
		count(gen.RandSize(r, 62))
	}
	for _, n := range []int64{-1, -2, -3, -4, -7, -8, -1 << 40} {
		split(n)
		count(n)
		index(0, n)
		index(3, n)
	}
	index(-1, 5)
	index(-3, 0)

	// ---- leaf hash at EVERY length 0..1100 (random content; same content, last byte changed)
	for n := 0; n <= 1100; n++ {
		d := make([]byte, n)
		r.Read(d)
		for k := 0; k < 2 && (k == 0 || n > 0); k++ {
			if k == 1 {
				d[n-1] ^= byte(1 + r.Intn(255))
			}
			if rh := tlog.RecordHash(d); rh != gen.RfcLeaf(d) {
				c.Check("record-hash-is-sha256(0x00||data)", false, "", c09In{Op: "leaf", Hex: hex.EncodeToString(d)}, rh.String())
			} else {
				c.Check("record-hash-is-sha256(0x00||data)", true, "", nil, "")
			}
		}
		c.Count("record-hash-length-sweep")
	}
	// ---- logs whose records have boundary lengths (60..70, 127..130, 254..258, 510..514)
	for _, n := range []int{26, 33 + r.Intn(40)} {
		sub := r.Int63()
		msg, _, _ := c09LogOf(gen.BoundaryLenRecords(rand.New(rand.NewSource(sub)), n))
		c.Check("log: store length, tree hash of every prefix and every stored hash vs independent RFC 6962", msg == "", "", c09In{Op: "lenlog", Sub: sub, N: int64(n)}, msg)
		c.Count("boundary-length-log")
	}

	// ---- logs written through a reader whose results alias its own storage (oracle only)
	for _, n := range []int{131, 259 + r.Intn(8)*8, 515 + r.Intn(4)*8, 1027 + r.Intn(2)*8, 3 + 8*r.Intn(12), r.Intn(300)} {
		sub := r.Int63()
		msg := c09AliasLog(sub, n)
		c.Check("aliasing-reader: StoredHashes/TreeHash only read the reader's result; store and every prefix tree hash stay RFC 6962", msg == "", "", c09In{Op: "aliaslog", Sub: sub, N: int64(n)}, msg)
		c.Count("aliasing-reader-log")
	}

	// ---- logs
	var sizes []int
	for p := 0; p <= 10; p++ {
		sizes = append(sizes, 1<<uint(p)-1, 1<<uint(p), 1<<uint(p)+1)
	}
	for len(sizes) < c.N(250) {
		switch r.Intn(3) {
		case 0:
			sizes = append(sizes, r.Intn(70))
		case 1:
			sizes = append(sizes, r.Intn(400))
		default:
			sizes = append(sizes, r.Intn(1100))
		}
	}
	if c.Tier == "thorough" {
		sizes = append(sizes, 20000+r.Intn(30000), 4096, 8191, 16385)
	}
	for _, n := range sizes {
		sub := r.Int63()
		msg, l, rfc := c09Log(sub, n)
		c.Check("log: store length, tree hash of every prefix and every stored hash vs independent RFC 6962", msg == "", "", c09In{Op: "log", Sub: sub, N: int64(n)}, msg)
		c.Nontrivial(fmt.Sprintf("log:%d", n))
		c.Count(fmt.Sprintf("log-size-bits=%d", bits.Len(uint(n))))
		if msg != "" || len(l.Records) != n {
			continue
		}
		_ = rfc
		// correspondence: StoredHashes for some records, with the hashes it read as the table
		for k := 0; k < 5 && n > 0; k++ {
			i := r.Intn(n)
			if k == 0 {
				i = n - 1
			}
			if k == 1 && n > 1 { // a record completing a large subtree
				i = 1<<uint(bits.Len(uint(n))-1) - 1
			}
			rr := &gen.RecReader{R: gen.StoreReader(l.Hashes)}
			tlog.StoredHashes(int64(i), l.Records[i], rr)
			mode := 0
			table := rr.Table
			switch r.Intn(12) {
			case 0:
				mode = 1
			case 1:
				mode = 2
			case 2:
				mode = 3
			case 3:
				if len(table) > 0 { // a missing entry
					j := r.Intn(len(table))
					table = append(append([]gen.IndexHash(nil), table[:j]...), table[j+1:]...)
				}
			}
			c.Count(fmt.Sprintf("reader-mode=%d", mode))
			if r.Intn(2) == 0 {
				c.Case("StoredHashes", wire.L(wire.I(int64(i)), wire.Bytes(l.Records[i]), gen.ReaderVal(mode, table)),
					tlImplHashes(func() ([]tlog.Hash, error) {
						return tlog.StoredHashes(int64(i), l.Records[i], gen.TableReader(mode, table))
					}))
			} else {
				h := tlog.RecordHash(l.Records[i])
				c.Case("StoredHashesForRecordHash", wire.L(wire.I(int64(i)), wire.Bytes(h[:]), gen.ReaderVal(mode, table)),
					tlImplHashes(func() ([]tlog.Hash, error) {
						return tlog.StoredHashesForRecordHash(int64(i), h, gen.TableReader(mode, table))
					}))
			}
		}
		// correspondence: TreeHash for some prefix sizes
		for k := 0; k < 5; k++ {
			m := r.Intn(n + 1)
			if k == 0 {
				m = n
			}
			rr := &gen.RecReader{R: gen.StoreReader(l.Hashes)}
			tlog.TreeHash(int64(m), rr)
			mode := 0
			table := rr.Table
			switch r.Intn(12) {
			case 0:
				mode = 1
			case 1:
				mode = 2
			case 2:
				mode = 3
			case 3:
				if len(table) > 0 {
					table = table[1:]
				}
			}
			c.Count(fmt.Sprintf("reader-mode=%d", mode))
			c.Case("TreeHash", wire.L(wire.I(int64(m)), gen.ReaderVal(mode, table)),
				tlImplHash(func() (tlog.Hash, error) { return tlog.TreeHash(int64(m), gen.TableReader(mode, table)) }))
		}
	}
	// TreeHash of a negative size: the implementation indexes hashes[-1]
	c.Case("TreeHash", wire.L(wire.I(-1), gen.ReaderVal(0, nil)),
		tlImplHash(func() (tlog.Hash, error) { return tlog.TreeHash(-1, gen.TableReader(0, nil)) }))
	c.Case("TreeHash", wire.L(wire.I(0), gen.ReaderVal(3, nil)),
		tlImplHash(func() (tlog.Hash, error) { return tlog.TreeHash(0, gen.TableReader(3, nil)) }))
	for i := 0; i < c.N(150); i++ {
		d := make([]byte, r.Intn(1+r.Intn(300)))
		if i < 24 {
			d = make([]byte, []int{0, 1, 54, 55, 56, 57, 62, 63, 64, 65, 118, 119, 120, 127, 128, 129, 183, 184, 254, 255, 256, 257, 258, 300}[i])
		}
		r.Read(d)
		rh := tlog.RecordHash(d)
		c.Case("RecordHash", wire.Bytes(d), wire.Bytes(rh[:]))
		if want := gen.RfcLeaf(d); rh != want {
			c.Check("record-hash-is-sha256(0x00||data)", false, "", c09In{Op: "leaf", Hex: hex.EncodeToString(d)}, rh.String())
		} else {
			c.Check("record-hash-is-sha256(0x00||data)", true, "", nil, "")
		}
		a, b := gen.RandHash(r), gen.RandHash(r)
		nh := tlog.NodeHash(a, b)
		c.Case("NodeHash", wire.L(wire.Bytes(a[:]), wire.Bytes(b[:])), wire.Bytes(nh[:]))
		c.Check("node-hash-is-sha256(0x01||l||r)", nh == gen.RfcNode(a, b), "", c09In{Op: "node", Hex: hex.EncodeToString(a[:]), Hex2: hex.EncodeToString(b[:])}, nh.String())
	}

	// ---- codecs
	for i := 0; i < c.N(1500); i++ {
		n := gen.RandSize(r, 63)
		if n < 0 {
			n = 1<<63 - 1
		}
		switch r.Intn(10) {
		case 0:
			n = -gen.RandSize(r, 40) - 1
		case 1:
			n = 1<<63 - 1
		}
		h := gen.RandHash(r)
		text := tlog.FormatTree(tlog.Tree{N: n, Hash: h})
		c.Case("FormatTree", wire.L(wire.I(n), wire.Bytes(h[:])), wire.Bytes(text))
		c.Case("ParseTree", wire.Bytes(text), tlImplParseTree(text))
		msg := c09Tree(n, h)
		c.Check("tree-roundtrip", msg == "", "", c09In{Op: "tree", N: n, Hex: hex.EncodeToString(h[:])}, msg)
		if n >= 0 {
			c.Nontrivial("t:" + string(text))
		}
		// near-valid variants
		for k := 0; k < 3; k++ {
			var m []byte
			switch r.Intn(14) {
			case 0:
				m = append(append([]byte(nil), text...), "more\nlines\n"...)
			case 1:
				m = text[:len(text)-1] // no final newline
			case 2:
				m = bytes.Replace(text, []byte("\n"), []byte("\n+"), 1)
			case 3:
				m = bytes.Replace(text, []byte("\n"), []byte("\n0"), 1)
			case 4:
				m = []byte(fmt.Sprintf("go.sum database tree\n%s\n%s\n", pick09(r, "-0", "9223372036854775808", "18446744073709551616", "", " 1", "1 ", "0x10", "1_000", "00", "-1"), h))
			case 5:
				m = []byte(fmt.Sprintf("go.sum database tree\n%d\n%s\n", n, h.String()[:r.Intn(44)]))
			case 6:
				hs := h.String()
				j := r.Intn(len(hs))
				m = []byte(fmt.Sprintf("go.sum database tree\n%d\n%s\n", n, hs[:j]+pick09(r, "\r", "=", " ", "-", "_")+hs[j:]))
			case 7:
				m = []byte(fmt.Sprintf("go.sum database tree\n%d\n%s\n", n, strings.TrimRight(h.String(), "=")))
			case 8:
				m = []byte(fmt.Sprintf("go.sum database tree v2\n%d\n%s\n", n, h))
			case 9:
				m = []byte(fmt.Sprintf("go.sum database tree\n%d\n%s", n, h.String()+h.String()[:4*r.Intn(3)]+"\n"))
			case 10:
				hs := []byte(h.String())
				hs[42] = "ABCDEFGHIJKLMNOPQRSTUVWXYZabcdefghijklmnopqrstuvwxyz0123456789+/"[r.Intn(64)] // non-zero trailing bits
				m = []byte(fmt.Sprintf("go.sum database tree\n%d\n%s\n", n, hs))
			case 11:
				m = text[:r.Intn(len(text))]
			default:
				m = c09MutateBytes(r, text, "\n0123456789=+/Aa\r -")
			}
			c.Case("ParseTree", wire.Bytes(m), tlImplParseTree(m))
			tmsg := c09TreeText(m)
			c.Check("parse-tree-accepts-only-canonical-size-and-hash", tmsg == "", "", c09In{Op: "treetext", Hex: hex.EncodeToString(m)}, tmsg)
			if _, err := tlog.ParseTree(m); err == nil {
				c.Count("parse-tree-variant=accepted")
			} else {
				c.Count("parse-tree-variant=rejected")
			}
		}
	}
	// (the 1e6-byte length limit of ParseTree is not exercised: inputs of that size overflow the
	// stack of the extracted driver's list functions)
	for i := 0; i < c.N(2500); i++ {
		id := gen.RandSize(r, 63)
		if id < 0 {
			id = 1<<63 - 1
		}
		if r.Intn(8) == 0 {
			id = -id
		}
		text := c09RecordText(r)
		rest := []byte(pick09(r, "", "", "more", "\n", "\n\n", "17\nnext\n\n", "\xff"))
		c.Case("FormatRecord", wire.L(wire.I(id), wire.Bytes(text)), tlImplFormatRecord(id, text))
		msg := c09Record(id, text, rest)
		c.Check("record-roundtrip+format-fails-iff-invalid", msg == "", "", c09In{Op: "record", N: id, Hex: hex.EncodeToString(text), Hex2: hex.EncodeToString(rest)}, msg)
		full, err := tlog.FormatRecord(id, text)
		if err == nil {
			c.Count("record-text=valid")
			c.Nontrivial("r:" + string(text))
			full = append(full, rest...)
		} else {
			c.Count("record-text=invalid")
			full = append([]byte(fmt.Sprintf("%d\n", id)), append(text, '\n')...)
		}
		c.Case("ParseRecord", wire.Bytes(full), tlImplParseRecord(full))
		for k := 0; k < 2; k++ {
			var m []byte
			switch r.Intn(6) {
			case 0:
				m = full[:r.Intn(len(full)+1)]
			case 1:
				m = append([]byte(pick09(r, "+", "-", "0", " ", "0x", "9223372036854775808", "\n")), full...)
			default:
				m = c09MutateBytes(r, full, "\n\n0123456789-+ a\x00\xff\xc3")
			}
			c.Case("ParseRecord", wire.Bytes(m), tlImplParseRecord(m))
			if _, _, _, err := tlog.ParseRecord(m); err == nil {
				c.Count("parse-record-variant=accepted")
			} else {
				c.Count("parse-record-variant=rejected")
			}
		}
	}
	for i := 0; i < c.N(1200); i++ {
		h := gen.RandHash(r)
		s := h.String()
		c.Case("HashString", wire.Bytes(h[:]), wire.S(s))
		c.Case("ParseHash", wire.S(s), tlImplParseHash(s))
		msg := c09Hash(h)
		c.Check("hash-text-roundtrip", msg == "", "", c09In{Op: "hash", Hex: hex.EncodeToString(h[:])}, msg)
		if i%4 == 0 {
			tn := gen.RandSize(r, 62)
			jmsg := c09HashJSON(h, tn)
			c.Check("hash-survives-encoding/json-in-every-position", jmsg == "", "", c09In{Op: "hashjson", N: tn, Hex: hex.EncodeToString(h[:])}, jmsg)
		}
		js, _ := h.MarshalJSON()
		c.Case("HashMarshalJSON", wire.Bytes(h[:]), wire.Bytes(js))
		c.Case("HashUnmarshalJSON", wire.Bytes(js), tlImplUnmarshal(js))
		var m string
		switch r.Intn(8) {
		case 0:
			m = s[:r.Intn(len(s))]
		case 1:
			j := r.Intn(len(s))
			m = s[:j] + pick09(r, "\n", "\r", "\r\n", "=") + s[j:]
		case 2:
			m = s + s[:4*(1+r.Intn(2))]
		case 3:
			m = strings.TrimRight(s, "=")
		case 4:
			b := make([]byte, r.Intn(40))
			r.Read(b)
			m = base64.StdEncoding.EncodeToString(b)
		default:
			m = gen.Mutate(r, s, "=\n\r+/-_ Aa09")
		}
		c.Case("ParseHash", wire.S(m), tlImplParseHash(m))
		if _, err := tlog.ParseHash(m); err == nil {
			c.Count("parse-hash-variant=accepted")
		} else {
			c.Count("parse-hash-variant=rejected")
		}
		var mj []byte
		switch r.Intn(6) {
		case 0:
			mj = []byte(`"` + m + `"`)
		case 1:
			j := 1 + r.Intn(43)
			mj = append([]byte(nil), js...)
			mj[j] = "\n\r=\"-_ "[r.Intn(7)]
		case 2:
			mj = js[:r.Intn(len(js))]
		default:
			mj = c09MutateBytes(r, js, "\"=\n\r+/Aa09")
		}
		c.Case("HashUnmarshalJSON", wire.Bytes(mj), tlImplUnmarshal(mj))
	}
	c.Sample(fmt.Sprintf("logs of sizes %v ...", sizes[:40]))
}

func pick09(r *rand.Rand, ss ...string) string { return ss[r.Intn(len(ss))] }

func replayC09(raw json.RawMessage) (bool, string) {
	var in c09In
	if err := json.Unmarshal(raw, &in); err != nil {
		return false, err.Error()
	}
	b1, _ := hex.DecodeString(in.Hex)
	b2, _ := hex.DecodeString(in.Hex2)
	var h1, h2 tlog.Hash
	copy(h1[:], b1)
	copy(h2[:], b2)
	var msg string
	switch in.Op {
	case "index":
		msg = c09Index(in.Level, in.N)
	case "split":
		msg = c09Split(in.N)
	case "count":
		msg = c09Count(in.N)
	case "log":
		msg, _, _ = c09Log(in.Sub, int(in.N))
	case "lenlog":
		msg, _, _ = c09LogOf(gen.BoundaryLenRecords(rand.New(rand.NewSource(in.Sub)), int(in.N)))
	case "hashjson":
		msg = c09HashJSON(h1, in.N)
	case "aliaslog":
		msg = c09AliasLog(in.Sub, int(in.N))
	case "tree":
		msg = c09Tree(in.N, h1)
	case "treetext":
		msg = c09TreeText(b1)
	case "record":
		msg = c09Record(in.N, b1, b2)
	case "hash":
		msg = c09Hash(h1)
	case "leaf":
		if got := tlog.RecordHash(b1); got != gen.RfcLeaf(b1) {
			msg = "RecordHash differs from SHA-256(0x00||data): " + got.String()
		}
	case "node":
		if got := tlog.NodeHash(h1, h2); got != gen.RfcNode(h1, h2) {
			msg = "NodeHash differs from SHA-256(0x01||l||r): " + got.String()
		}
	default:
		return false, "unknown op " + in.Op
	}
	return msg == "", msg
}
