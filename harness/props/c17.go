package props

import (
	"bytes"
	"encoding/json"
	"fmt"
	"os"
	"path"
	"path/filepath"
	"strings"
	"sync"

	"golang.org/x/mod/module"
	modzip "golang.org/x/mod/zip"

	"verif/harness/gen"
	"verif/harness/hx"
	"verif/harness/wire"
)

func init() { hx.Register(&hx.Prop{ID: "C17", Run: runC17, Replay: replayC17}) }

// ---- oracles (on the implementation only) -------------------------------------------------

func c17ListOracles(files []gen.ZipFileSpec) (partition, rules string, cf modzip.CheckedFiles) {
	cf, _ = modzip.CheckFiles(gen.ToZipFiles(files))
	return zipPartitionCheck(files, cf), zipSpecCompare(files, cf), cf
}

func zipHasCollision(cf modzip.CheckedFiles) bool {
	for _, fe := range cf.Invalid {
		if strings.HasPrefix(zipFileErrKind(fe.Err), "coll-") {
			return true
		}
	}
	return false
}

func zipErrMap(fes []modzip.FileError) map[string]string {
	m := map[string]string{}
	for _, fe := range fes {
		m[fe.Path] = zipFileErrKind(fe.Err)
	}
	return m
}

// c17OrderOracle: for two orders of the same files without collisions (and with a single
// root go.mod at most, which fixes the go version), the same paths are valid, omitted and
// invalid for the same reasons.
func c17OrderOracle(a, b []gen.ZipFileSpec) string {
	cfa, _ := modzip.CheckFiles(gen.ToZipFiles(a))
	cfb, _ := modzip.CheckFiles(gen.ToZipFiles(b))
	seen := map[string]bool{}
	roots := 0
	for _, f := range a {
		if seen[f.P] {
			return "" // repeated paths: which occurrence is reported depends on the order
		}
		seen[f.P] = true
		if f.P == "go.mod" {
			roots++
		}
	}
	if zipHasCollision(cfa) || zipHasCollision(cfb) {
		if zipHasCollision(cfa) != zipHasCollision(cfb) {
			return fmt.Sprintf("collisions are reported in one order only: %v / %v", cfa.Invalid, cfb.Invalid)
		}
		return ""
	}
	set := func(l []string) map[string]bool {
		m := map[string]bool{}
		for _, s := range l {
			m[s] = true
		}
		return m
	}
	va, vb := set(cfa.Valid), set(cfb.Valid)
	if len(va) != len(vb) {
		return fmt.Sprintf("Valid differs between orders: %q / %q", cfa.Valid, cfb.Valid)
	}
	for p := range va {
		if !vb[p] {
			return fmt.Sprintf("Valid differs between orders: %q / %q", cfa.Valid, cfb.Valid)
		}
	}
	for _, pr := range [][2]map[string]string{{zipErrMap(cfa.Omitted), zipErrMap(cfb.Omitted)}, {zipErrMap(cfa.Invalid), zipErrMap(cfb.Invalid)}} {
		if len(pr[0]) != len(pr[1]) {
			return fmt.Sprintf("reports differ between orders: %v / %v", pr[0], pr[1])
		}
		for p, k := range pr[0] {
			if pr[1][p] != k {
				return fmt.Sprintf("%q is %q in one order and %q in the other", p, k, pr[1][p])
			}
		}
	}
	if (cfa.SizeError != nil) != (cfb.SizeError != nil) {
		return fmt.Sprintf("SizeError differs between orders: %v / %v", cfa.SizeError, cfb.SizeError)
	}
	return ""
}

func zipSameErrs(name string, a, b []modzip.FileError, dir string) string {
	if len(a) != len(b) {
		return fmt.Sprintf("%s: directory %v / list %v", name, a, b)
	}
	for i := range a {
		if a[i].Path != filepath.Join(dir, b[i].Path) || zipFileErrKind(a[i].Err) != zipFileErrKind(b[i].Err) {
			return fmt.Sprintf("%s[%d]: directory %v / list %v", name, i, a[i], b[i])
		}
	}
	return ""
}

// c17TreeOracle: for a tree of regular files and directories without VCS directories,
// CheckDir and CheckFiles (on the list of all its regular files) report the same valid and
// invalid files, and CreateFromDir and Create succeed or fail together with the same entries.
func c17TreeOracle(root string, t []*gen.ZipTreeNode, m module.Version) string {
	files := gen.ZipTreeRegularFiles(t)
	cfd, errd := modzip.CheckDir(root)
	cfl, errl := modzip.CheckFiles(gen.ToZipFiles(files))
	if len(cfd.Valid) != len(cfl.Valid) {
		return fmt.Sprintf("Valid: directory %q / list %q", cfd.Valid, cfl.Valid)
	}
	for i := range cfd.Valid {
		if cfd.Valid[i] != filepath.Join(root, cfl.Valid[i]) {
			return fmt.Sprintf("Valid: directory %q / list %q", cfd.Valid, cfl.Valid)
		}
	}
	if msg := zipSameErrs("Invalid", cfd.Invalid, cfl.Invalid, root); msg != "" {
		return msg
	}
	if zipTopErrClass(errd) != zipTopErrClass(errl) {
		return fmt.Sprintf("CheckDir error %v / CheckFiles error %v", errd, errl)
	}
	var bd, bl bytes.Buffer
	ed := modzip.CreateFromDir(&bd, m, root)
	el := modzip.Create(&bl, m, gen.ToZipFiles(files))
	if (ed == nil) != (el == nil) {
		return fmt.Sprintf("CreateFromDir: %v / Create: %v", ed, el)
	}
	if ed == nil {
		a, erra := zipReadEntries(bd.Bytes())
		b, errb := zipReadEntries(bl.Bytes())
		if erra != nil || errb != nil || fmt.Sprint(a) != fmt.Sprint(b) {
			return fmt.Sprintf("archives differ: from directory %q (%v) / from list %q (%v)", a, erra, b, errb)
		}
	}
	return ""
}

// c17Spell runs f with the directory d/root spelled in one of several ways; the relative
// spellings need the working directory changed, which is restored before returning (the
// harness runs nothing else meanwhile).
var c17SpellMu sync.Mutex

const c17Spellings = 8

func c17Spell(d string, kind int, f func(dir string)) {
	root := d + "/root"
	switch kind {
	case 1:
		f(d + "/./root")
	case 2:
		f(d + "//root")
	case 3:
		f(d + "/root/../root")
	case 4:
		f(root + "/")
	case 5, 6, 7:
		c17SpellMu.Lock()
		defer c17SpellMu.Unlock()
		old, err := os.Getwd()
		if err != nil {
			panic(err)
		}
		defer func() {
			if err := os.Chdir(old); err != nil {
				panic(err)
			}
		}()
		to, dir := d, "./root"
		if kind == 6 {
			dir = "root"
		}
		if kind == 7 {
			to, dir = root, "."
		}
		if err := os.Chdir(to); err != nil {
			panic(err)
		}
		f(dir)
	default:
		f(root)
	}
}

// ---- run ----------------------------------------------------------------------------------

func c17CountReport(c *hx.Ctx, cf modzip.CheckedFiles) {
	for range cf.Valid {
		c.Count("class:valid")
	}
	for _, fe := range cf.Omitted {
		c.Count("class:omitted:" + zipFileErrKind(fe.Err))
	}
	for _, fe := range cf.Invalid {
		c.Count("class:invalid:" + zipFileErrKind(fe.Err))
	}
	if cf.SizeError != nil {
		c.Count("sizeerror")
	}
}

func zipPathCases(c *hx.Ctx, n int) {
	r := c.Rng
	for i := 0; i < n; i++ {
		var p string
		switch r.Intn(4) {
		case 0:
			p = gen.ZipRelPath(r, true)
		case 1:
			// slashes and dots
			k := r.Intn(9)
			var b strings.Builder
			for j := 0; j < k; j++ {
				b.WriteString([]string{"/", ".", "..", "a", "b.", "//", "/./", "/../", "c"}[r.Intn(9)])
			}
			p = b.String()
		default:
			k := r.Intn(6)
			el := make([]string, k)
			for j := range el {
				el[j] = []string{"", ".", "..", "a", "bb", "...", "a.b", ".a"}[r.Intn(8)]
			}
			p = strings.Join(el, "/")
			if r.Intn(3) == 0 {
				p = "/" + p
			}
		}
		c.Case("path.Clean", wire.S(p), wire.S(path.Clean(p)))
		c.Case("path.Dir", wire.S(p), wire.S(path.Dir(p)))
		c.Case("path.Base", wire.S(p), wire.S(path.Base(p)))
		d, b := path.Split(p)
		c.Case("path.Split", wire.S(p), wire.L(wire.S(d), wire.S(b)))
		c.Case("path.IsAbs", wire.S(p), wire.Bool(path.IsAbs(p)))
		q := gen.ZipRelPath(r, true)
		if r.Intn(6) == 0 {
			q = ""
		}
		if r.Intn(10) == 0 {
			p = ""
		}
		c.Case("filepath.Join", wire.L(wire.S(p), wire.S(q)), wire.S(filepath.Join(p, q)))
		c.Count("pathcases")
	}
}

func c17List(c *hx.Ctx, files []gen.ZipFileSpec, tag string) modzip.CheckedFiles {
	_, _, res := zipImplCheckFiles(files)
	c.Case("zip.CheckFiles", zipFilesVal(files), res)
	part, rules, cf := c17ListOracles(files)
	c.Check("partition", part == "", "", zipIn{Op: "checkfiles", Files: zipJsFiles(files)}, part)
	c.Check("documented-rules", rules == "", "", zipIn{Op: "checkfiles", Files: zipJsFiles(files)}, rules)
	c17CountReport(c, cf)
	c.Count("lists:" + tag)
	if len(cf.Valid) > 0 && len(cf.Omitted)+len(cf.Invalid) > 0 {
		c.Nontrivial(zipFilesVal(files).String())
	}
	return cf
}

func runC17(c *hx.Ctx) {
	r := c.Rng
	sc := newZipScratch(c.Out)
	msg := zipToLowerPreimage()
	c.Check("tolower-preimage", msg == "", "", zipIn{Op: "tolower"}, msg)
	zipPathCases(c, c.N(2500))
	for _, files := range zipCorpusLists() {
		c17List(c, files, "corpus")
	}

	for i := 0; i < c.N(3500); i++ {
		var files []gen.ZipFileSpec
		if i%5 == 0 {
			files = gen.ValidModuleFileList(r)
		} else if i%25 == 1 {
			files = gen.ZipSizeBoundaryList(r)
		} else {
			files = gen.ModuleFileList(r)
		}
		cf := c17List(c, files, "drawn")
		sh := zipShuffle(c, files)
		c17List(c, sh, "shuffled")
		msg := c17OrderOracle(files, sh)
		c.Check("order-independence", msg == "", "", zipIn{Op: "order", Files: zipJsFiles(files), Files2: zipJsFiles(sh)}, msg)
		if i < 6 {
			c.Sample(fmt.Sprintf("CheckFiles %d files: valid=%q omitted=%d invalid=%d", len(files), cf.Valid, len(cf.Omitted), len(cf.Invalid)))
		}
		if i%4 == 0 {
			m := gen.ZipModuleVersion(r)
			_, _, res := zipImplCreate(m, files)
			c.Case("zip.Create", wire.L(wire.S(m.Path), wire.S(m.Version), zipFilesVal(files)), res)
		}
	}

	for _, ct := range zipCorpusTrees() {
		c17Tree(c, sc, ct.Tree, true, module.Version{Path: "example.com/m", Version: "v1.2.3"}, ct.Spell)
	}
	for i := 0; i < c.N(1000); i++ {
		plain := r.Intn(5) < 3
		t := gen.ZipModuleTree(r, plain)
		m := gen.ZipModuleVersion(r)
		spell := 0
		if r.Intn(2) == 0 {
			spell = r.Intn(c17Spellings)
		}
		c17Tree(c, sc, t, plain, m, spell)
	}
}

// c17Tree materialises the tree, runs CheckDir and CreateFromDir on it under the given spelling
// of the directory, records the correspondence cases and (for plain trees) the dir-vs-list oracle.
func c17Tree(c *hx.Ctx, sc *zipScratch, t []*gen.ZipTreeNode, plain bool, m module.Version, spell int) {
	d := sc.next()
	root := filepath.Join(d, "root")
	if err := os.Mkdir(root, 0o755); err != nil {
		panic(err)
	}
	if err := gen.ZipMaterializeTree(root, t); err != nil {
		panic(err)
	}
	c.Count(fmt.Sprintf("dir-spelling:%d", spell))
	c17Spell(d, spell, func(dir string) {
		var cf modzip.CheckedFiles
		var err error
		var res wire.Val
		if p, _ := hx.Guard(func() { cf, err = modzip.CheckDir(dir) }); p {
			res = wire.Panic()
		} else {
			res = zipReportVal(cf, err)
		}
		c.Case("zip.CheckDir", wire.L(wire.S(dir), zipTreeVal(t)), res)
		for _, fe := range cf.Omitted {
			c.Count("dir:omitted:" + zipFileErrKind(fe.Err))
		}
		var buf bytes.Buffer
		var cerr error
		if p, _ := hx.Guard(func() { cerr = modzip.CreateFromDir(&buf, m, dir) }); p {
			res = wire.Panic()
		} else {
			res = zipCreateResultVal(buf.Bytes(), cerr)
		}
		c.Case("zip.CreateFromDir", wire.L(wire.S(m.Path), wire.S(m.Version), zipTreeVal(t)), res)
		if cerr == nil {
			c.Count("trees:create-ok")
		} else {
			c.Count("trees:create-" + zipTopErrClass(cerr))
		}
		if plain {
			// the decidable side condition of the Coq theorem dir_vs_list_agree_partial holds
			// for this tree: evaluated by the model (the implementation has nothing to say)
			c.Case("zip.DirListCondition", zipTreeVal(t), wire.Bool(true))
			msg := c17TreeOracle(dir, t, m)
			c.Check("dir-vs-list", msg == "", "", zipIn{Op: "tree", Tree: zipJsTree(t), ModPath: m.Path, ModVersion: m.Version, TargetKind: spell}, msg)
			c.Count("trees:plain")
			if len(cf.Valid) > 0 && len(cf.Omitted) > 0 {
				c.Nontrivial(zipTreeVal(t).String())
			}
		} else {
			c.Count("trees:with-links-or-vcs")
		}
	})
	zipRemoveAll(d)
}

func replayC17(raw json.RawMessage) (bool, string) {
	var in zipIn
	if err := json.Unmarshal(raw, &in); err != nil {
		return false, err.Error()
	}
	var msg string
	switch in.Op {
	case "tolower":
		msg = zipToLowerPreimage()
	case "checkfiles":
		part, rules, _ := c17ListOracles(zipUnjsFiles(in.Files))
		msg = strings.TrimSpace(part + " " + rules)
	case "order":
		msg = c17OrderOracle(zipUnjsFiles(in.Files), zipUnjsFiles(in.Files2))
	case "tree":
		sc := zipReplayScratch("C17")
		d := sc.next()
		root := filepath.Join(d, "root")
		os.Mkdir(root, 0o755)
		t := zipUnjsTree(in.Tree)
		if err := gen.ZipMaterializeTree(root, t); err != nil {
			return false, err.Error()
		}
		c17Spell(d, in.TargetKind, func(dir string) {
			msg = c17TreeOracle(dir, t, module.Version{Path: in.ModPath, Version: in.ModVersion})
		})
		zipRemoveAll(d)
	default:
		return false, "unknown op " + in.Op
	}
	return msg == "", msg
}
