package props

import (
	"bytes"
	"crypto/ed25519"
	"encoding/base64"
	"encoding/binary"
	"encoding/hex"
	"encoding/json"
	"fmt"
	"math/rand"
	"reflect"
	"strings"
	"unicode"
	"unicode/utf8"

	"golang.org/x/mod/sumdb/note"

	"verif/harness/gen"
	"verif/harness/hx"
	"verif/harness/wire"
)

func init() { hx.Register(&hx.Prop{ID: "C07", Run: runC07, Replay: replayC07}) }

// ---- replayable inputs -------------------------------------------------------------

type c07Key struct {
	Kind string `json:"kind"`     // "toy" or "ed"
	Name string `json:"name_hex"` // server name
	Hash uint32 `json:"hash"`     // toy keys only (ed: derived from name and key)
	Key  string `json:"key_hex"`  // toy: key bytes; ed: 32-byte seed
}

type c07Old struct {
	Name       string `json:"name_hex"`
	Hash       uint32 `json:"hash"`
	B64        string `json:"b64_hex"`
	Unverified bool   `json:"unverified"`
}

type c07Mut struct {
	Pos  int `json:"pos"`
	Kind int `json:"kind"` // 0 flip a bit, 1 delete, 2 insert LF, 3 insert space, 4 insert em dash
}

type c07In struct {
	Op       string   `json:"op"` // "scenario", "open", "name", "vkey"
	Text     string   `json:"text_hex,omitempty"`
	Old      []c07Old `json:"old,omitempty"`
	Signers  []c07Key `json:"signers,omitempty"`
	Known    []c07Key `json:"known,omitempty"`
	Msg      string   `json:"msg_hex,omitempty"`
	Mut      *c07Mut  `json:"mutation,omitempty"`
	NilKnown bool     `json:"nil_known,omitempty"`
	Seed     int64    `json:"seed,omitempty"` // op "table": the table and message are drawn from this seed
}

func c07Hex(s string) string   { return hex.EncodeToString([]byte(s)) }
func c07Unhex(h string) string { b, _ := hex.DecodeString(h); return string(b) }

// ---- keys ---------------------------------------------------------------------------

type c07RKey struct {
	toy  bool
	name string
	hash uint32
	id   []byte // identity in the records and on the wire: toy key bytes / Ed25519 public key
	ed   gen.EdKey
}

func (k c07Key) resolve() c07RKey {
	name := c07Unhex(k.Name)
	key, _ := hex.DecodeString(k.Key)
	if k.Kind == "ed" {
		e := gen.EdKeyFromSeed(name, key)
		return c07RKey{name: name, hash: e.Hash, id: e.Pub, ed: e}
	}
	return c07RKey{toy: true, name: name, hash: k.Hash, id: key}
}

func (k *c07RKey) signer(rec *gen.Recorder) (note.Signer, error) {
	if k.toy {
		return &gen.RecSigner{Signer: &gen.ToySigner{N: k.name, H: k.hash, Key: k.id}, Key: k.id, Rec: rec}, nil
	}
	s, err := note.NewSigner(k.ed.SKey)
	if err != nil {
		return nil, err
	}
	return &gen.RecSigner{Signer: s, Key: k.id, Rec: rec}, nil
}

func (k *c07RKey) verifier(rec *gen.Recorder) (note.Verifier, error) {
	if k.toy {
		return &gen.RecVerifier{Verifier: &gen.ToyVerifier{N: k.name, H: k.hash, Key: k.id}, Key: k.id, Rec: rec}, nil
	}
	v, err := note.NewVerifier(k.ed.VKey)
	if err != nil {
		return nil, err
	}
	return &gen.RecVerifier{Verifier: v, Key: k.id, Rec: rec}, nil
}

// independent of package note: the signature this key makes / whether it accepts one
func (k *c07RKey) sigOf(text []byte) ([]byte, bool) {
	if k.toy {
		if len(k.id) == 0 {
			return nil, false
		}
		return gen.ToySig(k.id, text), true
	}
	return ed25519.Sign(ed25519.NewKeyFromSeed(k.ed.Seed), text), true
}

func (k *c07RKey) accepts(text, sig []byte) bool {
	if k.toy {
		return bytes.Equal(sig, gen.ToySig(k.id, text))
	}
	return ed25519.Verify(ed25519.PublicKey(k.ed.Pub), text, sig)
}

func (k *c07RKey) wire() wire.Val {
	return wire.L(wire.S(k.name), wire.I(int64(k.hash)), wire.Bytes(k.id))
}

// ---- the documented rules, written independently -----------------------------------

// "non-empty, well-formed UTF-8 containing neither Unicode spaces nor plus"
func c07SpecName(name string) bool {
	if name == "" || !utf8.ValidString(name) {
		return false
	}
	for _, r := range name {
		if unicode.IsSpace(r) || r == '+' {
			return false
		}
	}
	return true
}

// "valid UTF-8 and must not contain any ASCII control characters other than newline"
func c07SpecClean(s []byte) bool {
	if !utf8.Valid(s) {
		return false
	}
	for _, b := range s {
		if b < 0x20 && b != '\n' {
			return false
		}
	}
	return true
}

func c07HasC0(s string) bool {
	for i := 0; i < len(s); i++ {
		if s[i] < 0x20 {
			return true
		}
	}
	return false
}

// ---- encodings of results -------------------------------------------------------------

func c07EncSig(s note.Signature) wire.Val {
	return wire.L(wire.S(s.Name), wire.I(int64(s.Hash)), wire.S(s.Base64))
}

func c07EncNote(n *note.Note) wire.Val {
	a := make([]wire.Val, len(n.Sigs))
	for i, s := range n.Sigs {
		a[i] = c07EncSig(s)
	}
	b := make([]wire.Val, len(n.UnverifiedSigs))
	for i, s := range n.UnverifiedSigs {
		b[i] = c07EncSig(s)
	}
	return wire.L(wire.S(n.Text), wire.L(a...), wire.L(b...))
}

func c07EncOpen(n *note.Note, err error, panicked bool) wire.Val {
	if panicked {
		return wire.Panic()
	}
	if err == nil {
		return wire.Ok(c07EncNote(n))
	}
	switch e := err.(type) {
	case *note.UnverifiedNoteError:
		return wire.L(wire.S("err"), wire.S("unverified"), c07EncNote(e.Note))
	case *note.InvalidSignatureError:
		return wire.L(wire.S("err"), wire.S("invalidsig"), wire.S(e.Name), wire.I(int64(e.Hash)))
	}
	if reflect.TypeOf(err).String() == "*note.ambiguousVerifierError" {
		v := reflect.ValueOf(err).Elem()
		return wire.L(wire.S("err"), wire.S("ambiguous"), wire.S(v.Field(0).String()), wire.I(int64(v.Field(1).Uint())))
	}
	switch err.Error() {
	case "malformed note":
		return wire.Err("malformed")
	case "verifier name or hash doesn't match signature":
		return wire.Err("mismatched")
	}
	return wire.Err("other")
}

func c07EncSign(msg []byte, err error, panicked bool) wire.Val {
	if panicked {
		return wire.Panic()
	}
	if err == nil {
		return wire.Ok(wire.Bytes(msg))
	}
	switch err.Error() {
	case "malformed note":
		return wire.Err("malformed")
	case "invalid signer":
		return wire.Err("invalidsigner")
	case "toy signer without key":
		return wire.Err("signerfailed")
	}
	return wire.Err("other")
}

func c07EncKey(name string, hash uint32, err error) wire.Val {
	if err == nil {
		return wire.Ok(wire.L(wire.S(name), wire.I(int64(hash))))
	}
	switch err.Error() {
	case "malformed verifier id":
		return wire.Err("id")
	case "unknown verifier algorithm":
		return wire.Err("alg")
	case "invalid verifier hash":
		return wire.Err("hash")
	}
	return wire.Err("other")
}

func c07VTable(rec *gen.Recorder) wire.Val {
	var t []wire.Val
	for _, c := range rec.Verifies {
		if len(c.Key) == 32 { // real keys only; the toy scheme is recomputed by the model
			t = append(t, wire.L(wire.Bytes(c.Key), wire.Bytes(c.Msg), wire.Bytes(c.Sig), wire.Bool(c.OK)))
		}
	}
	return wire.L(t...)
}

func c07STable(rec *gen.Recorder) wire.Val {
	var t []wire.Val
	for _, c := range rec.Signs {
		if len(c.Key) == 32 && !c.Err {
			t = append(t, wire.L(wire.Bytes(c.Key), wire.Bytes(c.Msg), wire.Bytes(c.Sig)))
		}
	}
	return wire.L(t...)
}

// ---- evaluation shared by Run and Replay ------------------------------------------------

type c07Sink struct {
	check func(oracle string, ok bool, shape string, in c07In, observed string)
	kase  func(fn string, arg, res wire.Val)
	count func(key string)
	nontr func(key string)
	k2    int
}

func (s *c07Sink) cnt(k string) {
	if s.count != nil {
		s.count(k)
	}
}

type c07Line struct {
	name string
	hash uint32
	b64  string
	sig  []byte // decoded signature bytes without the hash
}

func (l c07Line) text() string { return "— " + l.name + " " + l.b64 + "\n" }

func c07Open(msg []byte, vs []note.Verifier, nilKnown bool) (n *note.Note, err error, panicked bool) {
	panicked, _ = hx.Guard(func() {
		if nilKnown && len(vs) == 0 {
			n, err = note.Open(msg, nil)
		} else {
			n, err = note.Open(msg, note.VerifierList(vs...))
		}
	})
	return
}

// oracle on any result of Open that carries a note (success, or UnverifiedNoteError):
// the documented format, and that every verified signature was checked by the unique known
// verifier of its key over exactly the returned text.
func c07CheckOpened(msg []byte, n *note.Note, verified bool, known []c07RKey, rec *gen.Recorder) string {
	if !c07SpecClean(msg) {
		return "accepted a message that is not clean UTF-8 without control characters"
	}
	if !strings.HasSuffix(n.Text, "\n") {
		return fmt.Sprintf("returned text %q does not end in newline", n.Text)
	}
	if !bytes.HasPrefix(msg, []byte(n.Text+"\n")) {
		return fmt.Sprintf("message does not start with the returned text %q and a blank line", n.Text)
	}
	block := string(msg[len(n.Text)+1:])
	if block == "" || !strings.HasSuffix(block, "\n") {
		return "signature block empty or not newline-terminated"
	}
	lines := strings.Split(strings.TrimSuffix(block, "\n"), "\n")
	inBlock := map[string]bool{}
	for _, l := range lines {
		if !strings.HasPrefix(l, "— ") {
			return fmt.Sprintf("signature block line %q lacks the em dash prefix (split not at the last blank line)", l)
		}
		inBlock[strings.TrimPrefix(l, "— ")] = true
	}
	if len(lines) > 100 {
		return fmt.Sprintf("%d signature lines accepted", len(lines))
	}
	if verified && len(n.Sigs) == 0 {
		return "Open succeeded without a verified signature"
	}
	if !verified && len(n.Sigs) != 0 {
		return "UnverifiedNoteError carries verified signatures"
	}
	count := func(name string, hash uint32) (cnt int, k *c07RKey) {
		for i := range known {
			if known[i].name == name && known[i].hash == hash {
				cnt++
				k = &known[i]
			}
		}
		return
	}
	seenKey := map[string]bool{}
	for _, s := range n.Sigs {
		if !inBlock[s.Name+" "+s.Base64] {
			return fmt.Sprintf("verified signature %q %q is not a line of the message", s.Name, s.Base64)
		}
		raw, err := base64.StdEncoding.DecodeString(s.Base64)
		if err != nil || len(raw) < 5 || binary.BigEndian.Uint32(raw) != s.Hash {
			return fmt.Sprintf("verified signature %q has bad base64 or hash", s.Name)
		}
		cnt, k := count(s.Name, s.Hash)
		if cnt != 1 {
			return fmt.Sprintf("verified signature %s+%08x has %d known verifiers", s.Name, s.Hash, cnt)
		}
		kk := fmt.Sprintf("%s+%08x", s.Name, s.Hash)
		if seenKey[kk] {
			return "key " + kk + " listed twice among the verified signatures"
		}
		seenKey[kk] = true
		found := false
		for _, c := range rec.Verifies {
			if c.OK && bytes.Equal(c.Key, k.id) && c.Name == s.Name && c.Hash == s.Hash &&
				string(c.Msg) == n.Text && bytes.Equal(c.Sig, raw[4:]) {
				found = true
			}
		}
		if !found {
			return fmt.Sprintf("verified signature %s: no Verify call over the returned text with these signature bytes returned true", kk)
		}
		if !k.accepts([]byte(n.Text), raw[4:]) {
			return fmt.Sprintf("verified signature %s is not valid for the returned text", kk)
		}
	}
	for _, s := range n.UnverifiedSigs {
		if !inBlock[s.Name+" "+s.Base64] {
			return fmt.Sprintf("unverified signature %q %q is not a line of the message", s.Name, s.Base64)
		}
		if cnt, _ := count(s.Name, s.Hash); cnt != 0 {
			return fmt.Sprintf("signature %s+%08x listed as unverified although its key is known", s.Name, s.Hash)
		}
	}
	return ""
}

func c07Mutate(msg []byte, m c07Mut) []byte {
	out := make([]byte, 0, len(msg)+3)
	out = append(out, msg[:m.Pos]...)
	switch m.Kind {
	case 0:
		if m.Pos < len(msg) {
			out = append(out, msg[m.Pos]^(1<<uint(m.Pos%8)))
			out = append(out, msg[m.Pos+1:]...)
		}
		return out
	case 1:
		if m.Pos < len(msg) {
			out = append(out, msg[m.Pos+1:]...)
		}
		return out
	case 2:
		out = append(out, '\n')
	case 3:
		out = append(out, ' ')
	default:
		out = append(out, "—"...)
	}
	return append(out, msg[m.Pos:]...)
}

// c07Scenario signs in.Text (with the existing signatures in.Old) by in.Signers, opens the
// result with in.Known and evaluates every oracle; with in.Mut it evaluates that single
// mutation of the signed message, with muts != nil all the listed ones.
func c07Scenario(in c07In, s *c07Sink, muts []c07Mut, mutCase func() bool) {
	text := c07Unhex(in.Text)
	signers := make([]c07RKey, len(in.Signers))
	for i, k := range in.Signers {
		signers[i] = k.resolve()
	}
	known := make([]c07RKey, len(in.Known))
	for i, k := range in.Known {
		known[i] = k.resolve()
	}
	rec := &gen.Recorder{}
	n0 := &note.Note{Text: text}
	for _, o := range in.Old {
		sg := note.Signature{Name: c07Unhex(o.Name), Hash: o.Hash, Base64: c07Unhex(o.B64)}
		if o.Unverified {
			n0.UnverifiedSigs = append(n0.UnverifiedSigs, sg)
		} else {
			n0.Sigs = append(n0.Sigs, sg)
		}
	}
	var ss []note.Signer
	for i := range signers {
		sg, err := signers[i].signer(rec)
		if err != nil {
			s.cnt("skip:ed-signer-key-rejected")
			return
		}
		ss = append(ss, sg)
	}
	var vs []note.Verifier
	for i := range known {
		v, err := known[i].verifier(rec)
		if err != nil {
			s.cnt("skip:ed-verifier-key-rejected")
			return
		}
		vs = append(vs, v)
	}

	// --- Sign
	var msg []byte
	var serr error
	panicked, _ := hx.Guard(func() { msg, serr = note.Sign(n0, ss...) })
	if s.kase != nil && in.Mut == nil {
		ws := make([]wire.Val, len(signers))
		for i := range signers {
			ws[i] = signers[i].wire()
		}
		s.kase("Sign", wire.L(c07EncNote(n0), wire.L(ws...), c07STable(rec)), c07EncSign(msg, serr, panicked))
	}
	if panicked {
		s.check("no-panic", false, "", in, "Sign panicked")
		return
	}

	// what Sign is documented to do, independently
	have := map[string]bool{}
	wantOK := strings.HasSuffix(text, "\n")
	var newLines, oldLines []c07Line
	for i := range signers {
		k := &signers[i]
		have[fmt.Sprintf("%x+%08x", k.name, k.hash)] = true
		if !wantOK {
			break
		}
		sig, ok := k.sigOf([]byte(text))
		if !c07SpecName(k.name) || !ok {
			wantOK = false
			break
		}
		var hb [4]byte
		binary.BigEndian.PutUint32(hb[:], k.hash)
		newLines = append(newLines, c07Line{k.name, k.hash, base64.StdEncoding.EncodeToString(append(hb[:], sig...)), sig})
	}
	if wantOK {
		for _, sg := range append(append([]note.Signature(nil), n0.Sigs...), n0.UnverifiedSigs...) {
			if !c07SpecName(sg.Name) {
				wantOK = false
				break
			}
			if have[fmt.Sprintf("%x+%08x", sg.Name, sg.Hash)] {
				continue
			}
			raw, err := base64.StdEncoding.DecodeString(sg.Base64)
			if err != nil || len(raw) < 4 || binary.BigEndian.Uint32(raw) != sg.Hash {
				wantOK = false
				break
			}
			oldLines = append(oldLines, c07Line{sg.Name, sg.Hash, sg.Base64, raw[4:]})
		}
	}
	lines := append(append([]c07Line(nil), oldLines...), newLines...)
	if in.Mut == nil {
		want := text + "\n"
		for _, l := range lines {
			want += l.text()
		}
		obs := ""
		if wantOK != (serr == nil) {
			obs = fmt.Sprintf("Sign error=%v, documented rule says success=%v", serr, wantOK)
		} else if wantOK && string(msg) != want {
			obs = fmt.Sprintf("Sign output %q, documented format gives %q", msg, want)
		}
		s.check("sign-format", obs == "", "", in, obs)
	}
	if serr != nil {
		s.cnt("sign:" + c07EncSign(nil, serr, false).L[1].S)
		return
	}
	s.cnt("sign:ok")

	// --- Open the signed message
	if in.Mut == nil {
		rec.Reset()
		n, oerr, p := c07Open(msg, vs, in.NilKnown)
		if s.kase != nil {
			wv := make([]wire.Val, len(known))
			for i := range known {
				wv[i] = known[i].wire()
			}
			s.kase("OpenList", wire.L(wire.Bytes(msg), wire.L(wv...), c07VTable(rec)), c07EncOpen(n, oerr, p))
		}
		if p {
			s.check("no-panic", false, "", in, "Open panicked")
			return
		}
		res := c07EncOpen(n, oerr, false)
		s.cnt("open:" + res.L[0].S + ":" + map[bool]string{true: res.L[1].S, false: ""}[res.L[0].S == "err"])
		if s.nontr != nil && oerr == nil {
			s.nontr(string(msg))
		}

		// verified signatures were verified, format
		if oerr == nil {
			obs := c07CheckOpened(msg, n, true, known, rec)
			s.check("verified-over-returned-text", obs == "", "", in, obs)
		} else if e, ok := oerr.(*note.UnverifiedNoteError); ok {
			obs := c07CheckOpened(msg, e.Note, false, known, rec)
			s.check("verified-over-returned-text", obs == "", "", in, obs)
		}

		// a known key with a bad signature makes Open fail
		firstBad := ""
		seenK := map[string]bool{}
		for _, l := range lines {
			kk := fmt.Sprintf("%x+%08x", l.name, l.hash)
			if seenK[kk] {
				continue
			}
			seenK[kk] = true
			var kv *c07RKey
			cnt := 0
			for i := range known {
				if known[i].name == l.name && known[i].hash == l.hash {
					cnt++
					kv = &known[i]
				}
			}
			if cnt == 1 && !kv.accepts([]byte(text), l.sig) && firstBad == "" {
				firstBad = kk
			}
		}
		if firstBad != "" {
			s.cnt("has-bad-known-sig")
			obs := ""
			if oerr == nil {
				obs = "Open succeeded although the signature for known key " + firstBad + " does not verify"
			} else if _, ok := oerr.(*note.UnverifiedNoteError); ok {
				obs = "Open reported the note as merely unverified although known key " + firstBad + " has a bad signature"
			}
			s.check("bad-known-sig-fails", obs == "", "", in, obs)
		}

		// round trip
		c07RoundTrip(in, s, text, lines, known, n, oerr)
	}

	// --- mutations of the signed message
	one := func(m c07Mut) {
		mm := c07Mutate(msg, m)
		if bytes.Equal(mm, msg) {
			return
		}
		rec.Reset()
		n, oerr, p := c07Open(mm, vs, false)
		inm := in
		inm.Mut = &m
		if s.kase != nil && (mutCase == nil || mutCase()) {
			wv := make([]wire.Val, len(known))
			for i := range known {
				wv[i] = known[i].wire()
			}
			s.kase("OpenList", wire.L(wire.Bytes(mm), wire.L(wv...), c07VTable(rec)), c07EncOpen(n, oerr, p))
		}
		if p {
			s.check("no-panic", false, "", inm, "Open panicked on a mutated message")
			return
		}
		if oerr == nil {
			s.cnt("mutation:accepted")
			if n.Text != text {
				s.cnt("mutation:accepted-with-other-text")
			}
			obs := ""
			if n.Text != text && !rec.VerifiedTrue([]byte(n.Text)) {
				obs = fmt.Sprintf("mutated message accepted with text %q (original %q) and no verifier accepted a signature over the new text", n.Text, text)
			}
			s.check("tamper", obs == "", "", inm, obs)
			obs = c07CheckOpened(mm, n, true, known, rec)
			s.check("verified-over-returned-text", obs == "", "", inm, obs)
		} else {
			s.cnt("mutation:rejected")
			if e, ok := oerr.(*note.UnverifiedNoteError); ok {
				obs := c07CheckOpened(mm, e.Note, false, known, rec)
				s.check("verified-over-returned-text", obs == "", "", inm, obs)
			}
			s.check("tamper", true, "", inm, "")
		}
	}
	if in.Mut != nil {
		if in.Mut.Pos >= 0 && in.Mut.Pos <= len(msg) {
			one(*in.Mut)
		}
		return
	}
	for _, m := range muts {
		if m.Pos <= len(msg) {
			one(m)
		}
	}
}

// c07RoundTrip: for valid note text, signers with valid names, at most 100 signature lines,
// non-empty signatures, known verifiers unambiguous and matching the signers they name:
// Open(Sign(text)) returns the text with the signatures partitioned as documented.
func c07RoundTrip(in c07In, s *c07Sink, text string, lines []c07Line, known []c07RKey, n *note.Note, oerr error) {
	if !c07SpecClean([]byte(text)) {
		s.cnt("roundtrip-skip:text-not-clean")
		return
	}
	if len(lines) == 0 {
		s.cnt("roundtrip-skip:no-signature")
		return
	}
	if len(lines) > 100 {
		s.cnt("roundtrip-skip:over-100-lines")
		return
	}
	ctrl := false
	for _, l := range lines {
		if strings.ContainsAny(l.b64, "\r\n") {
			// an existing Signature.Base64 with a line break passes Sign's check (DecodeString
			// skips line breaks) but is never produced by Open
			s.cnt("roundtrip-skip:old-base64-with-linebreak")
			return
		}
		if len(l.sig) == 0 {
			s.cnt("roundtrip-skip:empty-signature")
			return
		}
		if c07HasC0(l.name) {
			ctrl = true
		}
	}
	lookup := func(name string, hash uint32) (cnt int, k *c07RKey) {
		for i := range known {
			if known[i].name == name && known[i].hash == hash {
				cnt++
				k = &known[i]
			}
		}
		return
	}
	var wantSigs, wantUnv []note.Signature
	seenKey, seenLine := map[string]bool{}, map[string]bool{}
	for _, l := range lines {
		cnt, k := lookup(l.name, l.hash)
		sg := note.Signature{Name: l.name, Hash: l.hash, Base64: l.b64}
		switch {
		case cnt > 1:
			s.cnt("roundtrip-skip:ambiguous-known")
			return
		case cnt == 0:
			if !seenLine[l.name+" "+l.b64] {
				seenLine[l.name+" "+l.b64] = true
				wantUnv = append(wantUnv, sg)
			}
		default:
			kk := fmt.Sprintf("%x+%08x", l.name, l.hash)
			if seenKey[kk] {
				continue
			}
			seenKey[kk] = true
			if !k.accepts([]byte(text), l.sig) {
				s.cnt("roundtrip-skip:known-key-mismatch")
				return
			}
			wantSigs = append(wantSigs, sg)
		}
	}
	want := &note.Note{Text: text, Sigs: wantSigs, UnverifiedSigs: wantUnv}
	var wantV wire.Val
	if len(wantSigs) > 0 {
		wantV = wire.Ok(c07EncNote(want))
		s.cnt("roundtrip:verified")
	} else {
		wantV = wire.L(wire.S("err"), wire.S("unverified"), c07EncNote(want))
		s.cnt("roundtrip:unverified")
	}
	got := c07EncOpen(n, oerr, false)
	obs, shape := "", ""
	if got.String() != wantV.String() {
		obs = fmt.Sprintf("Open(Sign(%q, %d signers)) = %s, expected %s", text, len(in.Signers), c07Show(n, oerr), c07Show(want, nil))
		if ctrl && oerr != nil && oerr.Error() == "malformed note" {
			shape = "K2" // a name with a C0 control character passes isValidName, Open rejects the message
			s.cnt("roundtrip:K2")
		}
	} else if ctrl {
		obs = "round trip unexpectedly succeeded with a control character in a name"
	}
	if shape == "K2" {
		// the known finding is frequent; record a few instances only, so that the
		// framework's cap on recorded failures cannot hide other failures
		s.k2++
		if s.k2 > 3 {
			s.cnt("roundtrip:K2-not-recorded")
			return
		}
	}
	s.check("sign-open-roundtrip", obs == "", shape, in, obs)
}

func c07Show(n *note.Note, err error) string {
	if err != nil {
		if e, ok := err.(*note.UnverifiedNoteError); ok {
			return "UnverifiedNoteError" + c07Show(e.Note, nil)
		}
		return "error " + err.Error()
	}
	return fmt.Sprintf("{Text:%q Sigs:%q Unverified:%q}", n.Text, n.Sigs, n.UnverifiedSigs)
}

// explicit message against known verifiers: format / verification oracle only
func c07Explicit(in c07In, s *c07Sink) {
	msg := []byte(c07Unhex(in.Msg))
	known := make([]c07RKey, len(in.Known))
	rec := &gen.Recorder{}
	var vs []note.Verifier
	for i, k := range in.Known {
		known[i] = k.resolve()
		v, err := known[i].verifier(rec)
		if err != nil {
			return
		}
		vs = append(vs, v)
	}
	n, oerr, p := c07Open(msg, vs, in.NilKnown)
	if s.kase != nil {
		wv := make([]wire.Val, len(known))
		for i := range known {
			wv[i] = known[i].wire()
		}
		s.kase("OpenList", wire.L(wire.Bytes(msg), wire.L(wv...), c07VTable(rec)), c07EncOpen(n, oerr, p))
	}
	if p {
		s.check("no-panic", false, "", in, "Open panicked")
		return
	}
	res := c07EncOpen(n, oerr, false)
	s.cnt("explicit:" + res.L[0].S + ":" + map[bool]string{true: res.L[1].S, false: ""}[res.L[0].S == "err"])
	if oerr == nil {
		obs := c07CheckOpened(msg, n, true, known, rec)
		s.check("verified-over-returned-text", obs == "", "", in, obs)
	} else if e, ok := oerr.(*note.UnverifiedNoteError); ok {
		obs := c07CheckOpened(msg, e.Note, false, known, rec)
		s.check("verified-over-returned-text", obs == "", "", in, obs)
	}
}

// isValidName is unexported; Sign reports errInvalidSigner exactly when it rejects the
// signer's name.
func c07ImplValidName(name string) bool {
	_, err := note.Sign(&note.Note{Text: "\n"}, &gen.ToySigner{N: name, H: 1, Key: []byte("x")})
	return err == nil || err.Error() != "invalid signer"
}

func c07Name(in c07In, s *c07Sink) {
	name := c07Unhex(in.Text)
	got := c07ImplValidName(name)
	if s.kase != nil {
		s.kase("IsValidName", wire.S(name), wire.Bool(got))
	}
	s.cnt(fmt.Sprintf("name-valid=%v", got))
	obs := ""
	if got != c07SpecName(name) {
		obs = fmt.Sprintf("name %q: accepted=%v, documented rule says %v", name, got, c07SpecName(name))
	}
	s.check("name-rule", obs == "", "", in, obs)
}

// verifier keys: NewVerifier binds the hash to name and key
func c07VKey(in c07In, s *c07Sink) {
	vkey := c07Unhex(in.Text)
	var v note.Verifier
	var err error
	p, _ := hx.Guard(func() { v, err = note.NewVerifier(vkey) })
	if p {
		if s.kase != nil {
			s.kase("NewVerifier", wire.S(vkey), wire.Panic())
		}
		s.check("no-panic", false, "", in, "NewVerifier panicked")
		return
	}
	var res wire.Val
	if err == nil {
		res = c07EncKey(v.Name(), v.KeyHash(), nil)
	} else {
		res = c07EncKey("", 0, err)
	}
	if s.kase != nil {
		s.kase("NewVerifier", wire.S(vkey), res)
	}
	s.cnt("vkey:" + res.L[0].S + ":" + map[bool]string{true: res.L[1].S, false: ""}[res.L[0].S == "err"])
	if err == nil {
		obs := ""
		parts := strings.SplitN(vkey, "+", 3)
		if len(parts) != 3 {
			obs = "accepted a key without three fields"
		} else {
			key, derr := base64.StdEncoding.DecodeString(parts[2])
			switch {
			case derr != nil:
				obs = "accepted undecodable key data"
			case v.Name() != parts[0] || fmt.Sprintf("%08x", v.KeyHash()) != strings.ToLower(parts[1]):
				obs = "verifier name/hash differ from the key text"
			case v.KeyHash() != gen.NoteKeyHash(v.Name(), key):
				obs = fmt.Sprintf("key hash %08x is not the hash of name and key (%08x)", v.KeyHash(), gen.NoteKeyHash(v.Name(), key))
			case !c07SpecName(v.Name()):
				obs = "accepted an invalid name"
			}
		}
		s.check("verifier-key-binding", obs == "", "", in, obs)
	}
}

// ---- generators ----------------------------------------------------------------------

var c07ToyHashes = []uint32{0, 1, 2, 0x01020304, 0xffffffff, 0x80000000}

func c07GenToyKey(r *rand.Rand) []byte {
	switch k := r.Intn(40); {
	case k == 0:
		return nil // failing signer
	case k == 1:
		return []byte{9, byte(r.Intn(4))} // empty signatures
	case k == 2:
		return []byte{1, byte(r.Intn(4))} // 1-byte signatures
	default:
		return []byte{byte(2 + r.Intn(7)), byte(r.Intn(3))}
	}
}

func c07GenKey(r *rand.Rand) c07Key {
	if r.Intn(6) == 0 {
		names := []string{"a", "example.com/log", "sum.golang.org", "é", "k", "b", "a", "k", "a\x01b"}
		seed := make([]byte, 32)
		seed[0] = byte(r.Intn(3)) // few distinct real keys
		return c07Key{Kind: "ed", Name: c07Hex(names[r.Intn(len(names))]), Key: hex.EncodeToString(seed)}
	}
	k := c07Key{Kind: "toy", Name: c07Hex(gen.NoteName(r)), Key: hex.EncodeToString(c07GenToyKey(r))}
	if r.Intn(3) == 0 {
		k.Hash = r.Uint32()
	} else {
		k.Hash = c07ToyHashes[r.Intn(len(c07ToyHashes))]
	}
	return k
}

func c07OldOf(r *rand.Rand, k c07Key, text string) c07Old {
	rk := k.resolve()
	sig, _ := rk.sigOf([]byte(text))
	var hb [4]byte
	binary.BigEndian.PutUint32(hb[:], rk.hash)
	raw := append(hb[:], sig...)
	o := c07Old{Name: c07Hex(rk.name), Hash: rk.hash, Unverified: r.Intn(2) == 0}
	b64 := base64.StdEncoding.EncodeToString(raw)
	switch r.Intn(24) {
	case 0:
		o.Hash ^= 1
	case 1:
		b64 = b64[:len(b64)-1]
	case 2:
		b64 = base64.StdEncoding.EncodeToString(raw[:r.Intn(5)])
	case 3:
		b64 = strings.TrimRight(b64, "=")
	case 4:
		b64 = b64[:2] + "\n" + b64[2:] // DecodeString skips newlines
	case 5:
		sig2 := append([]byte(nil), raw...)
		sig2[len(sig2)-1] ^= 0x40
		b64 = base64.StdEncoding.EncodeToString(sig2)
	}
	o.B64 = c07Hex(b64)
	return o
}

func c07GenScenario(r *rand.Rand) c07In {
	in := c07In{Op: "scenario", Text: c07Hex(gen.NoteText(r))}
	text := c07Unhex(in.Text)
	ns := r.Intn(5)
	for i := 0; i < ns; i++ {
		if i > 0 && r.Intn(6) == 0 {
			k := in.Signers[r.Intn(i)]
			if r.Intn(2) == 0 && k.Kind == "toy" {
				k.Key = hex.EncodeToString(c07GenToyKey(r)) // same name and hash, other key
			}
			in.Signers = append(in.Signers, k)
		} else {
			in.Signers = append(in.Signers, c07GenKey(r))
		}
	}
	var oldKeys []c07Key
	if r.Intn(3) == 0 {
		for i, no := 0, 1+r.Intn(3); i < no; i++ {
			var k c07Key
			if len(in.Signers) > 0 && r.Intn(4) == 0 {
				k = in.Signers[r.Intn(len(in.Signers))] // will be replaced by the new signature
			} else {
				k = c07GenKey(r)
			}
			if k.Kind == "toy" && k.Key == "" {
				continue
			}
			oldKeys = append(oldKeys, k)
			in.Old = append(in.Old, c07OldOf(r, k, text))
		}
	}
	all := append(append([]c07Key(nil), in.Signers...), oldKeys...)
	nk := r.Intn(5)
	picked := map[int]bool{}
	for i := 0; i < nk; i++ {
		switch k := r.Intn(20); {
		case k < 11 && len(all) > 0:
			j := r.Intn(len(all))
			if picked[j] {
				j = r.Intn(len(all))
			}
			if picked[j] {
				continue
			}
			picked[j] = true
			in.Known = append(in.Known, all[j])
		case k < 13 && len(all) > 0: // same name and hash, different key: bad signature
			kk := all[r.Intn(len(all))]
			if kk.Kind == "toy" {
				kk.Key = hex.EncodeToString([]byte{byte(2 + r.Intn(7)), 7})
			}
			in.Known = append(in.Known, kk)
		case k < 14 && len(in.Known) > 0: // duplicate: ambiguous
			in.Known = append(in.Known, in.Known[r.Intn(len(in.Known))])
		case k < 17 && len(all) > 0: // same name, other hash
			kk := all[r.Intn(len(all))]
			if kk.Kind == "toy" {
				kk.Hash ^= 1 << uint(r.Intn(32))
			}
			in.Known = append(in.Known, kk)
		default:
			in.Known = append(in.Known, c07GenKey(r))
		}
	}
	in.NilKnown = len(in.Known) == 0 && r.Intn(2) == 0
	return in
}

// hand-made and random malformed messages
func c07GenExplicit(r *rand.Rand, base []byte) []byte {
	sigLine := func(name string, hash uint32, sig []byte) string {
		var hb [4]byte
		binary.BigEndian.PutUint32(hb[:], hash)
		return "— " + name + " " + base64.StdEncoding.EncodeToString(append(hb[:], sig...)) + "\n"
	}
	k := []byte{8, 1}
	good := func(text string) string { return sigLine("a", 1, gen.ToySig(k, []byte(text))) }
	switch r.Intn(24) {
	case 0:
		return []byte("hello\n" + good("hello\n")) // no blank line
	case 1:
		return []byte("hello\n\n" + strings.TrimSuffix(good("hello\n"), "\n")) // no final newline
	case 2:
		return []byte("hello\n\n")
	case 3:
		return []byte("\n\n" + good("\n"))
	case 4:
		return []byte("\n" + good(""))
	case 5:
		return []byte("hello\n\n" + good("hello\n") + "\n")
	case 6:
		return []byte("hello\n\n\n" + good("hello\n\n"))
	case 7:
		return []byte("hello\n\n" + "— a\n")
	case 8:
		return []byte("hello\n\n" + "— a \n")
	case 9:
		return []byte("hello\n\n" + "— a AAAAAQ==\n") // 4 bytes only
	case 10:
		return []byte("hello\n\n" + "— a AAAAAQA=\n") // 5 bytes
	case 11:
		return []byte("hello\n\n" + "— a AAAAAQB=\n") // non-canonical trailing bits
	case 12:
		return []byte("hello\n\n" + "— a AAAAAQA\n") // missing padding
	case 13:
		return []byte("hello\n\n" + "—  AAAAAQA=\n") // empty name
	case 14:
		return []byte("hello\n\n" + "— a b AAAAAQA=\n") // space in base64 part
	case 15:
		return []byte("hello\n\n" + "—a AAAAAQA=\n")
	case 16:
		return []byte("hello\n\n" + good("hello\n") + good("hello\n")) // duplicate line
	case 17:
		l := good("hello\n")
		return []byte("hello\n\n" + l + strings.Replace(l, "— a ", "— b ", 1) + l + sigLine("a", 1, []byte{1, 2, 3}))
	case 18:
		return []byte("hello\n\n" + sigLine("a", 1, []byte{1, 2, 3}) + good("hello\n")) // bad first, good second
	case 19:
		return []byte("hello\n\n" + sigLine("a+b", 1, []byte{1}))
	case 20:
		return []byte("hello\n\n" + sigLine("a", 1, gen.ToySig(k, []byte("hello\n"))) + "— a AAAA AQA=\n")
	default:
		// random edits of a valid signed message
		m := append([]byte(nil), base...)
		for i, n := 0, 1+r.Intn(3); i < n && len(m) > 0; i++ {
			m = c07Mutate(m, c07Mut{Pos: r.Intn(len(m) + 1), Kind: r.Intn(5)})
		}
		return m
	}
}

func c07GenVKey(r *rand.Rand) string {
	names := []string{"a", "example.com/log", "é", "a\x01b", "a b", "", "a ", "\xff", "PRIVATE"}
	name := names[r.Intn(len(names))]
	key := make([]byte, 33)
	r.Read(key[1:])
	key[0] = 1
	switch r.Intn(12) {
	case 0, 3:
		key[0] = byte(r.Intn(4))
	case 1:
		key = key[:r.Intn(33)]
	case 2:
		key = append(key, 0)
	}
	hash := fmt.Sprintf("%08x", gen.NoteKeyHash(name, key))
	b64 := base64.StdEncoding.EncodeToString(key)
	switch r.Intn(32) {
	case 0:
		hash = strings.ToUpper(hash)
	case 12, 13, 14:
		hash = fmt.Sprintf("%08x", gen.NoteKeyHash(name, key)^(1<<uint(r.Intn(32))))
	case 1:
		hash = hash[1:]
	case 2:
		hash = "0" + hash
	case 3:
		hash = fmt.Sprintf("%08x", gen.NoteKeyHash(name, key)^1)
	case 4:
		hash = "+" + hash[1:]
	case 5:
		hash = "0x" + hash[2:]
	case 6:
		hash = hash[:4] + "_" + hash[5:]
	case 7:
		b64 = strings.TrimRight(b64, "=") + "*"
	case 8:
		if len(b64) > 5 {
			b64 = b64[:5] + "\n" + b64[5:]
		}
	case 9:
		b64 = ""
	case 10:
		b64 += "+x"
	case 11:
		hash = "-" + hash[1:]
	}
	s := name + "+" + hash + "+" + b64
	if r.Intn(20) == 0 {
		s = gen.Mutate(r, s, "+=aA0 ")
	}
	return s
}

// ---- Run / Replay ------------------------------------------------------------------------

func runC07(c *hx.Ctx) {
	r := c.Rng
	sink := &c07Sink{
		check: func(o string, ok bool, shape string, in c07In, obs string) { c.Check(o, ok, shape, in, obs) },
		kase:  c.Case, count: c.Count, nontr: c.Nontrivial,
	}

	// names: every single byte, every rune of interest alone and between letters, random ones
	for b := 0; b < 256; b++ {
		c07Name(c07In{Op: "name", Text: c07Hex(string([]byte{byte(b)}))}, sink)
		c07Name(c07In{Op: "name", Text: c07Hex("a" + string([]byte{byte(b)}) + "b")}, sink)
	}
	for _, ru := range []rune{0x85, 0xa0, 0x1680, 0x2000, 0x200a, 0x200b, 0x2028, 0x2029, 0x202f, 0x205f, 0x3000, 0xfeff, 0x180e, 0x2014, 0xfffd, 0x10ffff} {
		c07Name(c07In{Op: "name", Text: c07Hex(string(ru))}, sink)
		c07Name(c07In{Op: "name", Text: c07Hex("x" + string(ru) + "y")}, sink)
	}
	for i := 0; i < c.N(400); i++ {
		c07Name(c07In{Op: "name", Text: c07Hex(gen.NoteName(r))}, sink)
	}

	// verifier / signer keys
	for i := 0; i < c.N(1200); i++ {
		c07VKey(c07In{Op: "vkey", Text: c07Hex(c07GenVKey(r))}, sink)
	}
	for i := 0; i < c.N(60); i++ {
		names := []string{"a", "example.com/log", "é", "a\x01b"}
		e := gen.NewEdKey(r, names[r.Intn(len(names))])
		vk, err := note.NewEd25519VerifierKey(e.Name, ed25519.PublicKey(e.Pub))
		if err == nil {
			c.Case("VerifierKey", wire.L(wire.S(e.Name), wire.Bytes(e.Pub)), wire.S(vk))
		}
		c.Check("verifier-key-format", err == nil && vk == e.VKey, "", c07In{Op: "vkey", Text: c07Hex(e.VKey)}, vk)
		skey := e.SKey
		switch r.Intn(8) {
		case 0:
			skey = strings.Replace(skey, "PRIVATE", "PRIVATF", 1)
		case 1:
			skey = strings.Replace(skey, "+KEY+", "+KEYS+", 1)
		case 2:
			skey = gen.Mutate(r, skey, "+=aA0 ")
		case 3: // the verifier key's data in a signer key: hash of the wrong key
			skey = "PRIVATE+KEY+" + e.VKey
		}
		var sg note.Signer
		var serr error
		hx.Guard(func() { sg, serr = note.NewSigner(skey) })
		// the public key the implementation derives, for the model's pub_of_seed
		pub := []byte{}
		if f := strings.SplitN(skey, "+", 5); len(f) == 5 {
			if kb, derr := base64.StdEncoding.DecodeString(f[4]); derr == nil && len(kb) == 33 {
				pub = []byte(ed25519.NewKeyFromSeed(kb[1:])[32:])
			}
		}
		if serr == nil {
			c.Case("NewSigner", wire.L(wire.S(skey), wire.Bytes(pub)), c07EncKey(sg.Name(), sg.KeyHash(), nil))
		} else {
			c.Case("NewSigner", wire.L(wire.S(skey), wire.Bytes(pub)), c07EncKey("", 0, serr))
		}
	}
	// GenerateKey: signer and verifier fit together
	for i := 0; i < 5; i++ {
		sk, vk, err := note.GenerateKey(r, "gen.example/"+fmt.Sprint(i))
		ok := err == nil
		var msg []byte
		if ok {
			sg, e1 := note.NewSigner(sk)
			v, e2 := note.NewVerifier(vk)
			ok = e1 == nil && e2 == nil
			if ok {
				msg, err = note.Sign(&note.Note{Text: "t\n"}, sg)
				n, e3 := note.Open(msg, note.VerifierList(v))
				ok = err == nil && e3 == nil && n.Text == "t\n" && len(n.Sigs) == 1
			}
		}
		c.Check("generatekey-roundtrip", ok, "", c07In{Op: "vkey", Text: c07Hex(vk)}, "GenerateKey/NewSigner/NewVerifier/Sign/Open do not fit together")
	}

	// scenarios, with all one-byte mutations of short signed messages
	mutBudget := c.N(60000)
	mutCases := 0
	var lastMsg []byte
	for i := 0; i < c.N(8000); i++ {
		in := c07GenScenario(r)
		var muts []c07Mut
		if mutBudget > 0 && r.Intn(30) == 0 {
			// upper bound on the message length is not known yet: positions up to 300
			for p := 0; p <= 300; p++ {
				for k := 0; k < 5; k++ {
					muts = append(muts, c07Mut{p, k})
				}
			}
		}
		s2 := *sink
		s2.k2 = sink.k2
		s2.kase = func(fn string, arg, res wire.Val) {
			if fn == "OpenList" && res.L[0].S == "ok" && len(arg.L[0].S) < 200 {
				lastMsg = []byte(arg.L[0].S)
			}
			c.Case(fn, arg, res)
		}
		s2.count = func(k string) {
			if k == "mutation:accepted" || k == "mutation:rejected" {
				mutBudget--
			}
			c.Count(k)
		}
		c07Scenario(in, &s2, muts, func() bool { mutCases++; return mutCases%3 == 0 })
		sink.k2 = s2.k2
		if i < 6 {
			c.Sample(fmt.Sprintf("scenario text=%q signers=%d known=%d old=%d", c07Unhex(in.Text), len(in.Signers), len(in.Known), len(in.Old)))
		}
	}

	// 100 / 101 signature lines
	for _, nsig := range []int{99, 100, 101, 102} {
		for variant := 0; variant < 3; variant++ {
			in := c07In{Op: "scenario", Text: c07Hex("many\n")}
			for j := 0; j < nsig; j++ {
				k := c07Key{Kind: "toy", Name: c07Hex(fmt.Sprintf("s%d", j)), Hash: uint32(j), Key: "0801"}
				if variant == 1 {
					k.Name = c07Hex("same") // one key, repeated lines
					k.Hash = 7
				}
				in.Signers = append(in.Signers, k)
				if variant != 2 && (j%7 == 0 || variant == 1 && j == 0) {
					in.Known = append(in.Known, k)
				}
			}
			c07Scenario(in, sink, nil, nil)
		}
	}

	// explicit malformed messages
	base := []byte("hello\n\n— a AAAAAQ==\n")
	if lastMsg != nil {
		base = lastMsg
	}
	for i := 0; i < c.N(3000); i++ {
		in := c07In{Op: "open", Msg: c07Hex(string(c07GenExplicit(r, base)))}
		in.Known = []c07Key{{Kind: "toy", Name: c07Hex("a"), Hash: 1, Key: "0801"}}
		if r.Intn(4) == 0 {
			in.Known = append(in.Known, c07GenKey(r))
		}
		c07Explicit(in, sink)
	}

	// a Verifiers table whose entries do not match their keys (the mismatched-verifier check)
	for i := 0; i < c.N(300); i++ {
		c07Table(c07In{Op: "table", Seed: r.Int63()}, sink)
	}
}

// c07TableVerifiers is a note.Verifiers over an explicit table (first matching entry).
type c07TableVerifiers []c07TableEntry

type c07TableEntry struct {
	name string
	hash uint32
	v    note.Verifier
}

func (t c07TableVerifiers) Verifier(name string, hash uint32) (note.Verifier, error) {
	for _, e := range t {
		if e.name == name && e.hash == hash {
			return e.v, nil
		}
	}
	return nil, &note.UnknownVerifierError{Name: name, KeyHash: hash}
}

func c07Table(in c07In, s *c07Sink) {
	r := rand.New(rand.NewSource(in.Seed))
	key := []byte{8, 1}
	text := "table\n"
	names := []string{"a", "b"}
	var msg strings.Builder
	msg.WriteString(text + "\n")
	for i, n := 0, 1+r.Intn(3); i < n; i++ {
		var hb [4]byte
		binary.BigEndian.PutUint32(hb[:], uint32(1+r.Intn(2)))
		msg.WriteString("— " + names[r.Intn(2)] + " " + base64.StdEncoding.EncodeToString(append(hb[:], gen.ToySig(key, []byte(text))...)) + "\n")
	}
	var tv c07TableVerifiers
	var wt []wire.Val
	for i, n := 0, r.Intn(4); i < n; i++ {
		e := c07TableEntry{name: names[r.Intn(2)], hash: uint32(1 + r.Intn(2))}
		vn, vh := e.name, e.hash
		switch r.Intn(4) {
		case 0:
			vn = names[r.Intn(2)]
		case 1:
			vh = uint32(1 + r.Intn(2))
		}
		e.v = &gen.ToyVerifier{N: vn, H: vh, Key: key}
		tv = append(tv, e)
		wt = append(wt, wire.L(wire.S(e.name), wire.I(int64(e.hash)), wire.L(wire.L(wire.S(vn), wire.I(int64(vh)), wire.Bytes(key)))))
	}
	var n *note.Note
	var err error
	p, _ := hx.Guard(func() { n, err = note.Open([]byte(msg.String()), tv) })
	res := c07EncOpen(n, err, p)
	if s.kase != nil {
		s.kase("Open", wire.L(wire.S(msg.String()), wire.L(wt...), wire.L()), res)
	}
	s.cnt("table:" + res.L[0].S + ":" + map[bool]string{true: res.L[1].S, false: ""}[res.L[0].S == "err"])
	// a signature is listed as verified only if the verifier the table returned for its key
	// really is a verifier for that name and hash
	obs := ""
	if err == nil && !p {
		for _, sg := range n.Sigs {
			v, verr := tv.Verifier(sg.Name, sg.Hash)
			if verr != nil || v.Name() != sg.Name || v.KeyHash() != sg.Hash {
				obs = fmt.Sprintf("signature %s+%08x listed as verified by a verifier for another name or hash", sg.Name, sg.Hash)
			}
		}
	}
	s.check("verifier-matches-signature", obs == "", "", in, obs)
}

func replayC07(raw json.RawMessage) (bool, string) {
	var in c07In
	if err := json.Unmarshal(raw, &in); err != nil {
		return false, err.Error()
	}
	var fails []string
	sink := &c07Sink{check: func(o string, ok bool, shape string, _ c07In, obs string) {
		if !ok {
			fails = append(fails, o+": "+obs)
		}
	}}
	switch in.Op {
	case "scenario":
		c07Scenario(in, sink, nil, nil)
	case "open":
		c07Explicit(in, sink)
	case "name":
		c07Name(in, sink)
	case "vkey":
		c07VKey(in, sink)
	case "table":
		c07Table(in, sink)
	default:
		return false, "unknown op " + in.Op
	}
	if len(fails) > 0 {
		return false, strings.Join(fails, "; ")
	}
	return true, ""
}
