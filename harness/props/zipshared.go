package props

// Shared by the module-zip properties C05, C12 and C17: wire encodings of file lists,
// archives, trees and file systems (see coq/Zip/DispatchZip.v), projections of the
// implementation's reports and errors to small classes, runners of the real
// zip.CheckFiles / CheckZip / Create / Unzip / CheckDir / CreateFromDir in scratch
// directories, and the independent oracles.

import (
	"archive/zip"
	"bytes"
	"encoding/hex"
	"errors"
	"fmt"
	"go/version"
	"io"
	"os"
	"path"
	"path/filepath"
	"sort"
	"strings"
	"unicode"

	"golang.org/x/mod/modfile"
	"golang.org/x/mod/module"
	modzip "golang.org/x/mod/zip"

	"verif/harness/gen"
	"verif/harness/hx"
	"verif/harness/wire"
)

// ---- go version regime ---------------------------------------------------------------

// zipGe124 computes, with the same library calls as zip.go (parseGoVers, version.Lang,
// version.Compare), whether the go.mod content selects the 1.24+ vendoring rules.
func zipGe124(data []byte) bool {
	vers := ""
	if mf, err := modfile.ParseLax("go.mod", data, nil); err == nil && mf.Go != nil {
		vers = "go" + mf.Go.Version
	}
	return version.Compare(version.Lang(vers), "go1.24") >= 0
}

// ---- wire encodings --------------------------------------------------------------------

func zipFileVal(f gen.ZipFileSpec) wire.Val {
	return wire.L(wire.S(f.P), wire.Bool(!f.LstatErr), wire.Int(gen.ZipModeClass(f.Mode)), wire.I(f.Size),
		wire.Bool(!f.OpenErr), wire.Bytes(f.Content), wire.Bool(zipGe124(f.Content)))
}

func zipFilesVal(fs []gen.ZipFileSpec) wire.Val {
	l := make([]wire.Val, len(fs))
	for i, f := range fs {
		l[i] = zipFileVal(f)
	}
	return wire.L(l...)
}

func zipU64(u uint64) wire.Val {
	var b zipBig
	return b.val(u)
}

type zipBig struct{}

func (zipBig) val(u uint64) wire.Val {
	if u < 1<<63 {
		return wire.I(int64(u))
	}
	// I<dec> of an unsigned value above the int64 range
	v := wire.I(0)
	v.I.SetUint64(u)
	return v
}

func zipEntriesVal(es []gen.ZipArchEntry) wire.Val {
	l := make([]wire.Val, len(es))
	for i, e := range es {
		l[i] = wire.L(wire.S(e.Name), zipU64(e.Declared), wire.Bytes(e.Content), wire.Int(zipHeaderModeClass(e.Mode)))
	}
	return wire.L(l...)
}

// zipHeaderModeClass: what the header mode of an archive entry says (0 nothing or a regular
// file, 1 directory, 2 symbolic link, 3 other); the implementation must not care.
func zipHeaderModeClass(m os.FileMode) int {
	if m == 0 {
		return 0
	}
	return gen.ZipModeClass(m)
}

func zipTreeVal(ns []*gen.ZipTreeNode) wire.Val {
	l := make([]wire.Val, len(ns))
	for i, n := range ns {
		var nv wire.Val
		switch n.Kind {
		case 1:
			nv = wire.L(wire.Int(1), zipTreeVal(n.Children))
		case 0:
			nv = wire.L(wire.Int(0), wire.Int(0), wire.Bytes(n.Content), wire.Bool(zipGe124(n.Content)))
		default:
			nv = wire.L(wire.Int(0), wire.Int(n.Kind), wire.S(""), wire.Bool(false))
		}
		l[i] = wire.L(wire.S(n.Name), nv)
	}
	return wire.L(l...)
}

// zipFsEntry is one path of a file-system listing.
type zipFsEntry struct {
	Path    string
	Dir     bool
	Content []byte
}

func zipFsVal(es []zipFsEntry, blank bool) wire.Val {
	s := append([]zipFsEntry(nil), es...)
	sort.Slice(s, func(i, j int) bool { return s[i].Path < s[j].Path })
	l := make([]wire.Val, len(s))
	for i, e := range s {
		switch {
		case e.Dir:
			l[i] = wire.L(wire.S(e.Path), wire.Int(1), wire.S(""))
		case blank:
			l[i] = wire.L(wire.S(e.Path), wire.Int(0), wire.S(""))
		default:
			l[i] = wire.L(wire.S(e.Path), wire.Int(0), wire.Bytes(e.Content))
		}
	}
	return wire.L(l...)
}

// ---- projections of errors -----------------------------------------------------------

// zipFileErrKind projects the error attached to one path to its class (the identity of
// the error where it is exported or ours, otherwise the fixed part of its message).
func zipFileErrKind(err error) string {
	var ipe *module.InvalidPathError
	switch {
	case err == nil:
		return "nil"
	case errors.Is(err, gen.ErrSynthLstat):
		return "lstat"
	case errors.As(err, &ipe):
		return "badpath"
	}
	msg := err.Error()
	exact := map[string]string{
		"file path is not clean":                    "notclean",
		"file path is not relative":                 "notrelative",
		"go.mod files must have lowercase names":    "gomodcase",
		"go.mod file not in module root directory":  "gomodnotroot",
		"file is in vendor directory":               "vendored",
		"file is in another module":                 "submodule-file",
		"directory is in another module":            "submodule-dir",
		"file is a symbolic link":                   "symlink",
		"not a regular file":                        "notregular",
		"directory is a version control repository": "vcs",
		"file is inserted by 'hg archive' and is always omitted": "hgarchival",
	}
	if k, ok := exact[msg]; ok {
		return k
	}
	switch {
	case strings.HasPrefix(msg, "go.mod file too large"):
		return "gomodsize"
	case strings.HasPrefix(msg, "LICENSE file too large"):
		return "licensesize"
	case strings.HasPrefix(msg, "case-insensitive file name collision: "):
		return "coll-case"
	case strings.HasPrefix(msg, "entry ") && strings.HasSuffix(msg, " is both a file and a directory"):
		return "coll-filedir"
	case strings.HasPrefix(msg, "multiple entries for file "):
		return "coll-multiple"
	case strings.HasPrefix(msg, "path does not have prefix "):
		return "noprefix"
	}
	return "other:" + msg
}

// zipTopErrClass projects the error returned by CheckFiles/CheckZip/CheckDir/Create/Unzip.
func zipTopErrClass(err error) string {
	if err == nil {
		return ""
	}
	var fel modzip.FileErrorList
	var ipe *module.InvalidPathError
	var me *module.ModuleError
	switch {
	case errors.As(err, &fel):
		return "invalid"
	case errors.Is(err, gen.ErrSynthOpen):
		return "open"
	case errors.As(err, &ipe), errors.As(err, &me):
		return "badmodule"
	}
	msg := err.Error()
	switch {
	case strings.Contains(msg, "is not canonical (should be"):
		return "noncanonical"
	case strings.Contains(msg, "module source tree too large"),
		strings.Contains(msg, "total uncompressed size of module contents too large"),
		strings.Contains(msg, "module zip file is too large"):
		return "size"
	case strings.Contains(msg, "is larger than declared size"):
		return "larger"
	case strings.Contains(msg, "exists and is not empty"):
		return "notempty"
	}
	return "other:" + msg
}

func zipErrsVal(fes []modzip.FileError) wire.Val {
	l := make([]wire.Val, len(fes))
	for i, fe := range fes {
		l[i] = wire.L(wire.S(fe.Path), wire.S(zipFileErrKind(fe.Err)))
	}
	return wire.L(l...)
}

func zipReportVal(cf modzip.CheckedFiles, err error) wire.Val {
	return wire.L(
		wire.L(wire.Strs(cf.Valid), zipErrsVal(cf.Omitted), zipErrsVal(cf.Invalid), wire.Bool(cf.SizeError != nil)),
		wire.S(zipTopErrClass(err)))
}

// ---- running the implementation --------------------------------------------------------

func zipImplCheckFiles(fs []gen.ZipFileSpec) (cf modzip.CheckedFiles, err error, res wire.Val) {
	if p, _ := hx.Guard(func() { cf, err = modzip.CheckFiles(gen.ToZipFiles(fs)) }); p {
		return cf, err, wire.Panic()
	}
	return cf, err, zipReportVal(cf, err)
}

// zipReadEntries decodes an archive written by zip.Create: names and contents.
func zipReadEntries(data []byte) ([][2]string, error) {
	zr, err := zip.NewReader(bytes.NewReader(data), int64(len(data)))
	if err != nil {
		return nil, err
	}
	var out [][2]string
	for _, f := range zr.File {
		rc, err := f.Open()
		if err != nil {
			return nil, err
		}
		b, err := io.ReadAll(rc)
		rc.Close()
		if err != nil {
			return nil, err
		}
		out = append(out, [2]string{f.Name, string(b)})
	}
	return out, nil
}

func zipCreateResultVal(data []byte, err error) wire.Val {
	if err != nil {
		return wire.Err(zipTopErrClass(err))
	}
	es, rerr := zipReadEntries(data)
	if rerr != nil {
		return wire.Err("unreadable:" + rerr.Error())
	}
	l := make([]wire.Val, len(es))
	for i, e := range es {
		l[i] = wire.L(wire.S(e[0]), wire.S(e[1]))
	}
	return wire.Ok(wire.L(l...))
}

func zipImplCreate(m module.Version, fs []gen.ZipFileSpec) (data []byte, err error, res wire.Val) {
	var buf bytes.Buffer
	if p, _ := hx.Guard(func() { err = modzip.Create(&buf, m, gen.ToZipFiles(fs)) }); p {
		return nil, errors.New("panic"), wire.Panic()
	}
	if err == nil {
		data = buf.Bytes()
	}
	return data, err, zipCreateResultVal(data, err)
}

// zipScratch hands out numbered scratch directories below <out>/tmp.
type zipScratch struct {
	base string
	n    int
}

func newZipScratch(out string) *zipScratch {
	base := filepath.Join(out, "tmp")
	os.RemoveAll(base)
	if err := os.MkdirAll(base, 0o755); err != nil {
		panic(err)
	}
	abs, err := filepath.Abs(base)
	if err != nil {
		panic(err)
	}
	return &zipScratch{base: abs}
}

func (s *zipScratch) next() string {
	s.n++
	d := filepath.Join(s.base, fmt.Sprintf("%06d", s.n))
	if err := os.Mkdir(d, 0o755); err != nil {
		panic(err)
	}
	return d
}

func zipRemoveAll(d string) {
	// extracted files are read-only but their directories are writable
	filepath.Walk(d, func(p string, info os.FileInfo, err error) error {
		if err == nil && info.IsDir() {
			os.Chmod(p, 0o755)
		}
		return nil
	})
	os.RemoveAll(d)
}

func zipImplCheckZip(s *zipScratch, m module.Version, data []byte) (cf modzip.CheckedFiles, err error, res wire.Val) {
	d := s.next()
	defer zipRemoveAll(d)
	zf := filepath.Join(d, "a.zip")
	if werr := os.WriteFile(zf, data, 0o644); werr != nil {
		panic(werr)
	}
	if p, _ := hx.Guard(func() { cf, err = modzip.CheckZip(m, zf) }); p {
		return cf, err, wire.Panic()
	}
	return cf, err, zipReportVal(cf, err)
}

// zipListTree lists everything below root (not root itself) without following links.
func zipListTree(root string) []zipFsEntry {
	var out []zipFsEntry
	filepath.Walk(root, func(p string, info os.FileInfo, err error) error {
		if err != nil || p == root {
			return nil
		}
		e := zipFsEntry{Path: p, Dir: info.IsDir()}
		if info.Mode().IsRegular() {
			e.Content, _ = os.ReadFile(p)
		}
		out = append(out, e)
		return nil
	})
	return out
}

// ancestors of a clean absolute path, "/" first, p itself last
func zipAncestors(p string) []zipFsEntry {
	var out []zipFsEntry
	for q := p; ; q = filepath.Dir(q) {
		out = append([]zipFsEntry{{Path: q, Dir: true}}, out...)
		if q == "/" {
			break
		}
	}
	return out
}

// zipUnzipRun is one execution of zip.Unzip in a fresh parent directory holding sentinel
// files; Target is parent/t prepared according to TargetKind (0 absent, 1 empty directory,
// 2 directory with a file, 3 a regular file).
type zipUnzipRun struct {
	Parent, Target string
	Before, After  []zipFsEntry // parent and everything below it
	Err            error
	Panicked       bool
}

func zipImplUnzip(s *zipScratch, targetKind int, m module.Version, data []byte) zipUnzipRun {
	d := s.next()
	zf := filepath.Join(d, "a.zip")
	must := func(err error) {
		if err != nil {
			panic(err)
		}
	}
	must(os.WriteFile(zf, data, 0o644))
	parent := filepath.Join(d, "p")
	must(os.Mkdir(parent, 0o755))
	must(os.WriteFile(filepath.Join(parent, "sentinel"), []byte("sentinel-1"), 0o644))
	must(os.Mkdir(filepath.Join(parent, "sd"), 0o755))
	must(os.WriteFile(filepath.Join(parent, "sd", "x"), []byte("sentinel-2"), 0o644))
	must(os.WriteFile(filepath.Join(parent, "tx"), []byte("sentinel-3"), 0o644))
	target := filepath.Join(parent, "t")
	switch targetKind {
	case 1:
		must(os.Mkdir(target, 0o755))
	case 2:
		must(os.Mkdir(target, 0o755))
		must(os.WriteFile(filepath.Join(target, "old"), []byte("old"), 0o644))
	case 3:
		must(os.WriteFile(target, []byte("file"), 0o644))
	}
	run := zipUnzipRun{Parent: parent, Target: target}
	run.Before = append([]zipFsEntry{{Path: parent, Dir: true}}, zipListTree(parent)...)
	run.Panicked, _ = hx.Guard(func() { run.Err = modzip.Unzip(target, m, zf) })
	run.After = append([]zipFsEntry{{Path: parent, Dir: true}}, zipListTree(parent)...)
	// the scratch directory itself must hold nothing but the archive and the parent
	if es, _ := os.ReadDir(d); len(es) != 2 {
		run.After = append(run.After, zipFsEntry{Path: d + "/<unexpected entries beside the parent>", Dir: true})
	}
	zipRemoveAll(d)
	return run
}

func zipUnzipClass(run zipUnzipRun) string {
	if run.Err == nil {
		return "ok"
	}
	var pe *os.PathError
	k := zipTopErrClass(run.Err)
	if strings.HasPrefix(k, "other:") && errors.As(run.Err, &pe) {
		switch pe.Op {
		case "mkdir":
			return "mkdir"
		case "open":
			return "exists"
		}
	}
	if errors.Is(run.Err, zip.ErrFormat) || errors.Is(run.Err, io.ErrUnexpectedEOF) {
		return "sizemismatch"
	}
	return k
}

func zipUnzipCase(c *hx.Ctx, run zipUnzipRun, m module.Version, zipSize int, es []gen.ZipArchEntry) {
	anc := zipAncestors(filepath.Dir(run.Parent))
	before := append(append([]zipFsEntry(nil), anc...), run.Before...)
	after := append(append([]zipFsEntry(nil), anc...), run.After...)
	arg := wire.L(zipFsVal(before, false), wire.S(run.Target), wire.S(m.Path), wire.S(m.Version), wire.Int(zipSize), zipEntriesVal(es))
	cls := zipUnzipClass(run)
	var res wire.Val
	if run.Panicked {
		res = wire.Panic()
	} else {
		res = wire.L(wire.S(cls), zipFsVal(after, cls != "ok"))
	}
	c.Case("zip.Unzip", arg, res)
}

// ---- JSON forms for replays --------------------------------------------------------------

type zipJsFile struct {
	P        string `json:"path_hex"`
	LstatErr bool   `json:"lstat_err,omitempty"`
	Mode     uint32 `json:"mode"`
	Size     int64  `json:"size"`
	OpenErr  bool   `json:"open_err,omitempty"`
	Content  string `json:"content_hex"`
}

type zipJsEntry struct {
	Name     string `json:"name_hex"`
	Declared uint64 `json:"declared"`
	Content  string `json:"content_hex"`
	Mode     uint32 `json:"header_mode,omitempty"`
}

type zipJsNode struct {
	Name     string    `json:"name_hex"`
	Kind     int       `json:"kind"`
	Content  string    `json:"content_hex,omitempty"`
	Children []*zipJsNode `json:"children,omitempty"`
}

type zipIn struct {
	Op         string    `json:"op"`
	ModPath    string    `json:"mod_path,omitempty"`
	ModVersion string    `json:"mod_version,omitempty"`
	Files      []zipJsFile  `json:"files,omitempty"`
	Files2     []zipJsFile  `json:"files2,omitempty"`
	Entries    []zipJsEntry `json:"entries,omitempty"`
	Tree       []*zipJsNode `json:"tree,omitempty"`
	TargetKind int       `json:"target_kind,omitempty"`
	Str        string    `json:"str_hex,omitempty"`
}

func zipHex(s string) string { return hex.EncodeToString([]byte(s)) }
func zipUnhex(h string) string {
	b, _ := hex.DecodeString(h)
	return string(b)
}

func zipJsFiles(fs []gen.ZipFileSpec) []zipJsFile {
	out := make([]zipJsFile, len(fs))
	for i, f := range fs {
		out[i] = zipJsFile{zipHex(f.P), f.LstatErr, uint32(f.Mode), f.Size, f.OpenErr, hex.EncodeToString(f.Content)}
	}
	return out
}

func zipUnjsFiles(js []zipJsFile) []gen.ZipFileSpec {
	out := make([]gen.ZipFileSpec, len(js))
	for i, f := range js {
		out[i] = gen.ZipFileSpec{P: zipUnhex(f.P), LstatErr: f.LstatErr, Mode: os.FileMode(f.Mode), Size: f.Size, OpenErr: f.OpenErr, Content: []byte(zipUnhex(f.Content))}
	}
	return out
}

func zipJsEntries(es []gen.ZipArchEntry) []zipJsEntry {
	out := make([]zipJsEntry, len(es))
	for i, e := range es {
		out[i] = zipJsEntry{zipHex(e.Name), e.Declared, hex.EncodeToString(e.Content), uint32(e.Mode)}
	}
	return out
}

func zipUnjsEntries(js []zipJsEntry) []gen.ZipArchEntry {
	out := make([]gen.ZipArchEntry, len(js))
	for i, e := range js {
		out[i] = gen.ZipArchEntry{Name: zipUnhex(e.Name), Declared: e.Declared, Content: []byte(zipUnhex(e.Content)), Mode: os.FileMode(e.Mode)}
	}
	return out
}

func zipJsTree(ns []*gen.ZipTreeNode) []*zipJsNode {
	out := make([]*zipJsNode, len(ns))
	for i, n := range ns {
		out[i] = &zipJsNode{Name: zipHex(n.Name), Kind: n.Kind, Content: hex.EncodeToString(n.Content), Children: zipJsTree(n.Children)}
	}
	return out
}

func zipUnjsTree(js []*zipJsNode) []*gen.ZipTreeNode {
	out := make([]*gen.ZipTreeNode, len(js))
	for i, n := range js {
		out[i] = &gen.ZipTreeNode{Name: zipUnhex(n.Name), Kind: n.Kind, Content: []byte(zipUnhex(n.Content)), Children: zipUnjsTree(n.Children)}
	}
	return out
}

// zipReplayScratch is where Replay functions create their temporary directories.
func zipReplayScratch(id string) *zipScratch {
	return newZipScratch(filepath.Join("/verif/.work", "replay-"+id))
}

// zipDocFilePathOK is the documented rule for file paths (module.CheckFilePath's doc comment),
// stated independently of the implementation: the literal doc-rules oracle of C06 (non-empty
// elements of letters, digits, space and the listed punctuation; no trailing dot; the prefix up
// to the FIRST dot is not a reserved Windows name in any case).
func zipDocFilePathOK(p string) bool { return c06DocPathOK(c06File, p, false) }

// ---- the documented classification rules, written independently of checkFiles -------------

type zipSpecReport struct {
	Valid    []string
	Omitted  map[string]string // path -> class
	Invalid  map[string]string
	SizeErr  bool
	OmitList []string // paths in reporting order (for messages)
}

// zipSpecVendored: "contained in a package whose import path contains (but does not end with)
// the component vendor"; vendor/modules.txt from go 1.24 on; the pre-1.24 offset bug
// (golang.org/issue/37397) kept for old modules.
func zipSpecVendored(name string, new bool) bool {
	if new && name == "vendor/modules.txt" {
		return true
	}
	el := strings.Split(name, "/")
	if len(el) >= 2 && el[0] == "vendor" {
		return len(el) >= 3
	}
	for k := 1; k+1 < len(el); k++ {
		if el[k] == "vendor" {
			if new {
				return len(el)-(k+1) >= 2
			}
			return strings.Contains(name[len("/vendor/"):], "/")
		}
	}
	return false
}

type zipSpecReg struct {
	path  string
	isDir bool
}

// zipSpecCheckFiles transcribes the package documentation and the comments of CheckFiles:
// which list every path lands in, and why.
func zipSpecCheckFiles(files []gen.ZipFileSpec) zipSpecReport {
	rep := zipSpecReport{Omitted: map[string]string{}, Invalid: map[string]string{}}
	reported := map[string]bool{}
	report := func(p string, omitted bool, kind string) {
		if reported[p] {
			return
		}
		reported[p] = true
		if omitted {
			rep.Omitted[p] = kind
			rep.OmitList = append(rep.OmitList, p)
		} else {
			rep.Invalid[p] = kind
		}
	}
	lastElem := func(p string) (string, string) {
		i := strings.LastIndex(p, "/")
		return p[:i+1], p[i+1:]
	}
	// directories of nested modules; go version of the root go.mod; unreadable go.mod files
	modDirs := map[string]bool{}
	ge124 := false
	for _, f := range files {
		dir, base := lastElem(f.P)
		if !strings.EqualFold(base, "go.mod") {
			continue
		}
		if f.LstatErr {
			report(f.P, false, "lstat")
			continue
		}
		if gen.ZipModeClass(f.Mode) != 0 {
			continue
		}
		modDirs[dir] = true
		if f.P == "go.mod" && !f.OpenErr {
			ge124 = zipGe124(f.Content)
		}
	}
	var reg []zipSpecReg
	collide := func(p string, isDir bool) string {
		for q, d := p, isDir; ; q, d = path.Dir(q), true {
			found := false
			for _, r := range reg {
				if strings.EqualFold(r.path, q) {
					found = true
					switch {
					case r.path != q:
						return "coll-case"
					case r.isDir != d:
						return "coll-filedir"
					case !d:
						return "coll-multiple"
					}
					break
				}
			}
			if !found {
				reg = append(reg, zipSpecReg{q, d})
			}
			if path.Dir(q) == "." {
				return ""
			}
		}
	}
	room := int64(modzip.MaxZipFile)
	for _, f := range files {
		p := f.P
		inModule := false
		for i := 0; i < len(p); i++ {
			if p[i] == '/' && modDirs[p[:i+1]] {
				inModule = true
			}
		}
		mc := gen.ZipModeClass(f.Mode)
		switch {
		case path.Clean(p) != p:
			report(p, false, "notclean")
		case strings.HasPrefix(p, "/"):
			report(p, false, "notrelative")
		case zipSpecVendored(p, ge124):
			report(p, true, "vendored")
		case inModule:
			report(p, true, "submodule-file")
		case p == ".hg_archival.txt":
			report(p, true, "hgarchival")
		case !zipDocFilePathOK(p):
			report(p, false, "badpath")
		case p != "go.mod" && strings.EqualFold(p, "go.mod"):
			report(p, false, "gomodcase")
		case f.LstatErr:
			report(p, false, "lstat")
		default:
			if k := collide(p, mc == 1); k != "" {
				report(p, false, k)
				continue
			}
			if mc == 2 {
				report(p, true, "symlink")
				continue
			}
			if mc != 0 {
				report(p, true, "notregular")
				continue
			}
			if f.Size >= 0 && f.Size <= room {
				room -= f.Size
			} else {
				rep.SizeErr = true
			}
			if p == "go.mod" && f.Size > modzip.MaxGoMod {
				report(p, false, "gomodsize")
				continue
			}
			if p == "LICENSE" && f.Size > modzip.MaxLICENSE {
				report(p, false, "licensesize")
				continue
			}
			rep.Valid = append(rep.Valid, p)
		}
	}
	return rep
}

// zipPartitionCheck: every input path is reported; no path is both omitted and invalid;
// no list repeats a path; a path that is valid and also reported as an error occurs more
// than once in the input (for distinct paths: exactly one list).
func zipPartitionCheck(files []gen.ZipFileSpec, cf modzip.CheckedFiles) string {
	count := map[string]int{}
	for _, f := range files {
		count[f.P]++
	}
	where := map[string][]string{}
	add := func(p, list string) string {
		for _, w := range where[p] {
			if w == list {
				return fmt.Sprintf("%q is listed twice in %s", p, list)
			}
		}
		where[p] = append(where[p], list)
		if count[p] == 0 {
			return fmt.Sprintf("%q in %s is not an input path", p, list)
		}
		return ""
	}
	for _, p := range cf.Valid {
		if m := add(p, "Valid"); m != "" {
			return m
		}
	}
	for _, fe := range cf.Omitted {
		if m := add(fe.Path, "Omitted"); m != "" {
			return m
		}
	}
	for _, fe := range cf.Invalid {
		if m := add(fe.Path, "Invalid"); m != "" {
			return m
		}
	}
	for p, n := range count {
		w := where[p]
		switch {
		case len(w) == 0:
			return fmt.Sprintf("%q is in none of Valid, Omitted, Invalid", p)
		case len(w) > 1 && n == 1:
			return fmt.Sprintf("%q (given once) is in %v", p, w)
		case len(w) > 1 && !(len(w) == 2 && w[0] == "Valid" && w[1] == "Invalid"):
			return fmt.Sprintf("%q (given %d times) is in %v", p, n, w)
		}
	}
	return ""
}

func zipSpecCompare(files []gen.ZipFileSpec, cf modzip.CheckedFiles) string {
	sp := zipSpecCheckFiles(files)
	if strings.Join(sp.Valid, "\x00") != strings.Join(cf.Valid, "\x00") || len(sp.Valid) != len(cf.Valid) {
		return fmt.Sprintf("Valid=%q, documented rules give %q", cf.Valid, sp.Valid)
	}
	chk := func(name string, got []modzip.FileError, want map[string]string) string {
		if len(got) != len(want) {
			return fmt.Sprintf("%s has %d entries, documented rules give %d (%v)", name, len(got), len(want), want)
		}
		for _, fe := range got {
			if k := zipFileErrKind(fe.Err); want[fe.Path] != k {
				return fmt.Sprintf("%s: %q is %q, documented rules give %q", name, fe.Path, k, want[fe.Path])
			}
		}
		return ""
	}
	if m := chk("Omitted", cf.Omitted, sp.Omitted); m != "" {
		return m
	}
	if m := chk("Invalid", cf.Invalid, sp.Invalid); m != "" {
		return m
	}
	if sp.SizeErr != (cf.SizeError != nil) {
		return fmt.Sprintf("SizeError=%v, documented rules give %v", cf.SizeError, sp.SizeErr)
	}
	return ""
}

// zipToLowerPreimage checks the fact the model of `strings.ToLower(p) == "go.mod"` rests
// on: no rune outside ASCII lower-cases to one of the letters of "go.mod".
func zipToLowerPreimage() string {
	for r := rune(0x80); r <= unicode.MaxRune; r++ {
		if l := unicode.ToLower(r); l < 0x80 && strings.ContainsRune("go.md", l) {
			return fmt.Sprintf("unicode.ToLower(%U) = %q", r, l)
		}
	}
	return ""
}

func zipShuffle(c *hx.Ctx, fs []gen.ZipFileSpec) []gen.ZipFileSpec {
	out := append([]gen.ZipFileSpec(nil), fs...)
	c.Rng.Shuffle(len(out), func(i, j int) { out[i], out[j] = out[j], out[i] })
	return out
}

// ---- the documented restrictions on an archive, written independently of checkZip ----------

type zipSpecItem struct {
	path  string
	isDir bool
}

// zipSpecArchive decides whether the entries obey the restrictions of the package
// documentation for module m (prefix, valid clean paths, no collisions under case folding
// or as file versus directory, go.mod only at the root in lower case, size limits on the
// declared sizes).  why names the first violated restriction.
func zipSpecArchive(m module.Version, es []gen.ZipArchEntry) (ok bool, why string) {
	prefix := m.Path + "@" + m.Version + "/"
	var items []zipSpecItem
	total := uint64(0)
	for _, e := range es {
		if !strings.HasPrefix(e.Name, prefix) {
			return false, fmt.Sprintf("%q lacks the prefix", e.Name)
		}
		name := e.Name[len(prefix):]
		if name == "" {
			continue
		}
		isDir := strings.HasSuffix(name, "/")
		if isDir {
			name = name[:len(name)-1]
		}
		if path.Clean(name) != name {
			return false, fmt.Sprintf("%q is not clean", e.Name)
		}
		if !zipDocFilePathOK(name) {
			return false, fmt.Sprintf("%q is not a valid file path by the documented rules", e.Name)
		}
		el := strings.Split(name, "/")
		for i := len(el); i >= 1; i-- {
			q, d := strings.Join(el[:i], "/"), isDir || i < len(el)
			known := false
			for _, it := range items {
				if !strings.EqualFold(it.path, q) {
					continue
				}
				if it.path != q {
					return false, fmt.Sprintf("%q and %q differ only in case", it.path, q)
				}
				if it.isDir != d {
					return false, fmt.Sprintf("%q is both a file and a directory", q)
				}
				if !d {
					return false, fmt.Sprintf("%q occurs twice", q)
				}
				known = true
			}
			if !known {
				items = append(items, zipSpecItem{q, d})
			}
		}
		if isDir {
			continue
		}
		if strings.EqualFold(el[len(el)-1], "go.mod") {
			if len(el) > 1 {
				return false, fmt.Sprintf("%q: go.mod outside the root", e.Name)
			}
			if name != "go.mod" {
				return false, fmt.Sprintf("%q: go.mod in the wrong case", e.Name)
			}
		}
		if e.Declared > uint64(modzip.MaxZipFile) || total+e.Declared > uint64(modzip.MaxZipFile) {
			return false, "total declared size above MaxZipFile"
		}
		total += e.Declared
		if name == "go.mod" && e.Declared > modzip.MaxGoMod {
			return false, "go.mod above MaxGoMod"
		}
		if name == "LICENSE" && e.Declared > modzip.MaxLICENSE {
			return false, "LICENSE above MaxLICENSE"
		}
	}
	return true, ""
}

// zipCanonicalVersion: "canonical" as documented for module.CanonicalVersion (semver.Canonical
// plus a preserved "+incompatible"), decided with the SemVer grammar of the C04 oracle and not
// with the implementation.
func zipCanonicalVersion(v string) bool {
	s := specParse(v)
	if !s.ok {
		return false
	}
	want := s.canonical()
	if s.build == "+incompatible" {
		want += "+incompatible"
	}
	return want == v
}

func zipModuleOK(m module.Version) bool {
	return zipCanonicalVersion(m.Version) && module.Check(m.Path, m.Version) == nil
}

// zipConfined: compared with the listing before, the listing after differs only inside the
// target directory (or by the target directory itself having been created).
func zipConfined(run zipUnzipRun) string {
	before := map[string]zipFsEntry{}
	for _, e := range run.Before {
		before[e.Path] = e
	}
	inside := func(p string) bool { return p == run.Target || strings.HasPrefix(p, run.Target+"/") }
	seen := map[string]bool{}
	for _, e := range run.After {
		seen[e.Path] = true
		b, was := before[e.Path]
		switch {
		case !was && !inside(e.Path):
			return fmt.Sprintf("%q was created outside the target %q", e.Path, run.Target)
		case was && (b.Dir != e.Dir || !bytes.Equal(b.Content, e.Content)):
			return fmt.Sprintf("%q existed before and was changed", e.Path)
		}
	}
	for p := range before {
		if !seen[p] {
			return fmt.Sprintf("%q existed before and is gone", p)
		}
	}
	return ""
}

// zipTreeIsEntries: after a successful Unzip the regular files below the target are exactly
// the non-directory entries (prefix stripped) with their contents, and the directories are
// exactly the ancestors of those files.
func zipTreeIsEntries(run zipUnzipRun, prefix string, names []string, contents [][]byte) string {
	want := map[string][]byte{}
	dirs := map[string]bool{}
	for i, n := range names {
		rel := strings.TrimPrefix(n, prefix)
		if rel == "" || strings.HasSuffix(rel, "/") {
			continue
		}
		want[run.Target+"/"+rel] = contents[i]
		for d := path.Dir(rel); d != "."; d = path.Dir(d) {
			dirs[run.Target+"/"+d] = true
		}
	}
	n := 0
	for _, e := range run.After {
		if !strings.HasPrefix(e.Path, run.Target+"/") {
			continue
		}
		if e.Dir {
			if !dirs[e.Path] {
				return fmt.Sprintf("directory %q is not an ancestor of an entry", e.Path)
			}
			delete(dirs, e.Path)
			continue
		}
		w, ok := want[e.Path]
		if !ok {
			return fmt.Sprintf("file %q is not an entry", e.Path)
		}
		if !bytes.Equal(w, e.Content) {
			return fmt.Sprintf("file %q has content %q, the entry has %q", e.Path, e.Content, w)
		}
		n++
	}
	if n != len(want) {
		return fmt.Sprintf("%d files extracted, %d entries", n, len(want))
	}
	if len(dirs) != 0 {
		return fmt.Sprintf("missing directories %v", dirs)
	}
	return ""
}
