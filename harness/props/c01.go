package props

// C01 — the checksum-database client never returns or caches unauthenticated data.
// (shared with C13: scenario encoding for the Coq model, the oracles, the replay.)
//
// A scenario (gen.SumScenario) is run through the real sumdb.Client over the recording
// ClientOps of gen/sumdbworld.go.  Two things are derived from the run:
//   * a correspondence case "Scenario": the world as the client saw it (configuration, the
//     cache files it touched, the remote responses in the order served per path, the valid
//     (key,text,signature) triples, interference) and the observables (per lookup: result class
//     and lines, sorted remote/cache reads; the ordered WriteCache/WriteConfig/ReadConfig/
//     Security events with data; the final configuration).  The Coq model (Client/Seq.v) must
//     produce the same observables.  Only a sample of the scenarios goes through the model
//     (the extracted SHA-256 is slow); ALL scenarios go through the oracles.
//   * the oracle verdicts, computed from the harness's own knowledge of the logs (independent
//     RFC 6962 hashes, its own signature registry), never from the model.

import (
	"bytes"
	"encoding/base64"
	"encoding/json"
	"fmt"
	"math/rand"
	"sort"
	"strconv"
	"strings"

	"golang.org/x/mod/sumdb/tlog"

	"verif/harness/gen"
	"verif/harness/hx"
	"verif/harness/wire"
)

func init() { hx.Register(&hx.Prop{ID: "C01", Run: runC01, Replay: replaySum}) }

// ---------------------------------------------------------------- encoding for the model

func sumPairList(m map[string][]byte, only map[string]bool) wire.Val {
	names := make([]string, 0, len(m))
	for k := range m {
		if only == nil || only[k] {
			names = append(names, k)
		}
	}
	sort.Strings(names)
	l := make([]wire.Val, len(names))
	for i, k := range names {
		l[i] = wire.L(wire.S(k), wire.Bytes(m[k]))
	}
	return wire.L(l...)
}

// sumCase encodes the scenario as seen by the client and the observables of the run.
func sumCase(run *gen.SumRun) (arg, res wire.Val) {
	sc := run.Sc
	touched := map[string]bool{}
	for _, e := range run.Events {
		if e.Kind == "rc" {
			touched[e.Name] = true
		}
	}
	var remote []wire.Val
	for _, s := range run.Served {
		remote = append(remote, wire.L(wire.S(s.Path), wire.Bytes(s.Data), wire.Bool(s.Err)))
	}
	var pairs []wire.Val
	for _, p := range run.W.Pairs {
		pairs = append(pairs, wire.L(wire.Bytes(p.Key), wire.S(p.Text), wire.Bytes(p.Sig)))
	}
	var interf []wire.Val
	for _, it := range sc.Interf {
		interf = append(interf, wire.L(wire.Int(it.At), wire.Bytes(run.W.HeadMsg(it.HeadSide, it.HeadN, it.HeadKind))))
	}
	var steps []wire.Val
	for _, st := range sc.Steps {
		steps = append(steps, wire.L(wire.Int(st.Client), wire.S(st.Path), wire.S(st.Vers)))
	}
	arg = wire.L(wire.Int(sc.H), sumPairList(run.Config0, nil), sumPairList(run.Cache0, touched),
		wire.L(remote...), wire.L(pairs...), wire.L(interf...), wire.L(steps...))

	var results, reads, evs []wire.Val
	nsec := 0
	for i, r := range run.Results {
		switch r.Class {
		case "ok":
			results = append(results, wire.Ok(wire.Strs(r.Lines)))
		case "panic":
			results = append(results, wire.Panic())
		default:
			results = append(results, wire.Err(r.Class))
		}
		var rr, rc []string
		for _, e := range run.Events {
			if e.Step != i {
				continue
			}
			if e.Kind == "rr" {
				rr = append(rr, e.Name)
			}
			if e.Kind == "rc" {
				rc = append(rc, e.Name)
			}
		}
		sort.Strings(rr)
		sort.Strings(rc)
		reads = append(reads, wire.L(wire.Strs(rr), wire.Strs(rc)))
	}
	for _, e := range run.Events {
		switch e.Kind {
		case "wc":
			evs = append(evs, wire.L(wire.S("wc"), wire.S(e.Name), wire.Bytes(e.Data)))
		case "wcfg":
			evs = append(evs, wire.L(wire.S("wcfg"), wire.S(e.Name), wire.Bytes(e.Old), wire.Bytes(e.Data), wire.Bool(!e.Err)))
		case "rcfg":
			evs = append(evs, wire.L(wire.S("rcfg"), wire.S(e.Name)))
		case "sec":
			nsec++
			evs = append(evs, wire.L(wire.S("sec")))
		}
	}
	res = wire.L(wire.L(results...), wire.L(reads...), wire.L(evs...), wire.Int(nsec), sumPairList(run.Config, nil))
	return arg, res
}

// ---------------------------------------------------------------- oracles

type sumFail struct{ Oracle, Msg string }

func sumParseTreeText(text string) (n int64, h tlog.Hash, ok bool) {
	lines := strings.SplitN(text, "\n", 4)
	if len(lines) < 4 || lines[0] != "go.sum database tree" {
		return 0, h, false
	}
	n, err := strconv.ParseInt(lines[1], 10, 64)
	if err != nil || n < 0 {
		return 0, h, false
	}
	b, err := base64.StdEncoding.DecodeString(lines[2])
	if err != nil || len(b) != tlog.HashSize {
		return 0, h, false
	}
	copy(h[:], b)
	return n, h, true
}

func sumFilter(data []byte, prefix string) []string {
	var out []string
	for _, ln := range strings.Split(string(data), "\n") {
		if strings.HasPrefix(ln, prefix) {
			out = append(out, ln)
		}
	}
	return out
}

func sumMaxSigned(w *gen.SumWorld) [2]int64 {
	var m [2]int64
	for _, hd := range w.Signed {
		if hd.Side == 0 || hd.Side == 1 {
			if hd.N > m[hd.Side] {
				m[hd.Side] = hd.N
			}
		}
	}
	// a head on the common prefix is a head of both sides
	return m
}

// sumAuthRecord: data starts with the formatted record (id, text) of a log the harness
// signed a head for with N > id.  Returns the rest.
func sumAuthRecord(w *gen.SumWorld, data []byte) (rest []byte, side, id int, ok bool) {
	i := bytes.IndexByte(data, '\n')
	if i < 0 {
		return nil, 0, 0, false
	}
	id64, err := strconv.ParseInt(string(data[:i]), 10, 64)
	if err != nil || id64 < 0 {
		return nil, 0, 0, false
	}
	max := sumMaxSigned(w)
	for s := 0; s < 2; s++ {
		lg := w.Logs[s]
		if lg == nil || id64 >= int64(lg.Len()) || id64 >= max[s] {
			continue
		}
		rec := lg.Record(int(id64))
		if bytes.HasPrefix(data, rec) {
			return data[len(rec):], s, int(id64), true
		}
	}
	return nil, 0, 0, false
}

type sumHeadVal struct {
	n int64
	h tlog.Hash
}

// sumNoteHead: the head of a message that is either empty (the empty timeline) or a note the
// harness signed.
func sumNoteHead(w *gen.SumWorld, msg []byte) (sumHeadVal, bool) {
	if len(msg) == 0 {
		return sumHeadVal{0, gen.RfcEmpty()}, true
	}
	hd := w.GoodNote(msg)
	if hd == nil {
		return sumHeadVal{}, false
	}
	return sumHeadVal{hd.N, hd.Hash}, true
}

// sumIsHonest: scenarios flagged "honest" by the generator promise an honest server, cache
// and configuration on side A with non-decreasing sizes.
func sumIsHonest(sc gen.SumScenario) bool { return strings.HasPrefix(sc.Note, "honest") }

func sumOracles(run *gen.SumRun) []sumFail {
	var fails []sumFail
	add := func(o, f string, a ...any) { fails = append(fails, sumFail{o, fmt.Sprintf(f, a...)}) }
	w, sc := run.W, run.Sc
	latest := gen.SumName + "/latest"
	max := sumMaxSigned(w)

	// every note the client was shown
	shown := map[string]bool{"": true}
	for _, e := range run.Events {
		switch {
		case e.Kind == "rcfg" && e.Name == latest && !e.Err:
			shown[string(e.Data)] = true
		case (e.Kind == "rr" || e.Kind == "rc") && strings.Contains(e.Name, "/lookup/") && !e.Err:
			if j := bytes.Index(e.Data, []byte("\n\n")); j >= 0 {
				shown[string(e.Data[j+2:])] = true
			}
		}
	}

	// --- C01: results
	for i, r := range run.Results {
		st := sc.Steps[i]
		switch r.Class {
		case "panic":
			add("no-panic", "step %d Lookup(%q,%q) panicked: %s", i, st.Path, st.Vers, r.Err)
		case "ok":
			for _, e := range run.Events {
				if e.Step == i && !e.Err && (e.Kind == "rr" || e.Kind == "rc") && strings.Contains(e.Name, "/lookup/") && len(e.Data) > 0 && e.Data[0] == '-' {
					add("ok-is-authentic-record", "step %d: a lookup response with a negative record id was accepted: %q", i, sumClip(e.Data))
				}
			}
			if len(r.Lines) == 0 {
				if max[0] == 0 && max[1] == 0 {
					add("ok-is-authentic-record", "step %d: ok with no signed non-empty tree", i)
				}
				break
			}
			key := gen.SumEscape(st.Path) + "@" + gen.SumEscape(strings.TrimSuffix(st.Vers, "/go.mod"))
			found := false
			for s := 0; s < 2; s++ {
				if w.Logs[s] == nil {
					continue
				}
				if id, ok := w.Logs[s].Find(key, max[s]); ok {
					want := sumFilter(w.Logs[s].Record(id), st.Path+" "+st.Vers+" ")
					if strings.Join(want, "\n") == strings.Join(r.Lines, "\n") {
						found = true
					}
				}
			}
			if !found {
				add("ok-is-authentic-record", "step %d Lookup(%q,%q) returned %q: not the lines of a record of a log with a signed head", i, st.Path, st.Vers, r.Lines)
			}
		}
		if sumIsHonest(sc) && r.Class != "panic" {
			key := gen.SumEscape(st.Path) + "@" + gen.SumEscape(strings.TrimSuffix(st.Vers, "/go.mod"))
			id, ok := w.Logs[0].Find(key, st.View.HeadN)
			valid := sumValidLookup(st.Path, st.Vers)
			if ok && valid {
				want := sumFilter(w.Logs[0].Record(id), st.Path+" "+st.Vers+" ")
				if r.Class != "ok" || strings.Join(want, "\n") != strings.Join(r.Lines, "\n") {
					add("honest-succeeds", "step %d Lookup(%q,%q) in an honest world: %s %q %s; want %q", i, st.Path, st.Vers, r.Class, r.Lines, r.Err, want)
				}
			} else if r.Class != "error" {
				add("honest-succeeds", "step %d Lookup(%q,%q) of a missing/invalid module in an honest world: %s %q", i, st.Path, st.Vers, r.Class, r.Lines)
			}
		}
	}

	// --- C01: writes
	type conflict struct {
		step  int
		newer []byte
		after []byte
	}
	var conflicts []conflict
	cfgNow := run.Config0[latest]
	stepCfg := map[int][]byte{} // configuration at the start of each step
	cur := 0
	stepCfg[0] = cfgNow
	nw := 0
	for _, e := range run.Events {
		for cur < e.Step && cur+1 < len(sc.Steps)+1 {
			cur++
			stepCfg[cur] = cfgNow
		}
		switch e.Kind {
		case "wc":
			switch {
			case strings.HasPrefix(e.Name, gen.SumName+"/lookup/"):
				rest, _, _, ok := sumAuthRecord(w, e.Data)
				if !ok {
					add("cache-writes-authentic", "WriteCache(%q): data does not start with a record of a signed log: %q", e.Name, sumClip(e.Data))
				} else if w.GoodNote(rest) == nil {
					add("cache-writes-authentic", "WriteCache(%q): the tree note is not one the harness signed: %q", e.Name, sumClip(rest))
				}
			case strings.HasPrefix(e.Name, gen.SumName+"/tile/"):
				t, ok := gen.SumParseTilePath(strings.TrimPrefix(e.Name, gen.SumName+"/"))
				good := false
				if ok {
					for s := 0; s < 2; s++ {
						if w.Logs[s] == nil {
							continue
						}
						if d, ok := w.Logs[s].TileData(t, max[s]); ok && bytes.Equal(d, e.Data) {
							good = true
						}
					}
				}
				if !good {
					add("cache-writes-authentic", "WriteCache(%q): not the true tile of a log with a signed head (len %d)", e.Name, len(e.Data))
				}
			default:
				add("cache-writes-authentic", "WriteCache(%q): unexpected file name", e.Name)
			}
		case "wcfg":
			k := nw
			nw++
			for _, it := range sc.Interf {
				if it.At == k {
					cfgNow = w.HeadMsg(it.HeadSide, it.HeadN, it.HeadKind)
				}
			}
			if e.Name != latest {
				add("config-writes-signed", "WriteConfig(%q): unexpected file", e.Name)
			}
			nh, ok := sumNoteHead(w, e.Data)
			if !ok || len(e.Data) == 0 {
				add("config-writes-signed", "WriteConfig writes a head the harness did not sign: %q", sumClip(e.Data))
			}
			if e.Err {
				conflicts = append(conflicts, conflict{e.Step, e.Data, cfgNow})
			}
			if !e.Err {
				// a successful write: old is what was stored
				oh, ook := sumNoteHead(w, e.Old)
				switch {
				case !ook:
					add("config-monotone-same-side", "WriteConfig replaced a stored head that is not a signed note: %q", sumClip(e.Old))
				case ok && nh.n < oh.n:
					add("config-monotone-same-side", "stored head size decreased: %d -> %d", oh.n, nh.n)
				case ok && !w.Consistent(oh.n, oh.h, nh.n, nh.h):
					add("config-monotone-same-side", "stored head moved to the other side of a fork: size %d -> %d", oh.n, nh.n)
				}
				cfgNow = e.Data
			}
		}
	}
	for cur < len(sc.Steps) {
		cur++
		stepCfg[cur] = cfgNow
	}

	// --- C13: after a lost compare-and-swap the client merges what the other writer stored: a lookup
	// that succeeds after a write conflict has a head on the same timeline as that stored head
	for _, cf := range conflicts {
		if cf.step < 0 || cf.step >= len(run.Results) || run.Results[cf.step].Class != "ok" {
			continue
		}
		nh, ok1 := sumNoteHead(w, cf.newer)
		ah, ok2 := sumNoteHead(w, cf.after)
		switch {
		case !ok2:
			add("conflict-remerged", "step %d succeeded after a write conflict although the stored head is not a signed note: %q", cf.step, sumClip(cf.after))
		case ok1 && !(w.Consistent(nh.n, nh.h, ah.n, ah.h) || w.Consistent(ah.n, ah.h, nh.n, nh.h)):
			add("conflict-remerged", "step %d succeeded after a write conflict although the stored head (size %d) is not on the timeline of the client's head (size %d)", cf.step, ah.n, nh.n)
		}
	}

	// --- C13: a validly signed head inconsistent with the stored one is never accepted
	for i, r := range run.Results {
		// (with interference the stored file is another process's and no longer this client's head)
		c0, ok0 := sumNoteHead(w, stepCfg[i])
		if !ok0 || len(stepCfg[i]) == 0 || len(sc.Interf) > 0 || sc.Par != nil {
			continue
		}
		presented := false
		for _, e := range run.Events {
			if e.Step != i || e.Err || !(e.Kind == "rr" || e.Kind == "rc") || !strings.Contains(e.Name, "/lookup/") {
				continue
			}
			if j := bytes.Index(e.Data, []byte("\n\n")); j >= 0 {
				if p, ok := sumNoteHead(w, e.Data[j+2:]); ok && len(e.Data[j+2:]) > 0 && !w.Consistent(c0.n, c0.h, p.n, p.h) {
					presented = true
				}
			}
		}
		if !presented {
			continue
		}
		if r.Class == "ok" {
			add("fork-never-accepted", "step %d: a signed head inconsistent with the stored head (size %d) was presented and the lookup succeeded: %q", i, c0.n, r.Lines)
		}
		for _, e := range run.Events {
			if e.Step == i && e.Kind == "wcfg" && !e.Err {
				add("fork-never-accepted", "step %d: a signed head inconsistent with the stored head was presented and the configuration was rewritten", i)
			}
		}
	}

	// --- C13: security errors report both heads, and only real misbehaviour is reported
	secOK := func(text []byte) string {
		for m1 := range shown {
			h1, ok1 := sumNoteHead(w, []byte(m1))
			if !ok1 {
				continue
			}
			want1 := append([]byte("old database:\n\t"), gen.SumIndent([]byte(m1))...)
			if !bytes.Contains(text, append(want1, '\n')) {
				continue
			}
			for m2 := range shown {
				h2, ok2 := sumNoteHead(w, []byte(m2))
				if !ok2 || (m1 == "" && m2 == "") {
					continue
				}
				want2 := append([]byte("new database:\n\t"), gen.SumIndent([]byte(m2))...)
				if !bytes.Contains(text, append(want2, '\n')) {
					continue
				}
				if w.Consistent(h1.n, h1.h, h2.n, h2.h) {
					return fmt.Sprintf("the reported heads (sizes %d and %d) are consistent: no misbehaviour", h1.n, h2.n)
				}
				return ""
			}
		}
		return "the message does not contain two signed notes shown to the client (old database / new database)"
	}
	secSeen := -1
	nsec := 0
	for _, e := range run.Events {
		if e.Kind == "sec" {
			nsec++
			if msg := secOK(e.Data); msg != "" {
				add("security-reports-both-heads", "SecurityError at step %d: %s: %q", e.Step, msg, sumClip(e.Data))
			}
			if secSeen < 0 {
				secSeen = e.Step
			}
		}
	}
	for i, r := range run.Results {
		if sc.Par != nil && secSeen >= 0 {
			continue // overlapping lookups: the order of steps is not the order of events
		}
		if r.Class == "security" && (secSeen < 0 || secSeen > i) {
			add("security-reports-both-heads", "step %d returned ErrSecurity but no SecurityError callback happened before", i)
		}
	}
	if sumIsHonest(sc) && nsec > 0 {
		add("honest-no-security", "%d SecurityError callbacks in an honest world", nsec)
	}
	return fails
}

func sumClip(b []byte) string {
	if len(b) > 300 {
		return string(b[:300]) + "..."
	}
	return string(b)
}

// sumValidLookup: the generator's own notion of a well-formed (path, version) pair among the
// ones it produces (the invalid ones it produces contain a space, '!' or no dot).
func sumValidLookup(path, vers string) bool {
	if strings.ContainsAny(path, " !") || strings.ContainsAny(vers, " !") || !strings.Contains(strings.SplitN(path, "/", 2)[0], ".") {
		return false
	}
	return path != "" && vers != "" && strings.TrimSuffix(vers, "/go.mod") != ""
}

// ---------------------------------------------------------------- running one scenario

type sumIn struct {
	Oracle   string          `json:"oracle"`
	Scenario gen.SumScenario `json:"scenario"`
}

type sumBudget struct {
	left float64 // remaining model-side budget in estimated SHA-256 compressions
}

// sumCost estimates the model-side cost (hash computations) of a run: each tile read costs
// about 2^H node hashes per ReadHashes it takes part in; signature key hashing is negligible.
func sumCost(run *gen.SumRun) float64 {
	c := 50.0
	for _, e := range run.Events {
		if (e.Kind == "rr" || e.Kind == "rc") && strings.Contains(e.Name, "/tile/") {
			c += 4 * float64(int(1)<<uint(run.Sc.H))
		}
		if strings.Contains(e.Name, "/lookup/") {
			c += 40 + float64(len(e.Data))/40
		}
	}
	for _, s := range run.Served {
		c += float64(len(s.Data)) / 60 // decoding of the case line
	}
	for _, d := range run.Cache0 {
		_ = d
	}
	return c
}

// sumDo runs the scenario, evaluates every oracle, and (budget permitting) records the
// correspondence case.  forceModel: record the case regardless of the budget.
func sumDo(c *hx.Ctx, sc gen.SumScenario, b *sumBudget, wantModel bool) *gen.SumRun {
	run := gen.RunSumScenario(sc)
	fails := sumOracles(run)
	byOracle := map[string]string{}
	for _, f := range fails {
		if _, ok := byOracle[f.Oracle]; !ok {
			byOracle[f.Oracle] = f.Msg
		}
	}
	for _, o := range sumOracleNames {
		msg, bad := byOracle[o]
		c.Check(o, !bad, sumK10ShapeFor(c.ID, o, msg, bad, run), sumIn{o, sc}, msg)
	}
	if c.ID == "C13" { // C13 only: the oracle of known finding K10 (c13k10.go)
		msg, shape, bad := sumAfterSecurity(run)
		c.Check(sumAfterSecurityName, !bad, shape, sumIn{sumAfterSecurityName, sc}, msg)
		msg, bad = sumOneTimeline(run)
		c.Check(sumOneTimelineName, !bad, "", sumIn{sumOneTimelineName, sc}, msg)
	}
	c.Count("scenario:" + strings.SplitN(sc.Note, " ", 2)[0])
	c.Count(fmt.Sprintf("H=%d", sc.H))
	switch {
	case sc.NA <= 8:
		c.Count("NA<=8")
	case sc.NA <= 64:
		c.Count("NA<=64")
	default:
		c.Count("NA>64")
	}
	for _, f := range sc.Faults {
		kind := "tile"
		if strings.HasPrefix(f.Path, "/lookup/") {
			kind = "lookup"
		}
		cls := "error"
		for _, r := range run.Results {
			if r.Class == "ok" {
				cls = "ok"
			}
		}
		for _, r := range run.Results {
			if r.Class == "security" {
				cls = "security"
			}
		}
		c.Count("fault:" + kind + ":" + f.Kind + ":" + cls)
	}
	for _, r := range run.Results {
		c.Count("result:" + r.Class)
		if r.Class == "ok" && len(r.Lines) == 0 {
			c.Count("result:ok-empty")
		}
	}
	nt := fmt.Sprintf("%d/%d/%d/%d/%d/%v/%v/%v/%v/%v/%v", sc.Seed, sc.H, sc.NA, sc.NB, sc.K, sc.Steps, sc.Faults, sc.Cache, sc.Config, sc.Interf, sumParKey(sc.Par))
	if len(run.Events) > 2 {
		c.Nontrivial(nt)
	}
	sumBranchCounts(c, run)
	if wantModel && b != nil && sc.Par == nil {
		cost := sumCost(run)
		if cost <= b.left {
			b.left -= cost
			arg, res := sumCase(run)
			c.Case("Scenario", arg, res)
			c.Count("model:" + strings.SplitN(sc.Note, " ", 2)[0])
		}
	}
	return run
}

var sumOracleNames = []string{"no-panic", "ok-is-authentic-record", "cache-writes-authentic", "config-writes-signed",
	"honest-succeeds", "honest-no-security", "config-monotone-same-side", "fork-never-accepted", "security-reports-both-heads", "conflict-remerged"}

// sumBranchCounts measures which client code paths a run exercised.
func sumBranchCounts(c *hx.Ctx, run *gen.SumRun) {
	seen := map[string]bool{}
	full := func(name string) bool { return !strings.Contains(name, ".p/") }
	var lastMiss string
	for _, e := range run.Events {
		switch e.Kind {
		case "rc":
			if strings.Contains(e.Name, "/tile/") {
				switch {
				case !e.Err && lastMiss != "" && full(e.Name) && !full(lastMiss):
					seen["tile:full-in-cache-for-partial"] = true
				case !e.Err:
					seen["tile:cache-hit"] = true
				default:
					seen["tile:cache-miss"] = true
				}
				lastMiss = ""
				if e.Err {
					lastMiss = e.Name
				}
			} else if e.Err {
				seen["lookup:cache-miss"] = true
			} else {
				seen["lookup:cache-hit"] = true
			}
		case "rr":
			if strings.Contains(e.Name, "/tile/") {
				if e.Err {
					seen["tile:remote-fail"] = true
				} else {
					seen["tile:remote-ok"] = true
				}
			}
		case "wc":
			if strings.Contains(e.Name, "/tile/") {
				seen["write:tile"] = true
			} else {
				seen["write:lookup"] = true
			}
		case "wcfg":
			if e.Err {
				seen["wcfg:conflict"] = true
			} else {
				seen["wcfg:ok"] = true
			}
		case "sec":
			seen["security-callback"] = true
		}
	}
	// remote full-tile fallback: a failed partial remote read followed by a read of the full path
	fails := map[string]bool{}
	for _, s := range run.Served {
		if s.Err && strings.Contains(s.Path, ".p/") {
			fails[s.Path[:strings.Index(s.Path, ".p/")]] = true
		}
		if fails[s.Path] {
			seen["tile:full-remote-for-partial"] = true
		}
	}
	for k := range seen {
		c.Count("branch:" + k)
	}
}

// ---------------------------------------------------------------- scenario generators

var sumHeights = []int{1, 2, 2, 2, 3, 3, 4, 8}

func sumPickN(r *rand.Rand) int {
	switch k := r.Intn(10); {
	case k < 3:
		return 1 + r.Intn(8)
	case k < 7:
		return 1 + r.Intn(64)
	default:
		return 1 + r.Intn(300)
	}
}

// sumLookup draws the (path, vers) of a lookup against log A of the world (sizes known).
func sumLookup(r *rand.Rand, seed int64, n int) (path, vers string, id int) {
	id = r.Intn(n)
	path, vers, _ = gen.SumRecordOf(seed, 0, id)
	switch k := r.Intn(20); {
	case k < 11:
	case k < 15:
		vers += "/go.mod"
	case k < 17: // a module the log does not hold
		path, vers, id = fmt.Sprintf("ex%d.test/missing%d", r.Intn(3), r.Intn(100)), "v1.0.0", -1
	case k < 18: // invalid path
		path, id = []string{"nodot/x", "ex.test/a b", "ex.test/a!b", ""}[r.Intn(4)], -1
	case k < 19: // invalid version
		vers, id = []string{"v1 0", "v1!0", "", "/go.mod"}[r.Intn(4)], -1
	default: // wrong case of an existing path: a different module
		path, id = strings.ToUpper(path[:1])+path[1:], -1
		if r.Intn(2) == 0 {
			path = strings.Replace(path[:1], "E", "e", 1) + path[1:len(path)-1] + strings.ToUpper(path[len(path)-1:])
		}
	}
	return
}

// sumHonest draws an honest scenario on side A.
func sumHonest(r *rand.Rand, maxN int) gen.SumScenario {
	sc := gen.SumScenario{Seed: r.Int63n(1 << 30), H: sumHeights[r.Intn(len(sumHeights))], ForgeID: -1, Note: "honest"}
	na := sumPickN(r)
	if na > maxN {
		na = 1 + r.Intn(maxN)
	}
	if sc.H == 8 && r.Intn(3) > 0 {
		na = 1 + r.Intn(40)
	}
	sc.NA = na
	nsteps := 1 + r.Intn(4)
	// non-decreasing served sizes ending at na
	sizes := make([]int, nsteps)
	for i := range sizes {
		sizes[i] = 1 + r.Intn(na)
	}
	sort.Ints(sizes)
	if r.Intn(3) > 0 {
		sizes[nsteps-1] = na
	}
	if r.Intn(3) == 0 {
		for i := range sizes {
			sizes[i] = sizes[nsteps-1]
		}
	}
	// configuration: empty or a head not newer than the first served size
	sc.Config = gen.SumConfigSpec{KeyMode: 0, Latest: 0}
	if r.Intn(3) > 0 {
		sc.Config.Latest, sc.Config.HeadN = 1, int64(r.Intn(sizes[0]+1))
		if r.Intn(3) == 0 {
			sc.Config.HeadN = int64(sizes[0])
		}
	}
	if r.Intn(8) == 0 {
		sc.Config.KeyMode = 1
	}
	// cache: cold, or an honest (subset of the) cache of a size not beyond the first served size
	sc.Cache = gen.SumCacheSpec{Corrupt: -1}
	if r.Intn(2) == 0 {
		sc.Cache = gen.SumCacheSpec{Side: 0, N: int64(1 + r.Intn(sizes[0])), Frac: []int{100, 100, 70, 40, 10}[r.Intn(5)], Seed: r.Int63n(1000), Lookups: r.Intn(2) == 0, Corrupt: -1}
		if r.Intn(3) == 0 {
			sc.Cache.N = int64(sizes[0])
		}
	}
	client := 0
	for i := 0; i < nsteps; i++ {
		if i > 0 && r.Intn(4) == 0 {
			client++ // a fresh client (restart) sharing configuration and cache
		}
		p, v, _ := sumLookup(r, sc.Seed, sizes[i])
		if i > 0 && r.Intn(5) == 0 { // the same module again (memoised), maybe its go.mod
			p, v = sc.Steps[i-1].Path, strings.TrimSuffix(sc.Steps[i-1].Vers, "/go.mod")
			if r.Intn(2) == 0 {
				v += "/go.mod"
			}
		}
		view := gen.HonestView(0, int64(sizes[i]))
		if r.Intn(10) == 0 {
			view.HeadKind = []int{gen.HeadExtraSig, gen.HeadTextExtra}[r.Intn(2)]
		}
		sc.Steps = append(sc.Steps, gen.SumStep{Client: client, View: view, Path: p, Vers: v})
	}
	return sc
}

var sumLookupFaults = []string{"flip", "flip", "flip", "trunc", "extend", "dup", "swap", "swap", "stale", "stale", "head", "error", "empty", "side", "negid"}
var sumTileFaults = []string{"flip", "flip", "flip", "trunc", "trunc", "extend", "dup", "swap", "swap", "stale", "error", "empty", "side"}

// sumFaultFor draws a fault of the given kind for a served response.
func sumFaultFor(r *rand.Rand, sc gen.SumScenario, served []gen.SumServed, s gen.SumServed, kind string) gen.SumFault {
	f := gen.SumFault{Path: s.Path, Occ: s.Occ, Kind: kind}
	n := len(s.Data)
	if n == 0 {
		n = 1
	}
	isLookup := strings.HasPrefix(s.Path, "/lookup/")
	switch kind {
	case "flip":
		f.P1, f.P2 = r.Intn(n), r.Intn(8)
		if isLookup && r.Intn(2) == 0 {
			// inside the record (before the tree note)
			if j := bytes.Index(s.Data, []byte("\n\n")); j > 0 {
				f.P1 = r.Intn(j)
			}
		}
		if !isLookup && r.Intn(3) == 0 {
			f.P1 = []int{0, n - 1, 31, 32}[r.Intn(4)] % n
		}
	case "trunc":
		f.P1 = []int{1, 1, 32, n / 2, n - 1, 2}[r.Intn(6)]
		if isLookup && r.Intn(2) == 0 {
			f.P1 = 1 + r.Intn(100)
		}
	case "extend":
		f.P1, f.P2 = []int{1, 32, 31, 64}[r.Intn(4)], []int{0, 10, 'x', 255}[r.Intn(4)]
	case "swap":
		// another response of the same kind served in this run, else any
		var same, any []string
		for _, o := range served {
			if o.Path != s.Path {
				any = append(any, o.Path)
				if strings.HasPrefix(o.Path, "/lookup/") == isLookup {
					same = append(same, o.Path)
				}
			}
		}
		if isLookup {
			// the response for another record of the log
			for k := 0; k < 3; k++ {
				p, v, _ := gen.SumRecordOf(sc.Seed, 0, r.Intn(sc.NA))
				same = append(same, "/lookup/"+gen.SumEscape(p)+"@"+gen.SumEscape(v))
			}
		}
		switch {
		case len(same) > 0 && r.Intn(4) > 0:
			f.Other = same[r.Intn(len(same))]
		case len(any) > 0:
			f.Other = any[r.Intn(len(any))]
		default:
			f.Kind = "error"
		}
	case "stale":
		cur := 1
		for _, st := range sc.Steps {
			if int(st.View.HeadN) > cur {
				cur = int(st.View.HeadN)
			}
		}
		f.P1 = r.Intn(cur + 1)
	case "side":
		f.P1 = 1
		if sc.NB == 0 {
			f.Kind, f.P1, f.P2 = "flip", r.Intn(n), r.Intn(8)
		}
	case "negid":
		f.P1 = 1 + r.Intn(9)
		if !isLookup {
			f.Kind = "error"
		}
	case "head":
		f.P1 = 1 + r.Intn(7)
		if !isLookup {
			f.Kind = "error"
		}
	}
	return f
}

func sumFaultKinds(path string) []string {
	if strings.HasPrefix(path, "/lookup/") {
		return sumLookupFaults
	}
	return sumTileFaults
}

func runC01(c *hx.Ctx) {
	r := c.Rng
	budget := &sumBudget{left: 250000}
	if c.Tier == "thorough" {
		budget.left = 6000000
	}
	// honest lookups over the whole alphabet of capital letters (escaping), some through the model
	sumAlphabet(c, budget)
	nBase := c.N(70)
	perResp := 3
	for b := 0; b < nBase; b++ {
		maxN := 300
		if b%3 != 0 {
			maxN = 70
		}
		base := sumHonest(r, maxN)
		run := sumDo(c, base, budget, b%2 == 0)
		if b < 3 {
			c.Sample(fmt.Sprintf("honest: H=%d N=%d steps=%d results=%v", base.H, base.NA, len(base.Steps), sumClasses(run)))
		}
		served := run.Served
		// (1) every response served, corrupted alone
		for si, s := range served {
			kinds := sumFaultKinds(s.Path)
			for k := 0; k < perResp; k++ {
				sc := base.Clone()
				sc.Note = "fault"
				sc.Faults = []gen.SumFault{sumFaultFor(r, base, served, s, kinds[(si*perResp+k+b)%len(kinds)])}
				sumDo(c, sc, budget, (si+k+b)%9 == 0)
			}
		}
		// (2) random pairs
		for k := 0; k < 6 && len(served) >= 2; k++ {
			sc := base.Clone()
			sc.Note = "fault2"
			for j := 0; j < 2; j++ {
				s := served[r.Intn(len(served))]
				kinds := sumFaultKinds(s.Path)
				sc.Faults = append(sc.Faults, sumFaultFor(r, base, served, s, kinds[r.Intn(len(kinds))]))
			}
			sumDo(c, sc, budget, k == 0 && b%4 == 0)
		}
		// (3) the consistent forgery of every looked-up record, for every tile-level cut
		for i, st := range base.Steps {
			key := gen.SumEscape(st.Path) + "@" + gen.SumEscape(strings.TrimSuffix(st.Vers, "/go.mod"))
			id, ok := run.W.Logs[0].Find(key, st.View.HeadN)
			if !ok {
				continue
			}
			levels := 1
			for n := st.View.HeadN; n>>uint(base.H*levels) > 0; levels++ {
			}
			for cut := 1; cut <= levels; cut++ {
				sc := base.Clone()
				sc.Note = "forgery"
				sc.ForgeID = id
				for j := i; j < len(sc.Steps); j++ {
					sc.Steps[j].View.RecSide, sc.Steps[j].View.LowSide, sc.Steps[j].View.TileCut = 2, 2, cut
				}
				if r.Intn(2) == 0 {
					sc.Cache = gen.SumCacheSpec{Corrupt: -1} // cold: every tile comes from the server
				}
				sumDo(c, sc, budget, cut == 1 && (b+i)%5 == 0)
			}
		}
		// (3b) a strict server (old partial tiles are gone) whose tiles run ahead of the head it signs
		// into responses, and the full tile with an unsigned / invented tail in place of a partial one
		for k := 0; k < 3; k++ {
			sc := base.Clone()
			sc.Note = "stricttiles"
			for j := range sc.Steps {
				sc.Steps[j].View.Strict = true
				if k > 0 {
					hn := int(sc.Steps[j].View.HeadN)
					sc.Steps[j].View.TileN = int64(hn + r.Intn(base.NA-hn+1))
					if k == 2 {
						sc.Steps[j].View.TileN = int64(base.NA)
					}
				}
			}
			if k == 0 {
				sc.Note = "strict-current"
			}
			sumDo(c, sc, budget, (b+k)%4 == 0)
		}
		seenPartial := map[string]bool{}
		for _, s := range served {
			i := strings.Index(s.Path, ".p/")
			if i < 0 || seenPartial[s.Path] {
				continue
			}
			seenPartial[s.Path] = true
			sc := base.Clone()
			sc.Note = "fulltail"
			keep := -1
			if r.Intn(3) == 0 {
				w := 0
				fmt.Sscanf(s.Path[i+3:], "%d", &w)
				keep = w // exactly the hashes the client needs, junk right after
			}
			sc.Faults = []gen.SumFault{{Path: s.Path, Occ: s.Occ, Kind: "error"}, {Path: s.Path[:i], Occ: 0, Kind: "junktail", P1: keep}}
			if r.Intn(4) == 0 {
				sc.Cache = gen.SumCacheSpec{Corrupt: -1}
			}
			sumDo(c, sc, budget, len(seenPartial)%3 == 0)
		}
		// (3c) the response for record 0 with a negative id (StoredHashIndex(0, id) is 0 for id <= 0)
		{
			sc := base.Clone()
			sc.Note = "negid"
			p0, v0, _ := gen.SumRecordOf(sc.Seed, 0, 0)
			sc.Steps[0].Path, sc.Steps[0].Vers = p0, v0
			sc.Cache.Lookups = false
			sc.Faults = []gen.SumFault{{Path: "/lookup/" + gen.SumEscape(p0) + "@" + gen.SumEscape(v0), Occ: 0, Kind: "negid", P1: 1 + r.Intn(9)}}
			sumDo(c, sc, budget, b%4 == 0)
		}
		// (3d) a client that already holds a verified head gets a response whose note is signed by a
		// foreign key only and carries smuggled go.sum lines in its text
		{
			sc := base.Clone()
			sc.Note = "smuggled"
			sc.Config = gen.SumConfigSpec{Latest: 1, HeadN: base.Steps[0].View.HeadN}
			for j := range sc.Steps {
				if j == 0 || r.Intn(2) == 0 {
					sc.Steps[j].View.HeadKind = gen.HeadSmuggled
				}
			}
			sumDo(c, sc, budget, b%4 == 1)
		}
		// (4) cache corruption and foreign caches
		for k := 0; k < 5; k++ {
			sc := base.Clone()
			sc.Note = "cachefault"
			first := base.Steps[0].View.HeadN
			sc.Cache = gen.SumCacheSpec{Side: 0, N: 1 + r.Int63n(int64(base.NA)), Frac: []int{100, 60}[r.Intn(2)], Seed: r.Int63n(1000), Lookups: true,
				Corrupt: r.Intn(1000), CKind: []string{"flip", "flip", "trunc", "extend", "empty", "dup", "tail", "tail"}[r.Intn(8)]}
			if sc.Cache.CKind == "tail" {
				// the cache of a larger tree: full tiles where the client will ask for partial ones
				sc.Cache.N, sc.Cache.Frac, sc.Cache.Lookups = int64(base.NA), 100, false
			}
			if r.Intn(2) == 0 {
				sc.Cache.N = first
			}
			if k == 4 {
				// the cache of a forged log: forged tiles and a forged record on disk
				id := r.Intn(int(first))
				sc.Note = "cacheforged"
				sc.ForgeID = id
				sc.Cache = gen.SumCacheSpec{Side: 2, N: first, Frac: 100, Seed: r.Int63n(1000), Lookups: true, Corrupt: -1}
				p, v, _ := gen.SumRecordOf(sc.Seed, 0, id)
				sc.Steps[0].Path, sc.Steps[0].Vers = p, v
			}
			sumDo(c, sc, budget, k == 0 && b%3 == 0)
		}
		// (5) configuration variants
		for k := 0; k < 5; k++ {
			sc := base.Clone()
			sc.Note = "config"
			switch k {
			case 0:
				sc.Config.KeyMode = 2 + r.Intn(3)
			case 1:
				sc.Config.Latest = 2 + r.Intn(2)
			case 2: // a stored head newer than what the server shows (rolled-back server or stale mirror)
				sc.Config.Latest, sc.Config.HeadN = 1, int64(base.NA)
				sc.Cache = gen.SumCacheSpec{Side: 0, N: int64(base.NA), Frac: []int{0, 100, 50}[r.Intn(3)], Seed: 5, Corrupt: -1}
			case 3: // a stored head that does not verify
				sc.Config.Latest, sc.Config.HeadN, sc.Config.HeadKind = 1, 1+r.Int63n(int64(base.NA)), []int{gen.HeadOtherKey, gen.HeadBadSig, gen.HeadUnsigned}[r.Intn(3)]
			case 4: // the stored head of a forged log signed by a foreign key, with that log's cache
				first := base.Steps[0].View.HeadN
				id := r.Intn(int(first))
				sc.Note = "configforged"
				sc.ForgeID = id
				sc.Config.Latest, sc.Config.HeadSide, sc.Config.HeadN, sc.Config.HeadKind = 1, 2, first, gen.HeadOtherKey
				sc.Cache = gen.SumCacheSpec{Side: 2, N: first, Frac: 100, Seed: 1, Lookups: true, Corrupt: -1}
				p, v, _ := gen.SumRecordOf(sc.Seed, 0, id)
				sc.Steps[0].Path, sc.Steps[0].Vers = p, v
			}
			sumDo(c, sc, budget, k < 2 && b%6 == 0)
		}
	}
	// oracle-only: honest big logs (tile number 1000 and beyond)
	sumBigLogs(c)
}

func sumClasses(run *gen.SumRun) []string {
	var out []string
	for _, r := range run.Results {
		out = append(out, r.Class)
	}
	return out
}

// ---------------------------------------------------------------- replay

func replaySum(raw json.RawMessage) (bool, string) {
	var in sumIn
	if err := json.Unmarshal(raw, &in); err != nil {
		return false, err.Error()
	}
	run := gen.RunSumScenario(in.Scenario)
	fails := sumOracles(run)
	if in.Oracle == sumAfterSecurityName {
		if msg, _, bad := sumAfterSecurity(run); bad {
			fails = append(fails, sumFail{sumAfterSecurityName, msg})
		}
	}
	if in.Oracle == sumOneTimelineName {
		if msg, bad := sumOneTimeline(run); bad {
			fails = append(fails, sumFail{sumOneTimelineName, msg})
		}
	}
	for _, f := range fails {
		if f.Oracle == in.Oracle {
			return false, f.Oracle + ": " + f.Msg
		}
	}
	if len(fails) > 0 {
		return false, fails[0].Oracle + ": " + fails[0].Msg
	}
	return true, fmt.Sprintf("results %v", sumClasses(run))
}

func sumParKey(p *gen.SumPar) string {
	if p == nil {
		return ""
	}
	return fmt.Sprintf("%d/%s/%s/%d/%v/%v", p.Step, p.Kind, p.Path, p.Count, p.More, p.Release)
}
