package props

// C13 — the client follows one consistent timeline of signed tree heads.
// Scenario machinery, encoding for the Coq model, oracles and replay are shared with C01
// (c01.go); this file holds the fork / growth / interference scenario generators.

import (
	"fmt"
	"math/rand"
	"sort"
	"strings"

	"verif/harness/gen"
	"verif/harness/hx"
)

func init() { hx.Register(&hx.Prop{ID: "C13", Run: runC13, Replay: replaySum}) }

var forkHeights = []int{1, 2, 2, 3, 3, 4}

// sumLookupOn draws a lookup of a record that log `side` of the world holds below size n.
func sumLookupOn(r *rand.Rand, w *gen.SumWorld, side int, n int) (path, vers string) {
	lg := w.Logs[side]
	if n > lg.Len() {
		n = lg.Len()
	}
	id := r.Intn(n)
	path, vers = lg.Paths[id], lg.Vers[id]
	if r.Intn(4) == 0 {
		vers += "/go.mod"
	}
	return
}

// forkBase draws the logs of a fork scenario: common prefix k, sizes na, nb in 1..80.
func forkBase(r *rand.Rand) gen.SumScenario {
	sc := gen.SumScenario{Seed: r.Int63n(1 << 30), H: forkHeights[r.Intn(len(forkHeights))], ForgeID: -1}
	max := 80
	if r.Intn(3) == 0 {
		max = 12
	}
	sc.K = r.Intn(max)
	sc.NA = sc.K + 1 + r.Intn(max-sc.K)
	sc.NB = sc.K + 1 + r.Intn(max-sc.K)
	sc.Cache = gen.SumCacheSpec{Corrupt: -1}
	return sc
}

// sizeOn draws a size on a side: mostly beyond the common prefix (a real fork), sometimes
// inside it (both sides agree there).
func sizeOn(r *rand.Rand, sc gen.SumScenario, side int) int {
	n := sc.NA
	if side == 1 {
		n = sc.NB
	}
	if n > sc.K && r.Intn(5) > 0 {
		return sc.K + 1 + r.Intn(n-sc.K)
	}
	return 1 + r.Intn(n)
}

func runC13(c *hx.Ctx) {
	r := c.Rng
	// model-side budget per stream (forks, honest growth, interference)
	scale := 1.0
	if c.Tier == "thorough" {
		scale = 40
	}
	budget := &sumBudget{left: 70000 * scale}
	budgetGrowth := &sumBudget{left: 25000 * scale}
	budgetInterf := &sumBudget{left: 45000 * scale}
	// ---- known finding K10: the deterministic corpus scenario, first on every seed
	sumK10Probe(c, &sumBudget{left: 1e9}) // own budget: the model-side sample of the other streams is unchanged
	// ---- the split-view server against checkTrees, fixed parameters on every seed
	sumSplitViewCorpus(c)
	// ---- forks
	for b := 0; b < c.N(260); b++ {
		sc := forkBase(r)
		w := gen.NewSumWorld(sc.Seed, sc.NA, sc.NB, sc.K, -1)
		first := r.Intn(2) // the side presented first
		second := 1 - first
		n1 := sizeOn(r, sc, first)
		var n2 int
		switch r.Intn(4) {
		case 0: // equal sizes
			n2 = n1
			if lim := w.Logs[second].Len(); n2 > lim {
				n2 = lim
			}
		default:
			n2 = sizeOn(r, sc, second)
		}
		order := "new-larger"
		if n2 == n1 {
			order = "equal"
		} else if n2 < n1 {
			order = "new-smaller"
		}
		// configuration: empty, or a head of the first side not beyond n1, or of the second side
		switch r.Intn(4) {
		case 0:
			sc.Config = gen.SumConfigSpec{Latest: 1, HeadSide: first, HeadN: int64(1 + r.Intn(n1))}
		case 1:
			sc.Config = gen.SumConfigSpec{Latest: 1, HeadSide: second, HeadN: int64(1 + r.Intn(n2))}
		}
		// cache: cold, the first side's, or the OTHER side's tiles
		switch r.Intn(4) {
		case 0:
			sc.Cache = gen.SumCacheSpec{Side: first, N: int64(n1), Frac: 100, Seed: int64(b), Corrupt: -1, Lookups: r.Intn(2) == 0}
		case 1:
			sc.Cache = gen.SumCacheSpec{Side: second, N: int64(n2), Frac: []int{100, 50}[r.Intn(2)], Seed: int64(b), Corrupt: -1, Lookups: r.Intn(2) == 0}
		}
		// steps: one or two lookups on the first side, then the other side, then maybe back
		client := 0
		nfirst := 1 + r.Intn(2)
		for i := 0; i < nfirst; i++ {
			sz := n1
			if i < nfirst-1 {
				sz = 1 + r.Intn(n1)
			}
			p, v := sumLookupOn(r, w, first, sz)
			sc.Steps = append(sc.Steps, gen.SumStep{Client: client, View: gen.HonestView(first, int64(sz)), Path: p, Vers: v})
		}
		if r.Intn(3) == 0 {
			client = 1 // a second client (or a restart) sharing configuration and cache
		}
		view2 := gen.HonestView(second, int64(n2))
		kind := "fork"
		switch r.Intn(10) {
		case 0:
			view2.HeadKind, kind = gen.HeadOtherKey, "fork-unverified"
		case 1:
			view2.HeadKind, kind = gen.HeadBadSig, "fork-badsig"
		case 2:
			view2.HeadKind, kind = gen.HeadUnsigned, "fork-unsigned"
		case 3: // the server switches heads but keeps serving the first side's tiles
			view2.TileSide, view2.LowSide, kind = first, first, "fork-oldtiles"
		case 4: // a lying head of the same log: validly signed, wrong hash
			view2 = gen.HonestView(first, int64(n2))
			if int(view2.HeadN) > w.Logs[first].Len() {
				view2.HeadN = int64(w.Logs[first].Len())
			}
			view2.HeadKind, kind = gen.HeadBogus, "bogus-head"
		case 5:
			view2.HeadKind = gen.HeadExtraSig
		}
		p, v := sumLookupOn(r, w, view2.RecSide, int(view2.HeadN))
		sc.Steps = append(sc.Steps, gen.SumStep{Client: client, View: view2, Path: p, Vers: v})
		if r.Intn(2) == 0 { // and a further lookup: again the other side, or back on the first
			if r.Intn(2) == 0 {
				p, v = sumLookupOn(r, w, view2.RecSide, int(view2.HeadN))
				sc.Steps = append(sc.Steps, gen.SumStep{Client: client, View: view2, Path: p, Vers: v})
			} else {
				p, v = sumLookupOn(r, w, first, n1)
				sc.Steps = append(sc.Steps, gen.SumStep{Client: r.Intn(2), View: gen.HonestView(first, int64(n1)), Path: p, Vers: v})
			}
		}
		sc.Note = kind + " " + order
		run := sumDo(c, sc, budget, b%3 == 0)
		c.Count("fork-order:" + order)
		if b < 4 {
			c.Sample(fmt.Sprintf("%s: H=%d K=%d A=%d B=%d first=%d n1=%d n2=%d results=%v", sc.Note, sc.H, sc.K, sc.NA, sc.NB, first, n1, n2, sumClasses(run)))
		}
		// the same scenario with one random fault on a served response
		if len(run.Served) > 0 && b%2 == 0 {
			s := run.Served[r.Intn(len(run.Served))]
			kinds := sumFaultKinds(s.Path)
			f := sc.Clone()
			f.Note = "forkfault"
			f.Faults = []gen.SumFault{sumFaultFor(r, sc, run.Served, s, kinds[r.Intn(len(kinds))])}
			sumDo(c, f, budget, b%12 == 0)
		}
		// the consistent forgery against checkTrees: the second side's head with the low tiles of
		// the FIRST side (tiles self-consistent below the cut, the signed root above it)
		if kind == "fork" && b%2 == 1 {
			for cut := 1; cut <= 3; cut++ {
				f := sc.Clone()
				f.Note = "forkmixedtiles"
				for j := nfirst; j < len(f.Steps); j++ {
					if f.Steps[j].View.HeadSide == second {
						f.Steps[j].View.LowSide, f.Steps[j].View.TileCut = first, cut
					}
				}
				sumDo(c, f, budget, cut == 1 && b%8 == 1)
			}
		}
	}
	// ---- honest growth: one log, several clients sharing the configuration, no alarm
	for b := 0; b < c.N(120); b++ {
		sc := gen.SumScenario{Seed: r.Int63n(1 << 30), H: forkHeights[r.Intn(len(forkHeights))], ForgeID: -1, Note: "honest-growth"}
		sc.NA = 2 + r.Intn(79)
		sc.Cache = gen.SumCacheSpec{Corrupt: -1}
		nsteps := 2 + r.Intn(4)
		sizes := make([]int, nsteps)
		for i := range sizes {
			sizes[i] = 1 + r.Intn(sc.NA)
		}
		sort.Ints(sizes)
		if r.Intn(2) == 0 {
			sc.Config = gen.SumConfigSpec{Latest: 1, HeadN: int64(r.Intn(sizes[0] + 1))}
		}
		for i := 0; i < nsteps; i++ {
			p, v, _ := gen.SumRecordOf(sc.Seed, 0, r.Intn(sizes[i]))
			sc.Steps = append(sc.Steps, gen.SumStep{Client: r.Intn(3), View: gen.HonestView(0, int64(sizes[i])), Path: p, Vers: v})
		}
		run := sumDo(c, sc, budgetGrowth, b%3 == 0)
		// honest server, but a client that saw a newer head meets an older response: still no alarm
		if b%2 == 0 {
			f := sc.Clone()
			f.Note = "growth-shuffled"
			r.Shuffle(len(f.Steps), func(i, j int) { f.Steps[i], f.Steps[j] = f.Steps[j], f.Steps[i] })
			for i := range f.Steps {
				f.Steps[i].Client = 0
			}
			sumDo(c, f, budgetGrowth, b%6 == 0)
		}
		_ = run
	}
	// ---- overlapping lookups on ONE client (oracle only: the sequential Coq model has no such path):
	// lookup 1 is parked at one of its tile reads while lookup 2, for a head on the other side of
	// a fork (or further along the same log), runs to completion; lookup 1 then finds c.latest
	// changed underfoot and goes through the retry branch of mergeLatestMem
	for b := 0; b < c.N(24); b++ {
		sc := forkBase(r)
		for sc.K == 0 {
			sc = forkBase(r)
		}
		w := gen.NewSumWorld(sc.Seed, sc.NA, sc.NB, sc.K, -1)
		k0 := 1 + r.Intn(sc.K) // a head on the common prefix
		first := r.Intn(2)
		second := 1 - first
		note := "overlap-fork"
		if b%3 == 2 { // the same log: honest concurrent growth
			second, note = first, "overlap-growth"
		}
		lim1, lim2 := w.Logs[first].Len(), w.Logs[second].Len()
		n1, n2 := sizeOn(r, sc, first), sizeOn(r, sc, second)
		if n1 > lim1 {
			n1 = lim1
		}
		if n2 > lim2 {
			n2 = lim2
		}
		if n1 < k0 {
			n1 = k0
		}
		if n2 < k0 {
			n2 = k0
		}
		// a long-lived client that knows a head on the common prefix
		p, v := sumLookupOn(r, w, 0, k0)
		sc.Steps = append(sc.Steps, gen.SumStep{Client: 0, View: gen.HonestView(0, int64(k0)), Path: p, Vers: v})
		p1, v1 := sumLookupOn(r, w, first, n1)
		sc.Steps = append(sc.Steps, gen.SumStep{Client: 0, View: gen.HonestView(first, int64(n1)), Path: p1, Vers: v1})
		var p2, v2 string
		for try := 0; try < 20; try++ {
			p2, v2 = sumLookupOn(r, w, second, n2)
			if p2 != p1 && p2 != p {
				break
			}
		}
		sc.Steps = append(sc.Steps, gen.SumStep{Client: 0, View: gen.HonestView(second, int64(n2)), Path: p2, Vers: v2})
		sc.Note = note + " seq"
		seq := sumDo(c, sc, nil, false)
		// park lookup 1 at each of its tile operations in turn
		seen := map[string]bool{}
		for _, e := range seq.Events {
			if e.Step != 1 || !(e.Kind == "rr" || e.Kind == "rc") || !strings.Contains(e.Name, "/tile/") || seen[e.Kind+e.Name] {
				continue
			}
			seen[e.Kind+e.Name] = true
			f := sc.Clone()
			f.Note = note
			f.Par = &gen.SumPar{Step: 1, Kind: e.Kind, Path: e.Name}
			run := sumDo(c, f, nil, false)
			for _, res := range run.Results[1:] {
				c.Count("overlap:" + note + ":" + res.Class)
			}
			// two simultaneous holds: lookup 2 (which does not share the parked tile) installs its head
			// in memory and is held just before it reads the stored configuration; lookup 1 is released
			// first and must notice that c.latest moved underfoot (retry branch against the NEW head),
			// then lookup 2 merges with whatever lookup 1 stored — and the other release order
			// (random stream: forks only, every second hold point, lookup 1 released first — the other
			// order is the single-hold run above; the corpus below tries all of them)
			if note == "overlap-fork" && len(seen)%2 == 1 {
				sumOverlapTwoHolds(c, sc, note, e.Kind, e.Name, [][]int{{1, 2}})
			}
		}
	}
	// the same with fixed parameters on every seed: head on the common prefix 5, A8 against B7, height 2
	sumOverlapCorpus(c)
	// ---- interleavings of the CONFIGURATION operations (oracle only): a long-lived client P with two
	// overlapping lookups, each held just before it reads (rcfg) or just before it writes (wcfg) the
	// stored head, and a second client Q sharing the configuration that stores a head in between —
	// on the same log (the stored size must never go back) or on the other side of a fork (P must
	// notice after its lost compare-and-swap)
	for b := 0; b < c.N(40); b++ {
		sc := forkBase(r)
		for sc.K < 2 {
			sc = forkBase(r)
		}
		w := gen.NewSumWorld(sc.Seed, sc.NA, sc.NB, sc.K, -1)
		latest := gen.SumName + "/latest"
		qside := 0
		note := "cfg-interleave-growth"
		if b%2 == 1 {
			qside, note = 1, "cfg-interleave-fork"
		}
		n0 := 1 + r.Intn(sc.K)
		sz := func(side int) int {
			lim := w.Logs[side].Len()
			if lim <= n0 {
				return lim
			}
			return n0 + 1 + r.Intn(lim-n0)
		}
		used := map[string]bool{}
		pick := func(side, n int) (string, string) {
			for try := 0; try < 30; try++ {
				p, v := sumLookupOn(r, w, side, n)
				if !used[p] {
					used[p] = true
					return p, v
				}
			}
			return sumLookupOn(r, w, side, n)
		}
		p0, v0 := pick(0, n0)
		sc.Steps = append(sc.Steps, gen.SumStep{Client: 0, View: gen.HonestView(0, int64(n0)), Path: p0, Vers: v0})
		s1, s2, s3 := sz(0), sz(0), sz(qside)
		p1, v1 := pick(0, s1)
		p2, v2 := pick(0, s2)
		p3, v3 := pick(qside, s3)
		sc.Steps = append(sc.Steps,
			gen.SumStep{Client: 0, View: gen.HonestView(0, int64(s1)), Path: p1, Vers: v1},
			gen.SumStep{Client: 0, View: gen.HonestView(0, int64(s2)), Path: p2, Vers: v2},
			gen.SumStep{Client: 1, View: gen.HonestView(qside, int64(s3)), Path: p3, Vers: v3})
		for _, kinds := range [][2]string{{"rcfg", "rcfg"}, {"wcfg", "wcfg"}, {"rcfg", "wcfg"}, {"wcfg", "rcfg"}} {
			for _, rel := range [][]int{{1, 2}, {2, 1}} {
				f := sc.Clone()
				f.Note = note
				f.Par = &gen.SumPar{Step: 1, Kind: kinds[0], Path: latest, Count: 2,
					More: []gen.SumPark{{Step: 2, Kind: kinds[1], Path: latest}}, Release: rel}
				run := sumDo(c, f, nil, false)
				for _, res := range run.Results[1:] {
					c.Count("cfg-interleave:" + note + ":" + res.Class)
				}
			}
		}
		// two parties only: P held between its ReadConfig and its WriteConfig while Q stores a head
		f := sc.Clone()
		f.Note = note + "-2"
		f.Steps = []gen.SumStep{sc.Steps[0], sc.Steps[1], sc.Steps[3]}
		f.Par = &gen.SumPar{Step: 1, Kind: "wcfg", Path: latest, Count: 1}
		sumDo(c, f, nil, false)
	}
	// ---- interference: another process rewrites the configuration between ReadConfig and WriteConfig
	for b := 0; b < c.N(200); b++ {
		sc := forkBase(r)
		w := gen.NewSumWorld(sc.Seed, sc.NA, sc.NB, sc.K, -1)
		n0 := 1 + r.Intn(sc.NA)
		n1 := n0 + r.Intn(sc.NA-n0+1)
		if r.Intn(2) == 0 {
			sc.Config = gen.SumConfigSpec{Latest: 1, HeadN: int64(r.Intn(n0 + 1))}
		}
		p, v := sumLookupOn(r, w, 0, n0)
		sc.Steps = append(sc.Steps, gen.SumStep{Client: 0, View: gen.HonestView(0, int64(n0)), Path: p, Vers: v})
		p, v = sumLookupOn(r, w, 0, n1)
		sc.Steps = append(sc.Steps, gen.SumStep{Client: r.Intn(2), View: gen.HonestView(0, int64(n1)), Path: p, Vers: v})
		kind := ""
		nint := 1 + r.Intn(2)
		for k := 0; k < nint; k++ {
			it := gen.SumInterf{At: r.Intn(2) + 2*k}
			switch r.Intn(6) {
			case 0, 1: // the same log, some other size (older or newer than ours)
				it.HeadSide, it.HeadN, kind = 0, int64(1+r.Intn(sc.NA)), kind+"same"
			case 2: // the other side of the fork
				it.HeadSide, it.HeadN, kind = 1, int64(sizeOn(r, sc, 1)), kind+"other"
			case 3:
				it.HeadSide, it.HeadN, it.HeadKind, kind = 0, int64(1+r.Intn(sc.NA)), gen.HeadBadSig, kind+"badsig"
			case 4:
				it.HeadSide, it.HeadN, it.HeadKind, kind = 0, int64(1+r.Intn(sc.NA)), gen.HeadBogus, kind+"bogus"
			case 5:
				it.HeadSide, it.HeadN, it.HeadKind, kind = 0, int64(1+r.Intn(sc.NA)), gen.HeadUnsigned, kind+"unsigned"
			}
			sc.Interf = append(sc.Interf, it)
		}
		if nint > 1 {
			kind = "two"
		}
		sc.Note = "interf-" + kind
		sumDo(c, sc, budgetInterf, b%2 == 0)
	}
}

// sumOverlapTwoHolds runs the three-step overlap scenario sc (steps 1 and 2 overlapping on one client)
// with lookup 1 parked at the tile operation (kind, name) and lookup 2 parked at its ReadConfig of the
// stored head, for the given release orders.
func sumOverlapTwoHolds(c *hx.Ctx, sc gen.SumScenario, note, kind, name string, orders [][]int) {
	latest := gen.SumName + "/latest"
	for _, rel := range orders {
		f := sc.Clone()
		f.Note = note + "-2holds"
		f.Par = &gen.SumPar{Step: 1, Kind: kind, Path: name, Count: 1,
			More: []gen.SumPark{{Step: 2, Kind: "rcfg", Path: latest}}, Release: rel}
		run := sumDo(c, f, nil, false)
		for _, res := range run.Results[1:] {
			c.Count("overlap2:" + note + ":" + res.Class)
		}
	}
}

// sumOverlapCorpus: one long-lived client at H5 (common prefix 5 of logs A (8 records) and B (7)),
// lookup 1 is shown A8, lookup 2 (of an old record) is shown B7; every tile operation of lookup 1
// is tried as its hold point, lookup 2 is held before its ReadConfig.
func sumOverlapCorpus(c *hx.Ctx) {
	sc := gen.SumScenario{Seed: 1313, H: 2, NA: 8, NB: 7, K: 5, ForgeID: -1}
	sc.Cache = gen.SumCacheSpec{Corrupt: -1}
	rec := func(side, id int) (string, string) {
		p, v, _ := gen.SumRecordOf(sc.Seed, side, id)
		return p, v
	}
	p0, v0 := rec(0, 4)
	p1, v1 := rec(0, 7)
	p2, v2 := rec(0, 0)
	sc.Steps = []gen.SumStep{
		{Client: 0, View: gen.HonestView(0, 5), Path: p0, Vers: v0},
		{Client: 0, View: gen.HonestView(0, 8), Path: p1, Vers: v1},
		{Client: 0, View: gen.HonestView(1, 7), Path: p2, Vers: v2},
	}
	sc.Note = "overlap-corpus seq"
	seq := sumDo(c, sc, nil, false)
	seen := map[string]bool{}
	for _, e := range seq.Events {
		if e.Step != 1 || !(e.Kind == "rr" || e.Kind == "rc") || !strings.Contains(e.Name, "/tile/") || seen[e.Kind+e.Name] {
			continue
		}
		seen[e.Kind+e.Name] = true
		sumOverlapTwoHolds(c, sc, "overlap-corpus", e.Kind, e.Name, [][]int{{1, 2}, {2, 1}})
	}
}

// sumSplitViewCorpus: logs A and B (19 records each) share their first 4 records; the client has
// stored A5; the server presents B19 and, to hide the fork, answers exactly the tile requests needed
// for recomputing the old tree hash (tile/2/1/000 and tile/2/0/001) with A's tiles at size 19 and
// everything else with B's.  The new size has two tree-hash hashes in one tile, so a reader that
// authenticates too few tiles against their parents accepts the forged ones.  Same client, and a
// restarted one.
func sumSplitViewCorpus(c *hx.Ctx) {
	for _, client := range []int{0, 1} {
		sc := gen.SumScenario{Seed: 1919, H: 2, NA: 19, NB: 19, K: 4, ForgeID: -1, Note: "splitview-corpus"}
		sc.Cache = gen.SumCacheSpec{Corrupt: -1}
		pa, va, _ := gen.SumRecordOf(sc.Seed, 0, 4)
		pb, vb, _ := gen.SumRecordOf(sc.Seed, 1, 18)
		sc.Steps = []gen.SumStep{
			{Client: 0, View: gen.HonestView(0, 5), Path: pa, Vers: va},
			{Client: client, View: gen.HonestView(1, 19), Path: pb, Vers: vb},
		}
		sc.Faults = []gen.SumFault{
			{Path: "/tile/2/1/000", Occ: 0, Kind: "side", P1: 0},
			{Path: "/tile/2/0/001", Occ: 0, Kind: "side", P1: 0},
		}
		run := sumDo(c, sc, &sumBudget{left: 1e9}, true)
		c.Count("splitview-corpus:" + strings.Join(sumClasses(run), ","))
	}
}
