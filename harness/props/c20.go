package props

import (
	"bytes"
	"encoding/hex"
	"encoding/json"
	"fmt"
	"strings"
	"time"
	"unicode/utf8"

	"golang.org/x/mod/modfile"

	"verif/harness/gen"
	"verif/harness/hx"
	"verif/harness/wire"
)

func init() { hx.Register(&hx.Prop{ID: "C20", Run: runC20, Replay: replayC20}) }

// ---------------------------------------------------------------- shared by C02, C20 (and the edit properties)

// MfWatchdog runs f under a 5 s watchdog; hung reports that f did not return in time
// (its goroutine is abandoned), panicked that a panic escaped.
func MfWatchdog(f func()) (hung, panicked bool, msg string) {
	done := make(chan struct{})
	go func() {
		defer close(done)
		panicked, msg = hx.Guard(f)
	}()
	select {
	case <-done:
		return false, panicked, msg
	case <-time.After(5 * time.Second):
		return true, false, "no result after 5s"
	}
}

func mfPos(p modfile.Position) wire.Val {
	return wire.L(wire.Int(p.Line), wire.Int(p.LineRune), wire.Int(p.Byte))
}

func mfComment(c modfile.Comment) wire.Val {
	return wire.L(mfPos(c.Start), wire.S(c.Token), wire.Bool(c.Suffix))
}

func mfComList(cs []modfile.Comment) wire.Val {
	l := make([]wire.Val, len(cs))
	for i, c := range cs {
		l[i] = mfComment(c)
	}
	return wire.L(l...)
}

func mfComments(c *modfile.Comments) wire.Val {
	return wire.L(mfComList(c.Before), mfComList(c.Suffix), mfComList(c.After))
}

func mfLine(l *modfile.Line) wire.Val {
	return wire.L(wire.S("line"), mfComments(&l.Comments), mfPos(l.Start), wire.Strs(l.Token), wire.Bool(l.InBlock), mfPos(l.End))
}

// MfTree is the canonical encoding of a syntax tree (coq/Modfile/DispatchSyntax.v).
func MfTree(f *modfile.FileSyntax) wire.Val {
	stmts := make([]wire.Val, 0, len(f.Stmt))
	for _, s := range f.Stmt {
		switch x := s.(type) {
		case *modfile.Line:
			stmts = append(stmts, mfLine(x))
		case *modfile.LineBlock:
			lines := make([]wire.Val, len(x.Line))
			for i, l := range x.Line {
				lines[i] = mfLine(l)
			}
			stmts = append(stmts, wire.L(wire.S("block"), mfComments(&x.Comments), mfPos(x.Start),
				wire.L(mfComments(&x.LParen.Comments), mfPos(x.LParen.Pos)), wire.Strs(x.Token), wire.L(lines...),
				wire.L(mfComments(&x.RParen.Comments), mfPos(x.RParen.Pos))))
		case *modfile.CommentBlock:
			stmts = append(stmts, wire.L(wire.S("cblock"), mfComments(&x.Comments), mfPos(x.Start)))
		default:
			stmts = append(stmts, wire.S(fmt.Sprintf("?%T", s)))
		}
	}
	return wire.L(mfComments(&f.Comments), wire.L(stmts...))
}

// mfErrClass maps the text of a syntax-layer error to the model's err_code.
func mfErrClass(text string) int {
	switch {
	case strings.Contains(text, "internal"):
		return -1
	case strings.Contains(text, "mod files must use // comments"):
		return 1
	case strings.Contains(text, "unexpected EOF in string"):
		return 2
	case strings.Contains(text, "unexpected newline in string"):
		return 3
	case strings.Contains(text, "unexpected input character"):
		return 4
	case strings.Contains(text, "unterminated block"):
		return 5
	case strings.Contains(text, "expected newline after closing paren"):
		return 6
	}
	return 0
}

// MfErrs encodes an error of the syntax layer: errs [[pos; class]..], or panic when one
// of them is an internal error.
func MfErrs(err error) wire.Val {
	el, ok := err.(modfile.ErrorList)
	if !ok {
		return wire.L(wire.S("errs"), wire.L(wire.L(mfPos(modfile.Position{}), wire.Int(0))))
	}
	l := make([]wire.Val, len(el))
	for i, e := range el {
		c := mfErrClass(e.Err.Error())
		if c < 0 {
			return wire.Panic()
		}
		l[i] = wire.L(mfPos(e.Pos), wire.Int(c))
	}
	return wire.L(wire.S("errs"), wire.L(l...))
}

// mfSyntax runs the syntax-only parser and the printer.
func mfSyntax(data string) (res wire.Val, fs *modfile.FileSyntax, err error, hung bool, pmsg string) {
	var out []byte
	hung, panicked, msg := MfWatchdog(func() {
		fs, err = modfile.VerifParse("go.mod", []byte(data))
		if err == nil {
			out = modfile.Format(fs)
		}
	})
	switch {
	case hung:
		return wire.L(wire.S("hang")), nil, nil, true, msg
	case panicked:
		return wire.Panic(), nil, nil, false, msg
	case err != nil:
		return MfErrs(err), nil, err, false, ""
	}
	return wire.Ok(wire.L(MfTree(fs), wire.Bytes(out))), fs, nil, false, ""
}

// ---------------------------------------------------------------- position oracle

// mfPosOf recomputes line and column (in runes) of a byte offset.
func mfPosOf(data string, off int) (line, col int, ok bool) {
	if off < 0 || off > len(data) {
		return 0, 0, false
	}
	pre := data[:off]
	line = 1 + strings.Count(pre, "\n")
	ls := strings.LastIndexByte(pre, '\n') + 1
	col = 1 + utf8.RuneCountInString(pre[ls:])
	return line, col, true
}

func mfCheckPos(data string, what string, p modfile.Position) string {
	line, col, ok := mfPosOf(data, p.Byte)
	if !ok {
		return fmt.Sprintf("%s: byte offset %d outside the input (len %d)", what, p.Byte, len(data))
	}
	if line != p.Line || col != p.LineRune {
		return fmt.Sprintf("%s: position %d:%d #%d but offset %d is at %d:%d", what, p.Line, p.LineRune, p.Byte, p.Byte, line, col)
	}
	return ""
}

// the tokens must be found in order from start, separated by blanks only, ending at end
func mfCheckTokens(data, what string, start modfile.Position, toks []string, end *modfile.Position) string {
	if m := mfCheckPos(data, what+" start", start); m != "" {
		return m
	}
	i := start.Byte
	for k, t := range toks {
		for i < len(data) && (data[i] == ' ' || data[i] == '\t' || data[i] == '\r') {
			i++
		}
		if !strings.HasPrefix(data[i:], t) || t == "" {
			return fmt.Sprintf("%s: token %d %q not found at offset %d", what, k, t, i)
		}
		i += len(t)
	}
	if end != nil {
		if m := mfCheckPos(data, what+" end", *end); m != "" {
			return m
		}
		if end.Byte != i {
			return fmt.Sprintf("%s: end offset %d but the tokens end at %d", what, end.Byte, i)
		}
	}
	return ""
}

func mfCheckComments(data, what string, cs []modfile.Comment, wantSuffix bool) string {
	for i, c := range cs {
		if c.Token == "" && c.Start == (modfile.Position{}) {
			continue // blank-line marker
		}
		w := fmt.Sprintf("%s comment %d", what, i)
		if m := mfCheckPos(data, w, c.Start); m != "" {
			return m
		}
		rest := data[c.Start.Byte:]
		if !strings.HasPrefix(c.Token, "//") || !strings.HasPrefix(rest, c.Token) {
			return fmt.Sprintf("%s: text %q is not at offset %d", w, c.Token, c.Start.Byte)
		}
		rest = rest[len(c.Token):]
		if !(rest == "" || strings.HasPrefix(rest, "\n") || strings.HasPrefix(rest, "\r\n")) || strings.Contains(c.Token, "\n") {
			return fmt.Sprintf("%s: text %q does not run to the end of the line", w, c.Token)
		}
		if c.Suffix != wantSuffix {
			return fmt.Sprintf("%s: Suffix flag %v", w, c.Suffix)
		}
		// the flag must say whether something other than white space precedes on the line
		ls := strings.LastIndexByte(data[:c.Start.Byte], '\n') + 1
		if (strings.TrimSpace(data[ls:c.Start.Byte]) != "") != wantSuffix {
			return fmt.Sprintf("%s: attached as suffix=%v but the line before it is %q", w, wantSuffix, data[ls:c.Start.Byte])
		}
	}
	return ""
}

func mfCheckAllComments(data, what string, c *modfile.Comments) string {
	if m := mfCheckComments(data, what+" before", c.Before, false); m != "" {
		return m
	}
	if m := mfCheckComments(data, what+" suffix", c.Suffix, true); m != "" {
		return m
	}
	return mfCheckComments(data, what+" after", c.After, false)
}

// mfPositionsOK checks every position of the tree against the input.
func mfPositionsOK(data string, fs *modfile.FileSyntax) string {
	// file.Before holds suffix comments that found no node
	if m := mfCheckComments(data, "file before", fs.Before, true); m != "" {
		return m
	}
	if m := mfCheckComments(data, "file suffix", fs.Suffix, true); m != "" {
		return m
	}
	if m := mfCheckComments(data, "file after", fs.After, false); m != "" {
		return m
	}
	for i, s := range fs.Stmt {
		w := fmt.Sprintf("stmt %d", i)
		switch x := s.(type) {
		case *modfile.Line:
			if m := mfCheckTokens(data, w, x.Start, x.Token, &x.End); m != "" {
				return m
			}
			if x.InBlock {
				return w + ": top-level line marked InBlock"
			}
			if m := mfCheckAllComments(data, w, &x.Comments); m != "" {
				return m
			}
		case *modfile.LineBlock:
			if m := mfCheckTokens(data, w, x.Start, x.Token, nil); m != "" {
				return m
			}
			if m := mfCheckTokens(data, w+" lparen", x.LParen.Pos, []string{"("}, nil); m != "" {
				return m
			}
			if m := mfCheckTokens(data, w+" rparen", x.RParen.Pos, []string{")"}, nil); m != "" {
				return m
			}
			if m := mfCheckAllComments(data, w, &x.Comments); m != "" {
				return m
			}
			if m := mfCheckAllComments(data, w+" lparen", &x.LParen.Comments); m != "" {
				return m
			}
			if m := mfCheckAllComments(data, w+" rparen", &x.RParen.Comments); m != "" {
				return m
			}
			for j, l := range x.Line {
				wl := fmt.Sprintf("%s line %d", w, j)
				if m := mfCheckTokens(data, wl, l.Start, l.Token, &l.End); m != "" {
					return m
				}
				if !l.InBlock {
					return wl + ": block line not marked InBlock"
				}
				if l.Start.Byte < x.LParen.Pos.Byte || l.End.Byte > x.RParen.Pos.Byte {
					return wl + ": outside the parentheses of its block"
				}
				if m := mfCheckAllComments(data, wl, &l.Comments); m != "" {
					return m
				}
			}
		case *modfile.CommentBlock:
			if m := mfCheckPos(data, w, x.Start); m != "" {
				return m
			}
			if len(x.Before) == 0 || x.Before[0].Start != x.Start {
				return w + ": comment block does not start at its first comment"
			}
			// a comment block may also receive suffix comments (see Parse.v)
			if m := mfCheckAllComments(data, w, &x.Comments); m != "" {
				return m
			}
		default:
			return fmt.Sprintf("%s: unexpected node %T", w, s)
		}
	}
	return ""
}

// mfTotalOracle: "a result or an error list, never a panic, a hang or an internal error;
// every position consistent with the input".
func mfTotalOracle(data string) string {
	_, fs, err, hung, pmsg := mfSyntax(data)
	if hung {
		return "VerifParse/Format: " + pmsg
	}
	if pmsg != "" {
		return "panic escaped: " + pmsg
	}
	if err != nil {
		el, ok := err.(modfile.ErrorList)
		if !ok || len(el) == 0 {
			return fmt.Sprintf("error is not a non-empty ErrorList: %T %v", err, err)
		}
		for _, e := range el {
			if strings.Contains(e.Error(), "internal") {
				return "internal error reported: " + e.Error()
			}
			if m := mfCheckPos(data, "error position", e.Pos); m != "" {
				return m + " (" + e.Err.Error() + ")"
			}
		}
		return ""
	}
	return mfPositionsOK(data, fs)
}

// ---------------------------------------------------------------- run

type c20In struct {
	Op   string `json:"op"`
	Data string `json:"data_hex"`
}

// c20Input draws one input of the syntax layer and a label for the distribution.
func c20Input(c *hx.Ctx) (string, string) {
	r := c.Rng
	switch k := r.Intn(100); {
	case k < 40:
		return gen.TokenSoup(r), "soup"
	case k < 62:
		return gen.GoMod(r), "gomod"
	case k < 72:
		return gen.GoWork(r), "gowork"
	case k < 90:
		return gen.TestdataMutant(r), "testdata-mutant"
	case k < 95:
		return gen.Mutate(r, gen.GoMod(r), "()[]{},\"`/ \t\r\n\\*"), "gomod-mutant"
	default:
		return gen.RawBytes(r, 40), "raw"
	}
}

func c20Shape(res wire.Val) string {
	if res.Kind == 'L' && len(res.L) > 0 {
		k := res.L[0].S
		if k == "errs" && len(res.L[1].L) > 0 {
			return "err-class-" + res.L[1].L[0].L[1].I.String()
		}
		return k
	}
	return "?"
}

func c20Stats(c *hx.Ctx, fs *modfile.FileSyntax) {
	for _, s := range fs.Stmt {
		switch x := s.(type) {
		case *modfile.Line:
			c.Count("node:line")
			if len(x.Suffix) > 0 {
				c.Count("node:line-with-suffix")
			}
			if len(x.Before) > 0 {
				c.Count("node:line-with-before")
			}
			if x.Start.Line != x.End.Line {
				c.Count("node:multi-line-line")
			}
		case *modfile.LineBlock:
			c.Count("node:block")
			if len(x.Line) == 0 {
				c.Count("node:empty-block")
			}
			if len(x.RParen.Before) > 0 {
				c.Count("node:rparen-with-before")
			}
			if len(x.LParen.Suffix) > 0 {
				c.Count("node:lparen-with-suffix")
			}
			if len(x.RParen.Suffix) > 0 {
				c.Count("node:rparen-with-suffix")
			}
			for _, l := range x.Line {
				if len(l.Before) > 0 {
					c.Count("node:blockline-with-before")
					for _, b := range l.Before {
						if b.Token == "" {
							c.Count("node:blank-marker")
						}
					}
				}
				if len(l.Suffix) > 0 {
					c.Count("node:blockline-with-suffix")
				}
			}
		case *modfile.CommentBlock:
			c.Count("node:comment-block")
			if len(x.Suffix) > 0 {
				c.Count("node:comment-block-with-suffix")
			}
		}
	}
	if len(fs.Before) > 0 {
		c.Count("node:file-before")
	}
}

func c20SyntaxCase(c *hx.Ctx, data, label string) {
	res, fs, _, _, _ := mfSyntax(data)
	c.Case("Syntax", wire.S(data), res)
	c.Count("in:" + label)
	c.Count("syntax:" + c20Shape(res))
	if fs != nil {
		c.Nontrivial("s:" + data)
		c20Stats(c, fs)
	}
	msg := mfTotalOracle(data)
	c.Check("total+positions", msg == "", "", c20In{"syntax", hex.EncodeToString([]byte(data))}, msg)
}

func runC20(c *hx.Ctx) {
	r := c.Rng
	for i := 0; i < c.N(14000); i++ {
		data, label := c20Input(c)
		c20SyntaxCase(c, data, label)
		if i%997 == 0 {
			c.Sample(fmt.Sprintf("%s: %q", label, data))
		}
	}
	for i := 0; i < 3*c.Scale; i++ {
		c20SyntaxCase(c, gen.LongLine(r), "long-line")
	}
	c20Directives(c)
}

func replayC20(raw json.RawMessage) (bool, string) {
	var in c20In
	if err := json.Unmarshal(raw, &in); err != nil {
		return false, err.Error()
	}
	b, _ := hex.DecodeString(in.Data)
	data := string(b)
	var msg string
	switch in.Op {
	case "syntax":
		msg = mfTotalOracle(data)
	default:
		msg = c20DirectiveReplay(in.Op, data)
	}
	return msg == "", msg
}

var _ = bytes.Equal

func c20Directives(c *hx.Ctx)                      {}
func c20DirectiveReplay(op, data string) string { return "unknown op " + op }
