package props

import (
	"encoding/hex"
	"encoding/json"
	"fmt"
	"strings"
	"time"
	"unicode/utf8"

	"golang.org/x/mod/modfile"
	"golang.org/x/mod/module"
	"golang.org/x/mod/semver"

	"verif/harness/gen"
	"verif/harness/hx"
	"verif/harness/wire"
)

func init() { hx.Register(&hx.Prop{ID: "C20", Run: runC20, Replay: replayC20}) }

// ---------------------------------------------------------------- shared by C02, C20 (and the edit properties)

// MfWatchdog runs f under a 5 s watchdog; hung reports that f did not return in time
// (its goroutine is abandoned), panicked that a panic escaped.
func MfWatchdog(f func()) (hung, panicked bool, msg string) {
	done := make(chan struct{})
	go func() {
		defer close(done)
		panicked, msg = hx.Guard(f)
	}()
	select {
	case <-done:
		return false, panicked, msg
	case <-time.After(5 * time.Second):
		return true, false, "no result after 5s"
	}
}

func mfPos(p modfile.Position) wire.Val {
	return wire.L(wire.Int(p.Line), wire.Int(p.LineRune), wire.Int(p.Byte))
}

func mfComment(c modfile.Comment) wire.Val {
	return wire.L(mfPos(c.Start), wire.S(c.Token), wire.Bool(c.Suffix))
}

func mfComList(cs []modfile.Comment) wire.Val {
	l := make([]wire.Val, len(cs))
	for i, c := range cs {
		l[i] = mfComment(c)
	}
	return wire.L(l...)
}

func mfComments(c *modfile.Comments) wire.Val {
	return wire.L(mfComList(c.Before), mfComList(c.Suffix), mfComList(c.After))
}

func mfLine(l *modfile.Line) wire.Val {
	return wire.L(wire.S("line"), mfComments(&l.Comments), mfPos(l.Start), wire.Strs(l.Token), wire.Bool(l.InBlock), mfPos(l.End))
}

// MfTree is the canonical encoding of a syntax tree (coq/Modfile/DispatchSyntax.v).
func MfTree(f *modfile.FileSyntax) wire.Val {
	stmts := make([]wire.Val, 0, len(f.Stmt))
	for _, s := range f.Stmt {
		switch x := s.(type) {
		case *modfile.Line:
			stmts = append(stmts, mfLine(x))
		case *modfile.LineBlock:
			lines := make([]wire.Val, len(x.Line))
			for i, l := range x.Line {
				lines[i] = mfLine(l)
			}
			stmts = append(stmts, wire.L(wire.S("block"), mfComments(&x.Comments), mfPos(x.Start),
				wire.L(mfComments(&x.LParen.Comments), mfPos(x.LParen.Pos)), wire.Strs(x.Token), wire.L(lines...),
				wire.L(mfComments(&x.RParen.Comments), mfPos(x.RParen.Pos))))
		case *modfile.CommentBlock:
			stmts = append(stmts, wire.L(wire.S("cblock"), mfComments(&x.Comments), mfPos(x.Start)))
		default:
			stmts = append(stmts, wire.S(fmt.Sprintf("?%T", s)))
		}
	}
	return wire.L(mfComments(&f.Comments), wire.L(stmts...))
}

// mfErrClass maps the text of a syntax-layer error to the model's err_code.
func mfErrClass(text string) int {
	switch {
	case strings.Contains(text, "internal"):
		return -1
	case strings.Contains(text, "mod files must use // comments"):
		return 1
	case strings.Contains(text, "unexpected EOF in string"):
		return 2
	case strings.Contains(text, "unexpected newline in string"):
		return 3
	case strings.Contains(text, "unexpected input character"):
		return 4
	case strings.Contains(text, "unterminated block"):
		return 5
	case strings.Contains(text, "expected newline after closing paren"):
		return 6
	}
	return 0
}

// MfErrs encodes an error of the syntax layer: errs [[pos; class]..], or panic when one
// of them is an internal error.
func MfErrs(err error) wire.Val {
	el, ok := err.(modfile.ErrorList)
	if !ok {
		return wire.L(wire.S("errs"), wire.L(wire.L(mfPos(modfile.Position{}), wire.Int(0))))
	}
	l := make([]wire.Val, len(el))
	for i, e := range el {
		c := mfErrClass(e.Err.Error())
		if c < 0 {
			return wire.Panic()
		}
		l[i] = wire.L(mfPos(e.Pos), wire.Int(c))
	}
	return wire.L(wire.S("errs"), wire.L(l...))
}

// mfSyntax runs the syntax-only parser and the printer.
func mfSyntax(data string) (res wire.Val, fs *modfile.FileSyntax, err error, hung bool, pmsg string) {
	var out []byte
	hung, panicked, msg := MfWatchdog(func() {
		fs, err = modfile.VerifParse("go.mod", []byte(data))
		if err == nil {
			out = modfile.Format(fs)
		}
	})
	switch {
	case hung:
		return wire.L(wire.S("hang")), nil, nil, true, msg
	case panicked:
		return wire.Panic(), nil, nil, false, msg
	case err != nil:
		return MfErrs(err), nil, err, false, ""
	}
	return wire.Ok(wire.L(MfTree(fs), wire.Bytes(out))), fs, nil, false, ""
}

// ---------------------------------------------------------------- position oracle

// mfPosOf recomputes line and column (in runes) of a byte offset.
func mfPosOf(data string, off int) (line, col int, ok bool) {
	if off < 0 || off > len(data) {
		return 0, 0, false
	}
	pre := data[:off]
	line = 1 + strings.Count(pre, "\n")
	ls := strings.LastIndexByte(pre, '\n') + 1
	col = 1 + utf8.RuneCountInString(pre[ls:])
	return line, col, true
}

func mfCheckPos(data string, what string, p modfile.Position) string {
	line, col, ok := mfPosOf(data, p.Byte)
	if !ok {
		return fmt.Sprintf("%s: byte offset %d outside the input (len %d)", what, p.Byte, len(data))
	}
	if line != p.Line || col != p.LineRune {
		return fmt.Sprintf("%s: position %d:%d #%d but offset %d is at %d:%d", what, p.Line, p.LineRune, p.Byte, p.Byte, line, col)
	}
	return ""
}

// the tokens must be found in order from start, separated by blanks only, ending at end
func mfCheckTokens(data, what string, start modfile.Position, toks []string, end *modfile.Position) string {
	if m := mfCheckPos(data, what+" start", start); m != "" {
		return m
	}
	i := start.Byte
	for k, t := range toks {
		for i < len(data) && (data[i] == ' ' || data[i] == '\t' || data[i] == '\r') {
			i++
		}
		if !strings.HasPrefix(data[i:], t) || t == "" {
			return fmt.Sprintf("%s: token %d %q not found at offset %d", what, k, t, i)
		}
		i += len(t)
	}
	if end != nil {
		if m := mfCheckPos(data, what+" end", *end); m != "" {
			return m
		}
		if end.Byte != i {
			return fmt.Sprintf("%s: end offset %d but the tokens end at %d", what, end.Byte, i)
		}
	}
	return ""
}

func mfCheckComments(data, what string, cs []modfile.Comment, wantSuffix bool) string {
	for i, c := range cs {
		if c.Token == "" && c.Start == (modfile.Position{}) {
			continue // blank-line marker
		}
		w := fmt.Sprintf("%s comment %d", what, i)
		if m := mfCheckPos(data, w, c.Start); m != "" {
			return m
		}
		rest := data[c.Start.Byte:]
		if !strings.HasPrefix(c.Token, "//") || !strings.HasPrefix(rest, c.Token) {
			return fmt.Sprintf("%s: text %q is not at offset %d", w, c.Token, c.Start.Byte)
		}
		rest = rest[len(c.Token):]
		if !(rest == "" || strings.HasPrefix(rest, "\n") || strings.HasPrefix(rest, "\r\n")) || strings.Contains(c.Token, "\n") {
			return fmt.Sprintf("%s: text %q does not run to the end of the line", w, c.Token)
		}
		if c.Suffix != wantSuffix {
			return fmt.Sprintf("%s: Suffix flag %v", w, c.Suffix)
		}
		// the flag must say whether something other than white space precedes on the line
		ls := strings.LastIndexByte(data[:c.Start.Byte], '\n') + 1
		if (strings.TrimSpace(data[ls:c.Start.Byte]) != "") != wantSuffix {
			return fmt.Sprintf("%s: attached as suffix=%v but the line before it is %q", w, wantSuffix, data[ls:c.Start.Byte])
		}
	}
	return ""
}

func mfCheckAllComments(data, what string, c *modfile.Comments) string {
	if m := mfCheckComments(data, what+" before", c.Before, false); m != "" {
		return m
	}
	if m := mfCheckComments(data, what+" suffix", c.Suffix, true); m != "" {
		return m
	}
	return mfCheckComments(data, what+" after", c.After, false)
}

// mfPositionsOK checks every position of the tree against the input.
func mfPositionsOK(data string, fs *modfile.FileSyntax) string {
	// file.Before holds suffix comments that found no node
	if m := mfCheckComments(data, "file before", fs.Before, true); m != "" {
		return m
	}
	if m := mfCheckComments(data, "file suffix", fs.Suffix, true); m != "" {
		return m
	}
	if m := mfCheckComments(data, "file after", fs.After, false); m != "" {
		return m
	}
	for i, s := range fs.Stmt {
		w := fmt.Sprintf("stmt %d", i)
		switch x := s.(type) {
		case *modfile.Line:
			if m := mfCheckTokens(data, w, x.Start, x.Token, &x.End); m != "" {
				return m
			}
			if x.InBlock {
				return w + ": top-level line marked InBlock"
			}
			if m := mfCheckAllComments(data, w, &x.Comments); m != "" {
				return m
			}
		case *modfile.LineBlock:
			if m := mfCheckTokens(data, w, x.Start, x.Token, nil); m != "" {
				return m
			}
			if m := mfCheckTokens(data, w+" lparen", x.LParen.Pos, []string{"("}, nil); m != "" {
				return m
			}
			if m := mfCheckTokens(data, w+" rparen", x.RParen.Pos, []string{")"}, nil); m != "" {
				return m
			}
			if m := mfCheckAllComments(data, w, &x.Comments); m != "" {
				return m
			}
			if m := mfCheckAllComments(data, w+" lparen", &x.LParen.Comments); m != "" {
				return m
			}
			if m := mfCheckAllComments(data, w+" rparen", &x.RParen.Comments); m != "" {
				return m
			}
			for j, l := range x.Line {
				wl := fmt.Sprintf("%s line %d", w, j)
				if m := mfCheckTokens(data, wl, l.Start, l.Token, &l.End); m != "" {
					return m
				}
				if !l.InBlock {
					return wl + ": block line not marked InBlock"
				}
				if l.Start.Byte < x.LParen.Pos.Byte || l.End.Byte > x.RParen.Pos.Byte {
					return wl + ": outside the parentheses of its block"
				}
				if m := mfCheckAllComments(data, wl, &l.Comments); m != "" {
					return m
				}
			}
		case *modfile.CommentBlock:
			if m := mfCheckPos(data, w, x.Start); m != "" {
				return m
			}
			if len(x.Before) == 0 || x.Before[0].Start != x.Start {
				return w + ": comment block does not start at its first comment"
			}
			// a comment block may also receive suffix comments (see Parse.v)
			if m := mfCheckAllComments(data, w, &x.Comments); m != "" {
				return m
			}
		default:
			return fmt.Sprintf("%s: unexpected node %T", w, s)
		}
	}
	return ""
}

// mfTotalOracle: "a result or an error list, never a panic, a hang or an internal error;
// every position consistent with the input".
func mfTotalOracle(data string) string {
	_, fs, err, hung, pmsg := mfSyntax(data)
	if hung {
		return "VerifParse/Format: " + pmsg
	}
	if pmsg != "" {
		return "panic escaped: " + pmsg
	}
	if err != nil {
		el, ok := err.(modfile.ErrorList)
		if !ok || len(el) == 0 {
			return fmt.Sprintf("error is not a non-empty ErrorList: %T %v", err, err)
		}
		for _, e := range el {
			if strings.Contains(e.Error(), "internal") {
				return "internal error reported: " + e.Error()
			}
			if m := mfCheckPos(data, "error position", e.Pos); m != "" {
				return m + " (" + e.Err.Error() + ")"
			}
		}
		return ""
	}
	return mfPositionsOK(data, fs)
}

// ---------------------------------------------------------------- run

type c20In struct {
	Op   string `json:"op"`
	Data string `json:"data_hex"`
	Mode int    `json:"fix_mode"`
}

// c20Input draws one input of the syntax layer and a label for the distribution.
func c20Input(c *hx.Ctx) (string, string) {
	r := c.Rng
	switch k := r.Intn(100); {
	case k < 2:
		// something after a closing parenthesis
		return strings.Replace(gen.GoMod(r), "\n)", "\n) "+[]string{"x", "(", "\"s\"", ",", ")"}[r.Intn(5)], 1), "paren-tail"
	case k < 40:
		return gen.TokenSoup(r), "soup"
	case k < 62:
		return gen.GoMod(r), "gomod"
	case k < 72:
		return gen.GoWork(r), "gowork"
	case k < 90:
		return gen.TestdataMutant(r), "testdata-mutant"
	case k < 95:
		return gen.Mutate(r, gen.GoMod(r), "()[]{},\"`/ \t\r\n\\*"), "gomod-mutant"
	default:
		return gen.RawBytes(r, 40), "raw"
	}
}

func c20Shape(res wire.Val) string {
	if res.Kind == 'L' && len(res.L) > 0 {
		k := res.L[0].S
		if k == "errs" && len(res.L[1].L) > 0 {
			return "err-class-" + res.L[1].L[0].L[1].I.String()
		}
		return k
	}
	return "?"
}

func c20Stats(c *hx.Ctx, fs *modfile.FileSyntax) {
	for _, s := range fs.Stmt {
		switch x := s.(type) {
		case *modfile.Line:
			c.Count("node:line")
			if len(x.Suffix) > 0 {
				c.Count("node:line-with-suffix")
			}
			if len(x.Before) > 0 {
				c.Count("node:line-with-before")
			}
			if x.Start.Line != x.End.Line {
				c.Count("node:multi-line-line")
			}
		case *modfile.LineBlock:
			c.Count("node:block")
			if len(x.Line) == 0 {
				c.Count("node:empty-block")
			}
			if len(x.RParen.Before) > 0 {
				c.Count("node:rparen-with-before")
			}
			if len(x.LParen.Suffix) > 0 {
				c.Count("node:lparen-with-suffix")
			}
			if len(x.RParen.Suffix) > 0 {
				c.Count("node:rparen-with-suffix")
			}
			for _, l := range x.Line {
				if len(l.Before) > 0 {
					c.Count("node:blockline-with-before")
					for _, b := range l.Before {
						if b.Token == "" {
							c.Count("node:blank-marker")
						}
					}
				}
				if len(l.Suffix) > 0 {
					c.Count("node:blockline-with-suffix")
				}
			}
		case *modfile.CommentBlock:
			c.Count("node:comment-block")
			if len(x.Suffix) > 0 {
				c.Count("node:comment-block-with-suffix")
			}
		}
	}
	if len(fs.Before) > 0 {
		c.Count("node:file-before")
	}
}

func c20SyntaxCase(c *hx.Ctx, data, label string) {
	res, fs, _, _, _ := mfSyntax(data)
	c.Case("Syntax", wire.S(data), res)
	c.Count("in:" + label)
	c.Count("syntax:" + c20Shape(res))
	if fs != nil {
		c.Nontrivial("s:" + data)
		c20Stats(c, fs)
	}
	msg := mfTotalOracle(data)
	c.Check("total+positions", msg == "", "", c20In{Op: "syntax", Data: hex.EncodeToString([]byte(data))}, msg)
}

func runC20(c *hx.Ctx) {
	r := c.Rng
	for i := 0; i < c.N(14000); i++ {
		data, label := c20Input(c)
		c20SyntaxCase(c, data, label)
		if i%997 == 0 {
			c.Sample(fmt.Sprintf("%s: %q", label, data))
		}
	}
	for i := 0; i < 3*c.Scale; i++ {
		c20SyntaxCase(c, gen.LongLine(r), "long-line")
	}
	c20Directives(c)
}

func replayC20(raw json.RawMessage) (bool, string) {
	var in c20In
	if err := json.Unmarshal(raw, &in); err != nil {
		return false, err.Error()
	}
	b, _ := hex.DecodeString(in.Data)
	data := string(b)
	var msg string
	switch in.Op {
	case "syntax":
		msg = mfTotalOracle(data)
	default:
		msg = c20DirectiveReplay(in.Op, data, in.Mode)
	}
	return msg == "", msg
}


// ---------------------------------------------------------------- directive layer

// MfCanonFixer is the deterministic VersionFixer implemented on both sides
// (DispatchSyntax.canon_fixer): reject an empty path, canonicalise with semver.Canonical,
// reject invalid versions.
func MfCanonFixer(path, v string) (string, error) {
	if path == "" {
		return "", fmt.Errorf("empty path")
	}
	c := semver.Canonical(v)
	if c == "" {
		return "", fmt.Errorf("invalid version %q", v)
	}
	return c, nil
}

func mfFixer(mode int) modfile.VersionFixer {
	if mode == 0 {
		return nil
	}
	return MfCanonFixer
}

// mfRefs maps every *Line of a tree to its place: [stmt index; line index + 1 or 0].
func mfRefs(fs *modfile.FileSyntax) map[*modfile.Line]wire.Val {
	m := map[*modfile.Line]wire.Val{}
	for i, s := range fs.Stmt {
		switch x := s.(type) {
		case *modfile.Line:
			m[x] = wire.L(wire.Int(i), wire.Int(0))
		case *modfile.LineBlock:
			for j, l := range x.Line {
				m[l] = wire.L(wire.Int(i), wire.Int(j+1))
			}
		}
	}
	return m
}

func mfRef(m map[*modfile.Line]wire.Val, l *modfile.Line) wire.Val {
	if v, ok := m[l]; ok {
		return v
	}
	return wire.L(wire.Int(-1), wire.Int(-1))
}

func mfGo(m map[*modfile.Line]wire.Val, g *modfile.Go) wire.Val {
	if g == nil {
		return wire.L()
	}
	return wire.L(wire.S(g.Version), mfRef(m, g.Syntax))
}

func mfToolchain(m map[*modfile.Line]wire.Val, t *modfile.Toolchain) wire.Val {
	if t == nil {
		return wire.L()
	}
	return wire.L(wire.S(t.Name), mfRef(m, t.Syntax))
}

func mfGodebugs(m map[*modfile.Line]wire.Val, gs []*modfile.Godebug) wire.Val {
	l := make([]wire.Val, len(gs))
	for i, g := range gs {
		l[i] = wire.L(wire.S(g.Key), wire.S(g.Value), mfRef(m, g.Syntax))
	}
	return wire.L(l...)
}

func mfReplaces(m map[*modfile.Line]wire.Val, rs []*modfile.Replace) wire.Val {
	l := make([]wire.Val, len(rs))
	for i, r := range rs {
		l[i] = wire.L(wire.S(r.Old.Path), wire.S(r.Old.Version), wire.S(r.New.Path), wire.S(r.New.Version), mfRef(m, r.Syntax))
	}
	return wire.L(l...)
}

// MfFile is the canonical encoding of a *modfile.File (DispatchSyntax.enc_filed).
func MfFile(f *modfile.File) wire.Val {
	m := mfRefs(f.Syntax)
	mod := wire.L()
	if f.Module != nil {
		mod = wire.L(wire.S(f.Module.Mod.Path), wire.S(f.Module.Mod.Version), wire.S(f.Module.Deprecated), mfRef(m, f.Module.Syntax))
	}
	req := make([]wire.Val, len(f.Require))
	for i, r := range f.Require {
		req[i] = wire.L(wire.S(r.Mod.Path), wire.S(r.Mod.Version), wire.Bool(r.Indirect), mfRef(m, r.Syntax))
	}
	exc := make([]wire.Val, len(f.Exclude))
	for i, r := range f.Exclude {
		exc[i] = wire.L(wire.S(r.Mod.Path), wire.S(r.Mod.Version), mfRef(m, r.Syntax))
	}
	ret := make([]wire.Val, len(f.Retract))
	for i, r := range f.Retract {
		ret[i] = wire.L(wire.S(r.Low), wire.S(r.High), wire.S(r.Rationale), mfRef(m, r.Syntax))
	}
	tools := make([]wire.Val, len(f.Tool))
	for i, t := range f.Tool {
		tools[i] = wire.L(wire.S(t.Path), mfRef(m, t.Syntax))
	}
	return wire.L(mod, mfGo(m, f.Go), mfToolchain(m, f.Toolchain), mfGodebugs(m, f.Godebug), wire.L(req...), wire.L(exc...),
		mfReplaces(m, f.Replace), wire.L(ret...), wire.L(tools...), MfTree(f.Syntax))
}

// MfWork is the canonical encoding of a *modfile.WorkFile (DispatchSyntax.enc_work).
func MfWork(f *modfile.WorkFile) wire.Val {
	m := mfRefs(f.Syntax)
	uses := make([]wire.Val, len(f.Use))
	for i, u := range f.Use {
		uses[i] = wire.L(wire.S(u.Path), wire.S(u.ModulePath), mfRef(m, u.Syntax))
	}
	return wire.L(mfGo(m, f.Go), mfToolchain(m, f.Toolchain), mfGodebugs(m, f.Godebug), wire.L(uses...), mfReplaces(m, f.Replace), MfTree(f.Syntax))
}

// mfDirErr encodes the error of Parse/ParseLax/ParseWork: the syntax layer's error when
// the syntax-only parser fails on the same input, else the positions of the directive errors.
func mfDirErr(data string, err error) wire.Val {
	if _, serr := modfile.VerifParse("go.mod", []byte(data)); serr != nil {
		return MfErrs(serr)
	}
	el, ok := err.(modfile.ErrorList)
	if !ok {
		return wire.L(wire.S("derrs"), wire.S(fmt.Sprintf("%T", err)))
	}
	l := make([]wire.Val, len(el))
	for i, e := range el {
		if strings.Contains(e.Error(), "internal") {
			return wire.Panic()
		}
		l[i] = mfPos(e.Pos)
	}
	return wire.L(wire.S("derrs"), wire.L(l...))
}

// mfParse runs Parse ("Parse"), ParseLax ("ParseLax") or ParseWork ("ParseWork").
func mfParse(fn, data string, mode int) (res wire.Val, f *modfile.File, w *modfile.WorkFile, err error, bad string) {
	hung, panicked, msg := MfWatchdog(func() {
		switch fn {
		case "Parse":
			f, err = modfile.Parse("go.mod", []byte(data), mfFixer(mode))
		case "ParseLax":
			f, err = modfile.ParseLax("go.mod", []byte(data), mfFixer(mode))
		default:
			w, err = modfile.ParseWork("go.work", []byte(data), mfFixer(mode))
		}
	})
	switch {
	case hung:
		return wire.L(wire.S("hang")), nil, nil, nil, fn + ": " + msg
	case panicked:
		return wire.Panic(), nil, nil, nil, fn + ": panic escaped: " + msg
	case err != nil:
		res = mfDirErr(data, err)
		if res.Kind == 'L' && len(res.L) == 1 {
			bad = fn + ": internal error reported: " + err.Error()
		}
		return res, nil, nil, err, bad
	case w != nil:
		return wire.Ok(MfWork(w)), nil, w, nil, ""
	}
	return wire.Ok(MfFile(f)), f, nil, nil, ""
}

// the core of a File: module path + deprecation, go version, requires, retracts
func mfCore(f *modfile.File) string {
	var b strings.Builder
	if f.Module != nil {
		fmt.Fprintf(&b, "module %q %q\n", f.Module.Mod.Path, f.Module.Deprecated)
	}
	if f.Go != nil {
		fmt.Fprintf(&b, "go %q\n", f.Go.Version)
	}
	for _, r := range f.Require {
		fmt.Fprintf(&b, "require %q %q %v\n", r.Mod.Path, r.Mod.Version, r.Indirect)
	}
	for _, r := range f.Retract {
		fmt.Fprintf(&b, "retract %q %q %q\n", r.Low, r.High, r.Rationale)
	}
	return b.String()
}

// every typed value of a File, without syntax pointers
func MfValues(f *modfile.File) string {
	var b strings.Builder
	b.WriteString(mfCore(f))
	if f.Toolchain != nil {
		fmt.Fprintf(&b, "toolchain %q\n", f.Toolchain.Name)
	}
	for _, g := range f.Godebug {
		fmt.Fprintf(&b, "godebug %q %q\n", g.Key, g.Value)
	}
	for _, r := range f.Exclude {
		fmt.Fprintf(&b, "exclude %q %q\n", r.Mod.Path, r.Mod.Version)
	}
	for _, r := range f.Replace {
		fmt.Fprintf(&b, "replace %q %q %q %q\n", r.Old.Path, r.Old.Version, r.New.Path, r.New.Version)
	}
	for _, t := range f.Tool {
		fmt.Fprintf(&b, "tool %q\n", t.Path)
	}
	return b.String()
}

func MfWorkValues(f *modfile.WorkFile) string {
	var b strings.Builder
	if f.Go != nil {
		fmt.Fprintf(&b, "go %q\n", f.Go.Version)
	}
	if f.Toolchain != nil {
		fmt.Fprintf(&b, "toolchain %q\n", f.Toolchain.Name)
	}
	for _, g := range f.Godebug {
		fmt.Fprintf(&b, "godebug %q %q\n", g.Key, g.Value)
	}
	for _, u := range f.Use {
		fmt.Fprintf(&b, "use %q %q\n", u.Path, u.ModulePath)
	}
	for _, r := range f.Replace {
		fmt.Fprintf(&b, "replace %q %q %q %q\n", r.Old.Path, r.Old.Version, r.New.Path, r.New.Version)
	}
	return b.String()
}

// oracle: strict ok => lax ok with the same core
func c20StrictLax(data string, mode int) string {
	_, f, _, err, bad := mfParse("Parse", data, mode)
	if bad != "" {
		return bad
	}
	_, fl, _, errl, badl := mfParse("ParseLax", data, mode)
	if badl != "" {
		return badl
	}
	if err != nil {
		return ""
	}
	if errl != nil {
		return "strict parser accepts, lax parser rejects: " + errl.Error()
	}
	if a, b := mfCore(f), mfCore(fl); a != b {
		return fmt.Sprintf("core differs: strict %q lax %q", a, b)
	}
	return ""
}

func mfCoreVerb(v string) bool { return v == "go" || v == "module" || v == "retract" || v == "require" }

// oracle: the lax parser ignores unknown directives and blocks: dropping every statement
// the lax parser does not interpret leaves its result unchanged.
func c20LaxIgnores(data string, mode int) (msg string, dropped int) {
	_, fl, _, errl, bad := mfParse("ParseLax", data, mode)
	if bad != "" {
		return bad, 0
	}
	fs, serr := modfile.VerifParse("go.mod", []byte(data))
	if serr != nil {
		return "", 0
	}
	var keep []modfile.Expr
	for _, s := range fs.Stmt {
		switch x := s.(type) {
		case *modfile.Line:
			if !mfCoreVerb(x.Token[0]) {
				dropped++
				continue
			}
		case *modfile.LineBlock:
			if len(x.Token) != 1 || !mfCoreVerb(x.Token[0]) || x.Token[0] == "go" {
				dropped++
				continue
			}
		}
		keep = append(keep, s)
	}
	if dropped == 0 {
		return "", 0
	}
	fs.Stmt = keep
	out := modfile.Format(fs)
	_, f2, _, err2, bad2 := mfParse("ParseLax", string(out), mode)
	if bad2 != "" {
		return bad2, dropped
	}
	if (errl == nil) != (err2 == nil) {
		return fmt.Sprintf("lax result changes when uninterpreted statements are dropped: before err=%v after err=%v (%q)", errl, err2, out), dropped
	}
	if errl != nil {
		if a, b := len(errl.(modfile.ErrorList)), len(err2.(modfile.ErrorList)); a != b {
			return fmt.Sprintf("number of lax errors changes from %d to %d when uninterpreted statements are dropped", a, b), dropped
		}
		return "", dropped
	}
	if a, b := MfValues(fl), MfValues(f2); a != b {
		return fmt.Sprintf("lax values change when uninterpreted statements are dropped: %q vs %q", a, b), dropped
	}
	return "", dropped
}

// oracle: ModulePath agrees with the strict parser when the module directive is a single
// line naming a valid import path.  shape is "K1" for the recorded exception: an earlier
// block line whose first token is "module".
func c20ModulePath(data string) (msg, shape string, applicable bool) {
	var got string
	hung, panicked, pmsg := MfWatchdog(func() { got = modfile.ModulePath([]byte(data)) })
	if hung || panicked {
		return "ModulePath: " + pmsg, "", true
	}
	_, f, _, err, bad := mfParse("Parse", data, 0)
	if bad != "" {
		return bad, "", true
	}
	if err != nil || f == nil || f.Module == nil || f.Module.Syntax.InBlock {
		return "", "", false
	}
	if module.CheckImportPath(f.Module.Mod.Path) != nil {
		return "", "", false
	}
	if got == f.Module.Mod.Path {
		return "", "", true
	}
	for _, s := range f.Syntax.Stmt {
		if l, ok := s.(*modfile.Line); ok && l == f.Module.Syntax {
			break
		}
		if b, ok := s.(*modfile.LineBlock); ok {
			for _, l := range b.Line {
				if len(l.Token) > 0 && l.Token[0] == "module" {
					shape = "K1"
				}
			}
		}
	}
	return fmt.Sprintf("ModulePath = %q but Parse gives module path %q", got, f.Module.Mod.Path), shape, true
}

// K1 witnesses and near misses
func c20K1Input(c *hx.Ctx) string {
	r := c.Rng
	verb := []string{"require", "exclude", "replace", "retract", "tool", "godebug"}[r.Intn(6)]
	var line string
	switch verb {
	case "require", "exclude":
		line = "module v1.0.0"
	case "replace":
		line = "module => ./m"
	case "retract":
		line = []string{"module", "[module, module]"}[r.Intn(2)]
	case "tool":
		line = "module"
	default:
		line = "module=1"
	}
	pre := ""
	if r.Intn(3) == 0 {
		pre = "// module fake\n"
	}
	return pre + verb + " (\n\t" + line + "\n)\nmodule example.com/m\n"
}

func c20DirCase(c *hx.Ctx, fn, data string, mode int) {
	res, _, _, _, _ := mfParse(fn, data, mode)
	c.Case(fn, wire.L(wire.S(data), wire.Int(mode)), res)
	c.Count(fn + ":" + c20Shape(res))
	if res.Kind == 'L' && len(res.L) > 0 && res.L[0].S == "ok" {
		c.Nontrivial(fn + ":" + data)
	}
}

func c20Directives(c *hx.Ctx) {
	r := c.Rng
	for i := 0; i < c.N(5000); i++ {
		var data string
		work := false
		switch k := r.Intn(20); {
		case k < 10:
			data = gen.GoMod(r)
		case k < 13:
			data = gen.GoModOpts(r, gen.ModOpts{NoInvalid: true, NoUnknown: r.Intn(2) == 0})
		case k < 16:
			data, work = gen.GoWork(r), true
		case k < 18:
			data = gen.TestdataMutant(r)
		case k < 19:
			data = gen.Mutate(r, gen.GoMod(r), "()[]{},\"`/ \t\r\n\\=>v1.")
		default:
			data = gen.TokenSoup(r)
		}
		mode := r.Intn(2)
		in := c20In{Op: "", Data: hex.EncodeToString([]byte(data)), Mode: mode}
		if work && r.Intn(4) != 0 {
			c20DirCase(c, "ParseWork", data, mode)
			_, _, _, _, bad := mfParse("ParseWork", data, mode)
			in.Op = "work-total"
			c.Check("work-total", bad == "", "", in, bad)
			continue
		}
		c20DirCase(c, "Parse", data, mode)
		c20DirCase(c, "ParseLax", data, mode)
		msg := c20StrictLax(data, mode)
		in.Op = "strict-lax"
		c.Check("strict-implies-lax-same-core", msg == "", "", in, msg)
		msg, dropped := c20LaxIgnores(data, mode)
		if dropped > 0 {
			c.Count("lax-ignores:applicable")
		}
		in.Op = "lax-ignores"
		c.Check("lax-ignores-unknown", msg == "", "", in, msg)
	}
	// every verb with every proper prefix of a well-formed argument list (exhaustive)
	for _, work := range []bool{false, true} {
		for _, data := range gen.TruncatedDirectives(work) {
			for mode := 0; mode < 2; mode++ {
				fns := []string{"Parse", "ParseLax"}
				if work {
					fns = []string{"ParseWork"}
				}
				for _, fn := range fns {
					c20DirCase(c, fn, data, mode)
					_, _, _, _, bad := mfParse(fn, data, mode)
					c.Count("truncated:" + fn)
					c.Check("directive-total", bad == "", "", c20In{Op: "total:" + fn, Data: hex.EncodeToString([]byte(data)), Mode: mode}, bad)
				}
			}
		}
	}
	// ModulePath
	for i := 0; i < c.N(4000); i++ {
		var data string
		switch k := r.Intn(20); {
		case k < 9:
			data = gen.GoModOpts(r, gen.ModOpts{NoInvalid: true, NoUnknown: true})
		case k < 14:
			data = gen.GoMod(r)
			if r.Intn(60) == 0 {
				data = c20K1Input(c) // a few witnesses of the recorded finding K1
			}
		case k < 16:
			data = gen.TestdataMutant(r)
		case k < 18:
			data = "module" + []string{" ", "\t", "  ", "", "\u00a0", " \t "}[r.Intn(6)] +
				[]string{"example.com/m", "\"example.com/m\"", "`example.com/m`", "\"a\\x2fb\"", "\"unterminated", "m // c", "\"m\" // c", "a b", "\"\"", "m//x", "\"m//x\""}[r.Intn(11)] +
				[]string{"\n", "", "\r\n", " \n", "\ngo 1.21\n"}[r.Intn(5)]
		default:
			data = gen.TokenSoup(r)
		}
		var got string
		_, panicked, _ := MfWatchdog(func() { got = modfile.ModulePath([]byte(data)) })
		if panicked {
			c.Case("ModulePath", wire.S(data), wire.Panic())
		} else {
			c.Case("ModulePath", wire.S(data), wire.S(got))
		}
		if got != "" {
			c.Count("ModulePath:found")
		} else {
			c.Count("ModulePath:empty")
		}
		msg, shape, applicable := c20ModulePath(data)
		if applicable {
			c.Count("ModulePath:oracle-applicable")
			c.Nontrivial("mp:" + data)
		}
		c.Check("modulepath-agrees-with-strict", msg == "", shape, c20In{Op: "modulepath", Data: hex.EncodeToString([]byte(data))}, msg)
	}
}

func c20DirectiveReplay(op, data string, mode int) string {
	switch op {
	case "strict-lax":
		return c20StrictLax(data, mode)
	case "lax-ignores":
		m, _ := c20LaxIgnores(data, mode)
		return m
	case "work-total":
		_, _, _, _, bad := mfParse("ParseWork", data, mode)
		return bad
	case "total:Parse", "total:ParseLax", "total:ParseWork":
		_, _, _, _, bad := mfParse(strings.TrimPrefix(op, "total:"), data, mode)
		return bad
	case "modulepath":
		m, _, _ := c20ModulePath(data)
		return m
	}
	return "unknown op " + op
}
