package props

// C16 — bulk requirement and use setters produce exactly the requested set.
//
// Sequence shape: [Cleanup;] SetRequire | SetRequireSeparateIndirect | SetUse ; Cleanup
// on a generated starting file.  Oracles on the implementation:
//   - exact-set: the strict re-parse has exactly one require (use) directive per requested
//     path, with the requested version and indirect marking, and none for other paths;
//   - blocks-sorted: every block of the result is in its documented order (lexical by
//     tokens; exclude blocks by path then semantic version from go 1.21; retract blocks
//     descending by interval);
//   - kept-comments: the leading comments and the tagged end-of-line comment text of the
//     first line of every kept path survive (the "indirect" marker aside);
//   - two-blocks: when the file's only requirements are one uncommented line or block,
//     SetRequireSeparateIndirect leaves no block holding both direct and indirect lines.

import (
	"encoding/hex"
	"encoding/json"
	"fmt"
	"math/rand"
	"regexp"
	"sort"
	"strings"

	"golang.org/x/mod/modfile"
	"golang.org/x/mod/semver"

	"verif/harness/gen"
	"verif/harness/hx"
)

func init() { hx.Register(&hx.Prop{ID: "C16", Run: runC16, Replay: replayC16}) }

// c16Setter returns the LAST bulk setter of the sequence (its request is what the file
// must hold at the end).
func c16Setter(c editCase) (gen.EditOp, bool) {
	for i := len(c.Ops) - 1; i >= 0; i-- {
		if isBulk(c.Ops[i].Name) {
			return c.Ops[i], true
		}
	}
	return gen.EditOp{}, false
}

// c16FirstSetter returns the first bulk setter (the one applied to the parsed file).
func c16FirstSetter(c editCase) (gen.EditOp, bool) {
	for _, o := range c.Ops {
		if isBulk(o.Name) {
			return o, true
		}
	}
	return gen.EditOp{}, false
}

// c16Exact: exactly the requested set.
func c16Exact(c editCase) string {
	set, ok := c16Setter(c)
	if !ok {
		return ""
	}
	run, err := editExec(c)
	if err != nil {
		return ""
	}
	if run.panicAt >= 0 {
		return "panic: " + run.panicMsg
	}
	out := modfile.Format(run.st.syntax())
	st2, err := editParse(c.Work, out)
	if err != nil {
		return fmt.Sprintf("result does not parse strictly: %v\n%s", err, out)
	}
	var want, got []string
	if c.Work {
		for _, q := range set.Reqs {
			want = append(want, q.Path)
		}
		for _, u := range st2.w.Use {
			got = append(got, u.Path)
		}
	} else {
		for _, q := range set.Reqs {
			want = append(want, fmt.Sprintf("%s %s indirect=%v", q.Path, q.Version, q.Indirect))
		}
		for _, r := range st2.f.Require {
			got = append(got, fmt.Sprintf("%s %s indirect=%v", r.Mod.Path, r.Mod.Version, r.Indirect))
		}
	}
	sort.Strings(want)
	sort.Strings(got)
	if strings.Join(want, "\n") != strings.Join(got, "\n") {
		return fmt.Sprintf("requested %q, file has %q\noutput:\n%s", want, got, out)
	}
	// the typed list agrees as well
	var typed []string
	if c.Work {
		for _, u := range run.st.w.Use {
			typed = append(typed, u.Path)
		}
	} else {
		for _, r := range run.st.f.Require {
			typed = append(typed, fmt.Sprintf("%s %s indirect=%v", r.Mod.Path, r.Mod.Version, r.Indirect))
		}
	}
	sort.Strings(typed)
	if strings.Join(want, "\n") != strings.Join(typed, "\n") {
		return fmt.Sprintf("requested %q, typed list has %q", want, typed)
	}
	return ""
}

// the documented comparators, written independently of rule.go
func specLexLess(a, b []string) bool {
	for i := 0; i < len(a) && i < len(b); i++ {
		if a[i] != b[i] {
			return a[i] < b[i]
		}
	}
	return len(a) < len(b)
}

func specExcludeLess(a, b []string) bool {
	if len(a) != 2 || len(b) != 2 {
		return specLexLess(a, b)
	}
	if a[0] != b[0] {
		return a[0] < b[0]
	}
	return semver.Compare(a[1], b[1]) < 0
}

func specInterval(t []string) (string, string) {
	if len(t) == 1 {
		return t[0], t[0]
	}
	if len(t) == 5 && t[0] == "[" && t[2] == "," && t[4] == "]" {
		return t[1], t[3]
	}
	return "", ""
}

func specRetractLess(a, b []string) bool { // descending
	al, ah := specInterval(a)
	bl, bh := specInterval(b)
	if c := semver.Compare(al, bl); c != 0 {
		return c > 0
	}
	return semver.Compare(ah, bh) > 0
}

var goVerRE = regexp.MustCompile(`^(\d+)\.(\d+)`)

func goAtLeast121(v string) bool {
	m := goVerRE.FindStringSubmatch(v)
	if m == nil {
		return false
	}
	var maj, min int
	fmt.Sscan(m[1], &maj)
	fmt.Sscan(m[2], &min)
	return maj > 1 || (maj == 1 && min >= 21)
}

// a patch number followed by a pre-release suffix ("1.22.0rc1") passes GoVersionRE but is
// not a Go version (go/version.IsValid rejects it); the documented order is undefined
// for it and the exclude-block check is skipped.
var goNotAVersionRE = regexp.MustCompile(`^\d+\.\d+\.\d+[a-z]`)

// c16Sorted: every block of the result is sorted by its documented comparator.
// (K7, repaired in /repo 2e40111: pre-release go versions such as 1.22rc1 selected the
// lexical order; the oracle flags it if it returns.)
func c16Sorted(c editCase) (msg string, shape string) {
	run, err := editExec(c)
	if err != nil || run.panicAt >= 0 {
		return "", ""
	}
	out := modfile.Format(run.st.syntax())
	st2, err := editParse(c.Work, out)
	if err != nil {
		return "", ""
	}
	gov := ""
	if st2.f != nil && st2.f.Go != nil {
		gov = st2.f.Go.Version
	}
	for _, s := range st2.syntax().Stmt {
		b, ok := s.(*modfile.LineBlock)
		if !ok {
			continue
		}
		less := specLexLess
		name := "lexical"
		if !c.Work && b.Token[0] == "exclude" && goNotAVersionRE.MatchString(gov) {
			continue
		}
		if !c.Work && b.Token[0] == "exclude" && goAtLeast121(gov) {
			less, name = specExcludeLess, "path-then-semver"
		} else if !c.Work && b.Token[0] == "retract" {
			less, name = specRetractLess, "descending-interval"
		}
		for i := 0; i+1 < len(b.Line); i++ {
			if less(b.Line[i+1].Token, b.Line[i].Token) {
				shape := ""
				return fmt.Sprintf("%s block not in %s order: %q before %q\noutput:\n%s", b.Token[0], name, b.Line[i].Token, b.Line[i+1].Token, out), shape
			}
		}
	}
	return "", ""
}

// specIsIndirect / specSetIndirect: the documented behaviour of the "// indirect" marker on the
// list of end-of-line comments of a require line, written independently of rule.go: a line is
// indirect when its first end-of-line comment is "// indirect" or begins with the field
// "indirect;"; marking adds "// indirect" or puts "indirect; " in front of the existing
// text; unmarking removes exactly the leading "indirect;" (and nothing else) or, for a
// bare marker, the comment.
func specIsIndirect(suffix []string) bool {
	if len(suffix) == 0 {
		return false
	}
	f := strings.Fields(strings.TrimPrefix(suffix[0], "//"))
	return len(f) == 1 && f[0] == "indirect" || len(f) > 1 && f[0] == "indirect;"
}

func specSetIndirect(suffix []string, indirect bool) []string {
	if specIsIndirect(suffix) == indirect {
		return suffix
	}
	if indirect {
		if len(suffix) == 0 {
			return []string{"// indirect"}
		}
		text := strings.TrimSpace(strings.TrimPrefix(suffix[0], "//"))
		out := append([]string(nil), suffix...)
		if text == "" {
			out[0] = "// indirect"
		} else {
			out[0] = "// indirect; " + text
		}
		return out
	}
	body := strings.TrimPrefix(suffix[0], "//")
	if strings.TrimSpace(body) == "indirect" {
		return nil
	}
	rest := strings.TrimPrefix(strings.TrimLeft(body, " \t"), "indirect;")
	out := append([]string(nil), suffix...)
	out[0] = "//" + rest
	return out
}

func sameStrs(a, b []string) bool {
	if len(a) != len(b) {
		return false
	}
	for i := range a {
		if a[i] != b[i] {
			return false
		}
	}
	return true
}

// c16Comments: comments of kept lines survive - exactly: the leading comments as a contiguous
// run, the end-of-line comments equal to the original ones with only the indirect marker
// added / removed as the successive bulk setters request.
func c16Comments(c editCase) string {
	set, ok := c16Setter(c)
	if !ok {
		return ""
	}
	st0, err := editParse(c.Work, c.start())
	if err != nil {
		return ""
	}
	verb := "require"
	if c.Work {
		verb = "use"
	}
	// a line is kept if every bulk setter of the sequence requests its path
	wantPath := map[string]bool{}
	for _, q := range set.Reqs {
		wantPath[q.Path] = true
	}
	for _, o := range c.Ops {
		if !isBulk(o.Name) {
			continue
		}
		in := map[string]bool{}
		for _, q := range o.Reqs {
			in[q.Path] = true
		}
		for p := range wantPath {
			if !in[p] {
				delete(wantPath, p)
			}
		}
	}
	run, err := editExec(c)
	if err != nil || run.panicAt >= 0 {
		return ""
	}
	out := string(modfile.Format(run.st.syntax()))
	final := dlinesOf(run.st.syntax())
	seen := map[string]bool{}
	for _, l := range dlinesOf(st0.syntax()) {
		if l.verb != verb || len(l.args) == 0 {
			continue
		}
		p := unq(l.args[0])
		if !wantPath[p] || seen[p] {
			continue
		}
		seen[p] = true // the first line for the path is the kept one
		want := l.suffix
		if !c.Work {
			for _, o := range c.Ops {
				if !isBulk(o.Name) {
					continue
				}
				for _, q := range o.Reqs {
					if q.Path == p {
						want = specSetIndirect(want, q.Indirect)
					}
				}
			}
		}
		found := false
		var got [][]string
		for _, m := range final {
			if m.verb != verb || len(m.args) == 0 || unq(m.args[0]) != p {
				continue
			}
			got = append(got, m.suffix)
			if containsRun(m.before, l.before) && sameStrs(m.suffix, want) {
				found = true
			}
		}
		if !found {
			return fmt.Sprintf("kept %s line for %q: comments not kept exactly (before %q, end-of-line %q, expected end-of-line %q, got %q)\noutput:\n%s", verb, p, l.before, l.suffix, want, got, out)
		}
		for _, t := range l.before {
			if !strings.Contains(out, t) {
				return fmt.Sprintf("comment %q of kept line %q missing from the output\n%s", t, p, out)
			}
		}
	}
	return ""
}

func comHas(c *modfile.Comments) bool {
	return len(c.Before) > 0 || len(c.After) > 0 || len(c.Suffix) > 1 ||
		(len(c.Suffix) == 1 && strings.TrimSpace(strings.TrimPrefix(c.Suffix[0].Token, "//")) != "indirect")
}

// c16TwoBlocks: the two-block clause of SetRequireSeparateIndirect.
// applies reports whether the starting file satisfies the clause's hypothesis.
func c16TwoBlocks(c editCase) (msg string, applies bool) {
	set, ok := c16Setter(c)
	nBulk := 0
	for _, o := range c.Ops {
		if isBulk(o.Name) {
			nBulk++
		}
	}
	if !ok || set.Name != "SetRequireSeparateIndirect" || nBulk != 1 {
		return "", false // the clause speaks about the call applied to the parsed file
	}
	st0, err := editParse(false, c.start())
	if err != nil {
		return "", false
	}
	n := 0
	commented := false
	for _, s := range st0.syntax().Stmt {
		switch s := s.(type) {
		case *modfile.Line:
			if s.Token[0] == "require" {
				n++
				commented = commented || comHas(&s.Comments)
			}
		case *modfile.LineBlock:
			if s.Token[0] == "require" {
				n++
				commented = commented || comHas(&s.Comments) || len(s.LParen.Suffix) > 0 || len(s.RParen.Before) > 0 || len(s.RParen.Suffix) > 0
				for _, l := range s.Line {
					commented = commented || comHas(&l.Comments)
				}
			}
		}
	}
	if n != 1 || commented {
		return "", false
	}
	run, err := editExec(c)
	if err != nil || run.panicAt >= 0 {
		return "", true
	}
	out := modfile.Format(run.st.syntax())
	st2, err := editParse(false, out)
	if err != nil {
		return "", true
	}
	for _, s := range st2.syntax().Stmt {
		b, ok := s.(*modfile.LineBlock)
		if !ok || b.Token[0] != "require" {
			continue
		}
		direct, indirect := 0, 0
		for _, l := range b.Line {
			ind := false
			if len(l.Suffix) > 0 {
				f := strings.Fields(strings.TrimPrefix(l.Suffix[0].Token, "//"))
				ind = len(f) >= 1 && (f[0] == "indirect" || f[0] == "indirect;")
			}
			if ind {
				indirect++
			} else {
				direct++
			}
		}
		if direct > 0 && indirect > 0 {
			return fmt.Sprintf("one require block holds %d direct and %d indirect requirements\noutput:\n%s", direct, indirect, out), true
		}
	}
	return "", true
}

// oneBlockStart: a file whose only requirements are one uncommented line or block.
func oneBlockStart(r *rand.Rand) string {
	var b strings.Builder
	b.WriteString("module example.com/m\n\n")
	if r.Intn(2) == 0 {
		b.WriteString("go 1." + fmt.Sprint(16+r.Intn(8)) + "\n\n")
	}
	paths := append([]string(nil), gen.EditModPaths...)
	r.Shuffle(len(paths), func(i, j int) { paths[i], paths[j] = paths[j], paths[i] })
	n := 1 + r.Intn(5)
	line := func(p string) string {
		s := p + " " + gen.EditVersionFor(r, p)
		if r.Intn(3) == 0 {
			s += " // indirect"
		}
		return s
	}
	if n == 1 && r.Intn(2) == 0 {
		b.WriteString("require " + line(paths[0]) + "\n")
	} else {
		b.WriteString("require (\n")
		for i := 0; i < n; i++ {
			p := paths[i]
			if i > 0 && r.Intn(6) == 0 {
				p = paths[i-1] // duplicated path
			}
			b.WriteString("\t" + line(p) + "\n")
		}
		b.WriteString(")\n")
	}
	if r.Intn(3) == 0 {
		b.WriteString("\nexclude (\n\texample.com/a v1.10.0\n\texample.com/a v1.9.0\n)\n")
	}
	return b.String()
}

func c16Draw(c *hx.Ctx) editCase {
	r := c.Rng
	work := r.Intn(4) == 0
	var s string
	var st *editState
	if !work && r.Intn(4) == 0 {
		s = oneBlockStart(r)
		var err error
		st, err = editParse(false, []byte(s))
		if err != nil {
			panic("oneBlockStart does not parse: " + err.Error() + "\n" + s)
		}
		c.Count("start:one-block")
	} else {
		for {
			s, st = editStart(c, work)
			n := 0
			if work {
				n = len(st.w.Use)
			} else {
				n = len(st.f.Require)
			}
			if n > 0 || r.Intn(4) == 0 {
				break
			}
		}
	}
	k := editKeysOf(st)
	var ops []gen.EditOp
	cleanup := "Cleanup"
	if work {
		cleanup = "WCleanup"
	}
	if r.Intn(3) != 0 {
		ops = append(ops, gen.EditOp{Name: cleanup})
	}
	for {
		var o []gen.EditOp
		if work {
			o = gen.EditOpWork(r, k, false)
		} else {
			o = gen.EditOpMod(r, k, false)
		}
		if last := o[len(o)-1]; isBulk(last.Name) {
			ops = append(ops, last)
			break
		}
	}
	ops = append(ops, gen.EditOp{Name: cleanup})
	if r.Intn(3) == 0 {
		// a second bulk setter on the same in-memory file, re-requesting (mostly) the paths
		// of the first one - including the ones the first call ADDED - with new versions
		first := ops[len(ops)-2]
		second := gen.EditOp{Name: first.Name}
		if !work && r.Intn(2) == 0 {
			if first.Name == "SetRequire" {
				second.Name = "SetRequireSeparateIndirect"
			} else {
				second.Name = "SetRequire"
			}
		}
		second.Reqs = []gen.ReqArg{}
		for _, q := range first.Reqs {
			switch r.Intn(6) {
			case 0: // dropped
				continue
			case 1: // unchanged
			default:
				if !work {
					q.Version = gen.EditVersionFor(r, q.Path)
					if r.Intn(2) == 0 {
						q.Indirect = !q.Indirect
					}
				}
			}
			second.Reqs = append(second.Reqs, q)
		}
		ops = append(ops, second, gen.EditOp{Name: cleanup})
		if !work && r.Intn(2) == 0 {
			// ... and back: the same request with every marking flipped once more
			third := gen.EditOp{Name: "SetRequire", Reqs: []gen.ReqArg{}}
			if r.Intn(2) == 0 {
				third.Name = "SetRequireSeparateIndirect"
			}
			for _, q := range second.Reqs {
				q.Indirect = !q.Indirect
				third.Reqs = append(third.Reqs, q)
			}
			ops = append(ops, third, gen.EditOp{Name: cleanup})
		}
	}
	return editCase{Work: work, Start: hex.EncodeToString([]byte(s)), Ops: ops}
}

func runC16(c *hx.Ctx) {
	for i := 0; i < c.N(5000); i++ {
		ec := c16Draw(c)
		run := editRecord(c, ec, "all")
		if run == nil {
			continue
		}
		if i < 3 {
			c.Sample(ec.String())
		}
		set, _ := c16Setter(ec)
		c.Count(fmt.Sprintf("requested:%d", min(len(set.Reqs), 4)))
		c.Nontrivial(ec.Start + fmt.Sprint(ec.Ops))
		k := ec
		k.Probe = "exact"
		msg := c16Exact(ec)
		c.Check("exact-set", msg == "", "", k, msg)
		k.Probe = "sorted"
		msg, shape := c16Sorted(ec)
		c.Check("blocks-sorted", msg == "", shape, k, msg)
		k.Probe = "comments"
		msg = c16Comments(ec)
		c.Check("kept-comments-survive", msg == "", "", k, msg)
		k.Probe = "twoblocks"
		msg, applies := c16TwoBlocks(ec)
		if applies {
			c.Check("separate-indirect-two-blocks", msg == "", "", k, msg)
		}
	}
}

func replayC16(raw json.RawMessage) (bool, string) {
	var ec editCase
	if err := json.Unmarshal(raw, &ec); err != nil {
		return false, err.Error()
	}
	var msg string
	switch ec.Probe {
	case "sorted":
		msg, _ = c16Sorted(ec)
	case "comments":
		msg = c16Comments(ec)
	case "twoblocks":
		msg, _ = c16TwoBlocks(ec)
	case "map-order":
		msg = editMapOrder(ec)
	default:
		msg = c16Exact(ec)
	}
	return msg == "", ec.String() + "\n" + msg
}
