package props

import (
	"encoding/hex"
	"encoding/json"
	"fmt"
	"math/big"
	"regexp"
	"sort"
	"strings"

	"golang.org/x/mod/module"
	"golang.org/x/mod/semver"

	"verif/harness/gen"
	"verif/harness/hx"
	"verif/harness/wire"
)

func init() { hx.Register(&hx.Prop{ID: "C04", Run: runC04, Replay: replayC04}) }

// The documented grammar, written independently of the implementation.
const (
	num   = `(?:0|[1-9][0-9]*)`
	preID = `(?:0|[1-9][0-9]*|[0-9]*[A-Za-z-][0-9A-Za-z-]*)`
	bldID = `[0-9A-Za-z-]+`
)

var semverRE = regexp.MustCompile(`^v(` + num + `)(?:\.(` + num + `)(?:\.(` + num + `)(-` + preID + `(?:\.` + preID + `)*)?(\+` + bldID + `(?:\.` + bldID + `)*)?)?)?$`)

type specVer struct {
	ok                  bool
	major, minor, patch string
	pre, build          string
	short               int // 0 full, 1 vX.Y, 2 vX
}

func specParse(v string) specVer {
	m := semverRE.FindStringSubmatch(v)
	if m == nil {
		return specVer{}
	}
	s := specVer{ok: true, major: m[1], minor: m[2], patch: m[3], pre: m[4], build: m[5]}
	// which groups participated
	idx := semverRE.FindStringSubmatchIndex(v)
	if idx[4] < 0 {
		s.minor, s.patch, s.short = "0", "0", 2
	} else if idx[6] < 0 {
		s.patch, s.short = "0", 1
	}
	return s
}

func (s specVer) canonical() string {
	if !s.ok {
		return ""
	}
	return "v" + s.major + "." + s.minor + "." + s.patch + s.pre
}

func bigOf(s string) *big.Int { n, _ := new(big.Int).SetString(s, 10); return n }

var allDigits = regexp.MustCompile(`^[0-9]+$`)

// specCompare is SemVer 2.0.0 §11 precedence, with invalid below valid.
func specCompare(a, b specVer) int {
	if !a.ok && !b.ok {
		return 0
	}
	if !a.ok {
		return -1
	}
	if !b.ok {
		return 1
	}
	for _, p := range [][2]string{{a.major, b.major}, {a.minor, b.minor}, {a.patch, b.patch}} {
		if c := bigOf(p[0]).Cmp(bigOf(p[1])); c != 0 {
			return c
		}
	}
	if a.pre == b.pre {
		return 0
	}
	if a.pre == "" {
		return 1
	}
	if b.pre == "" {
		return -1
	}
	xs := strings.Split(a.pre[1:], ".")
	ys := strings.Split(b.pre[1:], ".")
	for i := 0; i < len(xs) && i < len(ys); i++ {
		x, y := xs[i], ys[i]
		if x == y {
			continue
		}
		nx, ny := allDigits.MatchString(x), allDigits.MatchString(y)
		switch {
		case nx && ny:
			return bigOf(x).Cmp(bigOf(y))
		case nx:
			return -1
		case ny:
			return 1
		case x < y:
			return -1
		default:
			return 1
		}
	}
	if len(xs) < len(ys) {
		return -1
	}
	return 1
}

type c04In struct {
	Op string   `json:"op"`
	V  []string `json:"v_hex"`
}

func hexes(ss ...string) []string {
	out := make([]string, len(ss))
	for i, s := range ss {
		out[i] = hex.EncodeToString([]byte(s))
	}
	return out
}

func unhexes(hs []string) []string {
	out := make([]string, len(hs))
	for i, h := range hs {
		b, _ := hex.DecodeString(h)
		out[i] = string(b)
	}
	return out
}

// oracle evaluation shared by Run and Replay; returns "" when the property holds.
func c04Single(v string) string {
	s := specParse(v)
	if semver.IsValid(v) != s.ok {
		return fmt.Sprintf("IsValid(%q)=%v grammar=%v", v, semver.IsValid(v), s.ok)
	}
	want := map[string]string{"Canonical": "", "Major": "", "MajorMinor": "", "Prerelease": "", "Build": "", "CanonicalVersion": ""}
	if s.ok {
		want["Canonical"] = s.canonical()
		want["Major"] = "v" + s.major
		want["MajorMinor"] = "v" + s.major + "." + s.minor
		want["Prerelease"] = s.pre
		want["Build"] = s.build
		want["CanonicalVersion"] = s.canonical()
		if s.build == "+incompatible" {
			want["CanonicalVersion"] += "+incompatible"
		}
	}
	got := map[string]string{"Canonical": semver.Canonical(v), "Major": semver.Major(v), "MajorMinor": semver.MajorMinor(v),
		"Prerelease": semver.Prerelease(v), "Build": semver.Build(v), "CanonicalVersion": module.CanonicalVersion(v)}
	for k, w := range want {
		if got[k] != w {
			return fmt.Sprintf("%s(%q)=%q want %q", k, v, got[k], w)
		}
	}
	if semver.Compare(v, v) != 0 {
		return fmt.Sprintf("Compare(%q,%q)!=0", v, v)
	}
	return ""
}

func c04Pair(v, w string) string {
	c, d := semver.Compare(v, w), semver.Compare(w, v)
	if c < -1 || c > 1 {
		return fmt.Sprintf("Compare(%q,%q)=%d out of range", v, w, c)
	}
	if c != -d {
		return fmt.Sprintf("Compare(%q,%q)=%d but Compare(%q,%q)=%d", v, w, c, w, v, d)
	}
	if sc := specCompare(specParse(v), specParse(w)); sc != c {
		return fmt.Sprintf("Compare(%q,%q)=%d, SemVer precedence says %d", v, w, c, sc)
	}
	if (c == 0) != (semver.Canonical(v) == semver.Canonical(w)) {
		return fmt.Sprintf("Compare(%q,%q)=%d but canonical forms %q %q", v, w, c, semver.Canonical(v), semver.Canonical(w))
	}
	return ""
}

func c04Triple(a, b, c string) string {
	if semver.Compare(a, b) <= 0 && semver.Compare(b, c) <= 0 && semver.Compare(a, c) > 0 {
		return fmt.Sprintf("not transitive: %q <= %q <= %q but Compare(a,c)=%d", a, b, c, semver.Compare(a, c))
	}
	if semver.Compare(a, b) == 0 && semver.Compare(b, c) == 0 && semver.Compare(a, c) != 0 {
		return fmt.Sprintf("equivalence not transitive: %q %q %q", a, b, c)
	}
	return ""
}

func c04Sort(list []string) (string, []string) {
	out := append([]string(nil), list...)
	semver.Sort(out)
	a := append([]string(nil), list...)
	b := append([]string(nil), out...)
	sort.Strings(a)
	sort.Strings(b)
	if strings.Join(a, "\x00") != strings.Join(b, "\x00") || len(a) != len(b) {
		return fmt.Sprintf("Sort(%q) is not a permutation: %q", list, out), out
	}
	for i := 0; i+1 < len(out); i++ {
		c := semver.Compare(out[i], out[i+1])
		if c > 0 || (c == 0 && out[i] > out[i+1]) {
			return fmt.Sprintf("Sort(%q) out of order at %d: %q", list, i, out), out
		}
	}
	return "", out
}

func runC04(c *hx.Ctx) {
	r := c.Rng
	draw := func() string {
		switch k := r.Intn(20); {
		case k < 14:
			return gen.Version(r)
		case k < 18:
			return gen.Mutate(r, gen.Version(r), "v.0-+aA91")
		default:
			return gen.RawBytes(r, 12)
		}
	}
	single := func(v string) {
		c.Case("IsValid", wire.S(v), wire.Bool(semver.IsValid(v)))
		c.Case("Canonical", wire.S(v), wire.S(semver.Canonical(v)))
		c.Case("Major", wire.S(v), wire.S(semver.Major(v)))
		c.Case("MajorMinor", wire.S(v), wire.S(semver.MajorMinor(v)))
		c.Case("Prerelease", wire.S(v), wire.S(semver.Prerelease(v)))
		c.Case("Build", wire.S(v), wire.S(semver.Build(v)))
		c.Case("CanonicalVersion", wire.S(v), wire.S(module.CanonicalVersion(v)))
		if semver.IsValid(v) {
			c.Count("valid")
			c.Nontrivial("s:" + v)
		} else {
			c.Count("invalid")
		}
		msg := c04Single(v)
		c.Check("grammar+accessors", msg == "", "", c04In{"single", hexes(v)}, msg)
	}
	pair := func(v, w string) {
		c.Case("Compare", wire.L(wire.S(v), wire.S(w)), wire.Int(semver.Compare(v, w)))
		c.Case("Max", wire.L(wire.S(v), wire.S(w)), wire.S(semver.Max(v, w)))
		c.Count(fmt.Sprintf("compare=%d", semver.Compare(v, w)))
		if semver.IsValid(v) && semver.IsValid(w) {
			c.Nontrivial("p:" + v + "\x00" + w)
		}
		msg := c04Pair(v, w)
		c.Check("compare-spec+antisym+zero-iff-canonical", msg == "", "", c04In{"pair", hexes(v, w)}, msg)
	}
	// exhaustive short strings (quick: length <= 4; thorough: <= 6) over a small alphabet
	alpha := "v019.-+aA"
	maxLen := 4
	if c.Tier == "thorough" {
		maxLen = 6
	}
	var rec func(prefix string)
	rec = func(prefix string) {
		single(prefix)
		if len(prefix) == maxLen {
			return
		}
		for i := 0; i < len(alpha); i++ {
			rec(prefix + string(alpha[i]))
		}
	}
	rec("")
	for i := 0; i < c.N(6000); i++ {
		single(draw())
	}
	for i := 0; i < c.N(8000); i++ {
		v := draw()
		w := draw()
		if r.Intn(2) == 0 {
			w = gen.RelatedVersion(r, v)
		}
		pair(v, w)
	}
	for i := 0; i < c.N(5000); i++ {
		a := draw()
		b := gen.RelatedVersion(r, a)
		d := gen.RelatedVersion(r, b)
		if r.Intn(3) == 0 {
			d = draw()
		}
		msg := c04Triple(a, b, d)
		c.Check("transitive", msg == "", "", c04In{"triple", hexes(a, b, d)}, msg)
	}
	for i := 0; i < c.N(1500); i++ {
		n := r.Intn(9)
		list := make([]string, n)
		for j := range list {
			if j > 0 && r.Intn(2) == 0 {
				list[j] = gen.RelatedVersion(r, list[r.Intn(j)])
			} else {
				list[j] = draw()
			}
		}
		msg, out := c04Sort(list)
		c.Case("Sort", wire.Strs(list), wire.Strs(out))
		c.Check("sort", msg == "", "", c04In{"sort", hexes(list...)}, msg)
	}
}

func replayC04(raw json.RawMessage) (bool, string) {
	var in c04In
	if err := json.Unmarshal(raw, &in); err != nil {
		return false, err.Error()
	}
	v := unhexes(in.V)
	var msg string
	switch in.Op {
	case "single":
		msg = c04Single(v[0])
	case "pair":
		msg = c04Pair(v[0], v[1])
	case "triple":
		msg = c04Triple(v[0], v[1], v[2])
	case "sort":
		msg, _ = c04Sort(v)
	}
	return msg == "", msg
}
