package props

import (
	"encoding/hex"
	"encoding/json"
	"fmt"
	"math/big"
	"math/rand"
	"regexp"
	"sort"
	"strings"

	"golang.org/x/mod/module"
	"golang.org/x/mod/semver"

	"verif/harness/gen"
	"verif/harness/hx"
	"verif/harness/wire"
)

func init() { hx.Register(&hx.Prop{ID: "C04", Run: runC04, Replay: replayC04}) }

// The documented grammar, written independently of the implementation.
const (
	num   = `(?:0|[1-9][0-9]*)`
	preID = `(?:0|[1-9][0-9]*|[0-9]*[A-Za-z-][0-9A-Za-z-]*)`
	bldID = `[0-9A-Za-z-]+`
)

var semverRE = regexp.MustCompile(`^v(` + num + `)(?:\.(` + num + `)(?:\.(` + num + `)(-` + preID + `(?:\.` + preID + `)*)?(\+` + bldID + `(?:\.` + bldID + `)*)?)?)?$`)

type specVer struct {
	ok                  bool
	major, minor, patch string
	pre, build          string
	short               int // 0 full, 1 vX.Y, 2 vX
}

func specParse(v string) specVer {
	m := semverRE.FindStringSubmatch(v)
	if m == nil {
		return specVer{}
	}
	s := specVer{ok: true, major: m[1], minor: m[2], patch: m[3], pre: m[4], build: m[5]}
	// which groups participated
	idx := semverRE.FindStringSubmatchIndex(v)
	if idx[4] < 0 {
		s.minor, s.patch, s.short = "0", "0", 2
	} else if idx[6] < 0 {
		s.patch, s.short = "0", 1
	}
	return s
}

func (s specVer) canonical() string {
	if !s.ok {
		return ""
	}
	return "v" + s.major + "." + s.minor + "." + s.patch + s.pre
}

func bigOf(s string) *big.Int { n, _ := new(big.Int).SetString(s, 10); return n }

var allDigits = regexp.MustCompile(`^[0-9]+$`)

// specCompare is SemVer 2.0.0 §11 precedence, with invalid below valid.
func specCompare(a, b specVer) int {
	if !a.ok && !b.ok {
		return 0
	}
	if !a.ok {
		return -1
	}
	if !b.ok {
		return 1
	}
	for _, p := range [][2]string{{a.major, b.major}, {a.minor, b.minor}, {a.patch, b.patch}} {
		if c := bigOf(p[0]).Cmp(bigOf(p[1])); c != 0 {
			return c
		}
	}
	if a.pre == b.pre {
		return 0
	}
	if a.pre == "" {
		return 1
	}
	if b.pre == "" {
		return -1
	}
	xs := strings.Split(a.pre[1:], ".")
	ys := strings.Split(b.pre[1:], ".")
	for i := 0; i < len(xs) && i < len(ys); i++ {
		x, y := xs[i], ys[i]
		if x == y {
			continue
		}
		nx, ny := allDigits.MatchString(x), allDigits.MatchString(y)
		switch {
		case nx && ny:
			return bigOf(x).Cmp(bigOf(y))
		case nx:
			return -1
		case ny:
			return 1
		case x < y:
			return -1
		default:
			return 1
		}
	}
	if len(xs) < len(ys) {
		return -1
	}
	return 1
}

// c04Branch names the decision of the SemVer precedence rule that settles the comparison of
// two strings (for the measured distribution only).
func c04Branch(a, b specVer) string {
	switch {
	case !a.ok && !b.ok:
		return "both-invalid"
	case !a.ok || !b.ok:
		return "one-invalid"
	}
	long := func(x, y string) string {
		if len(x) > 19 || len(y) > 19 {
			return "-over64bit"
		}
		return ""
	}
	for i, p := range [][2]string{{a.major, b.major}, {a.minor, b.minor}, {a.patch, b.patch}} {
		if p[0] != p[1] {
			k := "len"
			if len(p[0]) == len(p[1]) {
				k = "lex"
			}
			return []string{"major", "minor", "patch"}[i] + "-" + k + long(p[0], p[1])
		}
	}
	if a.pre == b.pre {
		return "equal"
	}
	if a.pre == "" || b.pre == "" {
		return "pre-vs-none"
	}
	xs := strings.Split(a.pre[1:], ".")
	ys := strings.Split(b.pre[1:], ".")
	for i := 0; i < len(xs) && i < len(ys); i++ {
		x, y := xs[i], ys[i]
		if x == y {
			continue
		}
		nx, ny := allDigits.MatchString(x), allDigits.MatchString(y)
		switch {
		case nx && ny && len(x) != len(y):
			return "ident-num-len" + long(x, y)
		case nx && ny:
			return "ident-num-lex" + long(x, y)
		case nx != ny:
			return "ident-num-vs-alpha"
		default:
			return "ident-alpha"
		}
	}
	return "ident-prefix"
}

func c04Shape(s specVer) string {
	if !s.ok {
		return "invalid"
	}
	k := []string{"full", "vX.Y", "vX"}[s.short]
	if s.pre != "" {
		k += "+pre"
	}
	if s.build != "" {
		k += "+build"
	}
	return k
}

// c04VaryNum returns a numeral close to n: same length, one digit longer, far beyond 64 bits,
// or unrelated.
func c04VaryNum(r *rand.Rand, n string) string {
	switch r.Intn(5) {
	case 0, 1:
		b := []byte(n)
		i := r.Intn(len(b))
		b[i] = byte('0' + r.Intn(10))
		if b[0] == '0' && len(b) > 1 {
			b[0] = '1'
		}
		return string(b)
	case 2:
		if n == "0" {
			return "10"
		}
		return n + string(rune('0'+r.Intn(10)))
	case 3:
		if n == "0" {
			n = "7"
		}
		return n + "00000000000000000000"[:12+r.Intn(8)] + string(rune('0'+r.Intn(10)))
	default:
		return gen.Numeral(r, false)
	}
}

func c04VaryIdent(r *rand.Rand, id string) string {
	if allDigits.MatchString(id) && (id == "0" || id[0] != '0') {
		switch r.Intn(4) {
		case 0, 1:
			return c04VaryNum(r, id)
		case 2:
			return id + "a"
		default:
			return gen.Ident(r, false, false)
		}
	}
	switch r.Intn(4) {
	case 0:
		b := []byte(id)
		b[r.Intn(len(b))] = "0aZ-9b"[r.Intn(6)]
		if allDigits.Match(b) && len(b) > 1 && b[0] == '0' {
			b[0] = 'x'
		}
		return string(b)
	case 1:
		return id + string("0aZ-"[r.Intn(4)])
	case 2:
		return gen.Numeral(r, false)
	default:
		return gen.Ident(r, false, false)
	}
}

// c04Related returns a version that agrees with v on all fields before a randomly chosen
// one and differs there, so that every level of the precedence rule gets to decide.
func c04Related(r *rand.Rand, v string) string {
	s := specParse(v)
	if !s.ok || r.Intn(8) == 0 {
		return gen.RelatedVersion(r, v)
	}
	var pre []string
	if s.pre != "" {
		pre = strings.Split(s.pre[1:], ".")
	}
	build := s.build
	switch k := r.Intn(13); {
	case k == 0:
		s.major = c04VaryNum(r, s.major)
	case k <= 2:
		s.minor = c04VaryNum(r, s.minor)
	case k <= 4:
		s.patch = c04VaryNum(r, s.patch)
	case k == 5:
		if pre == nil {
			pre = []string{gen.Ident(r, false, false)}
		} else {
			pre = nil
		}
	case k <= 8:
		if pre == nil {
			pre = []string{gen.Ident(r, false, false), gen.Ident(r, false, false)}
		}
		i := r.Intn(len(pre))
		pre = append([]string(nil), pre...)
		pre[i] = c04VaryIdent(r, pre[i])
	case k == 9:
		if len(pre) > 1 && r.Intn(2) == 0 {
			pre = pre[:len(pre)-1]
		} else if pre != nil {
			pre = append(append([]string(nil), pre...), gen.Ident(r, false, false))
		}
	case k <= 11:
		if build == "" || r.Intn(2) == 0 {
			build = "+" + gen.Ident(r, false, true)
		} else {
			build = ""
		}
	}
	p := ""
	if pre != nil {
		p = "-" + strings.Join(pre, ".")
	}
	if p == "" && build == "" && s.patch == "0" && r.Intn(3) == 0 {
		if s.minor == "0" && r.Intn(2) == 0 {
			return "v" + s.major
		}
		return "v" + s.major + "." + s.minor
	}
	return "v" + s.major + "." + s.minor + "." + s.patch + p + build
}

// c04NumIdentPair returns two versions that differ first in a numeric prerelease identifier.
func c04NumIdentPair(r *rand.Rand) (string, string) {
	base := "v" + gen.Numeral(r, false) + "." + gen.Numeral(r, false) + "." + gen.Numeral(r, false) + "-"
	for i := r.Intn(3); i > 0; i-- {
		base += gen.Ident(r, false, false) + "."
	}
	x := gen.Numeral(r, false)
	y := c04VaryNum(r, x)
	tail := func() string {
		if r.Intn(2) == 0 {
			return "." + gen.Ident(r, false, false)
		}
		return ""
	}
	return base + x + tail(), base + y + tail()
}

type c04In struct {
	Op string   `json:"op"`
	V  []string `json:"v_hex"`
}

func hexes(ss ...string) []string {
	out := make([]string, len(ss))
	for i, s := range ss {
		out[i] = hex.EncodeToString([]byte(s))
	}
	return out
}

func unhexes(hs []string) []string {
	out := make([]string, len(hs))
	for i, h := range hs {
		b, _ := hex.DecodeString(h)
		out[i] = string(b)
	}
	return out
}

// oracle evaluation shared by Run and Replay; returns "" when the property holds.
func c04Single(v string) string {
	s := specParse(v)
	if semver.IsValid(v) != s.ok {
		return fmt.Sprintf("IsValid(%q)=%v grammar=%v", v, semver.IsValid(v), s.ok)
	}
	want := map[string]string{"Canonical": "", "Major": "", "MajorMinor": "", "Prerelease": "", "Build": "", "CanonicalVersion": ""}
	if s.ok {
		want["Canonical"] = s.canonical()
		want["Major"] = "v" + s.major
		want["MajorMinor"] = "v" + s.major + "." + s.minor
		want["Prerelease"] = s.pre
		want["Build"] = s.build
		want["CanonicalVersion"] = s.canonical()
		if s.build == "+incompatible" {
			want["CanonicalVersion"] += "+incompatible"
		}
	}
	got := map[string]string{"Canonical": semver.Canonical(v), "Major": semver.Major(v), "MajorMinor": semver.MajorMinor(v),
		"Prerelease": semver.Prerelease(v), "Build": semver.Build(v), "CanonicalVersion": module.CanonicalVersion(v)}
	for k, w := range want {
		if got[k] != w {
			return fmt.Sprintf("%s(%q)=%q want %q", k, v, got[k], w)
		}
	}
	if semver.Compare(v, v) != 0 {
		return fmt.Sprintf("Compare(%q,%q)!=0", v, v)
	}
	return ""
}

func c04Pair(v, w string) string {
	c, d := semver.Compare(v, w), semver.Compare(w, v)
	if c < -1 || c > 1 {
		return fmt.Sprintf("Compare(%q,%q)=%d out of range", v, w, c)
	}
	if c != -d {
		return fmt.Sprintf("Compare(%q,%q)=%d but Compare(%q,%q)=%d", v, w, c, w, v, d)
	}
	if sc := specCompare(specParse(v), specParse(w)); sc != c {
		return fmt.Sprintf("Compare(%q,%q)=%d, SemVer precedence says %d", v, w, c, sc)
	}
	if (c == 0) != (semver.Canonical(v) == semver.Canonical(w)) {
		return fmt.Sprintf("Compare(%q,%q)=%d but canonical forms %q %q", v, w, c, semver.Canonical(v), semver.Canonical(w))
	}
	return ""
}

func c04Triple(a, b, c string) string {
	if semver.Compare(a, b) <= 0 && semver.Compare(b, c) <= 0 && semver.Compare(a, c) > 0 {
		return fmt.Sprintf("not transitive: %q <= %q <= %q but Compare(a,c)=%d", a, b, c, semver.Compare(a, c))
	}
	if semver.Compare(a, b) == 0 && semver.Compare(b, c) == 0 && semver.Compare(a, c) != 0 {
		return fmt.Sprintf("equivalence not transitive: %q %q %q", a, b, c)
	}
	return ""
}

func c04Sort(list []string) (string, []string) {
	out := append([]string(nil), list...)
	semver.Sort(out)
	a := append([]string(nil), list...)
	b := append([]string(nil), out...)
	sort.Strings(a)
	sort.Strings(b)
	if strings.Join(a, "\x00") != strings.Join(b, "\x00") || len(a) != len(b) {
		return fmt.Sprintf("Sort(%q) is not a permutation: %q", list, out), out
	}
	for i := 0; i+1 < len(out); i++ {
		c := semver.Compare(out[i], out[i+1])
		if c > 0 || (c == 0 && out[i] > out[i+1]) {
			return fmt.Sprintf("Sort(%q) out of order at %d: %q", list, i, out), out
		}
	}
	return "", out
}

// c04OddBytes: all 256 byte values (used to mutate valid versions one byte at a time)
var c04OddBytes = func() string {
	b := make([]byte, 256)
	for i := range b {
		b[i] = byte(i)
	}
	return string(b)
}()

func runC04(c *hx.Ctx) {
	r := c.Rng
	draw := func() string {
		switch k := r.Intn(20); {
		case k < 15:
			return gen.Version(r)
		case k < 18:
			return gen.Mutate(r, gen.Version(r), "v.0-+aA91")
		case k < 19:
			if r.Intn(2) == 0 {
				// every byte value can occur next to valid identifiers: control characters, DEL,
				// bytes that differ from a digit/letter/hyphen in one bit (0x0d, 0x10-0x19, '@', '[', '`', '{'), non-ASCII
				return gen.Mutate(r, gen.Version(r), c04OddBytes)
			}
			// two edits: still close to the grammar
			return gen.Mutate(r, gen.Mutate(r, gen.Version(r), "v.0-+aA91"), "v.0-+aA91")
		default:
			return gen.RawBytes(r, 12)
		}
	}
	samples := 0
	sample := func(format string, a ...any) {
		if samples < 12 {
			samples++
			c.Sample(fmt.Sprintf(format, a...))
		}
	}
	single := func(v string) {
		c.Case("IsValid", wire.S(v), wire.Bool(semver.IsValid(v)))
		c.Case("Canonical", wire.S(v), wire.S(semver.Canonical(v)))
		c.Case("Major", wire.S(v), wire.S(semver.Major(v)))
		c.Case("MajorMinor", wire.S(v), wire.S(semver.MajorMinor(v)))
		c.Case("Prerelease", wire.S(v), wire.S(semver.Prerelease(v)))
		c.Case("Build", wire.S(v), wire.S(semver.Build(v)))
		c.Case("CanonicalVersion", wire.S(v), wire.S(module.CanonicalVersion(v)))
		if semver.IsValid(v) {
			c.Count("valid")
			c.Nontrivial("s:" + v)
		} else {
			c.Count("invalid")
		}
		c.Count("shape:" + c04Shape(specParse(v)))
		msg := c04Single(v)
		c.Check("grammar+accessors", msg == "", "", c04In{"single", hexes(v)}, msg)
	}
	pair := func(v, w string) {
		c.Case("Compare", wire.L(wire.S(v), wire.S(w)), wire.Int(semver.Compare(v, w)))
		c.Case("Max", wire.L(wire.S(v), wire.S(w)), wire.S(semver.Max(v, w)))
		c.Count(fmt.Sprintf("compare=%d", semver.Compare(v, w)))
		c.Count("decided-by:" + c04Branch(specParse(v), specParse(w)))
		if semver.IsValid(v) && semver.IsValid(w) {
			c.Nontrivial("p:" + v + "\x00" + w)
			if v != w {
				sample("Compare(%q, %q) = %d   Canonical: %q %q", v, w, semver.Compare(v, w), semver.Canonical(v), semver.Canonical(w))
			}
		}
		msg := c04Pair(v, w)
		c.Check("compare-spec+antisym+zero-iff-canonical", msg == "", "", c04In{"pair", hexes(v, w)}, msg)
	}
	// exhaustive short strings (quick: length <= 4; thorough: <= 6) over a small alphabet
	alpha := "v019.-+aA"
	maxLen := 4
	if c.Tier == "thorough" {
		maxLen = 6
	}
	var rec func(prefix string)
	rec = func(prefix string) {
		single(prefix)
		if len(prefix) == maxLen {
			return
		}
		for i := 0; i < len(alpha); i++ {
			rec(prefix + string(alpha[i]))
		}
	}
	rec("")
	// every byte value in every identifier position class (exhaustive, 256 x 8 strings)
	for b := 0; b < 256; b++ {
		ch := string([]byte{byte(b)})
		for _, v := range []string{"v1.2.3-rc1" + ch, "v1.2.3-" + ch + "rc", "v1.2.3-a." + ch, "v1.2.3+meta" + ch,
			"v1.2.3+" + ch + "m", "v1.2.3-a+b." + ch, "v1.2.3" + ch, "v1" + ch + "2.3"} {
			single(v)
		}
	}
	for i := 0; i < c.N(6000); i++ {
		single(draw())
	}
	for i := 0; i < c.N(8000); i++ {
		v := draw()
		w := draw()
		if r.Intn(4) != 0 {
			w = c04Related(r, v)
		}
		if r.Intn(12) == 0 {
			v, w = c04NumIdentPair(r)
		}
		if r.Intn(2) == 0 {
			v, w = w, v
		}
		pair(v, w)
	}
	for i := 0; i < c.N(5000); i++ {
		a := draw()
		b := c04Related(r, a)
		d := c04Related(r, b)
		switch r.Intn(6) {
		case 0:
			d = draw()
		case 1:
			d = c04Related(r, a)
		}
		c.Count("triple:" + fmt.Sprintf("%d%d", semver.Compare(a, b), semver.Compare(b, d)))
		msg := c04Triple(a, b, d)
		c.Check("transitive", msg == "", "", c04In{"triple", hexes(a, b, d)}, msg)
	}
	for i := 0; i < c.N(1500); i++ {
		n := r.Intn(9)
		list := make([]string, n)
		for j := range list {
			if j > 0 && r.Intn(2) == 0 {
				list[j] = c04Related(r, list[r.Intn(j)])
			} else {
				list[j] = draw()
			}
		}
		msg, out := c04Sort(list)
		c.Case("Sort", wire.Strs(list), wire.Strs(out))
		c.Check("sort", msg == "", "", c04In{"sort", hexes(list...)}, msg)
	}
}

func replayC04(raw json.RawMessage) (bool, string) {
	var in c04In
	if err := json.Unmarshal(raw, &in); err != nil {
		return false, err.Error()
	}
	v := unhexes(in.V)
	var msg string
	switch in.Op {
	case "single":
		msg = c04Single(v[0])
	case "pair":
		msg = c04Pair(v[0], v[1])
	case "triple":
		msg = c04Triple(v[0], v[1], v[2])
	case "sort":
		msg, _ = c04Sort(v)
	}
	return msg == "", msg
}
