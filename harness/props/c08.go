package props

// C08 — go.mod and go.work edit operations do what a simple set/map model says.
//
// Oracles (on the implementation, independent of the Coq model):
//   - keyed-model: a naive interpreter of the documented behaviour of every operation over
//     plain slices (kstate/kstep below, written from the doc comments of rule.go/work.go)
//     predicts the error result of every operation and the directives of a strict
//     re-parse of the formatted result;
//   - comments-survive: every comment of the starting file carries a unique tag; every
//     directive line that no operation targeted and that is not a duplicate subject to the
//     documented de-duplication is still present with its own leading and end-of-line
//     comments.
// The shared runner, serialisation and generators are in c15.go and gen/editops.go.

import (
	"encoding/json"
	"fmt"
	"sort"
	"strconv"
	"strings"

	"golang.org/x/mod/modfile"
	"golang.org/x/mod/module"

	"verif/harness/gen"
	"verif/harness/hx"
)

func init() { hx.Register(&hx.Prop{ID: "C08", Run: runC08, Replay: replayC08}) }

// ---------------------------------------------------------------------------------
// the keyed-collection model

type kReq struct {
	path, vers string
	ind        bool
}

type kstate struct {
	work              bool
	module, gov, tool *string // module path, go version, toolchain name
	godebug           [][2]string
	require           []kReq
	exclude           [][2]string
	replace           [][4]string
	retract           [][2]string
	tools             []string
	use               []string
}

func sp(s string) *string { return &s }

func kabs(st *editState) *kstate {
	k := &kstate{}
	var g *modfile.Go
	var tc *modfile.Toolchain
	var gd []*modfile.Godebug
	var rp []*modfile.Replace
	if st.f != nil {
		f := st.f
		g, tc, gd, rp = f.Go, f.Toolchain, f.Godebug, f.Replace
		if f.Module != nil {
			k.module = sp(f.Module.Mod.Path)
		}
		for _, r := range f.Require {
			k.require = append(k.require, kReq{r.Mod.Path, r.Mod.Version, r.Indirect})
		}
		for _, x := range f.Exclude {
			k.exclude = append(k.exclude, [2]string{x.Mod.Path, x.Mod.Version})
		}
		for _, r := range f.Retract {
			k.retract = append(k.retract, [2]string{r.Low, r.High})
		}
		for _, t := range f.Tool {
			k.tools = append(k.tools, t.Path)
		}
	} else {
		k.work = true
		g, tc, gd, rp = st.w.Go, st.w.Toolchain, st.w.Godebug, st.w.Replace
		for _, u := range st.w.Use {
			k.use = append(k.use, u.Path)
		}
	}
	if g != nil {
		k.gov = sp(g.Version)
	}
	if tc != nil {
		k.tool = sp(tc.Name)
	}
	for _, x := range gd {
		k.godebug = append(k.godebug, [2]string{x.Key, x.Value})
	}
	for _, r := range rp {
		k.replace = append(k.replace, [4]string{r.Old.Path, r.Old.Version, r.New.Path, r.New.Version})
	}
	return k
}

// canonicalFor: "Errors if the provided version is not a canonical version string"
// (and, per checkCanonicalVersion's doc, does not match the major version of path).
func canonicalFor(path, vers string) bool {
	if vers == "" || module.CanonicalVersion(vers) != vers {
		return false
	}
	if _, pm, ok := module.SplitPathVersion(path); ok {
		return module.CheckPathMajor(vers, pm) == nil
	}
	return true
}

// dedup is the documented de-duplication of removeDups: earlier exclude and tool
// directives take priority, later replace directives take priority.
func (k *kstate) dedup() {
	if !k.work {
		seen := map[[2]string]bool{}
		var ex [][2]string
		for _, e := range k.exclude {
			if !seen[e] {
				seen[e] = true
				ex = append(ex, e)
			}
		}
		k.exclude = ex
		seenT := map[string]bool{}
		var ts []string
		for _, t := range k.tools {
			if !seenT[t] {
				seenT[t] = true
				ts = append(ts, t)
			}
		}
		k.tools = ts
	}
	seenR := map[[2]string]bool{}
	var rp [][4]string
	for i := len(k.replace) - 1; i >= 0; i-- {
		r := k.replace[i]
		key := [2]string{r[0], r[1]}
		if !seenR[key] {
			seenR[key] = true
			rp = append([][4]string{r}, rp...)
		}
	}
	k.replace = rp
}

// kstep applies one operation as documented; it reports whether the operation is
// documented to fail (in which case nothing changes).
func (k *kstate) kstep(o gen.EditOp) (fails bool) {
	a := func(i int) string { return argN(o, i) }
	switch strings.TrimPrefix(o.Name, "W") {
	case "AddModuleStmt":
		k.module = sp(a(0))
	case "AddGoStmt":
		if !modfile.GoVersionRE.MatchString(a(0)) {
			return true
		}
		k.gov = sp(a(0))
	case "DropGoStmt":
		k.gov = nil
	case "AddToolchainStmt":
		if !modfile.ToolchainRE.MatchString(a(0)) {
			return true
		}
		k.tool = sp(a(0))
	case "DropToolchainStmt":
		k.tool = nil
	case "AddGodebug":
		// sets the first line for key, removes all other lines for key, else adds a new line
		var out [][2]string
		done := false
		for _, g := range k.godebug {
			if g[0] == a(0) {
				if !done {
					out = append(out, [2]string{a(0), a(1)})
					done = true
				}
				continue
			}
			out = append(out, g)
		}
		if !done {
			out = append(out, [2]string{a(0), a(1)})
		}
		k.godebug = out
	case "DropGodebug":
		var out [][2]string
		for _, g := range k.godebug {
			if g[0] != a(0) {
				out = append(out, g)
			}
		}
		k.godebug = out
	case "AddRequire":
		var out []kReq
		done := false
		for _, r := range k.require {
			if r.path == a(0) {
				if !done {
					out = append(out, kReq{a(0), a(1), r.ind}) // comments (and so the indirect mark) preserved
					done = true
				}
				continue
			}
			out = append(out, r)
		}
		if !done {
			out = append(out, kReq{a(0), a(1), false})
		}
		k.require = out
	case "AddNewRequire":
		k.require = append(k.require, kReq{a(0), a(1), a(2) == "1"})
	case "SetRequire", "SetRequireSeparateIndirect":
		want := map[string]gen.ReqArg{}
		for _, q := range o.Reqs {
			want[q.Path] = q
		}
		var out []kReq
		have := map[string]bool{}
		for _, r := range k.require {
			if q, ok := want[r.path]; ok && !have[r.path] {
				have[r.path] = true
				out = append(out, kReq{q.Path, q.Version, q.Indirect})
			}
		}
		for _, q := range o.Reqs {
			if !have[q.Path] {
				have[q.Path] = true
				q = want[q.Path]
				out = append(out, kReq{q.Path, q.Version, q.Indirect})
			}
		}
		k.require = out
		k.dedup() // both call SortBlocks
	case "DropRequire":
		var out []kReq
		for _, r := range k.require {
			if r.path != a(0) {
				out = append(out, r)
			}
		}
		k.require = out
	case "AddExclude":
		if !canonicalFor(a(0), a(1)) {
			return true
		}
		for _, e := range k.exclude {
			if e == [2]string{a(0), a(1)} {
				return false
			}
		}
		k.exclude = append(k.exclude, [2]string{a(0), a(1)})
	case "DropExclude":
		var out [][2]string
		for _, e := range k.exclude {
			if e != [2]string{a(0), a(1)} {
				out = append(out, e)
			}
		}
		k.exclude = out
	case "AddReplace":
		// the first replacement for old (any version when oldVers is empty) is rewritten,
		// the other matching ones are deleted; else a new one is added
		var out [][4]string
		done := false
		for _, r := range k.replace {
			if r[0] == a(0) && (a(1) == "" || r[1] == a(1)) {
				if !done {
					out = append(out, [4]string{a(0), a(1), a(2), a(3)})
					done = true
				}
				continue
			}
			out = append(out, r)
		}
		if !done {
			out = append(out, [4]string{a(0), a(1), a(2), a(3)})
		}
		k.replace = out
	case "DropReplace":
		var out [][4]string
		for _, r := range k.replace {
			if !(r[0] == a(0) && r[1] == a(1)) {
				out = append(out, r)
			}
		}
		k.replace = out
	case "AddRetract":
		mp := ""
		if k.module != nil {
			mp = *k.module
		}
		if !canonicalFor(mp, a(1)) || !canonicalFor(mp, a(0)) {
			return true
		}
		k.retract = append(k.retract, [2]string{a(0), a(1)})
	case "DropRetract":
		var out [][2]string
		for _, r := range k.retract {
			if r != [2]string{a(0), a(1)} {
				out = append(out, r)
			}
		}
		k.retract = out
	case "AddTool":
		for _, t := range k.tools {
			if t == a(0) {
				return false
			}
		}
		k.tools = append(k.tools, a(0))
		k.dedup() // AddTool sorts the blocks
	case "DropTool":
		var out []string
		for _, t := range k.tools {
			if t != a(0) {
				out = append(out, t)
			}
		}
		k.tools = out
	case "AddUse":
		var out []string
		done := false
		for _, u := range k.use {
			if u == a(0) {
				if !done {
					out = append(out, u)
					done = true
				}
				continue
			}
			out = append(out, u)
		}
		if !done {
			out = append(out, a(0))
		}
		k.use = out
	case "AddNewUse":
		k.use = append(k.use, a(0))
	case "SetUse":
		want := map[string]bool{}
		for _, q := range o.Reqs {
			want[q.Path] = true
		}
		var out []string
		have := map[string]bool{}
		for _, u := range k.use {
			// the first line for a requested directory is kept (one directive per path)
			if want[u] && !have[u] {
				have[u] = true
				out = append(out, u)
			}
		}
		for _, q := range o.Reqs {
			if !have[q.Path] {
				have[q.Path] = true
				out = append(out, q.Path)
			}
		}
		k.use = out
		k.dedup()
	case "DropUse":
		var out []string
		for _, u := range k.use {
			if u != a(0) {
				out = append(out, u)
			}
		}
		k.use = out
	case "SortBlocks":
		k.dedup()
	case "AddComment", "Cleanup":
	default:
		panic("kstep: unknown op " + o.Name)
	}
	return false
}

func (k *kstate) snap() dirSnap {
	s := dirSnap{}
	if k.module != nil {
		snapAdd(s, "module", fmt.Sprintf("%q", *k.module))
	}
	if k.gov != nil {
		snapAdd(s, "go", *k.gov)
	}
	if k.tool != nil {
		snapAdd(s, "toolchain", *k.tool)
	}
	for _, g := range k.godebug {
		snapAdd(s, "godebug", fmt.Sprintf("%q=%q", g[0], g[1]))
	}
	for _, r := range k.require {
		snapAdd(s, "require", fmt.Sprintf("%q %q indirect=%v", r.path, r.vers, r.ind))
	}
	for _, e := range k.exclude {
		snapAdd(s, "exclude", fmt.Sprintf("%q %q", e[0], e[1]))
	}
	for _, r := range k.replace {
		snapAdd(s, "replace", fmt.Sprintf("%q %q => %q %q", r[0], r[1], r[2], r[3]))
	}
	for _, r := range k.retract {
		snapAdd(s, "retract", fmt.Sprintf("[%q,%q]", r[0], r[1]))
	}
	for _, t := range k.tools {
		snapAdd(s, "tool", fmt.Sprintf("%q", t))
	}
	for _, u := range k.use {
		snapAdd(s, "use", fmt.Sprintf("%q", u))
	}
	for _, v := range s {
		sort.Strings(v)
	}
	return s
}

// c08Keyed: the keyed model predicts per-operation errors and the directives of the
// strict re-parse.
func c08Keyed(c editCase) string {
	st0, err := editParse(c.Work, c.start())
	if err != nil {
		return ""
	}
	k := kabs(st0)
	var want []bool
	for _, o := range c.Ops {
		want = append(want, k.kstep(o))
	}
	run, _ := editExec(c)
	if run.panicAt >= 0 {
		return fmt.Sprintf("panic in op %d (%s): %s", run.panicAt, c.Ops[run.panicAt], run.panicMsg)
	}
	for i := range want {
		if want[i] != run.errs[i] {
			return fmt.Sprintf("op %d (%s): error result %v, documented %v", i, c.Ops[i], run.errs[i], want[i])
		}
	}
	out := modfile.Format(run.st.syntax())
	st2, err := editParse(c.Work, out)
	if err != nil {
		return fmt.Sprintf("formatted result does not parse strictly: %v\n%s", err, out)
	}
	if d := snapDiff(k.snap(), snapNoText(snapOf(st2))); d != "" {
		return fmt.Sprintf("keyed model (first) vs strict re-parse (second) differ: %s\noutput:\n%s", d, out)
	}
	return ""
}

// ---------------------------------------------------------------------------------
// comment survival

type dline struct {
	verb           string
	args           []string
	before, suffix []string // comment texts (trimmed), blank-line markers dropped
}

func comTexts(cs []modfile.Comment) []string {
	var out []string
	for _, c := range cs {
		if t := strings.TrimSpace(c.Token); t != "" {
			out = append(out, t)
		}
	}
	return out
}

func dlinesOf(fs *modfile.FileSyntax) []dline {
	var out []dline
	for _, s := range fs.Stmt {
		switch s := s.(type) {
		case *modfile.Line:
			if len(s.Token) > 0 {
				out = append(out, dline{s.Token[0], s.Token[1:], comTexts(s.Before), comTexts(s.Suffix)})
			}
		case *modfile.LineBlock:
			for _, l := range s.Line {
				if len(l.Token) > 0 {
					out = append(out, dline{s.Token[0], l.Token, comTexts(l.Before), comTexts(l.Suffix)})
				}
			}
		}
	}
	return out
}

func unq(s string) string {
	if strings.HasPrefix(s, `"`) {
		if t, err := strconv.Unquote(s); err == nil {
			return t
		}
	}
	return s
}

// targeted reports whether operation o addresses the directive line l (by key).
func targeted(o gen.EditOp, l dline) bool {
	a := func(i int) string { return argN(o, i) }
	name := strings.TrimPrefix(o.Name, "W")
	arg := func(i int) string {
		if i < len(l.args) {
			return unq(l.args[i])
		}
		return ""
	}
	switch l.verb {
	case "module":
		return name == "AddModuleStmt"
	case "go":
		return name == "AddGoStmt" || name == "DropGoStmt"
	case "toolchain":
		return name == "AddToolchainStmt" || name == "DropToolchainStmt"
	case "godebug":
		key, _, _ := strings.Cut(arg(0), "=")
		return (name == "AddGodebug" || name == "DropGodebug") && a(0) == key
	case "require":
		return name == "SetRequire" || name == "SetRequireSeparateIndirect" ||
			((name == "AddRequire" || name == "DropRequire") && a(0) == arg(0))
	case "exclude":
		return (name == "AddExclude" || name == "DropExclude") && a(0) == arg(0) && a(1) == arg(1)
	case "replace":
		ov := ""
		if len(l.args) >= 2 && l.args[1] != "=>" {
			ov = arg(1)
		}
		return (name == "AddReplace" && a(0) == arg(0) && (a(1) == "" || a(1) == ov)) ||
			(name == "DropReplace" && a(0) == arg(0) && a(1) == ov)
	case "retract":
		lo, hi := arg(0), arg(0)
		if len(l.args) == 5 {
			lo, hi = arg(1), arg(3)
		}
		return name == "DropRetract" && a(0) == lo && a(1) == hi
	case "tool":
		return (name == "DropTool" || name == "AddTool") && a(0) == arg(0)
	case "use":
		return name == "SetUse" || ((name == "AddUse" || name == "DropUse") && a(0) == arg(0))
	}
	return false
}

// dupKey is the de-duplication key of a line, "" if its kind is never de-duplicated.
func dupKey(l dline, work bool) string {
	switch l.verb {
	case "exclude", "tool":
		if work {
			return ""
		}
		return l.verb + " " + strings.Join(l.args, " ")
	case "replace":
		for i, t := range l.args {
			if t == "=>" {
				return "replace " + strings.Join(l.args[:i], " ")
			}
		}
	}
	return ""
}

func containsRun(hay, needle []string) bool {
	if len(needle) == 0 {
		return true
	}
	for i := 0; i+len(needle) <= len(hay); i++ {
		ok := true
		for j := range needle {
			if hay[i+j] != needle[j] {
				ok = false
				break
			}
		}
		if ok {
			return true
		}
	}
	return false
}

func containsSub(hay, needle []string) bool {
	i := 0
	for _, h := range hay {
		if i < len(needle) && h == needle[i] {
			i++
		}
	}
	return i == len(needle)
}

// c08Comments: every untargeted, non-duplicate directive line of the starting file is
// present in the formatted result with the same tokens and its own comments.
func c08Comments(c editCase) string {
	st0, err := editParse(c.Work, c.start())
	if err != nil {
		return ""
	}
	start := dlinesOf(st0.syntax())
	run, _ := editExec(c)
	if run.panicAt >= 0 {
		return ""
	}
	out := modfile.Format(run.st.syntax())
	if _, err := editParse(c.Work, out); err != nil {
		return "" // reported by the keyed oracle
	}
	// Attachment is read off the edited tree (a re-parse would detach a leading comment
	// that a blank line separates from the rest once a block has been collapsed to a
	// top-level line); presence of every comment text is checked in the bytes.
	final := dlinesOf(run.st.syntax())
	used := make([]bool, len(final))
	dupCount := map[string]int{}
	for _, l := range start {
		if k := dupKey(l, c.Work); k != "" {
			dupCount[k]++
		}
	}
	// lines with comments first (their tags are unique), then comment-less lines by count
	order := make([]int, 0, len(start))
	for i, l := range start {
		if len(l.before)+len(l.suffix) > 0 {
			order = append(order, i)
		}
	}
	for i, l := range start {
		if len(l.before)+len(l.suffix) == 0 {
			order = append(order, i)
		}
	}
	for _, i := range order {
		l := start[i]
		skip := false
		for _, o := range c.Ops {
			if targeted(o, l) {
				skip = true
			}
		}
		if k := dupKey(l, c.Work); k != "" && dupCount[k] > 1 {
			skip = true
		}
		if skip {
			continue
		}
		found := false
		for j, m := range final {
			if used[j] || m.verb != l.verb || strings.Join(m.args, "\x00") != strings.Join(l.args, "\x00") {
				continue
			}
			if containsRun(m.before, l.before) && containsSub(m.suffix, l.suffix) {
				used[j] = true
				found = true
				break
			}
		}
		for _, t := range append(append([]string{}, l.before...), l.suffix...) {
			if found && !strings.Contains(string(out), t) {
				return fmt.Sprintf("comment %q of untargeted line %q %q is not in the formatted result\noutput:\n%s", t, l.verb, l.args, out)
			}
		}
		if !found {
			return fmt.Sprintf("line %q %q (before %q, suffix %q) was not targeted by any operation but is not in the result with its comments\noutput:\n%s",
				l.verb, l.args, l.before, l.suffix, out)
		}
	}
	return ""
}

func runC08(c *hx.Ctx) {
	for i := 0; i < c.N(4500); i++ {
		ec := editDraw(c, i%5 == 0)
		run := editRecord(c, ec, "syntax")
		if run == nil {
			continue
		}
		if i < 3 {
			c.Sample(ec.String())
		}
		if st, err := editParse(ec.Work, ec.start()); err == nil {
			editShapeCounts(c, st)
		}
		garbage, unclean := seqFlags(ec.Ops)
		if garbage || unclean {
			c.Count("seq:correspondence-only")
			continue
		}
		c.Nontrivial(ec.Start + fmt.Sprint(ec.Ops))
		k := ec
		k.Probe = "keyed"
		msg := c08Keyed(ec)
		c.Check("keyed-model-predicts-errors-and-reparse", msg == "", "", k, msg)
		k.Probe = "comments"
		msg = c08Comments(ec)
		c.Check("untargeted-lines-keep-comments", msg == "", "", k, msg)
	}
}

func replayC08(raw json.RawMessage) (bool, string) {
	var ec editCase
	if err := json.Unmarshal(raw, &ec); err != nil {
		return false, err.Error()
	}
	var msg string
	switch ec.Probe {
	case "comments":
		msg = c08Comments(ec)
	case "map-order":
		msg = editMapOrder(ec)
	default:
		msg = c08Keyed(ec)
	}
	return msg == "", ec.String() + "\n" + msg
}
