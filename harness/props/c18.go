package props

import (
	"encoding/hex"
	"encoding/json"
	"fmt"
	"math/big"
	"math/rand"
	"regexp"
	"strings"
	"time"

	"golang.org/x/mod/module"
	"golang.org/x/mod/semver"

	"verif/harness/gen"
	"verif/harness/hx"
	"verif/harness/wire"
)

func init() { hx.Register(&hx.Prop{ID: "C18", Run: runC18, Replay: replayC18}) }

const c18Layout = "20060102150405"

var (
	c18MajorRE = regexp.MustCompile(`^v(?:0|[1-9][0-9]*)$`)
	c18RevRE   = regexp.MustCompile(`^[A-Za-z0-9]+$`)
)

// c18Time is a replayable time: instant plus zone offset.
type c18Time struct {
	Unix   int64 `json:"unix"`
	Nanos  int64 `json:"nanos"`
	Offset int   `json:"zone_offset_s"`
}

func (t c18Time) time() time.Time {
	return time.Unix(t.Unix, t.Nanos).In(time.FixedZone("", t.Offset))
}

func c18TimeOf(t time.Time) c18Time {
	_, off := t.Zone()
	return c18Time{Unix: t.Unix(), Nanos: int64(t.Nanosecond()), Offset: off}
}

type c18In struct {
	Op    string  `json:"op"`
	Major string  `json:"major_hex"`
	Older string  `json:"older_hex"`
	Rev   string  `json:"rev_hex"`
	Rev2  string  `json:"rev2_hex,omitempty"`
	T     c18Time `json:"t"`
	T2    c18Time `json:"t2,omitempty"`
	V     string  `json:"v_hex,omitempty"`
}

func hx1(s string) string { return hex.EncodeToString([]byte(s)) }
func unhx1(h string) string {
	b, _ := hex.DecodeString(h)
	return string(b)
}

// inDomain: the hypotheses of the property (DESIGN.md C18).
func c18InDomain(major, older string, t time.Time, rev string) bool {
	if major != "" && !c18MajorRE.MatchString(major) {
		return false
	}
	if older != "" && !specParse(older).ok {
		return false
	}
	if !c18RevRE.MatchString(rev) {
		return false
	}
	y := t.UTC().Year()
	return 1 <= y && y <= 9999
}

func c18PV(major, older string, t time.Time, rev string) (pv string, panicked bool) {
	p, _ := hx.Guard(func() { pv = module.PseudoVersion(major, older, t, rev) })
	return pv, p
}

// c18Build evaluates validity, round trip and the ordering clauses for one pseudo-version.
func c18Build(major, older string, t time.Time, rev string) string {
	pv, p := c18PV(major, older, t, rev)
	if p {
		return fmt.Sprintf("PseudoVersion(%q,%q,%v,%q) panicked", major, older, t, rev)
	}
	if !semver.IsValid(pv) {
		return fmt.Sprintf("PseudoVersion(%q,%q,%v,%q)=%q is not a valid version", major, older, t, rev, pv)
	}
	if !module.IsPseudoVersion(pv) {
		return fmt.Sprintf("IsPseudoVersion(%q)=false (from %q,%q,%v,%q)", pv, major, older, t, rev)
	}
	sp := specParse(older)
	wantBase := ""
	if sp.ok {
		wantBase = sp.canonical() + sp.build
	}
	var base, gotRev string
	var gotT time.Time
	var e1, e2, e3 error
	if pn, msg := hx.Guard(func() {
		base, e1 = module.PseudoVersionBase(pv)
		gotRev, e2 = module.PseudoVersionRev(pv)
		gotT, e3 = module.PseudoVersionTime(pv)
	}); pn {
		return fmt.Sprintf("accessor panicked on %q: %s", pv, msg)
	}
	if e1 != nil || base != wantBase {
		return fmt.Sprintf("PseudoVersionBase(%q)=%q,%v want %q", pv, base, e1, wantBase)
	}
	if e2 != nil || gotRev != rev {
		return fmt.Sprintf("PseudoVersionRev(%q)=%q,%v want %q", pv, gotRev, e2, rev)
	}
	if wantT := t.UTC().Truncate(time.Second); e3 != nil || !gotT.Equal(wantT) {
		return fmt.Sprintf("PseudoVersionTime(%q)=%v,%v want %v", pv, gotT, e3, wantT)
	}
	// ordering
	if !sp.ok {
		m := major
		if m == "" {
			m = "v0"
		}
		if c := semver.Compare(pv, m+".0.0"); c != -1 {
			return fmt.Sprintf("no base: Compare(%q,%q)=%d want -1", pv, m+".0.0", c)
		}
		return ""
	}
	if c := semver.Compare(older, pv); c != -1 {
		return fmt.Sprintf("Compare(older=%q, pv=%q)=%d want -1", older, pv, c)
	}
	next := "v" + sp.major + "." + sp.minor + "." + sp.patch
	if sp.pre == "" {
		n := new(big.Int).Add(bigOf(sp.patch), big.NewInt(1))
		next = "v" + sp.major + "." + sp.minor + "." + n.String()
	}
	if c := semver.Compare(pv, next); c != -1 {
		return fmt.Sprintf("Compare(pv=%q, next release %q)=%d want -1", pv, next, c)
	}
	return ""
}

func c18Mono(major, older string, t1 time.Time, rev1 string, t2 time.Time, rev2 string) string {
	a, pa := c18PV(major, older, t1, rev1)
	b, pb := c18PV(major, older, t2, rev2)
	if pa || pb {
		return "PseudoVersion panicked"
	}
	if c := semver.Compare(a, b); c != -1 {
		return fmt.Sprintf("time %v < %v but Compare(%q,%q)=%d", t1.UTC(), t2.UTC(), a, b, c)
	}
	return ""
}

// c18Decode: on an arbitrary string the accessors agree with IsPseudoVersion, never panic,
// and a string they fully decode is rebuilt by PseudoVersion from the decoded parts.
func c18Decode(v string) string {
	var is bool
	var base, rev string
	var tm time.Time
	var e1, e2, e3 error
	if pn, msg := hx.Guard(func() {
		is = module.IsPseudoVersion(v)
		base, e1 = module.PseudoVersionBase(v)
		rev, e2 = module.PseudoVersionRev(v)
		tm, e3 = module.PseudoVersionTime(v)
	}); pn {
		return fmt.Sprintf("panic on %q: %s", v, msg)
	}
	if !is {
		if e1 == nil || e2 == nil || e3 == nil {
			return fmt.Sprintf("IsPseudoVersion(%q)=false but an accessor succeeded (%v,%v,%v)", v, e1, e2, e3)
		}
		return ""
	}
	if !semver.IsValid(v) {
		return fmt.Sprintf("IsPseudoVersion(%q) but not a valid version", v)
	}
	if e2 != nil || !c18RevRE.MatchString(rev) {
		return fmt.Sprintf("PseudoVersionRev(%q)=%q,%v", v, rev, e2)
	}
	if e1 != nil || e3 != nil {
		return ""
	}
	if base != "" && !semver.IsValid(base) {
		return fmt.Sprintf("PseudoVersionBase(%q)=%q is not a valid version", v, base)
	}
	back, pn := c18PV(semver.Major(v), base, tm, rev)
	if pn || back != v {
		return fmt.Sprintf("decoded (%q,%v,%q) from %q but PseudoVersion rebuilds %q", base, tm, rev, v, back)
	}
	return ""
}

var c18SegRE = regexp.MustCompile(`^([0-9]{14})-([A-Za-z0-9]+)$`)

// c18Spec is an independent reading of the documented pseudo-version forms (pseudo.go's
// package comment) on top of the SemVer grammar of c04.go: a valid version whose
// prerelease is "yyyymmddhhmmss-rev" with minor = patch = 0 (form 1), or ends in the
// identifiers "0", "yyyymmddhhmmss-rev" (forms 2-5).  It returns the parts the accessors
// must produce; baseErr is set where PseudoVersionBase has to refuse (build metadata
// without a base; patch number 0 in forms 2, 3).
func c18Spec(v string) (is bool, base string, baseErr bool, ts, rev string) {
	sp := specParse(v)
	if !sp.ok || sp.pre == "" || sp.short != 0 {
		return
	}
	ids := strings.Split(sp.pre[1:], ".")
	n := len(ids)
	m := c18SegRE.FindStringSubmatch(ids[n-1])
	if m == nil {
		return
	}
	ts, rev = m[1], m[2]
	switch {
	case n == 1:
		if sp.minor != "0" || sp.patch != "0" {
			return false, "", false, "", ""
		}
		return true, "", sp.build != "", ts, rev
	case ids[n-2] != "0":
		return false, "", false, "", ""
	case n == 2:
		if sp.patch == "0" {
			return true, "", true, ts, rev
		}
		p := new(big.Int).Sub(bigOf(sp.patch), big.NewInt(1))
		return true, "v" + sp.major + "." + sp.minor + "." + p.String() + sp.build, false, ts, rev
	default:
		return true, "v" + sp.major + "." + sp.minor + "." + sp.patch + "-" + strings.Join(ids[:n-2], ".") + sp.build, false, ts, rev
	}
}

// c18AccessorsSpec compares the four accessors on an arbitrary string with c18Spec.
func c18AccessorsSpec(v string) string {
	var is bool
	var base, rev string
	var tm time.Time
	var e1, e2, e3 error
	if pn, msg := hx.Guard(func() {
		is = module.IsPseudoVersion(v)
		base, e1 = module.PseudoVersionBase(v)
		rev, e2 = module.PseudoVersionRev(v)
		tm, e3 = module.PseudoVersionTime(v)
	}); pn {
		return fmt.Sprintf("panic on %q: %s", v, msg)
	}
	wIs, wBase, wBaseErr, wTs, wRev := c18Spec(v)
	if is != wIs {
		return fmt.Sprintf("IsPseudoVersion(%q)=%v, the documented forms say %v", v, is, wIs)
	}
	if !wIs {
		if e1 == nil || e2 == nil || e3 == nil {
			return fmt.Sprintf("%q is not a pseudo-version but an accessor succeeded (%v,%v,%v)", v, e1, e2, e3)
		}
		return ""
	}
	if (e1 != nil) != wBaseErr || (e1 == nil && base != wBase) {
		return fmt.Sprintf("PseudoVersionBase(%q)=%q,%v want %q (error %v)", v, base, e1, wBase, wBaseErr)
	}
	if e2 != nil || rev != wRev {
		return fmt.Sprintf("PseudoVersionRev(%q)=%q,%v want %q", v, rev, e2, wRev)
	}
	wT, perr := time.Parse(c18Layout, wTs)
	if (e3 != nil) != (perr != nil) || (e3 == nil && !tm.Equal(wT)) {
		return fmt.Sprintf("PseudoVersionTime(%q)=%v,%v want %v,%v", v, tm, e3, wT, perr)
	}
	return ""
}

const c18RevChars = "0123456789abcdefABCDEFghzGHZ"

func c18Rev(r *rand.Rand) string {
	switch r.Intn(12) {
	case 0:
		return gen.Mutate(r, "abcdef123456", "-+._ A!")
	case 1:
		return pick18(r, "0", "000000000000", "a", "Z", "20200101000000", "0123456789ab")
	case 2, 3, 4, 5:
		b := make([]byte, 12)
		for i := range b {
			b[i] = "0123456789abcdef"[r.Intn(16)]
		}
		return string(b)
	}
	n := 1 + r.Intn(40)
	b := make([]byte, n)
	for i := range b {
		b[i] = c18RevChars[r.Intn(len(c18RevChars))]
	}
	return string(b)
}

func pick18(r *rand.Rand, ss ...string) string { return ss[r.Intn(len(ss))] }

func c18Nines(r *rand.Rand) string {
	return strings.Repeat("9", 1+r.Intn(30))
}

func c18Major(r *rand.Rand) string {
	switch r.Intn(10) {
	case 0:
		return ""
	case 1:
		return "v" + gen.Numeral(r, true)
	case 2:
		return pick18(r, "v", "v01", "V1", "1", "v1.2")
	default:
		return pick18(r, "v0", "v1", "v2", "v3", "v10")
	}
}

// c18Older: bases per DESIGN.md.
func c18Older(r *rand.Rand) string {
	switch r.Intn(16) {
	case 0:
		return ""
	case 1: // prerelease that itself looks like a pseudo-version
		return module.PseudoVersion(pick18(r, "v0", "v1", "v2"), pick18(r, "", "v1.2.3", "v1.2.3-pre", "v2.0.0+incompatible"), c18Instant(r), c18Rev(r))
	case 2:
		return pick18(r, "v1.2.3-0", "v1.2.3-0.0", "v0.0.0-0", "v1.0.0-0.0.0", "v1.2.3-00a", "v1.2.3-0-0")
	case 3: // trailing hyphens
		return pick18(r, "v1.2.3-", "v1.2.3--", "v1.2.3-pre-", "v1.2.3-pre.-", "v1.2.3-a-.b-", "v1.2.3---.0")
	case 4: // short forms
		return pick18(r, "v0", "v1", "v2", "v1.2", "v0.0", "v10.20", "v1.0")
	case 5:
		return gen.Version(r) + "+incompatible"
	case 6: // patch 9...9
		v := "v" + gen.Numeral(r, false) + "." + gen.Numeral(r, false) + "." + c18Nines(r)
		if r.Intn(3) == 0 {
			v += "+incompatible"
		}
		if r.Intn(4) == 0 {
			v = "v" + c18Nines(r) + "." + c18Nines(r) + "." + c18Nines(r)
		}
		return v
	case 7:
		return pick18(r, "v0.0.0", "v1.0.0", "v1.2.0", "v1.2.9", "v1.2.10", "v1.2.19", "v1.9.9", "v1.2.3+meta", "v1.2.3+a.b-c.01", "v1.2.3-pre+incompatible", "v1.2.3-rc.1+build.5")
	case 8:
		return gen.Mutate(r, gen.Version(r), "v.0-+aA91")
	default:
		return gen.Version(r)
	}
}

// c18Instant: times across years 0001-9999 in zones -14h..+14h, biased to the ends of the
// range and to field boundaries.
func c18Instant(r *rand.Rand) time.Time {
	off := (r.Intn(28*60+1) - 14*60) * 60
	switch r.Intn(6) {
	case 0:
		off = 0
	case 1:
		off = pick18i(r, -14*3600, 14*3600, -12*3600, 5*3600+1800, 3600)
	}
	zone := time.FixedZone("", off)
	var y int
	switch r.Intn(8) {
	case 0:
		y = pick18i(r, 1, 9999, 2, 9998)
	case 1:
		y = pick18i(r, 1970, 2000, 2038, 1900, 2100, 1600, 4, 100, 400, 999, 1000)
	case 2, 3, 4:
		y = 2010 + r.Intn(30)
	default:
		y = 1 + r.Intn(9999)
	}
	mo, d, h, mi, s := 1+r.Intn(12), 1+r.Intn(31), r.Intn(24), r.Intn(60), r.Intn(60)
	switch r.Intn(6) {
	case 0:
		mo, d, h, mi, s = 1, 1, 0, 0, 0
	case 1:
		mo, d, h, mi, s = 12, 31, 23, 59, 59
	case 2:
		mo, d = 2, 28+r.Intn(2)
	}
	ns := 0
	if r.Intn(2) == 0 {
		ns = r.Intn(1000000000)
	}
	return time.Date(y, time.Month(mo), d, h, mi, s, ns, zone)
}

func pick18i(r *rand.Rand, xs ...int) int { return xs[r.Intn(len(xs))] }

func c18Later(r *rand.Rand, t time.Time) time.Time {
	var d time.Duration
	switch r.Intn(8) {
	case 0:
		d = time.Second
	case 1:
		d = time.Duration(1+r.Intn(59)) * time.Second
	case 2:
		d = time.Duration(1+r.Intn(3600)) * time.Second
	case 3:
		d = time.Duration(1+r.Intn(86400*400)) * time.Second
	case 4: // up to the next second boundary plus a little
		d = time.Duration(1000000000-t.Nanosecond()) + time.Duration(r.Intn(1000))
	default:
		d = time.Duration(1+r.Int63n(int64(9e18/1e9))) * time.Second / time.Duration(1+r.Intn(1000))
	}
	if d < time.Second {
		d = time.Second
	}
	off := (r.Intn(28*60+1) - 14*60) * 60
	return t.Add(d).In(time.FixedZone("", off))
}

func c18Res(s string, err error, cls string) wire.Val {
	if err != nil {
		return wire.Err(cls)
	}
	return wire.Ok(wire.S(s))
}

// c18Accessors records the correspondence cases of the four accessors on v.
func c18Accessors(c *hx.Ctx, v string) {
	var is, zero bool
	var base, rev string
	var tm time.Time
	var e1, e2, e3 error
	var p [5]bool
	p[0], _ = hx.Guard(func() { is = module.IsPseudoVersion(v) })
	p[1], _ = hx.Guard(func() { base, e1 = module.PseudoVersionBase(v) })
	p[2], _ = hx.Guard(func() { rev, e2 = module.PseudoVersionRev(v) })
	p[3], _ = hx.Guard(func() { tm, e3 = module.PseudoVersionTime(v) })
	p[4], _ = hx.Guard(func() { zero = module.IsZeroPseudoVersion(v) })
	cls := func(other string) string {
		if !is {
			return "syntax"
		}
		return other
	}
	enc := func(pn bool, val wire.Val) wire.Val {
		if pn {
			return wire.Panic()
		}
		return val
	}
	c.Case("IsPseudoVersion", wire.S(v), enc(p[0], wire.Bool(is)))
	c.Case("PseudoVersionBase", wire.S(v), enc(p[1], c18Res(base, e1, cls("base"))))
	c.Case("PseudoVersionRev", wire.S(v), enc(p[2], c18Res(rev, e2, cls("rev"))))
	ts := ""
	if e3 == nil {
		ts = tm.UTC().Format(c18Layout)
	}
	c.Case("PseudoVersionTime", wire.S(v), enc(p[3], c18Res(ts, e3, cls("time"))))
	c.Case("IsZeroPseudoVersion", wire.S(v), enc(p[4], wire.Bool(zero)))
	switch {
	case !is:
		c.Count("acc:not-pseudo")
	case e1 != nil:
		c.Count("acc:pseudo,base-error")
	case e3 != nil:
		c.Count("acc:pseudo,time-error")
	case base == "":
		c.Count("acc:pseudo,no-base")
	case semver.Prerelease(base) != "":
		c.Count("acc:pseudo,prerelease-base")
	default:
		c.Count("acc:pseudo,release-base")
	}
	if semver.Build(v) != "" && is {
		c.Count("acc:pseudo,with-build")
	}
}

// c18Mutant derives a near-miss from a pseudo-version.
func c18Mutant(r *rand.Rand, pv string) string {
	switch r.Intn(16) {
	case 0, 1:
		return gen.Mutate(r, pv, "v.0-+aA91")
	case 2, 3, 13: // wrong number of timestamp digits / bad calendar fields
		re := regexp.MustCompile(`[0-9]{14}-`)
		loc := re.FindStringIndex(pv)
		if loc == nil {
			return pv
		}
		ts := pv[loc[0] : loc[1]-1]
		var nt string
		switch r.Intn(9) {
		case 0:
			nt = ts[:13]
		case 1:
			nt = ts + "0"
		case 2:
			nt = ts[:4] + pick18(r, "00", "13", "19") + ts[6:]
		case 3:
			nt = ts[:4] + pick18(r, "0230", "0229", "0431", "0100", "0132", "1131", "0631", "0931") + ts[8:]
		case 4:
			nt = ts[:8] + pick18(r, "24", "29") + ts[10:]
		case 5:
			nt = ts[:10] + pick18(r, "60", "99") + ts[12:]
		case 6:
			nt = ts[:12] + pick18(r, "60", "61", "99")
		case 7:
			nt = pick18(r, "0000", "0004", "0100", "0400", "1900", "2000", "2100", "2024", "2023") + "0229" + ts[8:]
		default:
			nt = "0000" + ts[4:]
		}
		return pv[:loc[0]] + nt + pv[loc[1]-1:]
	case 4:
		return pv + pick18(r, "+incompatible", "+", "+a..b", "+a.b", "+é", "+a+b", "+01")
	case 5:
		if i := strings.IndexByte(pv, '+'); i >= 0 {
			return pv[:i]
		}
		return pv + "+incompatible"
	case 6, 14: // negative patch / odd bases
		return pick18(r, "v1.0.0-0.", "v0.0.0-0.", "v2.5.0-0.", "v1.2.10-0.", "v1.2.100-0.", "v1.2.1-0.", "v1.2.01-0.", "v1.2.3-0.0.", "v1.2.3-.0.", "v1.2.3-a..0.", "v1.2.3-00.0.", "v1.2.3-0a.0.", "v1.2.3-a.b.0.", "v1.1.0-", "v1.0.1-", "v1.0.0-0", "v1.0-", "v1-") +
			"20200102030405-" + c18Rev(r) + pick18(r, "", "", "+incompatible", "+x.y")
	case 7:
		return strings.Replace(pv, "-", pick18(r, "", "--", ".", "+"), 1)
	case 8:
		if i := strings.LastIndexByte(pv, '-'); i >= 0 {
			return pv[:i] + pick18(r, "", "-", "-a-b", "-a.b", "-ÿ", "-a_b") + pv[i:]
		}
		return pv
	case 9:
		return strings.ToUpper(pv[:1]) + pv[1:]
	case 10:
		return pv + pick18(r, "\n", " ", ".", "-", ".0")
	case 11:
		return pick18(r, "v1", "v01", "vv1", "1", "") + strings.TrimLeft(pv, "v0123456789")
	case 12:
		return pick18(r, "v0", "v1", "v2", "v17", "v", "v01") + ".0.0-00010101000000-000000000000" + pick18(r, "", "", "", "0", "+incompatible")
	default:
		return pv
	}
}

func runC18(c *hx.Ctx) {
	r := c.Rng
	// 1. construction, round trip, ordering
	for i := 0; i < c.N(9000); i++ {
		major, older, t, rev := c18Major(r), c18Older(r), c18Instant(r), c18Rev(r)
		if r.Intn(3) > 0 && older != "" && semver.IsValid(older) {
			major = semver.Major(older)
		}
		pv, pn := c18PV(major, older, t, rev)
		ts := t.UTC().Format(c18Layout)
		arg := wire.L(wire.S(major), wire.S(older), wire.S(ts), wire.S(rev))
		if pn {
			c.Case("PseudoVersion", arg, wire.Panic())
			c.Check("no-panic", false, "", c18In{Op: "build", Major: hx1(major), Older: hx1(older), Rev: hx1(rev), T: c18TimeOf(t)}, "PseudoVersion panicked")
			continue
		}
		c.Case("PseudoVersion", arg, wire.Ok(wire.S(pv)))
		c18Accessors(c, pv)
		if m := c18AccessorsSpec(pv); true {
			c.Check("accessors-vs-documented-forms", m == "", "", c18In{Op: "spec", V: hx1(pv)}, m)
		}
		sp := specParse(older)
		switch {
		case older == "":
			c.Count("older:none")
		case !sp.ok:
			c.Count("older:invalid")
		case sp.pre != "":
			c.Count("older:prerelease")
		case sp.short > 0:
			c.Count("older:short-release")
		default:
			c.Count("older:release")
		}
		if sp.ok && sp.build != "" {
			c.Count("older:with-build")
		}
		if sp.ok && sp.pre == "" && strings.Trim(sp.patch, "9") == "" {
			c.Count("older:patch-all-nines")
		}
		if !c18InDomain(major, older, t, rev) {
			c.Count("build:outside-domain")
			continue
		}
		c.Count("build:in-domain")
		c.Nontrivial(pv)
		if i%400 == 0 {
			c.Sample(fmt.Sprintf("PseudoVersion(%q,%q,%s,%q)=%q", major, older, t.Format(time.RFC3339Nano), rev, pv))
		}
		in := c18In{Op: "build", Major: hx1(major), Older: hx1(older), Rev: hx1(rev), T: c18TimeOf(t)}
		msg := c18Build(major, older, t, rev)
		c.Check("valid+roundtrip+between", msg == "", "", in, msg)
		// time monotonicity against a later time, arbitrary revisions
		t2, rev2 := c18Later(r, t), c18Rev(r)
		if !c18InDomain(major, older, t2, rev2) {
			continue
		}
		in2 := in
		in2.Op, in2.T2, in2.Rev2 = "mono", c18TimeOf(t2), hx1(rev2)
		msg = c18Mono(major, older, t, rev, t2, rev2)
		c.Check("time-monotone", msg == "", "", in2, msg)
	}
	// 2. accessors on near-misses and on arbitrary versions
	for i := 0; i < c.N(7000); i++ {
		var v string
		switch k := r.Intn(10); {
		case k < 6:
			pv, pn := c18PV(pick18(r, "v0", "v1", "v2", "v17"), c18Older(r), c18Instant(r), c18Rev(r))
			if pn {
				continue
			}
			v = c18Mutant(r, pv)
		case k < 9:
			v = c18Older(r)
		default:
			v = gen.RawBytes(r, 40)
		}
		c18Accessors(c, v)
		msg := c18Decode(v)
		c.Check("decode-consistent", msg == "", "", c18In{Op: "decode", V: hx1(v)}, msg)
		msg = c18AccessorsSpec(v)
		c.Check("accessors-vs-documented-forms", msg == "", "", c18In{Op: "spec", V: hx1(v)}, msg)
	}
}

func replayC18(raw json.RawMessage) (bool, string) {
	var in c18In
	if err := json.Unmarshal(raw, &in); err != nil {
		return false, err.Error()
	}
	major, older, rev, rev2 := unhx1(in.Major), unhx1(in.Older), unhx1(in.Rev), unhx1(in.Rev2)
	var msg string
	switch in.Op {
	case "build":
		msg = c18Build(major, older, in.T.time(), rev)
	case "mono":
		msg = c18Mono(major, older, in.T.time(), rev, in.T2.time(), rev2)
	case "decode":
		msg = c18Decode(unhx1(in.V))
	case "spec":
		msg = c18AccessorsSpec(unhx1(in.V))
	default:
		return false, "unknown op"
	}
	return msg == "", msg
}
