package props

import (
	"encoding/hex"
	"encoding/json"
	"fmt"
	"strings"
	"unicode/utf8"

	"golang.org/x/mod/modfile"
	"golang.org/x/mod/semver"

	"verif/harness/gen"
	"verif/harness/hx"
	"verif/harness/wire"
)

func init() { hx.Register(&hx.Prop{ID: "C02", Run: runC02, Replay: replayC02}) }

// MfEvents is the event stream of a syntax tree: the statements in order, each with its
// tokens, interleaved with the comment texts (after TrimSpace, which is what the printer
// emits) in the order the printer visits them.  It does not record which node a comment
// hangs on.
func MfEvents(fs *modfile.FileSyntax) []string {
	var ev []string
	coms := func(cs []modfile.Comment) {
		for _, c := range cs {
			ev = append(ev, "comment "+strings.TrimSpace(c.Token))
		}
	}
	line := func(l *modfile.Line) {
		coms(l.Before)
		ev = append(ev, "line "+strings.Join(l.Token, "\x00"))
		coms(l.Suffix)
	}
	coms(fs.Before)
	for _, s := range fs.Stmt {
		switch x := s.(type) {
		case *modfile.Line:
			line(x)
		case *modfile.LineBlock:
			coms(x.Before)
			ev = append(ev, "block "+strings.Join(x.Token, "\x00"))
			coms(x.LParen.Before)
			ev = append(ev, "(")
			coms(x.LParen.Suffix)
			for _, l := range x.Line {
				line(l)
			}
			coms(x.RParen.Before)
			ev = append(ev, ")")
			coms(x.RParen.Suffix)
			coms(x.Suffix)
		case *modfile.CommentBlock:
			coms(x.Before)
			ev = append(ev, "comment-block")
			coms(x.Suffix)
		}
		coms(s.Comment().After)
	}
	return ev
}

func c02FirstDiff(a, b []string) string {
	for i := 0; i < len(a) || i < len(b); i++ {
		var x, y string
		if i < len(a) {
			x = a[i]
		} else {
			x = "<end>"
		}
		if i < len(b) {
			y = b[i]
		} else {
			y = "<end>"
		}
		if x != y {
			return fmt.Sprintf("event %d: before %q, after %q", i, x, y)
		}
	}
	return ""
}

// c02RoundTrip: for an input the syntax layer accepts, the formatted output parses again
// to the same event stream, and formatting that output again changes nothing.
func c02RoundTrip(data string) (reparse, idem string, out string, accepted bool) {
	var fs *modfile.FileSyntax
	var err error
	var b []byte
	hung, panicked, msg := MfWatchdog(func() {
		fs, err = modfile.VerifParse("go.mod", []byte(data))
		if err == nil {
			b = modfile.Format(fs)
		}
	})
	if hung || panicked {
		return "VerifParse/Format: " + msg, "", "", true
	}
	if err != nil {
		return "", "", "", false
	}
	out = string(b)
	var fs2 *modfile.FileSyntax
	var b2 []byte
	hung, panicked, msg = MfWatchdog(func() {
		fs2, err = modfile.VerifParse("go.mod", b)
		if err == nil {
			b2 = modfile.Format(fs2)
		}
	})
	if hung || panicked {
		return "VerifParse/Format of the formatted output: " + msg, "", out, true
	}
	if err != nil {
		return fmt.Sprintf("formatted output does not parse: %v; output %q", err, out), "", out, true
	}
	if d := c02FirstDiff(MfEvents(fs), MfEvents(fs2)); d != "" {
		reparse = fmt.Sprintf("formatted output parses to a different event stream: %s; output %q", d, out)
	}
	if string(b2) != out {
		idem = fmt.Sprintf("formatting is not idempotent: first %q, second %q", out, b2)
	}
	return reparse, idem, out, true
}

var c02Lone = map[string]bool{"(": true, ")": true, "[": true, "]": true, "{": true, "}": true, ",": true}

func c02PathOK(p string) bool { return p != "" && !c02Lone[p] }

// well-formedness precondition of the directive-preservation property: paths non-empty
// and not a lone bracket/comma, versions valid
func c02WellFormed(f *modfile.File) bool {
	if f.Module != nil && !c02PathOK(f.Module.Mod.Path) {
		return false
	}
	for _, r := range f.Require {
		if !c02PathOK(r.Mod.Path) || !semver.IsValid(r.Mod.Version) {
			return false
		}
	}
	for _, r := range f.Exclude {
		if !c02PathOK(r.Mod.Path) || !semver.IsValid(r.Mod.Version) {
			return false
		}
	}
	for _, r := range f.Replace {
		if !c02ReplaceOK(r) {
			return false
		}
	}
	for _, r := range f.Retract {
		if !semver.IsValid(r.Low) || !semver.IsValid(r.High) {
			return false
		}
	}
	for _, t := range f.Tool {
		if !c02PathOK(t.Path) {
			return false
		}
	}
	return true
}

func c02ReplaceOK(r *modfile.Replace) bool {
	if !c02PathOK(r.Old.Path) || !c02PathOK(r.New.Path) {
		return false
	}
	if r.Old.Version != "" && !semver.IsValid(r.Old.Version) {
		return false
	}
	if r.New.Version != "" && !semver.IsValid(r.New.Version) {
		return false
	}
	return true
}

func c02WorkWellFormed(f *modfile.WorkFile) bool {
	for _, u := range f.Use {
		if !c02PathOK(u.Path) {
			return false
		}
	}
	for _, r := range f.Replace {
		if !c02ReplaceOK(r) {
			return false
		}
	}
	return true
}

// c02Directives: a well-formed file accepted by the strict parser has the same directive
// values after formatting.  kind is "Parse" or "ParseWork".
func c02Directives(kind, data string, mode int) (msg string, applicable bool) {
	_, f, w, err, bad := mfParse(kind, data, mode)
	if bad != "" {
		return bad, true
	}
	if err != nil {
		return "", false
	}
	var out []byte
	var before string
	if w != nil {
		if !c02WorkWellFormed(w) {
			return "", false
		}
		before = MfWorkValues(w)
		out = modfile.Format(w.Syntax)
	} else {
		if !c02WellFormed(f) {
			return "", false
		}
		before = MfValues(f)
		out, _ = f.Format()
	}
	_, f2, w2, err2, bad2 := mfParse(kind, string(out), mode)
	if bad2 != "" {
		return bad2, true
	}
	if err2 != nil {
		return fmt.Sprintf("formatted output is rejected: %v; output %q", err2, out), true
	}
	var after string
	if w2 != nil {
		after = MfWorkValues(w2)
	} else {
		after = MfValues(f2)
	}
	if before != after {
		return fmt.Sprintf("directive values differ after formatting: before %q after %q; output %q", before, after, out), true
	}
	return "", true
}

type c02In struct {
	Op   string `json:"op"`
	Data string `json:"data_hex"`
	Mode int    `json:"fix_mode"`
}

// inputs biased to what the syntax layer accepts
func c02Input(c *hx.Ctx) (string, string) {
	r := c.Rng
	switch k := r.Intn(100); {
	case k < 30:
		return gen.GoMod(r), "gomod"
	case k < 42:
		return gen.GoWork(r), "gowork"
	case k < 70:
		return gen.TestdataMutant(r), "testdata-mutant"
	case k < 95:
		return gen.TokenSoup(r), "soup"
	default:
		return gen.Mutate(r, gen.GoMod(r), "()[]{},\"`/ \t\r\n\\"), "gomod-mutant"
	}
}

// the rewritten tree of a strict/lax/work parse, formatted
func c02FormatParsed(data string, mode, kind int) wire.Val {
	fn := []string{"Parse", "ParseLax", "ParseWork"}[kind]
	res, f, w, _, _ := mfParse(fn, data, mode)
	switch {
	case f != nil:
		return wire.Ok(wire.Bytes(modfile.Format(f.Syntax)))
	case w != nil:
		return wire.Ok(wire.Bytes(modfile.Format(w.Syntax)))
	}
	return res
}

func runC02(c *hx.Ctx) {
	r := c.Rng
	c02QuoteCases(c)
	accepted := 0
	for i := 0; accepted < c.N(9000) && i < c.N(40000); i++ {
		data, label := c02Input(c)
		reparse, idem, out, ok := c02RoundTrip(data)
		if !ok {
			c.Count("rejected:" + label)
			continue
		}
		accepted++
		c.Count("accepted:" + label)
		c.Nontrivial(data)
		res, fs, _, _, _ := mfSyntax(data)
		c.Case("Syntax", wire.S(data), res)
		if fs != nil {
			c20Stats(c, fs)
		}
		if out != data {
			c.Count("format-changes-text")
			// the formatted output is an input of the lexer in its own right
			res2, _, _, _, _ := mfSyntax(out)
			c.Case("Syntax", wire.S(out), res2)
		} else {
			c.Count("format-fixpoint")
		}
		in := c02In{Op: "roundtrip", Data: hex.EncodeToString([]byte(data))}
		c.Check("format-reparse-same-events", reparse == "", "", in, reparse)
		c.Check("format-idempotent", idem == "", "", in, idem)
		if accepted%997 == 0 {
			c.Sample(fmt.Sprintf("%s: %q => %q", label, data, out))
		}
	}
	for i := 0; i < c.N(6000); i++ {
		var data string
		kind := "Parse"
		switch k := r.Intn(20); {
		case k < 8:
			data = gen.GoModOpts(r, gen.ModOpts{NoInvalid: true, NoUnknown: true})
		case k < 12:
			data = gen.GoMod(r)
		case k < 16:
			data, kind = gen.GoWorkOpts(r, gen.ModOpts{NoInvalid: true, NoUnknown: true}), "ParseWork"
		case k < 18:
			data, kind = gen.GoWork(r), "ParseWork"
		default:
			data = gen.TestdataMutant(r)
			if r.Intn(3) == 0 {
				kind = "ParseWork"
			}
		}
		mode := r.Intn(2)
		msg, applicable := c02Directives(kind, data, mode)
		if applicable {
			c.Count("directives:" + kind + ":applicable")
			c.Nontrivial(kind + data)
		} else {
			c.Count("directives:" + kind + ":not-applicable")
		}
		c.Check("format-preserves-directives", msg == "", "", c02In{Op: kind, Data: hex.EncodeToString([]byte(data)), Mode: mode}, msg)
		k := 0
		if kind == "ParseWork" {
			k = 2
		} else if r.Intn(3) == 0 {
			k = 1
		}
		c.Case("FormatParsed", wire.L(wire.S(data), wire.Int(mode), wire.Int(k)), c02FormatParsed(data, mode, k))
	}
}

// MustQuote / AutoQuote directly (the printer relies on them through parseString)
func c02QuoteCases(c *hx.Ctx) {
	r := c.Rng
	for i := 0; i < c.N(3000); i++ {
		s := gen.QuoteProbe(r)
		var mq bool
		var aq string
		_, panicked, _ := MfWatchdog(func() { mq, aq = modfile.MustQuote(s), modfile.AutoQuote(s) })
		if panicked {
			c.Case("AutoQuote", wire.S(s), wire.Panic())
		} else {
			c.Case("AutoQuote", wire.S(s), wire.L(wire.Bool(mq), wire.S(aq)))
		}
		c.Count(fmt.Sprintf("MustQuote=%v", mq))
		// oracle: AutoQuote(s) is one token of the lexer and parseString gives s back
		// (for strings that survive strconv.Quote/Unquote, i.e. valid UTF-8)
		msg := c02AutoQuoteOracle(s)
		c.Check("autoquote-is-one-token", msg == "", "", c02In{Op: "autoquote", Data: hex.EncodeToString([]byte(s))}, msg)
	}
}

func c02AutoQuoteOracle(s string) string {
	if !utf8.ValidString(s) || s == "" || c02Lone[s] {
		return ""
	}
	q := modfile.AutoQuote(s)
	fs, err := modfile.VerifParse("go.mod", []byte("x "+q+"\n"))
	if err != nil {
		return fmt.Sprintf("AutoQuote(%q) = %q does not lex: %v", s, q, err)
	}
	if len(fs.Stmt) != 1 {
		return fmt.Sprintf("AutoQuote(%q) = %q parses to %d statements", s, q, len(fs.Stmt))
	}
	l, ok := fs.Stmt[0].(*modfile.Line)
	if !ok || len(l.Token) != 2 || l.Token[1] != q || len(l.Suffix) != 0 {
		return fmt.Sprintf("AutoQuote(%q) = %q is not read back as one token: %T %q", s, q, fs.Stmt[0], MfEvents(fs))
	}
	return ""
}

func replayC02(raw json.RawMessage) (bool, string) {
	var in c02In
	if err := json.Unmarshal(raw, &in); err != nil {
		return false, err.Error()
	}
	b, _ := hex.DecodeString(in.Data)
	data := string(b)
	switch in.Op {
	case "roundtrip":
		reparse, idem, _, _ := c02RoundTrip(data)
		if reparse != "" {
			return false, reparse
		}
		return idem == "", idem
	case "autoquote":
		msg := c02AutoQuoteOracle(data)
		return msg == "", msg
	case "Parse", "ParseWork":
		msg, _ := c02Directives(in.Op, data, in.Mode)
		return msg == "", msg
	}
	return false, "unknown op " + in.Op
}
