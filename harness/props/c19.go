package props

import (
	"archive/zip"
	"bytes"
	"crypto/sha256"
	"encoding/base64"
	"encoding/hex"
	"encoding/json"
	"errors"
	"fmt"
	"io"
	"math/rand"
	"os"
	"path"
	"path/filepath"
	"sort"
	"strings"
	"sync"
	"time"

	"golang.org/x/mod/module"
	"golang.org/x/mod/sumdb/dirhash"
	modzip "golang.org/x/mod/zip"

	"verif/harness/gen"
	"verif/harness/hx"
	"verif/harness/wire"
)

func init() { hx.Register(&hx.Prop{ID: "C19", Run: runC19, Replay: replayC19}) }

// ---------------------------------------------------------------------------------------
// file sets

// c19E is one (name, content) pair. Bad: 0 readable, 1 open fails, 2 read fails midway.
type c19E struct {
	N   string
	C   string
	Bad int
}

type c19EJ struct {
	N   string `json:"name_hex"`
	C   string `json:"content_hex"`
	Bad int    `json:"unreadable,omitempty"`
}

type c19In struct {
	Op     string     `json:"op"`
	Dir    string     `json:"dir,omitempty"` // "abs" (default) | "outer:<spelling>" | "root:<spelling>", @ = the directory's name
	Prefix string     `json:"prefix_hex,omitempty"`
	Orders [][]string `json:"orders_hex,omitempty"` // listing orders (names)
	Es     []c19EJ    `json:"entries"`
	Es2    []c19EJ    `json:"entries2,omitempty"`
}

func c19ToJ(es []c19E) []c19EJ {
	out := make([]c19EJ, len(es))
	for i, e := range es {
		out[i] = c19EJ{hex.EncodeToString([]byte(e.N)), hex.EncodeToString([]byte(e.C)), e.Bad}
	}
	return out
}

func c19FromJ(js []c19EJ) []c19E {
	out := make([]c19E, len(js))
	for i, j := range js {
		n, _ := hex.DecodeString(j.N)
		c, _ := hex.DecodeString(j.C)
		out[i] = c19E{string(n), string(c), j.Bad}
	}
	return out
}

func c19Names(es []c19E) []string {
	out := make([]string, len(es))
	for i, e := range es {
		out[i] = e.N
	}
	return out
}

func c19EntriesVal(es []c19E) wire.Val {
	vs := make([]wire.Val, len(es))
	for i, e := range es {
		if e.Bad != 0 {
			vs[i] = wire.L(wire.S(e.N))
		} else {
			vs[i] = wire.L(wire.S(e.N), wire.S(e.C))
		}
	}
	return wire.L(vs...)
}

// ---------------------------------------------------------------------------------------
// running the implementation with an observable error projection

type c19OpenErr struct {
	name string
	err  error
}

func (e *c19OpenErr) Error() string { return "open " + e.name + ": " + e.err.Error() }

type c19Reader struct {
	rc   io.ReadCloser
	name string
}

func (r *c19Reader) Read(p []byte) (int, error) {
	n, err := r.rc.Read(p)
	if err != nil && err != io.EOF {
		err = &c19OpenErr{r.name, err}
	}
	return n, err
}
func (r *c19Reader) Close() error { return r.rc.Close() }

// c19Hash is dirhash.Hash1 with the open function instrumented so that the file whose
// open/read failed is observable. It is the hash passed to HashDir and HashZip.
func c19Hash(files []string, open func(string) (io.ReadCloser, error)) (string, error) {
	return dirhash.Hash1(files, func(name string) (io.ReadCloser, error) {
		rc, err := open(name)
		if err != nil {
			return nil, &c19OpenErr{name, err}
		}
		return &c19Reader{rc, name}, nil
	})
}

const c19NewlineMsg = "dirhash: filenames with newlines are not supported"

func c19Project(s string, err error) wire.Val {
	if err == nil {
		return wire.Ok(wire.S(s))
	}
	var oe *c19OpenErr
	if errors.As(err, &oe) {
		return wire.L(wire.S("err"), wire.S("open"), wire.S(oe.name))
	}
	if err.Error() == c19NewlineMsg {
		return wire.Err("newline")
	}
	return wire.L(wire.S("err"), wire.S("other"), wire.S(err.Error()))
}

type c19FailReader struct {
	data []byte
	pos  int
}

func (f *c19FailReader) Read(p []byte) (int, error) {
	if f.pos >= len(f.data) {
		return 0, errors.New("read failed")
	}
	n := copy(p, f.data[f.pos:])
	f.pos += n
	return n, nil
}

// c19Open is the abstract open function: the first entry with that name decides.
func c19Open(es []c19E) func(string) (io.ReadCloser, error) {
	return func(name string) (io.ReadCloser, error) {
		for _, e := range es {
			if e.N == name {
				switch e.Bad {
				case 1:
					return nil, errors.New("open failed")
				case 2:
					return io.NopCloser(&c19FailReader{data: []byte(e.C[:len(e.C)/2])}), nil
				}
				return io.NopCloser(strings.NewReader(e.C)), nil
			}
		}
		return nil, errors.New("no such file")
	}
}

func c19RunHash1(names []string, es []c19E) (res wire.Val) {
	p, _ := hx.Guard(func() {
		s, err := c19Hash(names, c19Open(es))
		res = c19Project(s, err)
	})
	if p {
		return wire.Panic()
	}
	return res
}

// ---------------------------------------------------------------------------------------
// the documented formula, written independently

// c19Spec computes the expected observable for listing names with contents lookup:
// the first name in sort.Strings order that contains a newline or cannot be read decides
// the error; otherwise "h1:" + base64(sha256(summary)).
func c19Spec(names []string, lookup func(string) (string, bool)) wire.Val {
	sorted := append([]string(nil), names...)
	sort.Strings(sorted)
	var summary bytes.Buffer
	for _, n := range sorted {
		if strings.IndexByte(n, '\n') >= 0 {
			return wire.Err("newline")
		}
		c, ok := lookup(n)
		if !ok {
			return wire.L(wire.S("err"), wire.S("open"), wire.S(n))
		}
		d := sha256.Sum256([]byte(c))
		summary.WriteString(hex.EncodeToString(d[:]))
		summary.WriteString("  ")
		summary.WriteString(n)
		summary.WriteString("\n")
	}
	d := sha256.Sum256(summary.Bytes())
	return wire.Ok(wire.S("h1:" + base64.StdEncoding.EncodeToString(d[:])))
}

func c19Lookup(es []c19E) func(string) (string, bool) {
	return func(n string) (string, bool) {
		for _, e := range es {
			if e.N == n {
				return e.C, e.Bad == 0
			}
		}
		return "", false
	}
}

// multiset of (name, content) pairs in canonical form
func c19Canon(es []c19E) string {
	ss := make([]string, len(es))
	for i, e := range es {
		ss[i] = fmt.Sprintf("%d:%s%d:%s", len(e.N), e.N, len(e.C), e.C)
	}
	sort.Strings(ss)
	return strings.Join(ss, "|")
}

// ---------------------------------------------------------------------------------------
// oracles (shared by Run and Replay); "" = holds

func c19Formula(names []string, es []c19E) string {
	got := c19RunHash1(names, es).String()
	want := c19Spec(names, c19Lookup(es)).String()
	if got != want {
		return fmt.Sprintf("Hash1(%q) = %s, documented formula gives %s", names, got, want)
	}
	return ""
}

func c19Order(orders [][]string, es []c19E) string {
	first := ""
	for i, o := range orders {
		got := c19RunHash1(o, es).String()
		if i == 0 {
			first = got
		} else if got != first {
			return fmt.Sprintf("Hash1 depends on the listing order: %q -> %s, %q -> %s", orders[0], first, o, got)
		}
	}
	return ""
}

// Hash1 must not modify the slice it is given (it documents a sorted COPY): callers keep
// using their list, e.g. as the index of parallel data, while Hash1 calls back into open.
func c19ArgIntact(names []string, es []c19E) string {
	arg := append([]string(nil), names...)
	c19RunHash1(arg, es)
	for i := range names {
		if arg[i] != names[i] {
			return fmt.Sprintf("Hash1 modified its argument: passed %q, afterwards %q", names, arg)
		}
	}
	return ""
}

// A caller that keeps names and contents in parallel slices and whose open callback finds
// the content by the position of the name in ITS slice at the time of the call. es is
// duplicate-free, readable and newline-free; every order is the caller's slice in another
// permutation (contents permuted along). All must give the documented hash.
func c19IndexOpen(orders [][]string, es []c19E) string {
	want := c19Spec(c19Names(es), c19Lookup(es)).String()
	lookup := c19Lookup(es)
	for _, o := range orders {
		names := append([]string(nil), o...)
		contents := make([]string, len(names))
		for i, n := range names {
			contents[i], _ = lookup(n)
		}
		open := func(name string) (io.ReadCloser, error) {
			for i := range names {
				if names[i] == name {
					return io.NopCloser(strings.NewReader(contents[i])), nil
				}
			}
			return nil, errors.New("no such file")
		}
		var got wire.Val
		if p, _ := hx.Guard(func() {
			s, err := c19Hash(names, open)
			got = c19Project(s, err)
		}); p {
			got = wire.Panic()
		}
		if got.String() != want {
			return fmt.Sprintf("caller with parallel slices listing %q: Hash1 = %s, documented formula gives %s", o, got, want)
		}
	}
	return ""
}

// every name of es with a newline inserted at every position (and replacing every byte)
// must be refused with the newline error; es is readable and newline-free.
func c19Newline(es []c19E) string {
	for i := range es {
		n := es[i].N
		for pos := 0; pos <= len(n); pos++ {
			for variant := 0; variant < 2; variant++ {
				var nn string
				if variant == 0 {
					nn = n[:pos] + "\n" + n[pos:]
				} else if pos < len(n) {
					nn = n[:pos] + "\n" + n[pos+1:]
				} else {
					continue
				}
				es2 := append([]c19E(nil), es...)
				es2[i].N = nn
				got := c19RunHash1(c19Names(es2), es2).String()
				if got != wire.Err("newline").String() {
					return fmt.Sprintf("name %q (newline at %d) not refused: %s", nn, pos, got)
				}
			}
		}
	}
	return ""
}

// two different multisets of (name, content) pairs must have different hashes
func c19Near(a, b []c19E) string {
	if c19Canon(a) == c19Canon(b) {
		return ""
	}
	ra := c19RunHash1(c19Names(a), a).String()
	rb := c19RunHash1(c19Names(b), b).String()
	if !strings.HasPrefix(ra, "L2 S6f6b ") || !strings.HasPrefix(rb, "L2 S6f6b ") {
		return fmt.Sprintf("near-collision pair not hashed: %s / %s", ra, rb)
	}
	if ra == rb {
		return fmt.Sprintf("different file sets, same hash %s: %q vs %q", ra, a, b)
	}
	return ""
}

// ---- real directories and zips

var c19TmpRoot = "/verif/.work/C19-tmp"
var c19TmpSeq int

func c19TempDir() (string, func()) {
	os.MkdirAll(c19TmpRoot, 0o755)
	c19TmpSeq++
	outer := filepath.Join(c19TmpRoot, fmt.Sprintf("t%d", c19TmpSeq))
	os.RemoveAll(outer)
	if err := os.Mkdir(outer, 0o755); err != nil {
		panic(err)
	}
	return outer, func() { os.RemoveAll(outer) }
}

// c19MakeTree creates the tree under outer/<rootname> and returns the directory.
// Unreadable entries are dangling symbolic links. A few empty directories are added
// (they must be invisible).
func c19MakeTree(outer string, t []c19E) (string, error) {
	dir := filepath.Join(outer, c19RootName)
	if err := os.MkdirAll(dir, 0o755); err != nil {
		return "", err
	}
	for _, e := range t {
		p := filepath.Join(dir, filepath.FromSlash(e.N))
		if err := os.MkdirAll(filepath.Dir(p), 0o755); err != nil {
			return "", err
		}
		if e.Bad != 0 {
			if err := os.Symlink("no-such-target", p); err != nil {
				return "", err
			}
			continue
		}
		if err := os.WriteFile(p, []byte(e.C), 0o644); err != nil {
			return "", err
		}
	}
	os.MkdirAll(filepath.Join(dir, "empty.d", "deeper"), 0o755)
	return dir, nil
}

func c19WriteZip(path string, z []c19E) error {
	f, err := os.Create(path)
	if err != nil {
		return err
	}
	defer f.Close()
	w := zip.NewWriter(f)
	for i, e := range z {
		switch e.Bad {
		case 0:
			var fw io.Writer
			if i%2 == 0 {
				fw, err = w.Create(e.N) // deflate
			} else {
				fw, err = w.CreateHeader(&zip.FileHeader{Name: e.N, Method: zip.Store})
			}
			if err != nil {
				return err
			}
			if len(e.C) > 0 {
				if _, err := fw.Write([]byte(e.C)); err != nil {
					return err
				}
			}
		default:
			fh := &zip.FileHeader{Name: e.N, Method: zip.Store,
				CompressedSize64: uint64(len(e.C)), UncompressedSize64: uint64(len(e.C))}
			crc := crc32IEEE([]byte(e.C))
			if e.Bad == 1 {
				fh.Method = 99 // unsupported: Open fails
				fh.CRC32 = crc
			} else {
				fh.CRC32 = crc ^ 1 // checksum error at the end of the read
			}
			fw, err := w.CreateRaw(fh)
			if err != nil {
				return err
			}
			if _, err := fw.Write([]byte(e.C)); err != nil {
				return err
			}
		}
	}
	return w.Close()
}

func crc32IEEE(b []byte) uint32 {
	crc := ^uint32(0)
	for _, x := range b {
		crc ^= uint32(x)
		for k := 0; k < 8; k++ {
			if crc&1 != 0 {
				crc = crc>>1 ^ 0xedb88320
			} else {
				crc >>= 1
			}
		}
	}
	return ^crc
}

// c19GoodPrefix: non-empty, every '/'-separated element is a plain name. For these (and
// for the empty prefix) the documented name of rel is prefix/rel (rel for "").
func c19GoodPrefix(p string) bool {
	if p == "" {
		return false
	}
	for _, el := range strings.Split(p, "/") {
		if el == "" || el == "." || el == ".." {
			return false
		}
	}
	return true
}

// ---- the directory argument as the caller spells it
//
// DirFiles computes names from the spelling of its directory argument (Clean, then the
// "." special case), so the same tree is hashed through absolute paths, through relative
// paths from the parent ("@", "./@", "@/", ...; @ = the directory's name) and as "."
// from inside.  The working directory is process-global: one case at a time.

const c19RootName = "r00t.dir"

var c19CwdMu sync.Mutex

var c19OuterSpellings = []string{"@", "./@", "@/", "@//", "./@/.", "@/./", "x/../@"}
var c19RootSpellings = []string{".", "./", "", "./.", ".//", "../@", "../@/"}

// allowEmpty admits the spelling "": DirFiles("", p) lists the current directory but
// HashDir("", p) opens filepath.Join("", "/rel") = "/rel" (modelled as 'outside').
func c19DirSpec(r *rand.Rand, allowEmpty bool) string {
	switch k := r.Intn(10); {
	case k < 3:
		return "abs"
	case k < 6:
		return "outer:" + c19OuterSpellings[r.Intn(len(c19OuterSpellings))]
	default:
		sp := c19RootSpellings[r.Intn(len(c19RootSpellings))]
		if sp == "" && !allowEmpty {
			sp = "."
		}
		return "root:" + sp
	}
}

// c19InDir calls f with the directory argument that spec describes for outer/base, with
// the working directory set accordingly (and restored afterwards).
func c19InDir(outer, base, spec string, f func(dirArg string)) error {
	if spec == "" || spec == "abs" {
		f(filepath.Join(outer, base))
		return nil
	}
	kind, tmpl, _ := strings.Cut(spec, ":")
	c19CwdMu.Lock()
	defer c19CwdMu.Unlock()
	old, err := os.Getwd()
	if err != nil {
		return err
	}
	target := outer
	if kind == "root" {
		target = filepath.Join(outer, base)
	}
	if err := os.Chdir(target); err != nil {
		return err
	}
	defer os.Chdir(old)
	f(strings.ReplaceAll(tmpl, "@", base))
	return nil
}

// c19Escapes: does opening filepath.Join(dirArg, x) leave the directory dirArg denotes?
func c19Escapes(dirArg, x string) bool {
	cd := filepath.Clean(dirArg)
	op := filepath.Join(dirArg, x)
	if cd == "." {
		return filepath.IsAbs(op) || op == ".." || strings.HasPrefix(op, "../")
	}
	return op != cd && !strings.HasPrefix(op, strings.TrimSuffix(cd, "/")+"/")
}

type c19DirOut struct {
	dirArg  string
	hash    wire.Val // projected HashDir result ("outside" when an opened path leaves dir)
	files   []string // sorted DirFiles result
	filesOK bool
}

func c19RunDir(spec, prefix string, t []c19E) (out c19DirOut, err error) {
	outer, cleanup := c19TempDir()
	defer cleanup()
	if _, err := c19MakeTree(outer, t); err != nil {
		return out, err
	}
	err = c19InDir(outer, c19RootName, spec, func(dir string) {
		out.dirArg = dir
		p, _ := hx.Guard(func() {
			files, ferr := dirhash.DirFiles(dir, prefix)
			out.filesOK = ferr == nil
			sort.Strings(files)
			out.files = files
			s, herr := dirhash.HashDir(dir, prefix, c19Hash)
			out.hash = c19Project(s, herr)
			for _, name := range files {
				if c19Escapes(dir, strings.TrimPrefix(name, prefix)) {
					out.hash = wire.Err("outside") // not modelled: depends on what surrounds dir
				}
			}
		})
		if p {
			out.hash = wire.Panic()
		}
	})
	return out, err
}

// HashDir/DirFiles against the documented naming, for good prefixes and "".
func c19HashDir(spec, prefix string, t []c19E) string {
	out, err := c19RunDir(spec, prefix, t)
	if err != nil {
		return "" // the tree could not be created on this file system: not a verdict
	}
	named := make([]c19E, len(t))
	for i, e := range t {
		named[i] = e
		if c19GoodPrefix(prefix) {
			named[i].N = prefix + "/" + e.N
		} else if prefix != "" {
			// any other prefix: the slash path "prefix joined with rel" (package path, not filepath)
			named[i].N = path.Join(prefix, e.N)
		}
	}
	want := c19Names(named)
	sort.Strings(want)
	if !out.filesOK || strings.Join(out.files, "\x00") != strings.Join(want, "\x00") || len(out.files) != len(want) {
		return fmt.Sprintf("DirFiles(%q, %q) = %q, want %q", out.dirArg, prefix, out.files, want)
	}
	if !(c19GoodPrefix(prefix) || prefix == "") {
		return "" // which file an odd prefix makes HashDir open is not documented
	}
	if out.dirArg == "" && prefix != "" {
		return "" // HashDir("", prefix) opens "/rel": recorded quirk, compared with the model only
	}
	want2 := c19Spec(want, c19Lookup(named)).String()
	if got := out.hash.String(); got != want2 {
		return fmt.Sprintf("HashDir(%q, %q) over %q = %s, documented formula gives %s", out.dirArg, prefix, c19Names(t), got, want2)
	}
	return ""
}

func c19RunZip(z []c19E) (res wire.Val, err error) {
	outer, cleanup := c19TempDir()
	defer cleanup()
	zp := filepath.Join(outer, "a.zip")
	if err := c19WriteZip(zp, z); err != nil {
		return res, err
	}
	p, _ := hx.Guard(func() {
		s, herr := dirhash.HashZip(zp, c19Hash)
		res = c19Project(s, herr)
	})
	if p {
		res = wire.Panic()
	}
	return res, nil
}

func c19HasDup(es []c19E) bool {
	seen := map[string]bool{}
	for _, e := range es {
		if seen[e.N] {
			return true
		}
		seen[e.N] = true
	}
	return false
}

// HashZip hashes entry names and contents (archives without duplicate names).
func c19HashZip(z []c19E) string {
	got, err := c19RunZip(z)
	if err != nil {
		return ""
	}
	if c19HasDup(z) {
		return ""
	}
	spec := c19Spec(c19Names(z), c19Lookup(z)).String()
	if got.String() != spec {
		return fmt.Sprintf("HashZip over %q = %s, documented formula gives %s", c19Names(z), got, spec)
	}
	return ""
}

// A zip whose entries are prefix/rel, extracted under dir, must hash like HashDir(dir, prefix).
func c19ZipDir(spec, prefix string, t []c19E) string {
	z := make([]c19E, len(t))
	for i, e := range t {
		z[i] = c19E{prefix + "/" + e.N, e.C, 0}
	}
	// the archive lists entries in another order than the walk
	for i := len(z) - 1; i > 0; i -= 2 {
		z[i], z[i/2] = z[i/2], z[i]
	}
	outer, cleanup := c19TempDir()
	defer cleanup()
	zp := filepath.Join(outer, "m.zip")
	if err := c19WriteZip(zp, z); err != nil {
		return ""
	}
	// extract
	dir := filepath.Join(outer, "x")
	zr, err := zip.OpenReader(zp)
	if err != nil {
		return "cannot reopen zip: " + err.Error()
	}
	for _, f := range zr.File {
		rel := strings.TrimPrefix(f.Name, prefix+"/")
		p := filepath.Join(dir, filepath.FromSlash(rel))
		if err := os.MkdirAll(filepath.Dir(p), 0o755); err != nil {
			zr.Close()
			return ""
		}
		rc, err := f.Open()
		if err != nil {
			zr.Close()
			return "cannot open zip entry: " + err.Error()
		}
		data, _ := io.ReadAll(rc)
		rc.Close()
		if err := os.WriteFile(p, data, 0o644); err != nil {
			zr.Close()
			return ""
		}
	}
	zr.Close()
	os.MkdirAll(dir, 0o755)
	var hz, hd wire.Val
	dirArg := ""
	p := false
	if err := c19InDir(outer, "x", spec, func(d string) {
		dirArg = d
		p, _ = hx.Guard(func() {
			s, err := dirhash.HashZip(zp, dirhash.Hash1)
			hz = c19Project(s, err)
			s, err = dirhash.HashDir(d, prefix, dirhash.Hash1)
			hd = c19Project(s, err)
		})
	}); err != nil {
		return ""
	}
	if p {
		return "panic"
	}
	if hz.String() != hd.String() {
		return fmt.Sprintf("HashZip = %s but HashDir(%q, %q) of the extraction = %s (files %q)", hz, dirArg, prefix, hd, c19Names(t))
	}
	if spec := c19Spec(c19Names(z), c19Lookup(z)).String(); hz.String() != spec {
		return fmt.Sprintf("HashZip = %s, documented formula gives %s (names %q)", hz, spec, c19Names(z))
	}
	return ""
}

// ---------------------------------------------------------------------------------------
// generators

var c19Words = []string{".gitignore", ".env", "env", ".github", "a", "b", "ab", "abc", "x", "go.mod", "main.go", "LICENSE", "README.md", "x_test.go", "doc", "pkg", "cmd",
	"internal", "v2", "é", "日本", "naïve.txt", "a b", "a  b", " ", "  ", "  x", "x  ", "ß.go", "\u00a0", "\xff\xfe", "a\\b", "*", "a:b",
	".x", "..x", "...", "x.", ".hidden", "-", "~", "#", "A", "B", "a.b", "a-b", "0", "00", "deadbeef", "\t", "a\rb", "\x01", "\x7f"}

func c19Content(r *rand.Rand) string {
	switch k := r.Intn(20); {
	case k < 3:
		return ""
	case k < 12:
		return c19Bytes(r, 1+r.Intn(20))
	case k < 15:
		return pickStr(r, "package main\n", "module example.com/m\n", "a", "b", "\n", "x  y\n", "\x00")
	case k < 18:
		return c19Bytes(r, 50+r.Intn(16)) // around the SHA-256 one/two-block boundary (55/56, 64)
	case k < 19:
		return c19Bytes(r, 110+r.Intn(20)) // around 119/120, 128
	default:
		return c19Bytes(r, 200+r.Intn(101))
	}
}

func pickStr(r *rand.Rand, ss ...string) string { return ss[r.Intn(len(ss))] }

func c19Bytes(r *rand.Rand, n int) string {
	b := make([]byte, n)
	if r.Intn(2) == 0 {
		for i := range b {
			b[i] = byte(r.Intn(256))
		}
	} else {
		const al = "abc xyz\n09"
		for i := range b {
			b[i] = al[r.Intn(len(al))]
		}
	}
	return string(b)
}

func c19HexLine(r *rand.Rand) string {
	d := sha256.Sum256([]byte(c19Content(r)))
	return hex.EncodeToString(d[:])
}

// c19RelPath: a relative slash path usable on a file system (no NUL, no empty, "." or
// ".." elements); fsSafe also keeps elements short.
func c19Element(r *rand.Rand) string {
	switch k := r.Intn(20); {
	case k < 13:
		return c19Words[r.Intn(len(c19Words))]
	case k < 15:
		return c19Words[r.Intn(len(c19Words))] + c19Words[r.Intn(len(c19Words))]
	case k < 16:
		return c19HexLine(r) // 64 hex characters
	case k < 17:
		return c19HexLine(r) + "  " + c19Words[r.Intn(len(c19Words))] // looks like a summary line
	case k < 18:
		return c19Words[r.Intn(len(c19Words))] + "  " + c19HexLine(r)[:8+r.Intn(20)]
	default:
		s := c19Bytes(r, 1+r.Intn(6))
		s = strings.Map(func(c rune) rune {
			if c == '/' || c == 0 || c == '\n' {
				return 'q'
			}
			return c
		}, s)
		return s
	}
}

func c19FsElement(r *rand.Rand) string {
	for {
		e := c19Element(r)
		// invalid UTF-8 handled by Map above may have produced U+FFFD; any bytes are fine on Linux
		if e != "" && e != "." && e != ".." && !strings.ContainsAny(e, "/\x00\n") && len(e) < 200 {
			return e
		}
	}
}

func c19RelPath(r *rand.Rand) string {
	n := 1
	switch r.Intn(6) {
	case 0, 1:
		n = 2
	case 2:
		n = 3
	}
	els := make([]string, n)
	for i := range els {
		els[i] = c19FsElement(r)
	}
	return strings.Join(els, "/")
}

// c19Tree: a conflict-free set of relative paths with contents; names are often
// prefixes / extensions / siblings of each other.
func c19Tree(r *rand.Rand, allowBad bool) []c19E {
	n := r.Intn(7)
	if r.Intn(10) == 0 {
		n = 8 + r.Intn(10)
	}
	var t []c19E
	files := map[string]bool{}
	dirs := map[string]bool{}
	add := func(p string) {
		if files[p] || dirs[p] {
			return
		}
		parts := strings.Split(p, "/")
		for i := 1; i < len(parts); i++ {
			if files[strings.Join(parts[:i], "/")] {
				return
			}
		}
		for i := 1; i < len(parts); i++ {
			dirs[strings.Join(parts[:i], "/")] = true
		}
		files[p] = true
		e := c19E{N: p, C: c19Content(r)}
		if allowBad && r.Intn(25) == 0 {
			e.Bad = 1
		}
		t = append(t, e)
	}
	for i := 0; i < n; i++ {
		if len(t) > 0 && r.Intn(3) == 0 {
			base := t[r.Intn(len(t))].N
			switch r.Intn(5) {
			case 0:
				add(base + c19FsElement(r)) // extension of a name
			case 1:
				if len(base) > 1 {
					p := base[:1+r.Intn(len(base)-1)]
					if !strings.HasSuffix(p, "/") && !strings.HasSuffix(p, "/.") && !strings.HasSuffix(p, "/..") && p != "." && p != ".." {
						add(p) // proper prefix of a name
					}
				}
			case 2:
				add(filepath.ToSlash(filepath.Join(filepath.Dir(base), c19FsElement(r)))) // sibling
			case 3:
				add(base + " ")
			default:
				add(base + "." + c19FsElement(r))
			}
		} else {
			add(c19RelPath(r))
		}
	}
	return t
}

// c19FreeSet: names are arbitrary byte strings (for Hash1 with an abstract open and for
// zip entry names): trees, plus duplicates, empty names, absolute and dotted paths,
// names with newlines, unreadable files.
func c19FreeSet(r *rand.Rand, zipNames bool) ([]c19E, string) {
	t := c19Tree(r, false)
	kind := "plain"
	switch k := r.Intn(20); {
	case k < 9:
	case k < 11:
		if len(t) > 0 {
			kind = "newline"
			m := 1 + r.Intn(2)
			for j := 0; j < m; j++ {
				i := r.Intn(len(t))
				n := t[i].N
				pos := r.Intn(len(n) + 1)
				t[i].N = n[:pos] + "\n" + n[pos:]
			}
		}
	case k < 13:
		if len(t) > 0 {
			kind = "unreadable"
			m := 1 + r.Intn(2)
			for j := 0; j < m; j++ {
				t[r.Intn(len(t))].Bad = 1 + r.Intn(2)
			}
		}
	case k < 14:
		if len(t) > 1 {
			kind = "newline+unreadable"
			i := r.Intn(len(t))
			n := t[i].N
			pos := r.Intn(len(n) + 1)
			t[i].N = n[:pos] + "\n" + n[pos:]
			t[r.Intn(len(t))].Bad = 1 + r.Intn(2)
			if r.Intn(2) == 0 {
				t[r.Intn(len(t))].Bad = 1 + r.Intn(2)
			}
		}
	case k < 16:
		if len(t) > 0 {
			kind = "duplicate"
			e := t[r.Intn(len(t))]
			if r.Intn(2) == 0 {
				e.C = c19Content(r)
			}
			if r.Intn(4) == 0 {
				e.Bad = 1
			}
			t = append(t, e)
			if r.Intn(3) == 0 {
				e.C = c19Content(r)
				e.Bad = 0
				t = append(t, e)
			}
		}
	case k < 18:
		kind = "odd-names"
		odd := []string{"", "/", "/abs/x", "a/", "a//b", "./a", "../a", "a/../b", ".", "..", "a/.", "dir/", "x\\y", "C:/x"}
		m := 1 + r.Intn(3)
		for j := 0; j < m; j++ {
			n := odd[r.Intn(len(odd))]
			e := c19E{N: n, C: c19Content(r)}
			if zipNames && strings.HasSuffix(n, "/") {
				e.C = "" // a zip directory entry cannot carry data
			}
			dup := false
			for _, x := range t {
				if x.N == n {
					dup = true
				}
			}
			if !dup {
				t = append(t, e)
			}
		}
	default:
		kind = "same-content"
		c := c19Content(r)
		for i := range t {
			t[i].C = c
		}
	}
	r.Shuffle(len(t), func(i, j int) { t[i], t[j] = t[j], t[i] })
	return t, kind
}

func c19Prefix(r *rand.Rand) (string, string) {
	switch k := r.Intn(20); {
	case k < 10:
		return pickStr(r, "example.com/m@v1.2.3", "m@v1.0.0", "p", "a", "a b", "é/x", "golang.org/x/mod@v0.1.0", "a/b", ".x", "x  y", "...", "p.q/r"), "good"
	case k < 13:
		return "", "empty"
	default:
		return pickStr(r, ".", "./p", "p/", "p//q", "a/../b", "/abs", "/", "..", "../x", "p/.", "p/..", "./", "a/./b", "//x", "a/", ".x/", "../b/../c", "a/../../z", "../..", "."), "odd"
	}
}

func c19Mutate(r *rand.Rand, a []c19E) ([]c19E, string) {
	b := append([]c19E(nil), a...)
	nonNL := func() byte {
		for {
			c := byte(r.Intn(256))
			if c != '\n' {
				return c
			}
		}
	}
	if len(b) == 0 {
		return append(b, c19E{N: c19RelPath(r), C: c19Content(r)}), "add-file"
	}
	i := r.Intn(len(b))
	switch r.Intn(12) {
	case 0, 1:
		n := []byte(b[i].N)
		if len(n) > 0 {
			n[r.Intn(len(n))] = nonNL()
		}
		b[i].N = string(n)
		return b, "name-byte"
	case 2, 3:
		c := []byte(b[i].C)
		if len(c) == 0 {
			c = []byte{byte(r.Intn(256))}
		} else {
			c[r.Intn(len(c))] ^= byte(1 << uint(r.Intn(8)))
		}
		b[i].C = string(c)
		return b, "content-bit"
	case 4:
		if r.Intn(2) == 0 {
			b[i].C += string([]byte{byte(r.Intn(256))})
		} else if len(b[i].C) > 0 {
			b[i].C = b[i].C[:len(b[i].C)-1]
		}
		return b, "content-length"
	case 5:
		j := r.Intn(len(b))
		b[i].C, b[j].C = b[j].C, b[i].C
		return b, "swap-contents"
	case 6:
		// two lines merged into one name: "f1 ? hex(sha c2) 2sp f2" with content c1
		j := r.Intn(len(b))
		if i != j {
			d := sha256.Sum256([]byte(b[j].C))
			sep := string([]byte{nonNL()})
			if r.Intn(2) == 0 {
				sep = pickStr(r, "\r", " ", "\x0b", "\\n", "\x00")
			}
			first, second := b[i], b[j]
			if first.N > second.N {
				first, second = second, first
				d = sha256.Sum256([]byte(second.C))
			}
			merged := c19E{N: first.N + sep + hex.EncodeToString(d[:]) + "  " + second.N, C: first.C}
			var out []c19E
			for k, e := range b {
				if k != i && k != j {
					out = append(out, e)
				}
			}
			return append(out, merged), "merge-lines"
		}
		return b, "noop"
	case 7:
		n := b[i].N
		if len(n) > 1 {
			b = append(b, c19E{N: n[:1+r.Intn(len(n)-1)], C: b[i].C})
		}
		return b, "add-prefix-name"
	case 8:
		b = append(b, b[i])
		return b, "duplicate-entry"
	case 9:
		return append(b[:i:i], b[i+1:]...), "drop-file"
	case 10:
		// move a boundary between name and the two spaces
		b[i].N = strings.Replace(b[i].N, "  ", " ", 1)
		if b[i].N == a[i].N {
			b[i].N = b[i].N + " "
		}
		return b, "spaces"
	default:
		// name <-> content confusion
		b[i].N = b[i].N + "x"
		if r.Intn(2) == 0 && len(b[i].C) > 0 && !strings.Contains(b[i].C, "\n") {
			b[i].N, b[i].C = b[i].C, a[i].N
		}
		return b, "rename"
	}
}

func c19Shuffled(r *rand.Rand, names []string) []string {
	out := append([]string(nil), names...)
	r.Shuffle(len(out), func(i, j int) { out[i], out[j] = out[j], out[i] })
	return out
}

func c19HexOrders(orders [][]string) [][]string {
	out := make([][]string, len(orders))
	for i, o := range orders {
		out[i] = hexes(o...)
	}
	return out
}

// ---------------------------------------------------------------------------------------

func runC19(c *hx.Ctx) {
	r := c.Rng
	c19TmpRoot = filepath.Join(c.Out, "tmp")
	defer os.RemoveAll(c19TmpRoot)
	kindOf := func(v wire.Val) string {
		s := v.String()
		switch {
		case strings.HasPrefix(s, "L2 S6f6b "):
			return "ok"
		case strings.HasPrefix(s, "L2 S657272 S6e65776c696e65"):
			return "newline"
		case strings.HasPrefix(s, "L3 S657272 S6f70656e"):
			return "open"
		case strings.HasPrefix(s, "L2 S657272 S6f757473696465"):
			return "outside"
		}
		return "other"
	}
	nontrivial := func(es []c19E, res wire.Val) {
		if len(es) >= 2 && kindOf(res) == "ok" {
			c.Nontrivial(c19Canon(es))
		}
	}

	// 1. Hash1 over abstract file sets: formula, order independence, correspondence
	for i := 0; i < c.N(1300); i++ {
		es, kind := c19FreeSet(r, false)
		c.Count("hash1-set:" + kind)
		c.Count(fmt.Sprintf("hash1-size:%d", min(len(es), 8)))
		names := c19Names(es)
		if r.Intn(12) == 0 && len(names) > 0 {
			// a listed name the open function does not know
			names = append(names, c19RelPath(r))
		}
		orders := [][]string{names, c19Shuffled(r, names), c19Shuffled(r, names)}
		for _, o := range orders[:2] {
			if !sort.StringsAreSorted(o) {
				c.Count("hash1-arg:unsorted")
			} else {
				c.Count("hash1-arg:sorted")
			}
			msg := c19ArgIntact(o, es) // first: c19ArgIntact works on a copy, later calls pass the slice itself
			c.Check("hash1-argument-unmodified", msg == "", "", c19In{Op: "intact", Orders: c19HexOrders([][]string{o}), Es: c19ToJ(es)}, msg)
		}
		res := c19RunHash1(orders[0], es)
		c.Case("Hash1", wire.L(wire.Strs(orders[0]), c19EntriesVal(es)), res)
		if r.Intn(4) == 0 {
			c.Case("Hash1", wire.L(wire.Strs(orders[1]), c19EntriesVal(es)), c19RunHash1(orders[1], es))
		}
		c.Count("hash1-result:" + kindOf(res))
		nontrivial(es, res)
		msg := c19Formula(orders[0], es)
		c.Check("hash1-formula", msg == "", "", c19In{Op: "formula", Orders: c19HexOrders(orders[:1]), Es: c19ToJ(es)}, msg)
		msg = c19Order(orders, es)
		c.Check("order-independence", msg == "", "", c19In{Op: "order", Orders: c19HexOrders(orders), Es: c19ToJ(es)}, msg)
		if i%97 == 0 {
			c.Sample(fmt.Sprintf("Hash1(%q) = %s", orders[0], res))
		}
	}

	// 1b. callers with parallel slices and an index-based open (oracle only: the model's
	// list is immutable, so there is nothing for a correspondence case to compare)
	for i := 0; i < c.N(700); i++ {
		es := c19Tree(r, false)
		if i%7 == 0 {
			es = []c19E{{N: "go.mod", C: "module m\n"}, {N: "a.go", C: "package a\n"}, {N: "z.go", C: "package z\n"}}
		}
		names := c19Names(es)
		orders := [][]string{names, c19Shuffled(r, names), c19Shuffled(r, names)}
		c.Count(fmt.Sprintf("index-open-size:%d", min(len(es), 8)))
		msg := c19IndexOpen(orders, es)
		c.Check("hash1-index-open-formula+orders", msg == "", "", c19In{Op: "indexopen", Orders: c19HexOrders(orders), Es: c19ToJ(es)}, msg)
	}

	// 2. distinct sets => distinct summaries, on near-collisions
	for i := 0; i < c.N(2500); i++ {
		a := c19Tree(r, false)
		b, how := c19Mutate(r, a)
		if r.Intn(5) == 0 {
			b, _ = c19Mutate(r, b)
			how = "double"
		}
		if c19Canon(a) == c19Canon(b) {
			c.Count("near:identical-skipped")
			continue
		}
		c.Count("near:" + how)
		msg := c19Near(a, b)
		c.Check("distinct-sets-distinct-hashes", msg == "", "", c19In{Op: "near", Es: c19ToJ(a), Es2: c19ToJ(b)}, msg)
		if i%6 == 0 {
			res := c19RunHash1(c19Names(b), b)
			c.Case("Hash1", wire.L(wire.Strs(c19Names(b)), c19EntriesVal(b)), res)
			nontrivial(b, res)
		}
	}

	// 3. newline in every position
	for i := 0; i < c.N(150); i++ {
		es := c19Tree(r, false)
		if len(es) == 0 {
			continue
		}
		if len(es) > 4 {
			es = es[:4]
		}
		c.Count("newline-every-position")
		msg := c19Newline(es)
		c.Check("newline-refused", msg == "", "", c19In{Op: "newline", Es: c19ToJ(es)}, msg)
	}

	// 4. real directories: DirFiles naming, HashDir
	for i := 0; i < c.N(700); i++ {
		t := c19Tree(r, true)
		if r.Intn(15) == 0 && len(t) > 0 {
			// a newline in a file name on disk
			j := r.Intn(len(t))
			parts := strings.Split(t[j].N, "/")
			last := parts[len(parts)-1]
			pos := r.Intn(len(last) + 1)
			parts[len(parts)-1] = last[:pos] + "\n" + last[pos:]
			ok := true
			nn := strings.Join(parts, "/")
			for k := range t {
				if k != j && (t[k].N == nn || strings.HasPrefix(t[k].N, nn+"/")) {
					ok = false
				}
			}
			if ok {
				t[j].N = nn
				c.Count("hashdir-tree:newline-name")
			}
		}
		prefix, pk := c19Prefix(r)
		if pk == "odd" && r.Intn(3) == 0 && len(t) > 0 {
			// let the tree contain names that interact with the odd prefix
			extra := pickStr(r, ".x", "..x", ".../y", "p/a", "x", "b/c")
			t2 := append([]c19E(nil), t...)
			t2 = append(t2, c19E{N: extra, C: c19Content(r)})
			if c19TreeOK(t2) {
				t = t2
			}
		}
		spec := c19DirSpec(r, true)
		if spec != "abs" || r.Intn(3) == 0 {
			t = c19DotFiles(r, t)
		}
		c.Count("hashdir-prefix:" + pk)
		c.Count("hashdir-dir:" + spec)
		out, err := c19RunDir(spec, prefix, t)
		if err != nil {
			c.Count("hashdir-tree:not-creatable")
			continue
		}
		arg := wire.L(wire.S(out.dirArg), wire.S(prefix), c19EntriesVal(t))
		c.Case("HashDir", arg, out.hash)
		if out.filesOK {
			c.Case("DirFiles", arg, wire.Strs(out.files))
		}
		c.Count("hashdir-result:" + kindOf(out.hash))
		nontrivial(t, out.hash)
		msg := c19HashDir(spec, prefix, t)
		c.Check("hashdir-naming+formula", msg == "", "", c19In{Op: "hashdir", Dir: spec, Prefix: hex.EncodeToString([]byte(prefix)), Es: c19ToJ(t)}, msg)
		if i%97 == 0 {
			c.Sample(fmt.Sprintf("HashDir(%q, %q over %q) = %s", out.dirArg, prefix, c19Names(t), out.hash))
		}
	}

	// 5. real zips: HashZip by entry name
	for i := 0; i < c.N(600); i++ {
		z, kind := c19FreeSet(r, true)
		for j := range z {
			if strings.HasSuffix(z[j].N, "/") && z[j].Bad == 0 {
				z[j].C = ""
			}
		}
		c.Count("hashzip-set:" + kind)
		res, err := c19RunZip(z)
		if err != nil {
			c.Count("hashzip:not-creatable")
			continue
		}
		c.Case("HashZip", c19EntriesVal(z), res)
		c.Count("hashzip-result:" + kindOf(res))
		nontrivial(z, res)
		msg := c19HashZip(z)
		c.Check("hashzip-formula", msg == "", "", c19In{Op: "hashzip", Es: c19ToJ(z)}, msg)
	}

	// 6. zip and extracted directory agree
	for i := 0; i < c.N(500); i++ {
		t := c19Tree(r, false)
		prefix := pickStr(r, "example.com/m@v1.2.3", "m@v1.0.0", "p", "a b", "é/x", "golang.org/x/mod@v0.1.0", "a/b")
		spec := c19DirSpec(r, false)
		if spec != "abs" {
			t = c19DotFiles(r, t)
		}
		c.Count("zipdir-dir:" + spec)
		msg := c19ZipDir(spec, prefix, t)
		c.Check("hashzip-equals-hashdir", msg == "", "", c19In{Op: "zipdir", Dir: spec, Prefix: hex.EncodeToString([]byte(prefix)), Es: c19ToJ(t)}, msg)
	}

	// 7. the path arithmetic of DirFiles and the %x of the summary, without hashing
	for i := 0; i < c.N(3000); i++ {
		prefix, _ := c19Prefix(r)
		if r.Intn(4) == 0 {
			prefix = strings.Join([]string{pickStr(r, "", ".", "..", "a", "/", "b/"), pickStr(r, "", ".", "..", "x", "/", "..."), pickStr(r, "", "..", "y", "z/")}, "/")
		}
		rel := c19RelPath(r)
		if r.Intn(6) == 0 {
			rel = pickStr(r, "..", ".", "a/..", "../..", "a//b", "/x", "x/", "./x", "a/./b", "a/../../b")
		}
		c.Case("Join", wire.L(wire.S(prefix), wire.S(rel)), wire.S(filepath.ToSlash(filepath.Join(prefix, rel))))
	}
	for i := 0; i < c.N(300); i++ {
		b := []byte(c19Bytes(r, r.Intn(40)))
		c.Case("Hex", wire.Bytes(b), wire.S(fmt.Sprintf("%x", b)))
	}
	c19ModuleZips(c)
}

// c19DotFiles adds top-level dot files / dot directories (and their dot-less twins) to a
// tree, keeping it conflict-free.
func c19DotFiles(r *rand.Rand, t []c19E) []c19E {
	cands := []string{".gitignore", ".github/x", ".env", "env", ".x", "x", "..y", ".y", "...", ".github/workflows/ci.yml", "gitignore", ".a/.b"}
	m := 1 + r.Intn(3)
	for j := 0; j < m; j++ {
		t2 := append(append([]c19E(nil), t...), c19E{N: cands[r.Intn(len(cands))], C: c19Content(r)})
		if r.Intn(3) == 0 {
			t2 = append(t2, c19E{N: ".env", C: c19Content(r)}, c19E{N: "env", C: c19Content(r)})
		}
		if c19TreeOK(t2) {
			t = t2
		}
	}
	return t
}

func c19TreeOK(t []c19E) bool {
	files := map[string]bool{}
	for _, e := range t {
		if files[e.N] {
			return false
		}
		files[e.N] = true
	}
	for _, e := range t {
		parts := strings.Split(e.N, "/")
		for i := 1; i < len(parts); i++ {
			if files[strings.Join(parts[:i], "/")] {
				return false
			}
		}
		for f := range files {
			if strings.HasPrefix(f, e.N+"/") {
				return false
			}
		}
	}
	return true
}

func replayC19(raw json.RawMessage) (bool, string) {
	var in c19In
	if err := json.Unmarshal(raw, &in); err != nil {
		return false, err.Error()
	}
	c19TmpRoot = "/verif/.work/C19-replay-tmp"
	defer os.RemoveAll(c19TmpRoot)
	es, es2 := c19FromJ(in.Es), c19FromJ(in.Es2)
	pb, _ := hex.DecodeString(in.Prefix)
	prefix := string(pb)
	orders := make([][]string, len(in.Orders))
	for i, o := range in.Orders {
		orders[i] = unhexes(o)
	}
	var msg string
	switch in.Op {
	case "formula":
		msg = c19Formula(orders[0], es)
	case "order":
		msg = c19Order(orders, es)
	case "intact":
		msg = c19ArgIntact(orders[0], es)
	case "indexopen":
		msg = c19IndexOpen(orders, es)
	case "newline":
		msg = c19Newline(es)
	case "near":
		msg = c19Near(es, es2)
	case "hashdir":
		msg = c19HashDir(in.Dir, prefix, es)
	case "hashzip":
		msg = c19HashZip(es)
	case "zipdir":
		msg = c19ZipDir(in.Dir, prefix, es)
	case "modzip":
		msg = c19ModZip(in.Dir, prefix, es)
	default:
		return false, "unknown op " + in.Op
	}
	return msg == "", msg
}

// ---------------------------------------------------------------------------------------
// module zips produced by golang.org/x/mod/zip: Create, HashZip, Unzip, HashDir

type c19ModFile struct {
	name string
	data []byte
}

func (f c19ModFile) Path() string                 { return f.name }
func (f c19ModFile) Lstat() (os.FileInfo, error)  { return c19ModInfo{f}, nil }
func (f c19ModFile) Open() (io.ReadCloser, error) { return io.NopCloser(bytes.NewReader(f.data)), nil }

type c19ModInfo struct{ f c19ModFile }

func (fi c19ModInfo) Name() string       { return filepath.Base(fi.f.name) }
func (fi c19ModInfo) Size() int64        { return int64(len(fi.f.data)) }
func (fi c19ModInfo) Mode() os.FileMode  { return 0o644 }
func (fi c19ModInfo) ModTime() time.Time { return time.Time{} }
func (fi c19ModInfo) IsDir() bool        { return false }
func (fi c19ModInfo) Sys() interface{}   { return nil }

var c19ModVersions = []module.Version{
	{Path: "example.com/m", Version: "v1.2.3"},
	{Path: "golang.org/x/mod", Version: "v0.1.0"},
	{Path: "example.com/m/v2", Version: "v2.0.0-pre.1"},
	{Path: "gopkg.in/yaml.v2", Version: "v2.4.0"},
	{Path: "example.com/Big/M", Version: "v0.0.0-20200101000000-abcdef123456"},
}

var c19ModWords = []string{".gitignore", ".env", "env", ".github", "gitignore", "a", "b", "go.mod", "main.go", "LICENSE", "README.md", "x_test.go", "doc", "pkg", "cmd", "internal",
	"v2", "é", "日本", "a b", "ß.go", ".x", "..x", "x..y", ".hidden", "-", "~", "#", "A1", "B2", "a.b", "a-b", "0", "deadbeef", "testdata", "vendor.go", "a  b", "=", "@", "+", "%"}

func c19ModFiles(r *rand.Rand) []c19E {
	n := r.Intn(8)
	var t []c19E
	seen := map[string]bool{}
	for i := 0; i < n; i++ {
		depth := 1 + r.Intn(3)
		els := make([]string, depth)
		for j := range els {
			els[j] = c19ModWords[r.Intn(len(c19ModWords))]
		}
		p := strings.Join(els, "/")
		if len(t) > 0 && r.Intn(3) == 0 {
			p = t[r.Intn(len(t))].N + pickStr(r, "x", ".go", "/sub", "_", "  y")
		}
		if seen[strings.ToLower(p)] {
			continue
		}
		seen[strings.ToLower(p)] = true
		t = append(t, c19E{N: p, C: c19Content(r)})
	}
	if r.Intn(2) == 0 && !seen["go.mod"] {
		t = append(t, c19E{N: "go.mod", C: "module example.com/m\n"})
	}
	return t
}

// c19ModZip: prefix is "path@version"; t are the module's files (relative names).
// Create the module zip with the zip package, hash it, Unzip it, hash the directory.
func c19ModZip(spec, prefix string, t []c19E) string {
	at := strings.LastIndex(prefix, "@")
	if at < 0 {
		return "bad replay prefix"
	}
	m := module.Version{Path: prefix[:at], Version: prefix[at+1:]}
	files := make([]modzip.File, len(t))
	for i, e := range t {
		files[i] = c19ModFile{e.N, []byte(e.C)}
	}
	outer, cleanup := c19TempDir()
	defer cleanup()
	zp := filepath.Join(outer, "mod.zip")
	f, err := os.Create(zp)
	if err != nil {
		return ""
	}
	err = modzip.Create(f, m, files)
	f.Close()
	if err != nil {
		return "skip: " + err.Error()
	}
	if err := modzip.Unzip(filepath.Join(outer, "unz"), m, zp); err != nil {
		return "skip: unzip: " + err.Error()
	}
	var hz, hd wire.Val
	dirArg := ""
	p := false
	if err := c19InDir(outer, "unz", spec, func(d string) {
		dirArg = d
		p, _ = hx.Guard(func() {
			s, err := dirhash.HashZip(zp, dirhash.Hash1)
			hz = c19Project(s, err)
			s, err = dirhash.HashDir(d, prefix, dirhash.Hash1)
			hd = c19Project(s, err)
		})
	}); err != nil {
		return ""
	}
	if p {
		return "panic"
	}
	if hz.String() != hd.String() {
		return fmt.Sprintf("module zip %s: HashZip = %s but HashDir(%q) after Unzip = %s (files %q)", prefix, hz, dirArg, hd, c19Names(t))
	}
	// the archive's entries as archive/zip reads them (zip.Create omits files of nested
	// modules and the like; which files it keeps is not this property's business)
	zr, err := zip.OpenReader(zp)
	if err != nil {
		return "cannot reopen module zip: " + err.Error()
	}
	defer zr.Close()
	var named []c19E
	for _, f := range zr.File {
		rc, err := f.Open()
		if err != nil {
			return "cannot open module zip entry: " + err.Error()
		}
		data, _ := io.ReadAll(rc)
		rc.Close()
		if !strings.HasPrefix(f.Name, prefix+"/") {
			return fmt.Sprintf("module zip %s has entry %q outside the prefix", prefix, f.Name)
		}
		named = append(named, c19E{f.Name, string(data), 0})
	}
	if spec := c19Spec(c19Names(named), c19Lookup(named)).String(); hz.String() != spec {
		return fmt.Sprintf("module zip %s: HashZip = %s, documented formula over the archive's entries gives %s (entries %q)", prefix, hz, spec, c19Names(named))
	}
	return ""
}

func c19ModuleZips(c *hx.Ctx) {
	r := c.Rng
	for i := 0; i < c.N(400); i++ {
		m := c19ModVersions[r.Intn(len(c19ModVersions))]
		prefix := m.Path + "@" + m.Version
		var t []c19E
		switch i % 4 {
		case 0:
			t = c19ModFiles(r)
			c.Count("modzip-files:c19")
		case 1:
			var fs []gen.ZipFileSpec
			if p, _ := hx.Guard(func() { fs = gen.ModuleFileList(r) }); p {
				c.Count("modzip-files:generator-panic")
			}
			for _, f := range fs {
				t = append(t, c19E{N: f.P, C: string(f.Content)})
			}
			c.Count("modzip-files:gen.ModuleFileList")
		default:
			var fs []gen.ZipFileSpec
			if p, _ := hx.Guard(func() { fs = gen.ValidModuleFileList(r) }); p {
				c.Count("modzip-files:generator-panic")
			}
			for _, f := range fs {
				t = append(t, c19E{N: f.P, C: string(f.Content)})
			}
			c.Count("modzip-files:gen.ValidModuleFileList")
		}
		spec := c19DirSpec(r, false)
		if spec != "abs" && r.Intn(2) == 0 {
			t = append(t, c19E{N: pickStr(r, ".gitignore", ".github/x.yml", ".env", ".x/y.go"), C: c19Content(r)})
			if r.Intn(2) == 0 {
				t = append(t, c19E{N: "env", C: c19Content(r)}, c19E{N: ".env.go", C: c19Content(r)})
			}
		}
		msg := c19ModZip(spec, prefix, t)
		if strings.HasPrefix(msg, "skip: ") {
			c.Count("modzip:refused-by-zip.Create")
			continue
		}
		c.Count("modzip:created")
		c.Count("modzip-dir:" + spec)
		c.Check("modzip-hashzip-equals-hashdir-after-unzip", msg == "", "", c19In{Op: "modzip", Dir: spec, Prefix: hex.EncodeToString([]byte(prefix)), Es: c19ToJ(t)}, msg)
		// the same file set through the model (HashZip on the abstract archive)
		if i%2 == 0 {
			z := make([]c19E, len(t))
			for j, e := range t {
				z[j] = c19E{prefix + "/" + e.N, e.C, 0}
			}
			sort.Slice(z, func(a, b int) bool { return z[a].N < z[b].N })
			res, err := c19RunZip(z)
			if err == nil {
				c.Case("HashZip", c19EntriesVal(z), res)
			}
		}
	}
}
