package props

import (
	"encoding/json"
	"fmt"
	"os"
	"path/filepath"
	"strings"

	"golang.org/x/mod/module"
	modzip "golang.org/x/mod/zip"

	"verif/harness/gen"
	"verif/harness/hx"
	"verif/harness/wire"
)

func init() { hx.Register(&hx.Prop{ID: "C12", Run: runC12, Replay: replayC12}) }

// c12Oracles runs CheckZip and Unzip of the implementation on the archive and evaluates the
// property; returns the failed oracle ("" if none) and its message.
func c12Oracles(sc *zipScratch, targetKind int, m module.Version, es []gen.ZipArchEntry, data []byte) (oracle, msg string, run zipUnzipRun, cf modzip.CheckedFiles, cerr error) {
	cf, cerr, _ = zipImplCheckZip(sc, m, data)
	run = zipImplUnzip(sc, targetKind, m, data)
	if run.Panicked {
		return "unzip-ok-iff", "Unzip panicked", run, cf, cerr
	}
	if msg = zipConfined(run); msg != "" {
		return "confined", msg, run, cf, cerr
	}
	// acceptance by CheckZip is exactly the documented restrictions
	specOK, why := zipSpecArchive(m, es)
	wantAccept := zipModuleOK(m) && specOK
	if (cerr == nil) != wantAccept {
		return "checkzip-accepts-spec", fmt.Sprintf("CheckZip error %v; documented restrictions hold: %v (%s); module ok: %v", cerr, specOK, why, zipModuleOK(m)), run, cf, cerr
	}
	if cerr == nil && len(cf.Invalid) != 0 {
		return "checkzip-accepts-spec", fmt.Sprintf("CheckZip returned nil with invalid entries %v", cf.Invalid), run, cf, cerr
	}
	sizesMatch := true
	prefix := m.Path + "@" + m.Version + "/"
	for _, e := range es {
		rel := strings.TrimPrefix(e.Name, prefix)
		if rel == "" || strings.HasSuffix(rel, "/") {
			continue
		}
		if e.Declared != uint64(len(e.Content)) {
			sizesMatch = false
		}
	}
	wantOK := cerr == nil && sizesMatch && targetKind <= 1
	if (run.Err == nil) != wantOK {
		return "unzip-ok-iff", fmt.Sprintf("Unzip error %v; CheckZip error %v; declared sizes match: %v; target kind %d", run.Err, cerr, sizesMatch, targetKind), run, cf, cerr
	}
	if cerr != nil && targetKind <= 1 {
		// rejected archives leave no trace, not even the target directory
		if len(run.After) != len(run.Before) {
			return "validates-before-writing", fmt.Sprintf("CheckZip rejects (%v) but Unzip changed the file system: %d entries before, %d after", cerr, len(run.Before), len(run.After)), run, cf, cerr
		}
	}
	if run.Err == nil {
		names := make([]string, len(es))
		contents := make([][]byte, len(es))
		for i, e := range es {
			names[i], contents[i] = e.Name, e.Content
		}
		if msg = zipTreeIsEntries(run, prefix, names, contents); msg != "" {
			return "tree-is-entries", msg, run, cf, cerr
		}
	}
	return "", "", run, cf, cerr
}

var c12OracleNames = []string{"confined", "checkzip-accepts-spec", "unzip-ok-iff", "validates-before-writing", "tree-is-entries"}

func c12Archive(c *hx.Ctx, sc *zipScratch, targetKind int, m module.Version, es []gen.ZipArchEntry, data []byte) {
	failed, msg, run, cf, cerr := c12Oracles(sc, targetKind, m, es, data)
	in := zipIn{Op: "archive", ModPath: m.Path, ModVersion: m.Version, Entries: zipJsEntries(es), TargetKind: targetKind}
	for _, o := range c12OracleNames {
		if o == failed {
			c.Check(o, false, "", in, msg)
		} else {
			c.Check(o, true, "", nil, "")
		}
	}
	c.Case("zip.CheckZip", wire.L(wire.S(m.Path), wire.S(m.Version), wire.Int(len(data)), zipEntriesVal(es)), zipReportVal(cf, cerr))
	zipUnzipCase(c, run, m, len(data), es)
	c.Count("checkzip:" + zipTopErrClass(cerr))
	c.Count("unzip:" + zipUnzipClass(run))
	c.Count(fmt.Sprintf("target-kind:%d", targetKind))
	for _, fe := range cf.Invalid {
		c.Count("entry:invalid:" + zipFileErrKind(fe.Err))
	}
	for range cf.Valid {
		c.Count("entry:valid")
	}
	if cf.SizeError != nil {
		c.Count("entry:sizeerror")
	}
	if run.Err == nil && len(es) > 0 {
		c.Nontrivial(zipEntriesVal(es).String())
	}
}

func c12TargetKind(c *hx.Ctx) int {
	switch k := c.Rng.Intn(20); {
	case k < 11:
		return 0
	case k < 17:
		return 1
	case k < 19:
		return 2
	default:
		return 3
	}
}

// zipSizeLimitRun: the archive file is padded in front (a sparse hole) so that its size is
// exactly `size`; CheckZip looks at the file size before anything else.
func zipSizeLimitRun(sc *zipScratch, size int64) (m module.Version, es []gen.ZipArchEntry, cf modzip.CheckedFiles, cerr error, msg string) {
	m = module.Version{Path: "example.com/m", Version: "v1.2.3"}
	es = []gen.ZipArchEntry{{Name: "example.com/m@v1.2.3/go.mod", Declared: 9, Content: []byte("module m\n")}}
	data, err := gen.ZipWriteArchive(nil, es)
	if err != nil {
		panic(err)
	}
	d := sc.next()
	defer zipRemoveAll(d)
	zf := filepath.Join(d, "a.zip")
	f, err := os.Create(zf)
	if err != nil {
		panic(err)
	}
	if _, err := f.WriteAt(data, size-int64(len(data))); err != nil {
		panic(err)
	}
	f.Close()
	cf, cerr = modzip.CheckZip(m, zf)
	if (cerr == nil) != (size <= modzip.MaxZipFile) {
		msg = fmt.Sprintf("archive file of %d bytes (limit %d): CheckZip error %v", size, int64(modzip.MaxZipFile), cerr)
	}
	return
}

func zipSizeLimitCases(c *hx.Ctx, sc *zipScratch) {
	for _, size := range []int64{modzip.MaxZipFile, modzip.MaxZipFile + 1} {
		m, es, cf, cerr, msg := zipSizeLimitRun(sc, size)
		c.Check("checkzip-accepts-spec", msg == "", "", zipIn{Op: "sizelimit"}, msg)
		c.Case("zip.CheckZip", wire.L(wire.S(m.Path), wire.S(m.Version), wire.I(size), zipEntriesVal(es)), zipReportVal(cf, cerr))
		c.Count("checkzip-file-size-limit")
	}
}

func runC12(c *hx.Ctx) {
	r := c.Rng
	sc := newZipScratch(c.Out)
	zipSizeLimitCases(c, sc)
	{
		m := module.Version{Path: "example.com/m", Version: "v1.2.3"}
		for i, es := range zipCorpusArchives(m) {
			data, err := gen.ZipWriteArchive(nil, es)
			if err != nil {
				panic(err)
			}
			c12Archive(c, sc, i%2, m, es, data)
		}
		for _, cm := range zipCorpusModules() {
			es := []gen.ZipArchEntry{{Name: cm.Path + "@" + cm.Version + "/go.mod", Declared: 9, Content: []byte("module m\n")}}
			data, err := gen.ZipWriteArchive(nil, es)
			if err != nil {
				panic(err)
			}
			c12Archive(c, sc, 0, cm, es, data)
		}
	}
	for i := 0; i < c.N(3500); i++ {
		m := gen.ZipModuleVersion(r)
		if r.Intn(3) != 0 {
			m = module.Version{Path: "example.com/m", Version: "v1.2.3"}
		}
		es := gen.ZipHostileArchive(r, m)
		if i%25 == 1 {
			es = gen.ZipSizeBoundaryArchive(r, m)
		}
		data, err := gen.ZipWriteArchive(r, es)
		if err != nil {
			panic(err)
		}
		c12Archive(c, sc, c12TargetKind(c), m, es, data)
		if i < 5 {
			names := []string{}
			for _, e := range es {
				names = append(names, e.Name)
			}
			c.Sample(fmt.Sprintf("archive %q", names))
		}
	}
	// archives produced by zip.Create
	for i := 0; i < c.N(500); i++ {
		m := module.Version{Path: "example.com/m/v2", Version: "v2.0.1"}
		files := gen.ValidModuleFileList(r)
		data, err := gen.CreateModuleZip(m, files)
		if err != nil {
			c.Count("created:error")
			continue
		}
		ents, _ := zipReadEntries(data)
		es := make([]gen.ZipArchEntry, len(ents))
		for j, e := range ents {
			es[j] = gen.ZipArchEntry{Name: e[0], Declared: uint64(len(e[1])), Content: []byte(e[1])}
		}
		c.Count("created:ok")
		c12Archive(c, sc, c12TargetKind(c), m, es, data)
	}
}

func replayC12(raw json.RawMessage) (bool, string) {
	var in zipIn
	if err := json.Unmarshal(raw, &in); err != nil {
		return false, err.Error()
	}
	sc := zipReplayScratch("C12")
	switch in.Op {
	case "archive":
		es := zipUnjsEntries(in.Entries)
		data, err := gen.ZipWriteArchive(nil, es)
		if err != nil {
			return false, err.Error()
		}
		o, msg, _, _, _ := c12Oracles(sc, in.TargetKind, module.Version{Path: in.ModPath, Version: in.ModVersion}, es, data)
		return o == "", strings.TrimSpace(o + " " + msg)
	case "sizelimit":
		for _, size := range []int64{modzip.MaxZipFile, modzip.MaxZipFile + 1} {
			if _, _, _, _, msg := zipSizeLimitRun(sc, size); msg != "" {
				return false, msg
			}
		}
		return true, ""
	}
	return false, "unknown op " + in.Op
}
