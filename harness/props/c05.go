package props

import (
	"bytes"
	"encoding/json"
	"fmt"
	"io"
	"math/rand"
	"os"
	"strings"
	"time"

	"golang.org/x/mod/module"
	modzip "golang.org/x/mod/zip"

	"verif/harness/gen"
	"verif/harness/hx"
	"verif/harness/wire"
)

func init() { hx.Register(&hx.Prop{ID: "C05", Run: runC05, Replay: replayC05}) }

type c05Out struct {
	data   []byte
	cerr   error
	cf     modzip.CheckedFiles
	cfErr  error
	es     []gen.ZipArchEntry
	zcf    modzip.CheckedFiles
	zerr   error
	run    zipUnzipRun
	didZip bool
}

// c05Oracles: zip.Create on the list; when it succeeds the archive goes through CheckZip and
// Unzip and the extracted tree is compared with CheckFiles.Valid byte for byte.
func c05Oracles(sc *zipScratch, m module.Version, files []gen.ZipFileSpec) (oracle, msg string, out c05Out) {
	out.data, out.cerr, _ = zipImplCreate(m, files)
	out.cf, out.cfErr = modzip.CheckFiles(gen.ToZipFiles(files))
	// content of the first regular file of each path (the one CheckFiles can accept)
	honest := true
	content := map[string][]byte{}
	for _, f := range files {
		if f.LstatErr || gen.ZipModeClass(f.Mode) != 0 {
			continue
		}
		if f.OpenErr || int64(len(f.Content)) != f.Size {
			honest = false
		}
		if _, ok := content[f.P]; !ok {
			content[f.P] = f.Content
		}
	}
	modOK := zipModuleOK(m)
	switch {
	case out.cerr == nil && !modOK:
		return "create-ok-iff-checkfiles-ok", fmt.Sprintf("Create succeeded for module %v", m), out
	case out.cerr == nil && out.cfErr != nil:
		return "create-ok-iff-checkfiles-ok", fmt.Sprintf("Create succeeded although CheckFiles reports %v", out.cfErr), out
	case out.cerr == nil:
		// ... nor when the documented rules (independent transcription) report an error
		if sp := zipSpecCheckFiles(files); sp.SizeErr || len(sp.Invalid) > 0 {
			return "create-ok-iff-checkfiles-ok", fmt.Sprintf("Create succeeded although the documented rules reject the list: size error %v, invalid %v", sp.SizeErr, sp.Invalid), out
		}
	case out.cerr != nil && modOK && honest && out.cfErr == nil:
		return "create-ok-iff-checkfiles-ok", fmt.Sprintf("Create failed (%v) although CheckFiles reports no error and all sizes are honest", out.cerr), out
	}
	if out.cerr != nil {
		return "", "", out
	}
	ents, err := zipReadEntries(out.data)
	if err != nil {
		return "created-zip-restrictions", "the archive cannot be read back: " + err.Error(), out
	}
	prefix := m.Path + "@" + m.Version + "/"
	names := make([]string, len(ents))
	contents := make([][]byte, len(ents))
	for i, e := range ents {
		out.es = append(out.es, gen.ZipArchEntry{Name: e[0], Declared: uint64(len(e[1])), Content: []byte(e[1])})
		names[i], contents[i] = e[0], []byte(e[1])
	}
	if ok, why := zipSpecArchive(m, out.es); !ok {
		return "created-zip-restrictions", "the archive violates a documented restriction: " + why, out
	}
	// entries are exactly prefix + Valid, in order, with the files' contents
	if len(ents) != len(out.cf.Valid) {
		return "create-then-unzip-tree", fmt.Sprintf("archive has entries %q, CheckFiles.Valid is %q", names, out.cf.Valid), out
	}
	for i, p := range out.cf.Valid {
		if names[i] != prefix+p || string(contents[i]) != string(content[p]) {
			return "create-then-unzip-tree", fmt.Sprintf("entry %d is %q with content %q; expected %q with %q", i, names[i], contents[i], prefix+p, content[p]), out
		}
	}
	out.didZip = true
	out.zcf, out.zerr, _ = zipImplCheckZip(sc, m, out.data)
	if out.zerr != nil || len(out.zcf.Invalid) != 0 || out.zcf.SizeError != nil {
		return "create-then-checkzip-ok", fmt.Sprintf("CheckZip rejects the created archive: %v %v", out.zerr, out.zcf.Invalid), out
	}
	if len(out.zcf.Valid) != len(names) {
		return "create-then-checkzip-ok", fmt.Sprintf("CheckZip.Valid = %q for entries %q", out.zcf.Valid, names), out
	}
	out.run = zipImplUnzip(sc, 0, m, out.data)
	if out.run.Panicked || out.run.Err != nil {
		return "create-then-unzip-tree", fmt.Sprintf("Unzip of the created archive fails: %v", out.run.Err), out
	}
	if msg := zipConfined(out.run); msg != "" {
		return "create-then-unzip-tree", msg, out
	}
	want := make([][]byte, len(out.cf.Valid))
	full := make([]string, len(out.cf.Valid))
	for i, p := range out.cf.Valid {
		want[i], full[i] = content[p], prefix+p
	}
	if msg := zipTreeIsEntries(out.run, prefix, full, want); msg != "" {
		return "create-then-unzip-tree", "extracted tree differs from CheckFiles.Valid: " + msg, out
	}
	return "", "", out
}

var c05OracleNames = []string{"create-ok-iff-checkfiles-ok", "created-zip-restrictions", "create-then-checkzip-ok", "create-then-unzip-tree"}

func c05List(c *hx.Ctx, sc *zipScratch, m module.Version, files []gen.ZipFileSpec, tag string) {
	failed, msg, out := c05Oracles(sc, m, files)
	in := zipIn{Op: "create", ModPath: m.Path, ModVersion: m.Version, Files: zipJsFiles(files)}
	for _, o := range c05OracleNames {
		if o == failed {
			c.Check(o, false, "", in, msg)
		} else {
			c.Check(o, true, "", nil, "")
		}
	}
	c.Case("zip.Create", wire.L(wire.S(m.Path), wire.S(m.Version), zipFilesVal(files)), zipCreateResultVal(out.data, out.cerr))
	c.Case("zip.CheckFiles", zipFilesVal(files), zipReportVal(out.cf, out.cfErr))
	c.Count("lists:" + tag)
	if out.cerr != nil {
		c.Count("create:" + zipTopErrClass(out.cerr))
		return
	}
	c.Count("create:ok")
	c.Count(fmt.Sprintf("create:ok:entries=%d", min(len(out.es), 6)))
	if len(out.es) > 0 && len(out.cf.Omitted) > 0 {
		c.Count("create:ok-with-omitted-files")
	}
	if out.didZip {
		c.Case("zip.CheckZip", wire.L(wire.S(m.Path), wire.S(m.Version), wire.Int(len(out.data)), zipEntriesVal(out.es)), zipReportVal(out.zcf, out.zerr))
		if out.run.Parent != "" {
			zipUnzipCase(c, out.run, m, len(out.data), out.es)
		}
	}
	if len(out.es) > 0 {
		c.Nontrivial(zipFilesVal(files).String())
	}
}

// c05ZipSizeProbe (every run): one incompressible file of exactly MaxZipFile bytes.
// CheckFiles accepts it, Create succeeds, but the encoded archive is larger than MaxZipFile, so
// CheckZip and Unzip reject what Create produced (Create never looks at the encoded size).
// The bytes are counted, not stored; CheckZip is run on a sparse file of the same size (it
// looks at the file size before anything else).  Shape "C05-zipsize" (notes/replays/C05-zipsize).
type c05Counter struct{ n int64 }

func (w *c05Counter) Write(b []byte) (int, error) { w.n += int64(len(b)); return len(b), nil }

type c05BigFile struct{ size int64 }

func (f c05BigFile) Path() string                { return "data.bin" }
func (f c05BigFile) Lstat() (os.FileInfo, error) { return c05BigInfo{f}, nil }
func (f c05BigFile) Open() (io.ReadCloser, error) {
	return io.NopCloser(io.LimitReader(&c05Repeat{}, f.size)), nil
}

// c05Repeat yields a 1 MiB pseudo-random block over and over: the period is far above the
// 32 KiB window of deflate, so the stream is as incompressible as fresh random data.
type c05Repeat struct {
	block []byte
	pos   int
}

func (r *c05Repeat) Read(b []byte) (int, error) {
	if r.block == nil {
		r.block = make([]byte, 1<<20)
		rand.New(rand.NewSource(1)).Read(r.block)
	}
	n := copy(b, r.block[r.pos:])
	r.pos = (r.pos + n) % len(r.block)
	return n, nil
}

type c05BigInfo struct{ f c05BigFile }

func (i c05BigInfo) Name() string       { return "data.bin" }
func (i c05BigInfo) Size() int64        { return i.f.size }
func (i c05BigInfo) Mode() os.FileMode  { return 0o644 }
func (i c05BigInfo) ModTime() time.Time { return time.Time{} }
func (i c05BigInfo) IsDir() bool        { return false }
func (i c05BigInfo) Sys() interface{}   { return nil }

func c05ZipSizeProbe(sc *zipScratch) string {
	m := module.Version{Path: "example.com/m", Version: "v1.0.0"}
	files := []modzip.File{c05BigFile{modzip.MaxZipFile}}
	if _, err := modzip.CheckFiles(files); err != nil {
		return ""
	}
	var w c05Counter
	if err := modzip.Create(&w, m, files); err != nil {
		return ""
	}
	d := sc.next()
	defer zipRemoveAll(d)
	zf := d + "/a.zip"
	f, err := os.Create(zf)
	if err != nil {
		panic(err)
	}
	f.Truncate(w.n)
	f.Close()
	if _, err := modzip.CheckZip(m, zf); err != nil && w.n > modzip.MaxZipFile {
		return fmt.Sprintf("Create succeeded on one incompressible file of %d bytes and wrote %d bytes; CheckZip on an archive of that size: %v", int64(modzip.MaxZipFile), w.n, err)
	}
	return ""
}

// c05TotalProbe: a tree of REAL data (lazily produced zeros) whose total is above MaxZipFile
// only because of its go.mod: the other file has MaxZipFile-50 bytes, go.mod 100.  The file
// check must report the size error and Create must fail (it then reads nothing); if Create
// succeeds the archive (zeros compress to under a megabyte) goes through CheckZip.
type c05ZeroFile struct {
	path string
	size int64
	head []byte
}

func (f c05ZeroFile) Path() string                { return f.path }
func (f c05ZeroFile) Lstat() (os.FileInfo, error) { return c05ZeroInfo{f}, nil }
func (f c05ZeroFile) Open() (io.ReadCloser, error) {
	return io.NopCloser(io.LimitReader(io.MultiReader(bytes.NewReader(f.head), c05Zeros{}), f.size)), nil
}

type c05Zeros struct{}

func (c05Zeros) Read(b []byte) (int, error) {
	for i := range b {
		b[i] = '\n'
	}
	return len(b), nil
}

type c05ZeroInfo struct{ f c05ZeroFile }

func (i c05ZeroInfo) Name() string       { return i.f.path }
func (i c05ZeroInfo) Size() int64        { return i.f.size }
func (i c05ZeroInfo) Mode() os.FileMode  { return 0o644 }
func (i c05ZeroInfo) ModTime() time.Time { return time.Time{} }
func (i c05ZeroInfo) IsDir() bool        { return false }
func (i c05ZeroInfo) Sys() interface{}   { return nil }

func c05TotalProbe(sc *zipScratch) string {
	m := module.Version{Path: "example.com/m", Version: "v1.0.0"}
	files := []modzip.File{
		c05ZeroFile{"data.bin", modzip.MaxZipFile - 50, nil},
		c05ZeroFile{"go.mod", 100, []byte("module example.com/m\n")},
	}
	_, cfErr := modzip.CheckFiles(files)
	var buf bytes.Buffer
	cerr := modzip.Create(&buf, m, files)
	if cerr != nil {
		if cfErr == nil {
			return fmt.Sprintf("total %d bytes: CheckFiles reports no error but Create fails: %v", int64(modzip.MaxZipFile)+50, cerr)
		}
		return ""
	}
	if cfErr != nil {
		return fmt.Sprintf("Create succeeded although CheckFiles reports %v", cfErr)
	}
	_, zerr, _ := zipImplCheckZip(sc, m, buf.Bytes())
	if zerr != nil {
		return fmt.Sprintf("files data.bin (%d bytes) and go.mod (100 bytes): Create succeeded, CheckZip rejects the archive: %v", int64(modzip.MaxZipFile)-50, zerr)
	}
	return fmt.Sprintf("a tree of %d bytes was accepted by CheckFiles, Create and CheckZip", int64(modzip.MaxZipFile)+50)
}

// c05LicenseProbe: a LICENSE outside the root larger than MaxLICENSE, with real (lazily produced,
// highly compressible) data: only the root LICENSE is limited, so CheckFiles, Create, CheckZip
// and Unzip must all accept it.
func c05LicenseProbe(sc *zipScratch) string {
	m := module.Version{Path: "example.com/m", Version: "v1.0.0"}
	files := []modzip.File{
		c05ZeroFile{"go.mod", 21, []byte("module example.com/m\n")},
		c05ZeroFile{"third_party/LICENSE", modzip.MaxLICENSE + 1, nil},
	}
	if _, err := modzip.CheckFiles(files); err != nil {
		return "" // the list oracles of C17 speak about CheckFiles
	}
	var buf bytes.Buffer
	if err := modzip.Create(&buf, m, files); err != nil {
		return fmt.Sprintf("third_party/LICENSE of %d bytes: CheckFiles reports no error but Create fails: %v", int64(modzip.MaxLICENSE)+1, err)
	}
	cf, zerr, _ := zipImplCheckZip(sc, m, buf.Bytes())
	if zerr != nil {
		return fmt.Sprintf("third_party/LICENSE of %d bytes: Create succeeded, CheckZip rejects the archive: %v %v", int64(modzip.MaxLICENSE)+1, zerr, cf.Invalid)
	}
	run := zipImplUnzip(sc, 0, m, buf.Bytes())
	if run.Err != nil {
		return fmt.Sprintf("third_party/LICENSE of %d bytes: Create and CheckZip succeeded, Unzip fails: %v", int64(modzip.MaxLICENSE)+1, run.Err)
	}
	return ""
}

func runC05(c *hx.Ctx) {
	r := c.Rng
	sc := newZipScratch(c.Out)
	{
		// known finding K8, probed on every run (both tiers)
		msg := c05ZipSizeProbe(sc)
		c.Check("create-then-checkzip-ok", msg == "", "C05-zipsize", zipIn{Op: "zipsize"}, msg)
		c.Count("zipsize-probe")
		msg = c05TotalProbe(sc)
		c.Check("create-then-checkzip-ok", msg == "", "", zipIn{Op: "totalsize"}, msg)
		msg = c05LicenseProbe(sc)
		c.Check("create-then-checkzip-ok", msg == "", "", zipIn{Op: "license"}, msg)
	}
	for _, files := range zipCorpusLists() {
		c05List(c, sc, module.Version{Path: "example.com/m", Version: "v1.2.3"}, files, "corpus")
	}
	for _, m := range zipCorpusModules() {
		c05List(c, sc, m, zcList("go.mod", "quote.go", "a/b.go"), "corpus-module")
	}
	for i := 0; i < c.N(3500); i++ {
		m := gen.ZipModuleVersion(r)
		var files []gen.ZipFileSpec
		tag := "hostile"
		switch k := r.Intn(10); {
		case i%20 == 1:
			files, tag = gen.ZipSizeBoundaryList(r), "size-boundary"
		case k < 5:
			files, tag = gen.ValidModuleFileList(r), "well-formed"
		case k < 7:
			// well-formed names with omitted files mixed in
			files, tag = gen.ValidModuleFileList(r), "well-formed+omitted"
			extra := []string{"vendor/a/x.go", "sub/go.mod", "sub/x.go", ".hg_archival.txt", "a/vendor/b/c.go", "vendor/modules.txt", "link"}
			for _, p := range extra {
				if r.Intn(3) == 0 {
					f := gen.ZipFileSpec{P: p, Mode: 0o644, Content: []byte("x"), Size: 1}
					if p == "link" {
						f.Mode = 0o777 | os.ModeSymlink
					}
					files = append(files, f)
				}
			}
			r.Shuffle(len(files), func(i, j int) { files[i], files[j] = files[j], files[i] })
			// sometimes a name whose prefix up to the first dot is a reserved Windows name
			if r.Intn(8) == 0 {
				p := []string{"aux.tar.gz", "pkg/NUL.en.md", "a/com1.v1.d", "con.a.b", "Lpt9.x.y/z.go", "prn.go"}[r.Intn(6)]
				files = append(files, gen.ZipFileSpec{P: p, Mode: 0o644, Content: []byte("x"), Size: 1})
			}
			// sometimes one file cannot be opened or is longer than it declares
			if len(files) > 0 && r.Intn(4) == 0 {
				i := r.Intn(len(files))
				if r.Intn(2) == 0 {
					files[i].OpenErr = true
				} else if len(files[i].Content) > 0 {
					files[i].Size = int64(r.Intn(len(files[i].Content)))
				}
			}
		default:
			files = gen.ModuleFileList(r)
		}
		c05List(c, sc, m, files, tag)
		if i < 5 {
			ps := []string{}
			for _, f := range files {
				ps = append(ps, f.P)
			}
			c.Sample(fmt.Sprintf("Create %v %q", m, ps))
		}
	}
}

func replayC05(raw json.RawMessage) (bool, string) {
	var in zipIn
	if err := json.Unmarshal(raw, &in); err != nil {
		return false, err.Error()
	}
	sc := zipReplayScratch("C05")
	if in.Op == "license" {
		msg := c05LicenseProbe(sc)
		return msg == "", msg
	}
	if in.Op == "totalsize" {
		msg := c05TotalProbe(sc)
		return msg == "", msg
	}
	if in.Op == "zipsize" {
		msg := c05ZipSizeProbe(sc)
		return msg == "", msg
	}
	if in.Op != "create" {
		return false, "unknown op " + in.Op
	}
	o, msg, _ := c05Oracles(sc, module.Version{Path: in.ModPath, Version: in.ModVersion}, zipUnjsFiles(in.Files))
	return o == "", strings.TrimSpace(o + " " + msg)
}
