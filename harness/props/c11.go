package props

import (
	"encoding/json"
	"fmt"
	"math/rand"
	"strings"

	"golang.org/x/mod/module"

	"verif/harness/gen"
	"verif/harness/hx"
	"verif/harness/wire"
)

func init() { hx.Register(&hx.Prop{ID: "C11", Run: runC11, Replay: replayC11}) }

type c11In struct {
	Op string   `json:"op"` // path, version, unpath, unversion, pathpair, versionpair
	V  []string `json:"v_hex"`
}

// c11Class projects an error of the four functions: "invalid" for a refused argument
// (InvalidPathError, InvalidVersionError, any Unescape failure), "internal" for the
// plain error of escapeString.
func c11Class(err error) string {
	switch err.(type) {
	case *module.InvalidPathError, *module.InvalidVersionError:
		return "invalid"
	}
	return "internal"
}

func c11Esc(f func(string) (string, error), s string, unescape bool) (out string, cls string, val wire.Val) {
	var err error
	if pn, _ := hx.Guard(func() { out, err = f(s) }); pn {
		return "", "panic", wire.Panic()
	}
	if err != nil {
		cls = c11Class(err)
		if unescape {
			cls = "invalid"
		}
		return "", cls, wire.Err(cls)
	}
	return out, "ok", wire.Ok(wire.S(out))
}

func hasUpper(s string) bool {
	for i := 0; i < len(s); i++ {
		if 'A' <= s[i] && s[i] <= 'Z' {
			return true
		}
	}
	return false
}

func isASCII(s string) bool {
	for i := 0; i < len(s); i++ {
		if s[i] >= 0x80 {
			return false
		}
	}
	return true
}

// Validity is decided INDEPENDENTLY of module.CheckPath / checkElem: by the literal
// transcription of the doc comments written for C06 (c06.go: c06DocElemOK / c06DocPathOK;
// literalDots=false, i.e. without the "two dots in a row" clause the implementation does
// not enforce — known finding K5 of C06 — so that shape stays out of this comparison).

// c11Allowed: the documented domain of EscapeVersion: a valid file-name element without
// exclamation marks.
func c11Allowed(v string) bool {
	return !strings.Contains(v, "/") && !strings.Contains(v, "!") && c06DocElemOK(c06File, v, false)
}

// c11DocPath: a valid module path by the documented rules.
func c11DocPath(p string) bool { return c06DocPathOK(c06Module, p, false) }

// c11Path: the clauses of the property for one string used as a module path.
func c11Path(p string) (msg, shape string) {
	e, cls, _ := c11Esc(module.EscapePath, p, false)
	valid := c11DocPath(p)
	switch {
	case cls == "panic":
		return fmt.Sprintf("EscapePath(%q) panicked", p), ""
	case valid && cls != "ok":
		return fmt.Sprintf("%q is a valid module path by the documented rules but EscapePath fails (%s)", p, cls), ""
	case !valid && cls != "invalid":
		return fmt.Sprintf("%q is not a valid module path by the documented rules but EscapePath gives %s %q", p, cls, e), ""
	case !valid:
		return "", ""
	}
	if hasUpper(e) || !isASCII(e) {
		return fmt.Sprintf("EscapePath(%q)=%q contains an upper-case or non-ASCII byte", p, e), ""
	}
	back, c2, _ := c11Esc(module.UnescapePath, e, true)
	if c2 != "ok" || back != p {
		return fmt.Sprintf("UnescapePath(EscapePath(%q)=%q)=%q (%s)", p, e, back, c2), ""
	}
	return "", ""
}

func c11Version(v string) (msg, shape string) {
	e, cls, _ := c11Esc(module.EscapeVersion, v, false)
	allowed := c11Allowed(v)
	switch {
	case cls == "panic":
		return fmt.Sprintf("EscapeVersion(%q) panicked", v), ""
	case allowed && cls != "ok":
		if !isASCII(v) {
			shape = "K3"
		}
		return fmt.Sprintf("%q is a valid file-name element without '!' but EscapeVersion fails (%s)", v, cls), shape
	case !allowed && cls != "invalid":
		return fmt.Sprintf("%q is not an allowed version but EscapeVersion gives %s %q", v, cls, e), ""
	case !allowed:
		return "", ""
	}
	if hasUpper(e) || !isASCII(e) {
		return fmt.Sprintf("EscapeVersion(%q)=%q contains an upper-case or non-ASCII byte", v, e), ""
	}
	back, c2, _ := c11Esc(module.UnescapeVersion, e, true)
	if c2 != "ok" || back != v {
		return fmt.Sprintf("UnescapeVersion(EscapeVersion(%q)=%q)=%q (%s)", v, e, back, c2), ""
	}
	return "", ""
}

// c11Un: Unescape succeeds only on the escape of a valid input.
func c11Un(path bool, x string) string {
	un, esc, name := module.UnescapeVersion, module.EscapeVersion, "Version"
	if path {
		un, esc, name = module.UnescapePath, module.EscapePath, "Path"
	}
	p, cls, _ := c11Esc(un, x, true)
	if cls == "panic" {
		return fmt.Sprintf("Unescape%s(%q) panicked", name, x)
	}
	if cls != "ok" {
		return ""
	}
	if path && !c11DocPath(p) {
		return fmt.Sprintf("UnescapePath(%q)=%q which is not a valid module path by the documented rules", x, p)
	}
	if !path && !c11Allowed(p) {
		return fmt.Sprintf("UnescapeVersion(%q)=%q which is not an allowed version", x, p)
	}
	e, c2, _ := c11Esc(esc, p, false)
	if c2 != "ok" || e != x {
		return fmt.Sprintf("Unescape%s(%q)=%q but Escape%s of that is %q (%s)", name, x, p, name, e, c2)
	}
	return ""
}

// c11Pair: two different inputs never escape to strings equal under case folding.
func c11Pair(path bool, a, b string) string {
	esc, name := module.EscapeVersion, "Version"
	if path {
		esc, name = module.EscapePath, "Path"
	}
	ea, ca, _ := c11Esc(esc, a, false)
	eb, cb, _ := c11Esc(esc, b, false)
	if ca != "ok" || cb != "ok" || a == b {
		return ""
	}
	if strings.EqualFold(ea, eb) {
		return fmt.Sprintf("Escape%s(%q)=%q and Escape%s(%q)=%q are equal ignoring case", name, a, ea, name, b, eb)
	}
	return ""
}

func c11MixCase(r *rand.Rand, s string) string {
	b := []byte(s)
	mode := r.Intn(4)
	for i, ch := range b {
		switch {
		case 'a' <= ch && ch <= 'z':
			if mode == 0 || (mode == 1 && r.Intn(2) == 0) || (mode == 2 && r.Intn(6) == 0) {
				b[i] = ch - 32
			}
		case 'A' <= ch && ch <= 'Z':
			if mode == 3 && r.Intn(2) == 0 {
				b[i] = ch + 32
			}
		}
	}
	return string(b)
}

func c11Insert(r *rand.Rand, s, what string) string {
	i := r.Intn(len(s) + 1)
	return s[:i] + what + s[i:]
}

// keep upper-case letters out of the first path element (which must be lower-case)
func c11UpperTail(r *rand.Rand, p string) string {
	i := strings.IndexByte(p, '/')
	if i < 0 {
		return p
	}
	return p[:i] + c11MixCase(r, p[i:])
}

// c11ValidPath draws until CheckPath accepts (at most 6 draws): most Escape/Unescape
// behaviour of interest is on valid paths.
func c11ValidPath(r *rand.Rand) string {
	p := gen.ModulePath(r)
	for i := 0; i < 6 && !c11DocPath(p); i++ {
		p = gen.ModulePath(r)
	}
	return p
}

func c11GenPath(r *rand.Rand) string {
	p := gen.ModulePath(r)
	if r.Intn(2) == 0 {
		p = c11ValidPath(r)
	}
	switch k := r.Intn(20); {
	case k < 8:
		return c11UpperTail(r, p)
	case k < 10:
		return c11MixCase(r, p)
	case k < 12:
		return c11Insert(r, p, "!")
	case k < 13:
		return c11Insert(r, p, "!"+pick18(r, "A", "Z", "!", "1", ".", "/", "-", "é", ""))
	case k < 14:
		return c11Insert(r, c11UpperTail(r, p), pick18(r, "é", "ß", "Ω", "\xff", "\x80", "日"))
	case k < 15:
		// escaped-looking input handed to Escape
		e, err := module.EscapePath(c11UpperTail(r, p))
		if err == nil {
			return e
		}
		return p
	default:
		return p
	}
}

func c11GenVersion(r *rand.Rand) string {
	var v string
	switch k := r.Intn(20); {
	case k < 8:
		v = gen.Version(r)
	case k < 11: // arbitrary file-name elements
		parts := strings.Split(gen.FilePath(r), "/")
		v = parts[r.Intn(len(parts))]
	case k < 13:
		v = pick18(r, "v1.0.0-RC1", "v1.2.3-Beta.2", "V1.0.0", "v1.0.0+Incompatible", "master", "HEAD", "Release-1.0", "v2.0.0-PRE", "A", "Z", "aZ", "v1.2.3-0.20200101000000-ABCDEF123456")
	case k < 14: // K3 shapes: letters outside ASCII are valid file-name characters
		v = pick18(r, "vé", "é", "v1.0.0-é", "release-ß", "Ωmega", "日本", "v1.2.3+я", "naïve", "É", "Éa", "aÉ")
	default:
		v = gen.Version(r)
	}
	switch k := r.Intn(20); {
	case k < 7:
		v = c11MixCase(r, v)
	case k < 9:
		v = c11Insert(r, v, "!")
	case k < 10:
		v = c11Insert(r, v, "!"+pick18(r, "A", "Z", "!", "1", ".", "/", "é"))
	case k < 11:
		v = c11Insert(r, v, pick18(r, "é", "ß", "\xff", "\x80", "€", " ", "/", "\\", ":", "*"))
	case k < 12:
		if e, err := module.EscapeVersion(c11MixCase(r, v)); err == nil {
			v = e
		}
	}
	return v
}

// c11GenEscaped: arguments for Unescape: genuine escapes and near misses.
func c11GenEscaped(r *rand.Rand, path bool) string {
	var e string
	if path {
		p := c11UpperTail(r, c11ValidPath(r))
		if x, err := module.EscapePath(p); err == nil {
			e = x
		} else {
			e = p
		}
	} else {
		v := c11MixCase(r, gen.Version(r))
		if x, err := module.EscapeVersion(v); err == nil {
			e = x
		} else {
			e = v
		}
	}
	switch k := r.Intn(20); {
	case k < 9:
		return e
	case k < 11:
		return c11Insert(r, e, "!")
	case k < 12:
		return c11Insert(r, e, "!"+pick18(r, "A", "Z", "M", "!", "0", "9", ".", "/", "-", "_", "~", "`", "{", "é", "\xff"))
	case k < 13: // lower-case letters at the ends of the alphabet after '!'
		return c11Insert(r, e, pick18(r, "!z", "!a", "!z!z", "!y", "!{", "!`"))
	case k < 14:
		return e + "!"
	case k < 15:
		return c11MixCase(r, e)
	case k < 16:
		return c11Insert(r, e, pick18(r, "é", "\x80", "\xff", "日"))
	case k < 17:
		return strings.Replace(e, "!", "", 1)
	case k < 18:
		return strings.Replace(e, "!", "!!", 1)
	case k < 19: // escape something that makes the unescaped string invalid
		return c11Insert(r, e, pick18(r, "!c!o!n", "//", "/!c!o!m1/", "/.", "./", " ", "/!v2", "/v!2"))
	default:
		return gen.Mutate(r, e, "!aAzZ./-é")
	}
}

// c11HandEscape writes the escaped form of s by the documented rule, whether or not
// Escape would accept s: '!' + lower-case letter for every upper-case letter.
func c11HandEscape(s string) string {
	var b strings.Builder
	for i := 0; i < len(s); i++ {
		if 'A' <= s[i] && s[i] <= 'Z' {
			b.WriteByte('!')
			b.WriteByte(s[i] + 32)
		} else {
			b.WriteByte(s[i])
		}
	}
	return b.String()
}

var c11Reserved = []string{"con", "prn", "aux", "nul", "com1", "com5", "com9", "lpt1", "lpt3", "lpt9", "com0", "com10", "lpt", "conx", "xcon", "null"}

// c11NearElem: an element that is invalid (or just valid) for reasons other than its
// characters: reserved Windows names in mixed case with and without extensions, trailing /
// leading / only dots, tilde-digit short names.
func c11NearElem(r *rand.Rand) string {
	switch r.Intn(14) {
	case 10, 11: // reserved name followed by TWO OR MORE extensions
		return c11MixCase(r, pick18(r, c11Reserved...)) + "." + c11MixCase(r, pick18(r, "tar.gz", "v1.0.0", "d.old", "v1.2", "0.0-RC1", "a.b.c", "x.y", "tar.gz.sig", "0.0", "min.js"))
	case 12: // short name (~digits before the first dot) with several dots
		return c11MixCase(r, pick18(r, "longna", "progra", "a", "X")) + "~" + pick18(r, "1", "2", "12", "1a", "") + "." + c11MixCase(r, pick18(r, "tar.gz", "v1.0", "a.b.c", "d.old"))
	case 13: // the only capital letters are 'Z'
		return pick18(r, "Zeta", "jaZZ", "v1.1.0-Zulu", "Z", "ZZ", "aZ.b", "z.Z", "v1.0.0-rc.Z", "Zz.tar.gz", "nul.Z.z", "conZ", "auxZ.z.z")
	case 0, 1, 2:
		return c11MixCase(r, pick18(r, c11Reserved...))
	case 3, 4:
		return c11MixCase(r, pick18(r, c11Reserved...)) + "." + c11MixCase(r, pick18(r, "txt", "v2", "tar.gz", "go", "c", "x~1"))
	case 5:
		return c11MixCase(r, pick18(r, "foo", "v1.0.0", "a.b", "Rel")) + pick18(r, ".", "..", ". ")
	case 6:
		return pick18(r, ".", "..", "...", ".") + c11MixCase(r, pick18(r, "", "git", "a", "Hidden"))
	case 7:
		return c11MixCase(r, pick18(r, "progra", "foo", "a", "LongName")) + "~" + pick18(r, "1", "2", "12", "1a", "") + pick18(r, "", ".txt", ".Go")
	case 8:
		return c11MixCase(r, pick18(r, "v1.0.0", "release", "Master", "v2.0.0-RC1", "v1.2.3+Incompatible"))
	default:
		return c11MixCase(r, pick18(r, c11Reserved...)) + pick18(r, "-x", "_", "1", " ", "+")
	}
}

// c11NearPath: module paths valid except for one structural rule (or valid), mixed case.
func c11NearPath(r *rand.Rand) string {
	dom := pick18(r, "example.com", "github.com", "a.b", "gopkg.in", "x.y.z")
	switch r.Intn(14) {
	case 12: // the only capital letters are 'Z'
		return dom + "/" + pick18(r, "Zeta/pkg", "jaZZ", "pkg/Zulu", "Z", "a/Z/b", "lib.Z", "Zz/zZ/v2", "x~Z", "Z_z-Z")
	case 13: // reserved / short names with two or more dots inside a path
		return dom + "/" + c11MixCase(r, pick18(r, "aux.tar.gz", "con.v1.2/sub", "longna~1.tar.gz", "com1.d.old", "nul.v1.0.0", "lpt9.a.b.c/x", "pkg/prn.x.y", "aux.tar.gzz", "auxx.tar.gz", "a.aux.tar.gz"))
	case 0: // missing dot in the first element
		return pick18(r, "example", "localhost", "Foo", "std") + "/" + c11MixCase(r, "pkg/sub")
	case 1: // upper case in the first element
		return c11MixCase(r, "Example.Com") + "/" + c11MixCase(r, "pkg")
	case 2: // bad major-version suffix
		return dom + "/" + c11MixCase(r, "pkg") + pick18(r, "/v1", "/v0", "/v01", "/v2.1", "/v1.2.3")
	case 3:
		return dom + "/" + c11NearElem(r)
	case 4:
		return dom + "/" + c11MixCase(r, "pkg") + "/" + c11NearElem(r) + "/" + c11MixCase(r, "sub")
	case 5:
		return c11NearElem(r) + ".com/" + c11MixCase(r, "pkg")
	case 6:
		return dom + "/" + c11MixCase(r, "Pkg") + pick18(r, "/", "//x", "/./y", "/../z")
	case 7:
		return pick18(r, "-", "/", ".") + dom + "/" + c11MixCase(r, "pkg")
	case 8:
		return "gopkg.in/" + c11MixCase(r, pick18(r, "yaml", "Check", "user/Pkg")) + pick18(r, ".v1", ".v2-unstable", ".v0", ".v01", "", ".V1", ".v1-Unstable")
	case 9:
		return dom + "/" + c11MixCase(r, pick18(r, "a_b", "x-y", "my~pkg", "Q.R", "AZaz09"))
	default:
		return c11UpperTail(r, gen.ModulePath(r))
	}
}

type c11Buckets struct {
	m map[string]string
}

// add returns a colliding earlier input, if any.
func (b *c11Buckets) add(in, escaped string) (string, bool) {
	k := strings.ToLower(escaped)
	if prev, ok := b.m[k]; ok {
		if prev != in {
			return prev, true
		}
		return "", false
	}
	b.m[k] = in
	return "", false
}

func runC11(c *hx.Ctx) {
	r := c.Rng
	pathB := &c11Buckets{m: map[string]string{}}
	verB := &c11Buckets{m: map[string]string{}}
	k3 := 0

	onPath := func(p string) {
		e, cls, val := c11Esc(module.EscapePath, p, false)
		c.Case("EscapePath", wire.S(p), val)
		c.Count("EscapePath:" + cls)
		if cls == "ok" {
			if hasUpper(p) {
				c.Count("EscapePath:ok,with-upper")
				c.Nontrivial("p:" + p)
			}
			if prev, hit := pathB.add(p, e); hit {
				msg := c11Pair(true, prev, p)
				c.Check("path-fold-injective", msg == "", "", c11In{"pathpair", hexes(prev, p)}, msg)
			} else {
				c.Check("path-fold-injective", true, "", nil, "")
			}
		}
		msg, shape := c11Path(p)
		c.Check("path-escape-iff-valid+no-upper+roundtrip", msg == "", shape, c11In{"path", hexes(p)}, msg)
	}
	onVersion := func(v string) {
		e, cls, val := c11Esc(module.EscapeVersion, v, false)
		c.Case("EscapeVersion", wire.S(v), val)
		c.Count("EscapeVersion:" + cls)
		if cls == "ok" {
			if hasUpper(v) {
				c.Count("EscapeVersion:ok,with-upper")
				c.Nontrivial("v:" + v)
			}
			if prev, hit := verB.add(v, e); hit {
				msg := c11Pair(false, prev, v)
				c.Check("version-fold-injective", msg == "", "", c11In{"versionpair", hexes(prev, v)}, msg)
			} else {
				c.Check("version-fold-injective", true, "", nil, "")
			}
		}
		msg, shape := c11Version(v)
		if shape == "K3" {
			// known finding: reported a few times only, so that it cannot fill the
			// framework's failure list and hide another failure
			c.Count("EscapeVersion:K3-shape")
			if k3 < 3 {
				k3++
				c.Check("escape-version-accepts-allowed", false, shape, c11In{"version", hexes(v)}, msg)
			}
			return
		}
		c.Check("escape-version-accepts-allowed", true, "", nil, "")
		c.Check("version-escape-iff-allowed+no-upper+roundtrip", msg == "", shape, c11In{"version", hexes(v)}, msg)
	}
	onUnPath := func(x string) {
		_, cls, val := c11Esc(module.UnescapePath, x, true)
		c.Case("UnescapePath", wire.S(x), val)
		c.Count("UnescapePath:" + cls)
		if cls == "ok" && strings.Contains(x, "!") {
			c.Count("UnescapePath:ok,with-bang")
			c.Nontrivial("up:" + x)
		}
		msg := c11Un(true, x)
		c.Check("unescape-path-image", msg == "", "", c11In{"unpath", hexes(x)}, msg)
	}
	onUnVersion := func(x string) {
		_, cls, val := c11Esc(module.UnescapeVersion, x, true)
		c.Case("UnescapeVersion", wire.S(x), val)
		c.Count("UnescapeVersion:" + cls)
		if cls == "ok" && strings.Contains(x, "!") {
			c.Count("UnescapeVersion:ok,with-bang")
			c.Nontrivial("uv:" + x)
		}
		msg := c11Un(false, x)
		c.Check("unescape-version-image", msg == "", "", c11In{"unversion", hexes(x)}, msg)
	}

	// exhaustive: every string of length <= 5 (quick; 6 thorough) over {a,B,!,.,/,é}
	alpha := []string{"a", "B", "!", ".", "/", "é"}
	maxLen := 5
	if c.Tier == "thorough" {
		maxLen = 6
	}
	var rec func(prefix string, n int)
	rec = func(prefix string, n int) {
		onPath(prefix)
		onVersion(prefix)
		onUnPath(prefix)
		onUnVersion(prefix)
		if n == maxLen {
			return
		}
		for _, a := range alpha {
			rec(prefix+a, n+1)
		}
	}
	rec("", 0)

	for i := 0; i < c.N(12000); i++ {
		p := c11GenPath(r)
		onPath(p)
		// a case-variant of the same path, to fill the fold buckets
		if r.Intn(3) == 0 {
			onPath(c11UpperTail(r, strings.ToLower(p)))
		}
		if i%1500 == 0 {
			e, err := module.EscapePath(p)
			c.Sample(fmt.Sprintf("EscapePath(%q)=%q,%v", p, e, err))
		}
	}
	for i := 0; i < c.N(10000); i++ {
		v := c11GenVersion(r)
		onVersion(v)
		if r.Intn(3) == 0 {
			onVersion(c11MixCase(r, strings.ToLower(v)))
		}
	}
	for i := 0; i < c.N(8000); i++ {
		onUnPath(c11GenEscaped(r, true))
		onUnVersion(c11GenEscaped(r, false))
	}
	// Unescape on the hand-escaped form of near-valid inputs (valid or invalid for reasons
	// other than their characters), and Escape on the inputs themselves
	for i := 0; i < c.N(6000); i++ {
		p := c11NearPath(r)
		onPath(p)
		onUnPath(c11HandEscape(p))
		v := c11NearElem(r)
		onVersion(v)
		onUnVersion(c11HandEscape(v))
		if !c11DocPath(p) {
			c.Count("near:path-invalid")
		} else {
			c.Count("near:path-valid")
		}
		if c11Allowed(v) {
			c.Count("near:version-allowed")
		} else {
			c.Count("near:version-refused")
		}
	}
	// adversarial pairs for fold-injectivity: inputs whose escapes differ only in case or in
	// the placement of '!'
	for i := 0; i < c.N(3000); i++ {
		p := c11UpperTail(r, c11ValidPath(r))
		q := c11UpperTail(r, strings.ToLower(p))
		if r.Intn(4) == 0 {
			if e, err := module.EscapePath(p); err == nil {
				q = e // the escaped form itself, as a path ('!' makes it invalid)
			}
		}
		msg := c11Pair(true, p, q)
		c.Check("path-fold-injective", msg == "", "", c11In{"pathpair", hexes(p, q)}, msg)
		v := c11MixCase(r, gen.Version(r))
		w := c11MixCase(r, strings.ToLower(v))
		msg = c11Pair(false, v, w)
		c.Check("version-fold-injective", msg == "", "", c11In{"versionpair", hexes(v, w)}, msg)
	}
}

func replayC11(raw json.RawMessage) (bool, string) {
	var in c11In
	if err := json.Unmarshal(raw, &in); err != nil {
		return false, err.Error()
	}
	v := unhexes(in.V)
	var msg string
	switch in.Op {
	case "path":
		msg, _ = c11Path(v[0])
	case "version":
		msg, _ = c11Version(v[0])
	case "unpath":
		msg = c11Un(true, v[0])
	case "unversion":
		msg = c11Un(false, v[0])
	case "pathpair":
		msg = c11Pair(true, v[0], v[1])
	case "versionpair":
		msg = c11Pair(false, v[0], v[1])
	default:
		return false, "unknown op"
	}
	return msg == "", msg
}
