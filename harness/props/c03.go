package props

import (
	"context"
	"crypto/sha256"
	"encoding/hex"
	"encoding/json"
	"fmt"
	"math/rand"
	"os"
	"os/exec"
	"path/filepath"
	"sync/atomic"
	"time"

	"golang.org/x/mod/sumdb/tlog"

	"verif/harness/gen"
	"verif/harness/hx"
	"verif/harness/wire"
)

func init() { hx.Register(&hx.Prop{ID: "C03", Run: runC03, Replay: replayC03}) }

// c03In is a self-contained replay: the log is regenerated from (Sub, Size); a check tuple is
// given in full.
type c03In struct {
	Op   string   `json:"op"` // "prove-record", "prove-tree", "check-record", "check-tree", "huge-record", "huge-tree", "reject-record", "reject-tree"
	Sub  int64    `json:"sub,omitempty"`
	Size int      `json:"size,omitempty"`
	Rec  string   `json:"rec_hex,omitempty"` // huge-*, sparse-*: the record every entry of the virtual log holds
	Sp   []int64  `json:"special,omitempty"`  // sparse-*: positions holding the record rec#<position> instead
	Data string   `json:"data_hex,omitempty"` // leaf: record content
	Lens bool     `json:"boundary_lengths,omitempty"` // prove-*: the log is gen.BoundaryLenRecords(sub, size)
	P    []string `json:"p_hex,omitempty"`
	T    int64    `json:"t"`
	TH   string   `json:"th_hex,omitempty"`
	N    int64    `json:"n"`
	H    string   `json:"h_hex,omitempty"`
}

type c03Tuple struct {
	P  []tlog.Hash
	T  int64
	TH tlog.Hash
	N  int64
	H  tlog.Hash
}

func (u c03Tuple) clone() c03Tuple {
	u.P = append([]tlog.Hash(nil), u.P...)
	return u
}

func (u c03Tuple) in(op string, sub int64, size int) c03In {
	ps := make([]string, len(u.P))
	for i, h := range u.P {
		ps[i] = hex.EncodeToString(h[:])
	}
	return c03In{Op: op, Sub: sub, Size: size, P: ps, T: u.T, TH: hex.EncodeToString(u.TH[:]), N: u.N, H: hex.EncodeToString(u.H[:])}
}

func (u c03Tuple) val() wire.Val {
	return wire.L(gen.HashesVal(u.P), wire.I(u.T), wire.Bytes(u.TH[:]), wire.I(u.N), wire.Bytes(u.H[:]))
}

var c03Timeouts int32 // calls abandoned by c03Timed

// c03Timed runs f with a time limit (sizes near 2^62 made an older maxpow2 loop forever).
func c03Timed(f func() wire.Val) (v wire.Val, timedOut bool) {
	ch := make(chan wire.Val, 1)
	go func() { ch <- f() }()
	tm := time.NewTimer(10 * time.Second)
	defer tm.Stop()
	select {
	case v = <-ch:
		return v, false
	case <-tm.C:
		atomic.AddInt32(&c03Timeouts, 1)
		return wire.Err("timeout"), true
	}
}

func c03ErrVal(err error) wire.Val {
	if err == nil {
		return wire.Ok(wire.L())
	}
	return gen.TlogErrVal(err)
}

func c03CheckRecord(u c03Tuple) (wire.Val, bool) {
	return c03Timed(func() wire.Val {
		var err error
		if p, _ := hx.Guard(func() { err = tlog.CheckRecord(u.P, u.T, u.TH, u.N, u.H) }); p {
			return wire.Panic()
		}
		return c03ErrVal(err)
	})
}

func c03CheckTree(u c03Tuple) (wire.Val, bool) {
	return c03Timed(func() wire.Val {
		var err error
		if p, _ := hx.Guard(func() { err = tlog.CheckTree(u.P, u.T, u.TH, u.N, u.H) }); p {
			return wire.Panic()
		}
		return c03ErrVal(err)
	})
}

func c03Accepted(v wire.Val) bool { return v.String() == wire.Ok(wire.L()).String() }

// verdict oracles: the implementation accepts iff the RFC 9162 algorithm (independent Go
// transcription) accepts; never a panic or a hang
func c03RecordVerdict(u c03Tuple) string {
	v, to := c03CheckRecord(u)
	if to {
		return "CheckRecord does not return"
	}
	if v.String() == wire.Panic().String() {
		return "CheckRecord panics"
	}
	want := gen.RfcVerifyInclusion(u.P, u.T, u.TH, u.N, u.H)
	if c03Accepted(v) != want {
		return fmt.Sprintf("CheckRecord(len(p)=%d, t=%d, n=%d) accepted=%v, RFC 9162 2.1.3.2 accepts=%v", len(u.P), u.T, u.N, c03Accepted(v), want)
	}
	return ""
}

func c03TreeVerdict(u c03Tuple) string {
	v, to := c03CheckTree(u)
	if to {
		return "CheckTree does not return"
	}
	if v.String() == wire.Panic().String() {
		return "CheckTree panics"
	}
	want := gen.RfcVerifyConsistency(u.P, u.T, u.TH, u.N, u.H)
	if c03Accepted(v) != want {
		return fmt.Sprintf("CheckTree(len(p)=%d, t=%d, n=%d) accepted=%v, RFC 9162 2.1.4.2 accepts=%v", len(u.P), u.T, u.N, c03Accepted(v), want)
	}
	return ""
}

// semantic soundness against the log itself: what is accepted under the true root is true
func c03RecordMember(u c03Tuple, rfc *gen.Rfc6962) string {
	if u.T < 1 || u.T > int64(len(rfc.Leaves)) || u.TH != rfc.Root(int(u.T)) {
		return ""
	}
	if v, _ := c03CheckRecord(u); c03Accepted(v) {
		if u.N < 0 || u.N >= u.T || u.H != gen.RfcLeaf(rfc.Leaves[u.N]) {
			return fmt.Sprintf("CheckRecord accepts leaf hash %v at index %d of the true tree of size %d, the record there hashes to something else", u.H, u.N, u.T)
		}
	}
	return ""
}

func c03TreeMember(u c03Tuple, rfc *gen.Rfc6962) string {
	if u.T < 1 || u.T > int64(len(rfc.Leaves)) || u.TH != rfc.Root(int(u.T)) {
		return ""
	}
	if v, _ := c03CheckTree(u); c03Accepted(v) {
		if u.N < 1 || u.N > u.T || u.H != rfc.Root(int(u.N)) {
			return fmt.Sprintf("CheckTree accepts %v as the hash of the first %d records of the true tree of size %d", u.H, u.N, u.T)
		}
	}
	return ""
}

func c03SameHashes(a, b []tlog.Hash) bool {
	if len(a) != len(b) {
		return false
	}
	for i := range a {
		if a[i] != b[i] {
			return false
		}
	}
	return true
}

func c03ProveRecord(l *gen.MemLog, rfc *gen.Rfc6962, t, n int64) (msg string, p []tlog.Hash) {
	var err error
	if pn, pm := hx.Guard(func() { p, err = tlog.ProveRecord(t, n, l.Reader()) }); pn {
		return "ProveRecord panics: " + pm, nil
	}
	if err != nil {
		return fmt.Sprintf("ProveRecord(%d,%d): %v", t, n, err), nil
	}
	if want := rfc.Path(int(n), int(t)); !c03SameHashes(p, want) {
		return fmt.Sprintf("ProveRecord(%d,%d) = %v, RFC 6962 PATH = %v", t, n, p, want), p
	}
	if err := tlog.CheckRecord(p, t, rfc.Root(int(t)), n, gen.RfcLeaf(rfc.Leaves[n])); err != nil {
		return fmt.Sprintf("CheckRecord rejects the honest proof for (%d,%d): %v", t, n, err), p
	}
	return "", p
}

func c03ProveTree(l *gen.MemLog, rfc *gen.Rfc6962, t, n int64) (msg string, p []tlog.Hash) {
	var err error
	if pn, pm := hx.Guard(func() { p, err = tlog.ProveTree(t, n, l.Reader()) }); pn {
		return "ProveTree panics: " + pm, nil
	}
	if err != nil {
		return fmt.Sprintf("ProveTree(%d,%d): %v", t, n, err), nil
	}
	if want := rfc.Proof(int(n), int(t)); !c03SameHashes(p, want) {
		return fmt.Sprintf("ProveTree(%d,%d) = %v, RFC 6962 PROOF = %v", t, n, p, want), p
	}
	if err := tlog.CheckTree(p, t, rfc.Root(int(t)), n, rfc.Root(int(n))); err != nil {
		return fmt.Sprintf("CheckTree rejects the honest proof for (%d,%d): %v", t, n, err), p
	}
	return "", p
}

func c03Flip(h tlog.Hash, r *rand.Rand) tlog.Hash {
	h[r.Intn(len(h))] ^= 1 << uint(r.Intn(8))
	return h
}

func c03Pow2Below(t int64) int64 {
	k := int64(1)
	for t >= 2 && k < t-k { // k*2 < t without overflow (t up to 2^63-1)
		k *= 2
	}
	return k
}

// c03Mutations returns every single-component mutation of an honest tuple (labelled), plus a
// few random multi-mutations.
func c03Mutations(r *rand.Rand, u c03Tuple, size int64) (out []c03Tuple, labels []string) {
	add := func(label string, v c03Tuple) { out = append(out, v); labels = append(labels, label) }
	for i := range u.P {
		v := u.clone()
		v.P[i] = c03Flip(v.P[i], r)
		add("hash-bitflip", v)
		if len(u.P) > 1 {
			v = u.clone()
			v.P[i] = u.P[(i+1+r.Intn(len(u.P)-1))%len(u.P)]
			add("hash-by-other", v)
		}
		v = u.clone()
		v.P[i] = u.TH
		add("hash-by-root", v)
		v = u.clone()
		v.P[i] = u.H
		add("hash-by-leaf", v)
	}
	for i := 0; i+1 < len(u.P); i++ {
		v := u.clone()
		v.P[i], v.P[i+1] = v.P[i+1], v.P[i]
		add("swap-adjacent", v)
	}
	for i := 1; i < len(u.P); i++ { // insertion and deletion inside the proof
		v := u.clone()
		e := gen.RandHash(r)
		if r.Intn(2) == 0 {
			e = u.P[i-1]
		}
		v.P = append(append(append([]tlog.Hash(nil), u.P[:i]...), e), u.P[i:]...)
		add("insert-inside", v)
		if i+1 < len(u.P) {
			v = u.clone()
			v.P = append(append([]tlog.Hash(nil), u.P[:i]...), u.P[i+1:]...)
			add("delete-inside", v)
		}
	}
	if len(u.P) > 0 {
		v := u.clone()
		v.P = v.P[1:]
		add("truncate-front", v)
		v = u.clone()
		v.P = v.P[:len(v.P)-1]
		add("truncate-back", v)
	}
	extra := []tlog.Hash{gen.RandHash(r), u.H, u.TH}
	if len(u.P) > 0 {
		extra = append(extra, u.P[0], u.P[len(u.P)-1])
	}
	for _, e := range extra {
		v := u.clone()
		v.P = append([]tlog.Hash{e}, v.P...)
		add("extend-front", v)
		v = u.clone()
		v.P = append(v.P, e)
		add("extend-back", v)
	}
	for _, d := range []int64{-1, 1} {
		v := u.clone()
		v.N += d
		add("n+-1", v)
		v = u.clone()
		v.T += d
		add("t+-1", v)
	}
	v := u.clone()
	v.T = 2 * c03Pow2Below(u.T+1)
	add("t-next-pow2", v)
	v = u.clone()
	v.T = c03Pow2Below(u.T)
	add("t-prev-pow2", v)
	v = u.clone()
	v.TH = c03Flip(v.TH, r)
	add("root-bitflip", v)
	v = u.clone()
	v.H = c03Flip(v.H, r)
	add("leaf-bitflip", v)
	v = u.clone()
	v.TH, v.H = v.H, v.TH
	add("roots-swapped", v)
	for _, x := range []int64{-1, 0, u.T, u.T + 1, size, 1 << 62, 1<<62 + 1} {
		v = u.clone()
		v.N = x
		add("n-out-of-range", v)
		v = u.clone()
		v.T = x
		add("t-out-of-range", v)
	}
	for k := 0; k < 3; k++ { // multi-mutations: apply two or three of the above components
		v = u.clone()
		for j := 0; j < 2+r.Intn(2); j++ {
			switch r.Intn(6) {
			case 0:
				if len(v.P) > 0 {
					i := r.Intn(len(v.P))
					v.P[i] = c03Flip(v.P[i], r)
				}
			case 1:
				if len(v.P) > 1 {
					i := r.Intn(len(v.P) - 1)
					v.P[i], v.P[i+1] = v.P[i+1], v.P[i]
				}
			case 2:
				v.N += int64(r.Intn(3)) - 1
			case 3:
				v.T += int64(r.Intn(3)) - 1
			case 4:
				if len(v.P) > 0 {
					v.P = v.P[:len(v.P)-1]
				}
			case 5:
				v.P = append(v.P, gen.RandHash(r))
			}
		}
		add("multi", v)
	}
	return
}

// c03SizePairs replaces the two sizes of a check tuple by every pair from a set of in-range and
// out-of-range values, with the given proof or the empty one, and the given hashes or both equal.
func c03SizePairs(u c03Tuple) (out []c03Tuple) {
	const p62 = int64(1) << 62
	vals := []int64{-p62, -2, -1, 0, 1, 2, u.N, u.T - 1, u.T, u.T + 1, p62, p62 + 1}
	seen := map[int64]bool{}
	var set []int64
	for _, x := range vals {
		if !seen[x] {
			seen[x] = true
			set = append(set, x)
		}
	}
	for _, t := range set {
		for _, n := range set {
			for _, empty := range []bool{false, true} {
				if empty && len(u.P) == 0 {
					continue
				}
				for eq := 0; eq < 3; eq++ { // hashes as given, both the root, both the leaf/old hash
					v := u.clone()
					v.T, v.N = t, n
					if empty {
						v.P = nil
					}
					switch eq {
					case 1:
						v.H = v.TH
					case 2:
						v.TH = v.H
					}
					if eq > 0 && u.H == u.TH {
						continue
					}
					out = append(out, v)
				}
			}
		}
	}
	return
}

// c03SizePairStream: verdict on every size pair = the RFC 9162 reference, which is restricted to
// 0 <= n < t (records) / 1 <= n <= t (trees): everything else is an error, never acceptance, a
// panic or a hang. A sample (always including equal out-of-range sizes with an empty proof and
// equal hashes) goes to the model when both sizes are within +-2^62.
func c03SizePairStream(c *hx.Ctx, tree bool, honest c03Tuple, sub int64, size int, nCases int) {
	const p62 = int64(1) << 62
	fn, op, oracle, verdictF, check := "CheckRecord", "check-record", "check-record-size-pairs-iff-rfc9162", c03RecordVerdict, c03CheckRecord
	if tree {
		fn, op, oracle, verdictF, check = "CheckTree", "check-tree", "check-tree-size-pairs-iff-rfc9162", c03TreeVerdict, c03CheckTree
	}
	pairs := c03SizePairs(honest)
	// one goroutine and one time limit for the whole batch (a goroutine per tuple costs more than
	// the calls); if the batch does not finish, fall back to one timed call per tuple to find it
	vals, batchTimedOut := c03Batch(tree, pairs)
	pick := map[int]bool{}
	for i := 0; i < nCases; i++ {
		pick[c.Rng.Intn(len(pairs))] = true
	}
	for i, m := range pairs {
		vmsg := ""
		if batchTimedOut {
			vmsg = verdictF(m)
			vals[i], _ = check(m)
		} else {
			vmsg = c03VerdictOf(tree, m, vals[i])
		}
		if vmsg != "" {
			c.Check(oracle, false, "", m.in(op, sub, size), vmsg)
		} else {
			c.Check(oracle, true, "", nil, "")
		}
		inRange := m.N >= 1 && m.N <= m.T
		if !tree {
			inRange = m.N >= 0 && m.N < m.T
		}
		key := "out-of-range"
		if inRange {
			key = "in-range"
		}
		special := m.T == m.N && m.T <= 0 && len(m.P) == 0 && m.H == m.TH
		if special {
			key = "equal-out-of-range-sizes+empty-proof+equal-hashes"
		}
		c.Count("size-pair-" + fn + ":" + key)
		if (pick[i] || (special && nCases > 0)) && m.T <= p62 && m.T >= -p62 && m.N <= p62 && m.N >= -p62 {
			c.Case(fn, m.val(), vals[i])
		}
	}
}

// c03Batch runs the checker on every tuple in one goroutine under one time limit.
func c03Batch(tree bool, us []c03Tuple) (vals []wire.Val, timedOut bool) {
	done := make([]wire.Val, len(us))
	_, timedOut = c03Timed(func() wire.Val {
		out := make([]wire.Val, len(us))
		for i, m := range us {
			out[i] = c03RawCheck(tree, m)
		}
		copy(done, out)
		return wire.L()
	})
	if timedOut {
		return make([]wire.Val, len(us)), true
	}
	return done, false
}

// c03RawCheck is one checker call under hx.Guard only (the caller provides the time limit).
func c03RawCheck(tree bool, u c03Tuple) wire.Val {
	var err error
	if p, _ := hx.Guard(func() {
		if tree {
			err = tlog.CheckTree(u.P, u.T, u.TH, u.N, u.H)
		} else {
			err = tlog.CheckRecord(u.P, u.T, u.TH, u.N, u.H)
		}
	}); p {
		return wire.Panic()
	}
	return c03ErrVal(err)
}

// c03VerdictOf is c03RecordVerdict / c03TreeVerdict for a result already obtained.
func c03VerdictOf(tree bool, u c03Tuple, v wire.Val) string {
	name, ref, want := "CheckRecord", "2.1.3.2", false
	if tree {
		name, ref, want = "CheckTree", "2.1.4.2", gen.RfcVerifyConsistency(u.P, u.T, u.TH, u.N, u.H)
	} else {
		want = gen.RfcVerifyInclusion(u.P, u.T, u.TH, u.N, u.H)
	}
	if v.String() == wire.Panic().String() {
		return name + " panics"
	}
	if c03Accepted(v) != want {
		return fmt.Sprintf("%s(len(p)=%d, t=%d, n=%d) accepted=%v, RFC 9162 %s accepts=%v", name, len(u.P), u.T, u.N, c03Accepted(v), ref, want)
	}
	return ""
}

func c03ProveCase(c *hx.Ctx, fn string, l *gen.MemLog, t, n int64, mode int, dropEntry bool) {
	rr := &gen.RecReader{R: gen.StoreReader(l.Hashes)}
	hx.Guard(func() {
		if fn == "ProveRecord" {
			tlog.ProveRecord(t, n, rr)
		} else {
			tlog.ProveTree(t, n, rr)
		}
	})
	table := rr.Table
	if dropEntry && len(table) > 0 {
		table = table[:len(table)-1]
	}
	v, _ := c03Timed(func() wire.Val {
		return tlImplHashes(func() ([]tlog.Hash, error) {
			if fn == "ProveRecord" {
				return tlog.ProveRecord(t, n, gen.TableReader(mode, table))
			}
			return tlog.ProveTree(t, n, gen.TableReader(mode, table))
		})
	})
	c.Case(fn, wire.L(wire.I(t), wire.I(n), gen.ReaderVal(mode, table)), v)
}

func runC03(c *hx.Ctx) {
	r := c.Rng
	maxT := 260
	if c.Tier == "thorough" {
		maxT = 2100
	}
	sub := r.Int63()
	size := maxT + 12
	records := gen.LogRecords(rand.New(rand.NewSource(sub)), size)
	l, err := gen.NewMemLog(records)
	if err != nil {
		c.Check("log builds", false, "", c03In{Op: "log", Sub: sub, Size: size}, err.Error())
		return
	}
	rfc := gen.NewRfc6962(records)
	boolVal := func(b bool) wire.Val { return wire.Bool(b) }

	for t := int64(1); t <= int64(maxT); t++ {
		// ---------------- records
		ns := []int64{r.Int63n(t)}
		switch t % 4 {
		case 0:
			ns = append(ns, 0)
		case 1:
			ns = append(ns, t-1)
		case 2:
			ns = append(ns, c03Pow2Below(t+1)-1)
		default:
			ns = append(ns, r.Int63n(t))
		}
		for _, n := range ns {
			msg, p := c03ProveRecord(l, rfc, t, n)
			c.Check("prove-record-is-PATH-and-accepted", msg == "", "", c03In{Op: "prove-record", Sub: sub, Size: size, T: t, N: n}, msg)
			c.Nontrivial(fmt.Sprintf("r:%d:%d", t, n))
			c03ProveCase(c, "ProveRecord", l, t, n, 0, false)
			if msg != "" {
				continue
			}
			honest := c03Tuple{P: p, T: t, TH: rfc.Root(int(t)), N: n, H: gen.RfcLeaf(records[n])}
			if hv, _ := c03CheckRecord(honest); t%2 == 0 {
				c.Case("CheckRecord", honest.val(), hv)
			}
			muts, labels := c03Mutations(r, honest, int64(size))
			pickModel := map[int]bool{r.Intn(len(muts)): true}
			pickRfc := r.Intn(len(muts))
			for i, m := range muts {
				vmsg := c03RecordVerdict(m)
				c.Check("check-record-iff-rfc9162", vmsg == "", "", m.in("check-record", sub, size), vmsg)
				smsg := c03RecordMember(m, rfc)
				c.Check("check-record-sound-for-the-true-tree", smsg == "", "", m.in("check-record", sub, size), smsg)
				v, _ := c03CheckRecord(m)
				if c03Accepted(v) {
					c.Count("record-mutation-accepted:" + labels[i])
				} else {
					c.Count("record-mutation:" + labels[i])
				}
				if pickModel[i] || ((m.T > int64(size) || m.N > int64(size) || m.T < 1 || m.N < 0) && r.Intn(10) == 0) {
					c.Case("CheckRecord", m.val(), v)
				}
				if i == pickRfc && t%2 == 1 {
					c.Case("rfc.VerifyInclusion", m.val(), boolVal(c03Accepted(v)))
				}
			}
			nc := 0
			if t%8 == 3 {
				nc = 1
			}
			if n == ns[0] || t%16 == 0 {
				c03SizePairStream(c, false, honest, sub, size, nc)
			}
		}
		// ---------------- trees
		ns = []int64{1 + r.Int63n(t)}
		switch t % 4 {
		case 0:
			ns = append(ns, t)
		case 1:
			ns = append(ns, 1)
		case 2:
			ns = append(ns, c03Pow2Below(t+1))
		default:
			ns = append(ns, 1+r.Int63n(t))
		}
		for _, n := range ns {
			msg, p := c03ProveTree(l, rfc, t, n)
			c.Check("prove-tree-is-PROOF-and-accepted", msg == "", "", c03In{Op: "prove-tree", Sub: sub, Size: size, T: t, N: n}, msg)
			c.Nontrivial(fmt.Sprintf("t:%d:%d", t, n))
			c03ProveCase(c, "ProveTree", l, t, n, 0, false)
			if msg != "" {
				continue
			}
			honest := c03Tuple{P: p, T: t, TH: rfc.Root(int(t)), N: n, H: rfc.Root(int(n))}
			if hv, _ := c03CheckTree(honest); t%2 == 1 {
				c.Case("CheckTree", honest.val(), hv)
			}
			muts, labels := c03Mutations(r, honest, int64(size))
			pickModel := map[int]bool{r.Intn(len(muts)): true}
			pickRfc := r.Intn(len(muts))
			for i, m := range muts {
				vmsg := c03TreeVerdict(m)
				c.Check("check-tree-iff-rfc9162", vmsg == "", "", m.in("check-tree", sub, size), vmsg)
				smsg := c03TreeMember(m, rfc)
				c.Check("check-tree-sound-for-the-true-tree", smsg == "", "", m.in("check-tree", sub, size), smsg)
				v, _ := c03CheckTree(m)
				if c03Accepted(v) {
					c.Count("tree-mutation-accepted:" + labels[i])
				} else {
					c.Count("tree-mutation:" + labels[i])
				}
				if pickModel[i] || ((m.T > int64(size) || m.N > int64(size) || m.T < 1 || m.N < 0) && r.Intn(10) == 0) {
					c.Case("CheckTree", m.val(), v)
				}
				if i == pickRfc && t%2 == 0 {
					c.Case("rfc.VerifyConsistency", m.val(), boolVal(c03Accepted(v)))
				}
			}
			nc := 0
			if t%8 == 5 {
				nc = 1
			}
			if n == ns[0] || t%16 == 0 {
				c03SizePairStream(c, true, honest, sub, size, nc)
			}
		}
	}
	// huge trees (oracle only); before the prover stream, which can kill the process (see c03Canary)
	// the empty-tree hash (and a few other hashes) checked against itself at every size pair
	for _, h := range []tlog.Hash{gen.RfcEmpty(), {}, rfc.Root(1), rfc.Root(size), gen.RandHash(r)} {
		self := c03Tuple{T: 0, TH: h, N: 0, H: h}
		c03SizePairStream(c, false, self, sub, size, 2)
		c03SizePairStream(c, true, self, sub, size, 2)
	}
	c03LeafSweep(c)
	proversCrash := c03Canary(c)
	c03Huge(c)
	c03Sparse(c)
	// provers: invalid arguments, failing readers, sizes beyond the log
	for i := 0; i < c.N(300); i++ {
		t := int64(r.Intn(size + 3))
		n := int64(r.Intn(size+5)) - 2
		switch r.Intn(8) {
		case 0:
			t = -1 - int64(r.Intn(3))
		case 1:
			t = 1<<62 + int64(r.Intn(3)) - 1
		case 2:
			n = t + int64(r.Intn(2))
		}
		mode := []int{0, 0, 1, 2, 3}[r.Intn(5)]
		if proversCrash && t >= 1<<61 {
			r.Intn(6)
			r.Intn(6)
			c.Count("prover-case-skipped-after-canary-crash")
			continue
		}
		c03ProveCase(c, "ProveRecord", l, t, n, mode, r.Intn(6) == 0)
		c03ProveCase(c, "ProveTree", l, t, n, mode, r.Intn(6) == 0)
	}
	c.Sample(fmt.Sprintf("one log of %d records (sub-seed %d), every t <= %d", size, sub, maxT))
}

// ---------------------------------------------------------------- huge trees (oracle only)
//
// Tree sizes around and above 2^62, up to 2^63-1: honest RFC 6962 proofs come from a virtual log
// of identical records (gen.VirtualLog). No correspondence cases here: the Coq theorems carry
// t <= 2^62 and the unbounded-Z model is not claimed to mirror int64 above it.

func c03HugeHonestRecord(vl *gen.VirtualLog, t, n int64) (string, c03Tuple) {
	u := c03Tuple{P: vl.Path(n, t), T: t, TH: vl.MTH(t), N: n, H: vl.Leaf()}
	if !gen.RfcVerifyInclusion(u.P, u.T, u.TH, u.N, u.H) {
		return fmt.Sprintf("harness: the RFC 9162 verifier rejects PATH(%d, D[%d]) of the virtual log", n, t), u
	}
	v, to := c03CheckRecord(u)
	switch {
	case to:
		return fmt.Sprintf("CheckRecord(t=%d, n=%d) does not return on the RFC 6962 audit path", t, n), u
	case v.String() == wire.Panic().String():
		return fmt.Sprintf("CheckRecord(t=%d, n=%d) panics on the RFC 6962 audit path", t, n), u
	case !c03Accepted(v):
		return fmt.Sprintf("CheckRecord(t=%d, n=%d) rejects the RFC 6962 audit path (%d hashes) that the RFC 9162 verifier accepts: %s", t, n, len(u.P), v.String()), u
	}
	return "", u
}

func c03HugeHonestTree(vl *gen.VirtualLog, t, n int64) (string, c03Tuple) {
	u := c03Tuple{P: vl.Proof(n, t), T: t, TH: vl.MTH(t), N: n, H: vl.MTH(n)}
	if !gen.RfcVerifyConsistency(u.P, u.T, u.TH, u.N, u.H) {
		return fmt.Sprintf("harness: the RFC 9162 verifier rejects PROOF(%d, D[%d]) of the virtual log", n, t), u
	}
	v, to := c03CheckTree(u)
	switch {
	case to:
		return fmt.Sprintf("CheckTree(t=%d, n=%d) does not return on the RFC 6962 consistency proof", t, n), u
	case v.String() == wire.Panic().String():
		return fmt.Sprintf("CheckTree(t=%d, n=%d) panics on the RFC 6962 consistency proof", t, n), u
	case !c03Accepted(v):
		return fmt.Sprintf("CheckTree(t=%d, n=%d) rejects the RFC 6962 consistency proof (%d hashes) that the RFC 9162 verifier accepts: %s", t, n, len(u.P), v.String()), u
	}
	return "", u
}

// c03MustReject: a tuple with one corrupted proof hash must be refused (with an error).
func c03MustReject(tree bool, u c03Tuple) string {
	name, check := "CheckRecord", c03CheckRecord
	if tree {
		name, check = "CheckTree", c03CheckTree
	}
	v, to := check(u)
	switch {
	case to:
		return name + " does not return"
	case v.String() == wire.Panic().String():
		return name + " panics"
	case c03Accepted(v):
		return fmt.Sprintf("%s(len(p)=%d, t=%d, n=%d) accepts a proof with a corrupted hash", name, len(u.P), u.T, u.N)
	}
	return ""
}

// c03CanaryRun calls both provers on a log of 8 records with tree size t: any error is fine, a
// panic or a hang is not. A fatal runtime error (unbounded recursion: stack overflow) cannot be
// caught in-process, which is why c03Canary runs this in a child process.
func c03CanaryRun(t, n int64) string {
	l, err := gen.NewMemLog(gen.LogRecords(rand.New(rand.NewSource(1)), 8))
	if err != nil {
		return "log: " + err.Error()
	}
	for _, fn := range []string{"ProveRecord", "ProveTree"} {
		v, to := c03Timed(func() wire.Val {
			return tlImplHashes(func() ([]tlog.Hash, error) {
				if fn == "ProveRecord" {
					return tlog.ProveRecord(t, n, l.Reader())
				}
				return tlog.ProveTree(t, n, l.Reader())
			})
		})
		if to {
			return fmt.Sprintf("%s(%d, %d, reader of an 8-record log) does not return", fn, t, n)
		}
		if v.String() == wire.Panic().String() {
			return fmt.Sprintf("%s(%d, %d, reader of an 8-record log) panics", fn, t, n)
		}
	}
	return ""
}

// c03Canary runs the provers at sizes around and above 2^62 in a child process (this binary,
// "replay" mode) before the in-process prover stream uses such sizes: a crash of the child is a
// violation with the input as replay, and the in-process calls at those sizes are then skipped
// so that the run survives to report it.
func c03Canary(c *hx.Ctx) (crashed bool) {
	if os.Getenv("VERIF_C03_CANARY_CHILD") != "" {
		return false // never from inside a child
	}
	exe, err := os.Executable()
	if err != nil {
		c.Sample("canary: os.Executable: " + err.Error())
		return false
	}
	const p61, p62, top = int64(1) << 61, int64(1) << 62, int64(1<<63 - 1)
	for _, tn := range [][2]int64{{p62 - 1, 0}, {p62, 3}, {p62, p62}, {p62 + 1, 0}, {p62 + 1, 5}, {p62 + 1, p62 + 1}, {p62 + 2, p62},
		{p62 + p61, 1}, {top, 2}, {top, top - 1}} {
		in := c03In{Op: "prove-canary", T: tn[0], N: tn[1]}
		raw, _ := json.Marshal(struct {
			Input c03In `json:"input"`
		}{in})
		file := filepath.Join(c.Out, "c03-canary.json")
		if err := os.WriteFile(file, raw, 0o644); err != nil {
			c.Sample("canary: " + err.Error())
			return false
		}
		ctx, cancel := context.WithTimeout(context.Background(), 60*time.Second)
		cmd := exec.CommandContext(ctx, exe, "replay", "C03", file)
		cmd.Env = append(os.Environ(), "VERIF_C03_CANARY_CHILD=1")
		out, err := cmd.CombinedOutput()
		cancel()
		msg := ""
		if err != nil {
			if len(out) > 300 {
				out = out[:300]
			}
			msg = fmt.Sprintf("the process running ProveRecord/ProveTree(t=%d, n=%d) dies or fails (%v): %s", tn[0], tn[1], err, out)
			crashed = true
		}
		c.Check("provers-return-at-huge-sizes", msg == "", "", in, msg)
	}
	return crashed
}

// ---------------------------------------------------------------- proof GENERATION on huge logs
//
// gen.SparseLog serves the stored hashes of a log of 2^32 .. 2^61 records (identical records but
// for a few special positions) through its own inversion of the documented store layout; the
// provers and TreeHash must produce exactly RFC 6962 PATH / PROOF / MTH and the checkers accept.

func c03SparseLog(rec []byte, sp []int64) *gen.SparseLog {
	special := map[int64][]byte{}
	for _, p := range sp {
		special[p] = append(append([]byte(nil), rec...), []byte(fmt.Sprintf("#%d", p))...)
	}
	return gen.NewSparseLog(rec, special)
}

func c03SparseProve(tree bool, rec []byte, sp []int64, t, n int64) string {
	sl := c03SparseLog(rec, sp)
	name := "ProveRecord"
	if tree {
		name = "ProveTree"
	}
	var p []tlog.Hash
	var th tlog.Hash
	var err, terr error
	v, to := c03Timed(func() wire.Val {
		if pn, _ := hx.Guard(func() {
			if tree {
				p, err = tlog.ProveTree(t, n, sl.Reader(t, nil))
			} else {
				p, err = tlog.ProveRecord(t, n, sl.Reader(t, nil))
			}
			th, terr = tlog.TreeHash(t, sl.Reader(t, nil))
		}); pn {
			return wire.Panic()
		}
		return wire.L()
	})
	switch {
	case to:
		return fmt.Sprintf("%s(%d, %d) / TreeHash on the sparse log do not return", name, t, n)
	case v.String() == wire.Panic().String():
		return fmt.Sprintf("%s(%d, %d) / TreeHash on the sparse log panic", name, t, n)
	case err != nil:
		return fmt.Sprintf("%s(%d, %d, reader of the %d-record log): %v", name, t, n, t, err)
	case terr != nil:
		return fmt.Sprintf("TreeHash(%d, reader of the %d-record log): %v", t, t, terr)
	}
	root := sl.Root(t)
	if th != root {
		return fmt.Sprintf("TreeHash(%d) = %v, RFC 6962 MTH of the log is %v", t, th, root)
	}
	var want []tlog.Hash
	u := c03Tuple{P: p, T: t, TH: root, N: n}
	if tree {
		want, u.H = sl.Proof(n, t), sl.Root(n)
	} else {
		want, u.H = sl.Path(n, t), sl.Leaf(n)
	}
	if !c03SameHashes(p, want) {
		return fmt.Sprintf("%s(%d, %d) = %v, RFC 6962 says %v", name, t, n, p, want)
	}
	cv, cto := c03CheckRecord, false
	if tree {
		cv = c03CheckTree
	}
	r, cto := cv(u)
	if cto || !c03Accepted(r) {
		return fmt.Sprintf("the checker does not accept the proof %s(%d, %d) produced: %s", name, t, n, r.String())
	}
	return ""
}

func c03Sparse(c *hx.Ctx) {
	r := c.Rng
	rec := make([]byte, 1+r.Intn(40))
	r.Read(rec)
	recHex := hex.EncodeToString(rec)
	var sizes []int64
	for _, b := range []uint{20, 31, 32, 33, 40, 50, 61} {
		p := int64(1) << b
		sizes = append(sizes, p+11, p+1+r.Int63n(p/2))
		if b < 61 {
			sizes = append(sizes, p+p/2+r.Int63n(1000), p-1-r.Int63n(1000))
		}
	}
	sizes = append(sizes, 1<<32+1<<31+1<<20+5, 3<<32+77, 1<<33+1<<32+12345)
	for _, t := range sizes {
		p2 := c03Pow2Below(t)
		ns := []int64{0, 1, t / 2, p2 - 1, p2, p2 + 2, p2 + 3, t - 2, t - 1, r.Int63n(t), r.Int63n(t), p2 + r.Int63n(t-p2)}
		for _, n := range ns {
			if n < 0 || n >= t {
				continue
			}
			sp := []int64{n, r.Int63n(t), r.Int63n(t)}
			switch r.Intn(3) {
			case 0:
				sp = append(sp, 0, t-1)
			case 1:
				sp = append(sp, n^1, p2)
			}
			in := c03In{Op: "sparse-record", Rec: recHex, Sp: sp, T: t, N: n}
			msg := c03SparseProve(false, rec, sp, t, n)
			c.Check("huge-log-prove-record-is-PATH-and-accepted", msg == "", "", in, msg)
			in.Op, in.N = "sparse-tree", n+1
			msg = c03SparseProve(true, rec, sp, t, n+1)
			c.Check("huge-log-prove-tree-is-PROOF-and-accepted", msg == "", "", in, msg)
			c.Count(fmt.Sprintf("huge-log-proofs:bits=%d", bitsLen64(t)))
			c.Nontrivial(fmt.Sprintf("s:%d:%d", t, n))
		}
	}
}

func bitsLen64(x int64) int {
	n := 0
	for ; x > 0; x >>= 1 {
		n++
	}
	return n
}

// ---------------------------------------------------------------- leaf hash at every length

func c03Leaf(d []byte) string {
	var h tlog.Hash
	if p, pm := hx.Guard(func() { h = tlog.RecordHash(d) }); p {
		return "RecordHash panics: " + pm
	}
	if want := sha256.Sum256(append([]byte{0}, d...)); h != tlog.Hash(want) {
		return fmt.Sprintf("RecordHash of %d bytes = %v, SHA-256(0x00 || data) = %v", len(d), h, tlog.Hash(want))
	}
	return ""
}

// c03LeafSweep: every record length 0..1100, random content and the same content with only the
// last byte changed; then a log whose records have boundary lengths, every (t, n).
func c03LeafSweep(c *hx.Ctx) {
	r := c.Rng
	for n := 0; n <= 1100; n++ {
		d := make([]byte, n)
		r.Read(d)
		for k := 0; k < 2; k++ {
			if k == 1 {
				if n == 0 {
					break
				}
				d[n-1] ^= byte(1 + r.Intn(255))
			}
			if msg := c03Leaf(d); msg != "" {
				c.Check("leaf-hash-is-sha256(0x00||data)-at-every-length", false, "", c03In{Op: "leaf", Data: hex.EncodeToString(d)}, msg)
			} else {
				c.Check("leaf-hash-is-sha256(0x00||data)-at-every-length", true, "", nil, "")
			}
		}
	}
	sub, size := r.Int63(), 56
	records := gen.BoundaryLenRecords(rand.New(rand.NewSource(sub)), size)
	l, err := gen.NewMemLog(records)
	if err != nil {
		c.Check("log builds", false, "", c03In{Op: "log", Sub: sub, Size: size, Lens: true}, err.Error())
		return
	}
	rfc := gen.NewRfc6962(records)
	for t := int64(1); t <= int64(size); t++ {
		for _, n := range []int64{0, t - 1, r.Int63n(t), r.Int63n(t)} {
			msg, _ := c03ProveRecord(l, rfc, t, n)
			c.Check("prove-record-is-PATH-and-accepted", msg == "", "", c03In{Op: "prove-record", Sub: sub, Size: size, Lens: true, T: t, N: n}, msg)
			msg, _ = c03ProveTree(l, rfc, t, n+1)
			c.Check("prove-tree-is-PROOF-and-accepted", msg == "", "", c03In{Op: "prove-tree", Sub: sub, Size: size, Lens: true, T: t, N: n + 1}, msg)
			c.Count("boundary-length-log")
		}
	}
}

func c03Huge(c *hx.Ctx) {
	r := c.Rng
	const p61, p62, top = int64(1) << 61, int64(1) << 62, int64(1<<63 - 1)
	rec := make([]byte, r.Intn(40))
	r.Read(rec)
	recHex := hex.EncodeToString(rec)
	vl := gen.NewVirtualLog(rec)
	timeouts0 := atomic.LoadInt32(&c03Timeouts)
	sizes := []int64{p62 - 1, p62, p62 + 1, p62 + 2, p62 + 3, p62 + p61 - 1, p62 + p61, p62 + p61 + 1, p62 + p61 + 7, top - 1, top,
		p61 - 1, p61, p61 + 1}
	for i := 0; i < c.N(10); i++ {
		sizes = append(sizes, p62+1+r.Int63n(p62-1)) // random in (2^62, 2^63)
	}
	for i := 0; i < c.N(4); i++ {
		sizes = append(sizes, p62+1+gen.RandSize(r, 61), top-gen.RandSize(r, 61)) // just above 2^62, just below 2^63
	}
	for i := 0; i < c.N(4); i++ {
		sizes = append(sizes, 1+gen.RandSize(r, 62)) // any number of bits
	}
	for _, t := range sizes {
		cand := []int64{0, 1, 2, 5, t / 3, t / 2, t/2 + 1, p61, p62 - 1, p62, p62 + 1, t - p62, t - p62 - 1, t - p61, p62 + p61, t - 2, t - 1, t,
			r.Int63n(t), r.Int63n(t), gen.RandSize(r, 63), t - gen.RandSize(r, 62)}
		seen := map[int64]bool{}
		var ns []int64
		for _, n := range cand {
			if n >= 0 && n <= t && !seen[n] {
				seen[n] = true
				ns = append(ns, n)
			}
		}
		band := "t<=2^62"
		if t > p62 {
			band = "t>2^62"
		}
		fullR, fullT := ns[r.Intn(len(ns))], ns[r.Intn(len(ns))]
		for _, n := range ns {
			for _, tree := range []bool{false, true} {
				if (!tree && n >= t) || (tree && n < 1) {
					continue
				}
				kind, hop, cop, rop, iff := "record", "huge-record", "check-record", "reject-record", "huge-check-record-iff-rfc9162"
				honestF, verdictF := c03HugeHonestRecord, c03RecordVerdict
				if tree {
					kind, hop, cop, rop, iff = "tree", "huge-tree", "check-tree", "reject-tree", "huge-check-tree-iff-rfc9162"
					honestF, verdictF = c03HugeHonestTree, c03TreeVerdict
				}
				msg, honest := honestF(vl, t, n)
				c.Check("huge-"+kind+"-honest-proof-accepted", msg == "", "", c03In{Op: hop, Rec: recHex, T: t, N: n}, msg)
				c.Count("huge-" + kind + ":" + band)
				c.Nontrivial(fmt.Sprintf("h%s:%d:%d", kind[:1], t, n))
				// every single-hash corruption is rejected, and the verdict is the RFC verifier's
				flips := make([]c03Tuple, len(honest.P))
				for i := range honest.P {
					flips[i] = honest.clone()
					flips[i].P[i] = c03Flip(flips[i].P[i], r)
				}
				vals, batchTimedOut := c03Batch(tree, flips) // one goroutine and time limit for the batch
				for i, m := range flips {
					rmsg, vmsg := "", ""
					if batchTimedOut { // find the tuple that does not return
						rmsg, vmsg = c03MustReject(tree, m), verdictF(m)
					} else {
						vmsg = c03VerdictOf(tree, m, vals[i])
						if c03Accepted(vals[i]) {
							rmsg = fmt.Sprintf("len(p)=%d, t=%d, n=%d: a proof with a corrupted hash is accepted", len(m.P), m.T, m.N)
						} else if vals[i].String() == wire.Panic().String() {
							rmsg = "panic"
						}
					}
					if rmsg != "" {
						c.Check("huge-"+kind+"-corrupted-hash-rejected", false, "", m.in(rop, 0, 0), rmsg)
					} else {
						c.Check("huge-"+kind+"-corrupted-hash-rejected", true, "", nil, "")
					}
					if vmsg != "" {
						c.Check(iff, false, "", m.in(cop, 0, 0), vmsg)
					} else {
						c.Check(iff, true, "", nil, "")
					}
				}
				if atomic.LoadInt32(&c03Timeouts) >= timeouts0+3 {
					c.Sample("huge trees: stream abandoned after 3 calls that did not return")
					return
				}
				if (!tree && n == fullR) || (tree && n == fullT) || r.Intn(8) == 0 {
					muts, labels := c03Mutations(r, honest, t)
					mvals, mTimedOut := c03Batch(tree, muts)
					for i, m := range muts {
						vmsg := ""
						if mTimedOut {
							vmsg = verdictF(m)
						} else {
							vmsg = c03VerdictOf(tree, m, mvals[i])
						}
						if vmsg != "" {
							c.Check(iff, false, "", m.in(cop, 0, 0), vmsg)
						} else {
							c.Check(iff, true, "", nil, "")
						}
						c.Count("huge-" + kind + "-mutation:" + labels[i])
					}
				}
			}
		}
	}
	c.Sample(fmt.Sprintf("virtual log of identical records (%d bytes): %d tree sizes from 2^61 to 2^63-1, oracle only", len(rec), len(sizes)))
}

func c03Hash(s string) (h tlog.Hash) {
	b, _ := hex.DecodeString(s)
	copy(h[:], b)
	return
}

func replayC03(raw json.RawMessage) (bool, string) {
	var in c03In
	if err := json.Unmarshal(raw, &in); err != nil {
		return false, err.Error()
	}
	records := gen.LogRecords(rand.New(rand.NewSource(in.Sub)), in.Size)
	if in.Lens {
		records = gen.BoundaryLenRecords(rand.New(rand.NewSource(in.Sub)), in.Size)
	}
	l, err := gen.NewMemLog(records)
	if err != nil {
		return false, "log: " + err.Error()
	}
	rfc := gen.NewRfc6962(records)
	u := c03Tuple{T: in.T, TH: c03Hash(in.TH), N: in.N, H: c03Hash(in.H)}
	for _, p := range in.P {
		u.P = append(u.P, c03Hash(p))
	}
	var msg string
	switch in.Op {
	case "prove-record":
		msg, _ = c03ProveRecord(l, rfc, in.T, in.N)
	case "prove-tree":
		msg, _ = c03ProveTree(l, rfc, in.T, in.N)
	case "check-record":
		if msg = c03RecordVerdict(u); msg == "" {
			msg = c03RecordMember(u, rfc)
		}
	case "check-tree":
		if msg = c03TreeVerdict(u); msg == "" {
			msg = c03TreeMember(u, rfc)
		}
	case "huge-record", "huge-tree":
		rec, err := hex.DecodeString(in.Rec)
		if err != nil {
			return false, "rec_hex: " + err.Error()
		}
		if in.T < 1 || in.N < 0 || in.N > in.T || (in.Op == "huge-record" && in.N == in.T) || (in.Op == "huge-tree" && in.N == 0) {
			return false, "huge-*: need 0 <= n < t (record) or 1 <= n <= t (tree)"
		}
		if in.Op == "huge-record" {
			msg, _ = c03HugeHonestRecord(gen.NewVirtualLog(rec), in.T, in.N)
		} else {
			msg, _ = c03HugeHonestTree(gen.NewVirtualLog(rec), in.T, in.N)
		}
	case "sparse-record", "sparse-tree":
		rec, err := hex.DecodeString(in.Rec)
		if err != nil {
			return false, "rec_hex: " + err.Error()
		}
		msg = c03SparseProve(in.Op == "sparse-tree", rec, in.Sp, in.T, in.N)
	case "leaf":
		d, err := hex.DecodeString(in.Data)
		if err != nil {
			return false, "data_hex: " + err.Error()
		}
		msg = c03Leaf(d)
	case "prove-canary":
		msg = c03CanaryRun(in.T, in.N)
	case "reject-record":
		msg = c03MustReject(false, u)
	case "reject-tree":
		msg = c03MustReject(true, u)
	case "log":
	default:
		return false, "unknown op " + in.Op
	}
	return msg == "", msg
}
