package props

// C13: oracle "ok-heads-one-timeline" — the signed heads a single Client has ACCEPTED (the head in
// the lookup response of each of its lookups that returned Ok: mergeLatest of that head succeeded)
// are pairwise consistent in the ground truth.  Unlike fork-never-accepted it does not depend on
// the order of steps, so it also judges overlapping lookups (SumPar): it is what catches a head
// installed over one that a concurrent lookup put in place without being checked against it.

import (
	"bytes"
	"fmt"
	"sort"
	"strings"

	"verif/harness/gen"
)

const sumOneTimelineName = "ok-heads-one-timeline"

func sumOneTimeline(run *gen.SumRun) (msg string, bad bool) {
	w, sc := run.W, run.Sc
	type acc struct {
		step int
		h    sumHeadVal
	}
	byClient := map[int][]acc{}
	for i, r := range run.Results {
		if r.Class != "ok" {
			continue
		}
		for _, e := range run.Events {
			if e.Step != i || e.Err || !(e.Kind == "rr" || e.Kind == "rc") || !strings.Contains(e.Name, "/lookup/") {
				continue
			}
			j := bytes.Index(e.Data, []byte("\n\n"))
			if j < 0 || len(e.Data[j+2:]) == 0 {
				continue
			}
			h, ok := sumNoteHead(w, e.Data[j+2:])
			if !ok || len(w.SidesOf(h.n, h.h)) == 0 {
				continue // not a true head of either log (a lying head cannot lead to Ok; judged elsewhere)
			}
			byClient[sc.Steps[i].Client] = append(byClient[sc.Steps[i].Client], acc{i, h})
		}
	}
	var cls []int
	for cl := range byClient {
		cls = append(cls, cl)
	}
	sort.Ints(cls)
	for _, cl := range cls {
		l := byClient[cl]
		for a := 0; a < len(l); a++ {
			for b := a + 1; b < len(l); b++ {
				x, y := l[a].h, l[b].h
				if !w.Consistent(x.n, x.h, y.n, y.h) && !w.Consistent(y.n, y.h, x.n, x.h) {
					return fmt.Sprintf("client %d: steps %d and %d both returned Ok, for lookup responses carrying the mutually inconsistent signed heads of sizes %d and %d",
						cl, l[a].step, l[b].step, x.n, y.n), true
				}
			}
		}
	}
	return "", false
}
