package props

// C01, oracle-only stream: honest BIG logs.  The tile numbered exactly 1000 (tile.Path switches to
// the x001/000 form there) exists only in logs with more than 1000*2^H records; the ordinary
// scenarios stop at 300 records.  Honest server, cold / warm cache, a second run (fresh client)
// sharing the cache; lookups of the records inside and around tile 1000 of every level that
// exists.  Every lookup must succeed with the server's lines (oracle honest-succeeds).  No case
// goes through the Coq model (a 4000-record scenario would cost minutes of extracted SHA-256).

import (
	"fmt"

	"verif/harness/gen"
	"verif/harness/hx"
)

func sumBigLogs(c *hx.Ctx) {
	r := c.Rng
	type shape struct{ h, n int }
	var shapes []shape
	for _, h := range []int{1, 2} {
		base := 1000 << uint(h) // first record of level-0 tile 1000
		shapes = append(shapes,
			shape{h, base - 1 + r.Intn(2)},          // just before tile 1000 exists / its first record
			shape{h, base + 1 + r.Intn(1<<uint(h))}, // tile 1000 partial or just complete
			shape{h, base + (1 << uint(h)) + 1 + r.Intn(100)})
		if h == 1 {
			b1 := 1000 << uint(2*h) // first record under level-1 tile 1000
			shapes = append(shapes, shape{h, b1 + 1 + r.Intn(4)}, shape{h, b1 + 4 + r.Intn(100)})
		}
	}
	for k := 0; k < c.N(2); k++ {
		for si, sh := range shapes {
			sc := gen.SumScenario{Seed: r.Int63n(1 << 30), H: sh.h, NA: sh.n, ForgeID: -1, Note: "honest-biglog"}
			sc.Cache = gen.SumCacheSpec{Corrupt: -1}
			if (si+k)%2 == 1 { // warm: the honest cache of a somewhat smaller tree
				sc.Cache = gen.SumCacheSpec{Side: 0, N: int64(sh.n - 1 - r.Intn(50)), Frac: 100, Seed: int64(si), Corrupt: -1}
			}
			if r.Intn(2) == 0 {
				sc.Config = gen.SumConfigSpec{Latest: 1, HeadN: int64(sh.n - 1 - r.Intn(sh.n/2))}
			}
			// records inside and around tile 1000 of every level, and a few elsewhere
			var ids []int
			for lvl := 0; ; lvl++ {
				first := 1000 << uint(sh.h*(lvl+1))
				if first-1 >= sh.n {
					break
				}
				for _, id := range []int{first - 1, first, first + 1, first + (1 << uint(sh.h)) - 1, first + (1 << uint(sh.h))} {
					if id >= 0 && id < sh.n {
						ids = append(ids, id)
					}
				}
			}
			ids = append(ids, 0, r.Intn(sh.n), sh.n-1)
			if len(ids) > 7 {
				r.Shuffle(len(ids), func(i, j int) { ids[i], ids[j] = ids[j], ids[i] })
				ids = ids[:7]
			}
			for run := 0; run < 2; run++ { // the second run is a fresh client sharing cache and configuration
				for _, id := range ids {
					p, v, _ := gen.SumRecordOf(sc.Seed, 0, id)
					sc.Steps = append(sc.Steps, gen.SumStep{Client: run, View: gen.HonestView(0, int64(sh.n)), Path: p, Vers: v})
				}
			}
			res := sumDo(c, sc, nil, false)
			c.Count(fmt.Sprintf("biglog:H=%d", sh.h))
			if si == 0 && k == 0 {
				c.Sample(fmt.Sprintf("honest-biglog: H=%d N=%d lookups=%d results=%v", sh.h, sh.n, len(sc.Steps), sumClasses(res)))
			}
		}
	}
}

// sumAlphabet: honest lookups (plain and /go.mod) of module paths and versions in which each letter
// A-Z is the only capital (escaping must turn every one of them into !x), plus real-world mixed-case
// shapes.  One long oracle-only scenario per round, and a few short ones through the model.
func sumAlphabet(c *hx.Ctx, budget *sumBudget) {
	r := c.Rng
	for k := 0; k < c.N(2); k++ {
		sc := gen.SumScenario{Seed: r.Int63n(1 << 30), H: 2 + k%2, NA: 190 + r.Intn(20), ForgeID: -1, Note: "honest-alphabet"}
		sc.Cache = gen.SumCacheSpec{Corrupt: -1}
		if k%2 == 1 {
			sc.Cache = gen.SumCacheSpec{Side: 0, N: int64(sc.NA - r.Intn(40)), Frac: 60, Seed: int64(k), Lookups: true, Corrupt: -1}
		}
		for id := 0; id < sc.NA; id++ {
			if id%5 != 2 && id%7 != 3 {
				continue
			}
			p, v, _ := gen.SumRecordOf(sc.Seed, 0, id)
			if (id+k)%2 == 1 {
				v += "/go.mod"
			}
			sc.Steps = append(sc.Steps, gen.SumStep{Client: 0, View: gen.HonestView(0, int64(sc.NA)), Path: p, Vers: v})
		}
		sumDo(c, sc, nil, false)
	}
	// through the model: two letters per scenario, always including Z somewhere
	for k := 0; k < c.N(4); k++ {
		sc := gen.SumScenario{Seed: r.Int63n(1 << 30), H: 2 + k%2, NA: 186, ForgeID: -1, Note: "honest-alphabet-model"}
		sc.Cache = gen.SumCacheSpec{Corrupt: -1}
		l1, l2 := r.Intn(26), r.Intn(26)
		if k%2 == 0 {
			l1 = 25
		} else {
			l2 = 25
		}
		for j, id := range []int{5*l1 + 2, 7*l2 + 3} {
			p, v, _ := gen.SumRecordOf(sc.Seed, 0, id)
			if (j+k)%2 == 1 {
				v += "/go.mod"
			}
			sc.Steps = append(sc.Steps, gen.SumStep{Client: 0, View: gen.HonestView(0, int64(sc.NA)), Path: p, Vers: v})
		}
		sumDo(c, sc, budget, true)
	}
}
