package props

// C14 — concurrent lookups behave like sequential ones and fetch each record once.
//
// The real sumdb.Client is run under the schedule controller of harness/gen/sched.go.  Every
// run yields (a) one correspondence case: (scenario, observed trace) must be a run of the
// extracted LTS coq/Client/Conc.v (trace inclusion, final invariant), and (b) verdicts of
// oracles that do not use the model.

import (
	"context"
	"crypto/sha256"
	"encoding/json"
	"fmt"
	"math/rand"
	"os"
	"os/exec"
	"path/filepath"
	"sort"
	"strings"
	"time"

	"golang.org/x/mod/sumdb"

	"verif/harness/gen"
	"verif/harness/hx"
	"verif/harness/wire"
)

func init() { hx.Register(&hx.Prop{ID: "C14", Run: runC14, Replay: replayC14}) }

// ---- scenarios ---------------------------------------------------------------------------

type c14Mod struct{ Path, Vers string }

var c14Public = []c14Mod{
	{"rsc.io/quote", "v1.5.2"},
	{"golang.org/x/text", "v0.3.0"},
	{"github.com/Azure/Go-SDK", "v1.0.0-RC1"},
	{"example.com/UPPER/Case", "v2.0.0+incompatible"},
	{"rsc.io/sampler", "v1.3.0"},
	{"a.b/c", "v0.0.1"},
	// every letter A-Z as a capital in a path or version (the server must unescape them all)
	{"example.com/Zpkg/libZ", "v1.0.0-Zulu"},
	{"github.com/ZupIT/horusec-devkit", "v1.0.0"},
	{"example.com/ABCDEFGHIJKLM/NOPQRSTUVWXYZ", "v1.2.3-RC.QXZ"},
	{"example.com/jazZ/quiZ/Wyvern", "v0.9.0-BETA.JKVY+incompatible"},
	// near misses of the private patterns below: they must be looked up
	{"corp.example.com.evil/x", "v1.0.0"},
	{"priv.io/a/public", "v1.2.3"},
	{"git.internal/delta", "v0.1.0"},
}

// pattern lists and, written out by hand, the paths of c14Private each one matches
var c14Lists = []string{"", "corp.example.com", "*.corp.example.com/x,priv.io/*/secret", "git.internal/[a-c]*,,other.org/"}

var c14Private = []c14Mod{
	{"corp.example.com/tool", "v1.0.0"},
	{"corp.example.com", "v0.9.0"},
	{"team.corp.example.com/x/y", "v1.1.0"},
	{"priv.io/a/secret/z", "v1.0.0"},
	{"git.internal/beta/q", "v0.2.0"},
	{"other.org/m", "v3.0.0+incompatible"},
}

var c14Matches = map[string]map[string]bool{
	"":                                      {},
	"corp.example.com":                      {"corp.example.com/tool": true, "corp.example.com": true},
	"*.corp.example.com/x,priv.io/*/secret": {"team.corp.example.com/x/y": true, "priv.io/a/secret/z": true},
	"git.internal/[a-c]*,,other.org/":       {"git.internal/beta/q": true, "other.org/m": true},
}

type c14Setup struct {
	Op   string `json:"op"` // add, grow, prev (a previous process looks it up), resetcfg, cfgnow, dropcache
	Path string `json:"p,omitempty"`
	Vers string `json:"v,omitempty"`
	N    int    `json:"n,omitempty"` // bulk: that many filler records
}

// c14GenBig: a log of 150-1200 records read through tiles of height 1 or 2, so that one
// ReadTiles call asks for many tiles (more than 8 from ~100 records at height 1, ~1000 at 2).
func c14GenBig(r *rand.Rand) c14Scn {
	s := c14GenScn(r, false)
	h, n := 1, 150+r.Intn(450)
	if r.Intn(3) == 0 {
		h, n = 2, 1000+r.Intn(200)
	}
	for i := range s.Clients {
		s.Clients[i].Height = h
	}
	s.PrevH = h
	s.Setup = append([]c14Setup{{Op: "bulk", N: n}}, s.Setup...)
	if len(s.Lookups) > 4 {
		s.Lookups = s.Lookups[:4]
	}
	return s
}

type c14Scn struct {
	Setup     []c14Setup           `json:"setup"`
	PrevH     int                  `json:"prev_height"`
	Clients   []gen.ConcClientSpec `json:"clients"`
	Lookups   []gen.ConcLookup     `json:"lookups"`
	Grow      int                  `json:"grow"`
	AutoStart bool                 `json:"autostart"`
}

type c14In struct {
	Scn     c14Scn `json:"scenario"`
	Choices []int  `json:"choices"`
	Sched   string `json:"schedule,omitempty"`
	Race    bool   `json:"race_smoke_run,omitempty"` // the input is the race smoke run, not a schedule
}

// ---- race smoke run ----------------------------------------------------------------------------
// "Without data races" is outside the LTS.  Supporting oracle: harness/cmd/c14race (unscheduled
// concurrent lookups, 12 goroutines on two clients sharing cache and config, tile heights
// 1 and 2, growing server) is built with the race detector against the repository under
// check and must run silently.  Status "unavailable" when there is no race toolchain.
func c14RaceSmoke(out string) (status, report string) {
	repo := os.Getenv("VERIF_REPO")
	if repo == "" {
		repo = "/repo"
	}
	args := []string{"build", "-race"}
	if repo != "/repo" {
		md := filepath.Join(out, "racemod")
		if err := os.MkdirAll(md, 0o755); err != nil {
			return "unavailable", err.Error()
		}
		gm, err := os.ReadFile("/verif/harness/go.mod")
		if err != nil {
			return "unavailable", err.Error()
		}
		sum, _ := os.ReadFile("/verif/harness/go.sum")
		os.WriteFile(filepath.Join(md, "go.mod"), []byte(strings.Replace(string(gm), "=> /repo", "=> "+repo, 1)), 0o644)
		os.WriteFile(filepath.Join(md, "go.sum"), sum, 0o644)
		args = append(args, "-modfile="+filepath.Join(md, "go.mod"))
	}
	bin := fmt.Sprintf("/verif/.work/bin/c14race.%x", sha256.Sum256([]byte(repo)))[:len("/verif/.work/bin/c14race.")+12]
	args = append(args, "-o", bin, "./cmd/c14race")
	env := append(os.Environ(), "CGO_ENABLED=1", "GOFLAGS=-mod=mod", "GOPROXY=off", "GOSUMDB=off", "GOTOOLCHAIN=local")
	ctx, cancel := context.WithTimeout(context.Background(), 6*time.Minute)
	defer cancel()
	build := exec.CommandContext(ctx, "go", args...)
	build.Dir, build.Env = "/verif/harness", env
	if b, err := build.CombinedOutput(); err != nil {
		return "unavailable", "go build -race failed: " + err.Error() + ": " + string(b)
	}
	ctx2, cancel2 := context.WithTimeout(context.Background(), 90*time.Second)
	defer cancel2()
	run := exec.CommandContext(ctx2, bin)
	run.Env = append(os.Environ(), "GORACE=halt_on_error=0")
	b, err := run.CombinedOutput()
	text := string(b)
	if len(text) > 6000 {
		text = text[:6000] + "\n[...]"
	}
	switch {
	case strings.Contains(text, "WARNING: DATA RACE") || strings.Contains(text, "fatal error: concurrent map"):
		return "race", text
	case err != nil:
		return "failed", err.Error() + ": " + text
	}
	return "silent", ""
}

func c14GenScn(r *rand.Rand, small bool) c14Scn {
	var s c14Scn
	heights := []int{1, 2, 2, 3, 8}
	s.PrevH = heights[r.Intn(len(heights))]
	nClients := 1 + r.Intn(2)
	n := 2 + r.Intn(7)
	if small {
		n = 2
		if r.Intn(3) == 0 {
			nClients = 1
		}
	}
	h := heights[r.Intn(len(heights))]
	for i := 0; i < nClients; i++ {
		// all clients of one cache must use one tile height (tiles are cached by path)
		s.Clients = append(s.Clients, gen.ConcClientSpec{NoSumDB: c14Lists[r.Intn(len(c14Lists))], Height: h})
	}
	s.PrevH = h
	// modules the lookups draw from: few, so that keys collide
	k := 1 + r.Intn(3)
	var pool []c14Mod
	for i := 0; i < k; i++ {
		pool = append(pool, c14Public[r.Intn(len(c14Public))])
	}
	// setup: server content, previous process, config state
	nfill := 1 + r.Intn(6)
	for i := 0; i < nfill; i++ {
		s.Setup = append(s.Setup, c14Setup{Op: "grow"})
	}
	for _, m := range pool {
		switch r.Intn(4) {
		case 0: // not on the server yet: the lookup itself grows the log
		case 1, 2:
			s.Setup = append(s.Setup, c14Setup{Op: "add", Path: m.Path, Vers: m.Vers})
		case 3:
			s.Setup = append(s.Setup, c14Setup{Op: "prev", Path: m.Path, Vers: m.Vers})
		}
		if r.Intn(2) == 0 {
			s.Setup = append(s.Setup, c14Setup{Op: "grow"})
		}
	}
	switch r.Intn(5) {
	case 0:
		s.Setup = append(s.Setup, c14Setup{Op: "resetcfg"})
	case 1:
		s.Setup = append(s.Setup, c14Setup{Op: "cfgnow"})
	}
	if r.Intn(3) == 0 {
		s.Setup = append(s.Setup, c14Setup{Op: "grow"})
		if r.Intn(2) == 0 {
			s.Setup = append(s.Setup, c14Setup{Op: "cfgnow"})
			s.Setup = append(s.Setup, c14Setup{Op: "grow"})
		}
	}
	for i := 0; i < n; i++ {
		cl := r.Intn(nClients)
		var m c14Mod
		if r.Intn(5) == 0 {
			m = c14Private[r.Intn(len(c14Private))]
		} else {
			m = pool[r.Intn(len(pool))]
		}
		v := m.Vers
		if r.Intn(3) == 0 {
			v += "/go.mod"
		}
		s.Lookups = append(s.Lookups, gen.ConcLookup{Client: cl, Path: m.Path, Vers: v})
	}
	if r.Intn(4) != 0 {
		for i := range s.Lookups {
			if r.Intn(3) != 0 {
				s.Lookups[i].Yield = 1
			}
		}
	}
	s.Grow = r.Intn(4)
	if small {
		s.Grow = r.Intn(2)
		s.AutoStart = true
	} else {
		s.AutoStart = r.Intn(3) == 0
	}
	return s
}

// c14World builds the world of a scenario (deterministic).
func c14World(s c14Scn) (*gen.ConcWorld, string) {
	w := gen.NewConcWorld()
	w.Grow()
	var prev *sumdb.Client
	for _, st := range s.Setup {
		switch st.Op {
		case "grow":
			w.Grow()
		case "bulk":
			for i := 0; i < st.N; i++ {
				w.Grow()
			}
		case "add":
			w.AddRecord(st.Path, st.Vers)
		case "prev":
			if prev == nil {
				prev = sumdb.NewClient(&gen.ConcOps{W: w, S: gen.NewIdleSched()})
				prev.SetTileHeight(s.PrevH)
			}
			if _, err := prev.Lookup(st.Path, st.Vers); err != nil {
				return w, fmt.Sprintf("sequential lookup of the previous process failed (honest server): Lookup(%q, %q): %v", st.Path, st.Vers, err)
			}
		case "resetcfg":
			w.Cfg = nil
		case "cfgnow":
			w.Cfg = w.SignedNow()
		}
	}
	w.Trace = nil
	w.TileOps = 0
	return w, ""
}

func c14Esc(s string) string {
	var b strings.Builder
	for i := 0; i < len(s); i++ {
		if 'A' <= s[i] && s[i] <= 'Z' {
			b.WriteByte('!')
			b.WriteByte(s[i] + 'a' - 'A')
		} else {
			b.WriteByte(s[i])
		}
	}
	return b.String()
}

func c14RemotePath(l gen.ConcLookup) string {
	return "/lookup/" + c14Esc(l.Path) + "@" + c14Esc(strings.TrimSuffix(l.Vers, "/go.mod"))
}

func c14Want(l gen.ConcLookup) []string {
	data, _ := gen.ConcGosum(l.Path, strings.TrimSuffix(l.Vers, "/go.mod"))
	var out []string
	for _, line := range strings.Split(string(data), "\n") {
		if strings.HasPrefix(line, l.Path+" "+l.Vers+" ") {
			out = append(out, line)
		}
	}
	return out
}

// ---- one run: oracles and the correspondence case ----------------------------------------------

type c14Outcome struct {
	Fail  map[string]string // oracle -> observation (failed oracles only)
	Arg   wire.Val
	Run   *gen.ConcRun
	Trace string
	Skips int
	NoRun bool // the scenario setup already failed
}

var c14Oracles = []string{"no-deadlock", "lookups-return-server-lines", "fetch-once-per-client-and-key",
	"config-monotone-and-final-max", "memory-never-regresses", "gonosumdb-no-ops", "no-security-error"}

func headVal(h *gen.ConcHead) wire.Val {
	if h == nil {
		return wire.L()
	}
	return wire.L(wire.I(h.N), wire.S(h.Hash))
}

func hsize(h *gen.ConcHead) int64 {
	if h == nil {
		return 0
	}
	return h.N
}

func c14Exec(in c14In) *c14Outcome {
	s := in.Scn
	w, setupErr := c14World(s)
	if setupErr != "" {
		return &c14Outcome{Fail: map[string]string{"lookups-return-server-lines": setupErr}, Run: &gen.ConcRun{}, NoRun: true}
	}
	cur0 := w.Size() - 1
	cfg0, _ := gen.ConcHeadOfMsg(w.Cfg)
	// keys: distinct lookup files
	keyOf := map[string]int{}
	var keys []string
	tkey := make([]int, len(s.Lookups))
	skip := make([]bool, len(s.Lookups))
	for t, l := range s.Lookups {
		f := c14RemotePath(l)
		if _, ok := keyOf[f]; !ok {
			keyOf[f] = len(keys)
			keys = append(keys, f)
		}
		tkey[t] = keyOf[f]
		skip[t] = c14Matches[s.Clients[l.Client].NoSumDB][l.Path]
	}
	var cache0 []wire.Val
	keep := map[int64]bool{hsize(cfg0): true} // older heads the scenario refers to
	for k, f := range keys {
		if d, ok := w.Cache[gen.ConcName+f]; ok {
			h, err := gen.ConcHeadOfRecord(d)
			if err != nil {
				panic(err)
			}
			cache0 = append(cache0, wire.L(wire.Int(k), wire.I(h.N), wire.S(h.Hash)))
			keep[h.N] = true
		}
	}
	run := gen.RunConc(w, s.Clients, s.Lookups, s.Grow, s.AutoStart, &gen.FixedChooser{List: in.Choices}, 20*time.Second)
	o := &c14Outcome{Fail: map[string]string{}, Run: run}
	var tb strings.Builder
	for i, e := range run.Trace {
		if i > 0 {
			tb.WriteByte(' ')
		}
		tb.WriteString(e.String())
	}
	o.Trace = tb.String()
	if run.Hang {
		var sc []string
		for _, c := range run.Sched {
			sc = append(sc, fmt.Sprintf("%s%d", c.What, c.Tid))
		}
		o.Fail["no-deadlock"] = "lookups did not finish under schedule " + strings.Join(sc, ",") + " trace: " + o.Trace
		return o
	}
	// --- results
	for t, l := range s.Lookups {
		res := run.Results[t]
		switch {
		case res.Panic != "":
			o.Fail["lookups-return-server-lines"] = fmt.Sprintf("thread %d %s@%s panicked: %s", t, l.Path, l.Vers, res.Panic)
		case skip[t]:
			o.Skips++
			if res.Err != sumdb.ErrGONOSUMDB {
				o.Fail["gonosumdb-no-ops"] = fmt.Sprintf("thread %d %s (GONOSUMDB=%q): err=%v, want ErrGONOSUMDB", t, l.Path, s.Clients[l.Client].NoSumDB, res.Err)
			} else if run.Ops[t] != 0 {
				o.Fail["gonosumdb-no-ops"] = fmt.Sprintf("thread %d %s (GONOSUMDB=%q) made %d ClientOps calls", t, l.Path, s.Clients[l.Client].NoSumDB, run.Ops[t])
			}
		case res.Err != nil:
			o.Fail["lookups-return-server-lines"] = fmt.Sprintf("thread %d %s@%s: %v; trace: %s", t, l.Path, l.Vers, res.Err, o.Trace)
		default:
			if want := c14Want(l); strings.Join(res.Lines, "\n") != strings.Join(want, "\n") || len(want) == 0 {
				o.Fail["lookups-return-server-lines"] = fmt.Sprintf("thread %d %s@%s: lines %q want %q", t, l.Path, l.Vers, res.Lines, want)
			}
		}
	}
	for ci := range s.Clients {
		all := true
		for t, l := range s.Lookups {
			if l.Client == ci && !skip[t] {
				all = false
			}
		}
		if all && run.Calls[ci] != 0 {
			o.Fail["gonosumdb-no-ops"] = fmt.Sprintf("client %d (GONOSUMDB=%q) only ran skipped lookups but made %d ClientOps calls; trace: %s", ci, s.Clients[ci].NoSumDB, run.Calls[ci], o.Trace)
		}
	}
	// --- trace oracles
	type ck struct{ c, k int }
	nrc, nrr := map[ck]int{}, map[ck]int{}
	cfgNow := hsize(cfg0)
	maxServed := hsize(cfg0)
	opIdx := 0
	prevOp := make([]int, len(s.Lookups)) // release index of the thread's previous call
	served := make([]int64, len(s.Lookups))
	for _, e := range run.Trace {
		if e.Kind == gen.EvGrow {
			continue
		}
		opIdx++
		if e.Tid < 0 || e.Tid >= len(s.Lookups) {
			o.Fail["no-security-error"] = "ClientOps call from an unknown goroutine: " + e.String()
			continue
		}
		l := s.Lookups[e.Tid]
		key := ck{l.Client, tkey[e.Tid]}
		switch e.Kind {
		case gen.EvReadConfig:
			if hsize(e.A) != cfgNow {
				o.Fail["config-monotone-and-final-max"] = "harness inconsistency: ReadConfig value"
			}
			if hsize(e.A) > served[e.Tid] {
				served[e.Tid] = hsize(e.A)
			}
		case gen.EvWriteConfig:
			if hsize(e.B) <= hsize(e.A) {
				// the client writes only when the file is in its past
				o.Fail["config-monotone-and-final-max"] = fmt.Sprintf("thread %d tries to replace config head of size %d by size %d: %s", e.Tid, hsize(e.A), hsize(e.B), o.Trace)
			}
			if e.OK {
				if hsize(e.B) < cfgNow {
					o.Fail["config-monotone-and-final-max"] = fmt.Sprintf("config written back from size %d to %d: %s", cfgNow, hsize(e.B), o.Trace)
				}
				cfgNow = hsize(e.B)
			}
			// memory: latestMsg was read after this thread's previous call; every lookup of the same
			// client that had returned by then has merged the heads it was served
			for t2, l2 := range s.Lookups {
				if l2.Client == l.Client && run.FinAt[t2] != 0 && run.FinAt[t2] <= prevOp[e.Tid] && served[t2] > hsize(e.B) {
					o.Fail["memory-never-regresses"] = fmt.Sprintf("thread %d writes head of size %d after thread %d of the same client returned having merged size %d: %s", e.Tid, hsize(e.B), t2, served[t2], o.Trace)
				}
			}
			if hsize(e.B) < served[e.Tid] {
				o.Fail["memory-never-regresses"] = fmt.Sprintf("thread %d writes head of size %d but was itself served size %d: %s", e.Tid, hsize(e.B), served[e.Tid], o.Trace)
			}
		case gen.EvReadCache:
			nrc[key]++
			if e.File != gen.ConcName+keys[tkey[e.Tid]] {
				o.Fail["fetch-once-per-client-and-key"] = fmt.Sprintf("thread %d read cache file %s, want %s", e.Tid, e.File, gen.ConcName+keys[tkey[e.Tid]])
			}
			if hsize(e.A) > served[e.Tid] {
				served[e.Tid] = hsize(e.A)
			}
		case gen.EvReadRemote:
			nrr[key]++
			if e.File != keys[tkey[e.Tid]] {
				o.Fail["fetch-once-per-client-and-key"] = fmt.Sprintf("thread %d fetched %s, want %s", e.Tid, e.File, keys[tkey[e.Tid]])
			}
			if e.A == nil {
				o.Fail["lookups-return-server-lines"] = "remote read failed: " + e.File
			}
			if hsize(e.A) > served[e.Tid] {
				served[e.Tid] = hsize(e.A)
			}
		}
		if served[e.Tid] > maxServed {
			maxServed = served[e.Tid]
		}
		prevOp[e.Tid] = opIdx
	}
	for key, n := range nrc {
		if n > 1 || nrr[key] > 1 {
			o.Fail["fetch-once-per-client-and-key"] = fmt.Sprintf("client %d key %s: %d cache reads, %d remote reads: %s", key.c, keys[key.k], n, nrr[key], o.Trace)
		}
	}
	// waiters of a cell are served what its runner merged
	if hsize(run.FinalCfg) != maxServed {
		o.Fail["config-monotone-and-final-max"] = fmt.Sprintf("final config has size %d, largest head served %d: %s", hsize(run.FinalCfg), maxServed, o.Trace)
	}
	if len(run.Security) > 0 || run.Stray > 0 {
		o.Fail["no-security-error"] = fmt.Sprintf("%d security errors, %d stray calls: %s", len(run.Security), run.Stray, o.Trace)
	}
	// --- the correspondence case
	// the chain of the case: the older heads the scenario refers to, then every head from the
	// server's head at the start of the scheduled phase on
	var chain []wire.Val
	curIdx := 0
	for i, h := range w.Chain {
		if i < cur0 && !keep[h.N] {
			continue
		}
		if i < cur0 {
			curIdx++
		}
		chain = append(chain, wire.L(wire.I(h.N), wire.S(h.Hash)))
	}
	var clients, threads, evs, results []wire.Val
	for _, c := range s.Clients {
		clients = append(clients, wire.S(c.NoSumDB))
	}
	for t, l := range s.Lookups {
		threads = append(threads, wire.L(wire.Int(l.Client), wire.S(l.Path), wire.Int(tkey[t])))
		switch {
		case run.Results[t].Err == sumdb.ErrGONOSUMDB:
			results = append(results, wire.I(0))
		case run.Results[t].Err == nil && run.Results[t].Panic == "":
			results = append(results, wire.I(1))
		default:
			results = append(results, wire.I(2))
		}
	}
	for _, e := range run.Trace {
		switch e.Kind {
		case gen.EvGrow:
			evs = append(evs, wire.L(wire.I(0)))
		case gen.EvReadConfigKey:
			evs = append(evs, wire.L(wire.I(1), wire.Int(e.Tid)))
		case gen.EvReadConfig:
			evs = append(evs, wire.L(wire.I(2), wire.Int(e.Tid), headVal(e.A)))
		case gen.EvWriteConfig:
			evs = append(evs, wire.L(wire.I(3), wire.Int(e.Tid), headVal(e.A), headVal(e.B), wire.Bool(e.OK)))
		case gen.EvReadCache:
			evs = append(evs, wire.L(wire.I(4), wire.Int(e.Tid), headVal(e.A)))
		case gen.EvReadRemote:
			if e.A == nil {
				evs = append(evs, wire.L(wire.I(5), wire.Int(e.Tid), wire.I(-1), wire.S("")))
			} else {
				evs = append(evs, wire.L(wire.I(5), wire.Int(e.Tid), wire.I(e.A.N), wire.S(e.A.Hash)))
			}
		case gen.EvWriteCache:
			evs = append(evs, wire.L(wire.I(6), wire.Int(e.Tid), headVal(e.A)))
		case gen.EvYield:
			evs = append(evs, wire.L(wire.I(7), wire.Int(e.Tid), wire.Int(e.Site)))
		}
	}
	scen := wire.L(wire.L(chain...), wire.Int(curIdx), headVal(cfg0), wire.L(cache0...), wire.L(clients...), wire.L(threads...))
	o.Arg = wire.L(scen, wire.L(evs...), wire.L(results...), headVal(run.FinalCfg))
	return o
}

// ---- driver --------------------------------------------------------------------------------------

func c14Report(c *hx.Ctx, in c14In, o *c14Outcome) {
	var sc []string
	for _, ch := range o.Run.Sched {
		sc = append(sc, fmt.Sprintf("%s%d", ch.What, ch.Tid))
	}
	in.Choices = o.Run.Choices
	in.Sched = strings.Join(sc, ",")
	for _, name := range c14Oracles {
		msg, bad := o.Fail[name]
		c.Check(name, !bad, "", in, msg)
	}
	if o.Run.Hang {
		c.Count("hang")
		return
	}
	if o.NoRun {
		c.Count("setup-failed")
		return
	}
	c.Case("Replay", o.Arg, wire.Ok(wire.I(0)))
	c.Nontrivial(o.Trace)
	c.Count(fmt.Sprintf("threads=%d", len(in.Scn.Lookups)))
	c.Count(fmt.Sprintf("clients=%d", len(in.Scn.Clients)))
	c.Count(fmt.Sprintf("tileheight=%d", in.Scn.Clients[0].Height))
	for _, e := range o.Run.Trace {
		switch e.Kind {
		case gen.EvGrow:
			c.Count("ev:grow")
		case gen.EvReadConfigKey:
			c.Count("ev:ReadConfig(key)")
		case gen.EvReadConfig:
			if e.A == nil {
				c.Count("ev:ReadConfig=empty")
			} else {
				c.Count("ev:ReadConfig=head")
			}
		case gen.EvWriteConfig:
			if e.OK {
				c.Count("ev:WriteConfig=ok")
			} else {
				c.Count("ev:WriteConfig=conflict")
			}
		case gen.EvReadCache:
			if e.A == nil {
				c.Count("ev:ReadCache=miss")
			} else {
				c.Count("ev:ReadCache=hit")
			}
		case gen.EvReadRemote:
			c.Count("ev:ReadRemote")
		case gen.EvWriteCache:
			c.Count("ev:WriteCache")
		case gen.EvYield:
			c.Count(fmt.Sprintf("ev:pause-site=%d", e.Site))
		}
	}
	waiters := 0
	for t := range in.Scn.Lookups {
		if o.Run.Ops[t] == 0 {
			waiters++
		}
	}
	c.Count(fmt.Sprintf("threads-without-calls=%d", waiters-o.Skips))
	if o.Skips > 0 {
		c.Count("runs-with-gonosumdb-skip")
	}
	if len(o.Run.Trace) > 0 && c.Rng.Intn(200) == 0 {
		c.Sample(fmt.Sprintf("%d threads %d clients: %s", len(in.Scn.Lookups), len(in.Scn.Clients), o.Trace))
	}
}

func runC14(c *hx.Ctx) {
	r := c.Rng
	t0 := time.Now()
	status, report := c14RaceSmoke(c.Out)
	c.Count("race:" + status)
	c.Count(fmt.Sprintf("race-smoke-seconds=%d", int(time.Since(t0).Seconds())))
	if status == "unavailable" {
		c.Sample("race smoke run unavailable: " + report)
	} else {
		c.Check("race-detector-silent", status != "race", "", c14In{Race: true}, report)
		// lookups that fail (or a crash) in the unscheduled runner are a functional failure
		c.Check("lookups-return-server-lines", status != "failed", "", c14In{Race: true}, "unscheduled concurrent lookups (cmd/c14race): "+report)
	}
	// exhaustive depth-first enumeration of the call-level schedules of 2 threads
	nDFS, capDFS := 6, c.N(150)
	for i := 0; i < nDFS; i++ {
		scn := c14GenScn(rand.New(rand.NewSource(r.Int63())), true)
		choices := []int{}
		for n := 0; n < capDFS; n++ {
			in := c14In{Scn: scn, Choices: choices}
			o := c14Exec(in)
			c14Report(c, in, o)
			c.Count("mode:dfs")
			var ok bool
			choices, ok = gen.NextDFS(o.Run.Choices, o.Run.Counts)
			if !ok || o.Run.Hang {
				c.Count("dfs-complete")
				break
			}
		}
	}
	// random schedules, 2-8 threads, 1-2 clients; a few on large logs with small tiles
	nBig := c.N(24)
	for i := 0; i < c.N(1200)+nBig; i++ {
		scn := c14GenScn(rand.New(rand.NewSource(r.Int63())), false)
		if i < nBig {
			scn = c14GenBig(rand.New(rand.NewSource(r.Int63())))
			c.Count("large-log")
		}
		m := 2 * len(scn.Lookups) * 12
		choices := make([]int, m)
		// biased draws: sometimes run one thread for a while, which produces the long
		// overtaking patterns uniform choice rarely finds
		for j := range choices {
			choices[j] = r.Intn(16)
		}
		if r.Intn(3) == 0 {
			for j := 1; j < len(choices); j++ {
				if r.Intn(3) != 0 {
					choices[j] = choices[j-1]
				}
			}
		}
		in := c14In{Scn: scn, Choices: choices}
		o := c14Exec(in)
		c14Report(c, in, o)
		c.Count("mode:random")
	}
}

func replayC14(raw json.RawMessage) (bool, string) {
	var in c14In
	if err := json.Unmarshal(raw, &in); err != nil {
		return false, err.Error()
	}
	if in.Race {
		dir, _ := os.MkdirTemp("/verif/.work", "c14race-replay")
		defer os.RemoveAll(dir)
		status, report := c14RaceSmoke(dir)
		return status == "silent" || status == "unavailable", status + ": " + report
	}
	for i := 0; i < 3; i++ {
		o := c14Exec(in)
		if len(o.Fail) > 0 {
			var names []string
			for k := range o.Fail {
				names = append(names, k)
			}
			sort.Strings(names)
			return false, names[0] + ": " + o.Fail[names[0]]
		}
	}
	return true, ""
}
