package props

// A fixed corpus for the module-zip properties, run first on every seed: one input of each
// shape that is known to expose a particular kind of defect (the seeded changes C05-A..F,
// C12-A..F, C17-A..F and the hand-made mutants), so that catching them does not depend on
// the random draws.

import (
	"os"

	"golang.org/x/mod/module"
	modzip "golang.org/x/mod/zip"

	"verif/harness/gen"
)

func zcFile(p string, content string) gen.ZipFileSpec {
	return gen.ZipFileSpec{P: p, Mode: 0o644, Size: int64(len(content)), Content: []byte(content)}
}

func zcList(paths ...string) []gen.ZipFileSpec {
	var fs []gen.ZipFileSpec
	for _, p := range paths {
		c := "x " + p
		if p == "go.mod" {
			c = "module example.com/m\n\ngo 1.24\n"
		}
		fs = append(fs, zcFile(p, c))
	}
	return fs
}

// zipPrefixSiblingLayouts: a directory D that has not been created yet, preceded by a sibling
// whose path merely starts with D's text (both orders, depth 1 and 2, files directly in D and
// in subdirectories of D).
func zipPrefixSiblingLayouts() [][]string {
	pairs := [][2]string{
		{"tool-gen", "tool"}, {"api.v2", "api"}, {"abc", "ab"}, {"server/http", "serve"},
		{"x+", "x"}, {"a b", "a"}, {"p,q", "p"}, {"n!", "n"}, {"lib#1", "lib"}, {"d.", "d"},
	}
	var out [][]string
	for _, pr := range pairs {
		if pr[0] == "d." {
			continue // a trailing dot is not a valid element
		}
		for _, base := range []string{"", "cmd/", "pkg/internal/"} {
			long, short := base+pr[0], base+pr[1]
			out = append(out,
				[]string{"go.mod", long + "/main.go", short + "/main.go"},
				[]string{"go.mod", short + "/main.go", long + "/main.go"},
				[]string{long + "/a/b.go", short + "/sub/deep/c.go", short + "/d.go"},
				[]string{long + "/main.go", "zz.go", short + "/main.go"},
			)
		}
	}
	return out
}

// zipCorpusLists are file lists for CheckFiles / Create.
func zipCorpusLists() [][]gen.ZipFileSpec {
	var out [][]gen.ZipFileSpec
	add := func(fs []gen.ZipFileSpec) { out = append(out, fs) }
	// an irregular go.mod in a subdirectory (not a nested-module marker, must be omitted)
	for _, mode := range []os.FileMode{os.ModeNamedPipe | 0o644, os.ModeDevice | 0o600, os.ModeIrregular | 0o644, os.ModeSocket | 0o644} {
		fs := zcList("go.mod", "sub/go.mod", "sub/x.go", "main.go")
		fs[1].Mode = mode
		add(fs)
	}
	// a path that is a directory (implicitly, listed first) and a file
	add(zcList("a/b.go", "a"))
	add(zcList("go.mod", "x/y/z.go", "x/y"))
	add(zcList("a", "a/b.go"))
	// fold-equal names that are both lower case, or whose upper-case form is not the orbit minimum
	for _, pr := range [][2]string{{"\u03c3.go", "\u03c2.go"}, {"s/x.go", "\u017f/y.go"}, {"\u00b5.go", "\u03bc.go"}, {"\u03b8.go", "\u03d1.go"},
		{"k.go", "\u212a.go"}, {"\u03c9.go", "\u2126.go"}, {"stra\u00dfe.go", "stra\u1e9ee.go"}, {"\u00e5.go", "\u212b.go"}} {
		add(zcList("go.mod", pr[0], pr[1]))
		add(zcList(pr[1], pr[0]))
	}
	// directory components that differ only in case
	add(zcList("Docs/a.md", "docs/b.md"))
	add(zcList("go.mod", "internal/Util/x/a.go", "internal/util/y/b.go"))
	add(zcList("pkg/a.go", "PKG/b.go"))
	// reserved Windows names with two or more dots
	add(zcList("go.mod", "aux.tar.gz"))
	add(zcList("pkg/NUL.en.md", "a/com1.v1.d", "Lpt9.a.b/c.go"))
	// prefix-sibling directory layouts
	for _, l := range zipPrefixSiblingLayouts() {
		add(zcList(l...))
	}
	// totals at the zip limit with go.mod / LICENSE contributing (declared sizes only)
	for _, d := range []int64{-1, 0, 1} {
		fs := zcList("go.mod", "LICENSE", "a.bin")
		fs[0].Size, fs[1].Size = 1000, 2000
		fs[2].Size = modzip.MaxZipFile - 3000 + d
		add(fs)
		fs2 := zcList("go.mod", "a.bin")
		fs2[0].Size = modzip.MaxGoMod
		fs2[1].Size = modzip.MaxZipFile - modzip.MaxGoMod + d
		add(fs2)
	}
	// LICENSE-like names outside the root at the per-file limit: only the root LICENSE is limited
	for _, p := range []string{"third_party/LICENSE", "x/LICENSE.txt", "LICENSE/x", "license", "a/b/LICENSE", "go.mod/x"} {
		for _, d := range []int64{-1, 0, 1} {
			fs := zcList("go.mod", p)
			fs[1].Size = modzip.MaxLICENSE + d
			add(fs)
		}
	}
	// vendoring under go 1.24: two vendor components; a nested module inside a non-top-level
	// vendor directory listed before the root go.mod; an ill-formed name inside a vendored package
	add(zcList("go.mod", "pkg/vendor/example.com/x/vendor/y.go", "pkg/vendor/example.com/x/z.go"))
	add(zcList("cmd/vendor/go.mod", "cmd/vendor/v.go", "go.mod", "main.go"))
	add(zcList("go.mod", "cmd/vendor/go.mod", "cmd/vendor/v.go", "main.go"))
	add(zcList("go.mod", "vendor/a/aux.go", "vendor/a/what?.x", "x/vendor/p/q/a:b.json", "vendor/a/ok.go"))
	old := zcList("go.mod", "vendor/a/aux.go", "pkg/vendor/vendor.go")
	old[0].Content = []byte("module example.com/m\n\ngo 1.23\n")
	old[0].Size = int64(len(old[0].Content))
	add(old)
	return out
}

// zipCorpusArchives are hand-made archives for CheckZip / Unzip of module m.
func zipCorpusArchives(m module.Version) [][]gen.ZipArchEntry {
	prefix := m.Path + "@" + m.Version + "/"
	ent := func(name, content string) gen.ZipArchEntry {
		return gen.ZipArchEntry{Name: prefix + name, Declared: uint64(len(content)), Content: []byte(content)}
	}
	var out [][]gen.ZipArchEntry
	add := func(es ...gen.ZipArchEntry) { out = append(out, es) }
	// directories that differ only in case
	add(ent("pkg/a.go", "a"), ent("PKG/b.go", "b"))
	add(ent("a/b/c/d.go", "d"), ent("a/B/c/e.go", "e"))
	// header says directory, name says file (and the other way round)
	dirMode := func(e gen.ZipArchEntry, mode os.FileMode) gen.ZipArchEntry { e.Mode = mode; return e }
	add(ent("go.mod", "module m\n"), dirMode(ent("sub/go.mod", "module s\n"), os.ModeDir|0o755))
	add(dirMode(ent("GO.MOD", "module m\n"), os.ModeDir|0o755))
	add(dirMode(ent("a", "x"), os.ModeDir|0o755), ent("a/b.go", "package a\n"))
	add(dirMode(gen.ZipArchEntry{Name: prefix + "d/"}, 0o644), ent("d/x.go", "x"))
	big := dirMode(ent("go.mod", "module m\n"), os.ModeDir|0o755)
	big.Declared = modzip.MaxGoMod + 1
	add(big)
	// declared size 0 with data; declared size > 0 without
	z := ent("a.txt", "data")
	z.Declared = 0
	add(ent("go.mod", "module m\n"), z)
	e := ent("b.txt", "")
	e.Declared = 3
	add(e)
	// totals at the limit with go.mod / LICENSE contributing
	for _, d := range []int64{-1, 0, 1} {
		l := ent("large.go", "x")
		l.Declared = uint64(modzip.MaxZipFile - 1000 + d)
		lic := ent("LICENSE", "y")
		lic.Declared = 1000
		add(l, lic)
		g := ent("go.mod", "module m\n")
		g.Declared = 500
		l2 := ent("data", "x")
		l2.Declared = uint64(modzip.MaxZipFile - 500 + d)
		add(g, l2)
	}
	// LICENSE-like names outside the root at the per-file limit
	for _, p := range []string{"third_party/LICENSE", "x/LICENSE.txt", "LICENSE/x", "license", "a/b/LICENSE"} {
		for _, d := range []int64{-1, 0, 1} {
			l := ent(p, "x")
			l.Declared = uint64(modzip.MaxLICENSE + d)
			add(ent("go.mod", "module m\n"), l)
		}
	}
	// fold-equal names
	for _, pr := range [][2]string{{"k.go", "\u212a.go"}, {"\u03c9.go", "\u2126.go"}, {"stra\u00dfe.go", "stra\u1e9ee.go"}, {"\u03c3.go", "\u03c2.go"}, {"s/x.go", "\u017f/y.go"}} {
		add(ent(pr[0], "1"), ent(pr[1], "2"))
		add(ent(pr[1], "1"), ent(pr[0], "2"))
	}
	// explicit directory entries that clash with files or differ in case
	add(ent("a.go", "x"), gen.ZipArchEntry{Name: prefix + "a.go/"})
	add(gen.ZipArchEntry{Name: prefix + "README/"}, ent("readme", "x"))
	add(gen.ZipArchEntry{Name: prefix + "Docs/"}, ent("docs/readme.md", "x"))
	// a file that is also an (implicit) directory, child first
	add(ent("a/b.go", "x"), ent("a", "y"))
	// reserved names with two dots
	add(ent("aux.tar.gz", "x"))
	add(ent("pkg/NUL.en.md", "x"))
	// prefix-sibling directory layouts
	for _, l := range zipPrefixSiblingLayouts() {
		var es []gen.ZipArchEntry
		for _, p := range l {
			c := "x " + p
			if p == "go.mod" {
				c = "module example.com/m\n"
			}
			es = append(es, ent(p, c))
		}
		out = append(out, es)
	}
	return out
}

type zipCorpusTree struct {
	Tree  []*gen.ZipTreeNode
	Spell int
}

// zipCorpusTrees are plain directory trees (with the spelling of the directory argument).
func zipCorpusTrees() []zipCorpusTree {
	f := func(name, content string) *gen.ZipTreeNode {
		return &gen.ZipTreeNode{Name: name, Content: []byte(content)}
	}
	d := func(name string, ch ...*gen.ZipTreeNode) *gen.ZipTreeNode {
		return &gen.ZipTreeNode{Name: name, Kind: 1, Children: ch}
	}
	gm := f("go.mod", "module example.com/m\n\ngo 1.24\n")
	var out []zipCorpusTree
	// a directory named go.mod below the root is not a nested-module marker
	out = append(out, zipCorpusTree{[]*gen.ZipTreeNode{gm, d("internal", d("tmpl", d("go.mod", f("header.tmpl", "h")), f("t.go", "t")))}, 0})
	// a nested module in a non-top-level vendor directory; two vendor components; ill-formed
	// names inside a vendored package
	base := []*gen.ZipTreeNode{gm, f("main.go", "m"),
		d("cmd", d("vendor", f("go.mod", "module v\n"), f("v.go", "v"))),
		d("pkg", d("vendor", d("example.com", d("x", d("vendor", f("y.go", "y")), f("z.go", "z"))))),
		d("vendor", d("a", f("aux.go", "a"), f("what?.x", "w"), f("ok.go", "o"))),
		d("Docs", f("a.md", "a")), d("docs", f("b.md", "b"))}
	// every spelling of the directory argument
	for spell := 0; spell < c17Spellings; spell++ {
		out = append(out, zipCorpusTree{base, spell})
	}
	// no root go.mod
	out = append(out, zipCorpusTree{[]*gen.ZipTreeNode{f("a.go", "a"), d("p", f("b.go", "b"))}, 1},
		zipCorpusTree{[]*gen.ZipTreeNode{f("a.go", "a"), d("p", f("b.go", "b"))}, 5})
	return out
}

// zipCorpusModules are module path/version pairs run with a small well-formed list: +incompatible
// versions whose major number has two or three digits starting with 1 (below "v2" as strings),
// and v0/v1 ones.
func zipCorpusModules() []module.Version {
	var out []module.Version
	for _, v := range []string{"v17.0.0+incompatible", "v10.1.2+incompatible", "v11.0.0+incompatible", "v19.9.9+incompatible",
		"v100.0.0+incompatible", "v123.4.5+incompatible", "v1.2.3+incompatible", "v0.1.0+incompatible", "v2.0.0+incompatible", "v9.0.0+incompatible"} {
		out = append(out, module.Version{Path: "rsc.io/quote", Version: v})
	}
	return out
}
