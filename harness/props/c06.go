package props

import (
	"encoding/json"
	"errors"
	"fmt"
	"math/rand"
	"path"
	"regexp"
	"strings"
	"unicode"

	"golang.org/x/mod/module"
	"golang.org/x/mod/semver"

	"verif/harness/gen"
	"verif/harness/hx"
	"verif/harness/wire"
)

func init() { hx.Register(&hx.Prop{ID: "C06", Run: runC06, Replay: replayC06}) }

// ---- projections of the implementation's results ------------------------------------------

// c06PathErrKind maps the error of CheckPath/CheckImportPath/CheckFilePath to the name of
// the return statement that produced it (the model's err_kind).
func c06PathErrKind(err error) string {
	if err == nil {
		return ""
	}
	var ipe *module.InvalidPathError
	if !errors.As(err, &ipe) || ipe.Err == nil {
		return "other:" + err.Error()
	}
	m := ipe.Err.Error()
	switch {
	case m == "invalid UTF-8":
		return "invalid-utf8"
	case m == "empty string":
		return "empty"
	case m == "leading dash":
		return "leading-dash"
	case m == "double slash":
		return "double-slash"
	case m == "trailing slash":
		return "trailing-slash"
	case m == "empty path element":
		return "empty-elem"
	case strings.HasPrefix(m, "invalid path element "):
		return "all-dots"
	case m == "leading dot in path element":
		return "leading-dot"
	case m == "trailing dot in path element":
		return "trailing-dot"
	case strings.HasPrefix(m, "invalid char ") && strings.HasSuffix(m, " in first path element"):
		return "first-invalid-char"
	case strings.HasPrefix(m, "invalid char "):
		return "invalid-char"
	case strings.HasSuffix(m, " disallowed as path element component on Windows"):
		return "windows-name"
	case m == "trailing tilde and digits in path element":
		return "tilde-digits"
	case m == "leading slash":
		return "leading-slash"
	case m == "missing dot in first path element":
		return "missing-dot"
	case m == "leading dash in first path element":
		return "first-leading-dash"
	case m == "invalid version":
		return "invalid-version"
	}
	return "other:" + m
}

func c06OkOr(err error) string {
	if k := c06PathErrKind(err); k != "" {
		return k
	}
	return "ok"
}

func c06EncErr(kind string) wire.Val {
	if kind == "" {
		return wire.Ok(wire.L())
	}
	return wire.Err(kind)
}

func c06CheckErrKind(err error) string {
	if err == nil {
		return ""
	}
	var ipe *module.InvalidPathError
	if errors.As(err, &ipe) {
		return c06PathErrKind(err)
	}
	var ive *module.InvalidVersionError
	if errors.As(err, &ive) {
		if ive.Err != nil && ive.Err.Error() == "not a semantic version" {
			return "not-semver"
		}
		return "major-mismatch"
	}
	return "other:" + err.Error()
}

// ---- the documented rules, transcribed from the doc comments (not from checkElem) ----------

const (
	c06Module = iota
	c06Import
	c06File
)

var c06Reserved = map[string]bool{"CON": true, "PRN": true, "AUX": true, "NUL": true,
	"COM1": true, "COM2": true, "COM3": true, "COM4": true, "COM5": true, "COM6": true, "COM7": true, "COM8": true, "COM9": true,
	"LPT1": true, "LPT2": true, "LPT3": true, "LPT4": true, "LPT5": true, "LPT6": true, "LPT7": true, "LPT8": true, "LPT9": true}

var (
	c06TildeDigits = regexp.MustCompile(`~[0-9]+$`)
	c06FirstElem   = regexp.MustCompile(`^[a-z0-9.-]+$`)
	c06VN          = regexp.MustCompile(`^v([0-9.]+)$`)
	// gopkg.in server conventions as SplitPathVersion documents them: ".vN" for all N,
	// optionally "-unstable" (not for v0)
	c06Gopkg       = regexp.MustCompile(`^gopkg\.in/.*\.v(?:0|[1-9][0-9]*(?:-unstable)?)$`)
	c06GopkgSuffix = regexp.MustCompile(`^\.v(?:0|[1-9][0-9]*(?:-unstable)?)$`)
	c06SlashSuffix = regexp.MustCompile(`^/v[1-9][0-9]*$`)
)

func c06ASCIIUpper(s string) string {
	b := []byte(s)
	for i, c := range b {
		if 'a' <= c && c <= 'z' {
			b[i] = c - 32
		}
	}
	return string(b)
}

func c06DocCharOK(kind int, r rune) bool {
	ascii := 'a' <= r && r <= 'z' || 'A' <= r && r <= 'Z' || '0' <= r && r <= '9'
	switch kind {
	case c06Module:
		return ascii || strings.ContainsRune("-._~", r)
	case c06Import:
		return ascii || strings.ContainsRune("-._~+", r)
	default:
		// "all Unicode letters, ASCII digits, the ASCII space character, and the ASCII
		// punctuation characters !#$%&()+,-.=@[]^_{}~"
		return unicode.IsLetter(r) || '0' <= r && r <= '9' || r == ' ' || strings.ContainsRune("!#$%&()+,-.=@[]^_{}~", r)
	}
}

// literalDots: apply the clause "nor contain two dots in a row" of the CheckImportPath doc
// (the implementation does not: known finding K5).
func c06DocElemOK(kind int, e string, literalDots bool) bool {
	if e == "" {
		return false
	}
	for _, r := range e {
		if !c06DocCharOK(kind, r) {
			return false
		}
	}
	if strings.HasSuffix(e, ".") {
		return false
	}
	if literalDots && strings.Contains(e, "..") {
		return false
	}
	if kind == c06Module && strings.HasPrefix(e, ".") {
		return false
	}
	short := e
	if i := strings.IndexByte(e, '.'); i >= 0 {
		short = e[:i]
	}
	if c06Reserved[c06ASCIIUpper(short)] {
		return false
	}
	if kind != c06File && c06TildeDigits.MatchString(short) {
		return false
	}
	return true
}

func c06DocPathOK(kind int, p string, literalDots bool) bool {
	if p == "" {
		return false
	}
	// implemented (error "leading dash") although no doc comment states it
	if kind != c06File && p[0] == '-' {
		return false
	}
	elems := strings.Split(p, "/")
	for _, e := range elems {
		if !c06DocElemOK(kind, e, literalDots) {
			return false
		}
	}
	if kind != c06Module {
		return true
	}
	first := elems[0]
	if !c06FirstElem.MatchString(first) || !strings.Contains(first, ".") || first[0] == '-' {
		return false
	}
	if strings.HasPrefix(p, "gopkg.in/") {
		return c06Gopkg.MatchString(p)
	}
	if len(elems) >= 2 {
		if m := c06VN.FindStringSubmatch(elems[len(elems)-1]); m != nil {
			n := m[1]
			if n[0] == '0' || n == "1" || strings.Contains(n, ".") {
				return false
			}
		}
	}
	return true
}

// SplitPathVersion as documented.
func c06DocSplit(p string) (string, string, bool) {
	if strings.HasPrefix(p, "gopkg.in/") {
		if !c06Gopkg.MatchString(p) {
			return p, "", false
		}
		i := strings.LastIndex(p, ".v")
		return p[:i], p[i:], true
	}
	i := strings.LastIndexByte(p, '/')
	if i < 0 {
		return p, "", true
	}
	m := c06VN.FindStringSubmatch(p[i+1:])
	if m == nil {
		return p, "", true
	}
	n := m[1]
	if n[0] == '0' || n == "1" || strings.Contains(n, ".") {
		return p, "", false
	}
	return p[:i], p[i:], true
}

var c06MajorRE = regexp.MustCompile(`^v(0|[1-9][0-9]*)`)

// the documented correspondence between a valid version and a well-formed pathMajor
func c06DocMajorMatches(v, pm string) bool {
	m := c06MajorRE.FindString(v)
	switch {
	case pm == "":
		return m == "v0" || m == "v1" || strings.HasSuffix(v, "+incompatible")
	case pm[0] == '/':
		return m == pm[1:]
	default:
		n := strings.TrimSuffix(pm[1:], "-unstable")
		return m == n || n == "v1" && strings.HasPrefix(v, "v0.0.0-")
	}
}

// MatchPrefixPatterns as documented ("any path prefix of target matches one of the glob
// patterns ... ignores empty or malformed patterns ... trailing slashes are ignored").
func c06DocPrefixPatterns(globs, target string) bool {
	elems := strings.Split(target, "/")
	for _, g := range strings.Split(globs, ",") {
		g = strings.TrimSuffix(g, "/")
		if g == "" {
			continue
		}
		n := strings.Count(g, "/") + 1
		if len(elems) < n {
			continue
		}
		if ok, err := path.Match(g, strings.Join(elems[:n], "/")); err == nil && ok {
			return true
		}
	}
	return false
}

// ---- oracles (shared by Run and Replay) -----------------------------------------------------

type c06In struct {
	Op string   `json:"op"`
	V  []string `json:"args_hex"`
}

type c06Verdict struct {
	oracle, msg, shape string
}

// c06PathOracles evaluates every single-path oracle on p.
func c06PathOracles(p string) []c06Verdict {
	var out []c06Verdict
	add := func(oracle, msg, shape string) { out = append(out, c06Verdict{oracle, msg, shape}) }
	em, ei, ef := module.CheckPath(p), module.CheckImportPath(p), module.CheckFilePath(p)

	// implication chain
	msg := ""
	if em == nil && ei != nil {
		msg = fmt.Sprintf("CheckPath(%q)=nil but CheckImportPath: %v", p, ei)
	} else if ei == nil && ef != nil {
		msg = fmt.Sprintf("CheckImportPath(%q)=nil but CheckFilePath: %v", p, ef)
	}
	add("chain-module-import-file", msg, "")

	// documented rules
	for kind, err := range []error{em, ei, ef} {
		name := []string{"CheckPath", "CheckImportPath", "CheckFilePath"}[kind]
		lit, impl := c06DocPathOK(kind, p, true), c06DocPathOK(kind, p, false)
		msg, shape := "", ""
		if (err == nil) != lit {
			msg = fmt.Sprintf("%s(%q): implementation accepts=%v, documented rules accept=%v (err=%v)", name, p, err == nil, lit, err)
			if (err == nil) == impl {
				shape = "K5" // differs only by the "two dots in a row" clause
			}
		}
		add("doc-rules-"+name, msg, shape)
	}

	// SplitPathVersion: reassembly, suffix shape, documented result
	pre, pm, ok := module.SplitPathVersion(p)
	msg = ""
	dpre, dpm, dok := c06DocSplit(p)
	switch {
	case pre+pm != p:
		msg = fmt.Sprintf("SplitPathVersion(%q) = %q + %q does not reassemble", p, pre, pm)
	case !ok && (pm != "" || pre != p):
		msg = fmt.Sprintf("SplitPathVersion(%q) = %q %q with ok=false", p, pre, pm)
	case ok && pm != "" && !(c06SlashSuffix.MatchString(pm) && pm != "/v1" && !strings.HasPrefix(p, "gopkg.in/") ||
		c06GopkgSuffix.MatchString(pm) && strings.HasPrefix(p, "gopkg.in/")):
		msg = fmt.Sprintf("SplitPathVersion(%q): suffix %q has not the documented shape", p, pm)
	case ok && pm == "" && strings.HasPrefix(p, "gopkg.in/"):
		msg = fmt.Sprintf("SplitPathVersion(%q): gopkg.in path accepted without .vN", p)
	case pre != dpre || pm != dpm || ok != dok:
		msg = fmt.Sprintf("SplitPathVersion(%q) = (%q,%q,%v), documented (%q,%q,%v)", p, pre, pm, ok, dpre, dpm, dok)
	case em == nil && !ok:
		msg = fmt.Sprintf("CheckPath(%q)=nil but SplitPathVersion not ok", p)
	}
	add("split-reassembly-and-shape", msg, "")

	// PathMajorPrefix on the suffix of a valid module path
	if em == nil {
		msg = ""
		var pfx string
		if panicked, pm2 := hx.Guard(func() { pfx = module.PathMajorPrefix(pm) }); panicked {
			msg = fmt.Sprintf("PathMajorPrefix(%q) panics for valid module path %q: %s", pm, p, pm2)
		} else if pm == "" && pfx != "" || pm != "" && (pfx != strings.TrimSuffix(pm[1:], "-unstable") || !module.MatchPathMajor(pfx+".0.0", pm)) {
			msg = fmt.Sprintf("PathMajorPrefix(%q) = %q for valid module path %q", pm, pfx, p)
		}
		add("major-prefix", msg, "")
	}
	return out
}

func c06CheckOracle(p, v string) string {
	err := module.Check(p, v)
	_, pm, _ := module.SplitPathVersion(p)
	conj := module.CheckPath(p) == nil && semver.IsValid(v) && module.MatchPathMajor(v, pm)
	if (err == nil) != conj {
		return fmt.Sprintf("Check(%q,%q)=%v but CheckPath/IsValid/MatchPathMajor conjunction=%v", p, v, err, conj)
	}
	if module.CheckPath(p) == nil && semver.IsValid(v) {
		if want := c06DocMajorMatches(v, pm); (err == nil) != want {
			return fmt.Sprintf("Check(%q,%q)=%v but the documented major-version rule for suffix %q says %v", p, v, err, pm, want)
		}
	}
	return ""
}

func c06MajorOracle(v, pm string) string {
	m, e := module.MatchPathMajor(v, pm), module.CheckPathMajor(v, pm)
	if m != (e == nil) {
		return fmt.Sprintf("MatchPathMajor(%q,%q)=%v but CheckPathMajor=%v", v, pm, m, e)
	}
	wellFormed := pm == "" || c06SlashSuffix.MatchString(pm) && pm != "/v1" || c06GopkgSuffix.MatchString(pm)
	if semver.IsValid(v) && wellFormed {
		if want := c06DocMajorMatches(v, pm); m != want {
			return fmt.Sprintf("MatchPathMajor(%q,%q)=%v, documented rule says %v", v, pm, m, want)
		}
	}
	return ""
}

func c06GlobOracle(globs, target string) string {
	got, want := module.MatchPrefixPatterns(globs, target), c06DocPrefixPatterns(globs, target)
	if got != want {
		return fmt.Sprintf("MatchPrefixPatterns(%q,%q)=%v, documented definition gives %v", globs, target, got, want)
	}
	return ""
}

// ---- generators specific to C06 -------------------------------------------------------------

func c06Version(r *rand.Rand, p string) string {
	_, pm, _ := module.SplitPathVersion(p)
	maj := "v" + []string{"0", "1", "2", "3", "10"}[r.Intn(5)]
	if pm != "" && r.Intn(4) != 0 {
		maj = strings.TrimSuffix(pm[1:], "-unstable")
	} else if pm == "" && r.Intn(3) != 0 {
		maj = []string{"v0", "v1"}[r.Intn(2)]
	}
	switch k := r.Intn(20); {
	case k < 8:
		return maj + "." + gen.Numeral(r, false) + "." + gen.Numeral(r, false)
	case k < 10:
		return maj + ".0.0-" + gen.Ident(r, false, false)
	case k < 12:
		return maj + ".1.0+incompatible"
	case k < 14:
		return []string{"v0.0.0-20161208181325-20d25e280405", "v0.0.0-pre", "v0.0.0", "v0.0.0-", "v0.0.0-0", "v0.0.1-x"}[r.Intn(6)]
	case k < 15:
		return maj // short form
	case k < 16:
		return maj + ".2" // short form
	case k < 17:
		return maj + ".0.0+meta"
	default:
		return gen.Version(r)
	}
}

func c06PathMajor(r *rand.Rand) string {
	switch k := r.Intn(20); {
	case k < 4:
		return ""
	case k < 9:
		return []string{"/v2", "/v3", "/v10", "/v1", "/v0", "/v02"}[r.Intn(6)]
	case k < 13:
		return []string{".v1", ".v2", ".v0", ".v3", ".v10", ".v01"}[r.Intn(6)]
	case k < 16:
		return []string{".v1-unstable", ".v2-unstable", ".v0-unstable", ".v-unstable", "/v2-unstable", ".v1-unstable-unstable"}[r.Intn(6)]
	case k < 18:
		return []string{"v2", "2", "/", ".", "/v", ".v", "/2", "-unstable", "x/v2", "/v2.0", "/v2/", "é", ".é"}[r.Intn(13)]
	default:
		return gen.Mutate(r, []string{"/v2", ".v1", ".v2-unstable"}[r.Intn(3)], "/.v012-unstable")
	}
}

const c06GlobMeta = "*?[]\\-^"

func c06GlobFrom(r *rand.Rand, target string) string {
	elems := strings.Split(target, "/")
	n := 1 + r.Intn(len(elems))
	if r.Intn(8) == 0 {
		n = len(elems) + 1
		elems = append(elems, "x")
	}
	out := make([]string, n)
	for i := 0; i < n; i++ {
		e := elems[i]
		switch r.Intn(12) {
		case 0:
			e = "*"
		case 1:
			if len(e) > 0 {
				j := r.Intn(len(e))
				e = e[:j] + "*"
			}
		case 2:
			if len(e) > 0 {
				j := r.Intn(len(e))
				e = "*" + e[j:]
			}
		case 3:
			if len(e) > 0 {
				j := r.Intn(len(e))
				e = e[:j] + "?" + e[j+1:]
			}
		case 4:
			if len(e) > 0 {
				j := r.Intn(len(e))
				e = e[:j] + []string{"[a-z]", "[^/]", "[a-zA-Z0-9.]", "[^a]", "[", "[]", "[a-]", "[\\]]", "[!a]", "[.-z]"}[r.Intn(10)] + e[j+1:]
			}
		case 5:
			if len(e) > 0 {
				j := r.Intn(len(e))
				e = e[:j] + "\\" + e[j:]
			}
		case 6:
			e = gen.Mutate(r, e, c06GlobMeta+"ab/.")
		}
		out[i] = e
	}
	g := strings.Join(out, "/")
	if r.Intn(6) == 0 {
		g += "/"
	}
	if r.Intn(25) == 0 {
		g += "/"
	}
	return g
}

func c06Globs(r *rand.Rand, target string) string {
	n := r.Intn(4)
	if r.Intn(10) == 0 {
		n = 0
	}
	var items []string
	for i := 0; i <= n; i++ {
		switch k := r.Intn(12); {
		case k < 6:
			items = append(items, c06GlobFrom(r, target))
		case k < 8:
			items = append(items, c06GlobFrom(r, gen.ModulePath(r)))
		case k < 9:
			items = append(items, "")
		case k < 10:
			items = append(items, []string{"/", "//", "*", "*/", "*/*", "*.com", "*.com/*", "[", "\\", "a\\", "[a", "[]a]", "**", "?", "*/", "github.com/*/*"}[r.Intn(16)])
		default:
			items = append(items, []string{"example.com", "github.com", "*.org", "golang.org/x", "gopkg.in/*", "rsc.io/"}[r.Intn(6)])
		}
	}
	return strings.Join(items, ",")
}

func c06Pattern(r *rand.Rand) (string, string) {
	alpha := "ab/*?[]-^\\xé.\xff"
	n := r.Intn(9)
	var b strings.Builder
	for i := 0; i < n; i++ {
		switch r.Intn(14) {
		case 0:
			b.WriteString([]string{"[a-c]", "[^a-c]", "[abc]", "[a-cx-z]", "[\\-]", "[\\]]", "[a\\-z]", "[^/]", "[é-я]", "[a-é]", "[*]", "[?]", "[[]", "[^]", "[^^]", "[]-]", "[a-a]", "[c-a]"}[r.Intn(18)])
		case 1:
			b.WriteString([]string{"*", "**", "?", "\\*", "\\?", "\\[", "\\\\", "é", "я", "日", "/"}[r.Intn(11)])
		default:
			b.WriteByte(alpha[r.Intn(len(alpha))])
		}
	}
	pat := b.String()
	// a name related to the pattern: literal characters kept, metacharacters replaced
	var nb strings.Builder
	for i := 0; i < len(pat); i++ {
		c := pat[i]
		switch {
		case strings.IndexByte("*", c) >= 0:
			nb.WriteString([]string{"", "a", "ab", "b/", "é", "xyz"}[r.Intn(6)])
		case c == '?':
			nb.WriteString([]string{"a", "b", "/", "é", "日", "\xff", ""}[r.Intn(7)])
		case c == '[':
			j := strings.IndexByte(pat[i:], ']')
			nb.WriteString([]string{"a", "b", "c", "z", "-", "]", "é", "/", "^"}[r.Intn(9)])
			if j > 0 && r.Intn(3) != 0 {
				i += j
			}
		case c == '\\':
		default:
			nb.WriteByte(c)
		}
	}
	name := nb.String()
	if r.Intn(4) == 0 {
		name = gen.Mutate(r, name, "ab/-^]é")
	}
	return pat, name
}

// ---- Run ---------------------------------------------------------------------------------------

func runC06(c *hx.Ctx) {
	r := c.Rng
	checks := []struct {
		name string
		f    func(string) error
	}{{"CheckPath", module.CheckPath}, {"CheckImportPath", module.CheckImportPath}, {"CheckFilePath", module.CheckFilePath}}

	knownReported := map[string]int{}
	nSamples := 0
	onePath := func(p string, src string) {
		accepted := false
		for _, ck := range checks {
			k := c06PathErrKind(ck.f(p))
			c.Case(ck.name, wire.S(p), c06EncErr(k))
			if k == "" {
				accepted = true
				c.Count(ck.name + ":" + src + ":ok")
				c.Count(ck.name + "=ok")
			} else {
				c.Count(ck.name + ":" + src + ":rejected")
				c.Count(ck.name + "=" + k)
			}
		}
		pre, pm, ok := module.SplitPathVersion(p)
		c.Case("SplitPathVersion", wire.S(p), wire.L(wire.S(pre), wire.S(pm), wire.Bool(ok)))
		switch {
		case !ok:
			c.Count("split=not-ok")
		case pm == "":
			c.Count("split=no-suffix")
		case pm[0] == '/':
			c.Count("split=/vN")
		case strings.HasSuffix(pm, "-unstable"):
			c.Count("split=.vN-unstable")
		default:
			c.Count("split=.vN")
		}
		if accepted {
			c.Nontrivial("p:" + p)
		}
		if src != "exh" && nSamples < 10 {
			nSamples++
			c.Sample(fmt.Sprintf("%q: CheckPath=%s CheckImportPath=%s CheckFilePath=%s SplitPathVersion=(%q,%q,%v)", p,
				c06OkOr(module.CheckPath(p)), c06OkOr(module.CheckImportPath(p)), c06OkOr(module.CheckFilePath(p)), pre, pm, ok))
		}
		for _, v := range c06PathOracles(p) {
			if v.msg != "" && v.shape != "" {
				// hx keeps at most 50 failures: report a known shape a few times only, so
				// that it cannot crowd out a new failure; the rest are counted
				c.Count("known-shape:" + v.shape + ":" + v.oracle)
				if knownReported[v.shape] >= 3 {
					c.Check(v.oracle, true, "", nil, "")
					continue
				}
				knownReported[v.shape]++
			}
			c.Check(v.oracle, v.msg == "", v.shape, c06In{"path", hexes(p)}, v.msg)
		}
	}

	// exhaustive: every element of length <= 3 (thorough: 4) over a 15-symbol alphabet, as a
	// single-element path and as the second element after a valid domain
	syms := []string{"a", "n", "u", "L", ".", "~", "1", "0", "-", "+", "_", " ", "/", "é", "!"}
	maxLen := 3
	if c.Tier == "thorough" {
		maxLen = 4
	}
	var rec func(prefix string, n int)
	rec = func(prefix string, n int) {
		onePath(prefix, "exh")
		k := c06PathErrKind(module.CheckPath("x.y/" + prefix))
		c.Case("CheckPath", wire.S("x.y/"+prefix), c06EncErr(k))
		c.Count("CheckPath=" + map[bool]string{true: "ok", false: k}[k == ""])
		if n == maxLen {
			return
		}
		for _, s := range syms {
			rec(prefix+s, n+1)
		}
	}
	rec("", 0)

	for i := 0; i < c.N(9000); i++ {
		onePath(gen.ModulePath(r), "module-gen")
	}
	for i := 0; i < c.N(5000); i++ {
		onePath(gen.ImportPath(r), "import-gen")
	}
	for i := 0; i < c.N(5000); i++ {
		onePath(gen.FilePath(r), "file-gen")
	}
	for i := 0; i < c.N(1500); i++ {
		onePath(gen.RawBytes(r, 10), "raw")
	}

	// (path, version)
	for i := 0; i < c.N(8000); i++ {
		p := gen.ModulePath(r)
		for j := 0; j < 6 && module.CheckPath(p) != nil && r.Intn(8) != 0; j++ {
			p = gen.ModulePath(r)
		}
		v := c06Version(r, p)
		k := c06CheckErrKind(module.Check(p, v))
		c.Case("Check", wire.L(wire.S(p), wire.S(v)), c06EncErr(k))
		switch k {
		case "":
			c.Count("Check=ok")
			c.Nontrivial("c:" + p + "@" + v)
		case "not-semver", "major-mismatch":
			c.Count("Check=" + k)
		default:
			c.Count("Check=path-error")
		}
		msg := c06CheckOracle(p, v)
		c.Check("check-iff-conjunction", msg == "", "", c06In{"check", hexes(p, v)}, msg)
	}
	// (version, pathMajor)
	for i := 0; i < c.N(6000); i++ {
		pm := c06PathMajor(r)
		var v string
		if r.Intn(3) == 0 {
			v = gen.Version(r)
		} else {
			v = c06Version(r, "x.y"+pm)
			if strings.HasPrefix(pm, ".") {
				v = c06Version(r, "gopkg.in/x"+pm)
			}
		}
		e := module.CheckPathMajor(v, pm)
		k := ""
		if e != nil {
			k = "major-mismatch"
		}
		c.Case("CheckPathMajor", wire.L(wire.S(v), wire.S(pm)), c06EncErr(k))
		c.Case("MatchPathMajor", wire.L(wire.S(v), wire.S(pm)), wire.Bool(module.MatchPathMajor(v, pm)))
		c.Count(fmt.Sprintf("MatchPathMajor=%v", e == nil))
		msg := c06MajorOracle(v, pm)
		c.Check("match-major-documented-rule", msg == "", "", c06In{"major", hexes(v, pm)}, msg)
	}
	for i := 0; i < c.N(2000); i++ {
		pm := c06PathMajor(r)
		var out string
		panicked, _ := hx.Guard(func() { out = module.PathMajorPrefix(pm) })
		if panicked {
			c.Case("PathMajorPrefix", wire.S(pm), wire.Panic())
			c.Count("PathMajorPrefix=panic")
		} else {
			c.Case("PathMajorPrefix", wire.S(pm), wire.Ok(wire.S(out)))
			c.Count("PathMajorPrefix=ok")
		}
	}

	// glob lists
	for i := 0; i < c.N(8000); i++ {
		var target string
		switch r.Intn(10) {
		case 0:
			target = gen.ImportPath(r)
		case 1:
			target = []string{"", "/", "a", "a/", "/a", "a//b", "a/b/c/d/e"}[r.Intn(7)]
		default:
			target = gen.ModulePath(r)
		}
		globs := c06Globs(r, target)
		got := module.MatchPrefixPatterns(globs, target)
		c.Case("MatchPrefixPatterns", wire.L(wire.S(globs), wire.S(target)), wire.Bool(got))
		c.Count(fmt.Sprintf("MatchPrefixPatterns=%v", got))
		if got {
			c.Nontrivial("g:" + globs + "\x00" + target)
		}
		msg := c06GlobOracle(globs, target)
		c.Check("prefix-patterns-documented-definition", msg == "", "", c06In{"globs", hexes(globs, target)}, msg)
	}

	// path.Match itself
	matchSrc := "exh"
	oneMatch := func(pat, name string) {
		m, err := path.Match(pat, name)
		switch {
		case err != nil:
			c.Case("path.Match", wire.L(wire.S(pat), wire.S(name)), wire.Err("bad-pattern"))
			c.Count("path.Match:" + matchSrc + "=bad-pattern")
		default:
			c.Case("path.Match", wire.L(wire.S(pat), wire.S(name)), wire.Ok(wire.Bool(m)))
			c.Count(fmt.Sprintf("path.Match:%s=%v", matchSrc, m))
		}
	}
	// exhaustive: patterns of length <= 4 over {a,b,/,*,?,[,],-,^,\} against a fixed name set
	// (thorough: every name of length <= 3 over {a,b,/,-,^,]})
	palpha := "ab/*?[]-^\\"
	names := []string{"", "a", "b", "/", "-", "^", "]", "ab", "aa", "a/", "/a", "a-", "aab", "a/b", "ba", "abab"}
	if c.Tier == "thorough" {
		names = nil
		var nrec func(p string)
		nrec = func(p string) {
			names = append(names, p)
			if len(p) == 3 {
				return
			}
			for _, ch := range "ab/-^]" {
				nrec(p + string(ch))
			}
		}
		nrec("")
	}
	var prec func(p string)
	prec = func(p string) {
		for _, n := range names {
			oneMatch(p, n)
		}
		if len(p) == 4 {
			return
		}
		for i := 0; i < len(palpha); i++ {
			prec(p + string(palpha[i]))
		}
	}
	prec("")
	matchSrc = "gen"
	for i := 0; i < c.N(12000); i++ {
		oneMatch(c06Pattern(r))
	}
}

func replayC06(raw json.RawMessage) (bool, string) {
	var in c06In
	if err := json.Unmarshal(raw, &in); err != nil {
		return false, err.Error()
	}
	a := unhexes(in.V)
	var msgs []string
	switch in.Op {
	case "path":
		for _, v := range c06PathOracles(a[0]) {
			if v.msg != "" {
				msgs = append(msgs, v.oracle+": "+v.msg)
			}
		}
	case "check":
		if m := c06CheckOracle(a[0], a[1]); m != "" {
			msgs = append(msgs, m)
		}
	case "major":
		if m := c06MajorOracle(a[0], a[1]); m != "" {
			msgs = append(msgs, m)
		}
	case "globs":
		if m := c06GlobOracle(a[0], a[1]); m != "" {
			msgs = append(msgs, m)
		}
	}
	return len(msgs) == 0, strings.Join(msgs, "; ")
}
