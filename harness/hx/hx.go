// Package hx is the small framework shared by the per-property harnesses: a run context
// with one PRNG, a recorder for correspondence cases (input + implementation result, to
// be compared with the Coq model's result), property oracles on the implementation, and
// measured statistics for the evidence file.
package hx

import (
	"bufio"
	"encoding/json"
	"fmt"
	"math/rand"
	"os"
	"path/filepath"
	"sort"
	"sync"

	"verif/harness/wire"
)

// Prop is one property's harness.
type Prop struct {
	ID string
	// Run generates cases, runs the implementation and the oracles.
	Run func(c *Ctx)
	// Replay re-executes a recorded oracle failure (the "input" object of a replay file)
	// against the current implementation and reports whether the property holds on it.
	Replay func(input json.RawMessage) (holds bool, detail string)
}

var registry = map[string]*Prop{}

func Register(p *Prop) { registry[p.ID] = p }
func Lookup(id string) *Prop { return registry[id] }
func IDs() []string {
	var ids []string
	for id := range registry {
		ids = append(ids, id)
	}
	sort.Strings(ids)
	return ids
}

// Failure is one oracle failure: the concrete input is the replay.
type Failure struct {
	Property string          `json:"property"`
	Kind     string          `json:"kind"` // "oracle"
	Oracle   string          `json:"oracle"`
	Input    json.RawMessage `json:"input"`
	Observed string          `json:"impl_observation"`
	Shape    string          `json:"shape,omitempty"` // key matched against known_findings.json
	Seed     int64           `json:"seed"`
}

type Ctx struct {
	ID    string
	Rng   *rand.Rand
	Seed  int64
	Tier  string
	Scale int // 1 quick, larger thorough
	Out   string

	mu        sync.Mutex
	cases     *bufio.Writer
	impl      *bufio.Writer
	casesF    *os.File
	implF     *os.File
	n         int
	nontriv   map[string]struct{}
	dist      map[string]int
	oracleN   map[string]int
	failures  []Failure
	samples   []string
	maxFail   int
}

func NewCtx(id string, seed int64, tier string, out string) (*Ctx, error) {
	if err := os.MkdirAll(out, 0o755); err != nil {
		return nil, err
	}
	cf, err := os.Create(filepath.Join(out, "cases.tsv"))
	if err != nil {
		return nil, err
	}
	inf, err := os.Create(filepath.Join(out, "impl.tsv"))
	if err != nil {
		return nil, err
	}
	scale := 1
	if tier == "thorough" {
		scale = 20
	}
	return &Ctx{ID: id, Rng: rand.New(rand.NewSource(seed)), Seed: seed, Tier: tier, Scale: scale, Out: out,
		cases: bufio.NewWriterSize(cf, 1<<20), impl: bufio.NewWriterSize(inf, 1<<20), casesF: cf, implF: inf,
		nontriv: map[string]struct{}{}, dist: map[string]int{}, oracleN: map[string]int{}, maxFail: 50}, nil
}

// Case records one correspondence case: the model must map (fn, arg) to result.
func (c *Ctx) Case(fn string, arg wire.Val, result wire.Val) {
	c.mu.Lock()
	defer c.mu.Unlock()
	c.n++
	line := wire.L(wire.S(fn), arg).String()
	fmt.Fprintf(c.cases, "%d\t%s\n", c.n, line)
	fmt.Fprintf(c.impl, "%d\t%s\n", c.n, result.String())
	c.dist["fn:"+fn]++
	if len(c.samples) < 12 && (c.n%97 == 1) {
		c.samples = append(c.samples, line+" => "+result.String())
	}
}

// Count adds to the measured input distribution.
func (c *Ctx) Count(key string) { c.mu.Lock(); c.dist[key]++; c.mu.Unlock() }

// Nontrivial records a distinct non-trivial case (by the property's own rule).
func (c *Ctx) Nontrivial(key string) { c.mu.Lock(); c.nontriv[key] = struct{}{}; c.mu.Unlock() }

// Check records the verdict of a property oracle evaluated on the implementation.
// input is what Replay needs to re-run it.
func (c *Ctx) Check(oracle string, ok bool, shape string, input any, observed string) {
	c.mu.Lock()
	defer c.mu.Unlock()
	c.oracleN[oracle]++
	if ok {
		return
	}
	c.dist["oraclefail:"+oracle]++
	if len(c.failures) >= c.maxFail {
		return
	}
	raw, _ := json.Marshal(input)
	c.failures = append(c.failures, Failure{Property: c.ID, Kind: "oracle", Oracle: oracle, Input: raw, Observed: observed, Shape: shape, Seed: c.Seed})
}

// Sample adds a human-readable sample case for the evidence file.
func (c *Ctx) Sample(s string) {
	c.mu.Lock()
	if len(c.samples) < 24 {
		c.samples = append(c.samples, s)
	}
	c.mu.Unlock()
}

// N scales a quick-tier count by the tier.
func (c *Ctx) N(quick int) int { return quick * c.Scale }

type Stats struct {
	Property           string         `json:"property"`
	Seed               int64          `json:"seed"`
	Tier               string         `json:"tier"`
	Cases              int            `json:"cases"`
	DistinctNontrivial int            `json:"distinct_nontrivial"`
	Distribution       map[string]int `json:"distribution"`
	OracleEvaluations  map[string]int `json:"oracle_evaluations"`
	Failures           []Failure      `json:"failures"`
	Samples            []string       `json:"samples"`
}

func (c *Ctx) Close() error {
	c.cases.Flush()
	c.impl.Flush()
	c.casesF.Close()
	c.implF.Close()
	st := Stats{Property: c.ID, Seed: c.Seed, Tier: c.Tier, Cases: c.n, DistinctNontrivial: len(c.nontriv),
		Distribution: c.dist, OracleEvaluations: c.oracleN, Failures: c.failures, Samples: c.samples}
	if st.Failures == nil {
		st.Failures = []Failure{}
	}
	b, _ := json.MarshalIndent(st, "", " ")
	return os.WriteFile(filepath.Join(c.Out, "stats.json"), b, 0o644)
}

// Guard runs f and converts a panic into ok=false (implementations must not panic).
func Guard(f func()) (panicked bool, msg string) {
	defer func() {
		if r := recover(); r != nil {
			panicked = true
			msg = fmt.Sprint(r)
		}
	}()
	f()
	return
}
