// Package wire is the Go side of the value format defined in coq/Base/Wire.v.
package wire

import (
	"encoding/hex"
	"math/big"
	"strconv"
	"strings"
)

// Val is a string (S), an integer (I) or a list (L).
type Val struct {
	Kind byte // 'S', 'I', 'L'
	S    string
	I    *big.Int
	L    []Val
}

func S(s string) Val        { return Val{Kind: 'S', S: s} }
func Bytes(b []byte) Val    { return Val{Kind: 'S', S: string(b)} }
func I(n int64) Val         { return Val{Kind: 'I', I: big.NewInt(n)} }
func Int(n int) Val         { return I(int64(n)) }
func Big(n *big.Int) Val    { return Val{Kind: 'I', I: new(big.Int).Set(n)} }
func L(vs ...Val) Val       { return Val{Kind: 'L', L: vs} }
func Strs(ss []string) Val  { l := make([]Val, len(ss)); for i, s := range ss { l[i] = S(s) }; return Val{Kind: 'L', L: l} }
func Ints(ns []int64) Val   { l := make([]Val, len(ns)); for i, n := range ns { l[i] = I(n) }; return Val{Kind: 'L', L: l} }
func Bool(b bool) Val {
	if b {
		return I(1)
	}
	return I(0)
}
func Ok(v Val) Val        { return L(S("ok"), v) }
func Err(kind string) Val { return L(S("err"), S(kind)) }
func Panic() Val          { return L(S("panic")) }

func (v Val) write(b *strings.Builder) {
	switch v.Kind {
	case 'S':
		b.WriteByte('S')
		b.WriteString(hex.EncodeToString([]byte(v.S)))
	case 'I':
		b.WriteByte('I')
		b.WriteString(v.I.String())
	case 'L':
		b.WriteByte('L')
		b.WriteString(strconv.Itoa(len(v.L)))
		for _, x := range v.L {
			b.WriteByte(' ')
			x.write(b)
		}
	default:
		panic("wire: bad kind")
	}
}

// String returns the one-line encoding.
func (v Val) String() string {
	var b strings.Builder
	v.write(&b)
	return b.String()
}

// Parse decodes a line; used by replay.
func Parse(line string) (Val, bool) {
	toks := strings.Split(line, " ")
	v, rest, ok := parse(toks)
	if !ok || len(rest) != 0 {
		return Val{}, false
	}
	return v, true
}

func parse(toks []string) (Val, []string, bool) {
	if len(toks) == 0 || toks[0] == "" {
		return Val{}, nil, false
	}
	t := toks[0]
	switch t[0] {
	case 'S':
		b, err := hex.DecodeString(t[1:])
		if err != nil {
			return Val{}, nil, false
		}
		return Bytes(b), toks[1:], true
	case 'I':
		n, ok := new(big.Int).SetString(t[1:], 10)
		if !ok {
			return Val{}, nil, false
		}
		return Val{Kind: 'I', I: n}, toks[1:], true
	case 'L':
		n, err := strconv.Atoi(t[1:])
		if err != nil || n < 0 {
			return Val{}, nil, false
		}
		rest := toks[1:]
		l := make([]Val, 0, n)
		for i := 0; i < n; i++ {
			var x Val
			var ok bool
			x, rest, ok = parse(rest)
			if !ok {
				return Val{}, nil, false
			}
			l = append(l, x)
		}
		return Val{Kind: 'L', L: l}, rest, true
	}
	return Val{}, nil, false
}
