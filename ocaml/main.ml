(* Generic driver for an extracted model.  Reads lines "id<TAB>wire-line" on stdin,
   calls Model.run (extracted from Coq: wire line -> wire line over lists of Z) and
   prints "id<TAB>result".  All decoding of arguments and encoding of results is done by
   the extracted Gallina code; this file only converts between OCaml strings and the
   extracted representation of byte lists. *)
open Model

let rec pos_of_int n =
  if n = 1 then XH
  else if n land 1 = 0 then XO (pos_of_int (n lsr 1))
  else XI (pos_of_int (n lsr 1))

let z_of_int n = if n = 0 then Z0 else if n > 0 then Zpos (pos_of_int n) else Zneg (pos_of_int (-n))

let rec int_of_pos = function
  | XH -> 1
  | XO p -> 2 * int_of_pos p
  | XI p -> 2 * int_of_pos p + 1

let int_of_z = function Z0 -> 0 | Zpos p -> int_of_pos p | Zneg p -> - (int_of_pos p)

let ztab = Array.init 256 z_of_int

let zlist_of_string s =
  let r = ref [] in
  for i = String.length s - 1 downto 0 do r := ztab.(Char.code s.[i]) :: !r done;
  !r

let string_of_zlist l =
  let b = Buffer.create 64 in
  List.iter (fun z -> Buffer.add_char b (Char.chr ((int_of_z z) land 255))) l;
  Buffer.contents b

let () =
  try
    while true do
      let line = input_line stdin in
      match String.index_opt line '\t' with
      | None -> ()
      | Some i ->
        let id = String.sub line 0 i in
        let w = String.sub line (i + 1) (String.length line - i - 1) in
        let r = string_of_zlist (run (zlist_of_string w)) in
        print_string id; print_char '\t'; print_string r; print_char '\n'
    done
  with End_of_file -> ()
