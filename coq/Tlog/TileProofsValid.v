(* Tlog/TileProofsValid.v — every tile planned by make_plan is a valid tile of height h
   (coordinates within the ranges ParseTilePath / Tile.Path are a bijection on), and so is its
   full-width version.  No hypothesis on the requested positions: make_plan fails on bad ones. *)
From Verif.Base Require Import Bytes.
From Verif.Tlog Require Import Index Tree Spec6962 ProofsIndex ProofsSpec ProofsTree.
From Verif.Tlog Require Import Tile TileReader TileSpec TileProofs TileProofsMerkle TileProofsArith TileProofsPlan
     TileProofsSound TileProofsComplete.

Definition planned_shape (h : Z) (t : tile) : Prop :=
  tH t = h /\ 0 <= tL t <= 62 /\ 0 <= tN t < 2 ^ 62 /\ 1 <= tW t <= 2 ^ h.

Lemma planned_shape_valid h t : 1 <= h <= 30 -> planned_shape h t ->
  valid_tile t /\ valid_tile (mkTile (tH t) (tL t) (tN t) (2 ^ h)).
Proof.
  intros Hh [EH [HL [HN HW]]]. pose proof (pow2_pos h ltac:(lia)).
  assert (2 ^ 62 < 2 ^ 63) by (apply pow2_lt; lia).
  unfold valid_tile. cbn [tH tL tN tW]. rewrite EH. repeat split; lia.
Qed.

(* any existing tile on the parent chain of a position *)
Lemma chain_tile_shape h N x t0 s e k :
  tile_for_index h x = TOk (t0, s, e) -> 0 <= x < 2 ^ 63 -> 1 <= h -> 0 <= N <= 2 ^ 62 -> 0 <= k ->
  tile_parent t0 k N <> no_tile -> planned_shape h (tile_parent t0 k N).
Proof.
  intros Htfi Hx Hh HN Hk Hne.
  destruct (parent_chain_shape h N x t0 s e Htfi Hx ltac:(lia))
    as [l [o [Hl [Ho [Hidx [_ [HH0 [HL0 [EL Hchain]]]]]]]]].
  specialize (Hchain k Hk). cbv zeta in Hchain. destruct Hchain as [Hn0 [Hno Hyes]].
  set (Lk := tL t0 + k) in *. set (nk := o * 2 ^ l / 2 ^ ((Lk + 1) * h)) in *.
  set (mx := N / 2 ^ (Lk * h)) in *.
  pose proof (pow2_pos h ltac:(lia)) as Hph.
  destruct (Z_le_gt_dec mx (nk * 2 ^ h)) as [Hle|Hgt]; [rewrite (Hno Hle) in Hne; congruence|].
  rewrite (Hyes ltac:(lia)). unfold planned_shape. cbn [tH tL tN tW].
  assert (HLk : 0 <= Lk) by (unfold Lk; lia).
  assert (HLh : 0 <= Lk * h) by (apply Z.mul_nonneg_nonneg; lia).
  pose proof (pow2_pos (Lk * h) HLh) as HpL.
  assert (Hmx1 : 1 <= mx) by nia.
  assert (Hpow : 2 ^ (Lk * h) <= N).
  { unfold mx in Hmx1. pose proof (Z.mul_div_le N (2 ^ (Lk * h)) HpL). nia. }
  assert (HLk62 : Lk <= 62).
  { destruct (Z_le_gt_dec Lk 62) as [|Hg]; [assumption|]. exfalso.
    assert (2 ^ 63 <= 2 ^ (Lk * h)) by (apply pow2_le; nia).
    assert (2 ^ 62 < 2 ^ 63) by (apply pow2_lt; lia). lia. }
  assert (Hmx : mx <= N).
  { unfold mx. apply Z.div_le_upper_bound; [lia|]. nia. }
  split; [reflexivity|]. split; [lia|]. split; [nia|]. lia.
Qed.

(* x's own tile exists when x lies in the tree *)
Lemma own_tile_exists h N x t0 s e :
  tile_for_index h x = TOk (t0, s, e) -> 0 <= x < stored_hash_index 0 N -> 1 <= h -> 0 <= N <= 2 ^ 62 ->
  tile_parent t0 0 N <> no_tile.
Proof.
  intros Htfi Hx Hh HN.
  pose proof (shi0_bound' N x HN ltac:(lia)) as Hx63.
  destruct (tile_for_index_spec _ _ _ _ _ Htfi ltac:(lia))
    as [l [o [j [n' [Hs [Hl [Ho [Hidx [_ [HH0 [HL0 [Hj [Hlj [HN0 [Hn' [HW [_ [_ [Hco [Hle _]]]]]]]]]]]]]]]]]]]].
  assert (Hin : (o + 1) * 2 ^ l <= N) by (apply index_lt_count_inv; try lia; rewrite Hidx; unfold first_index; lia).
  assert (HLh : 0 <= tL t0 * h) by (apply Z.mul_nonneg_nonneg; lia).
  pose proof (pow2_pos j ltac:(lia)) as Hpj. pose proof (pow2_pos h ltac:(lia)) as Hph.
  pose proof (pow2_pos (tL t0 * h) HLh) as HpL.
  assert (El : 2 ^ l = 2 ^ j * 2 ^ (tL t0 * h)) by (rewrite Hlj, Z.add_comm; apply pow2_mul; lia).
  assert (Hmx : tN t0 * 2 ^ h + (n' + 1) * 2 ^ j <= N / 2 ^ (tL t0 * h)).
  { apply Z.div_le_lower_bound; [lia|].
    replace (tN t0 * 2 ^ h + (n' + 1) * 2 ^ j) with ((o + 1) * 2 ^ j) by lia.
    rewrite El in Hin. nia. }
  pose proof (tile_parent_spec t0 0 N ltac:(lia) ltac:(lia) HL0 HN0 ltac:(lia)) as Hps.
  cbv zeta in Hps. rewrite HH0 in Hps. rewrite Z.mul_0_l in Hps. change (2 ^ 0) with 1 in Hps.
  rewrite Z.div_1_r, Z.add_0_r in Hps. destruct Hps as [_ Hyes].
  rewrite (Hyes ltac:(nia)). unfold no_tile. intros E. injection E as E1 _. lia.
Qed.

Theorem make_plan_tiles_valid N h ix p t :
  1 <= h <= 30 -> 0 <= N <= 2 ^ 62 -> make_plan N h ix = TOk p -> In t (p_tiles p) ->
  planned_shape h t /\ valid_tile t /\ valid_tile (mkTile (tH t) (tL t) (tN t) (2 ^ h)).
Proof.
  intros Hh HN Ep Hin.
  assert (Hs : planned_shape h t).
  { destruct (make_plan_spec N h ix p HN Ep)
      as [bs [tiles1 [ext2 [ord1 [HB [Estx [Etiles [Enstx [Hfull1 [Hsto [Hcov [Hok2 [Hp2 Hixs]]]]]]]]]]]]].
    rewrite Etiles in Hin. apply in_app_or in Hin. destruct Hin as [Hin|Hin].
    - (* a tile of the tree hash *)
      destruct (In_nth_error _ _ Hin) as [q Hq].
      assert (Hql : (q < length tiles1)%nat) by (apply nth_error_Some; congruence).
      destruct (In_nth_error _ _ (Hcov q Hql)) as [i Hi].
      assert (Hil : (i < length (p_stx p))%nat).
      { rewrite (Forall2_length' _ _ _ Hsto). apply nth_error_Some. congruence. }
      destruct (nth_error (p_stx p) i) as [x|] eqn:Ex; [|apply nth_error_None in Ex; lia].
      destruct (Forall2_nth _ _ _ _ _ Hsto Ex) as [q' [Hq' [t' [[t0 [s [e [Htfi Et']]]] Hnth]]]].
      rewrite Hi in Hq'. injection Hq' as <-. rewrite Hq in Hnth. injection Hnth as <-.
      assert (Hxb : 0 <= x < stored_hash_index 0 N).
      { rewrite Estx in Ex. unfold sub_tree_indexes in Ex. rewrite nth_error_map in Ex.
        destruct (nth_error bs i) as [[lv lo]|] eqn:Eb; [|discriminate]. cbn [option_map fst snd] in Ex.
        injection Ex as <-. destruct (Blocks_member _ _ _ _ _ HB (nth_error_In _ _ Eb)) as [Hlv [Hlo0 [Htop [c Hc]]]].
        pose proof (pow2_pos lv Hlv) as Hplv.
        assert (Hshr : Z.shiftr lo lv = c) by (rewrite shr_div by lia; subst lo; apply Z.div_mul; lia).
        rewrite Hshr. assert (Hc0 : 0 <= c) by nia. split.
        - apply stored_hash_index_nonneg; lia.
        - apply (index_lt_count lv c N); lia. }
      pose proof (shi0_bound' N x HN ltac:(lia)) as Hx63.
      rewrite Et'. apply (chain_tile_shape h N x t0 s e 0 Htfi ltac:(lia) ltac:(lia) HN ltac:(lia)).
      apply (own_tile_exists h N x t0 s e Htfi Hxb ltac:(lia) HN).
    - (* a tile planned for a requested position *)
      rewrite Forall_forall in Hp2. destruct (Hp2 t Hin) as [x [t0 [s [e [Hx [Htfi [Hw [k Ek]]]]]]]].
      assert (Hx0 : 0 <= x).
      { destruct (Z_lt_le_dec x 0) as [Hneg|]; [rewrite tile_for_index_neg in Htfi by exact Hneg; discriminate|assumption]. }
      pose proof (shi0_bound' N x HN Hx) as Hx63.
      rewrite Ek. apply (chain_tile_shape h N x t0 s e (Z.of_nat k) Htfi ltac:(lia) ltac:(lia) HN ltac:(lia)).
      rewrite <- Ek. intros E. rewrite E in Hw. cbn in Hw. discriminate. }
  split; [exact Hs|]. apply (planned_shape_valid h t Hh Hs).
Qed.
