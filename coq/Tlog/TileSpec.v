(* Tlog/TileSpec.v — specification side of C10.  No proofs here.

   Exported (Section variable node_hash becomes the first argument)
     node_in [node_hash] R lo hi l o x : Prop
         in the RFC 6962 tree over the leaves [lo, hi) whose root hash is R, the node that
         covers the complete aligned subtree (l, o) = leaves [o*2^l, (o+1)*2^l) has hash x —
         witnessed by a Merkle path: each constructor is one step of the path (the sibling
         hash is the other argument of node_hash).  No ground-truth log, no assumption on the hash.
     NodeAt [node_hash] R N l o x := 0 <= l /\ 0 <= o /\ node_in R 0 N l o x
     run_subtree_proof [node_hash] p lo hi l o x : res hash
         runRecordProof generalised from leaves to aligned complete subtrees (p lists the
         siblings bottom-up, as tlog.RecordProof does); TileProofsMerkle.NodeAt_iff_path shows
         NodeAt R N l o x <-> exists p, run_subtree_proof p 0 N l o x = Ok R.
     entry d i           : the i-th 32-byte entry of tile data d
     tile_ok [node_hash] R N t d : every one of the tW t entries of d is NodeAt at its coordinate
                                   (level tH t * tL t, offset tN t * 2^tH t + i), d has exactly tW t entries
     valid_tile t        : the coordinates ParseTilePath can return
     mtree [node_hash] j d : the hash of the perfect tree over the 2^j entries of d (what tileHash computes) *)
From Verif.Base Require Import Bytes.
From Verif.Tlog Require Import Index Tree Spec6962 Tile.

Definition entry (d : str) (i : Z) : str := firstn 32 (skipn (Z.to_nat (32 * i)) d).

Definition valid_tile (t : tile) : Prop :=
  1 <= tH t <= 30 /\ (-1 <= tL t < 2 ^ 63) /\ 0 <= tN t < 2 ^ 63 /\ 1 <= tW t <= 2 ^ tH t.

Section Spec.
Variable node_hash : hash -> hash -> hash.

Inductive node_in : hash -> Z -> Z -> Z -> Z -> hash -> Prop :=
| ni_here R lo hi l o :
    lo = o * 2 ^ l -> hi = (o + 1) * 2 ^ l -> node_in R lo hi l o R
| ni_left R lo hi l o x a b :
    lo + 2 <= hi -> R = node_hash a b ->
    (o + 1) * 2 ^ l <= lo + split_point (hi - lo) ->
    node_in a lo (lo + split_point (hi - lo)) l o x ->
    node_in R lo hi l o x
| ni_right R lo hi l o x a b :
    lo + 2 <= hi -> R = node_hash a b ->
    lo + split_point (hi - lo) <= o * 2 ^ l ->
    node_in b (lo + split_point (hi - lo)) hi l o x ->
    node_in R lo hi l o x.

Definition NodeAt (R : hash) (N l o : Z) (x : hash) : Prop :=
  0 <= l /\ 0 <= o /\ node_in R 0 N l o x.

(* func runRecordProof, with the leaf n replaced by the aligned complete subtree (l, o);
   on the reversed proof, as Tree.run_record_proof_rev *)
Fixpoint run_subtree_proof_rev (rp : list hash) (lo hi l o : Z) (x : hash) : res hash :=
  if negb ((lo <=? o * 2 ^ l) && ((o + 1) * 2 ^ l <=? hi)) then Panic
  else if (lo =? o * 2 ^ l) && (hi =? (o + 1) * 2 ^ l) then
    match rp with
    | [] => Ok x
    | _ => Err EProofFailed
    end
  else
    match rp with
    | [] => Err EProofFailed
    | last :: rest =>
        let (k, _) := maxpow2 (hi - lo) in
        if (o + 1) * 2 ^ l <=? lo + k then
          bind (run_subtree_proof_rev rest lo (lo + k) l o x) (fun th => Ok (node_hash th last))
        else if lo + k <=? o * 2 ^ l then
          bind (run_subtree_proof_rev rest (lo + k) hi l o x) (fun th => Ok (node_hash last th))
        else Err EProofFailed                       (* the subtree straddles the split: not a node *)
    end.

Definition run_subtree_proof (p : list hash) (lo hi l o : Z) (x : hash) : res hash :=
  run_subtree_proof_rev (rev p) lo hi l o x.

Definition tile_ok (R : hash) (N : Z) (t : tile) (d : str) : Prop :=
  1 <= tH t /\ 0 <= tL t /\ 0 <= tN t /\ 1 <= tW t <= 2 ^ tH t /\ len d = tW t * 32 /\
  forall i, 0 <= i < tW t -> NodeAt R N (tH t * tL t) (tN t * 2 ^ tH t + i) (entry d i).

Fixpoint mtree (j : nat) (d : str) : hash :=
  match j with
  | O => d
  | S j' =>
      let n := (32 * 2 ^ j')%nat in
      node_hash (mtree j' (firstn n d)) (mtree j' (skipn n d))
  end.

End Spec.
