(* Tlog/Rfc9162.v — the verification algorithms of RFC 9162, transcribed from the text of
   the RFC in their iterative bit-shifting form (an independent formulation: nothing here is
   derived from tlog.go).  Model/spec file: no proofs here.

     rfc_verify_inclusion [node_hash]   : list hash -> Z -> hash -> Z -> hash -> bool
         (inclusion_path, tree_size, root_hash, leaf_index, hash)     RFC 9162 section 2.1.3.2
     rfc_verify_consistency [node_hash] : list hash -> Z -> hash -> Z -> hash -> bool
         (consistency_path, second, second_hash, first, first_hash)   RFC 9162 section 2.1.4.2
   The argument order is that of tlog.CheckRecord / tlog.CheckTree.  HASH(0x01 || a || b) is
   the Section variable node_hash a b.  Sizes and indexes are unsigned in the RFC; negative
   numbers are rejected.  Section 2.1.4.2 is stated for 0 < first < second; for
   first = second the RFC (section 2.1.4.1) defines the proof to be empty, and the wrapper
   accepts exactly the empty path with equal hashes. *)
From Verif.Base Require Import Bytes.

Section Rfc.
Variable node_hash : str -> str -> str.

Definition lsb (x : Z) : bool := Z.odd x.
Definition shr1 (x : Z) : Z := Z.div2 x.

(* "right-shift both fn and sn equally until either LSB(fn) is set or fn is 0" *)
Fixpoint shift_to_odd_pos (p : positive) (sn : Z) : Z * Z :=
  match p with
  | xO q => shift_to_odd_pos q (shr1 sn)
  | _ => (Zpos p, sn)
  end.
Definition shift_to_odd (fn sn : Z) : Z * Z :=
  match fn with
  | Zpos p => shift_to_odd_pos p sn
  | _ => (fn, sn)
  end.

(* "right-shift both fn and sn equally until LSB(fn) is not set" *)
Fixpoint shift_to_even_pos (p : positive) (sn : Z) : Z * Z :=
  match p with
  | xI q => shift_to_even_pos q (shr1 sn)
  | xH => (0, shr1 sn)
  | xO _ => (Zpos p, sn)
  end.
Definition shift_to_even (fn sn : Z) : Z * Z :=
  match fn with
  | Zpos p => shift_to_even_pos p sn
  | _ => (fn, sn)
  end.

(* 2.1.3.2 step 4, for each p in inclusion_path; None = "stop and fail" *)
Fixpoint inclusion_loop (path : list str) (fn sn : Z) (r : str) : option (Z * str) :=
  match path with
  | [] => Some (sn, r)
  | p :: rest =>
      if sn =? 0 then None                                     (* 4a *)
      else if lsb fn || (fn =? sn) then                        (* 4b *)
        let r' := node_hash p r in
        let (fn', sn') := if lsb fn then (fn, sn) else shift_to_odd fn sn in
        inclusion_loop rest (shr1 fn') (shr1 sn') r'           (* 4c *)
      else
        inclusion_loop rest (shr1 fn) (shr1 sn) (node_hash r p)
  end.

Definition rfc_verify_inclusion (path : list str) (tree_size : Z) (root_hash : str)
           (leaf_index : Z) (hash : str) : bool :=
  if (leaf_index <? 0) || (tree_size <? 0) then false
  else if tree_size <=? leaf_index then false                  (* step 1 *)
  else
    match inclusion_loop path leaf_index (tree_size - 1) hash with   (* steps 2-4 *)
    | None => false
    | Some (sn, r) => (sn =? 0) && str_eqb r root_hash         (* step 5 *)
    end.

(* 2.1.4.2 step 6, for each subsequent value c; None = "stop and fail" *)
Fixpoint consistency_loop (path : list str) (fn sn : Z) (fr sr : str) : option (Z * str * str) :=
  match path with
  | [] => Some (sn, fr, sr)
  | c :: rest =>
      if sn =? 0 then None                                     (* 6a *)
      else if lsb fn || (fn =? sn) then                        (* 6b *)
        let fr' := node_hash c fr in
        let sr' := node_hash c sr in
        let (fn', sn') := if lsb fn then (fn, sn) else shift_to_odd fn sn in
        consistency_loop rest (shr1 fn') (shr1 sn') fr' sr'    (* 6c *)
      else
        consistency_loop rest (shr1 fn) (shr1 sn) fr (node_hash sr c)
  end.

Definition is_pow2 (x : Z) : bool :=
  match x with
  | Zpos p => Z.eqb (Z.land x (x - 1)) 0
  | _ => false
  end.

Definition rfc_verify_consistency_lt (path : list str) (second : Z) (second_hash : str)
           (first : Z) (first_hash : str) : bool :=
  match path with
  | [] => false                                                (* step 1 *)
  | _ =>
      let path := if is_pow2 first then first_hash :: path else path in   (* step 2 *)
      let (fn, sn) := (first - 1, second - 1) in               (* step 3 *)
      let (fn, sn) := if lsb fn then shift_to_even fn sn else (fn, sn) in (* step 4 *)
      match path with
      | [] => false
      | c0 :: rest =>                                          (* step 5 *)
          match consistency_loop rest fn sn c0 c0 with         (* step 6 *)
          | None => false
          | Some (sn, fr, sr) =>                               (* step 7 *)
              str_eqb fr first_hash && str_eqb sr second_hash && (sn =? 0)
          end
      end
  end.

Definition rfc_verify_consistency (path : list str) (second : Z) (second_hash : str)
           (first : Z) (first_hash : str) : bool :=
  if (first <? 1) || (second <? first) then false
  else if first =? second then
    match path with
    | [] => str_eqb first_hash second_hash
    | _ => false
    end
  else rfc_verify_consistency_lt path second second_hash first first_hash.

End Rfc.
