(* Tlog/TileProofsSound.v — soundness of tile_read_hashes: on success every returned hash and
   every tile handed to SaveTiles is authenticated against the tree head (NodeAt / tile_ok). *)
From Verif.Base Require Import Bytes.
From Verif.Tlog Require Import Index Tree Spec6962 ProofsIndex ProofsSpec ProofsTree.
From Verif.Tlog Require Import Tile TileReader TileSpec TileProofs TileProofsMerkle TileProofsArith TileProofsPlan.

(* ---------------------------------------------------------------- lists *)

Lemma Forall2_rev {A B} (P : A -> B -> Prop) l l' : Forall2 P l l' -> Forall2 P (rev l) (rev l').
Proof.
  induction 1 as [|a b l l' Hab F IH]; [constructor|]. cbn [rev].
  apply Forall2_app; [exact IH|]. constructor; [exact Hab|constructor].
Qed.

Lemma Forall2_nth {A B} (P : A -> B -> Prop) l l' i a :
  Forall2 P l l' -> nth_error l i = Some a -> exists b, nth_error l' i = Some b /\ P a b.
Proof.
  intros F. revert i. induction F as [|x y l l' Hxy F IH]; intros i Hi; [destruct i; discriminate|].
  destruct i as [|i]; cbn in *.
  - injection Hi as <-. exists y. auto.
  - apply IH. exact Hi.
Qed.

Lemma Forall2_in_r {A B} (P : A -> B -> Prop) l l' b :
  Forall2 P l l' -> In b l' -> exists a i, nth_error l i = Some a /\ nth_error l' i = Some b /\ P a b.
Proof.
  induction 1 as [|x y l l' Hxy F IH]; intros Hin; [destruct Hin|].
  destruct Hin as [->|Hin].
  - exists x, O. auto.
  - destruct (IH Hin) as [a [i [H1 [H2 H3]]]]. exists a, (S i). auto.
Qed.

Lemma Forall2_length' {A B} (P : A -> B -> Prop) l l' : Forall2 P l l' -> length l = length l'.
Proof. induction 1; cbn; congruence. Qed.

Lemma nth_error_combine {A B} (l : list A) (l' : list B) i a b :
  nth_error l i = Some a -> nth_error l' i = Some b -> nth_error (combine l l') i = Some (a, b).
Proof.
  revert l' i. induction l as [|x l IH]; intros [|y l'] [|i]; cbn; try discriminate.
  - intros [= ->] [= ->]. reflexivity.
  - apply IH.
Qed.

Lemma nth_error_skipn_in {A} (l : list A) k i a :
  nth_error l i = Some a -> (k <= i)%nat -> In a (skipn k l).
Proof.
  revert k i. induction l as [|x l IH]; intros k i Hi Hk; [destruct i; discriminate|].
  destruct k as [|k]; [eapply nth_error_In; exact Hi|].
  destruct i as [|i]; [lia|]. cbn in *. apply (IH k i); [exact Hi|lia].
Qed.

Lemma nth_error_seq0 n i : (i < n)%nat -> nth_error (seq 0 n) i = Some i.
Proof.
  intros H. rewrite (nth_error_nth' _ O) by (rewrite seq_length; exact H). rewrite seq_nth by exact H. reflexivity.
Qed.

Lemma rest_in (tiles : list tile) k i t :
  nth_error tiles i = Some t -> (k <= i)%nat ->
  In (i, t) (skipn k (combine (seq 0 (length tiles)) tiles)).
Proof.
  intros Hi Hk. apply (nth_error_skipn_in _ k i); [|exact Hk].
  apply nth_error_combine; [|exact Hi]. apply nth_error_seq0. apply nth_error_Some. congruence.
Qed.

Lemma check_lengths_spec : forall tiles data,
  check_lengths tiles data = true -> length data = length tiles ->
  Forall2 (fun t d => len d = tW t * 32) tiles data.
Proof.
  induction tiles as [|t tr IH]; intros [|d dr] H Hl; try discriminate; [constructor|].
  cbn [check_lengths] in H. apply andb_true_iff in H. destruct H as [H1 H2].
  constructor; [apply Z.eqb_eq in H1; exact H1|]. apply IH; [exact H2|]. cbn in Hl. lia.
Qed.

Lemma block_block (d : str) (jb nb j' s : nat) :
  (j' <= jb)%nat -> (s < 2 ^ (jb - j'))%nat ->
  block (block d jb nb) j' s = block d j' (nb * 2 ^ (jb - j') + s).
Proof.
  intros Hj Hs. unfold block.
  assert (Hm : (32 * 2 ^ jb = 32 * 2 ^ j' * 2 ^ (jb - j'))%nat).
  { rewrite <- Nat.mul_assoc, <- Nat.pow_add_r. do 2 f_equal. lia. }
  rewrite firstn_skipn_firstn by (rewrite Hm; nia).
  rewrite skipn_skipn'. do 2 f_equal. rewrite Hm. nia.
Qed.

Lemma block_length (d : str) (j s : nat) :
  (32 * 2 ^ j * (s + 1) <= length d)%nat -> length (block d j s) = (32 * 2 ^ j)%nat.
Proof. intros H. unfold block. rewrite firstn_length, skipn_length. nia. Qed.

(* ---------------------------------------------------------------- arithmetic of tiles and blocks *)

Lemma pow2_mul a b : 0 <= a -> 0 <= b -> 2 ^ (a + b) = 2 ^ a * 2 ^ b.
Proof. intros. apply Z.pow_add_r; lia. Qed.

(* an aligned group of entries of a tile, as a complete subtree of the tree *)
Lemma group_in_tree h L tn W N j' s :
  1 <= h -> 0 <= L -> 0 <= tn -> 0 <= N -> 0 <= j' <= h -> 0 <= s ->
  (s + 1) * 2 ^ j' <= W -> W <= N / 2 ^ (L * h) - tn * 2 ^ h ->
  let lam := L * h + j' in
  let a := tn * 2 ^ (h - j') + s in
  0 <= a /\ a * 2 ^ lam = (tn * 2 ^ h + s * 2 ^ j') * 2 ^ (L * h) /\ (a + 1) * 2 ^ lam <= N.
Proof.
  intros Hh HL Htn HN Hj Hs Hw HW lam a.
  assert (0 <= L * h) by nia.
  pose proof (pow2_pos j' ltac:(lia)). pose proof (pow2_pos (h - j') ltac:(lia)).
  pose proof (pow2_pos (L * h) ltac:(lia)).
  assert (E1 : 2 ^ lam = 2 ^ (L * h) * 2 ^ j') by (unfold lam; apply pow2_mul; lia).
  assert (E2 : 2 ^ h = 2 ^ (h - j') * 2 ^ j') by (apply pow2_split; lia).
  split; [unfold a; nia|]. split.
  - unfold a. rewrite E1, E2. ring.
  - assert (Hm : (tn * 2 ^ h + (s + 1) * 2 ^ j') * 2 ^ (L * h) <= N).
    { pose proof (Z.mul_div_le N (2 ^ (L * h)) ltac:(lia)). nia. }
    unfold a. rewrite E1. rewrite E2 in Hm. nia.
Qed.


(* The block b' of the tree-hash decomposition that covers an aligned group of entries of a
   tree-hash tile lies in the same tile (the witness block w is one that lies in that tile). *)
Lemma same_tile_arith h L tn j' s a lam
      lvw low ow jw nw
      lv' lo' o' L' tn' jb nb :
  1 <= h -> 0 <= L -> 0 <= tn ->
  (* the group *)
  0 <= j' <= h -> 0 <= s -> (s + 1) * 2 ^ j' <= 2 ^ h ->
  lam = L * h + j' -> a * 2 ^ lam = (tn * 2 ^ h + s * 2 ^ j') * 2 ^ (L * h) ->
  (* the witness block, in tile (L, tn) *)
  lvw = L * h + jw -> 0 <= jw < h -> 0 <= nw -> low = ow * 2 ^ lvw ->
  tn * 2 ^ h + nw * 2 ^ jw = ow * 2 ^ jw -> (nw + 1) * 2 ^ jw <= 2 ^ h ->
  (* the covering block, in tile (L', tn') *)
  lv' = L' * h + jb -> 0 <= jb < h -> 0 <= L' -> 0 <= nb -> lo' = o' * 2 ^ lv' ->
  tn' * 2 ^ h + nb * 2 ^ jb = o' * 2 ^ jb -> (nb + 1) * 2 ^ jb <= 2 ^ h -> 0 <= tn' ->
  lam <= lv' -> lo' <= a * 2 ^ lam -> (a + 1) * 2 ^ lam <= lo' + 2 ^ lv' ->
  ((lvw, low) = (lv', lo') \/ low + 2 ^ lvw <= lo' \/ lo' + 2 ^ lv' <= low) ->
  L' = L /\ tn' = tn /\ j' <= jb /\ nb * 2 ^ (jb - j') <= s /\ s + 1 <= (nb + 1) * 2 ^ (jb - j').
Proof.
  intros Hh HL Htn Hj Hs Hsw Elam Ea Elvw Hjw Hnw Elow Ecw Hww Elv' Hjb HL' Hnb Elo' Ec' Hwb Htn' Hll Hlo Hhi Hdis.
  assert (HLh : 0 <= L * h) by nia.
  pose proof (pow2_pos h ltac:(lia)) as Hph.
  pose proof (pow2_pos j' ltac:(lia)) as Hpj'.
  pose proof (pow2_pos jw ltac:(lia)) as Hpjw.
  pose proof (pow2_pos jb ltac:(lia)) as Hpjb.
  pose proof (pow2_pos (L * h) HLh) as HpL.
  assert (HLge : L <= L') by nia.
  (* the tile-level block G = [tn*2^g, (tn+1)*2^g) with g = (L+1)*h *)
  set (g := L * h + h).
  assert (Eg : 2 ^ g = 2 ^ h * 2 ^ (L * h)) by (unfold g; rewrite Z.add_comm; apply pow2_mul; lia).
  assert (Elvw2 : 2 ^ lvw = 2 ^ jw * 2 ^ (L * h)) by (subst lvw; rewrite Z.add_comm; apply pow2_mul; lia).
  assert (Elam2 : 2 ^ lam = 2 ^ j' * 2 ^ (L * h)) by (subst lam; rewrite Z.add_comm; apply pow2_mul; lia).
  assert (Hlow : low = (tn * 2 ^ h + nw * 2 ^ jw) * 2 ^ (L * h)) by (rewrite Elow, Elvw2, Ecw; ring).
  assert (HL'eq : L' = L).
  { destruct (Z_le_gt_dec L' L) as [|Hgt]; [lia|]. exfalso.
    assert (Hg : g <= lv') by (unfold g; nia).
    assert (Hg0 : 0 <= g) by (unfold g; lia).
    pose proof (pow2_pos g Hg0) as Hpg.
    assert (Hdiv : (2 ^ g | tn * 2 ^ g)) by (exists tn; reflexivity).
    assert (D1 : low / 2 ^ lv' = (tn * 2 ^ g) / 2 ^ lv').
    { apply (div_same_block (tn * 2 ^ g) low g lv'); [lia|exact Hdiv|]. rewrite Hlow, Eg. nia. }
    assert (D2 : (a * 2 ^ lam) / 2 ^ lv' = (tn * 2 ^ g) / 2 ^ lv').
    { apply (div_same_block (tn * 2 ^ g) (a * 2 ^ lam) g lv'); [lia|exact Hdiv|]. rewrite Ea, Eg. nia. }
    assert (Hlv'0 : 0 <= lv') by lia.
    pose proof (pow2_pos lv' Hlv'0) as Hplv'.
    assert (D3 : (a * 2 ^ lam) / 2 ^ lv' = lo' / 2 ^ lv').
    { apply (div_same_block lo' (a * 2 ^ lam) lv' lv'); [lia|exists o'; exact Elo'|].
      pose proof (pow2_pos lam ltac:(lia)). nia. }
    assert (D4 : lo' / 2 ^ lv' = o') by (rewrite Elo'; apply Z.div_mul; lia).
    assert (D5 : low / 2 ^ lv' = o') by congruence.
    pose proof (Z.mul_div_le low (2 ^ lv') Hplv').
    pose proof (Z.mul_succ_div_gt low (2 ^ lv') Hplv').
    rewrite D5 in *.
    pose proof (pow2_pos lvw ltac:(lia)).
    destruct Hdis as [E|[E|E]].
    - injection E as E1 E2. lia.
    - nia.
    - nia. }
  subst L'.
  assert (Elv'2 : 2 ^ lv' = 2 ^ jb * 2 ^ (L * h)) by (subst lv'; rewrite Z.add_comm; apply pow2_mul; lia).
  assert (Hjj : j' <= jb) by lia.
  assert (Ejb : 2 ^ jb = 2 ^ (jb - j') * 2 ^ j') by (apply pow2_split; lia).
  pose proof (pow2_pos (jb - j') ltac:(lia)) as Hpd.
  (* in entries of level L*h *)
  assert (Hlo2 : o' * 2 ^ jb <= tn * 2 ^ h + s * 2 ^ j').
  { rewrite Ea, Elo', Elv'2 in Hlo. nia. }
  assert (Hhi2 : tn * 2 ^ h + s * 2 ^ j' + 2 ^ j' <= o' * 2 ^ jb + 2 ^ jb).
  { replace ((a + 1) * 2 ^ lam) with (a * 2 ^ lam + 2 ^ lam) in Hhi by ring.
    rewrite Ea, Elo', Elv'2, Elam2 in Hhi. nia. }
  assert (Htn'eq : tn' = tn).
  { assert (D : (tn * 2 ^ h + s * 2 ^ j') / 2 ^ h = (o' * 2 ^ jb) / 2 ^ h).
    { apply (div_same_block (o' * 2 ^ jb) _ jb h); [lia|exists o'; reflexivity|lia]. }
    rewrite <- Ec' in D.
    rewrite !Z.div_add_l in D by lia.
    rewrite (Z.div_small (s * 2 ^ j')) in D by nia.
    rewrite (Z.div_small (nb * 2 ^ jb)) in D by nia. lia. }
  subst tn'.
  split; [reflexivity|]. split; [reflexivity|]. split; [exact Hjj|].
  rewrite <- Ec' in Hlo2, Hhi2. rewrite Ejb in Hlo2, Hhi2.
  split; nia.
Qed.

End_of_part_two_marker.
