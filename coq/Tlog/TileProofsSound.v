(* Tlog/TileProofsSound.v — soundness of tile_read_hashes: on success every returned hash and
   every tile handed to SaveTiles is authenticated against the tree head (NodeAt / tile_ok). *)
From Verif.Base Require Import Bytes.
From Verif.Tlog Require Import Index Tree Spec6962 ProofsIndex ProofsSpec ProofsTree.
From Verif.Tlog Require Import Tile TileReader TileSpec TileProofs TileProofsMerkle TileProofsArith TileProofsPlan.

(* ---------------------------------------------------------------- lists *)

Lemma Forall2_rev {A B} (P : A -> B -> Prop) l l' : Forall2 P l l' -> Forall2 P (rev l) (rev l').
Proof.
  induction 1 as [|a b l l' Hab F IH]; [constructor|]. cbn [rev].
  apply Forall2_app; [exact IH|]. constructor; [exact Hab|constructor].
Qed.

Lemma Forall2_nth {A B} (P : A -> B -> Prop) l l' i a :
  Forall2 P l l' -> nth_error l i = Some a -> exists b, nth_error l' i = Some b /\ P a b.
Proof.
  intros F. revert i. induction F as [|x y l l' Hxy F IH]; intros i Hi; [destruct i; discriminate|].
  destruct i as [|i]; cbn in *.
  - injection Hi as <-. exists y. auto.
  - apply IH. exact Hi.
Qed.

Lemma Forall2_in_r {A B} (P : A -> B -> Prop) l l' b :
  Forall2 P l l' -> In b l' -> exists a i, nth_error l i = Some a /\ nth_error l' i = Some b /\ P a b.
Proof.
  induction 1 as [|x y l l' Hxy F IH]; intros Hin; [destruct Hin|].
  destruct Hin as [->|Hin].
  - exists x, O. auto.
  - destruct (IH Hin) as [a [i [H1 [H2 H3]]]]. exists a, (S i). auto.
Qed.

Lemma Forall2_length' {A B} (P : A -> B -> Prop) l l' : Forall2 P l l' -> length l = length l'.
Proof. induction 1; cbn; congruence. Qed.

Lemma nth_error_combine {A B} (l : list A) (l' : list B) i a b :
  nth_error l i = Some a -> nth_error l' i = Some b -> nth_error (combine l l') i = Some (a, b).
Proof.
  revert l' i. induction l as [|x l IH]; intros [|y l'] [|i]; cbn; try discriminate.
  - intros [= ->] [= ->]. reflexivity.
  - apply IH.
Qed.

Lemma nth_error_skipn_in {A} (l : list A) k i a :
  nth_error l i = Some a -> (k <= i)%nat -> In a (skipn k l).
Proof.
  revert k i. induction l as [|x l IH]; intros k i Hi Hk; [destruct i; discriminate|].
  destruct k as [|k]; [eapply nth_error_In; exact Hi|].
  destruct i as [|i]; [lia|]. cbn in *. apply (IH k i); [exact Hi|lia].
Qed.

Lemma nth_error_seq0 n i : (i < n)%nat -> nth_error (seq 0 n) i = Some i.
Proof.
  intros H. rewrite (nth_error_nth' _ O) by (rewrite seq_length; exact H). rewrite seq_nth by exact H. reflexivity.
Qed.

Lemma rest_in (tiles : list tile) k i t :
  nth_error tiles i = Some t -> (k <= i)%nat ->
  In (i, t) (skipn k (combine (seq 0 (length tiles)) tiles)).
Proof.
  intros Hi Hk. apply (nth_error_skipn_in _ k i); [|exact Hk].
  apply nth_error_combine; [|exact Hi]. apply nth_error_seq0. apply nth_error_Some. congruence.
Qed.

Lemma check_lengths_spec : forall tiles data,
  check_lengths tiles data = true -> length data = length tiles ->
  Forall2 (fun t d => len d = tW t * 32) tiles data.
Proof.
  induction tiles as [|t tr IH]; intros [|d dr] H Hl; try discriminate; [constructor|].
  cbn [check_lengths] in H. apply andb_true_iff in H. destruct H as [H1 H2].
  constructor; [apply Z.eqb_eq in H1; exact H1|]. apply IH; [exact H2|]. cbn in Hl. lia.
Qed.

Lemma block_block (d : str) (jb nb j' s : nat) :
  (j' <= jb)%nat -> (s < 2 ^ (jb - j'))%nat ->
  block (block d jb nb) j' s = block d j' (nb * 2 ^ (jb - j') + s).
Proof.
  intros Hj Hs. unfold block.
  assert (Hm : (32 * 2 ^ jb = 32 * 2 ^ j' * 2 ^ (jb - j'))%nat).
  { rewrite <- Nat.mul_assoc, <- Nat.pow_add_r. do 2 f_equal. lia. }
  rewrite firstn_skipn_firstn by (rewrite Hm; nia).
  rewrite skipn_skipn'. do 2 f_equal. rewrite Hm. nia.
Qed.

Lemma block_length (d : str) (j s : nat) :
  (32 * 2 ^ j * (s + 1) <= length d)%nat -> length (block d j s) = (32 * 2 ^ j)%nat.
Proof. intros H. unfold block. rewrite firstn_length, skipn_length. nia. Qed.

(* ---------------------------------------------------------------- arithmetic of tiles and blocks *)

Lemma pow2_mul a b : 0 <= a -> 0 <= b -> 2 ^ (a + b) = 2 ^ a * 2 ^ b.
Proof. intros. apply Z.pow_add_r; lia. Qed.

(* an aligned group of entries of a tile, as a complete subtree of the tree *)
Lemma group_in_tree h L tn W N j' s :
  1 <= h -> 0 <= L -> 0 <= tn -> 0 <= N -> 0 <= j' <= h -> 0 <= s ->
  (s + 1) * 2 ^ j' <= W -> W <= N / 2 ^ (L * h) - tn * 2 ^ h ->
  let lam := L * h + j' in
  let a := tn * 2 ^ (h - j') + s in
  0 <= a /\ a * 2 ^ lam = (tn * 2 ^ h + s * 2 ^ j') * 2 ^ (L * h) /\ (a + 1) * 2 ^ lam <= N.
Proof.
  intros Hh HL Htn HN Hj Hs Hw HW lam a.
  assert (0 <= L * h) by nia.
  pose proof (pow2_pos j' ltac:(lia)). pose proof (pow2_pos (h - j') ltac:(lia)).
  pose proof (pow2_pos (L * h) ltac:(lia)).
  assert (E1 : 2 ^ lam = 2 ^ (L * h) * 2 ^ j') by (unfold lam; apply pow2_mul; lia).
  assert (E2 : 2 ^ h = 2 ^ (h - j') * 2 ^ j') by (apply pow2_split; lia).
  split; [unfold a; nia|]. split.
  - unfold a. rewrite E1, E2. ring.
  - assert (Hm : (tn * 2 ^ h + (s + 1) * 2 ^ j') * 2 ^ (L * h) <= N).
    { pose proof (Z.mul_div_le N (2 ^ (L * h)) ltac:(lia)). nia. }
    unfold a. rewrite E1. rewrite E2 in Hm. nia.
Qed.


(* The block b' of the tree-hash decomposition that covers an aligned group of entries of a
   tree-hash tile lies in the same tile (the witness block w is one that lies in that tile). *)
Lemma same_tile_arith h L tn j' s a lam
      lvw low ow jw nw
      lv' lo' o' L' tn' jb nb :
  1 <= h -> 0 <= L -> 0 <= tn ->
  (* the group *)
  0 <= j' <= h -> 0 <= s -> (s + 1) * 2 ^ j' <= 2 ^ h ->
  lam = L * h + j' -> a * 2 ^ lam = (tn * 2 ^ h + s * 2 ^ j') * 2 ^ (L * h) ->
  (* the witness block, in tile (L, tn) *)
  lvw = L * h + jw -> 0 <= jw < h -> 0 <= nw -> low = ow * 2 ^ lvw ->
  tn * 2 ^ h + nw * 2 ^ jw = ow * 2 ^ jw -> (nw + 1) * 2 ^ jw <= 2 ^ h ->
  (* the covering block, in tile (L', tn') *)
  lv' = L' * h + jb -> 0 <= jb < h -> 0 <= L' -> 0 <= nb -> lo' = o' * 2 ^ lv' ->
  tn' * 2 ^ h + nb * 2 ^ jb = o' * 2 ^ jb -> (nb + 1) * 2 ^ jb <= 2 ^ h -> 0 <= tn' ->
  lam <= lv' -> lo' <= a * 2 ^ lam -> (a + 1) * 2 ^ lam <= lo' + 2 ^ lv' ->
  ((lvw, low) = (lv', lo') \/ low + 2 ^ lvw <= lo' \/ lo' + 2 ^ lv' <= low) ->
  L' = L /\ tn' = tn /\ j' <= jb /\ nb * 2 ^ (jb - j') <= s /\ s + 1 <= (nb + 1) * 2 ^ (jb - j').
Proof.
  intros Hh HL Htn Hj Hs Hsw Elam Ea Elvw Hjw Hnw Elow Ecw Hww Elv' Hjb HL' Hnb Elo' Ec' Hwb Htn' Hll Hlo Hhi Hdis.
  assert (HLh : 0 <= L * h) by nia.
  pose proof (pow2_pos h ltac:(lia)) as Hph.
  pose proof (pow2_pos j' ltac:(lia)) as Hpj'.
  pose proof (pow2_pos jw ltac:(lia)) as Hpjw.
  pose proof (pow2_pos jb ltac:(lia)) as Hpjb.
  pose proof (pow2_pos (L * h) HLh) as HpL.
  assert (HLge : L <= L') by nia.
  (* the tile-level block G = [tn*2^g, (tn+1)*2^g) with g = (L+1)*h *)
  set (g := L * h + h).
  assert (Eg : 2 ^ g = 2 ^ h * 2 ^ (L * h)) by (unfold g; rewrite Z.add_comm; apply pow2_mul; lia).
  assert (Elvw2 : 2 ^ lvw = 2 ^ jw * 2 ^ (L * h)) by (subst lvw; rewrite Z.add_comm; apply pow2_mul; lia).
  assert (Elam2 : 2 ^ lam = 2 ^ j' * 2 ^ (L * h)) by (subst lam; rewrite Z.add_comm; apply pow2_mul; lia).
  assert (Hlow : low = (tn * 2 ^ h + nw * 2 ^ jw) * 2 ^ (L * h)) by (rewrite Elow, Elvw2, Ecw; ring).
  assert (HL'eq : L' = L).
  { destruct (Z_le_gt_dec L' L) as [|Hgt]; [lia|]. exfalso.
    assert (Hg : g <= lv') by (unfold g; nia).
    assert (Hg0 : 0 <= g) by (unfold g; lia).
    pose proof (pow2_pos g Hg0) as Hpg.
    assert (Hdiv : (2 ^ g | tn * 2 ^ g)) by (exists tn; reflexivity).
    assert (D1 : low / 2 ^ lv' = (tn * 2 ^ g) / 2 ^ lv').
    { apply (div_same_block (tn * 2 ^ g) low g lv'); [lia|exact Hdiv|]. rewrite Hlow, Eg. nia. }
    assert (D2 : (a * 2 ^ lam) / 2 ^ lv' = (tn * 2 ^ g) / 2 ^ lv').
    { apply (div_same_block (tn * 2 ^ g) (a * 2 ^ lam) g lv'); [lia|exact Hdiv|]. rewrite Ea, Eg. nia. }
    assert (Hlv'0 : 0 <= lv') by lia.
    pose proof (pow2_pos lv' Hlv'0) as Hplv'.
    assert (D3 : (a * 2 ^ lam) / 2 ^ lv' = lo' / 2 ^ lv').
    { apply (div_same_block lo' (a * 2 ^ lam) lv' lv'); [lia|exists o'; exact Elo'|].
      pose proof (pow2_pos lam ltac:(lia)). nia. }
    assert (D4 : lo' / 2 ^ lv' = o') by (rewrite Elo'; apply Z.div_mul; lia).
    assert (D5 : low / 2 ^ lv' = o') by congruence.
    pose proof (Z.mul_div_le low (2 ^ lv') Hplv').
    pose proof (Z.mul_succ_div_gt low (2 ^ lv') Hplv').
    rewrite D5 in *.
    pose proof (pow2_pos lvw ltac:(lia)).
    destruct Hdis as [E|[E|E]].
    - injection E as E1 E2. lia.
    - nia.
    - nia. }
  subst L'.
  assert (Elv'2 : 2 ^ lv' = 2 ^ jb * 2 ^ (L * h)) by (subst lv'; rewrite Z.add_comm; apply pow2_mul; lia).
  assert (Hjj : j' <= jb) by lia.
  assert (Ejb : 2 ^ jb = 2 ^ (jb - j') * 2 ^ j') by (apply pow2_split; lia).
  pose proof (pow2_pos (jb - j') ltac:(lia)) as Hpd.
  (* in entries of level L*h *)
  assert (Hlo2 : o' * 2 ^ jb <= tn * 2 ^ h + s * 2 ^ j').
  { rewrite Ea, Elo', Elv'2 in Hlo. nia. }
  assert (Hhi2 : tn * 2 ^ h + s * 2 ^ j' + 2 ^ j' <= o' * 2 ^ jb + 2 ^ jb).
  { replace ((a + 1) * 2 ^ lam) with (a * 2 ^ lam + 2 ^ lam) in Hhi by ring.
    rewrite Ea, Elo', Elv'2, Elam2 in Hhi. nia. }
  assert (Htn'eq : tn' = tn).
  { assert (D : (tn * 2 ^ h + s * 2 ^ j') / 2 ^ h = (o' * 2 ^ jb) / 2 ^ h).
    { apply (div_same_block (o' * 2 ^ jb) _ jb h); [lia|exists o'; reflexivity|lia]. }
    rewrite <- Ec' in D.
    rewrite !Z.div_add_l in D by lia.
    rewrite (Z.div_small (s * 2 ^ j')) in D by nia.
    rewrite (Z.div_small (nb * 2 ^ jb)) in D by nia. lia. }
  subst tn'.
  split; [reflexivity|]. split; [reflexivity|]. split; [exact Hjj|].
  rewrite <- Ec' in Hlo2, Hhi2. rewrite Ejb in Hlo2, Hhi2.
  split; nia.
Qed.


Section Sound.
Variable node_hash : hash -> hash -> hash.
Notation NodeAt := (NodeAt node_hash).
Notation mtree := (mtree node_hash).
Notation hash_from_tile := (hash_from_tile node_hash).
Notation hash_at := (hash_at node_hash).

(* the invariant of an authenticated (tile, data) pair: every aligned group of entries
   hashes to an authenticated node — in particular (j = 0) every entry *)
Definition tile_auth (R : hash) (N : Z) (t : tile) (d : str) : Prop :=
  1 <= tH t /\ 0 <= tL t /\ 0 <= tN t /\ 1 <= tW t <= 2 ^ tH t /\ len d = tW t * 32 /\
  forall (j s : nat), Z.of_nat j <= tH t -> (Z.of_nat s + 1) * 2 ^ Z.of_nat j <= tW t ->
    NodeAt R N (tL t * tH t + Z.of_nat j) (tN t * 2 ^ (tH t - Z.of_nat j) + Z.of_nat s) (mtree j (block d j s)).

Lemma tile_auth_ok R N t d : tile_auth R N t d -> tile_ok node_hash R N t d.
Proof.
  intros [H1 [H2 [H3 [H4 [H5 H6]]]]]. unfold tile_ok. do 5 (split; [first [assumption|lia]|]).
  intros i Hi. specialize (H6 O (Z.to_nat i) ltac:(lia)).
  rewrite Z2Nat.id in H6 by lia. change (2 ^ Z.of_nat 0) with 1 in H6. specialize (H6 ltac:(lia)).
  replace (tL t * tH t + Z.of_nat 0) with (tH t * tL t) in H6 by lia.
  replace (tH t - Z.of_nat 0) with (tH t) in H6 by lia.
  replace (entry d i) with (mtree 0 (block d 0 (Z.to_nat i))); [exact H6|].
  cbn [TileSpec.mtree]. unfold block, entry. change (32 * 2 ^ 0)%nat with 32%nat. do 2 f_equal. lia.
Qed.

Lemma hash_from_tile_auth R N t d x hh :
  tile_auth R N t d -> hash_from_tile t d x = TOk hh -> x < 2 ^ 63 ->
  exists l o, split_stored_hash_index x = Ok (l, o) /\ NodeAt R N l o hh.
Proof.
  intros [H1 [H2 [H3 [H4 [H5 H6]]]]] Hh Hx.
  destruct (hash_from_tile_spec _ _ _ _ _ Hh Hx)
    as [l [o [j [n' [Hs [Hl [Ho [Hidx [HH [HL [HW [Hlen [HN [Hj [Hlj [Hn' [Hco Ehh]]]]]]]]]]]]]]]]].
  exists l, o. split; [exact Hs|].
  specialize (H6 j n' ltac:(lia) Hn').
  pose proof (pow2_pos (Z.of_nat j) ltac:(lia)). pose proof (pow2_pos (tH t - Z.of_nat j) ltac:(lia)).
  assert (E : 2 ^ tH t = 2 ^ (tH t - Z.of_nat j) * 2 ^ Z.of_nat j) by (apply pow2_split; lia).
  assert (Eo : o = tN t * 2 ^ (tH t - Z.of_nat j) + Z.of_nat n') by (rewrite E in Hco; nia).
  subst hh. rewrite Hlj, Eo. exact H6.
Qed.

(* ---------------------------------------------------------------- phase 1: the tree-hash tiles *)

Section Phase1.
Variables (h N : Z) (R : hash).
Variables (bs : list (Z * Z)) (tiles1 ext2 : list tile) (data : list str) (sto : list nat) (hs : list hash).
Variable ord1 : order.
Let tiles := tiles1 ++ ext2.
Let stx := sub_tree_indexes bs.
Hypothesis HN : 0 <= N <= 2 ^ 62.
Hypothesis HB : Blocks 0 N bs.
Hypothesis Hfull : ord_full ord1 tiles1.
Hypothesis Hsto : Forall2 (fun x j => exists t, stx_tile h N x t /\ nth_error tiles1 j = Some t) stx sto.
Hypothesis Hcov : forall q, (q < length tiles1)%nat -> In q sto.
Hypothesis Hlen : Forall2 (fun t d => len d = tW t * 32) tiles data.
Hypothesis Hhs : Forall2 (fun jx hh => hash_at tiles data (fst jx) (snd jx) = TOk hh) (combine sto stx) hs.
Hypothesis Hfold : fold_hashes node_hash hs = Some R.

Definition block_fact (b : Z * Z) (q : nat) (hh : hash) : Prop :=
  exists T d o (jb nb : nat),
    nth_error tiles1 q = Some T /\ nth_error data q = Some d /\
    0 <= fst b /\ 0 <= o /\ snd b = o * 2 ^ fst b /\
    1 <= h /\ 0 <= tL T /\ 0 <= tN T /\
    T = mkTile h (tL T) (tN T) (Z.min (2 ^ h) (N / 2 ^ (tL T * h) - tN T * 2 ^ h)) /\
    fst b = tL T * h + Z.of_nat jb /\ Z.of_nat jb < h /\
    (Z.of_nat nb + 1) * 2 ^ Z.of_nat jb <= tW T /\ 1 <= tW T /\
    tN T * 2 ^ h + Z.of_nat nb * 2 ^ Z.of_nat jb = o * 2 ^ Z.of_nat jb /\
    hh = mtree jb (block d jb nb) /\ NodeAt R N (fst b) o hh /\ len d = tW T * 32.

Lemma lo_lt_hi : 0 < N.
Proof.
  destruct (Z.eq_dec N 0) as [E|]; [|lia]. exfalso.
  rewrite E in HB. inversion HB; subst.
  - destruct sto; [|inversion Hsto]. cbn in Hhs. inversion Hhs; subst. discriminate.
  - pose proof (pow2_pos level ltac:(assumption)). lia.
Qed.

Lemma block_facts i b :
  nth_error bs i = Some b ->
  exists q hh, nth_error sto i = Some q /\ block_fact b q hh.
Proof.
  intros Hb. destruct b as [lv lo].
  assert (Hin : In (lv, lo) bs) by (eapply nth_error_In; exact Hb).
  destruct (Blocks_member _ _ _ _ _ HB Hin) as [Hlv [Hlo0 [Hlohi [c Hc]]]].
  pose proof (pow2_pos lv Hlv) as Hplv.
  assert (Hc0 : 0 <= c) by nia.
  assert (Hshr : Z.shiftr lo lv = c) by (rewrite shr_div by lia; subst lo; apply Z.div_mul; lia).
  remember (stored_hash_index lv c) as x eqn:Ex.
  assert (Hx : nth_error stx i = Some x).
  { unfold stx, sub_tree_indexes. rewrite nth_error_map, Hb. cbn [option_map fst snd]. rewrite Hshr, Ex. reflexivity. }
  destruct (no_overflow_index lv c Hlv Hc0 ltac:(nia)) as [[Hx0 Hx63] _]. rewrite <- Ex in Hx0, Hx63.
  destruct (Forall2_nth _ _ _ _ _ Hsto Hx) as [q [Hq [T [[t0 [s0 [e0 [Htfi ET]]]] HT]]]].
  destruct (Forall2_nth _ _ _ _ _ Hhs (nth_error_combine _ _ _ _ _ Hq Hx)) as [hh [Hhh Hat]].
  cbn [fst snd] in Hat.
  exists q, hh. split; [exact Hq|].
  unfold TileReader.hash_at in Hat.
  assert (HTt : nth_error tiles q = Some T).
  { unfold tiles. rewrite nth_error_app1; [exact HT|]. apply nth_error_Some. congruence. }
  rewrite HTt in Hat.
  destruct (nth_error data q) as [d|] eqn:Hd; [|discriminate].
  destruct (Forall2_nth _ _ _ _ _ Hlen HTt) as [d' [Hd' Hld]]. rewrite Hd in Hd'. injection Hd' as <-.
  destruct (hash_from_tile_spec _ _ _ _ _ Hat Hx63)
    as [l [o [jb [nb [Hs [Hl [Ho [Hidx [HH [HL [HW [Hlend [HNn [Hj [Hlj [Hn' [Hco Ehh]]]]]]]]]]]]]]]]].
  rewrite Ex in Hs, Hx63. rewrite (split_index lv c Hlv Hc0 Hx63) in Hs. injection Hs as <- <-.
  (* the shape of T *)
  destruct (tile_for_index_spec _ _ _ _ _ Htfi ltac:(lia))
    as [l2 [o2 [j2 [n2 [_ [_ [_ [_ [Hh1 [HH0 [HL0 [_ [_ [HN0 _]]]]]]]]]]]]]].
  pose proof (tile_parent_spec t0 0 N ltac:(lia) ltac:(lia) HL0 HN0 ltac:(lia)) as Hps.
  cbv zeta in Hps. rewrite HH0 in Hps. rewrite Z.mul_0_l in Hps. change (2 ^ 0) with 1 in Hps.
  rewrite Z.div_1_r, Z.add_0_r in Hps. destruct Hps as [Hno Hyes].
  assert (HTeq : T = mkTile h (tL t0) (tN t0) (Z.min (2 ^ h) (N / 2 ^ (tL t0 * h) - tN t0 * 2 ^ h))).
  { destruct (Z_le_gt_dec (N / 2 ^ (tL t0 * h)) (tN t0 * 2 ^ h)) as [Hle|Hgt].
    - rewrite <- ET in Hno. rewrite (Hno Hle) in HH. cbn in HH. lia.
    - rewrite <- ET in Hyes. apply Hyes. lia. }
  assert (EL : tL T = tL t0) by (rewrite HTeq; reflexivity).
  assert (EN : tN T = tN t0) by (rewrite HTeq; reflexivity).
  assert (EH : tH T = h) by (rewrite HTeq; reflexivity).
  rewrite EH in *.
  exists T, d, c, jb, nb. cbn [fst snd].
  assert (Hnode : NodeAt R N lv c hh).
  { pose proof (Blocks_fold_node_in node_hash 0 N bs HB hs R lo_lt_hi) as HF.
    assert (Hlenhs : length hs = length bs).
    { rewrite <- (Forall2_length' _ _ _ Hhs), combine_length, <- (Forall2_length' _ _ _ Hsto).
      unfold stx, sub_tree_indexes. rewrite map_length. lia. }
    specialize (HF Hlenhs Hfold).
    destruct (Forall2_nth _ _ _ _ _ HF Hb) as [hh' [Hhh' Hn]]. rewrite Hhh in Hhh'. injection Hhh' as <-.
    cbn [fst snd] in Hn. subst lo. rewrite Z.div_mul in Hn by lia.
    split; [lia|]. split; [lia|exact Hn]. }
  repeat (split; [first [assumption | lia] |]).
  split; [rewrite EL, EN; exact HTeq|].
  repeat (split; [first [assumption | lia] |]). exact Hld.
Qed.

Lemma stx_tiles_auth q T d :
  (q < length tiles1)%nat -> nth_error tiles1 q = Some T -> nth_error data q = Some d ->
  tile_auth R N T d.
Proof.
  intros Hq HT Hd.
  (* the witness block *)
  destruct (In_nth_error _ _ (Hcov q Hq)) as [iw Hiw].
  assert (Hlens : length sto = length bs).
  { rewrite <- (Forall2_length' _ _ _ Hsto). unfold stx, sub_tree_indexes. apply map_length. }
  assert (Hiwlt : (iw < length bs)%nat) by (rewrite <- Hlens; apply nth_error_Some; congruence).
  destruct (nth_error bs iw) as [[lvw low]|] eqn:Hbw; [|apply nth_error_None in Hbw; lia].
  destruct (block_facts iw _ Hbw) as [qw [hw [Hqw Hfw]]]. rewrite Hiw in Hqw. injection Hqw as <-.
  destruct Hfw as [Tw [dw [ow [jw [nw [HTw [Hdw [Hlvw [How [Elow [Hh [HLw [HNw [ETw [Elvw [Hjw [Hnw [HWw1 [Ecw [Ehw [Hnodew Hlenw]]]]]]]]]]]]]]]]]]]]].
  cbn [fst snd] in *.
  rewrite HT in HTw. injection HTw as <-. rewrite Hd in Hdw. injection Hdw as <-.
  set (L := tL T) in *. set (tn := tN T) in *.
  assert (EH : tH T = h) by (rewrite ETw; reflexivity).
  assert (EW : tW T = Z.min (2 ^ h) (N / 2 ^ (L * h) - tn * 2 ^ h)) by (rewrite ETw; reflexivity).
  pose proof (pow2_pos h ltac:(lia)) as Hph.
  unfold tile_auth. rewrite EH. fold L. fold tn.
  do 5 (split; [first [assumption | lia] |]).
  intros j' s Hj' Hs.
  set (zj := Z.of_nat j') in *. set (zs := Z.of_nat s) in *.
  destruct (group_in_tree h L tn (tW T) N zj zs ltac:(lia) HLw HNw ltac:(lia) ltac:(lia) ltac:(lia) Hs ltac:(lia))
    as [Ha0 [Ea Hatree]].
  set (lam := L * h + zj) in *. set (a := tn * 2 ^ (h - zj) + zs) in *.
  assert (Hlam0 : 0 <= lam) by (unfold lam; nia).
  pose proof (pow2_pos lam Hlam0) as Hplam.
  destruct (Blocks_cover 0 N bs lam a HB Hlam0 ltac:(nia) Hatree) as [lv' [lo' [Hin' [Hll [Hlo' Hhi']]]]].
  destruct (In_nth_error _ _ Hin') as [i' Hi'].
  destruct (block_facts i' _ Hi') as [q' [h' [Hq' Hf']]].
  destruct Hf' as [T' [d' [o' [jb [nb [HT' [Hd' [Hlv' [Ho' [Elo' [_ [HL' [HN' [ET' [Elv' [Hjb [Hnb [HW'1 [Ec' [Eh' [Hnode' Hlen']]]]]]]]]]]]]]]]]]]]].
  cbn [fst snd] in *.
  assert (HinW : In (lvw, low) bs) by (eapply nth_error_In; exact Hbw).
  pose proof (Blocks_disjoint 0 N bs lvw low lv' lo' HB HinW Hin') as Hdis.
  assert (EW' : tW T' <= 2 ^ h) by (rewrite ET'; cbn [tW]; lia).
  destruct (same_tile_arith h L tn zj zs a lam lvw low ow (Z.of_nat jw) (Z.of_nat nw)
              lv' lo' o' (tL T') (tN T') (Z.of_nat jb) (Z.of_nat nb))
    as [EL' [EN' [Hjj [Hlo2 Hhi2]]]]; try assumption; try lia; try reflexivity.
  (* same tile, hence same position and same data *)
  assert (ETT : T' = T) by (rewrite ET', ETw, EL', EN'; reflexivity).
  subst T'. fold L in Elv'. fold tn in Ec'.
  assert (q' = q) by (eapply ord_full_unique; eassumption). subst q'.
  rewrite Hd in Hd'. injection Hd' as <-.
  (* descend inside the covering block *)
  assert (Hjn : (j' <= jb)%nat) by lia.
  set (s2 := (s - nb * 2 ^ (jb - j'))%nat).
  assert (Hp2 : Z.of_nat (2 ^ (jb - j')) = 2 ^ (Z.of_nat jb - zj)).
  { rewrite pow2_nat_Z. f_equal. unfold zj. lia. }
  assert (Hs2 : (nb * 2 ^ (jb - j') <= s)%nat) by nia.
  assert (Hs2lt : (s2 < 2 ^ (jb - j'))%nat) by (unfold s2; nia).
  assert (Hdd : length (block d jb nb) = (32 * 2 ^ jb)%nat).
  { apply block_length. unfold len in Hlen'. pose proof (pow2_nat_Z jb) as Hpz.
    apply Nat2Z.inj_le. rewrite !Nat2Z.inj_mul, Nat2Z.inj_add, Hpz.
    clear - Hlen' Hnb. change (Z.of_nat 32) with 32. change (Z.of_nat 1) with 1. nia. }
  assert (HLh0 : 0 <= L * h) by (apply Z.mul_nonneg_nonneg; lia).
  pose proof (mtree_blocks node_hash R N (L * h) jb (block d jb nb) o' HLh0 Hdd) as HM.
  rewrite <- Elv', <- Eh' in HM. specialize (HM Hnode' j' s2 Hjn Hs2lt).
  rewrite block_block in HM by assumption.
  replace (nb * 2 ^ (jb - j') + s2)%nat with s in HM by (unfold s2; lia).
  replace (Z.of_nat (jb - j')) with (Z.of_nat jb - zj) in HM by (unfold zj; lia).
  replace (o' * 2 ^ (Z.of_nat jb - zj) + Z.of_nat s2) with a in HM; [exact HM|].
  (* coordinates *)
  unfold a, s2. rewrite Nat2Z.inj_sub, Nat2Z.inj_mul, Hp2 by lia. fold zs.
  pose proof (pow2_pos (Z.of_nat jb - zj) ltac:(lia)) as Hpd.
  pose proof (pow2_pos zj ltac:(lia)) as Hpz.
  pose proof (pow2_pos (Z.of_nat jb) ltac:(lia)) as Hpjb.
  assert (E1 : 2 ^ Z.of_nat jb = 2 ^ (Z.of_nat jb - zj) * 2 ^ zj) by (apply pow2_split; lia).
  assert (E2 : 2 ^ h = 2 ^ (h - zj) * 2 ^ zj) by (apply pow2_split; lia).
  rewrite E1, E2 in Ec'.
  assert (Ecc : tn * 2 ^ (h - zj) + Z.of_nat nb * 2 ^ (Z.of_nat jb - zj) = o' * 2 ^ (Z.of_nat jb - zj)).
  { apply (Z.mul_reg_r _ _ (2 ^ zj)); [lia|].
    replace ((tn * 2 ^ (h - zj) + Z.of_nat nb * 2 ^ (Z.of_nat jb - zj)) * 2 ^ zj)
      with (tn * (2 ^ (h - zj) * 2 ^ zj) + Z.of_nat nb * (2 ^ (Z.of_nat jb - zj) * 2 ^ zj)) by ring.
    rewrite Ec'. ring. }
  clear - Ecc. lia.
Qed.

End Phase1.


(* ---------------------------------------------------------------- what the checking functions establish *)

Lemma stx_hashes_spec tiles data : forall rjx rhs,
  stx_hashes node_hash tiles data rjx = TOk rhs ->
  Forall2 (fun jx hh => hash_at tiles data (fst jx) (snd jx) = TOk hh) rjx rhs.
Proof.
  induction rjx as [|[j x] r IH]; intros rhs H.
  - cbn in H. injection H as <-. constructor.
  - cbn [stx_hashes] in H. apply tbind_ok in H. destruct H as [hh [H1 H]].
    apply tbind_ok in H. destruct H as [hs' [H2 H]]. injection H as <-.
    constructor; [exact H1|apply IH; exact H2].
Qed.

Lemma fold_rev_rev hs : fold_rev node_hash (rev hs) = fold_hashes node_hash hs.
Proof.
  induction hs as [|a r IH]; [reflexivity|].
  destruct r as [|b r]; [reflexivity|].
  rewrite fold_hashes_cons2, <- IH. cbn [rev].
  destruct (rev r ++ [b]) as [|c t] eqn:E; [destruct (rev r); discriminate|].
  cbn [app fold_rev]. rewrite fold_left_app. reflexivity.
Qed.

Definition rest_ok (N : Z) (ord : order) (data : list str) (it : nat * tile) : Prop :=
  let p := tile_parent (snd it) 1 N in
  exists j dj di hh,
    lookup p ord = Some j /\ nth_error data j = Some dj /\
    hash_from_tile p dj (stored_hash_index (tL p * tH p) (tN (snd it))) = TOk hh /\
    nth_error data (fst it) = Some di /\ tile_hash node_hash di = TOk hh.

Lemma auth_rest_spec N ord tiles data : forall rest,
  auth_rest node_hash N ord tiles data rest = TOk tt -> Forall (rest_ok N ord data) rest.
Proof.
  induction rest as [|[i t] r IH]; intros H; [constructor|].
  cbn [auth_rest] in H.
  destruct (lookup (tile_parent t 1 N) ord) as [j|] eqn:El; [|discriminate].
  destruct (nth_error data j) as [dj|] eqn:Edj; [|discriminate].
  destruct (Tile.hash_from_tile node_hash (tile_parent t 1 N) dj _) as [hh| |] eqn:Eh; try discriminate.
  destruct (nth_error data i) as [di|] eqn:Edi; [|discriminate].
  apply tbind_ok in H. destruct H as [hi [Eth H]].
  destruct (str_eqb hh hi) eqn:Eq; [|discriminate]. apply str_eqb_eq in Eq. subst hi.
  constructor; [|apply IH; exact H].
  unfold rest_ok. cbn [fst snd]. exists j, dj, di, hh. auto.
Qed.

Lemma extract_spec tiles data : forall xj hs,
  extract node_hash tiles data xj = TOk hs ->
  Forall2 (fun xj hh => hash_at tiles data (snd xj) (fst xj) = TOk hh) xj hs.
Proof.
  induction xj as [|[x j] r IH]; intros hs H.
  - cbn in H. injection H as <-. constructor.
  - cbn [extract] in H. destruct (TileReader.hash_at node_hash tiles data j x) as [hh| |] eqn:E; try discriminate.
    apply tbind_ok in H. destruct H as [hs' [H2 H]]. injection H as <-.
    constructor; [exact E|apply IH; exact H2].
Qed.

Lemma Forall2_of_nth {A B} (P : A -> B -> Prop) : forall l l',
  length l = length l' ->
  (forall i a b, nth_error l i = Some a -> nth_error l' i = Some b -> P a b) -> Forall2 P l l'.
Proof.
  induction l as [|a l IH]; intros [|b l'] Hl H; try discriminate; constructor.
  - apply (H O); reflexivity.
  - apply IH; [cbn in Hl; lia|]. intros i x y Hx Hy. apply (H (S i)); assumption.
Qed.

Lemma Forall2_combine_l {A B C} (P : A * B -> C -> Prop) : forall (l : list A) (m : list B) (r : list C),
  length l = length m -> Forall2 P (combine l m) r ->
  Forall2 (fun a c => exists b i, nth_error l i = Some a /\ nth_error m i = Some b /\ P (a, b) c) l r.
Proof.
  induction l as [|a l IH]; intros [|b m] r Hl F; try discriminate.
  - inversion F. constructor.
  - cbn in F. inversion F as [|ab c lm r' Hab F' E1 E2]. subst. constructor.
    + exists b, O. auto.
    + cbn in Hl. specialize (IH m r' ltac:(lia) F'). revert IH. apply Forall2_impl_in.
      intros a' c' _ [b' [i [H1 [H2 H3]]]]. exists b', (S i). auto.
Qed.

(* ---------------------------------------------------------------- phase 3: every tile is authenticated *)

Section Phase3.
Variables (h N : Z) (R : hash).
Variables (tiles1 ext2 : list tile) (data : list str) (ord : order).
Let tiles := tiles1 ++ ext2.
Hypothesis HN : 0 <= N <= 2 ^ 62.
Hypothesis Hext2 : Forall (phase2_tile h N) ext2.
Hypothesis Hord : ord_ok ord tiles.
Hypothesis Hlen : Forall2 (fun t d => len d = tW t * 32) tiles data.
Hypothesis H1 : forall q T d, (q < length tiles1)%nat -> nth_error tiles1 q = Some T ->
                              nth_error data q = Some d -> tile_auth R N T d.
Hypothesis Hrest : Forall (rest_ok N ord data) (skipn (length tiles1) (combine (seq 0 (length tiles)) tiles)).

Lemma shi0_bound x : x < stored_hash_index 0 N -> x < 2 ^ 63.
Proof.
  intros Hx. pose proof (first_index_le_double N ltac:(lia)) as Hd. unfold first_index in Hd.
  assert (2 * 2 ^ 62 = 2 ^ 63) by reflexivity. lia.
Qed.

Lemma all_tiles_auth_n B : Forall (fun t => tL t <= B) tiles ->
  forall n i t d, nth_error tiles i = Some t -> nth_error data i = Some d ->
                  (Z.to_nat (B - tL t) <= n)%nat -> tile_auth R N t d.
Proof.
  intros HB. induction n as [|n IH]; intros i t d Ht Hd Hn.
  all: destruct (Nat.lt_ge_cases i (length tiles1)) as [Hlt|Hge];
    [apply (H1 i); [exact Hlt| unfold tiles in Ht; rewrite nth_error_app1 in Ht by exact Hlt; exact Ht | exact Hd]|].
  all: assert (Hin2 : In t ext2) by
      (unfold tiles in Ht; rewrite nth_error_app2 in Ht by exact Hge; eapply nth_error_In; exact Ht).
  all: rewrite Forall_forall in Hext2; destruct (Hext2 t Hin2) as [x [t0 [s0 [e0 [Hx [Htfi [Hfullw [k Ek]]]]]]]].
  all: assert (Hx0 : 0 <= x) by
      (destruct (Z_lt_le_dec x 0) as [Hneg|]; [rewrite tile_for_index_neg in Htfi by exact Hneg; discriminate|assumption]).
  all: pose proof (shi0_bound x Hx) as Hx63.
  all: destruct (tile_for_index_spec _ _ _ _ _ Htfi ltac:(lia))
      as [_ [_ [_ [_ [_ [_ [_ [_ [Hh1 [HH0 [HL0 [_ [_ [HN0 _]]]]]]]]]]]]]].
  all: pose proof (tile_parent_spec t0 (Z.of_nat k) N ltac:(lia) ltac:(lia) HL0 HN0 ltac:(lia)) as Hps;
    cbv zeta in Hps; rewrite HH0 in Hps; destruct Hps as [Hno Hyes].
  all: pose proof (pow2_pos h ltac:(lia)) as Hph.
  all: set (Lv := tL t0 + Z.of_nat k) in *; set (nt := tN t0 / 2 ^ (Z.of_nat k * h)) in *.
  all: assert (Hnt0 : 0 <= nt) by (apply Z.div_pos; [lia|apply pow2_pos; nia]).
  all: assert (HLt0 : 0 <= Lv) by (unfold Lv; lia).
  all: assert (HLth : 0 <= Lv * h) by (apply Z.mul_nonneg_nonneg; lia).
  all: pose proof (pow2_pos (Lv * h) HLth) as HpLt.
  all: assert (Hform : t = mkTile h Lv nt (2 ^ h) /\ (nt + 1) * 2 ^ h <= N / 2 ^ (Lv * h)).
  all: try (destruct (Z_le_gt_dec (N / 2 ^ (Lv * h)) (nt * 2 ^ h)) as [Hle|Hgt];
    [ rewrite <- Ek in Hno; rewrite (Hno Hle) in Hfullw; cbn in Hfullw; discriminate
    | rewrite <- Ek in Hyes; specialize (Hyes ltac:(lia)); rewrite Hyes in Hfullw; cbn [tW tH] in Hfullw;
      split; [rewrite Hyes; f_equal; lia | lia] ]).
  all: destruct Hform as [Et Hroom].
  all: assert (EtH : tH t = h) by (rewrite Et; reflexivity);
       assert (EtL : tL t = Lv) by (rewrite Et; reflexivity);
       assert (EtN : tN t = nt) by (rewrite Et; reflexivity);
       assert (EtW : tW t = 2 ^ h) by (rewrite Et; reflexivity).
  (* the check made by auth_rest for this tile *)
  all: pose proof (rest_in tiles (length tiles1) i t Ht Hge) as Hinr.
  all: rewrite Forall_forall in Hrest; destruct (Hrest _ Hinr) as [j [dj [di [hh [Hlk [Hdj [Hhp [Hdi Hth]]]]]]]].
  all: cbn [fst snd] in *.
  all: rewrite Hd in Hdi; injection Hdi as <-.
  all: set (p := tile_parent t 1 N) in *.
  all: pose proof (tile_parent_spec t 1 N ltac:(lia) ltac:(lia) ltac:(lia) ltac:(lia) ltac:(lia)) as Hpp;
    cbv zeta in Hpp; fold p in Hpp; rewrite EtH, EtL, EtN in Hpp; rewrite Z.mul_1_l in Hpp; destruct Hpp as [Hpno Hpyes].
  all: assert (Hp63 : 0 <= stored_hash_index ((Lv + 1) * h) nt < 2 ^ 63).
  all: try (apply no_overflow_index; [nia | lia |];
    replace ((Lv + 1) * h) with (Lv * h + h) by ring; rewrite pow2_mul by lia;
    pose proof (Z.mul_div_le N (2 ^ (Lv * h)) HpLt); nia).
  all: assert (Hpform : tH p = h /\ tL p = Lv + 1).
  all: try (destruct (Z_le_gt_dec (N / 2 ^ ((Lv + 1) * h)) (nt / 2 ^ h * 2 ^ h)) as [Hle|Hgt];
    [ rewrite (Hpno Hle) in Hhp; cbn in Hhp; discriminate
    | rewrite (Hpyes ltac:(lia)); cbn [tH tL]; split; reflexivity ]).
  all: destruct Hpform as [EpH EpL].
  all: rewrite EpH, EpL, EtN in Hhp.
  all: apply lookup_in in Hlk; apply Hord in Hlk.
  1: { (* n = 0: the parent would be above the bound *)
       exfalso. rewrite Forall_forall in HB. pose proof (HB p (nth_error_In _ _ Hlk)).
       pose proof (HB t (nth_error_In _ _ Ht)). lia. }
  assert (Hpa : tile_auth R N p dj).
  { apply (IH j p dj Hlk Hdj). rewrite Forall_forall in HB. pose proof (HB p (nth_error_In _ _ Hlk)). lia. }
  destruct (hash_from_tile_auth R N p dj _ hh Hpa Hhp ltac:(lia)) as [l [o [Hsp Hnode]]].
  rewrite (split_index ((Lv + 1) * h) nt ltac:(nia) Hnt0 ltac:(lia)) in Hsp. injection Hsp as <- <-.
  (* the tile's own hash *)
  set (hn := Z.to_nat h).
  assert (Hp2 : Z.of_nat (2 ^ hn) = 2 ^ h) by (rewrite pow2_nat_Z; unfold hn; rewrite Z2Nat.id by lia; reflexivity).
  destruct (Forall2_nth _ _ _ _ _ Hlen Ht) as [d' [Hd' Hld]]. rewrite Hd in Hd'. injection Hd' as <-.
  assert (Hlend : length d = (32 * 2 ^ hn)%nat) by (unfold len in Hld; rewrite EtW in Hld; lia).
  rewrite (tile_hash_spec node_hash hn d Hlend) in Hth. injection Hth as <-.
  replace ((Lv + 1) * h) with (Lv * h + Z.of_nat hn) in Hnode by (unfold hn; rewrite Z2Nat.id by lia; ring).
  pose proof (mtree_blocks node_hash R N (Lv * h) hn d nt HLth Hlend Hnode) as HM.
  unfold tile_auth. rewrite EtH, EtL, EtN, EtW.
  do 5 (split; [first [assumption | lia] |]).
  intros j' s Hj' Hs.
  assert (Hjn : (j' <= hn)%nat) by (unfold hn; lia).
  assert (E : 2 ^ h = 2 ^ (h - Z.of_nat j') * 2 ^ Z.of_nat j') by (apply pow2_split; lia).
  pose proof (pow2_pos (Z.of_nat j') ltac:(lia)). pose proof (pow2_pos (h - Z.of_nat j') ltac:(lia)).
  assert (Hslt : (s < 2 ^ (hn - j'))%nat).
  { apply Nat2Z.inj_lt. rewrite pow2_nat_Z. replace (Z.of_nat (hn - j')) with (h - Z.of_nat j') by (unfold hn; lia).
    rewrite E in Hs. nia. }
  specialize (HM j' s Hjn Hslt).
  replace (Z.of_nat (hn - j')) with (h - Z.of_nat j') in HM by (unfold hn; lia). exact HM.
Qed.

Lemma all_tiles_auth i t d :
  nth_error tiles i = Some t -> nth_error data i = Some d -> tile_auth R N t d.
Proof.
  intros Ht Hd.
  assert (HB : exists B, Forall (fun t => tL t <= B) tiles).
  { clear. induction tiles as [|a l [B IH]]; [exists 0; constructor|].
    exists (Z.max B (tL a)). constructor; [lia|]. revert IH. apply Forall_impl. intros; lia. }
  destruct HB as [B HB].
  apply (all_tiles_auth_n B HB (Z.to_nat (B - tL t)) i t d Ht Hd). lia.
Qed.

End Phase3.


(* ---------------------------------------------------------------- the theorem *)

Lemma make_plan_spec N h ix p :
  0 <= N <= 2 ^ 62 -> make_plan N h ix = TOk p ->
  exists bs tiles1 ext2 ord1,
    Blocks 0 N bs /\ p_stx p = sub_tree_indexes bs /\
    p_tiles p = tiles1 ++ ext2 /\ p_nstx p = length tiles1 /\
    ord_full ord1 tiles1 /\
    Forall2 (fun x j => exists t, stx_tile h N x t /\ nth_error tiles1 j = Some t) (p_stx p) (p_stx_order p) /\
    (forall q, (q < length tiles1)%nat -> In q (p_stx_order p)) /\
    ord_ok (p_order p) (p_tiles p) /\ Forall (phase2_tile h N) ext2 /\
    Forall2 (index_at h N (p_tiles p)) ix (p_index_order p).
Proof.
  intros HN H. unfold make_plan in H.
  apply tbind_ok in H. destruct H as [stx [Estx H]].
  apply tbind_ok in H. destruct H as [[[ord1 tiles1] sto] [E1 H]]. cbn [fst snd] in H.
  apply tbind_ok in H. destruct H as [[[ord2 tiles2] ito] [E2 H]]. cbn [fst snd] in H.
  injection H as <-. cbn [p_stx p_tiles p_nstx p_stx_order p_order p_index_order].
  destruct (sub_tree_ok 0 N ltac:(lia) ltac:(lia) (aligned_0 N ltac:(lia))) as [bs [Ebs HB]].
  unfold sub_tree_index in Estx. rewrite Ebs in Estx. cbn in Estx. injection Estx as <-.
  assert (Hok0 : ord_ok [] []) by (intros t j []).
  assert (Hfull0 : ord_full [] []) by (intros j t Hj; destruct j; discriminate).
  destruct (plan_stx_spec _ _ _ _ _ _ _ _ E1 Hok0 Hfull0) as [Hok1 [Hfull1 [_ [Hsto Hcov]]]].
  destruct (plan_indexes_spec _ _ _ _ _ _ _ _ E2 Hok1) as [Hok2 [[ext2 [Eext Hp2]] Hix]].
  exists bs, tiles1, ext2, ord1. subst tiles2.
  repeat (split; [first [assumption | reflexivity] |]).
  split; [intros q Hq; apply Hcov; cbn [length]; lia|].
  repeat (split; [assumption|]). assumption.
Qed.

Lemma shi0_bound' N x : 0 <= N <= 2 ^ 62 -> x < stored_hash_index 0 N -> x < 2 ^ 63.
Proof.
  intros HN Hx. pose proof (first_index_le_double N ltac:(lia)) as Hd. unfold first_index in Hd.
  assert (2 * 2 ^ 62 = 2 ^ 63) by reflexivity. lia.
Qed.

(* every tile is authenticated once the two authentication passes have succeeded *)
Lemma checked_tiles_auth N R h ix p data :
  0 <= N <= 2 ^ 62 -> make_plan N h ix = TOk p ->
  length data = length (p_tiles p) -> check_lengths (p_tiles p) data = true ->
  auth_stx node_hash p data R = TOk tt ->
  auth_rest node_hash N (p_order p) (p_tiles p) data
            (skipn (p_nstx p) (combine (seq 0 (length (p_tiles p))) (p_tiles p))) = TOk tt ->
  forall i t d, nth_error (p_tiles p) i = Some t -> nth_error data i = Some d -> tile_auth R N t d.
Proof.
  intros HN Ep Hl Ecl Ea Er.
  destruct (make_plan_spec N h ix p HN Ep)
    as [bs [tiles1 [ext2 [ord1 [HB [Estx [Etiles [Enstx [Hfull1 [Hsto [Hcov [Hok2 [Hp2 Hix]]]]]]]]]]]]].
  pose proof (check_lengths_spec _ _ Ecl Hl) as Hlen.
  unfold auth_stx in Ea. apply tbind_ok in Ea. destruct Ea as [rhs [Esh Ea]].
  destruct (fold_rev node_hash rhs) as [th|] eqn:Efr; [|discriminate].
  destruct (str_eqb th R) eqn:Eq; [|discriminate]. apply str_eqb_eq in Eq. subst th.
  apply stx_hashes_spec in Esh. apply Forall2_rev in Esh. rewrite rev_involutive in Esh.
  assert (Hfold : fold_hashes node_hash (rev rhs) = Some R) by (rewrite <- fold_rev_rev, rev_involutive; exact Efr).
  rewrite Etiles, Estx in *. rewrite Enstx in Er.
  apply auth_rest_spec in Er.
  apply (all_tiles_auth h N R tiles1 ext2 data (p_order p) HN Hp2 Hok2 Hlen); [|exact Er].
  intros q T d Hq HT Hd.
  apply (stx_tiles_auth h N R bs tiles1 ext2 data (p_stx_order p) (rev rhs) ord1 HN HB Hfull1 Hsto Hcov Hlen Esh Hfold q T d Hq HT Hd).
Qed.

Theorem read_hashes_sound N R h ix rt hs ts ds :
  0 <= N <= 2 ^ 62 ->
  tile_read_hashes node_hash (N, R) h ix rt = (TOk hs, Some (ts, ds)) ->
  Forall2 (fun i x => exists l o, split_stored_hash_index i = Ok (l, o) /\ NodeAt R N l o x) ix hs /\
  Forall2 (tile_ok node_hash R N) ts ds.
Proof.
  intros HN H. unfold tile_read_hashes in H. cbn [fst snd] in H.
  destruct ((h <? 1) || (62 <? h)); [discriminate|].
  destruct (make_plan N h ix) as [p| |] eqn:Ep; try discriminate.
  destruct (rt (p_tiles p)) as [data|]; [|discriminate].
  unfold check_and_extract in H. cbn [fst snd] in H.
  destruct (Nat.eqb_spec (length data) (length (p_tiles p))) as [Hl|]; [|discriminate]. cbn [negb] in H.
  destruct (check_lengths (p_tiles p) data) eqn:Ecl; [|discriminate]. cbn [negb] in H.
  destruct (auth_stx node_hash p data R) as [[]| |] eqn:Ea; try discriminate.
  destruct (auth_rest node_hash N (p_order p) (p_tiles p) data _) as [[]| |] eqn:Er; try discriminate.
  injection H as Hex <- <-.
  pose proof (checked_tiles_auth N R h ix p data HN Ep Hl Ecl Ea Er) as Hall.
  destruct (make_plan_spec N h ix p HN Ep)
    as [bs [tiles1 [ext2 [ord1 [_ [_ [_ [_ [_ [_ [_ [_ [_ Hix]]]]]]]]]]]]].
  split.
  - apply extract_spec in Hex.
    apply Forall2_combine_l in Hex; [|apply (Forall2_length' _ _ _ Hix)].
    revert Hex. apply Forall2_impl_in.
    intros x hh _ [j [i [Hxi [Hji Hat]]]]. cbn [fst snd] in Hat.
    destruct (Forall2_nth _ _ _ _ _ Hix Hxi) as [j' [Hj' [Hx _]]].
    unfold TileReader.hash_at in Hat.
    destruct (nth_error (p_tiles p) j) as [t|] eqn:Et; [|discriminate].
    destruct (nth_error data j) as [d|] eqn:Ed; [|discriminate].
    apply (hash_from_tile_auth R N t d x hh (Hall j t d Et Ed) Hat (shi0_bound' N x HN Hx)).
  - apply Forall2_of_nth; [symmetry; exact Hl|].
    intros i t d Ht Hd. apply tile_auth_ok. apply (Hall i t d Ht Hd).
Qed.

(* nothing is handed to SaveTiles unless both authentication passes succeeded; in particular
   every error before the extraction leaves the second component None *)
Theorem read_hashes_saved_only_authenticated N R h ix rt r ts ds :
  0 <= N <= 2 ^ 62 ->
  tile_read_hashes node_hash (N, R) h ix rt = (r, Some (ts, ds)) ->
  Forall2 (tile_ok node_hash R N) ts ds.
Proof.
  intros HN H. unfold tile_read_hashes in H. cbn [fst snd] in H.
  destruct ((h <? 1) || (62 <? h)); [discriminate|].
  destruct (make_plan N h ix) as [p| |] eqn:Ep; try discriminate.
  destruct (rt (p_tiles p)) as [data|]; [|discriminate].
  unfold check_and_extract in H. cbn [fst snd] in H.
  destruct (Nat.eqb_spec (length data) (length (p_tiles p))) as [Hl|]; [|discriminate]. cbn [negb] in H.
  destruct (check_lengths (p_tiles p) data) eqn:Ecl; [|discriminate]. cbn [negb] in H.
  destruct (auth_stx node_hash p data R) as [[]| |] eqn:Ea; try discriminate.
  destruct (auth_rest node_hash N (p_order p) (p_tiles p) data _) as [[]| |] eqn:Er; try discriminate.
  injection H as _ <- <-.
  pose proof (checked_tiles_auth N R h ix p data HN Ep Hl Ecl Ea Er) as Hall.
  apply Forall2_of_nth; [symmetry; exact Hl|].
  intros i t d Ht Hd. apply tile_auth_ok. apply (Hall i t d Ht Hd).
Qed.

End Sound.
