(* Tlog/ProofsSpec.v — the defining equations of the RFC 6962 functions of Spec6962.v
   (the fuel of their definitions is irrelevant), and facts about slices. *)
From Verif.Base Require Import Bytes.
From Verif.Tlog Require Import Index Tree Spec6962 ProofsIndex.

Lemma split_point_bounds n : 2 <= n -> 1 <= split_point n < n /\ n <= 2 * split_point n.
Proof.
  intros H. unfold split_point.
  pose proof (Z.log2_spec (n - 1) ltac:(lia)) as [H1 H2].
  pose proof (Z.log2_nonneg (n - 1)) as H0.
  unfold Z.succ in H2. rewrite pow2_succ in H2 by lia.
  pose proof (pow2_pos _ H0). lia.
Qed.

Lemma split_point_unique n l : 0 <= l -> 2 ^ l < n <= 2 * 2 ^ l -> split_point n = 2 ^ l.
Proof.
  intros Hl H. unfold split_point. f_equal. apply Z.log2_unique; [lia|].
  unfold Z.succ. rewrite pow2_succ by lia. lia.
Qed.

Lemma len_firstn {A} (l : list A) k : (k <= length l)%nat -> length (firstn k l) = k.
Proof. intros; rewrite firstn_length; lia. Qed.

Section SpecProofs.
Variable node_hash : hash -> hash -> hash.

Lemma mth_fuel_irrel f1 : forall f2 l, (length l <= f1)%nat -> (length l <= f2)%nat ->
  mth_fuel node_hash f1 l = mth_fuel node_hash f2 l.
Proof.
  induction f1 as [|f1 IH]; intros f2 l H1 H2.
  - destruct l as [|a [|b r]]; cbn in H1; try lia; destruct f2; reflexivity.
  - destruct l as [|a [|b r]]; try (destruct f2; reflexivity).
    destruct f2 as [|f2]; [cbn in H2; lia|].
    cbn [mth_fuel].
    set (l := a :: b :: r) in *.
    assert (Hlen : 2 <= zlen l) by (unfold zlen, l; cbn [length]; lia).
    pose proof (split_point_bounds (zlen l) Hlen) as Hk.
    set (k := Z.to_nat (split_point (zlen l))).
    assert (Hk' : (1 <= k < length l)%nat) by (unfold k, zlen in *; lia).
    f_equal; apply IH; rewrite ?firstn_length, ?skipn_length; lia.
Qed.

Lemma mth_nil : mth node_hash [] = empty_hash.
Proof. reflexivity. Qed.

Lemma mth_one x : mth node_hash [x] = x.
Proof. reflexivity. Qed.

Lemma mth_split l :
  2 <= zlen l ->
  let k := Z.to_nat (split_point (zlen l)) in
  mth node_hash l = node_hash (mth node_hash (firstn k l)) (mth node_hash (skipn k l)).
Proof.
  intros Hlen k. pose proof (split_point_bounds (zlen l) Hlen) as Hk.
  assert (Hk' : (1 <= k < length l)%nat) by (unfold k, zlen in *; lia).
  unfold mth. destruct l as [|a [|b r]]; try (unfold zlen in Hlen; cbn in Hlen; lia).
  set (l := a :: b :: r) in *.
  change (length l) with (S (length (b :: r))) at 1.
  change (mth_fuel node_hash (S (length (b :: r))) l) with
    (node_hash (mth_fuel node_hash (length (b :: r)) (firstn k l))
               (mth_fuel node_hash (length (b :: r)) (skipn k l))).
  assert (length l = S (length (b :: r))) by reflexivity.
  f_equal; apply mth_fuel_irrel; rewrite ?firstn_length, ?skipn_length; lia.
Qed.

End SpecProofs.

(* ------------------------------------------------------------------ slices *)

Lemma skipn_skipn' {A} (l : list A) a b : skipn a (skipn b l) = skipn (b + a) l.
Proof.
  revert l; induction b as [|b IH]; intros l; [reflexivity|].
  destruct l; cbn [skipn Nat.add]; [apply skipn_nil|apply IH].
Qed.

Lemma slice_length {A} (l : list A) a n :
  0 <= a -> 0 <= n -> a + n <= zlen l -> zlen (slice l a n) = n.
Proof.
  intros Ha Hn H. unfold slice, zlen in *. rewrite firstn_length, skipn_length. lia.
Qed.

Lemma slice_firstn {A} (l : list A) a n k :
  0 <= k <= n -> firstn (Z.to_nat k) (slice l a n) = slice l a k.
Proof.
  intros H. unfold slice. rewrite firstn_firstn. f_equal. lia.
Qed.

Lemma slice_skipn {A} (l : list A) a n k :
  0 <= a -> 0 <= k <= n -> skipn (Z.to_nat k) (slice l a n) = slice l (a + k) (n - k).
Proof.
  intros Ha H. unfold slice. rewrite skipn_firstn_comm, skipn_skipn'.
  f_equal; [lia|]. f_equal. lia.
Qed.

Lemma slice_all {A} (l : list A) : slice l 0 (zlen l) = l.
Proof. unfold slice, zlen. rewrite Nat2Z.id. cbn [Z.to_nat skipn]. apply firstn_all. Qed.

Lemma slice_prefix {A} (l : list A) m : slice l 0 m = firstn (Z.to_nat m) l.
Proof. reflexivity. Qed.

Lemma slice_app_l {A} (l r : list A) a n :
  0 <= a -> 0 <= n -> a + n <= zlen l -> slice (l ++ r) a n = slice l a n.
Proof.
  intros Ha Hn H. unfold slice, zlen in *.
  rewrite skipn_app, firstn_app, skipn_length.
  replace (Z.to_nat n - (length l - Z.to_nat a))%nat with O by lia.
  cbn [firstn]. apply app_nil_r.
Qed.

Lemma slice_map {A B} (f : A -> B) (l : list A) a n : slice (map f l) a n = map f (slice l a n).
Proof. unfold slice. rewrite skipn_map, firstn_map. reflexivity. Qed.

Lemma slice_one {A} (l : list A) a x :
  0 <= a -> nth_error l (Z.to_nat a) = Some x -> slice l a 1 = [x].
Proof.
  intros Ha H. unfold slice. change (Z.to_nat 1) with 1%nat.
  revert H. generalize (Z.to_nat a). intros i. revert l. induction i; intros [|y l]; cbn; try discriminate.
  - intros [= ->]. reflexivity.
  - intros H. apply (IHi l H).
Qed.
