(* Tlog/ProofsStore.v — the store built by appending records with StoredHashes holds, at
   StoredHashIndex(l, o), the RFC 6962 hash of the complete subtree (l, o); its length is
   StoredHashCount; it is dense; TreeHash of any prefix size is the RFC 6962 tree hash. *)
From Verif.Base Require Import Bytes.
From Verif.Tlog Require Import Index Tree Spec6962 ProofsIndex ProofsSpec ProofsTree.

Section Concrete.
Variable leaf_hash : str -> hash.
Variable node_hash : hash -> hash -> hash.

(* the RFC 6962 hash of records [lo, hi) *)
Definition range_hash (recs : list str) (lo hi : Z) : hash :=
  mth node_hash (map leaf_hash (slice recs lo (hi - lo))).

Lemma zlen_map {A B} (f : A -> B) l : zlen (map f l) = zlen l.
Proof. unfold zlen. rewrite map_length. reflexivity. Qed.

Lemma zlen_app {A} (a b : list A) : zlen (a ++ b) = zlen a + zlen b.
Proof. unfold zlen. rewrite app_length. lia. Qed.

Lemma zlen_nonneg {A} (l : list A) : 0 <= zlen l.
Proof. unfold zlen. lia. Qed.

Lemma range_hash_splits recs : T_splits node_hash (range_hash recs) (zlen recs).
Proof.
  intros lo hi Hlo Hhi Hn. unfold range_hash.
  set (L := map leaf_hash (slice recs lo (hi - lo))).
  assert (HL : zlen L = hi - lo).
  { unfold L. rewrite zlen_map. apply slice_length; lia. }
  pose proof (split_point_bounds (hi - lo) ltac:(lia)) as Hk.
  rewrite (mth_split node_hash L) by lia. cbv zeta. rewrite HL.
  set (k := split_point (hi - lo)) in *.
  unfold L. rewrite firstn_map, skipn_map.
  rewrite slice_firstn, slice_skipn by lia.
  replace (lo + k - lo) with k by lia. replace (hi - (lo + k)) with (hi - lo - k) by lia.
  reflexivity.
Qed.

Lemma T_splits_le T M M' : T_splits node_hash T M -> M' <= M -> T_splits node_hash T M'.
Proof. intros H Hle lo hi H1 H2 H3. apply H; lia. Qed.

Lemma range_hash_leaf pre r rest :
  range_hash (pre ++ r :: rest) (zlen pre) (zlen pre + 1) = leaf_hash r.
Proof.
  unfold range_hash. replace (zlen pre + 1 - zlen pre) with 1 by lia.
  rewrite (slice_one _ _ r).
  - reflexivity.
  - apply zlen_nonneg.
  - unfold zlen. rewrite Nat2Z.id, nth_error_app2, Nat.sub_diag by lia. reflexivity.
Qed.

Lemma store_from_inv rest : forall pre st,
  zlen (pre ++ rest) < 2 ^ 62 ->
  store_holds (range_hash (pre ++ rest)) (zlen pre) st ->
  zlen st = first_index (zlen pre) ->
  store_holds (range_hash (pre ++ rest)) (zlen (pre ++ rest))
              (store_from leaf_hash node_hash st (zlen pre) rest) /\
  zlen (store_from leaf_hash node_hash st (zlen pre) rest) = first_index (zlen (pre ++ rest)).
Proof.
  induction rest as [|r rest IH]; intros pre st Hlen Hst Hst_len.
  - rewrite app_nil_r in *. cbn [store_from]. split; assumption.
  - cbn [store_from]. rewrite zlen_app in Hlen.
    pose proof (zlen_nonneg pre). pose proof (zlen_nonneg (r :: rest)).
    assert (Hr : 1 <= zlen (r :: rest)) by (unfold zlen; cbn [length]; lia).
    destruct (store_step node_hash (range_hash (pre ++ r :: rest)) (zlen pre) st (leaf_hash r))
      as [hs [E [Hst' Hlen']]]; try assumption; try lia.
    + apply T_splits_le with (zlen (pre ++ r :: rest)); [apply range_hash_splits|].
      rewrite zlen_app. lia.
    + apply range_hash_leaf.
    + unfold append_record, stored_hashes. rewrite E.
      replace (pre ++ r :: rest) with ((pre ++ [r]) ++ rest) in * by (rewrite <- app_assoc; reflexivity).
      assert (Hp : zlen (pre ++ [r]) = zlen pre + 1) by (rewrite zlen_app; reflexivity).
      rewrite <- Hp in *. apply IH; try assumption.
      rewrite !zlen_app in *. unfold zlen in *. cbn [length] in *. lia.
Qed.

Lemma store_of_inv recs :
  zlen recs < 2 ^ 62 ->
  store_holds (range_hash recs) (zlen recs) (store_of leaf_hash node_hash recs) /\
  zlen (store_of leaf_hash node_hash recs) = first_index (zlen recs).
Proof.
  intros H. unfold store_of. apply (store_from_inv recs [] []).
  - exact H.
  - intros l o Hl Ho Hlo. pose proof (pow2_pos l Hl). unfold zlen in Hlo. cbn in Hlo. nia.
  - reflexivity.
Qed.

(* store_invariant *)
Theorem store_invariant recs :
  zlen recs < 2 ^ 62 ->
  let st := store_of leaf_hash node_hash recs in
  zlen st = stored_hash_count (zlen recs) /\
  forall l o, 0 <= l -> 0 <= o -> (o + 1) * 2 ^ l <= zlen recs ->
    nth_error st (Z.to_nat (stored_hash_index l o))
    = Some (mth node_hash (map leaf_hash (slice recs (o * 2 ^ l) (2 ^ l)))).
Proof.
  intros H st. destruct (store_of_inv recs H) as [Hst Hlen]. fold st in Hst, Hlen.
  pose proof (zlen_nonneg recs).
  assert (H63 : 2 ^ 62 < 2 ^ 63) by (apply pow2_lt; lia).
  split.
  - rewrite stored_hash_count_first by lia. exact Hlen.
  - intros l o Hl Ho Hlo. rewrite (Hst l o Hl Ho Hlo). unfold range_hash.
    replace ((o + 1) * 2 ^ l - o * 2 ^ l) with (2 ^ l) by ring. reflexivity.
Qed.

(* density: every position of the store is the index of exactly one complete subtree *)
Theorem store_dense recs :
  zlen recs < 2 ^ 62 ->
  forall i, 0 <= i < zlen (store_of leaf_hash node_hash recs) ->
  exists l o, split_stored_hash_index i = Ok (l, o) /\ 0 <= l /\ 0 <= o /\
              (o + 1) * 2 ^ l <= zlen recs /\ stored_hash_index l o = i /\
              forall l' o', 0 <= l' -> 0 <= o' -> stored_hash_index l' o' = i -> l' = l /\ o' = o.
Proof.
  intros H i Hi. destruct (store_of_inv recs H) as [_ Hlen]. rewrite Hlen in Hi.
  pose proof (zlen_nonneg recs) as Hn.
  assert (H63 : i < 2 ^ 63).
  { pose proof (first_index_le_double (zlen recs) Hn). change (2 ^ 63) with (2 * 2 ^ 62). lia. }
  destruct (index_split i ltac:(lia)) as [l [o [E [Hl [Ho Hix]]]]].
  exists l, o. repeat split; try assumption.
  - apply index_lt_count_inv; try assumption. lia.
  - pose proof (split_index l' o' H0 H1 ltac:(lia)) as E'. rewrite H2, E in E'. congruence.
  - pose proof (split_index l' o' H0 H1 ltac:(lia)) as E'. rewrite H2, E in E'. congruence.
Qed.

(* tree_hash_is_MTH *)
Theorem tree_hash_is_MTH recs m :
  zlen recs < 2 ^ 62 -> 0 <= m <= zlen recs ->
  tree_hash node_hash m (reader_of (store_of leaf_hash node_hash recs))
  = Ok (mth node_hash (map leaf_hash (firstn (Z.to_nat m) recs))).
Proof.
  intros H Hm. destruct (store_of_inv recs H) as [Hst _].
  destruct (Z.eq_dec m 0) as [->|Hm0]; [reflexivity|].
  rewrite (tree_hash_spec node_hash (range_hash recs) (zlen recs) _ (range_hash_splits recs) Hst) by lia.
  unfold range_hash. rewrite Z.sub_0_r. reflexivity.
Qed.

(* StoredHashes never fails on the store it built, and returns 1 + (trailing ones of n) hashes,
   at most 1 + log2 (n + 1) *)
Theorem stored_hashes_ok recs r :
  zlen (recs ++ [r]) < 2 ^ 62 ->
  exists hs, stored_hashes leaf_hash node_hash (zlen recs) r (reader_of (store_of leaf_hash node_hash recs)) = Ok hs /\
             store_of leaf_hash node_hash (recs ++ [r]) = store_of leaf_hash node_hash recs ++ hs /\
             zlen hs = 1 + tz (zlen recs + 1) /\ zlen hs <= 1 + Z.log2 (zlen recs + 1).
Proof.
  intros H. rewrite zlen_app in H. pose proof (zlen_nonneg recs) as Hn.
  assert (Hr : zlen [r] = 1) by reflexivity.
  destruct (store_of_inv recs ltac:(lia)) as [Hst Hlen].
  destruct (store_step node_hash (range_hash (recs ++ [r])) (zlen recs)
              (store_of leaf_hash node_hash recs) (leaf_hash r)) as [hs [E [Hst' Hlen']]]; try lia.
  - apply T_splits_le with (zlen (recs ++ [r])); [apply range_hash_splits|]. rewrite zlen_app. lia.
  - intros l o Hl Ho Hlo. rewrite (Hst l o Hl Ho Hlo). unfold range_hash.
    pose proof (pow2_pos l Hl).
    rewrite slice_app_l by nia. reflexivity.
  - apply range_hash_leaf.
  - exists hs. split; [exact E|].
    assert (Hstore : store_of leaf_hash node_hash (recs ++ [r]) = store_of leaf_hash node_hash recs ++ hs).
    { unfold store_of.
      assert (G : forall rest st n, store_from leaf_hash node_hash st n (rest ++ [r])
                  = append_record leaf_hash node_hash (store_from leaf_hash node_hash st n rest)
                                  (n + zlen rest) r).
      { induction rest as [|x rest IH]; intros st n.
        - cbn [app store_from]. replace (n + zlen []) with n by (unfold zlen; cbn; lia). reflexivity.
        - cbn [app store_from]. rewrite IH. f_equal. unfold zlen. cbn [length]. lia. }
      rewrite G. cbn [Z.add]. unfold append_record. fold (store_of leaf_hash node_hash recs).
      unfold stored_hashes. rewrite E. reflexivity. }
    split; [exact Hstore|].
    rewrite zlen_app, first_index_succ in Hlen' by lia.
    assert (Hz : zlen hs = 1 + tz (zlen recs + 1)) by lia.
    split; [exact Hz|]. rewrite Hz.
    pose proof (tz_nonneg (zlen recs + 1)) as Ht.
    destruct (tz_divides (zlen recs + 1) ltac:(lia) (tz (zlen recs + 1)) ltac:(lia)) as [c Hc].
    pose proof (pow2_pos _ Ht).
    assert (Hc1 : 1 <= c) by nia.
    assert (Hle : 2 ^ tz (zlen recs + 1) <= zlen recs + 1) by nia.
    apply Z.log2_le_pow2 in Hle; lia.
Qed.

End Concrete.
