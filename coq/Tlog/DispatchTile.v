(* Wire dispatcher for the tile model (C10), instantiated with SHA-256 (Tlog/Sha.v).
   Encodings: a tile is L4 [I H; I L; I N; I W]; results are VOk v | VErr kind | VPanic.
     TileForIndex  [I h; I index]                 -> tile
     HashFromTile  [tile; S data; I index]        -> S hash
     NewTiles      [I h; I old; I new]            -> L tiles
     ReadTileData  [tile; L store]                -> S data        (store = list of S hashes, reader_of)
     TilePath      tile                           -> S path        (always ok)
     ParseTilePath S path                         -> tile
     TileParent    [tile; I k; I n]               -> tile          (always ok)
     ReadHashes    [I N; S root; I h; L indexes; resp]
                   resp = L [] : ReadTiles returns an error;  L [L datas] : it returns datas
                   -> L [result; saved; planned]
                      result  = VOk (L hashes) | VErr kind | VPanic
                      saved   = L [] | L [L tiles; L datas]      (the SaveTiles call)
                      planned = L [] | L [L tiles]               (the argument of ReadTiles) *)
From Verif.Base Require Import Bytes Wire.
From Verif.Tlog Require Import Index Tree Sha Tile TileReader.

Definition terr_val (e : terr) : val :=
  match e with
  | TENotInTree => VErr "notintree"
  | TEBadMath => VErr "badmath"
  | TEReader => VErr "reader"
  | TEBadResult => VErr "badresult"
  | TEInconsistent => VErr "inconsistent"
  | TEInvalidTile => VErr "invalidtile"
  | TEShortData => VErr "shortdata"
  | TEWrongTile => VErr "wrongtile"
  | TEBadPath => VErr "badpath"
  | TEIndex _ => VErr "index"
  | TEFuel => VErr "fuel"
  | TEDomain => VErr "domain"
  end.

Definition tres_val {A : Type} (enc : A -> val) (r : tres A) : val :=
  match r with
  | TOk a => VOk (enc a)
  | TErr e => terr_val e
  | TPanic => VPanic
  end.

Definition tile_val (t : tile) : val := VL [VI (tH t); VI (tL t); VI (tN t); VI (tW t)].
Definition tiles_val (ts : list tile) : val := VL (map tile_val ts).
Definition strs_val (l : list str) : val := VL (map VS l).

Definition val_tile (v : val) : option tile :=
  match v with
  | VL [VI h; VI l; VI n; VI w] => Some (mkTile h l n w)
  | _ => None
  end.

Definition strs_of (l : list val) : list str :=
  flat_map (fun x => match x with VS s => [s] | _ => [] end) l.
Definition ints_of (l : list val) : list Z :=
  flat_map (fun x => match x with VI z => [z] | _ => [] end) l.

Definition read_hashes_val (N : Z) (root : str) (h : Z) (indexes : list Z) (rt : tile_reader) : val :=
  let rs := tile_read_hashes node_hash_sha (N, root) h indexes rt in
  let saved := match snd rs with
               | None => VL []
               | Some (ts, ds) => VL [tiles_val ts; strs_val ds]
               end in
  let planned := if (h <? 1) || (62 <? h) then VL []
                 else match make_plan N h indexes with
                      | TOk p => VL [tiles_val (p_tiles p)]
                      | _ => VL []
                      end in
  VL [tres_val strs_val (fst rs); saved; planned].

Definition dispatch (f : str) (a : val) : val :=
  if str_eqb f (B "TileForIndex") then
    match a with
    | VL [VI h; VI i] => tres_val tile_val (tile_for_index_t h i)
    | _ => VBadCase
    end
  else if str_eqb f (B "HashFromTile") then
    match a with
    | VL [tv; VS data; VI i] =>
        match val_tile tv with
        | Some t => tres_val VS (hash_from_tile node_hash_sha t data i)
        | None => VBadCase
        end
    | _ => VBadCase
    end
  else if str_eqb f (B "NewTiles") then
    match a with
    | VL [VI h; VI o; VI n] => tres_val tiles_val (new_tiles h o n)
    | _ => VBadCase
    end
  else if str_eqb f (B "ReadTileData") then
    match a with
    | VL [tv; VL store] =>
        match val_tile tv with
        | Some t => tres_val VS (read_tile_data t (reader_of (strs_of store)))
        | None => VBadCase
        end
    | _ => VBadCase
    end
  else if str_eqb f (B "TilePath") then
    match val_tile a with
    | Some t => VOk (VS (tile_path t))
    | None => VBadCase
    end
  else if str_eqb f (B "ParseTilePath") then
    match a with
    | VS s => tres_val tile_val (parse_tile_path s)
    | _ => VBadCase
    end
  else if str_eqb f (B "TileParent") then
    match a with
    | VL [tv; VI k; VI n] =>
        match val_tile tv with
        | Some t => VOk (tile_val (tile_parent t k n))
        | None => VBadCase
        end
    | _ => VBadCase
    end
  else if str_eqb f (B "ReadHashes") then
    match a with
    | VL [VI N; VS root; VI h; VL ixs; VL []] =>
        read_hashes_val N root h (ints_of ixs) (fun _ => None)
    | VL [VI N; VS root; VI h; VL ixs; VL [VL datas]] =>
        read_hashes_val N root h (ints_of ixs) (fun _ => Some (strs_of datas))
    | _ => VBadCase
    end
  else VBadCase.
