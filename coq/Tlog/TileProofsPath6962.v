(* Tlog/TileProofsPath6962.v — what NodeAt means:
   - NodeAt_iff_path: NodeAt R N l o x <-> some sibling path p makes run_subtree_proof p 0 N l o x = Ok R
   - nodeat_record_path: at level 0 that path is a tlog.RecordProof accepted by CheckRecord
   - nodeat_true_or_collision: against the true tree head of a log, an authenticated node is the
     true RFC 6962 hash of its subtree, or an explicit collision of node_hash is at hand. *)
From Verif.Base Require Import Bytes.
From Verif.Tlog Require Import Index Tree Spec6962 ProofsIndex ProofsSpec ProofsTree ProofsStore.
From Verif.Tlog Require Import Tile TileSpec TileProofsMerkle.

Section Path.
Variable node_hash : hash -> hash -> hash.
Notation node_in := (node_in node_hash).
Notation NodeAt := (NodeAt node_hash).

Definition collision : Prop :=
  exists a b c d : hash, (a, b) <> (c, d) /\ node_hash a b = node_hash c d.

Lemma hash_eq_dec (a b : hash) : {a = b} + {a <> b}.
Proof. apply list_eq_dec. apply Z.eq_dec. Qed.

(* ---------------------------------------------------------------- true hash or collision *)

Lemma node_in_true_or_collision (T : Z -> Z -> hash) M R lo hi l o x :
  T_splits node_hash T M -> node_in R lo hi l o x -> 0 <= lo -> hi <= M -> R = T lo hi ->
  x = T (o * 2 ^ l) ((o + 1) * 2 ^ l) \/ collision.
Proof.
  intros HT H. induction H as [R lo hi l o Hlo Hhi | R lo hi l o x a b H2 HR Hle Hn IH | R lo hi l o x a b H2 HR Hle Hn IH];
    intros H0 HM ER.
  - left. subst. reflexivity.
  - pose proof (split_point_bounds (hi - lo) ltac:(lia)) as Hsp.
    rewrite (HT lo hi H0 H2 HM) in ER. rewrite HR in ER.
    destruct (hash_eq_dec a (T lo (lo + split_point (hi - lo)))) as [Ea|Na].
    + apply IH; [lia|lia|exact Ea].
    + right. exists a, b, (T lo (lo + split_point (hi - lo))), (T (lo + split_point (hi - lo)) hi).
      split; [congruence|exact ER].
  - pose proof (split_point_bounds (hi - lo) ltac:(lia)) as Hsp.
    rewrite (HT lo hi H0 H2 HM) in ER. rewrite HR in ER.
    destruct (hash_eq_dec b (T (lo + split_point (hi - lo)) hi)) as [Eb|Nb].
    + apply IH; [lia|lia|exact Eb].
    + right. exists a, b, (T lo (lo + split_point (hi - lo))), (T (lo + split_point (hi - lo)) hi).
      split; [congruence|exact ER].
Qed.

(* L is the list of leaf hashes of the log *)
Theorem nodeat_true_or_collision (L : list hash) R N l o x :
  R = mth node_hash L -> zlen L = N -> NodeAt R N l o x ->
  x = mth node_hash (slice L (o * 2 ^ l) (2 ^ l)) \/ collision.
Proof.
  intros ER EN [Hl [Ho H]].
  pose proof (range_hash_splits (fun h : hash => h) node_hash L) as HT.
  assert (H0 : 0 <= 0) by lia. assert (HM : N <= zlen L) by lia.
  destruct (node_in_true_or_collision _ _ _ _ _ _ _ _ HT H H0 HM) as [E|C].
  - unfold range_hash. rewrite map_id. replace (N - 0) with (zlen L) by lia. rewrite slice_all. exact ER.
  - left. rewrite E. unfold range_hash. rewrite map_id. do 2 f_equal. ring.
  - right. exact C.
Qed.

(* ---------------------------------------------------------------- Merkle paths *)

Lemma maxpow2_fst n lv k : 2 <= n <= 2 ^ 63 -> maxpow2 n = (k, lv) -> k = split_point n.
Proof. intros Hn E. rewrite <- (maxpow2_split_point n Hn), E. reflexivity. Qed.

Lemma node_in_path R lo hi l o x :
  node_in R lo hi l o x -> 0 <= l -> 0 <= lo -> hi <= 2 ^ 62 ->
  exists rp, run_subtree_proof_rev node_hash rp lo hi l o x = Ok R.
Proof.
  intros H Hl. pose proof (pow2_pos l Hl) as Hp.
  assert (H63 : 2 ^ 62 <= 2 ^ 63) by (apply pow2_le; lia).
  induction H as [R lo hi l o Hlo Hhi | R lo hi l o x a b H2 HR Hle Hn IH | R lo hi l o x a b H2 HR Hle Hn IH];
    intros H0 HM.
  - exists []. cbn [run_subtree_proof_rev]. subst lo hi.
    rewrite Z.leb_refl, Z.leb_refl, !Z.eqb_refl. reflexivity.
  - pose proof (split_point_bounds (hi - lo) ltac:(lia)) as Hsp.
    destruct (node_in_bounds _ _ _ _ _ _ _ Hn Hl) as [B1 B2].
    destruct (IH Hl Hp ltac:(lia) ltac:(lia)) as [rp Erp].
    exists (b :: rp). cbn [run_subtree_proof_rev].
    destruct (Z.leb_spec lo (o * 2 ^ l)); [|lia]. destruct (Z.leb_spec ((o + 1) * 2 ^ l) hi); [|lia].
    cbn [andb negb]. destruct (Z.eqb_spec hi ((o + 1) * 2 ^ l)); [lia|]. rewrite andb_false_r.
    destruct (maxpow2 (hi - lo)) as [k lv] eqn:Em.
    apply maxpow2_fst in Em; [|lia]. subst k.
    destruct (Z.leb_spec ((o + 1) * 2 ^ l) (lo + split_point (hi - lo))); [|lia].
    rewrite Erp. cbn [bind]. rewrite HR. reflexivity.
  - pose proof (split_point_bounds (hi - lo) ltac:(lia)) as Hsp.
    destruct (node_in_bounds _ _ _ _ _ _ _ Hn Hl) as [B1 B2].
    destruct (IH Hl Hp ltac:(lia) ltac:(lia)) as [rp Erp].
    exists (a :: rp). cbn [run_subtree_proof_rev].
    destruct (Z.leb_spec lo (o * 2 ^ l)); [|lia]. destruct (Z.leb_spec ((o + 1) * 2 ^ l) hi); [|lia].
    cbn [andb negb]. destruct (Z.eqb_spec lo (o * 2 ^ l)); [lia|]. cbn [andb].
    destruct (maxpow2 (hi - lo)) as [k lv] eqn:Em.
    apply maxpow2_fst in Em; [|lia]. subst k.
    destruct (Z.leb_spec ((o + 1) * 2 ^ l) (lo + split_point (hi - lo))); [lia|].
    destruct (Z.leb_spec (lo + split_point (hi - lo)) (o * 2 ^ l)); [|lia].
    rewrite Erp. cbn [bind]. rewrite HR. reflexivity.
Qed.

Lemma path_node_in l o x : 0 <= l ->
  forall rp lo hi R, run_subtree_proof_rev node_hash rp lo hi l o x = Ok R ->
                     0 <= lo -> hi <= 2 ^ 62 -> node_in R lo hi l o x.
Proof.
  intros Hl. pose proof (pow2_pos l Hl) as Hp.
  assert (H63 : 2 ^ 62 <= 2 ^ 63) by (apply pow2_le; lia).
  induction rp as [|last rest IH]; intros lo hi R H H0 HM; cbn [run_subtree_proof_rev] in H.
  - destruct (Z.leb_spec lo (o * 2 ^ l)); [|discriminate]. destruct (Z.leb_spec ((o + 1) * 2 ^ l) hi); [|discriminate].
    cbn [andb negb] in H.
    destruct (Z.eqb_spec lo (o * 2 ^ l)); [|discriminate].
    destruct (Z.eqb_spec hi ((o + 1) * 2 ^ l)); [|discriminate]. cbn [andb] in H.
    injection H as <-. apply ni_here; assumption.
  - destruct (Z.leb_spec lo (o * 2 ^ l)); [|discriminate]. destruct (Z.leb_spec ((o + 1) * 2 ^ l) hi); [|discriminate].
    cbn [andb negb] in H.
    destruct ((lo =? o * 2 ^ l) && (hi =? (o + 1) * 2 ^ l)) eqn:Eh; [discriminate|].
    assert (Hlh : lo + 2 <= hi).
    { apply andb_false_iff in Eh. destruct Eh as [E|E]; apply Z.eqb_neq in E; nia. }
    destruct (maxpow2 (hi - lo)) as [k lv] eqn:Em.
    apply maxpow2_fst in Em; [|lia]. subst k.
    pose proof (split_point_bounds (hi - lo) ltac:(lia)) as Hsp.
    destruct (Z.leb_spec ((o + 1) * 2 ^ l) (lo + split_point (hi - lo))) as [Hle|Hgt].
    + destruct (run_subtree_proof_rev node_hash rest lo (lo + split_point (hi - lo)) l o x) as [th| |] eqn:Er;
        try discriminate.
      cbn [bind] in H. injection H as <-.
      eapply ni_left; [exact Hlh|reflexivity|exact Hle|]. apply IH; [exact Er|lia|lia].
    + destruct (Z.leb_spec (lo + split_point (hi - lo)) (o * 2 ^ l)) as [Hle|]; [|discriminate].
      destruct (run_subtree_proof_rev node_hash rest (lo + split_point (hi - lo)) hi l o x) as [th| |] eqn:Er;
        try discriminate.
      cbn [bind] in H. injection H as <-.
      eapply ni_right; [exact Hlh|reflexivity|exact Hle|]. apply IH; [exact Er|lia|lia].
Qed.

Theorem NodeAt_iff_path R N l o x :
  0 <= l -> 0 <= o -> N <= 2 ^ 62 ->
  (NodeAt R N l o x <-> exists p, run_subtree_proof node_hash p 0 N l o x = Ok R).
Proof.
  intros Hl Ho HN. split.
  - intros [_ [_ H]]. destruct (node_in_path _ _ _ _ _ _ H Hl ltac:(lia) HN) as [rp E].
    exists (rev rp). unfold run_subtree_proof. rewrite rev_involutive. exact E.
  - intros [p E]. split; [exact Hl|]. split; [exact Ho|].
    apply (path_node_in l o x Hl (rev p) 0 N R E ltac:(lia) HN).
Qed.

(* at level 0 the path is a RecordProof *)
Lemma node_in_record_path R lo hi l n x :
  node_in R lo hi l n x -> l = 0 -> 0 <= lo -> hi <= 2 ^ 62 ->
  exists rp, run_record_proof_rev node_hash rp lo hi n x = Ok R.
Proof.
  assert (H63 : 2 ^ 62 <= 2 ^ 63) by (apply pow2_le; lia).
  intros H.
  induction H as [R lo hi l o Hlo Hhi | R lo hi l o x a b H2 HR Hle Hn IH | R lo hi l o x a b H2 HR Hle Hn IH];
    intros El H0 HM; subst l; change (2 ^ 0) with 1 in *.
  - exists []. cbn [run_record_proof_rev].
    destruct (Z.leb_spec lo o); [|lia]. destruct (Z.ltb_spec o hi); [|lia]. cbn [andb negb].
    destruct (Z.eqb_spec (lo + 1) hi); [reflexivity|lia].
  - pose proof (split_point_bounds (hi - lo) ltac:(lia)) as Hsp.
    destruct (node_in_bounds _ _ _ _ _ _ _ Hn ltac:(lia)) as [B1 B2]. change (2 ^ 0) with 1 in *.
    destruct (IH eq_refl ltac:(lia) ltac:(lia)) as [rp Erp].
    exists (b :: rp). cbn [run_record_proof_rev].
    destruct (Z.leb_spec lo o); [|lia]. destruct (Z.ltb_spec o hi); [|lia]. cbn [andb negb].
    destruct (Z.eqb_spec (lo + 1) hi); [lia|].
    destruct (maxpow2 (hi - lo)) as [k lv] eqn:Em.
    apply maxpow2_fst in Em; [|lia]. subst k.
    destruct (Z.ltb_spec o (lo + split_point (hi - lo))); [|lia].
    rewrite Erp. cbn [bind]. rewrite HR. reflexivity.
  - pose proof (split_point_bounds (hi - lo) ltac:(lia)) as Hsp.
    destruct (node_in_bounds _ _ _ _ _ _ _ Hn ltac:(lia)) as [B1 B2]. change (2 ^ 0) with 1 in *.
    destruct (IH eq_refl ltac:(lia) ltac:(lia)) as [rp Erp].
    exists (a :: rp). cbn [run_record_proof_rev].
    destruct (Z.leb_spec lo o); [|lia]. destruct (Z.ltb_spec o hi); [|lia]. cbn [andb negb].
    destruct (Z.eqb_spec (lo + 1) hi); [lia|].
    destruct (maxpow2 (hi - lo)) as [k lv] eqn:Em.
    apply maxpow2_fst in Em; [|lia]. subst k.
    destruct (Z.ltb_spec o (lo + split_point (hi - lo))); [lia|].
    rewrite Erp. cbn [bind]. rewrite HR. reflexivity.
Qed.

(* an authenticated record hash comes with a RecordProof that tlog.CheckRecord accepts *)
Theorem nodeat_record_path R N id x :
  0 <= id < N -> N <= 2 ^ 62 -> NodeAt R N 0 id x ->
  exists p, check_record node_hash p N R id x = Ok tt.
Proof.
  intros Hid HN [_ [_ H]].
  destruct (node_in_record_path _ _ _ _ _ _ H eq_refl ltac:(lia) HN) as [rp E].
  exists (rev rp). unfold check_record, run_record_proof. rewrite rev_involutive, E.
  destruct (Z.ltb_spec N 0); [lia|]. destruct (Z.ltb_spec id 0); [lia|]. destruct (Z.leb_spec N id); [lia|].
  cbn [orb bind]. rewrite str_eqb_refl. reflexivity.
Qed.

End Path.
