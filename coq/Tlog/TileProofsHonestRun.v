(* Tlog/TileProofsHonestRun.v — read_hashes_complete: with honest tiles (TileProofsHonest.v)
   tile_read_hashes returns exactly the true hashes, for every valid height, tree size and
   list of positions; in particular no "bad math" error, no panic, no endless loop. *)
From Verif.Base Require Import Bytes.
From Verif.Tlog Require Import Index Tree Spec6962 ProofsIndex ProofsSpec ProofsTree.
From Verif.Tlog Require Import Tile TileReader TileSpec TileProofs TileProofsMerkle TileProofsArith TileProofsPlan
     TileProofsSound TileProofsExtract TileProofsComplete TileProofsHonest.

(* ---------------------------------------------------------------- parents of phase-2 tiles are planned *)

Lemma tile_parent_compose h N x t0 s e k :
  tile_for_index h x = TOk (t0, s, e) -> 0 <= x < 2 ^ 63 -> 0 <= N -> 0 <= k ->
  tW (tile_parent t0 k N) = 2 ^ tH (tile_parent t0 k N) ->
  tile_parent (tile_parent t0 k N) 1 N = tile_parent t0 (k + 1) N.
Proof.
  intros Htfi Hx HN Hk Hfull.
  destruct (parent_chain_shape h N x t0 s e Htfi Hx HN)
    as [l [o [Hl [Ho [Hidx [Hh [HH0 [HL0 [EL Hchain]]]]]]]]].
  pose proof (Hchain k Hk) as Hk0. pose proof (Hchain (k + 1) ltac:(lia)) as Hk1. cbv zeta in Hk0, Hk1.
  destruct Hk0 as [Hn0 [Hno0 Hyes0]]. destruct Hk1 as [Hn1 [Hno1 Hyes1]].
  set (Lk := tL t0 + k) in *. set (a := o * 2 ^ l) in *.
  set (nk := a / 2 ^ ((Lk + 1) * h)) in *.
  replace (tL t0 + (k + 1)) with (Lk + 1) in * by (unfold Lk; lia).
  pose proof (pow2_pos h ltac:(lia)) as Hph.
  assert (HLk : 0 <= Lk) by (unfold Lk; lia).
  assert (HM : 0 <= (Lk + 1) * h) by nia.
  pose proof (pow2_pos ((Lk + 1) * h) HM) as HpM.
  destruct (Z_le_gt_dec (N / 2 ^ (Lk * h)) (nk * 2 ^ h)) as [Hle|Hgt].
  { rewrite (Hno0 Hle) in Hfull. cbn in Hfull. discriminate. }
  rewrite (Hyes0 ltac:(lia)).
  pose proof (tile_parent_spec (mkTile h Lk nk (Z.min (2 ^ h) (N / 2 ^ (Lk * h) - nk * 2 ^ h))) 1 N) as Hps.
  cbn [tH tL tN] in Hps. specialize (Hps ltac:(lia) ltac:(lia) HLk Hn0 HN). cbv zeta in Hps.
  rewrite Z.mul_1_l in Hps.
  assert (En : nk / 2 ^ h = a / 2 ^ ((Lk + 1 + 1) * h)).
  { unfold nk. rewrite Z.div_div by lia. f_equal.
    replace ((Lk + 1 + 1) * h) with ((Lk + 1) * h + h) by ring. symmetry. apply pow2_mul; lia. }
  rewrite En in Hps. destruct Hps as [Hpno Hpyes].
  destruct (Z_le_gt_dec (N / 2 ^ ((Lk + 1) * h)) (a / 2 ^ ((Lk + 1 + 1) * h) * 2 ^ h)) as [Hle1|Hgt1].
  - rewrite (Hpno Hle1), (Hno1 Hle1). reflexivity.
  - rewrite (Hpyes ltac:(lia)), (Hyes1 ltac:(lia)). reflexivity.
Qed.

Definition parent_known (N : Z) (ord : order) (t : tile) : Prop :=
  lookup (tile_parent t 1 N) ord <> None.

Lemma lookup_cons_keep t p j ord : lookup t ord <> None -> lookup t ((p, j) :: ord) <> None.
Proof. intros H. cbn [lookup]. destruct (tile_eqb t p); [discriminate|exact H]. Qed.

Lemma lookup_cons_same p j ord : lookup p ((p, j) :: ord) <> None.
Proof. cbn [lookup]. rewrite tile_eqb_refl. discriminate. Qed.

Lemma walk_down_parents h N x t0 s e :
  tile_for_index h x = TOk (t0, s, e) -> 0 <= x < 2 ^ 63 -> 0 <= N ->
  forall k ord tiles ito ord' tiles' ito',
    walk_down t0 N k ord tiles ito = TOk (ord', tiles', ito') ->
    (k <> O -> lookup (tile_parent t0 (Z.of_nat k) N) ord <> None) ->
    (forall t, lookup t ord <> None -> lookup t ord' <> None) /\
    exists ext, tiles' = tiles ++ ext /\ Forall (parent_known N ord') ext.
Proof.
  intros Htfi Hx HN. induction k as [|k IH]; intros ord tiles ito ord' tiles' ito' H Hk.
  - cbn in H. injection H as <- <- <-. split; [auto|]. exists []. rewrite app_nil_r. split; [reflexivity|constructor].
  - cbn [walk_down] in H. set (p := tile_parent t0 (Z.of_nat k) N) in *.
    destruct (Z.eqb_spec (tW p) (2 ^ tH p)) as [Hw|]; [|discriminate]. cbn [negb] in H.
    destruct (IH _ _ _ _ _ _ H ltac:(intros _; apply lookup_cons_same)) as [Hmono [ext [Hext Hpk]]].
    split; [intros t Ht; apply Hmono, lookup_cons_keep, Ht|].
    exists (p :: ext). split; [rewrite Hext, <- app_assoc; reflexivity|].
    constructor; [|exact Hpk].
    unfold parent_known. apply Hmono, lookup_cons_keep.
    unfold p. rewrite (tile_parent_compose h N x t0 s e (Z.of_nat k) Htfi Hx HN ltac:(lia) Hw).
    replace (Z.of_nat k + 1) with (Z.of_nat (S k)) by lia. apply Hk. discriminate.
Qed.

Lemma plan_indexes_parents h N : 0 <= N <= 2 ^ 62 ->
  forall ixs ord tiles ord' tiles' js,
    plan_indexes h N ixs ord tiles = TOk (ord', tiles', js) ->
    (forall t, lookup t ord <> None -> lookup t ord' <> None) /\
    exists ext, tiles' = tiles ++ ext /\ Forall (parent_known N ord') ext.
Proof.
  intros HN. induction ixs as [|x r IH]; intros ord tiles ord' tiles' js H.
  - cbn in H. injection H as <- <- <-. split; [auto|]. exists []. rewrite app_nil_r. split; [reflexivity|constructor].
  - cbn [plan_indexes] in H.
    destruct (Z.leb_spec (stored_hash_index 0 N) x) as [|Hx]; [discriminate|].
    apply tbind_ok in H. destruct H as [[[t0 s] e] [Htfi H]]. cbn [fst snd] in H.
    destruct (find_parent find_fuel t0 0 N ord) as [[k j]|] eqn:Ef; [|discriminate].
    apply tbind_ok in H. destruct H as [[[o1 t1] i1] [Hw H]]. cbn [fst snd] in H.
    apply tbind_ok in H. destruct H as [[[o2 t2] j2] [Hrec H]]. cbn [fst snd] in H.
    injection H as <- <- <-.
    assert (Hx0 : 0 <= x).
    { destruct (Z_lt_le_dec x 0) as [Hneg|]; [rewrite tile_for_index_neg in Htfi by exact Hneg; discriminate|assumption]. }
    pose proof (shi0_bound' N x HN Hx) as Hx63.
    apply find_parent_spec in Ef.
    destruct (walk_down_parents h N x t0 s e Htfi ltac:(lia) ltac:(lia) _ _ _ _ _ _ _ Hw
                ltac:(intros _; rewrite Ef; discriminate)) as [Hm1 [ext1 [Hext1 Hp1]]].
    destruct (IH _ _ _ _ _ Hrec) as [Hm2 [ext2 [Hext2 Hp2]]].
    split; [intros t Ht; apply Hm2, Hm1, Ht|].
    exists (ext1 ++ ext2). split; [rewrite Hext2, Hext1, <- app_assoc; reflexivity|].
    apply Forall_app. split; [|exact Hp2].
    revert Hp1. apply Forall_impl. intros t Ht. apply Hm2, Ht.
Qed.

Lemma in_skipn_combine_seq {A} : forall (l : list A) k st i t,
  In (i, t) (skipn k (combine (seq st (length l)) l)) ->
  (st + k <= i)%nat /\ nth_error l (i - st) = Some t.
Proof.
  induction l as [|a l IH]; intros k st i t H.
  - cbn in H. rewrite skipn_nil in H. destruct H.
  - cbn [length seq combine] in H. destruct k as [|k].
    + cbn [skipn] in H. destruct H as [E|H].
      * injection E as <- <-. split; [lia|]. rewrite Nat.sub_diag. reflexivity.
      * destruct (IH O (S st) i t H) as [H1 H2]. split; [lia|].
        replace (i - st)%nat with (S (i - S st)) by lia. exact H2.
    + cbn [skipn] in H. destruct (IH k (S st) i t H) as [H1 H2]. split; [lia|].
      replace (i - st)%nat with (S (i - S st)) by lia. exact H2.
Qed.

Lemma app_eq_len {A} : forall (a c b d : list A), a ++ b = c ++ d -> length a = length c -> a = c /\ b = d.
Proof.
  induction a as [|x a IH]; intros [|y c] b d H Hl; try discriminate.
  - split; [reflexivity|exact H].
  - cbn in H. injection H as <- H. cbn in Hl. destruct (IH c b d H ltac:(lia)) as [-> ->]. split; reflexivity.
Qed.

Lemma make_plan_parents N h ix p :
  0 <= N <= 2 ^ 62 -> make_plan N h ix = TOk p ->
  exists tiles1 ext2, p_tiles p = tiles1 ++ ext2 /\ p_nstx p = length tiles1 /\
                      Forall (parent_known N (p_order p)) ext2.
Proof.
  intros HN H. unfold make_plan in H.
  apply tbind_ok in H. destruct H as [stx [Estx H]].
  apply tbind_ok in H. destruct H as [[[ord1 tiles1] sto] [E1 H]]. cbn [fst snd] in H.
  apply tbind_ok in H. destruct H as [[[ord2 tiles2] ito] [E2 H]]. cbn [fst snd] in H.
  injection H as <-. cbn [p_tiles p_nstx p_order].
  destruct (plan_indexes_parents h N HN _ _ _ _ _ _ E2) as [_ [ext [Eext Hpar]]].
  exists tiles1, ext. auto.
Qed.

(* ---------------------------------------------------------------- the run with honest tiles *)

Section Run.
Variable node_hash : hash -> hash -> hash.
Variable T : Z -> Z -> hash.
Variable N : Z.
Hypothesis HT : T_splits node_hash T N.
Hypothesis HT32 : forall lo hi, length (T lo hi) = 32%nat.
Hypothesis HN : 0 < N <= 2 ^ 62.
Variable h : Z.
Hypothesis Hh : 1 <= h <= 30.
Notation honest_tile := (honest_tile T).
Notation hash_from_tile := (hash_from_tile node_hash).

Let HN' : 0 <= N <= 2 ^ 62. Proof. lia. Qed.

(* the true hash stored at position x *)
Definition true_hash (x : Z) : hash :=
  match split_stored_hash_index x with
  | Ok (l, o) => T (o * 2 ^ l) ((o + 1) * 2 ^ l)
  | _ => []
  end.

Lemma hash_at_honest tiles x j t0 s e :
  x < stored_hash_index 0 N -> tile_for_index h x = TOk (t0, s, e) ->
  nth_error tiles j = Some (tile_parent t0 0 N) ->
  hash_at node_hash tiles (map honest_tile tiles) j x = TOk (true_hash x).
Proof.
  intros Hx Htfi Hj. unfold hash_at. rewrite Hj, nth_error_map, Hj. cbn [option_map].
  destruct (hash_from_honest_tile node_hash T N HT HT32 HN' h x t0 s e Hh Hx Htfi)
    as [l [o [Hs [_ [_ [_ E]]]]]].
  rewrite E. unfold true_hash. rewrite Hs. reflexivity.
Qed.

Lemma check_lengths_honest : forall tiles,
  Forall (fun t => 0 <= tW t) tiles -> check_lengths tiles (map honest_tile tiles) = true.
Proof.
  induction 1 as [|t tiles Ht HF IH]; [reflexivity|].
  cbn [map check_lengths]. rewrite (honest_len T HT32 t Ht), Z.eqb_refl, IH. reflexivity.
Qed.

Lemma stx_hashes_ok tiles data : forall l hs,
  Forall2 (fun jx hh => hash_at node_hash tiles data (fst jx) (snd jx) = TOk hh) l hs ->
  stx_hashes node_hash tiles data l = TOk hs.
Proof.
  induction 1 as [|[j x] hh l hs Hjx HF IH]; [reflexivity|].
  cbn [stx_hashes fst snd] in *. rewrite Hjx, IH. reflexivity.
Qed.

Lemma extract_honest tiles : forall ixs js,
  Forall2 (index_at h N tiles) ixs js ->
  extract node_hash tiles (map honest_tile tiles) (combine ixs js) = TOk (map true_hash ixs).
Proof.
  induction 1 as [|x j ixs js Hxj HF IH]; [reflexivity|].
  destruct Hxj as [Hx [t0 [s [e [Htfi Hnth]]]]].
  cbn [combine extract map]. rewrite (hash_at_honest tiles x j t0 s e Hx Htfi Hnth), IH. reflexivity.
Qed.

(* one step of the loop that authenticates tiles against their parents *)
Lemma auth_rest_step tiles ord t :
  ord_ok ord tiles -> phase2_tile h N t -> parent_known N ord t ->
  exists j hh,
    lookup (tile_parent t 1 N) ord = Some j /\
    nth_error (map honest_tile tiles) j = Some (honest_tile (tile_parent t 1 N)) /\
    hash_from_tile (tile_parent t 1 N) (honest_tile (tile_parent t 1 N))
                   (stored_hash_index (tL (tile_parent t 1 N) * tH (tile_parent t 1 N)) (tN t)) = TOk hh /\
    tile_hash node_hash (honest_tile t) = TOk hh.
Proof.
  intros Hord [x [t0 [s [e [Hx [Htfi [Hfullw [k Ek]]]]]]]] Hpk.
  assert (Hx0 : 0 <= x).
  { destruct (Z_lt_le_dec x 0) as [Hneg|]; [rewrite tile_for_index_neg in Htfi by exact Hneg; discriminate|assumption]. }
  pose proof (shi0_bound' N x HN' Hx) as Hx63.
  destruct (parent_chain_shape h N x t0 s e Htfi ltac:(lia) ltac:(lia))
    as [l [o [Hl [Ho [Hidx [_ [HH0 [HL0 [EL Hchain]]]]]]]]].
  specialize (Hchain (Z.of_nat k) ltac:(lia)). cbv zeta in Hchain. destruct Hchain as [Hnt0 [Hno Hyes]].
  set (Lv := tL t0 + Z.of_nat k) in *.
  set (nt := o * 2 ^ l / 2 ^ ((Lv + 1) * h)) in *.
  pose proof (pow2_pos h ltac:(lia)) as Hph.
  assert (HLv : 0 <= Lv) by (unfold Lv; lia).
  assert (HLvh : 0 <= Lv * h) by (apply Z.mul_nonneg_nonneg; lia).
  pose proof (pow2_pos (Lv * h) HLvh) as HpLv.
  (* t is the full tile (h, Lv, nt) *)
  assert (Hform : t = mkTile h Lv nt (2 ^ h) /\ (nt + 1) * 2 ^ h <= N / 2 ^ (Lv * h)).
  { destruct (Z_le_gt_dec (N / 2 ^ (Lv * h)) (nt * 2 ^ h)) as [Hle|Hgt].
    - rewrite <- Ek in Hno. rewrite (Hno Hle) in Hfullw. cbn in Hfullw. discriminate.
    - rewrite <- Ek in Hyes. specialize (Hyes ltac:(lia)). rewrite Hyes in Hfullw. cbn [tW tH] in Hfullw.
      split; [rewrite Hyes; f_equal; lia|lia]. }
  destruct Hform as [Et Hroom]. clear Hno Hyes.
  assert (Hroom2 : (nt + 1) * 2 ^ ((Lv + 1) * h) <= N).
  { replace ((Lv + 1) * h) with (Lv * h + h) by ring. rewrite pow2_mul by lia.
    pose proof (Z.mul_div_le N (2 ^ (Lv * h)) HpLv). nia. }
  assert (HM0 : 0 <= (Lv + 1) * h) by nia.
  pose proof (pow2_pos ((Lv + 1) * h) HM0) as HpM.
  (* the position of t's hash in its parent *)
  set (x' := stored_hash_index ((Lv + 1) * h) nt).
  destruct (no_overflow_index ((Lv + 1) * h) nt HM0 Hnt0 ltac:(lia)) as [[Hx'0 Hx'63] _]. fold x' in Hx'0, Hx'63.
  assert (Hx'lt : x' < stored_hash_index 0 N).
  { unfold x'. apply (index_lt_count ((Lv + 1) * h) nt N); lia. }
  destruct (tile_for_index_ok h x' ltac:(lia) ltac:(lia)) as [t0' [s' [e' Htfi']]].
  (* the parent is x''s tile *)
  set (p := tile_parent t 1 N) in *.
  assert (Ep : p = tile_parent t0' 0 N /\ tL p = Lv + 1 /\ tH p = h).
  { destruct (parent_chain_shape h N x' t0' s' e' Htfi' ltac:(lia) ltac:(lia))
      as [l2 [o2 [Hl2 [Ho2 [Hidx2 [_ [HH0' [HL0' [EL2 Hchain2]]]]]]]]].
    assert (Hsp : split_stored_hash_index x' = Ok ((Lv + 1) * h, nt)) by (apply split_index; lia).
    assert (Hsp2 : split_stored_hash_index (stored_hash_index l2 o2) = Ok (l2, o2)) by (apply split_index; lia).
    rewrite Hidx2, Hsp in Hsp2. injection Hsp2 as <- <-.
    specialize (Hchain2 0 ltac:(lia)). cbv zeta in Hchain2. rewrite Z.add_0_r in Hchain2.
    rewrite EL2, Z.div_mul in Hchain2 by lia.
    assert (En : nt * 2 ^ ((Lv + 1) * h) / 2 ^ ((Lv + 1 + 1) * h) = nt / 2 ^ h).
    { replace ((Lv + 1 + 1) * h) with (h + (Lv + 1) * h) by ring. rewrite pow2_mul by lia.
      apply Z.div_mul_cancel_r; lia. }
    rewrite En in Hchain2. destruct Hchain2 as [_ [_ Hyes2]].
    pose proof (tile_parent_spec t 1 N) as Hps. rewrite Et in Hps. cbn [tH tL tN] in Hps.
    specialize (Hps ltac:(lia) ltac:(lia) HLv Hnt0 ltac:(lia)). cbv zeta in Hps.
    rewrite Z.mul_1_l in Hps. destruct Hps as [_ Hpyes].
    assert (Hgt : nt / 2 ^ h * 2 ^ h < N / 2 ^ ((Lv + 1) * h)).
    { assert (nt + 1 <= N / 2 ^ ((Lv + 1) * h)) by (apply Z.div_le_lower_bound; lia).
      pose proof (Z.mul_div_le nt (2 ^ h) Hph). lia. }
    rewrite <- Et in Hpyes. fold p in Hpyes.
    rewrite (Hpyes Hgt), (Hyes2 Hgt). cbn [tL tH]. repeat split; reflexivity. }
  destruct Ep as [Ep [EpL EpH]].
  unfold parent_known in Hpk. fold p in Hpk.
  destruct (lookup p ord) as [j|] eqn:Elk; [|congruence].
  exists j.
  destruct (hash_from_honest_tile node_hash T N HT HT32 HN' h x' t0' s' e' Hh Hx'lt Htfi')
    as [l3 [o3 [Hs3 [_ [_ [_ E3]]]]]].
  assert (Hsp : split_stored_hash_index x' = Ok ((Lv + 1) * h, nt)) by (apply split_index; lia).
  rewrite Hsp in Hs3. injection Hs3 as <- <-.
  rewrite <- Ep in E3.
  eexists. split; [reflexivity|]. split.
  { apply lookup_in in Elk. apply Hord in Elk. rewrite nth_error_map, Elk. reflexivity. }
  split.
  { rewrite EpL, EpH. replace (tN t) with nt by (rewrite Et; reflexivity). exact E3. }
  (* the tile's own hash *)
  set (hn := Z.to_nat h).
  assert (Hp2 : Z.of_nat (2 ^ hn) = 2 ^ h) by (rewrite pow2_nat_Z; unfold hn; rewrite Z2Nat.id by lia; reflexivity).
  assert (Hw : Z.to_nat (tW t) = (2 ^ hn)%nat) by (rewrite Et; cbn [tW]; lia).
  assert (Hlen : length (honest_tile t) = (32 * 2 ^ hn)%nat).
  { pose proof (honest_len T HT32 t ltac:(rewrite Et; cbn [tW]; lia)) as Hl0. unfold len in Hl0.
    rewrite Et in Hl0 at 2. cbn [tW] in Hl0. lia. }
  rewrite (tile_hash_spec node_hash hn _ Hlen). f_equal.
  unfold TileProofsHonest.honest_tile. rewrite Hw.
  replace (tL t * tH t) with (Lv * h) by (rewrite Et; reflexivity).
  replace (tN t * 2 ^ tH t) with (nt * 2 ^ h) by (rewrite Et; reflexivity).
  rewrite (mtree_honest node_hash T N HT HT32 HN' (Lv * h) (nt * 2 ^ h) HLvh ltac:(nia) hn O).
  - change (Z.of_nat 0) with 0. replace (Z.of_nat hn) with h by (unfold hn; lia).
    replace ((Lv + 1) * h) with (h + Lv * h) by ring. rewrite pow2_mul by lia. f_equal; ring.
  - change (Z.of_nat 0) with 0. replace (Z.of_nat hn) with h by (unfold hn; lia).
    replace ((Lv + 1) * h) with (h + Lv * h) in Hroom2 by ring. rewrite pow2_mul in Hroom2 by lia. nia.
Qed.

Lemma auth_rest_honest tiles ord : forall rest,
  ord_ok ord tiles ->
  Forall (fun it => nth_error tiles (fst it) = Some (snd it) /\ phase2_tile h N (snd it) /\
                    parent_known N ord (snd it)) rest ->
  auth_rest node_hash N ord tiles (map honest_tile tiles) rest = TOk tt.
Proof.
  intros rest Hord. induction 1 as [|[i t] rest [Hi [Hp2 Hpk]] HF IH]; [reflexivity|].
  cbn [fst snd] in *. cbn [auth_rest].
  destruct (auth_rest_step tiles ord t Hord Hp2 Hpk) as [j [hh [Elk [Edj [Ehp Eth]]]]].
  rewrite Elk, Edj, Ehp. rewrite nth_error_map, Hi. cbn [option_map]. rewrite Eth. cbn [tbind].
  rewrite str_eqb_refl. exact IH.
Qed.

Theorem read_hashes_complete ix :
  Forall (fun x => 0 <= x < stored_hash_index 0 N) ix ->
  exists sv, tile_read_hashes node_hash (N, T 0 N) h ix (honest_rt T) = (TOk (map true_hash ix), Some sv).
Proof.
  intros Hix. unfold tile_read_hashes. cbn [fst snd].
  destruct (Z.ltb_spec h 1); [lia|]. destruct (Z.ltb_spec 62 h); [lia|]. cbn [orb].
  destruct (make_plan_ok N h ix ltac:(lia) HN' Hix) as [p Ep]. rewrite Ep.
  unfold honest_rt. unfold check_and_extract. cbn [fst snd].
  rewrite map_length, Nat.eqb_refl. cbn [negb].
  destruct (make_plan_spec N h ix p HN' Ep)
    as [bs [tiles1 [ext2 [ord1 [HB [Estx [Etiles [Enstx [Hfull1 [Hsto [Hcov [Hok2 [Hp2 Hixs]]]]]]]]]]]]].
  (* every planned tile has a non-negative width *)
  assert (HW : Forall (fun t => 0 <= tW t) (p_tiles p)).
  { rewrite Etiles. apply Forall_app. split.
    - apply Forall_forall. intros t Hin. destruct (In_nth_error _ _ Hin) as [q Hq].
      assert (Hql : (q < length tiles1)%nat) by (apply nth_error_Some; congruence).
      destruct (In_nth_error _ _ (Hcov q Hql)) as [i Hi].
      assert (Hil : (i < length (p_stx p))%nat).
      { rewrite (Forall2_length' _ _ _ Hsto). apply nth_error_Some. congruence. }
      destruct (nth_error (p_stx p) i) as [x|] eqn:Ex; [|apply nth_error_None in Ex; lia].
      destruct (Forall2_nth _ _ _ _ _ Hsto Ex) as [q' [Hq' [t' [[t0 [s [e [Htfi Et']]]] Hnth]]]].
      rewrite Hi in Hq'. injection Hq' as <-. rewrite Hq in Hnth. injection Hnth as <-.
      assert (Hxb : 0 <= x < 2 ^ 63).
      { rewrite Estx in Ex. unfold sub_tree_indexes in Ex. rewrite nth_error_map in Ex.
        destruct (nth_error bs i) as [[lv lo]|] eqn:Eb; [|discriminate]. cbn [option_map fst snd] in Ex.
        injection Ex as <-. destruct (Blocks_member _ _ _ _ _ HB (nth_error_In _ _ Eb)) as [Hlv [Hlo0 [Htop [c Hc]]]].
        pose proof (pow2_pos lv Hlv) as Hplv.
        assert (Hshr : Z.shiftr lo lv = c) by (rewrite shr_div by lia; subst lo; apply Z.div_mul; lia).
        rewrite Hshr. apply no_overflow_index; try lia; nia. }
      destruct (tile_for_index_spec _ _ _ _ _ Htfi Hxb) as [l [o [j [n' [_ [_ [_ [_ [_ [HH0 [HL0 [_ [_ [HN0 _]]]]]]]]]]]]]].
      pose proof (tile_parent_spec t0 0 N ltac:(lia) ltac:(lia) HL0 HN0 ltac:(lia)) as Hps. cbv zeta in Hps.
      destruct Hps as [Hno Hyes]. rewrite Et'.
      destruct (Z_le_gt_dec (N / 2 ^ ((tL t0 + 0) * tH t0)) (tN t0 / 2 ^ (0 * tH t0) * 2 ^ tH t0)) as [Hle|Hgt].
      + rewrite (Hno Hle). cbn. lia.
      + rewrite (Hyes ltac:(lia)). cbn [tW]. pose proof (pow2_pos (tH t0) ltac:(lia)). lia.
    - revert Hp2. apply Forall_impl. intros t [x [t0 [s [e [_ [_ [Hw _]]]]]]].
      rewrite Hw. apply Z.pow_nonneg. lia. }
  rewrite (check_lengths_honest _ HW). cbn [negb].
  (* the tree-hash tiles *)
  assert (Ha : auth_stx node_hash p (map honest_tile (p_tiles p)) (T 0 N) = TOk tt).
  { unfold auth_stx.
    assert (HF : Forall2 (fun jx hh => hash_at node_hash (p_tiles p) (map honest_tile (p_tiles p)) (fst jx) (snd jx) = TOk hh)
                         (combine (p_stx_order p) (p_stx p)) (map (block_hash T) bs)).
    { apply Forall2_of_nth.
      - rewrite combine_length, map_length, <- (Forall2_length' _ _ _ Hsto), Estx.
        unfold sub_tree_indexes. rewrite map_length. lia.
      - intros i [q x] hh Hqx Hhh. cbn [fst snd].
        rewrite nth_error_map in Hhh. destruct (nth_error bs i) as [[lv lo]|] eqn:Eb; [|discriminate].
        cbn [option_map] in Hhh. injection Hhh as <-.
        assert (Ex : nth_error (p_stx p) i = Some (stored_hash_index lv (Z.shiftr lo lv))).
        { rewrite Estx. unfold sub_tree_indexes. rewrite nth_error_map, Eb. reflexivity. }
        destruct (Forall2_nth _ _ _ _ _ Hsto Ex) as [q' [Hq' [t' [[t0 [s [e [Htfi Et']]]] Hnth]]]].
        assert (Hcomb := nth_error_combine _ _ _ _ _ Hq' Ex). rewrite Hqx in Hcomb. injection Hcomb as -> ->.
        destruct (Blocks_member _ _ _ _ _ HB (nth_error_In _ _ Eb)) as [Hlv [Hlo0 [Htop [c Hc]]]].
        pose proof (pow2_pos lv Hlv).
        assert (Hshr : Z.shiftr lo lv = c) by (rewrite shr_div by lia; subst lo; apply Z.div_mul; lia).
        rewrite Hshr in *.
        assert (Hc0 : 0 <= c) by nia.
        destruct (no_overflow_index lv c Hlv Hc0 ltac:(nia)) as [[Hx0 Hx63] _].
        assert (Hxlt : stored_hash_index lv c < stored_hash_index 0 N) by (apply (index_lt_count lv c N); lia).
        rewrite (hash_at_honest (p_tiles p) _ q' t0 s e Hxlt Htfi).
        + unfold true_hash. rewrite (split_index lv c Hlv Hc0 Hx63). unfold block_hash. cbn [fst snd].
          subst lo. f_equal. f_equal; ring.
        + rewrite Etiles, nth_error_app1 by (apply nth_error_Some; congruence). subst t'. exact Hnth. }
    apply Forall2_rev in HF. rewrite (stx_hashes_ok _ _ _ _ HF). cbn [tbind].
    rewrite fold_rev_rev.
    rewrite (blocks_fold node_hash T N HT 0 N bs HB ltac:(lia) ltac:(lia) ltac:(lia)).
    rewrite str_eqb_refl. reflexivity. }
  rewrite Ha.
  (* the other tiles *)
  assert (Hr : auth_rest node_hash N (p_order p) (p_tiles p) (map honest_tile (p_tiles p))
                 (skipn (p_nstx p) (combine (seq 0 (length (p_tiles p))) (p_tiles p))) = TOk tt).
  { apply auth_rest_honest; [exact Hok2|].
    destruct (make_plan_parents N h ix p HN' Ep) as [tiles1' [ext2' [Et' [En' Hpar]]]].
    assert (Hsame : tiles1' = tiles1 /\ ext2' = ext2).
    { apply app_eq_len; [rewrite <- Et', <- Etiles; reflexivity|lia]. }
    destruct Hsame as [-> ->].
    apply Forall_forall. intros [i t] Hin. cbn [fst snd].
    apply in_skipn_combine_seq in Hin. destruct Hin as [Hge Hnth]. rewrite Nat.sub_0_r in Hnth.
    split; [exact Hnth|].
    assert (Hin2 : In t ext2).
    { rewrite Etiles, nth_error_app2 in Hnth by lia. eapply nth_error_In. exact Hnth. }
    rewrite Forall_forall in Hp2, Hpar. split; [apply Hp2|apply Hpar]; exact Hin2. }
  rewrite Hr.
  eexists. f_equal. apply extract_honest. exact Hixs.
Qed.

End Run.
