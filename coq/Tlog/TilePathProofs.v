(* Tlog/TilePathProofs.v — structure of the string Tile.Path generates: the '/'-separated fields
   of tile_path t, the x-prefixed base-1000 groups of the tile number, and the value
   ParseTilePath's accumulator computes from them.  Used by TilePathProofsBij.v. *)
From Verif.Base Require Import Bytes Strconv StrconvProofs.
From Verif.Tlog Require Import Index Tree Tile TileSpec TileProofs.

(* ---------------------------------------------------------------- splitting at '/' *)

Definition no47 (s : str) : Prop := Forall (fun c => c <> 47) s.

Lemma split_on_no47 s : no47 s -> split_on 47 s = [s].
Proof.
  induction 1 as [|c s Hc Hs IH]; [reflexivity|].
  cbn [split_on]. destruct (Z.eqb_spec c 47) as [|_]; [contradiction|]. rewrite IH. reflexivity.
Qed.

Lemma split_on_app s t : no47 s -> split_on 47 (s ++ 47 :: t) = s :: split_on 47 t.
Proof.
  induction 1 as [|c s Hc Hs IH]; [reflexivity|].
  cbn [app split_on]. destruct (Z.eqb_spec c 47) as [|_]; [contradiction|]. rewrite IH. reflexivity.
Qed.

Lemma no47_app a b : no47 a -> no47 b -> no47 (a ++ b).
Proof. intros Ha Hb. apply Forall_app. split; assumption. Qed.

Lemma digits_no47 s : all_digits s -> no47 s.
Proof.
  apply Forall_impl. intros c Hc. apply is_digit_range in Hc. lia.
Qed.

Lemma format_int_no47 n : no47 (format_int n).
Proof.
  destruct (format_int_shape n) as [ds [E [Hd _]]]. rewrite E.
  apply no47_app; [|apply digits_no47; exact Hd].
  destruct (n <? 0); [constructor; [lia|constructor]|constructor].
Qed.

(* ---------------------------------------------------------------- the suffix ".p" *)

Lemma B_dotp : B ".p" = [46; 112].
Proof. reflexivity. Qed.

Lemma has_suffix_dotp_last s c : c <> 112 -> has_suffix (s ++ [c]) (B ".p") = false.
Proof.
  intros Hc. unfold has_suffix. rewrite rev_app_distr, B_dotp. cbn [rev app has_prefix].
  destruct (Z.eqb_spec 112 c); [congruence|reflexivity].
Qed.

Lemma has_suffix_dotp_digits pre ds :
  all_digits ds -> ds <> [] -> has_suffix (pre ++ ds) (B ".p") = false.
Proof.
  intros Hd Hne. destruct (exists_last Hne) as [ds' [c ->]].
  rewrite app_assoc. apply has_suffix_dotp_last.
  apply Forall_app in Hd. destruct Hd as [_ Hc]. inversion_clear Hc as [|? ? Hc' _].
  apply is_digit_range in Hc'. lia.
Qed.

Lemma has_suffix_dotp_app g : has_suffix (g ++ B ".p") (B ".p") = true.
Proof.
  unfold has_suffix. rewrite rev_app_distr, B_dotp. cbn [rev app has_prefix].
  destruct (rev g); reflexivity.
Qed.

Lemma strip_dot_p_app g : strip_dot_p (g ++ B ".p") = g.
Proof.
  unfold strip_dot_p. rewrite app_length, B_dotp. cbn [length].
  replace (length g + 2 - 2)%nat with (length g) by lia.
  rewrite firstn_app, Nat.sub_diag, firstn_all. cbn [firstn]. apply app_nil_r.
Qed.

Lemma format_int_not_dotp n : has_suffix (format_int n) (B ".p") = false.
Proof.
  destruct (format_int_shape n) as [ds [E [Hd [Hne _]]]]. rewrite E.
  apply has_suffix_dotp_digits; assumption.
Qed.

(* ---------------------------------------------------------------- %03d on 0..999 *)

Definition g_ok (d : Z) : bool :=
  let g := fmt03 d in
  Nat.eqb (length g) 3 && forallb is_digit g &&
  match atoi g with Some v => v =? d | None => false end.

Lemma in_zrange a b x : a <= x < b -> In x (zrange a b).
Proof.
  intros H. unfold zrange. apply in_map_iff. exists (Z.to_nat (x - a)). split; [lia|].
  apply in_seq. lia.
Qed.

Lemma g_ok_all : forallb g_ok (zrange 0 1000) = true.
Proof. vm_compute. reflexivity. Qed.

Lemma fmt03_spec d : 0 <= d < 1000 ->
  length (fmt03 d) = 3%nat /\ all_digits (fmt03 d) /\ atoi (fmt03 d) = Some d.
Proof.
  intros Hd. pose proof g_ok_all as H. rewrite forallb_forall in H.
  specialize (H d (in_zrange 0 1000 d Hd)). unfold g_ok in H. cbv zeta in H.
  apply andb_true_iff in H. destruct H as [H H3]. apply andb_true_iff in H. destruct H as [H1 H2].
  apply Nat.eqb_eq in H1. split; [exact H1|]. split.
  - apply Forall_forall. rewrite forallb_forall in H2. exact H2.
  - destruct (atoi (fmt03 d)) as [v|]; [|discriminate]. apply Z.eqb_eq in H3. congruence.
Qed.

(* negative remainders: "-dd" or "-ddd", never a '/' *)
Lemma fmt03_neg_no47_all :
  forallb (fun k => forallb (fun c => negb (c =? 47)) (fmt03 k)) (zrange (-999) 1) = true.
Proof. vm_compute. reflexivity. Qed.

Lemma fmt03_small_no47 k : -1000 < k < 1000 -> no47 (fmt03 k).
Proof.
  intros Hk. destruct (Z_lt_le_dec k 1) as [Hneg|Hpos].
  - pose proof fmt03_neg_no47_all as H. rewrite forallb_forall in H.
    specialize (H k (in_zrange (-999) 1 k ltac:(lia))). rewrite forallb_forall in H.
    apply Forall_forall. intros c Hc. specialize (H c Hc).
    destruct (Z.eqb_spec c 47); [discriminate|assumption].
  - apply digits_no47. apply (fmt03_spec k). lia.
Qed.

(* ---------------------------------------------------------------- the groups xNNN/ *)

Definition xg (d : Z) : str := 120 :: fmt03 d.

Fixpoint xgroups (ds : list Z) : str :=
  match ds with
  | [] => []
  | d :: r => xg d ++ 47 :: xgroups r
  end.

(* the accumulator of ParseTilePath without the int64 wrap *)
Fixpoint gval (ds : list Z) (a : Z) : Z :=
  match ds with
  | [] => a
  | d :: r => gval r (a * 1000 + d)
  end.

Definition in_group (d : Z) : Prop := 0 <= d < 1000.

Lemma xgroups_app a b : xgroups (a ++ b) = xgroups a ++ xgroups b.
Proof.
  induction a as [|d a IH]; [reflexivity|]. cbn [app xgroups]. rewrite IH.
  rewrite <- !app_assoc. reflexivity.
Qed.

Lemma gval_app ds d a : gval (ds ++ [d]) a = gval ds a * 1000 + d.
Proof. revert a. induction ds as [|x ds IH]; intros a; cbn [app gval]; [reflexivity|apply IH]. Qed.

Lemma gval_ge ds : Forall in_group ds -> forall a, 0 <= a -> a <= gval ds a.
Proof.
  induction 1 as [|d ds Hd _ IH]; intros a Ha; cbn [gval]; [lia|].
  unfold in_group in Hd. specialize (IH (a * 1000 + d) ltac:(lia)). lia.
Qed.

Lemma xg_no47 d : in_group d -> no47 (xg d).
Proof.
  intros Hd. constructor; [lia|]. apply digits_no47. apply (fmt03_spec d Hd).
Qed.

Lemma xg_not_dotp d : in_group d -> has_suffix (xg d) (B ".p") = false.
Proof.
  intros Hd. destruct (fmt03_spec d Hd) as [Hl [Hdg _]].
  change (xg d) with ([120] ++ fmt03 d). apply has_suffix_dotp_digits; [exact Hdg|].
  destruct (fmt03 d); [discriminate|discriminate].
Qed.

Lemma fmt03_not_dotp d : in_group d -> has_suffix (fmt03 d) (B ".p") = false.
Proof.
  intros Hd. destruct (fmt03_spec d Hd) as [Hl [Hdg _]].
  change (fmt03 d) with ([] ++ fmt03 d). apply has_suffix_dotp_digits; [exact Hdg|].
  destruct (fmt03 d); [discriminate|discriminate].
Qed.

Lemma trim_x_digits s : all_digits s -> trim_x s = s.
Proof.
  intros H. destruct s as [|c r]; [reflexivity|]. inversion_clear H as [|? ? Hc _].
  apply is_digit_range in Hc. unfold trim_x.
  destruct c as [|p|p]; try reflexivity.
  repeat (destruct p as [p|p|]; try reflexivity); lia.
Qed.

Lemma atoi_xg d : in_group d -> atoi (trim_x (xg d)) = Some d.
Proof. intros Hd. cbn [xg trim_x]. apply (fmt03_spec d Hd). Qed.

Lemma atoi_fmt03 d : in_group d -> atoi (trim_x (fmt03 d)) = Some d.
Proof.
  intros Hd. destruct (fmt03_spec d Hd) as [_ [Hdg Ha]]. rewrite trim_x_digits by exact Hdg. exact Ha.
Qed.

(* the fields of  xNNN/xNNN/…/rest *)
Lemma split_xgroups ds rest :
  Forall in_group ds -> split_on 47 (xgroups ds ++ rest) = map xg ds ++ split_on 47 rest.
Proof.
  induction 1 as [|d ds Hd _ IH]; [reflexivity|].
  cbn [xgroups map app]. rewrite <- app_assoc. cbn [app].
  rewrite split_on_app by (apply xg_no47; exact Hd). rewrite IH. reflexivity.
Qed.

Lemma wrap64_small z : - 2 ^ 63 <= z < 2 ^ 63 -> wrap64 z = z.
Proof.
  intros H. unfold wrap64. rewrite Z.mod_small; [lia|].
  assert (2 ^ 64 = 2 * 2 ^ 63) by reflexivity. lia.
Qed.

(* the accumulator loop over the x-groups *)
Lemma parse_n_groups ds : Forall in_group ds -> forall rest a,
  0 <= a -> gval ds a < 2 ^ 63 ->
  parse_n (map xg ds ++ rest) a = parse_n rest (gval ds a).
Proof.
  induction 1 as [|d ds Hd Hds IH]; intros rest a Ha Hv; [reflexivity|].
  cbn [map app parse_n gval] in *. rewrite (atoi_xg d Hd).
  pose proof Hd as Hd'. unfold in_group in Hd'.
  destruct (Z.ltb_spec d 0); [lia|]. destruct (Z.leb_spec 1000 d); [lia|]. cbn [orb].
  pose proof (gval_ge ds Hds (a * 1000 + d) ltac:(lia)) as Hge.
  rewrite wrap64_small by lia. apply IH; lia.
Qed.

(* ---------------------------------------------------------------- the loop of Tile.Path *)

Lemma path_n_loop_spec : forall fuel n acc,
  0 <= n < 2 ^ Z.of_nat fuel ->
  exists ds, path_n_loop fuel n acc = xgroups ds ++ acc /\ Forall in_group ds /\ gval ds 0 = n / 1000.
Proof.
  induction fuel as [|f IH]; intros n acc Hn.
  - exists []. cbn in Hn. assert (n = 0) by lia. subst n. repeat split; constructor.
  - cbn [path_n_loop]. destruct (Z.leb_spec 1000 n) as [Hbig|Hsmall].
    + rewrite Z.quot_div_nonneg by lia.
      set (n' := n / 1000).
      assert (Hn' : 0 <= n' < 2 ^ Z.of_nat f).
      { rewrite Nat2Z.inj_succ, Z.pow_succ_r in Hn by lia. unfold n'.
        split; [apply Z.div_pos; lia|]. apply Z.div_lt_upper_bound; lia. }
      rewrite Z.rem_mod_nonneg by lia.
      destruct (IH n' (120 :: fmt03 (n' mod 1000) ++ 47 :: acc) Hn') as [ds [E [Hds Hv]]].
      exists (ds ++ [n' mod 1000]).
      assert (Hg : in_group (n' mod 1000)) by (apply Z.mod_pos_bound; lia).
      split; [|split].
      * rewrite E, xgroups_app. cbn [xgroups xg]. rewrite <- !app_assoc. cbn [app]. reflexivity.
      * apply Forall_app. split; [exact Hds|]. constructor; [exact Hg|constructor].
      * rewrite gval_app, Hv. pose proof (Z.div_mod n' 1000 ltac:(lia)). lia.
    + exists []. repeat split; [constructor|]. cbn [gval]. symmetry. apply Z.div_small. lia.
Qed.

(* the tile number part of the path, for 0 <= n *)
Lemma nstr_spec n : 0 <= n ->
  exists ds,
    path_n_loop (S (Z.to_nat (Z.log2 n))) n (fmt03 (Z.rem n 1000)) = xgroups ds ++ fmt03 (n mod 1000) /\
    Forall in_group ds /\ gval ds 0 = n / 1000.
Proof.
  intros Hn. rewrite Z.rem_mod_nonneg by lia. apply path_n_loop_spec.
  rewrite Nat2Z.inj_succ, Z2Nat.id by apply Z.log2_nonneg.
  destruct (Z.eq_dec n 0) as [->|Hnz]; [cbn; lia|].
  split; [lia|]. apply Z.log2_spec. lia.
Qed.

(* for n < 0 Go's loop `for n >= pathBase` does not run *)
Lemma nstr_neg n fuel acc : n < 0 -> path_n_loop fuel n acc = acc.
Proof.
  intros Hn. destruct fuel as [|f]; [reflexivity|]. cbn [path_n_loop].
  destruct (Z.leb_spec 1000 n); [lia|reflexivity].
Qed.

(* ---------------------------------------------------------------- the fields of tile_path t *)

Definition lstr (t : tile) : str := if tL t =? -1 then B "data" else format_int (tL t).

Lemma lstr_no47 t : no47 (lstr t).
Proof.
  unfold lstr. destruct (tL t =? -1); [|apply format_int_no47].
  repeat (constructor; [discriminate|]). constructor.
Qed.

(* tile_path t = tile/H/L/ ++ (groups ++ glast) ++ pstr *)
Lemma tile_path_fields t ds glast :
  path_n_loop (S (Z.to_nat (Z.log2 (tN t)))) (tN t) (fmt03 (Z.rem (tN t) 1000)) = xgroups ds ++ glast ->
  Forall in_group ds -> no47 glast ->
  split_on 47 (tile_path t) =
    B "tile" :: format_int (tH t) :: lstr t :: map xg ds ++
      (if tW t =? pow2sh (tH t) then [glast] else [glast ++ B ".p"; format_int (tW t)]).
Proof.
  intros E Hds Hg. unfold tile_path. cbv zeta. rewrite E. fold (lstr t).
  change (B "tile/") with (B "tile" ++ [47]). rewrite <- app_assoc. cbn [app].
  rewrite (split_on_app (116 :: 105 :: 108 :: 101 :: []))
    by (repeat (constructor; [discriminate|]); constructor).
  rewrite split_on_app by apply format_int_no47.
  rewrite split_on_app by apply lstr_no47.
  rewrite <- app_assoc. rewrite split_xgroups by exact Hds.
  do 3 f_equal.
  destruct (tW t =? pow2sh (tH t)).
  - rewrite app_nil_r. rewrite split_on_no47 by exact Hg. reflexivity.
  - change (B ".p/") with (B ".p" ++ [47]). rewrite <- app_assoc. cbn [app]. rewrite app_assoc.
    rewrite split_on_app.
    + rewrite split_on_no47 by apply format_int_no47. reflexivity.
    + apply no47_app; [exact Hg|]. rewrite B_dotp. repeat (constructor; [discriminate|]). constructor.
Qed.

Lemma split_on_length s : length (split_on 47 s) = S (count_occ Z.eq_dec s 47).
Proof.
  induction s as [|c s IH]; [reflexivity|].
  cbn [split_on count_occ]. destruct (Z.eqb_spec c 47) as [->|Hne].
  - destruct (Z.eq_dec 47 47); [|congruence]. cbn [length]. rewrite IH. reflexivity.
  - destruct (Z.eq_dec c 47); [congruence|].
    destruct (split_on 47 s) as [|h0 tl]; [discriminate|]. cbn [length] in *. exact IH.
Qed.
