(* Wire dispatcher for the tlog model (tlog.go + tlog/note.go), SHA-256 instance.

   Argument encodings (Go side: harness/gen/tlog.go, harness/props/c09.go, c03.go)
     reader  = L[ I mode, L[ L[I index, S hash] … ] ]   a table reader: looks every requested index
               up in the table (a missing index is a reader error); mode 0 returns the hashes,
               1 drops the last one, 2 appends one extra (32 zero bytes), 3 always fails
     results = ok/err/panic values of Base/Wire.v; error kinds "invalid", "reader", "count",
               "proof", "malformed" (and "fuel", which no implementation result ever equals) *)
From Verif.Base Require Import Bytes Wire.
From Verif.Tlog Require Import Index Tree Codec Sha Rfc9162.

Definition enc_err (k : err_kind) : val :=
  match k with
  | EInvalidInputs => VErr "invalid"
  | EReader => VErr "reader"
  | EReadCount => VErr "count"
  | EProofFailed => VErr "proof"
  | EMalformed => VErr "malformed"
  | EFuel => VErr "fuel"
  end.

Definition enc_res {A : Type} (enc : A -> val) (r : res A) : val :=
  match r with
  | Ok a => VOk (enc a)
  | Err k => enc_err k
  | Panic => VPanic
  end.

Definition enc_hashes (hs : list str) : val := VL (map VS hs).
Definition enc_unit (_ : unit) : val := VL [].

Fixpoint dec_strs (l : list val) : option (list str) :=
  match l with
  | [] => Some []
  | VS s :: r => option_map (cons s) (dec_strs r)
  | _ => None
  end.

Fixpoint dec_table (l : list val) : option (list (Z * str)) :=
  match l with
  | [] => Some []
  | VL [VI i; VS h] :: r => option_map (cons (i, h)) (dec_table r)
  | _ => None
  end.

Fixpoint lookup (tbl : list (Z * str)) (i : Z) : option str :=
  match tbl with
  | [] => None
  | (j, h) :: r => if i =? j then Some h else lookup r i
  end.

Fixpoint lookup_all (tbl : list (Z * str)) (idx : list Z) : option (list str) :=
  match idx with
  | [] => Some []
  | i :: r => match lookup tbl i, lookup_all tbl r with
              | Some h, Some t => Some (h :: t)
              | _, _ => None
              end
  end.

Definition zero_hash : str := repeat 0 32.

Definition table_reader (mode : Z) (tbl : list (Z * str)) : reader :=
  fun idx =>
    if mode =? 3 then None
    else match lookup_all tbl idx with
         | None => None
         | Some hs => Some (if mode =? 1 then removelast hs
                            else if mode =? 2 then hs ++ [zero_hash] else hs)
         end.

Definition dec_reader (v : val) : option reader :=
  match v with
  | VL [VI mode; VL t] => option_map (table_reader mode) (dec_table t)
  | _ => None
  end.

Definition enc_tree (t : tree) : val := VL [VI (tN t); VS (tH t)].

Definition dispatch (f : str) (a : val) : val :=
  if str_eqb f (B "StoredHashIndex") then
    match a with VL [VI level; VI n] => VI (stored_hash_index level n) | _ => VBadCase end
  else if str_eqb f (B "SplitStoredHashIndex") then
    match a with
    | VI i => enc_res (fun p => VL [VI (fst p); VI (snd p)]) (split_stored_hash_index i)
    | _ => VBadCase
    end
  else if str_eqb f (B "StoredHashCount") then
    match a with VI n => VI (stored_hash_count n) | _ => VBadCase end
  else if str_eqb f (B "RecordHash") then
    match a with VS d => VS (record_hash d) | _ => VBadCase end
  else if str_eqb f (B "NodeHash") then
    match a with VL [VS l; VS r] => VS (node_hash_sha l r) | _ => VBadCase end
  else if str_eqb f (B "StoredHashes") then
    match a with
    | VL [VI n; VS data; rd] =>
        match dec_reader rd with
        | Some read => enc_res enc_hashes (sha_stored_hashes n data read)
        | None => VBadCase
        end
    | _ => VBadCase
    end
  else if str_eqb f (B "StoredHashesForRecordHash") then
    match a with
    | VL [VI n; VS h; rd] =>
        match dec_reader rd with
        | Some read => enc_res enc_hashes (sha_stored_hashes_for_record_hash n h read)
        | None => VBadCase
        end
    | _ => VBadCase
    end
  else if str_eqb f (B "TreeHash") then
    match a with
    | VL [VI n; rd] =>
        match dec_reader rd with
        | Some read => enc_res VS (sha_tree_hash n read)
        | None => VBadCase
        end
    | _ => VBadCase
    end
  else if str_eqb f (B "ProveRecord") then
    match a with
    | VL [VI t; VI n; rd] =>
        match dec_reader rd with
        | Some read => enc_res enc_hashes (sha_prove_record t n read)
        | None => VBadCase
        end
    | _ => VBadCase
    end
  else if str_eqb f (B "ProveTree") then
    match a with
    | VL [VI t; VI n; rd] =>
        match dec_reader rd with
        | Some read => enc_res enc_hashes (sha_prove_tree t n read)
        | None => VBadCase
        end
    | _ => VBadCase
    end
  else if str_eqb f (B "CheckRecord") then
    match a with
    | VL [VL p; VI t; VS th; VI n; VS h] =>
        match dec_strs p with
        | Some p => enc_res enc_unit (sha_check_record p t th n h)
        | None => VBadCase
        end
    | _ => VBadCase
    end
  else if str_eqb f (B "CheckTree") then
    match a with
    | VL [VL p; VI t; VS th; VI n; VS h] =>
        match dec_strs p with
        | Some p => enc_res enc_unit (sha_check_tree p t th n h)
        | None => VBadCase
        end
    | _ => VBadCase
    end
  else if str_eqb f (B "rfc.VerifyInclusion") then
    match a with
    | VL [VL p; VI t; VS th; VI n; VS h] =>
        match dec_strs p with
        | Some p => VB (rfc_verify_inclusion node_hash_sha p t th n h)
        | None => VBadCase
        end
    | _ => VBadCase
    end
  else if str_eqb f (B "rfc.VerifyConsistency") then
    match a with
    | VL [VL p; VI t; VS th; VI n; VS h] =>
        match dec_strs p with
        | Some p => VB (rfc_verify_consistency node_hash_sha p t th n h)
        | None => VBadCase
        end
    | _ => VBadCase
    end
  else if str_eqb f (B "HashString") then
    match a with VS h => VS (hash_string h) | _ => VBadCase end
  else if str_eqb f (B "ParseHash") then
    match a with VS s => enc_res VS (parse_hash s) | _ => VBadCase end
  else if str_eqb f (B "HashMarshalJSON") then
    match a with VS h => VS (hash_marshal_json h) | _ => VBadCase end
  else if str_eqb f (B "HashUnmarshalJSON") then
    match a with VS s => enc_res VS (hash_unmarshal_json s) | _ => VBadCase end
  else if str_eqb f (B "FormatTree") then
    match a with VL [VI n; VS h] => VS (format_tree (Tree n h)) | _ => VBadCase end
  else if str_eqb f (B "ParseTree") then
    match a with VS s => enc_res enc_tree (parse_tree s) | _ => VBadCase end
  else if str_eqb f (B "FormatRecord") then
    match a with VL [VI id; VS text] => enc_res VS (format_record id text) | _ => VBadCase end
  else if str_eqb f (B "ParseRecord") then
    match a with
    | VS s => enc_res (fun r => VL [VI (fst (fst r)); VS (snd (fst r)); VS (snd r)]) (parse_record s)
    | _ => VBadCase
    end
  else VBadCase.
