(* Tlog/ProofsTree.v — proofs about Tlog/Tree.v: maxpow2, the decomposition of a range into
   maximal complete subtrees (subTreeIndex/subTreeHash), the store invariant of
   StoredHashes and TreeHash = RFC 6962 MTH.  Parametric in the hash functions. *)
From Verif.Base Require Import Bytes.
From Verif.Tlog Require Import Index Tree Spec6962 ProofsIndex ProofsSpec.

(* ------------------------------------------------------------------ maxpow2 *)

Lemma maxpow2_loop_spec fuel : forall k l n,
  0 <= l -> k = 2 ^ l -> k < n -> n <= 2 ^ (l + Z.of_nat fuel + 1) ->
  exists l', maxpow2_loop fuel k l n = (2 ^ l', l') /\ l <= l' <= l + Z.of_nat fuel /\
             2 ^ l' < n <= 2 * 2 ^ l'.
Proof.
  induction fuel as [|fuel IH]; intros k l n Hl Hk Hlt Hn.
  - exists l. cbn [maxpow2_loop]. subst k. split; [reflexivity|]. split; [lia|].
    replace (l + Z.of_nat 0 + 1) with (l + 1) in Hn by lia. rewrite pow2_succ in Hn by lia. lia.
  - cbn [maxpow2_loop]. destruct (Z.ltb_spec (2 * k) n) as [H|H].
    + destruct (IH (2 * k) (l + 1) n) as [l' [E [Hl' Hb]]]; try lia.
      * subst k. rewrite pow2_succ by lia. reflexivity.
      * replace (l + 1 + Z.of_nat fuel + 1) with (l + Z.of_nat (S fuel) + 1) by lia. exact Hn.
      * exists l'. split; [exact E|]. split; [lia|exact Hb].
    + exists l. subst k. split; [reflexivity|]. lia.
Qed.

Lemma maxpow2_spec n :
  2 <= n <= 2 ^ 63 ->
  exists l, maxpow2 n = (2 ^ l, l) /\ 0 <= l <= 62 /\ 2 ^ l < n <= 2 * 2 ^ l.
Proof.
  intros H. unfold maxpow2.
  assert (Hn : n <= 2 ^ (0 + Z.of_nat 62 + 1)) by (change (0 + Z.of_nat 62 + 1) with 63; lia).
  destruct (maxpow2_loop_spec 62 1 0 n ltac:(lia) eq_refl ltac:(lia) Hn) as [l [E [Hl Hb]]].
  exists l. split; [exact E|]. split; [lia|exact Hb].
Qed.

Lemma maxpow2_split_point n :
  2 <= n <= 2 ^ 63 -> fst (maxpow2 n) = split_point n.
Proof.
  intros H. destruct (maxpow2_spec n H) as [l [E [Hl Hb]]]. rewrite E. cbn [fst].
  symmetry. apply split_point_unique; lia.
Qed.

(* ------------------------------------------------------------------ decomposition of [lo, hi) *)

Inductive Blocks : Z -> Z -> list (Z * Z) -> Prop :=
| Blocks_nil lo : Blocks lo lo []
| Blocks_cons lo hi level rest :
    0 <= level -> 2 ^ level <= hi - lo -> hi - lo < 2 * 2 ^ level -> (2 ^ level | lo) ->
    Blocks (lo + 2 ^ level) hi rest ->
    Blocks lo hi ((level, lo) :: rest).

Definition aligned (lo hi : Z) : Prop :=
  exists j, 0 <= j /\ (2 ^ j | lo) /\ hi - lo <= 2 ^ j.

Lemma land_pow2_divide lo j l :
  0 <= l <= j -> (2 ^ j | lo) -> Z.land lo (2 ^ l - 1) = 0.
Proof.
  intros Hl Hd. replace (2 ^ l - 1) with (Z.ones l) by (rewrite Z.ones_equiv; lia).
  rewrite Z.land_ones by lia. apply Z.mod_divide; [pose proof (pow2_pos l); lia|].
  apply Z.divide_trans with (2 ^ j); [|exact Hd].
  exists (2 ^ (j - l)). rewrite <- Z.pow_add_r by lia. f_equal. lia.
Qed.

Lemma pow2_lt_inv a b : 0 <= a -> 0 <= b -> 2 ^ a < 2 ^ b -> a < b.
Proof. intros Ha Hb H. apply (Z.pow_lt_mono_r_iff 2); lia. Qed.

Lemma sub_tree_split_spec fuel : forall lo hi j,
  0 <= lo <= hi -> hi <= 2 ^ 62 -> 0 <= j -> (2 ^ j | lo) -> hi - lo <= 2 ^ j ->
  hi - lo < 2 ^ Z.of_nat fuel ->
  exists bs, sub_tree_split fuel lo hi = Ok bs /\ Blocks lo hi bs.
Proof.
  induction fuel as [|fuel IH]; intros lo hi j Hlo Hhi Hj Hd Hsz Hf.
  - cbn [sub_tree_split]. change (2 ^ Z.of_nat 0) with 1 in Hf.
    assert (lo = hi) by lia. subst. rewrite Z.ltb_irrefl. exists []. split; [reflexivity|constructor].
  - cbn [sub_tree_split]. destruct (Z.ltb_spec lo hi) as [Hlt|Hge].
    2:{ assert (lo = hi) by lia. subst. exists []. split; [reflexivity|constructor]. }
    assert (H63 : 2 ^ 62 + 1 <= 2 ^ 63) by (vm_compute; discriminate).
    destruct (maxpow2_spec (hi - lo + 1) ltac:(lia)) as [l [E [Hl Hb]]].
    rewrite E.
    assert (Hlj : l <= j).
    { destruct (Z_le_gt_dec l j); [assumption|]. assert (2 ^ j < 2 ^ l) by (apply pow2_lt; lia). lia. }
    rewrite (land_pow2_divide lo j l) by (try lia; assumption).
    rewrite Z.eqb_refl.
    assert (Hlf : l < Z.of_nat (S fuel)) by (apply pow2_lt_inv; lia).
    assert (2 ^ l <= 2 ^ Z.of_nat fuel) by (apply pow2_le; lia).
    destruct (IH (lo + 2 ^ l) hi l) as [bs [Ebs Hbs]]; try lia.
    + apply Z.divide_add_r; [|apply Z.divide_refl].
      apply Z.divide_trans with (2 ^ j); [|exact Hd].
      exists (2 ^ (j - l)). rewrite <- Z.pow_add_r by lia. f_equal. lia.
    + rewrite Ebs. cbn [bind]. eexists. split; [reflexivity|].
      constructor; try lia; try assumption.
      apply Z.divide_trans with (2 ^ j); [|exact Hd].
      exists (2 ^ (j - l)). rewrite <- Z.pow_add_r by lia. f_equal. lia.
Qed.

Lemma range_fuel_enough x : 0 <= x -> x < 2 ^ Z.of_nat (range_fuel x).
Proof.
  intros H. unfold range_fuel. pose proof (Z.log2_nonneg x).
  rewrite Nat2Z.inj_add, Z2Nat.id by lia. cbn [Z.of_nat Pos.of_succ_nat Pos.succ].
  destruct (Z.eq_dec x 0) as [->|Hx].
  - apply pow2_pos. lia.
  - pose proof (Z.log2_spec x ltac:(lia)) as [_ Hs].
    assert (2 ^ Z.succ (Z.log2 x) <= 2 ^ (Z.log2 x + 4)) by (apply pow2_le; lia). lia.
Qed.

Lemma sub_tree_ok lo hi :
  0 <= lo <= hi -> hi <= 2 ^ 62 -> aligned lo hi ->
  exists bs, sub_tree_split (range_fuel (hi - lo)) lo hi = Ok bs /\ Blocks lo hi bs.
Proof.
  intros Hlo Hhi [j [Hj [Hd Hsz]]].
  apply (sub_tree_split_spec _ lo hi j); try assumption.
  apply range_fuel_enough. lia.
Qed.

Lemma aligned_0 hi : 0 <= hi -> aligned 0 hi.
Proof.
  intros H. exists (Z.log2 hi + 1). pose proof (Z.log2_nonneg hi). split; [lia|]. split.
  - apply Z.divide_0_r.
  - destruct (Z.eq_dec hi 0) as [->|Hx]; [cbn; lia|].
    pose proof (Z.log2_spec hi ltac:(lia)) as [_ Hs]. unfold Z.succ in Hs. lia.
Qed.

Lemma pow2_divide a b : 0 <= a <= b -> (2 ^ a | 2 ^ b).
Proof. intros H. exists (2 ^ (b - a)). rewrite <- Z.pow_add_r by lia. f_equal. lia. Qed.

Lemma Blocks_lo_le lo hi bs : Blocks lo hi bs -> lo <= hi.
Proof. induction 1; [lia|]. pose proof (pow2_pos level H). lia. Qed.

Lemma Blocks_nil_inv lo hi : Blocks lo hi [] -> lo = hi.
Proof. inversion 1; reflexivity. Qed.

(* ------------------------------------------------------------------ reading from a store *)

Lemma reader_of_map {A} (st : list hash) (g : A -> Z) (t : A -> hash) (l : list A) :
  (forall x, In x l -> 0 <= g x /\ nth_error st (Z.to_nat (g x)) = Some (t x)) ->
  reader_of st (map g l) = Some (map t l).
Proof.
  induction l as [|x l IH]; intros H; [reflexivity|].
  cbn [map reader_of]. destruct (H x (or_introl eq_refl)) as [Hx Hn].
  destruct (Z.ltb_spec (g x) 0); [lia|]. rewrite Hn, IH; [reflexivity|].
  intros y Hy. apply H. right. exact Hy.
Qed.

Lemma reader_of_app st a b ha hb :
  reader_of st a = Some ha -> reader_of st b = Some hb -> reader_of st (a ++ b) = Some (ha ++ hb).
Proof.
  revert ha. induction a as [|x a IH]; intros ha Ha Hb.
  - cbn in Ha. injection Ha as <-. exact Hb.
  - cbn [reader_of app] in *. destruct (x <? 0); [discriminate|].
    destruct (nth_error st (Z.to_nat x)); [|discriminate].
    destruct (reader_of st a) eqn:E; [|discriminate]. injection Ha as <-.
    rewrite (IH l eq_refl Hb). reflexivity.
Qed.

Lemma reader_of_length st idx hs : reader_of st idx = Some hs -> length hs = length idx.
Proof.
  revert hs. induction idx as [|x idx IH]; intros hs H.
  - cbn in H. injection H as <-. reflexivity.
  - cbn [reader_of] in H. destruct (x <? 0); [discriminate|].
    destruct (nth_error st (Z.to_nat x)); [|discriminate].
    destruct (reader_of st idx) eqn:E; [|discriminate]. injection H as <-.
    cbn [length]. f_equal. apply IH. reflexivity.
Qed.

Lemma read_hashes_reader_of st idx hs :
  reader_of st idx = Some hs -> read_hashes (reader_of st) idx = Ok hs.
Proof.
  intros H. unfold read_hashes. rewrite H, (reader_of_length _ _ _ H), Nat.eqb_refl. reflexivity.
Qed.

(* ------------------------------------------------------------------ a store holding the hashes T *)

Section Store.
Variable node_hash : hash -> hash -> hash.
(* T lo hi: the hash of the records [lo, hi) *)
Variable T : Z -> Z -> hash.

Definition T_splits (N : Z) : Prop :=
  forall lo hi, 0 <= lo -> lo + 2 <= hi -> hi <= N ->
    T lo hi = node_hash (T lo (lo + split_point (hi - lo))) (T (lo + split_point (hi - lo)) hi).

Definition store_holds (N : Z) (st : list hash) : Prop :=
  forall l o, 0 <= l -> 0 <= o -> (o + 1) * 2 ^ l <= N ->
    nth_error st (Z.to_nat (stored_hash_index l o)) = Some (T (o * 2 ^ l) ((o + 1) * 2 ^ l)).

Definition block_hash (b : Z * Z) : hash := T (snd b) (snd b + 2 ^ fst b).

Section Fixed.
Variable N : Z.
Variable st : list hash.
Hypothesis HT : T_splits N.
Hypothesis Hst : store_holds N st.

Lemma blocks_read lo hi bs :
  Blocks lo hi bs -> 0 <= lo -> hi <= N ->
  reader_of st (sub_tree_indexes bs) = Some (map block_hash bs).
Proof.
  intros HB. induction HB as [lo|lo hi level rest Hl H1 H2 Hd HB IH]; intros Hlo Hhi; [reflexivity|].
  pose proof (pow2_pos level Hl) as Hp.
  unfold sub_tree_indexes in *. cbn [map fst snd reader_of].
  destruct Hd as [c Hc].
  assert (Hc0 : 0 <= c) by nia.
  assert (Hs : Z.shiftr lo level = c).
  { rewrite Z.shiftr_div_pow2 by lia. subst lo. apply Z.div_mul. lia. }
  rewrite Hs.
  pose proof (stored_hash_index_nonneg level c Hl Hc0).
  destruct (Z.ltb_spec (stored_hash_index level c) 0); [lia|].
  rewrite (Hst level c Hl Hc0) by nia.
  rewrite IH by lia. unfold block_hash at 2. cbn [fst snd].
  replace (c * 2 ^ level) with lo by lia. replace ((c + 1) * 2 ^ level) with (lo + 2 ^ level) by lia.
  reflexivity.
Qed.

Lemma fold_hashes_cons2 h x r :
  fold_hashes node_hash (h :: x :: r) = option_map (node_hash h) (fold_hashes node_hash (x :: r)).
Proof. reflexivity. Qed.

Lemma blocks_fold lo hi bs :
  Blocks lo hi bs -> lo < hi -> 0 <= lo -> hi <= N ->
  fold_hashes node_hash (map block_hash bs) = Some (T lo hi).
Proof.
  intros HB. induction HB as [lo|lo hi level rest Hl H1 H2 Hd HB IH]; intros Hlt Hlo Hhi; [lia|].
  pose proof (pow2_pos level Hl) as Hp.
  cbn [map]. unfold block_hash at 1. cbn [fst snd].
  destruct rest as [|b rest].
  - apply Blocks_nil_inv in HB. cbn [map fold_hashes]. rewrite HB. reflexivity.
  - assert (Hlt' : lo + 2 ^ level < hi).
    { inversion HB; subst. pose proof (pow2_pos level0 ltac:(assumption)). lia. }
    specialize (IH Hlt' ltac:(lia) Hhi).
    cbn [map] in IH |- *. rewrite fold_hashes_cons2, IH. cbn [option_map].
    rewrite (HT lo hi) by lia.
    rewrite (split_point_unique (hi - lo) level) by lia. reflexivity.
Qed.

Lemma sub_tree_index_spec lo hi need :
  0 <= lo <= hi -> hi <= N -> N <= 2 ^ 62 -> aligned lo hi ->
  exists bs, Blocks lo hi bs /\
    sub_tree_split (range_fuel (hi - lo)) lo hi = Ok bs /\
    sub_tree_index lo hi need = Ok (need ++ sub_tree_indexes bs) /\
    reader_of st (sub_tree_indexes bs) = Some (map block_hash bs).
Proof.
  intros Hlo Hhi HN Ha. destruct (sub_tree_ok lo hi Hlo ltac:(lia) Ha) as [bs [E HB]].
  exists bs. split; [exact HB|]. split; [exact E|]. split.
  - unfold sub_tree_index. rewrite E. reflexivity.
  - apply (blocks_read lo hi); [exact HB|lia|lia].
Qed.

Lemma sub_tree_hash_spec lo hi bs rest :
  0 <= lo < hi -> hi <= N ->
  sub_tree_split (range_fuel (hi - lo)) lo hi = Ok bs -> Blocks lo hi bs ->
  sub_tree_hash node_hash lo hi (map block_hash bs ++ rest) = Ok (T lo hi, rest).
Proof.
  intros Hlo Hhi E HB. unfold sub_tree_hash. rewrite E. cbn [bind].
  rewrite app_length, map_length.
  destruct (Nat.ltb_spec (length bs + length rest) (length bs)); [lia|].
  rewrite firstn_app, map_length, Nat.sub_diag. cbn [firstn]. rewrite app_nil_r.
  rewrite <- (map_length block_hash bs) at 1. rewrite firstn_all.
  rewrite (blocks_fold lo hi bs HB) by lia.
  rewrite skipn_app, map_length, Nat.sub_diag. cbn [skipn].
  rewrite <- (map_length block_hash bs) at 1. rewrite skipn_all. reflexivity.
Qed.

Lemma tree_hash_spec m :
  0 < m <= N -> N <= 2 ^ 62 -> tree_hash node_hash m (reader_of st) = Ok (T 0 m).
Proof.
  intros Hm HN. unfold tree_hash. destruct (Z.eqb_spec m 0); [lia|].
  destruct (sub_tree_index_spec 0 m [] ltac:(lia) ltac:(lia) HN (aligned_0 m ltac:(lia)))
    as [bs [HB [E [Ei Er]]]].
  rewrite Ei. cbn [bind app]. rewrite (read_hashes_reader_of _ _ _ Er). cbn [bind].
  rewrite <- (app_nil_r (map block_hash bs)).
  rewrite (sub_tree_hash_spec 0 m bs []) by (try lia; assumption).
  reflexivity.
Qed.

End Fixed.

(* ------------------------------------------------------------------ StoredHashes keeps the invariant *)

Lemma build_hashes_spec (O H : nat -> hash) k : forall start,
  (forall i, (start <= i < start + k)%nat -> node_hash (O i) (H i) = H (S i)) ->
  build_hashes node_hash (map O (seq start k)) (H start) = map H (seq (S start) k).
Proof.
  induction k as [|k IH]; intros start Hn; [reflexivity|].
  cbn [seq map build_hashes]. rewrite (Hn start) by lia. f_equal.
  apply IH. intros i Hi. apply Hn. lia.
Qed.

Lemma store_step N st h :
  0 <= N < 2 ^ 62 ->
  T_splits (N + 1) -> store_holds N st -> zlen st = first_index N -> T N (N + 1) = h ->
  exists hs, stored_hashes_for_record_hash node_hash N h (reader_of st) = Ok hs /\
             store_holds (N + 1) (st ++ hs) /\ zlen (st ++ hs) = first_index (N + 1).
Proof.
  intros HN HT Hst Hlen HhN.
  assert (H64 : 2 ^ 62 < 2 ^ 64) by (apply pow2_lt; lia).
  set (m := tz (N + 1)).
  pose proof (tz_nonneg (N + 1)) as Hm0. fold m in Hm0.
  (* a i: start of the level-i subtree that ends at N+1 *)
  set (a := fun i : nat => N + 1 - 2 ^ Z.of_nat i).
  assert (Hdiv : forall i, Z.of_nat i <= m -> exists c, 1 <= c /\ N + 1 = c * 2 ^ Z.of_nat i).
  { intros i Hi. destruct (tz_divides (N + 1) ltac:(lia) (Z.of_nat i) ltac:(lia)) as [c Hc].
    exists c. split; [|exact Hc]. pose proof (pow2_pos (Z.of_nat i) ltac:(lia)). nia. }
  set (Oh := fun i : nat => T (a (S i)) (a i)).
  set (Hh := fun i : nat => T (a i) (N + 1)).
  (* the indexes read *)
  assert (Hread : reader_of st (record_indexes N) = Some (rev (map Oh (seq 0 (Z.to_nat m))))).
  { unfold record_indexes. rewrite trailing_zeros64_tz by lia. fold m.
    rewrite <- map_rev, <- map_rev. apply reader_of_map.
    intros i Hi. apply in_rev, in_seq in Hi.
    destruct (Hdiv (S i) ltac:(lia)) as [c [Hc1 Hc]].
    pose proof (pow2_pos (Z.of_nat i) ltac:(lia)) as Hp.
    assert (Hpow : 2 ^ Z.of_nat (S i) = 2 * 2 ^ Z.of_nat i).
    { rewrite Nat2Z.inj_succ. unfold Z.succ. apply pow2_succ. lia. }
    assert (Hs : Z.shiftr N (Z.of_nat i) = 2 * c - 1).
    { rewrite Z.shiftr_div_pow2 by lia.
      replace N with ((2 * c - 1) * 2 ^ Z.of_nat i + (2 ^ Z.of_nat i - 1)) by lia.
      rewrite Z.div_add_l by lia. rewrite Z.div_small by lia. lia. }
    rewrite Hs. split; [apply stored_hash_index_nonneg; lia|].
    rewrite Hpow in Hc.
    assert (Hle : (2 * c - 1 - 1 + 1) * 2 ^ Z.of_nat i <= N).
    { replace ((2 * c - 1 - 1 + 1) * 2 ^ Z.of_nat i) with (c * (2 * 2 ^ Z.of_nat i) - 2 ^ Z.of_nat i) by ring.
      lia. }
    rewrite (Hst (Z.of_nat i) (2 * c - 1 - 1)) by lia.
    unfold Oh, a. rewrite Hpow. clear Hs Hp Hpow. generalize dependent (2 ^ Z.of_nat i). intros p Hc Hle.
    assert (E1 : (2 * c - 1 - 1) * p = N + 1 - 2 * p) by nia.
    assert (E2 : (2 * c - 1 - 1 + 1) * p = N + 1 - p) by nia.
    rewrite E1, E2. reflexivity. }
  unfold stored_hashes_for_record_hash. rewrite (read_hashes_reader_of _ _ _ Hread). cbn [bind].
  rewrite rev_involutive.
  assert (Hh0 : h = Hh O). { unfold Hh, a. rewrite <- HhN. f_equal. change (2 ^ Z.of_nat 0) with 1. lia. }
  rewrite Hh0.
  rewrite (build_hashes_spec Oh Hh (Z.to_nat m) 0).
  2:{ intros i Hi. unfold Oh, Hh.
      assert (Hpow : 2 ^ Z.of_nat (S i) = 2 * 2 ^ Z.of_nat i).
      { rewrite Nat2Z.inj_succ. unfold Z.succ. apply pow2_succ. lia. }
      pose proof (pow2_pos (Z.of_nat i) ltac:(lia)) as Hp.
      destruct (Hdiv (S i) ltac:(lia)) as [c [Hc1 Hc]].
      assert (Hge : 2 ^ Z.of_nat (S i) <= N + 1) by nia.
      rewrite (HT (a (S i)) (N + 1)) by (unfold a; lia).
      replace (N + 1 - a (S i)) with (2 ^ Z.of_nat (S i)) by (unfold a; lia).
      rewrite (split_point_unique _ (Z.of_nat i)) by lia.
      replace (a (S i) + 2 ^ Z.of_nat i) with (a i) by (unfold a; lia). reflexivity. }
  change (Hh 0%nat :: map Hh (seq 1 (Z.to_nat m))) with (map Hh (seq 0 (S (Z.to_nat m)))).
  eexists. split; [reflexivity|].
  assert (Hlen' : zlen (st ++ map Hh (seq 0 (S (Z.to_nat m)))) = first_index (N + 1)).
  { unfold zlen in *. rewrite app_length, map_length, seq_length, first_index_succ by lia.
    fold m. lia. }
  split; [|exact Hlen'].
  intros l o Hl Ho Hlo.
  pose proof (pow2_pos l Hl) as Hp.
  destruct (Z_le_gt_dec ((o + 1) * 2 ^ l) N) as [Hin|Hnew].
  - pose proof (index_lt_count l o N Hl Ho Hin).
    pose proof (stored_hash_index_nonneg l o Hl Ho).
    rewrite nth_error_app1 by (unfold zlen in Hlen; lia). apply Hst; assumption.
  - assert (Hup : level_up l o = N) by (rewrite level_up_closed by lia; lia).
    assert (Hlm : l <= m).
    { unfold m. rewrite <- Hup, tz_level_up by lia. pose proof (tz_nonneg (o + 1)). lia. }
    rewrite stored_hash_index_first, Hup.
    pose proof (first_index_ge N ltac:(lia)).
    rewrite nth_error_app2 by (unfold zlen in Hlen; lia).
    replace (Z.to_nat (first_index N + l) - length st)%nat with (Z.to_nat l)
      by (unfold zlen in Hlen; lia).
    rewrite nth_error_map, (nth_error_nth' _ O) by (rewrite seq_length; lia).
    rewrite seq_nth by lia. cbn [option_map Nat.add]. unfold Hh, a. rewrite Z2Nat.id by lia.
    f_equal. f_equal; lia.
Qed.

End Store.
