(* Tlog/TileReader.v — model of tlog.TileHashReader(tree, tr).ReadHashes(indexes)
   (/repo/sumdb/tlog/tile.go, func (r *tileHashReader) ReadHashes), as the code is after the
   fix "authenticate every non-tree-hash tile" (the authentication loop starts at numStxTiles).
   Parametric in the node hash.  Model file: no proofs here (see TileProofs*.v).

   Exported names and types (tile, tres, terr, hash_from_tile, … are Tlog/Tile.v's)
     tile_reader := list tile -> option (list str)     TileReader.ReadTiles; None = it returned an error
     order       := list (tile * nat)                  the Go map tileOrder (first match wins = last write)
     lookup      : tile -> order -> option nat
     plan        := mkPlan { p_tiles : list tile; p_order : order; p_nstx : nat;
                             p_stx : list Z; p_stx_order : list nat; p_index_order : list nat }
     plan_stx    : Z -> Z -> list Z -> order -> list tile -> tres (order * list tile * list nat)
                   phase 1 (h N stx ord tiles): tiles for the tree hash, deduplicated
     find_parent : nat -> tile -> nat -> Z -> order -> option (nat * nat)   (fuel t k N ord) = (k, j)
     walk_down   : tile -> Z -> nat -> order -> list tile -> nat -> tres (order * list tile * nat)
     plan_indexes: Z -> Z -> list Z -> order -> list tile -> tres (order * list tile * list nat)
                   phase 2 (h N indexes ord tiles)
     make_plan   : Z -> Z -> list Z -> tres plan       (N h indexes) everything before ReadTiles
     check_lengths : list tile -> list str -> bool
     stx_hashes [node_hash]  : list tile -> list str -> list (nat * Z) -> tres (list hash)
     auth_stx [node_hash]    : plan -> list str -> hash -> tres unit      tree-hash authentication
     auth_rest [node_hash]   : Z -> order -> list tile -> list str -> list (nat * tile) -> tres unit
                               the loop `for i := numStxTiles; i < len(tiles); i++`
     extract [node_hash]     : list tile -> list str -> list (Z * nat) -> tres (list hash)
     check_and_extract [node_hash] : (Z * hash) -> plan -> list Z -> list str ->
                               tres (list hash) * option (list tile * list str)
                               (tree p indexes data): everything after a successful ReadTiles
     tile_read_hashes [node_hash] :
        (Z * hash) -> Z -> list Z -> tile_reader -> tres (list hash) * option (list tile * list str)
        (tree = (N, root hash), height, indexes, ReadTiles) =
        (result of ReadHashes, arguments of the SaveTiles call if it was made).
        = make_plan; read_tiles (p_tiles p), called exactly once; check_and_extract.
        (Named tile_read_hashes because Tlog/Tree.v already has a read_hashes.)
   The height h is modelled for 1 <= h <= 62 (TErr TEDomain otherwise); theorems need 1 <= h <= 30
   (HashFromTile rejects taller tiles) and 0 <= N < 2^62. *)
From Verif.Base Require Import Bytes.
From Verif.Tlog Require Import Index Tree Tile.

Definition tile_reader := list tile -> option (list str).
Definition order := list (tile * nat).

Fixpoint lookup (t : tile) (o : order) : option nat :=
  match o with
  | [] => None
  | (t', j) :: r => if tile_eqb t t' then Some j else lookup t r
  end.

Record plan := mkPlan {
  p_tiles : list tile;          (* tiles, in the order passed to ReadTiles and SaveTiles *)
  p_order : order;              (* tileOrder *)
  p_nstx : nat;                 (* numStxTiles *)
  p_stx : list Z;               (* stx *)
  p_stx_order : list nat;       (* stxTileOrder *)
  p_index_order : list nat      (* indexTileOrder *)
}.

(* for i, x := range stx { tile, _, _ := tileForIndex(h, x); tile = tileParent(tile, 0, r.tree.N); … } *)
Fixpoint plan_stx (h N : Z) (stx : list Z) (ord : order) (tiles : list tile)
  : tres (order * list tile * list nat) :=
  match stx with
  | [] => TOk (ord, tiles, [])
  | x :: r =>
      tbind (tile_for_index h x) (fun tse =>
        let t := tile_parent (fst (fst tse)) 0 N in
        match lookup t ord with
        | Some j =>
            tbind (plan_stx h N r ord tiles) (fun otj =>
              TOk (fst (fst otj), snd (fst otj), j :: snd otj))
        | None =>
            let j := length tiles in
            tbind (plan_stx h N r ((t, j) :: ord) (tiles ++ [t])) (fun otj =>
              TOk (fst (fst otj), snd (fst otj), j :: snd otj))
        end)
  end.

(* k := 0; for ; ; k++ { p := tileParent(tile, k, r.tree.N); if j, ok := tileOrder[p]; ok { … break } } *)
Fixpoint find_parent (fuel : nat) (t : tile) (k : nat) (N : Z) (ord : order) : option (nat * nat) :=
  match fuel with
  | O => None
  | S f =>
      match lookup (tile_parent t (Z.of_nat k) N) ord with
      | Some j => Some (k, j)
      | None => find_parent f t (S k) N ord
      end
  end.

(* for k--; k >= 0; k-- { p := tileParent(tile, k, r.tree.N); if p.W != 1<<uint(p.H) { bad math }
     tileOrder[p] = len(tiles); if k == 0 { indexTileOrder[i] = len(tiles) }; tiles = append(tiles, p) }
   the argument k is the number of iterations left (the Go k + 1) *)
Fixpoint walk_down (t : tile) (N : Z) (k : nat) (ord : order) (tiles : list tile) (ito : nat)
  : tres (order * list tile * nat) :=
  match k with
  | O => TOk (ord, tiles, ito)
  | S k' =>
      let p := tile_parent t (Z.of_nat k') N in
      if negb (tW p =? 2 ^ tH p) then TErr TEBadMath
      else
        let j := length tiles in
        walk_down t N k' ((p, j) :: ord) (tiles ++ [p]) (match k' with O => j | _ => ito end)
  end.

(* the parent search cannot take more than 64 steps unless it never ends: for sizes below 2^63 every
   tileParent(tile, k, N) with (L+k)*H >= 63 is Tile{} *)
Definition find_fuel : nat := 70.

(* for i, x := range indexes { … } *)
Fixpoint plan_indexes (h N : Z) (indexes : list Z) (ord : order) (tiles : list tile)
  : tres (order * list tile * list nat) :=
  match indexes with
  | [] => TOk (ord, tiles, [])
  | x :: r =>
      if stored_hash_index 0 N <=? x then TErr TENotInTree
      else
        tbind (tile_for_index h x) (fun tse =>
          let t := fst (fst tse) in
          match find_parent find_fuel t 0 N ord with
          | None => TErr TEFuel                                   (* Go would loop for ever *)
          | Some (k, j) =>
              tbind (walk_down t N k ord tiles j) (fun oti =>
                tbind (plan_indexes h N r (fst (fst oti)) (snd (fst oti))) (fun otj =>
                  TOk (fst (fst otj), snd (fst otj), snd oti :: snd otj)))
          end)
  end.

Definition make_plan (N h : Z) (indexes : list Z) : tres plan :=
  tbind (lift_res (sub_tree_index 0 N [])) (fun stx =>
  tbind (plan_stx h N stx [] []) (fun otj =>
    let ord1 := fst (fst otj) in
    let tiles1 := snd (fst otj) in
    tbind (plan_indexes h N indexes ord1 tiles1) (fun oti =>
      TOk (mkPlan (snd (fst oti)) (fst (fst oti)) (length tiles1) stx (snd otj) (snd oti))))).

(* for i, tile := range tiles { if len(data[i]) != tile.W*HashSize { … } }  (len(data) = len(tiles) checked before) *)
Fixpoint check_lengths (tiles : list tile) (data : list str) : bool :=
  match tiles, data with
  | [], _ => true
  | t :: tr, d :: dr => (len d =? tW t * hash_size) && check_lengths tr dr
  | _ :: _, [] => false
  end.

Section Hash.
Variable node_hash : hash -> hash -> hash.

(* HashFromTile(tiles[j], data[j], x); tiles[j] or data[j] out of range is a Go panic *)
Definition hash_at (tiles : list tile) (data : list str) (j : nat) (x : Z) : tres hash :=
  match nth_error tiles j, nth_error data j with
  | Some t, Some d => hash_from_tile node_hash t d x
  | _, _ => TPanic
  end.

(* th, err := HashFromTile(… stx[len(stx)-1]); for i := len(stx)-2; i >= 0; i-- { h, err := HashFromTile(… stx[i]); th = NodeHash(h, th) }
   the argument is the list of (stxTileOrder[i], stx[i]) in reverse order: evaluation order of Go *)
Fixpoint stx_hashes (tiles : list tile) (data : list str) (rjx : list (nat * Z)) : tres (list hash) :=
  match rjx with
  | [] => TOk []
  | (j, x) :: r =>
      tbind (hash_at tiles data j x) (fun hh =>
      tbind (stx_hashes tiles data r) (fun hs => TOk (hh :: hs)))
  end.

(* th = NodeHash(h, th) over the hashes in Go's evaluation order (last stx first) *)
Definition fold_rev (rhs : list hash) : option hash :=
  match rhs with
  | [] => None                                                   (* stx[len(stx)-1] with len(stx) = 0 *)
  | h0 :: r => Some (fold_left (fun th hh => node_hash hh th) r h0)
  end.

Definition auth_stx (p : plan) (data : list str) (root : hash) : tres unit :=
  tbind (stx_hashes (p_tiles p) data (rev (combine (p_stx_order p) (p_stx p)))) (fun rhs =>
    match fold_rev rhs with
    | None => TPanic
    | Some th => if str_eqb th root then TOk tt else TErr TEInconsistent
    end).

(* for i := numStxTiles; i < len(tiles); i++ { tile := tiles[i]; p := tileParent(tile, 1, r.tree.N); … }
   rest = the (i, tiles[i]) for i >= numStxTiles *)
Fixpoint auth_rest (N : Z) (ord : order) (tiles : list tile) (data : list str)
                   (rest : list (nat * tile)) : tres unit :=
  match rest with
  | [] => TOk tt
  | (i, t) :: r =>
      let p := tile_parent t 1 N in
      match lookup p ord with
      | None => TErr TEBadMath                                   (* lost parent of *)
      | Some j =>
          match nth_error data j with
          | None => TPanic
          | Some dj =>
              match hash_from_tile node_hash p dj (stored_hash_index (tL p * tH p) (tN t)) with
              | TPanic => TPanic
              | TErr _ => TErr TEBadMath                         (* lost hash of *)
              | TOk hh =>
                  match nth_error data i with
                  | None => TPanic
                  | Some di =>
                      tbind (tile_hash node_hash di) (fun hi =>
                        if str_eqb hh hi then auth_rest N ord tiles data r
                        else TErr TEInconsistent)
                  end
              end
          end
      end
  end.

(* for i, x := range indexes { j := indexTileOrder[i]; h, err := HashFromTile(tiles[j], data[j], x); … } *)
Fixpoint extract (tiles : list tile) (data : list str) (xj : list (Z * nat)) : tres (list hash) :=
  match xj with
  | [] => TOk []
  | (x, j) :: r =>
      match hash_at tiles data j x with
      | TPanic => TPanic
      | TErr _ => TErr TEBadMath                                 (* lost hash *)
      | TOk hh => tbind (extract tiles data r) (fun hs => TOk (hh :: hs))
      end
  end.

(* everything after ReadTiles returned data without error *)
Definition check_and_extract (tree : Z * hash) (p : plan) (indexes : list Z) (data : list str)
  : tres (list hash) * option (list tile * list str) :=
  let N := fst tree in
  let tiles := p_tiles p in
  if negb (Nat.eqb (length data) (length tiles)) then (TErr TEBadResult, None)
  else if negb (check_lengths tiles data) then (TErr TEBadResult, None)
  else
    match auth_stx p data (snd tree) with
    | TPanic => (TPanic, None)
    | TErr e => (TErr e, None)
    | TOk _ =>
        let rest := skipn (p_nstx p) (combine (seq 0 (length tiles)) tiles) in
        match auth_rest N (p_order p) tiles data rest with
        | TPanic => (TPanic, None)
        | TErr e => (TErr e, None)
        | TOk _ =>
            (* r.tr.SaveTiles(tiles, data) *)
            (extract tiles data (combine indexes (p_index_order p)), Some (tiles, data))
        end
    end.

Definition tile_read_hashes (tree : Z * hash) (h : Z) (indexes : list Z) (read_tiles : tile_reader)
  : tres (list hash) * option (list tile * list str) :=
  if (h <? 1) || (62 <? h) then (TErr TEDomain, None)
  else
    match make_plan (fst tree) h indexes with
    | TPanic => (TPanic, None)
    | TErr e => (TErr e, None)
    | TOk p =>
        match read_tiles (p_tiles p) with
        | None => (TErr TEReader, None)
        | Some data => check_and_extract tree p indexes data
        end
    end.

End Hash.
